(* C20 (part iii) - the crash theorems instantiated with the concrete JSON codec: no hypothesis
   about print/parse is left.  First the file-system theorems once more, relative to a predicate
   [good] on documents for which the two codec facts hold (the versions in Proofs/Persist.v are the
   instance good := True); then good d := wfj d /\ is_container d for jprint/jparse. *)
From Coq Require Import List NArith Arith Bool Lia.
From AHK Require Import Lib.Res Lib.ByteStr Model.Persist Proofs.Persist Model.PersistJson Proofs.PersistJson.
Import ListNotations.

Section CodecGood.
  Variable data : Type.
  Variable print : data -> bytes.
  Variable parse : bytes -> option data.
  Variable good : data -> Prop.
  Hypothesis parse_print : forall d, good d -> parse (print d) = Some d.
  Hypothesis prefix_none : forall d p, good d -> strict_prefix p (print d) -> parse p = None.

  Notation load := (load data parse).

  Theorem atomic_crash_safe_g : forall st f t h cs j D D' n st',
      good D -> good D' ->
      t <> f -> quiescent st f j -> content st j = print D -> concat cs = print D' ->
      crash_view (crash_after n (save_atomic h t f cs) st) st' ->
      load st' f = Loaded D \/ load st' f = Loaded D'.
  Proof.
    intros st f t h cs j D D' n st' GD GD' Htf (Q1 & Q2 & Q3 & Q4 & Q5) Hold Hnew Hv.
    unfold crash_after in Hv. rewrite save_atomic_split in Hv.
    destruct (firstn_snoc_cases n (atomic_pre h t cs) (Rename t f)) as [E|E]; rewrite E in Hv.
    - left.
      assert (K : kept f j (print D) (length (print D)) (run (firstn n (atomic_pre h t cs)) st)).
      { apply kept_run; [|apply forallb_firstn, atomic_pre_no_touch; auto].
        unfold kept. rewrite <- Hold. repeat split; auto. }
      destruct K as (K1 & _ & _ & _ & K5 & K6).
      unfold Persist.load. erewrite view_read_durable; eauto; [|now rewrite K6, K5].
      rewrite K5. cbn. now rewrite parse_print.
    - right. rewrite <- save_atomic_split in Hv.
      destruct (atomic_final h t f cs st Htf) as (i & A & B & C). cbn zeta in *.
      unfold Persist.load. erewrite view_read_durable; eauto.
      rewrite B, Hnew. cbn. now rewrite parse_print.
  Qed.

  Theorem inplace_truncate_loses_g : forall st f h cs j D' st',
      good D' -> names st f = Some j -> concat cs = print D' -> print D' <> [] ->
      crash_view (crash_after 1 (save_inplace h f cs) st) st' ->
      load st' f = Broken.
  Proof.
    intros st f h cs j D' st' GD' Hf Hnew Hne Hv.
    destruct (inplace_state h f cs 0 st j Hf) as (A & s & B). cbn zeta in *.
    destruct (view_read_prefix _ _ f j Hv A) as (k & R).
    assert (C : content (crash_after 1 (save_inplace h f cs) st) j = []).
    { unfold crash_after, save_inplace. cbn [firstn]. unfold run. cbn [fold_left step content].
      unfold target_ino. rewrite Hf. now rewrite upd_same. }
    rewrite C, firstn_nil in R.
    unfold Persist.load. rewrite R. cbn [Persist.load_bytes].
    rewrite (prefix_none D' []); [reflexivity|exact GD'|].
    exists (print D'). split; auto.
  Qed.

  Variable cache : Type.
  Variable empty : cache.
  Variable wrap : cache -> data.
  Variable get_pairings : data -> option cache.
  Hypothesis get_wrap : forall c, get_pairings (wrap c) = Some c.

  Notation cache_load_bytes := (cache_load_bytes data parse cache empty get_pairings).
  Notation cache_load := (cache_load data parse cache empty get_pairings).

  Lemma cache_prefix_safe_g :
    (forall c p, good (wrap c) -> strict_prefix p (print (wrap c)) -> cache_load_bytes (Some p) = Ok empty) /\
    (forall bs, parse bs = None -> cache_load_bytes (Some bs) = Ok empty) /\
    cache_load_bytes None = Ok empty.
  Proof.
    split; [|split].
    - intros c p G H. cbn. now rewrite (prefix_none _ _ G H).
    - intros bs H. cbn. now rewrite H.
    - reflexivity.
  Qed.

  Theorem cache_inplace_crash_total_g : forall st f h cs j c c' n st',
      good (wrap c) -> good (wrap c') ->
      quiescent st f j -> content st j = print (wrap c) -> concat cs = print (wrap c') ->
      crash_view (crash_after n (save_inplace h f cs) st) st' ->
      cache_load st' f = Ok c \/ cache_load st' f = Ok c' \/ cache_load st' f = Ok empty.
  Proof.
    intros st f h cs j c c' n st' G G' (Q1 & Q2 & Q3 & Q4 & Q5) Hold Hnew Hv.
    assert (V : forall x, good (wrap x) -> cache_load_bytes (Some (print (wrap x))) = Ok x).
    { intros x Gx. cbn. now rewrite (parse_print _ Gx), get_wrap. }
    destruct n as [|k].
    - left. unfold crash_after in Hv. cbn in Hv. unfold Persist.cache_load.
      erewrite view_read_durable; eauto. rewrite Hold. now apply V.
    - right. destruct (inplace_state h f cs k st j Q1) as (A & B). cbn zeta in *.
      destruct (view_read_prefix _ _ f j Hv A) as (m & R).
      unfold Persist.cache_load. rewrite R.
      assert (P : exists s, print (wrap c') = firstn m (content (crash_after (S k) (save_inplace h f cs) st) j) ++ s).
      { rewrite <- Hnew. eapply prefix_trans; [apply firstn_prefix|exact B]. }
      destruct (prefix_cases _ _ P) as [E|E].
      + left. rewrite E. now apply V.
      + right. cbn [Persist.cache_load_bytes]. now rewrite (prefix_none _ _ G' E).
  Qed.
End CodecGood.

(* ------------------------------------------------------------ instantiation with JSON *)
Definition jgood (d : json) : Prop := wfj d = true /\ is_container d = true.

Lemma j_parse_print ind d : jgood d -> jparse (jprint ind d) = Some d.
Proof. intros [H _]. now apply jparse_jprint. Qed.
Lemma j_prefix_none ind d p : jgood d -> strict_prefix p (jprint ind d) -> jparse p = None.
Proof. intros [H1 H2]. now apply jparse_prefix_none. Qed.

Theorem save_crash_safe_json_l : forall ind st f t h cs j D D' n st',
    jgood D -> jgood D' ->
    t <> f -> quiescent st f j -> content st j = jprint ind D -> concat cs = jprint ind D' ->
    crash_view (crash_after n (save_atomic h t f cs) st) st' ->
    load json jparse st' f = Loaded D \/ load json jparse st' f = Loaded D'.
Proof.
  intros ind. apply (atomic_crash_safe_g json (jprint ind) jparse jgood (j_parse_print ind)).
Qed.

Theorem save_inplace_loses_data_json_l : forall ind st f h cs j D' st',
    jgood D' -> names st f = Some j -> concat cs = jprint ind D' ->
    crash_view (crash_after 1 (save_inplace h f cs) st) st' ->
    load json jparse st' f = Broken.
Proof.
  intros ind st f h cs j D' st' G Hf Hc Hv.
  apply (inplace_truncate_loses_g json (jprint ind) jparse jgood (j_prefix_none ind) st f h cs j D' st' G Hf Hc); [|exact Hv].
  destruct G as [_ G]. destruct (container_head ind D' G) as (c & t & E & _). rewrite E. discriminate.
Qed.

Theorem cache_prefix_safe_json_l : forall ind,
    (forall c p, wfj c = true -> strict_prefix p (jprint ind (jwrap c)) ->
                 cache_load_bytes json jparse json (JO []) jget_pairings (Some p) = Ok (JO [])) /\
    (forall bs, jparse bs = None -> cache_load_bytes json jparse json (JO []) jget_pairings (Some bs) = Ok (JO [])) /\
    cache_load_bytes json jparse json (JO []) jget_pairings None = Ok (JO []).
Proof.
  intros ind.
  destruct (cache_prefix_safe_g json (jprint ind) jparse jgood (j_prefix_none ind) json (JO []) jwrap jget_pairings) as (A & B & C).
  split; [|split; [exact B|exact C]].
  intros c p Hw Hp. apply (A c p); [|exact Hp]. now apply wfj_jwrap.
Qed.

Theorem cache_save_crash_total_json_l : forall ind st f h cs j c c' n st',
    wfj c = true -> wfj c' = true ->
    quiescent st f j -> content st j = jprint ind (jwrap c) -> concat cs = jprint ind (jwrap c') ->
    crash_view (crash_after n (save_inplace h f cs) st) st' ->
    cache_load json jparse json (JO []) jget_pairings st' f = Ok c \/
    cache_load json jparse json (JO []) jget_pairings st' f = Ok c' \/
    cache_load json jparse json (JO []) jget_pairings st' f = Ok (JO []).
Proof.
  intros ind st f h cs j c c' n st' Hc Hc'.
  apply (cache_inplace_crash_total_g json (jprint ind) jparse jgood (j_parse_print ind) (j_prefix_none ind)
           json (JO []) jwrap jget_pairings jget_jwrap); now apply wfj_jwrap.
Qed.

(* non-vacuity: a pairing-file shaped document and a cache shaped document, both printers *)
Local Open Scope N_scope.
Definition s_ (l : list N) : bytes := l.
Definition ex_doc : json :=
  JO [(s_ [195; 164], JO [(s_ [73; 68], JStrT (s_ [65; 92; 34; 66])); (s_ [80], JNumT (s_ [53; 49; 56; 50; 54]));
                          (s_ [76], JA [JStrT (s_ [49]); JNumT (s_ [45; 49; 46; 53; 101; 43; 50]); JB true; JN; JA []; JO []])]);
      (s_ [98], JO [])].
Lemma ex_doc_good : jgood ex_doc /\ jgood (jwrap ex_doc).
Proof. repeat split; vm_compute; reflexivity. Qed.
Lemma ex_doc_prints :
  jprint false ex_doc = s_ [123;34;195;164;34;58;123;34;73;68;34;58;34;65;92;34;66;34;44;34;80;34;58;53;49;56;50;54;44;34;76;34;58;91;34;49;34;44;45;49;46;53;101;43;50;44;116;114;117;101;44;110;117;108;108;44;91;93;44;123;125;93;125;44;34;98;34;58;123;125;125]
  /\ jparse (jprint false ex_doc) = Some ex_doc /\ jparse (jprint true ex_doc) = Some ex_doc
  /\ length (jprint true ex_doc) = 148%nat
  /\ forallb (fun k => match jparse (firstn k (jprint true ex_doc)) with None => true | Some _ => false end)
             (seq 0%nat 148%nat) = true.
Proof. repeat split; vm_compute; reflexivity. Qed.
