(* C18 extension: (1) the repaired delivery (fix 242be4e): an authentic fresh notification
   always advances the number, delivered or not, and its replay is ignored; (2) the 16-bit
   inner counter: exact bound on what can be accepted, dead end at 65535; (3) broadcast key
   (re)generation on one long-lived pairing (OSetKey), roll-over of the state number. *)
From Coq Require Import List NArith ZArith Arith Bool Lia ZifyN ZifyNat ZifyBool.
From AHK Require Import Lib.ByteStr Model.Bcast Proofs.Bcast Proofs.BcastHist Proofs.BcastOps.
Import ListNotations.
Open Scope N_scope.

(* ---- (1) delivered or not ------------------------------------------------------ *)

Lemma deliver_cases p pt :
  (exists f v, find_char (iid_of pt) (p_chars p) = Some f /\ from_bytes f (value_of pt) = inr v /\
               deliver p pt = (OAccepted, [(p_id p, 1, iid_of pt, v)])) \/
  (find_char (iid_of pt) (p_chars p) = None /\ deliver p pt = (OUndelivered CkNoChar, [])) \/
  (exists f ck, find_char (iid_of pt) (p_chars p) = Some f /\ from_bytes f (value_of pt) = inl ck /\
                ck <> CkNoChar /\ deliver p pt = (OUndelivered ck, [])).
Proof.
  unfold deliver. destruct (find_char _ _) as [f|] eqn:Ef.
  - destruct (from_bytes f (value_of pt)) as [ck|v] eqn:Eb.
    + right; right. exists f, ck. split; [reflexivity|]. split; [exact Eb|]. split; [|reflexivity].
      intros ->. unfold from_bytes in Eb.
      destruct f; repeat match type of Eb with
                         | context [match ?x with _ => _ end] => destruct x
                         end; discriminate.
    + left. exists f, v. split; [reflexivity|]. split; [exact Eb|reflexivity].
  - right; left. now split.
Qed.

(* an authentic fresh notification ALWAYS advances the stored number to n, raises
   nothing, and calls the listeners exactly when its value could be decoded; the poll
   fallback is taken exactly when the characteristic is unknown *)
Lemma fresh_always_advances w p a body n pt :
  fresh_w w p a body n pt ->
  exists o cl, notify_w w p a body = (with_sn p n, o, cl) /\
    ((o = OAccepted /\ exists f v, find_char (iid_of pt) (p_chars p) = Some f /\
                                   from_bytes f (value_of pt) = inr v /\ cl = [(p_id p, 1, iid_of pt, v)])
     \/ (exists ck, o = OUndelivered ck /\ cl = [])) /\
    (falls_back o = true <-> find_char (iid_of pt) (p_chars p) = None).
Proof.
  intros Hf. rewrite (notify_complete _ _ _ _ _ _ Hf).
  destruct (deliver_cases p pt) as [(f & v & Hc & Hb & ->)|[(Hc & ->)|(f & ck & Hc & Hb & Hne & ->)]];
    cbn [fst snd]; do 2 eexists; (split; [reflexivity|]); split.
  - left. split; [reflexivity|]. now exists f, v.
  - cbn [falls_back]. rewrite Hc. split; discriminate.
  - right. now exists CkNoChar.
  - cbn [falls_back]. now split.
  - right. now exists ck.
  - rewrite Hc. destruct ck; cbn [falls_back]; split; try discriminate; try congruence.
Qed.

(* ... and afterwards the same advertisement is ignored, whether or not it was delivered *)
Lemma replay_after_fresh w p a body n pt :
  fresh_w w p a body n pt ->
  exists o, notify_w w (with_sn p n) a body = (with_sn p n, o, []).
Proof.
  intros Hf. pose proof Hf as (k & s & Ek & Es & _).
  apply notify_ignored. intros n' pt'.
  apply (not_fresh_old_for w (with_sn p n) a body n n' pt' k n).
  - exact Ek.
  - reflexivity.
  - exact (fresh_old_for _ _ _ _ _ _ _ Ek Hf).
  - lia.
Qed.

(* ---- (2) the inner counter has 16 bits ---------------------------------------- *)

Lemma gsn_of_bound pt : all_bytes pt = true -> gsn_of pt < 65536.
Proof.
  unfold gsn_of, all_bytes. destruct pt as [|x [|y r]]; cbn [firstn forallb le_dec]; intros H.
  - lia.
  - apply andb_true_iff in H. destruct H as [Hx _]. unfold is_byte in Hx. apply N.ltb_lt in Hx. lia.
  - apply andb_true_iff in H. destruct H as [Hx H]. apply andb_true_iff in H. destruct H as [Hy _].
    unfold is_byte in Hx, Hy. apply N.ltb_lt in Hx, Hy. lia.
Qed.

(* exact window: an accepted number satisfies s < n <= min (s + 99, 65535) *)
Lemma fresh_bound w p a body n pt :
  fresh_w w p a body n pt -> all_bytes pt = true -> n <= 65535.
Proof.
  intros (k & s & _ & _ & _ & _ & Hg) Hb. pose proof (gsn_of_bound pt Hb). lia.
Qed.

(* a pairing that stores 65535 (or more) accepts no broadcast of real bytes at all: only
   another route (poll, regular advertisement, roll-over handling) can move it on *)
Lemma dead_at_max w c hdr k m a pt c' o cl j p s :
  wf_ctrl c -> detect_w w c (hdr, PSeal k m a pt) = (c', o, cl) -> nth_error c j = Some p ->
  p_sn p = Some s -> 65535 <= s -> all_bytes pt = true ->
  nth_error c' j = Some p /\ calls_for (p_id p) cl = [].
Proof.
  intros Hwf Hd Hn Hs Hmax Hb. apply (detect_ignored_j w _ _ _ _ _ _ _ _ Hwf Hd Hn).
  intros _ n pt' Hf. pose proof Hf as (k' & s' & _ & Es & Hop & Hw & _).
  apply aopen_seal in Hop. destruct Hop as (_ & _ & _ & ->).
  pose proof (fresh_bound _ _ _ _ _ _ Hf Hb). rewrite Hs in Es. inversion Es; subst. lia.
Qed.

(* ---- (3) key (re)generation on a long-lived pairing ---------------------------- *)

Lemma setkey_j w c j p k' :
  wf_ctrl c -> nth_error c j = Some p -> p_sig p = true ->
  nth_error (fst (fst (apply_w w c (OSetKey (p_id p) k')))) j = Some (with_key p k').
Proof.
  intros Hwf Hn Hsig. cbn [apply_w fst]. rewrite (upd_j _ _ _ _ _ Hwf Hn), beq_bytes_refl.
  unfold setkey_p. now rewrite Hsig.
Qed.

(* after the key was regenerated, everything sealed under any other key - in particular
   every notification of the previous key epoch, whatever its counter - is ignored *)
Lemma rotated_old_key_ignored w c j p k' hdr k m a pt :
  wf_ctrl c -> nth_error c j = Some p -> p_sig p = true -> k <> k' ->
  let c1 := fst (fst (apply_w w c (OSetKey (p_id p) k'))) in
  let r := detect_w w c1 (hdr, PSeal k m a pt) in
  nth_error (fst (fst r)) j = Some (with_key p k') /\ calls_for (p_id p) (snd r) = [].
Proof.
  intros Hwf Hn Hsig Hk c1 r.
  pose proof (setkey_j w c j p k' Hwf Hn Hsig) as Hq. fold c1 in Hq.
  assert (Hwf1 : wf_ctrl c1) by (apply apply_wf; assumption).
  subst r. destruct (detect_w w c1 (hdr, PSeal k m a pt)) as [[c2 o2] cl2] eqn:Hd. cbn [fst snd].
  apply (detect_ignored_j w _ _ _ _ _ _ _ _ Hwf1 Hd Hq).
  intros _ n pt'. apply not_fresh_wrong_key. cbn. congruence.
Qed.

(* without a signature characteristic the method returns early: the key stays *)
Lemma setkey_without_sig w c j p k' :
  wf_ctrl c -> nth_error c j = Some p -> p_sig p = false ->
  nth_error (fst (fst (apply_w w c (OSetKey (p_id p) k')))) j = Some p.
Proof.
  intros Hwf Hn Hsig. cbn [apply_w fst]. rewrite (upd_j _ _ _ _ _ Hwf Hn), beq_bytes_refl.
  unfold setkey_p. now rewrite Hsig.
Qed.

(* ---- (4) the roll-over inside the connected-event callback ---------------------- *)

Lemma final_ops_app w c h1 h2 : final_ops_w w c (h1 ++ h2) = final_ops_w w (final_ops_w w c h1) h2.
Proof. unfold final_ops_w. apply fold_left_app. Qed.

Lemma update_j w c j p n :
  wf_ctrl c -> nth_error c j = Some p ->
  nth_error (fst (fst (apply_w w c (OUpdate (p_id p) n)))) j = Some (update_p n p).
Proof.
  intros Hwf Hn. cbn [apply_w fst]. now rewrite (upd_j _ _ _ _ _ Hwf Hn), beq_bytes_refl.
Qed.

(* In EVERY state the roll-over passes through - request in flight, request failed, request
   completed - an advertisement of the old epoch (sealed under a key other than the new one,
   counter <= the accessory's last number g) is ignored. *)
Lemma rollover_event_safe w c j p g s0 k' hdr k m a pt :
  wf_ctrl c -> nth_error c j = Some p -> p_sig p = true -> p_sn p = Some s0 ->
  rolls g = true -> m <= g -> k <> k' ->
  let i := p_id p in
  let ignored c2 := nth_error (fst (fst (detect_w w c2 (hdr, PSeal k m a pt)))) j = nth_error c2 j /\
                    calls_for i (snd (detect_w w c2 (hdr, PSeal k m a pt))) = [] in
  ignored (final_ops_w w c (event_begin i g)) /\
  ignored (final_ops_w w c (event_begin i g ++ event_end i g ReqFail)) /\
  ignored (final_ops_w w c (event_begin i g ++ event_end i g (ReqOk k'))).
Proof.
  intros Hwf Hn Hsig Hs Hr Hm Hk i ignored. unfold event_begin, event_end. rewrite Hr.
  rewrite app_nil_r.
  set (c1 := final_ops_w w c [OUpdate i g]).
  assert (Hn1 : nth_error c1 j = Some (update_p g p)) by (apply update_j; assumption).
  assert (Hwf1 : wf_ctrl c1) by (apply (final_ops_wf w c [OUpdate i g]); assumption).
  assert (Hu : update_p g p = with_psn (with_sn p g) (Some g)) by (unfold update_p; now rewrite Hs).
  assert (I1 : ignored c1).
  { unfold ignored. destruct (detect_w w c1 (hdr, PSeal k m a pt)) as [[c2 o2] cl2] eqn:Hd. cbn [fst snd].
    destruct (detect_ignored_j w _ _ _ _ _ _ _ _ Hwf1 Hd Hn1) as (H1 & H2).
    - intros _ n pt'. apply (not_fresh_old w _ _ k m a pt n pt' g); [rewrite Hu; reflexivity|assumption].
    - rewrite H1, Hn1. split; [reflexivity|]. rewrite Hu in H2. exact H2. }
  split; [exact I1|]. split; [exact I1|].
  change (final_ops_w w c ([OUpdate i g] ++ [OSetKey i k'; OUpdate i 1]))
    with (final_ops_w w c ([OUpdate i g] ++ [OSetKey i k'; OUpdate i 1])).
  rewrite final_ops_app. fold c1.
  set (c2 := fst (fst (apply_w w c1 (OSetKey i k')))).
  assert (Hid1 : p_id (update_p g p) = i) by (rewrite Hu; reflexivity).
  assert (Hn2 : nth_error c2 j = Some (with_key (update_p g p) k')).
  { unfold c2. rewrite <- Hid1. apply setkey_j; [assumption|assumption|]. rewrite Hu. exact Hsig. }
  assert (Hwf2 : wf_ctrl c2) by (apply apply_wf; assumption).
  set (q := with_key (update_p g p) k') in *.
  assert (Hidq : p_id q = i) by (unfold q; rewrite Hu; reflexivity).
  set (c3 := final_ops_w w c1 [OSetKey i k'; OUpdate i 1]).
  assert (Hn3 : nth_error c3 j = Some (update_p 1 q)).
  { unfold c3. change (final_ops_w w c1 [OSetKey i k'; OUpdate i 1]) with (fst (fst (apply_w w c2 (OUpdate i 1)))).
    rewrite <- Hidq. apply update_j; assumption. }
  assert (Hwf3 : wf_ctrl c3) by (apply (final_ops_wf w c1 [OSetKey i k'; OUpdate i 1]); assumption).
  assert (Hkey : p_key (update_p 1 q) = Some k').
  { unfold update_p. destruct (p_sn q); reflexivity. }
  assert (Hid3 : p_id (update_p 1 q) = i).
  { unfold update_p. destruct (p_sn q); exact Hidq. }
  unfold ignored. destruct (detect_w w c3 (hdr, PSeal k m a pt)) as [[c4 o4] cl4] eqn:Hd. cbn [fst snd].
  destruct (detect_ignored_j w _ _ _ _ _ _ _ _ Hwf3 Hd Hn3) as (H1 & H2).
  - intros _ n pt'. apply not_fresh_wrong_key. rewrite Hkey. congruence.
  - rewrite H1, Hn3. split; [reflexivity|]. now rewrite Hid3 in H2.
Qed.

(* ---- (5) the poll as a suspendable operation ---------------------------------- *)
(* whatever happened while the poll was hanging (h: advertisements, accepted broadcasts, other
   operations), a FAILED poll changes nothing: no accepted number is un-accepted *)
Lemma failed_poll_changes_nothing w c i h :
  final_ops_w w c (poll_begin i ++ h ++ poll_end i PollFail) = final_ops_w w c h.
Proof. cbn [poll_begin poll_end app]. now rewrite app_nil_r. Qed.

(* hence an advertisement accepted while the poll was hanging is still ignored as a replay
   after the poll failed *)
Lemma replay_after_failed_poll w c i hdr body h2 j p k n :
  wf_ctrl c ->
  nth_error c j = Some p -> p_key p = Some k ->
  accepts_at w c (hdr, body) j n ->
  let c2 := final_ops_w w c (poll_begin i ++ (OAdv (hdr, body) :: map OAdv h2) ++ poll_end i PollFail) in
  let r := detect_w w c2 (hdr, body) in
  sn_at (fst (fst r)) j = sn_at c2 j /\ calls_for (p_id p) (snd r) = [].
Proof.
  intros Hwf Hn Hk Hacc c2 r.
  assert (E : c2 = final_w w (fst (fst (detect_w w c (hdr, body)))) h2).
  { unfold c2. rewrite failed_poll_changes_nothing. cbn [final_ops_w fold_left apply_w].
    unfold final_w. generalize (fst (fst (detect_w w c (hdr, body)))). induction h2 as [|f r0 IH]; intros c0; [reflexivity|].
    cbn [map fold_left apply_w]. apply IH. }
  subst r. rewrite E.
  exact (no_replay_same w c [] hdr body h2 j p k n Hwf Hn Hk Hacc).
Qed.

(* ---- examples --------------------------------------------------------------------- *)
Definition rx_id : bytes := [1;2;3;4;5;6].
Definition rx_p (s : N) : pairing := mkP rx_id (Some 7) (Some s) (Some s) [(11, FU8)] true.
Definition rx_seal (k n : N) : frame :=
  ([17;54;1;2;3;4;5;6], PSeal k n rx_id [n mod 256; (n / 256) mod 256; 11;0;42;0;0;0;0;0;0;0]).

(* roll-over handled as the code does it (new number 1 AND a new key): the old epoch's
   notification for counter 2 is ignored, the new epoch's is accepted; a restart keeps the
   new key *)
Lemma rollover_with_rotation :
  let '(c1, o1, _) := apply [rx_p 65534] (OAdv (rx_seal 7 65535)) in
  let '(c2, o2, _) := apply c1 (OAdv (rx_seal 7 65536)) in
  let '(c3, _, _) := apply c2 (OSetKey rx_id 8) in
  let '(c4, _, _) := apply c3 (OUpdate rx_id 1) in
  let '(c5, o5, _) := apply c4 (OAdv (rx_seal 7 2)) in
  let '(c6, _, _) := apply c5 ORestart in
  let '(c7, o7, cl7) := apply c6 (OAdv (rx_seal 8 2)) in
  (o1, map p_sn c1) = (OAccepted, [Some 65535]) /\ o2 = OMismatch /\
  (o5, map p_sn c5) = (ONoDecrypt, [Some 1]) /\
  (o7, cl7, map p_sn c7, map p_key c7) = (OAccepted, [(rx_id, 1, 11, VInt 42)], [Some 2], [Some 8]).
Proof. vm_compute. repeat split. Qed.

(* OBSERVATION: a roll-over of the number WITHOUT a new key re-admits the previous epoch *)
Lemma rollover_without_rotation_replay :
  let '(c1, o1, _) := apply [rx_p 1] (OAdv (rx_seal 7 2)) in
  let '(c2, o2, _) := apply c1 (OAdv (rx_seal 7 2)) in
  let '(c3, _, _) := apply c2 (OUpdate rx_id 65535) in
  let '(c4, _, _) := apply c3 (OUpdate rx_id 1) in
  let '(c5, o5, cl5) := apply c4 (OAdv (rx_seal 7 2)) in
  o1 = OAccepted /\ o2 = OStale /\ (o5, cl5) = (OAccepted, [(rx_id, 1, 11, VInt 42)]).
Proof. vm_compute. repeat split. Qed.

(* undelivered but advanced: unknown iid (poll fallback), short value, then the replay *)
Lemma undelivered_example :
  let f1 := ([17;54;1;2;3;4;5;6], PSeal 7 11 rx_id [11;0;99;0;42;0;0;0;0;0;0;0]) in
  let f2 := ([17;54;1;2;3;4;5;6], PSeal 7 12 rx_id [12;0;11;0]) in
  let '(c1, o1, cl1) := apply [rx_p 10] (OAdv f1) in
  let '(c2, o2, cl2) := apply c1 (OAdv f1) in
  let '(c3, o3, cl3) := apply c2 (OAdv f2) in
  (o1, cl1, map p_sn c1, falls_back o1) = (OUndelivered CkNoChar, [], [Some 11], true) /\
  (o2, cl2, map p_sn c2) = (OStale, [], [Some 11]) /\
  (o3, cl3, map p_sn c3, falls_back o3) = (OUndelivered CkStruct, [], [Some 12], false).
Proof. vm_compute. repeat split. Qed.

(* OBSERVATION: the two effects in the other order (number first, key second): while the key
   request is in flight - or for good when it fails - the previous epoch is accepted again *)
Lemma rollover_number_before_key_replay :
  let wrong_begin := [OUpdate rx_id 65534; OUpdate rx_id 1] in
  let c1 := final_ops [rx_p 65533] wrong_begin in
  let '(c2, o2, cl2) := apply c1 (OAdv (rx_seal 7 5)) in
  let right := final_ops [rx_p 65533] (event_begin rx_id 65534) in
  let '(c3, o3, cl3) := apply right (OAdv (rx_seal 7 5)) in
  (o2, cl2, map p_sn c2) = (OAccepted, [(rx_id, 1, 11, VInt 42)], [Some 5]) /\
  (o3, cl3, map p_sn c3) = (ONoDecrypt, [], [Some 65534]).
Proof. vm_compute. repeat split. Qed.
