(* C06 - lemmas shared by the three counter machines: channel equality, the
   per-channel view of a log, fresh-nonce bookkeeping. *)
From Coq Require Import List Arith Bool Lia PeanoNat FinFun.
From AHK Require Import Model.Counters.
Import ListNotations.

Lemma dir_eqb_eq : forall a b, dir_eqb a b = true <-> a = b.
Proof. destruct a, b; cbn; split; intro H; try reflexivity; discriminate. Qed.

Lemma chan_eqb_eq : forall a b : chan, chan_eqb a b = true <-> a = b.
Proof.
  intros [e d] [e' d']. unfold chan_eqb. cbn [fst snd].
  rewrite andb_true_iff, Nat.eqb_eq, dir_eqb_eq. split.
  - intros [-> ->]. reflexivity.
  - intro H. inversion H. auto.
Qed.

Lemma chan_eqb_refl : forall a, chan_eqb a a = true.
Proof. intro a. apply chan_eqb_eq. reflexivity. Qed.

Lemma chan_eqb_neq : forall a b : chan, a <> b -> chan_eqb a b = false.
Proof.
  intros a b H. destruct (chan_eqb a b) eqn:E; [|reflexivity].
  apply chan_eqb_eq in E. contradiction.
Qed.

Lemma nid_eqb_eq : forall a b : nid, nid_eqb a b = true <-> a = b.
Proof.
  intros [c n] [c' n']. unfold nid_eqb. cbn [fst snd].
  rewrite andb_true_iff, chan_eqb_eq, Nat.eqb_eq. split.
  - intros [-> ->]. reflexivity.
  - intro H. inversion H. auto.
Qed.

Lemma opens_true : forall x f, opens x f = true -> f = Genuine x.
Proof.
  intros x [y|]; cbn; intro H; [|discriminate].
  apply nid_eqb_eq in H. subst. reflexivity.
Qed.

Lemma opens_genuine : forall x y, opens x (Genuine y) = true <-> x = y.
Proof. intros. cbn. apply nid_eqb_eq. Qed.

Lemma opens_other_chan : forall c n c' m, c <> c' -> opens (c, n) (Genuine (c', m)) = false.
Proof.
  intros. destruct (opens (c, n) (Genuine (c', m))) eqn:E; [|reflexivity].
  apply opens_genuine in E. inversion E. contradiction.
Qed.

(* ------------------------------------------------------------ nids / pref *)
Lemma nids_in : forall c n k x, In x (nids c n k) <-> fst x = c /\ n <= snd x < n + k.
Proof.
  intros c n k [c' m]. unfold nids. rewrite in_map_iff. cbn [fst snd]. split.
  - intros (j & E & I). inversion E. subst. apply in_seq in I. split; [reflexivity|lia].
  - intros (-> & H). exists m. split; [reflexivity|]. apply in_seq. lia.
Qed.

Lemma nids_nodup : forall c n k, NoDup (nids c n k).
Proof.
  intros. unfold nids. apply Injective_map_NoDup; [|apply seq_NoDup].
  intros a b H. inversion H. reflexivity.
Qed.

Lemma nids_app : forall c n k k', nids c n (k + k') = nids c n k ++ nids c (n + k) k'.
Proof. intros. unfold nids. rewrite seq_app, map_app. reflexivity. Qed.

Lemma pref_snoc : forall c m, pref c (S m) = pref c m ++ [(c, m)].
Proof.
  intros. unfold pref. replace (S m) with (m + 1) by lia. rewrite nids_app. reflexivity.
Qed.

Lemma pref_0 : forall c, pref c 0 = [].
Proof. reflexivity. Qed.

(* ------------------------------------------------------------------ under *)
Lemma under_app : forall c a b, under c (a ++ b) = under c a ++ under c b.
Proof. intros. apply filter_app. Qed.

Lemma under_one_same : forall c n, under c [(c, n)] = [(c, n)].
Proof. intros. cbn. rewrite chan_eqb_refl. reflexivity. Qed.

Lemma under_one_other : forall c c' n, c' <> c -> under c [(c', n)] = [].
Proof. intros. cbn. rewrite chan_eqb_neq by assumption. reflexivity. Qed.

Lemma under_none : forall c l, (forall x, In x l -> fst x <> c) -> under c l = [].
Proof.
  intros c l H. induction l as [|x r IH]; [reflexivity|]. cbn.
  rewrite chan_eqb_neq by (apply H; left; reflexivity).
  apply IH. intros y Hy. apply H. right. exact Hy.
Qed.

Lemma under_nil : forall c, under c [] = [].
Proof. reflexivity. Qed.

Lemma filter_snoc_false : forall A (f : A -> bool) l x, f x = false -> filter f (l ++ [x]) = filter f l.
Proof. intros. rewrite filter_app. cbn. rewrite H. apply app_nil_r. Qed.

Lemma filter_none : forall A (f : A -> bool) l, (forall x, In x l -> f x = false) -> filter f l = [].
Proof.
  intros A f l H. induction l as [|x r IH]; [reflexivity|]. cbn.
  rewrite (H x) by (left; reflexivity). apply IH. intros y Hy. apply H. right. exact Hy.
Qed.

(* ------------------------------------------------------------------ NoDup *)
Lemma NoDup_app_intro : forall A (a b : list A),
    NoDup a -> NoDup b -> (forall x, In x a -> ~ In x b) -> NoDup (a ++ b).
Proof.
  intros A a b Ha Hb H. induction a as [|x r IH]; [exact Hb|].
  cbn. inversion Ha as [|? ? Hx Hr]. subst. constructor.
  - rewrite in_app_iff. intros [I|I]; [contradiction|]. apply (H x); [left; reflexivity|exact I].
  - apply IH; [exact Hr|]. intros y Hy. apply H. right. exact Hy.
Qed.

Lemma nodupb_sound : forall l, nodupb l = false -> ~ NoDup l.
Proof.
  induction l as [|x r IH]; cbn; [discriminate|].
  intros H N. inversion N as [|? ? Hx Hr]. subst.
  apply andb_false_iff in H. destruct H as [H|H].
  - apply negb_false_iff in H. apply existsb_exists in H. destruct H as (y & Hy & E).
    apply nid_eqb_eq in E. subst. contradiction.
  - exact (IH H Hr).
Qed.

(* ----------------------------------------------------------- failed_in etc *)
Lemma existsb_snoc : forall A (f : A -> bool) l x, existsb f (l ++ [x]) = existsb f l || f x.
Proof. intros. rewrite existsb_app. cbn. rewrite orb_false_r. reflexivity. Qed.

Lemma existsb_outs_fail : forall e e' c ids,
    existsb (fun o : nat * nat * rclass => Nat.eqb (fst (fst o)) e && rclass_bad (snd o)) (outs e' c ids) = true ->
    e' = e.
Proof.
  intros e e' c ids H. apply existsb_exists in H. destruct H as (o & I & H).
  unfold outs in I. apply in_map_iff in I. destruct I as (id & <- & _). cbn in H.
  apply andb_true_iff in H. destruct H as [H _]. apply Nat.eqb_eq in H. exact H.
Qed.

Lemma in_outs_ep : forall e c ids o, In o (outs e c ids) -> fst (fst o) = e.
Proof.
  intros e c ids o I. unfold outs in I. apply in_map_iff in I. destruct I as (id & <- & _). reflexivity.
Qed.

Lemma failed_in_seal : forall xs L e, failed_in (add_seal xs L) e = failed_in L e.
Proof. reflexivity. Qed.
Lemma failed_in_wire : forall xs L e, failed_in (add_wire xs L) e = failed_in L e.
Proof. reflexivity. Qed.
Lemma failed_in_acc : forall xs L e, failed_in (add_acc xs L) e = failed_in L e.
Proof. reflexivity. Qed.

Lemma failed_in_out_eq : forall xs L e,
    failed_in (add_out xs L) e =
    failed_in L e || existsb (fun o => Nat.eqb (fst (fst o)) e && rclass_bad (snd o)) xs.
Proof.
  intros. unfold failed_in, add_out. cbn [l_out l_open]. rewrite existsb_app.
  rewrite <- !orb_assoc. f_equal. apply orb_comm.
Qed.

Lemma failed_in_open_eq : forall xs L e,
    failed_in (add_open xs L) e =
    failed_in L e || existsb (fun o => Nat.eqb (fst (fst (fst o))) e && negb (snd o)) xs.
Proof.
  intros. unfold failed_in, add_open. cbn [l_out l_open]. rewrite existsb_app.
  rewrite orb_assoc. reflexivity.
Qed.

Lemma failed_in_out : forall xs L e, failed_in (add_out xs L) e = true ->
    failed_in L e = true \/ exists o, In o xs /\ fst (fst o) = e /\ rclass_bad (snd o) = true.
Proof.
  intros xs L e H. rewrite failed_in_out_eq in H. apply orb_true_iff in H. destruct H as [H|H]; [left; exact H|].
  right. apply existsb_exists in H. destruct H as (o & I & B). exists o.
  apply andb_true_iff in B. destruct B as [B1 B2]. apply Nat.eqb_eq in B1. auto.
Qed.

Lemma failed_in_open : forall xs L e, failed_in (add_open xs L) e = true ->
    failed_in L e = true \/ exists o, In o xs /\ fst (fst (fst o)) = e /\ snd o = false.
Proof.
  intros xs L e H. rewrite failed_in_open_eq in H. apply orb_true_iff in H. destruct H as [H|H]; [left; exact H|].
  right. apply existsb_exists in H. destruct H as (o & I & B). exists o.
  apply andb_true_iff in B. destruct B as [B1 B2]. apply Nat.eqb_eq in B1.
  apply negb_true_iff in B2. auto.
Qed.
