(* C07, part 1: facts about one parser step: progress shrinks the buffer,
   every progress step except the partial Content-Length take is prefix-stable. *)
From Coq Require Import List NArith ZArith Arith Bool Lia ZifyN ZifyNat ZifyBool.
From AHK Require Import Lib.ByteStr Model.Http.
Import ListNotations.

Lemma firstn_app_le {A} n (l b : list A) : n <= length l -> firstn n (l ++ b) = firstn n l.
Proof.
  intros H. rewrite firstn_app. replace (n - length l) with 0 by lia.
  cbn [firstn]. apply app_nil_r.
Qed.

Lemma skipn_app_le {A} n (l b : list A) : n <= length l -> skipn n (l ++ b) = skipn n l ++ b.
Proof.
  intros H. rewrite skipn_app. replace (n - length l) with 0 by lia. reflexivity.
Qed.

Lemma nil_b_false {A} (l : list A) : nil_b l = false -> l <> [].
Proof. destruct l; [discriminate|]. intros _ H; discriminate. Qed.

Lemma nil_b_app_false {A} (l b : list A) : nil_b l = false -> nil_b (l ++ b) = false.
Proof. destruct l; [discriminate|reflexivity]. Qed.

(* ---- find_crlf ---- *)

Lemma find_crlf_app r : forall l rest b,
    find_crlf r = Some (l, rest) -> find_crlf (r ++ b) = Some (l, rest ++ b).
Proof.
  induction r as [|x t IH]; intros l rest b H; [discriminate|].
  cbn [find_crlf app] in *.
  destruct (N.eqb x 13 && starts_lf t) eqn:E.
  - inversion H; subst. apply andb_true_iff in E as [E1 E2].
    destruct t as [|y t']; [discriminate|].
    cbn [starts_lf app tl] in *. rewrite E1, E2. reflexivity.
  - destruct (find_crlf t) as [[a r']|] eqn:F; [|discriminate].
    inversion H; subst.
    rewrite (IH _ _ b eq_refl).
    destruct t as [|y t']; [discriminate|].
    cbn [starts_lf app] in *. rewrite E. reflexivity.
Qed.

Lemma find_crlf_len r : forall l rest,
    find_crlf r = Some (l, rest) -> length r = length l + 2 + length rest.
Proof.
  induction r as [|x t IH]; intros l rest H; [discriminate|].
  cbn [find_crlf] in H.
  destruct (N.eqb x 13 && starts_lf t) eqn:E.
  - inversion H; subst. destruct t as [|y t']; [rewrite andb_false_r in E; discriminate|].
    cbn [tl length]. lia.
  - destruct (find_crlf t) as [[a r']|] eqn:F; [|discriminate].
    inversion H; subst. cbn [length]. rewrite (IH _ _ eq_refl). lia.
Qed.

(* ---- outcomes ---- *)

Definition out_app (o : outcome) (b : bytes) : outcome :=
  match o with
  | Wait => Wait
  | Next p r => Next p (r ++ b)
  | Emit m r => Emit m (r ++ b)
  | Stop k => Stop k
  end.

Definition out_len (o : outcome) : option nat :=
  match o with
  | Next _ r => Some (length r)
  | Emit _ r => Some (length r)
  | _ => None
  end.

Lemma lift_app x rest b : out_app (lift x rest) b = lift x (rest ++ b).
Proof. destruct x; reflexivity. Qed.

Lemma lift_len x rest n : out_len (lift x rest) = Some n -> n = length rest.
Proof. destruct x; cbn; intros H; inversion H; reflexivity. Qed.

(* the one step that is not prefix-stable: a Content-Length body that takes
   everything in the buffer and still is not complete *)
Definition partial (p : pst) (r : bytes) : bool :=
  match ph p with
  | Body =>
      negb (chunked p) && Z.ltb 0 (clen p) && negb (nil_b r)
      && Z.ltb (Z.of_nat (length r)) (clen p - Z.of_nat (length (body p)))
  | _ => false
  end.

(* progress consumes at least one byte *)
Lemma step_shrinks p r n : out_len (step p r) = Some n -> n < length r.
Proof.
  unfold step. destruct (ph p).
  - unfold line_step. destruct (find_crlf r) as [[l rest]|] eqn:F; [|discriminate].
    intros H. apply lift_len in H. apply find_crlf_len in F. lia.
  - unfold line_step. destruct (find_crlf r) as [[l rest]|] eqn:F; [|discriminate].
    intros H. apply lift_len in H. apply find_crlf_len in F. lia.
  - destruct (chunked p).
    + unfold chunk_step. destruct (find_crlf r) as [[l rest]|] eqn:F; [|discriminate].
      apply find_crlf_len in F.
      destruct (int16 l) as [z|]; [|discriminate].
      destruct (Z.ltb z 0); [discriminate|].
      destruct (Z.ltb (Z.of_nat (length rest)) (z + 2)); [discriminate|].
      destruct (Z.eqb z 0).
      * intros H. apply lift_len in H. rewrite skipn_length in H. lia.
      * cbn [out_len]. intros H. inversion H. rewrite skipn_length. lia.
    + destruct (Z.ltb 0 (clen p)); [|discriminate].
      unfold body_step. destruct r as [|x r]; [discriminate|]. cbn [nil_b].
      destruct (Z.leb (clen p - Z.of_nat (length (body p))) 0) eqn:E1; [discriminate|].
      destruct (Z.ltb _ _) eqn:E2.
      * cbn [out_len]. intros H; inversion H. cbn [length]. lia.
      * intros H. apply lift_len in H. rewrite skipn_length in H. cbn [length] in *. lia.
Qed.

(* prefix stability *)
Lemma step_app p r b :
  step p r <> Wait -> partial p r = false -> step p (r ++ b) = out_app (step p r) b.
Proof.
  unfold step, partial. destruct (ph p).
  - intros HW _. unfold line_step in *.
    destruct (find_crlf r) as [[l rest]|] eqn:F; [|congruence].
    rewrite (find_crlf_app _ _ _ b F). symmetry. apply lift_app.
  - intros HW _. unfold line_step in *.
    destruct (find_crlf r) as [[l rest]|] eqn:F; [|congruence].
    rewrite (find_crlf_app _ _ _ b F). symmetry. apply lift_app.
  - destruct (chunked p).
    + intros HW _. unfold chunk_step in *.
      destruct (find_crlf r) as [[l rest]|] eqn:F; [|congruence].
      rewrite (find_crlf_app _ _ _ b F).
      destruct (int16 l) as [z|]; [|reflexivity].
      destruct (Z.ltb z 0) eqn:Ez; [reflexivity|].
      destruct (Z.ltb (Z.of_nat (length rest)) (z + 2)) eqn:E1; [congruence|].
      assert (E2 : Z.ltb (Z.of_nat (length (rest ++ b))) (z + 2) = false)
        by (rewrite app_length; lia).
      rewrite E2.
      destruct (Z.eqb z 0).
      * rewrite lift_app. rewrite skipn_app_le by lia. reflexivity.
      * cbn [out_app]. rewrite firstn_app_le by lia. rewrite skipn_app_le by lia. reflexivity.
    + cbn [negb andb].
      destruct (Z.ltb 0 (clen p)); [|congruence].
      cbn [andb]. intros HW HP. unfold body_step in *.
      destruct (nil_b r) eqn:Er; [congruence|].
      rewrite (nil_b_app_false _ b Er).
      cbn [negb andb] in HP.
      destruct (Z.leb (clen p - Z.of_nat (length (body p))) 0) eqn:E0; [congruence|].
      rewrite HP.
      assert (E2 : Z.ltb (Z.of_nat (length (r ++ b))) (clen p - Z.of_nat (length (body p))) = false)
        by (rewrite app_length; lia).
      rewrite E2. rewrite lift_app.
      rewrite firstn_app_le by lia. rewrite skipn_app_le by lia. reflexivity.
Qed.

(* what the partial take does *)
Lemma step_partial p r :
  partial p r = true -> step p r = Next (set_body p (body p ++ r)) [].
Proof.
  unfold partial, step. destruct (ph p); try discriminate.
  destruct (chunked p); [discriminate|]. cbn [negb andb].
  destruct (Z.ltb 0 (clen p)); [|discriminate]. cbn [andb].
  destruct (nil_b r) eqn:Er; [discriminate|]. cbn [negb andb].
  intros H. unfold body_step. rewrite Er, H.
  destruct (Z.leb (clen p - Z.of_nat (length (body p))) 0) eqn:E0; [lia|reflexivity].
Qed.
