(* C14, round 9: the step grid does not depend on the sign of the declared step.
   (The code takes abs(int(min_step)) in the exact-integer branch and divides by /
   multiplies with the signed step in the six-digit branch; [spec_int] is the
   specification [int_exact] proves the model equal to.) *)
From Coq Require Import ZArith Lia.
From AHK Require Import Proofs.ConvertInt.
Local Open Scope Z_scope.

Lemma spec_int_step_sign : forall omin omax s v,
  spec_int omin omax (Some (- s)) v = spec_int omin omax (Some s) v.
Proof.
  intros. unfold spec_int, rhaz.
  rewrite Z.sgn_opp, Z.abs_opp.
  destruct (Z.eqb_spec s 0) as [->|H].
  - reflexivity.
  - destruct (Z.eqb_spec (- s) 0) as [H'|_]; [lia|]. ring.
Qed.
