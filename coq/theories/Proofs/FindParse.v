(* C19 - lemmas about the advertisement parsers of Model/Find.v: totality, round trips,
   and the callbacks built on them *)
From Coq Require Import List NArith ZArith Arith Bool Lia ZifyN ZifyNat ZifyBool.
From AHK Require Import Lib.Res Lib.ByteStr Model.Find Proofs.FindLts.
Import ListNotations.
Ltac Zify.zify_post_hook ::= Z.to_euclidean_division_equations.
Open Scope N_scope.

(* ------------------------------------------------------------------ list facts *)
Lemma len6 {A} (l : list A) : length l = 6%nat -> exists a b c d e f, l = [a; b; c; d; e; f].
Proof.
  destruct l as [|a [|b [|c [|d [|e [|f [|g l]]]]]]]; cbn; intros H; try discriminate.
  now exists a, b, c, d, e, f.
Qed.

Lemma slice_len (l : bytes) a b : (a <= b)%nat -> (b <= length l)%nat -> length (slice l a b) = (b - a)%nat.
Proof. intros H1 H2. unfold slice. rewrite firstn_length, skipn_length. lia. Qed.

(* ------------------------------------------------------------------ totality *)
Lemma adv_parse_total md : (exists a, adv_parse md = Ok a) \/ adv_parse md = Err ValueError.
Proof.
  destruct md as [data|]; [|right; reflexivity]. unfold adv_parse.
  destruct data as [|t rest]; [right; reflexivity|].
  change (nil_b (t :: rest)) with false. cbv iota.
  change (nth_crash (t :: rest) 0) with (@Ok perr N t). cbn [rbind].
  destruct (negb (t =? 6)); [right; reflexivity|].
  destruct (length (t :: rest) <? 15)%nat eqn:L; [right; reflexivity|].
  apply Nat.ltb_ge in L.
  unfold nth_crash. destruct (nth_error (t :: rest) 2) eqn:E2.
  2: { apply nth_error_None in E2. lia. }
  cbn [rbind].
  destruct (len6 (slice (t :: rest) 9 15)) as (a0 & a1 & g0 & g1 & cn & cv & ->).
  { apply slice_len; lia. }
  cbn [unpack_hhbb rbind]. left. eexists. reflexivity.
Qed.

Lemma notif_parse_total md : (exists a, notif_parse md = Ok a) \/ notif_parse md = Err ValueError.
Proof.
  destruct md as [data|]; [|right; reflexivity]. unfold notif_parse.
  destruct data as [|t rest]; [right; reflexivity|].
  change (nil_b (t :: rest)) with false. cbv iota.
  change (nth_crash (t :: rest) 0) with (@Ok perr N t). cbn [rbind].
  destruct (negb (t =? 17)); [right; reflexivity|]. left. eexists. reflexivity.
Qed.

Lemma int_field_total k d p : (exists z, int_field k d p = Ok z) \/ int_field k d p = Err ValueError.
Proof.
  unfold int_field. destruct (alookup k p); [|left; eexists; reflexivity].
  destruct (py_int b); [left; eexists; reflexivity|right; reflexivity].
Qed.

Lemma svc_parse_total s : (exists h, from_service_info s = Ok h) \/ from_service_info s = Err ValueError.
Proof.
  unfold from_service_info.
  destruct (nil_b (ordered (si_addrs s))); [right; reflexivity|].
  destruct (filter addr_ok (ordered (si_addrs s))) as [|a v]; [right; reflexivity|].
  cbn [nil_b hd_crash rbind].
  unfold dict_index. destruct (alookup k_id (hk_props (si_text s))) as [idv|]; [|right; reflexivity].
  cbn [rbind].
  destruct (int_field_total k_cn 0%Z (hk_props (si_text s))) as [[z1 ->]| ->]; cbn [rbind]; [|right; reflexivity].
  destruct (int_field_total k_sn 0%Z (hk_props (si_text s))) as [[z2 ->]| ->]; cbn [rbind]; [|right; reflexivity].
  destruct (int_field_total k_ff 0%Z (hk_props (si_text s))) as [[z3 ->]| ->]; cbn [rbind]; [|right; reflexivity].
  destruct (int_field_total k_sf 0%Z (hk_props (si_text s))) as [[z4 ->]| ->]; cbn [rbind]; [|right; reflexivity].
  destruct (int_field_total k_ci 1%Z (hk_props (si_text s))) as [[z5 ->]| ->]; cbn [rbind]; [|right; reflexivity].
  left. eexists. reflexivity.
Qed.

(* ------------------------------------------------------------------ callbacks *)
Lemma mdns_callback_no_raise c s si : good c -> ~ In Raised (snd (mdns_callback c s si)).
Proof.
  intros G. unfold mdns_callback. destruct (svc_parse_total si) as [[h ->]| ->].
  - now apply step_no_raise.
  - cbn. tauto.
Qed.

Lemma ble_callback_no_raise c s md : good c -> ~ In Raised (snd (ble_callback c s md)).
Proof.
  intros G. unfold ble_callback. destruct md as [data|]; [|cbn; tauto].
  destruct data as [|t rest]; [cbn; tauto|].
  change (nil_b (t :: rest)) with false. cbv iota.
  change (nth_crash (t :: rest) 0) with (@Ok perr N t). cbv iota.
  destruct (t =? 17).
  - destruct (notif_parse_total (@Some bytes (t :: rest))) as [[h ->]| ->]; cbn; tauto.
  - destruct (negb (t =? 6)); [cbn; tauto|].
    destruct (adv_parse_total (@Some bytes (t :: rest))) as [[h ->]| ->].
    + now apply step_no_raise.
    + cbn. tauto.
Qed.

(* an advertisement that does not parse changes nothing *)
Lemma mdns_callback_ignored c s si :
  from_service_info si = Err ValueError -> mdns_callback c s si = (s, []).
Proof. intros H. unfold mdns_callback. now rewrite H. Qed.

Lemma mdns_callback_parsed c s si h :
  from_service_info si = Ok h -> mdns_callback c s si = step c s (Adv (Some (svc_descr h))).
Proof. intros H. unfold mdns_callback. now rewrite H. Qed.

Lemma ble_callback_parsed c s data a :
  nth_error data 0 = Some 6 -> adv_parse (Some data) = Ok a ->
  ble_callback c s (Some data) = step c s (Adv (Some (adv_descr a))).
Proof.
  intros H0 H. unfold ble_callback. destruct data as [|t rest]; [discriminate|]. cbn in H0. inversion H0; subst.
  change (nil_b (6 :: rest)) with false. cbv iota.
  change (nth_crash (6 :: rest) 0) with (@Ok perr N 6). cbv iota.
  change (6 =? 17) with false. change (negb (6 =? 6)) with false. cbv iota. now rewrite H.
Qed.

(* ------------------------------------------------------------------ BLE round trips *)
Definition adv_wf (f : advfields) : Prop :=
  length (af_dev f) = 6%nat /\ af_cat f < 65536 /\ af_sn f < 65536
  /\ (af_sh f = [] \/ length (af_sh f) = 4%nat).

Lemma adv_roundtrip f :
  adv_wf f ->
  adv_parse (Some (render_adv f)) =
  Ok {| ha_id := fmt_id (af_dev f); ha_cat := af_cat f; ha_sf := af_sf f; ha_cn := af_cn f;
        ha_sn := af_sn f; ha_sh := af_sh f |}.
Proof.
  destruct f as [x sf dev cat sn cn cv sh]. unfold adv_wf. cbn [af_dev af_cat af_sn af_sh af_sf af_cn af_x af_cv].
  intros (Hd & Hc & Hs & Hh).
  destruct (len6 dev Hd) as (d0 & d1 & d2 & d3 & d4 & d5 & ->).
  assert (E1 : cat mod 256 + 256 * (cat / 256 mod 256) = cat) by lia.
  assert (E2 : sn mod 256 + 256 * (sn / 256 mod 256) = sn) by lia.
  destruct Hh as [->|Hh].
  - unfold render_adv, adv_parse. cbn -[N.mul N.add N.modulo N.div hexd]. rewrite E1, E2. reflexivity.
  - destruct sh as [|h0 [|h1 [|h2 [|h3 [|h4 sh]]]]]; cbn in Hh; try discriminate.
    unfold render_adv, adv_parse. cbn -[N.mul N.add N.modulo N.div hexd]. rewrite E1, E2. reflexivity.
Qed.

Lemma notif_roundtrip x advid payload :
  length advid = 6%nat ->
  notif_parse (Some (render_notif x advid payload)) =
  Ok {| hn_id := fmt_id advid; hn_advid := advid; hn_payload := payload |}.
Proof.
  intros H. destruct (len6 advid H) as (d0 & d1 & d2 & d3 & d4 & d5 & ->).
  unfold render_notif, notif_parse. cbn. reflexivity.
Qed.

(* the id produced by the BLE parsers is already lower case: 17 characters xx:xx:xx:xx:xx:xx *)
Lemma hexd_lower n : n < 16 -> lower1 (hexd n) = hexd n.
Proof.
  intros H. unfold hexd, lower1. destruct (n <? 10) eqn:E.
  - assert (65 <=? 48 + n = false) by lia. rewrite H0. reflexivity.
  - assert (87 + n <=? 90 = false) by lia. rewrite H0. rewrite andb_false_r. reflexivity.
Qed.

Lemma fmt_id_lower x : Forall (fun b => b < 256) x -> lower (fmt_id x) = fmt_id x.
Proof.
  intros F. unfold fmt_id, lower. rewrite !map_app. cbn [map].
  assert (P : forall j, map lower1 (hexpiece x j) = hexpiece x j).
  { intros j. unfold hexpiece. destruct (nth_error x j) eqn:E; [|reflexivity].
    apply nth_error_In in E. rewrite Forall_forall in F. apply F in E.
    unfold hex2. cbn [map]. rewrite !hexd_lower; [reflexivity| |]; lia. }
  rewrite !map_app. cbn [map]. rewrite !P.
  repeat (rewrite ?map_app; cbn [map]; rewrite ?P).
  reflexivity.
Qed.
