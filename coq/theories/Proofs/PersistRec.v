(* C20 (part ii) - round trips of the record-level serialisers *)
From Coq Require Import List NArith ZArith Arith Bool Lia.
From AHK Require Import Lib.Res Lib.ByteStr Model.Persist Proofs.Persist Model.PersistRec.
Import ListNotations.
Open Scope Z_scope.

Lemma default_for_falsy f : otruthy (default_for f) = false.
Proof.
  unfold default_for.
  repeat match goal with |- context [if ?b then _ else _] => destruct b end; reflexivity.
Qed.

(* ------------------------------------------------------------ dictionary lookups *)
Fixpoint olook (k : ckey) (es : list (ckey * option jv)) : option jv :=
  match es with
  | [] => None
  | (k', o) :: r =>
      if ckey_eqb k k' then match o with Some v => Some v | None => olook k r end else olook k r
  end.

Lemma clook_app k a b :
  clook k (a ++ b) = match clook k a with Some v => Some v | None => clook k b end.
Proof.
  induction a as [|[k' v] a IH]; cbn; [reflexivity|]. destruct (ckey_eqb k k'); auto.
Qed.

Lemma clook_flat k es : clook k (flat_map opt_entry es) = olook k es.
Proof.
  induction es as [|[k' o] r IH]; cbn [flat_map olook]; [reflexivity|].
  rewrite clook_app. unfold opt_entry at 1. cbn [fst snd]. destruct o; cbn [clook].
  - destruct (ckey_eqb k k'); auto.
  - destruct (ckey_eqb k k'); auto.
Qed.

Lemma pyval_jsonval o : nn o = true -> pyval (jsonval o) = o.
Proof. destruct o as [[]|]; cbn; congruence. Qed.
Lemma pyval_nn v : nn (pyval v) = true.
Proof. destruct v; reflexivity. Qed.
Lemma pyval_some v : nn (Some v) = true -> pyval v = Some v.
Proof. destruct v; cbn; congruence. Qed.

Lemma perms_of_map l : perms_of (JArr (map JStr l)) = Some l.
Proof. cbn. induction l as [|x l IH]; cbn; [reflexivity|]. now rewrite IH. Qed.

Section RecProofs.
  Variable norm : bytes -> option bytes.
  Variable tbl : bytes -> ctab.

  Notation chr_from_dict := (chr_from_dict norm tbl).

  (* the fields the property lists; description and unit are display metadata which the
     loader re-derives from the per-type table when they are empty *)
  Definition forget_chr (c : chr) : chr :=
    mkchr (c_type c) (c_iid c) (c_perms c) (c_format c) (c_value c) None None
          (c_min c) (c_max c) (c_step c) (c_valid c) (c_handle c) (c_bcast c) (c_disc c).

  Definition value_ok (c : chr) : Prop :=
    match c_value c with
    | Some x =>
        has_pr (c_perms c) = true /\ nn (Some x) = true /\
        (fmt_is a_bool (c_format c) = true -> exists b, x = JBool b) /\
        exists v0, initial_value (c_perms c) (c_format c) (c_valid c) (c_min c) (c_max c) = Ok v0
    | None => initial_value (c_perms c) (c_format c) (c_valid c) (c_min c) (c_max c) = Ok None
    end.

  Definition wf_chr (c : chr) : Prop :=
    norm (c_type c) = Some (c_type c) /\
    nn (c_format c) = true /\ nn (c_min c) = true /\ nn (c_max c) = true /\ nn (c_step c) = true /\
    nn (c_valid c) = true /\ nn (c_handle c) = true /\ nn (c_bcast c) = true /\ nn (c_disc c) = true /\
    (c_min c = None -> t_min (tbl (c_type c)) = None) /\
    (c_max c = None -> t_max (tbl (c_type c)) = None) /\
    (c_step c = None -> t_step (tbl (c_type c)) = None) /\
    value_ok c.

  Lemma look_perms c : olook K_perms (chr_entries c) = Some (JArr (map JStr (c_perms c))).
  Proof. reflexivity. Qed.
  Lemma look_type c : olook K_type (chr_entries c) = Some (JStr (c_type c)).
  Proof. reflexivity. Qed.
  Lemma look_iid c : olook K_iid (chr_entries c) = Some (c_iid c).
  Proof. reflexivity. Qed.
  Lemma look_format c : olook K_format (chr_entries c) = Some (jsonval (c_format c)).
  Proof. reflexivity. Qed.
  Lemma look_value c : olook K_value (chr_entries c) = when (has_pr (c_perms c)) (jsonval (c_value c)).
  Proof. cbn. destruct (when _ _); reflexivity. Qed.
  Lemma look_desc c : olook K_description (chr_entries c) = when (otruthy (c_desc c)) (jsonval (c_desc c)).
  Proof. cbn. destruct (when _ _); reflexivity. Qed.
  Lemma look_unit c : olook K_unit (chr_entries c) = when (otruthy (c_unit c)) (jsonval (c_unit c)).
  Proof. cbn. destruct (when _ _); reflexivity. Qed.
  Lemma look_min c : olook K_minValue (chr_entries c) = c_min c.
  Proof. cbn. destruct (c_min c); reflexivity. Qed.
  Lemma look_max c : olook K_maxValue (chr_entries c) = c_max c.
  Proof. cbn. destruct (c_max c); reflexivity. Qed.
  Lemma look_step c : olook K_minStep (chr_entries c) = c_step c.
  Proof. cbn. destruct (c_step c); reflexivity. Qed.
  Lemma look_valid c : olook K_valid_values (chr_entries c) = c_valid c.
  Proof. cbn. destruct (c_valid c); reflexivity. Qed.
  Lemma look_handle c : olook K_handle (chr_entries c) = c_handle c.
  Proof. cbn. destruct (c_handle c); reflexivity. Qed.
  Lemma look_disc c : olook K_disconnected_events (chr_entries c) = c_disc c.
  Proof. cbn. destruct (c_disc c); reflexivity. Qed.
  Lemma look_bcast c : olook K_broadcast_events (chr_entries c) = c_bcast c.
  Proof. cbn. destruct (c_bcast c); reflexivity. Qed.

  Lemma cfg_some (o dflt : option jv) :
    nn o = true -> (o = None -> dflt = None) ->
    match o with Some v => pyval v | None => dflt end = o.
  Proof. destruct o as [v|]; intros H1 H2; [now apply pyval_some|now apply H2]. Qed.

  Theorem chr_roundtrip c :
    wf_chr c -> rmap forget_chr (chr_from_dict (chr_to_dict c)) = Ok (forget_chr c).
  Proof.
    intros (Hn & Hf & Hmn & Hmx & Hst & Hva & Hha & Hbc & Hdc & Tmn & Tmx & Tst & Hv).
    unfold PersistRec.chr_from_dict, chr_to_dict, cfg. rewrite !clook_flat.
    rewrite look_perms, look_type, look_iid, look_format, look_value, look_desc, look_unit,
            look_min, look_max, look_step, look_valid, look_handle, look_disc, look_bcast.
    rewrite Hn, perms_of_map.
    rewrite (pyval_jsonval _ Hf).
    rewrite (cfg_some (c_min c) _ Hmn Tmn), (cfg_some (c_max c) _ Hmx Tmx), (cfg_some (c_step c) _ Hst Tst).
    rewrite (cfg_some (c_valid c) None Hva (fun _ => eq_refl)), (cfg_some (c_handle c) None Hha (fun _ => eq_refl)),
            (cfg_some (c_bcast c) None Hbc (fun _ => eq_refl)), (cfg_some (c_disc c) None Hdc (fun _ => eq_refl)).
    unfold value_ok in Hv. destruct (c_value c) as [x|] eqn:Ev.
    - destruct Hv as (Hp & Hx & Hb & v0 & Hi). rewrite Hi. cbn [rbind]. rewrite Hp. cbn [when jsonval].
      assert (Hsv : set_value (c_format c) x = Some x).
      { unfold set_value. destruct (fmt_is a_bool (c_format c)) eqn:Eb; [|reflexivity].
        destruct (Hb eq_refl) as [b ->]. reflexivity. }
      destruct x; try (cbn in Hx; discriminate); rewrite Hsv; unfold rmap, forget_chr; cbn; now rewrite Ev.
    - rewrite Hv. cbn [rbind].
      assert (Hl : match when (has_pr (c_perms c)) (jsonval None) with
                   | Some JNull | None => @None jv | Some x => set_value (c_format c) x end = None)
        by (destruct (has_pr (c_perms c)); reflexivity).
      unfold rmap, forget_chr. cbn [rbind].
      destruct (has_pr (c_perms c)); cbn; now rewrite Ev.
  Qed.
End RecProofs.

(* ------------------------------------------------------------ services and accessories *)
Section AccProofs.
  Variable norm : bytes -> option bytes.
  Variable tbl : bytes -> ctab.

  Notation chars_from := (chars_from norm tbl).
  Notation services_from := (services_from norm tbl).
  Notation acc_from_dict := (acc_from_dict norm tbl).
  Notation accs_from := (accs_from norm tbl).
  Notation wf_chr := (wf_chr norm tbl).

  Definition forget_svc (s : svc) : svc := mksvc (s_iid s) (s_type s) (map forget_chr (s_chars s)) (s_linked s).
  Definition forget_acc (a : acc) : acc := mkacc (a_aid a) (map forget_svc (a_services a)).

  Lemma chars_roundtrip cs :
    Forall wf_chr cs ->
    exists cs', chars_from (map chr_to_dict cs) = Ok cs' /\ map forget_chr cs' = map forget_chr cs.
  Proof.
    induction 1 as [|c cs Hc _ IH]; [exists []; split; reflexivity|].
    destruct IH as (cs' & E1 & E2).
    pose proof (chr_roundtrip norm tbl c Hc) as R. unfold rmap in R.
    cbn [map PersistRec.chars_from].
    destruct (chr_from_dict norm tbl (chr_to_dict c)) as [c'| | |]; cbn [rbind] in R; try discriminate.
    assert (R' : forget_chr c' = forget_chr c) by congruence.
    cbn [rbind]. rewrite E1. cbn [rbind].
    exists (c' :: cs'). split; [reflexivity|]. cbn [map]. now rewrite R', E2.
  Qed.

  Definition is_id (v : jv) : Prop := exists z, v = JInt z /\ z <> 0.

  Lemma iid_eqb_refl v : is_id v -> iid_eqb v v = true.
  Proof. intros (z & -> & _). cbn. apply Z.eqb_refl. Qed.
  Lemma iid_eqb_sym a b : iid_eqb a b = iid_eqb b a.
  Proof. destruct a, b; cbn; auto. apply Z.eqb_sym. Qed.
  Lemma is_id_truthy v : is_id v -> truthy v = true.
  Proof. intros (z & -> & Hz). cbn. apply negb_true_iff. now apply Z.eqb_neq. Qed.

  (* well-formed service w.r.t. the set of services [all] of its accessory *)
  Definition wf_svc (all : list svc) (s : svc) : Prop :=
    is_id (s_iid s) /\ norm (s_type s) = Some (s_type s) /\ Forall wf_chr (s_chars s) /\
    forallb truthy (s_linked s) = true /\ forallb (fun l => has_iid l all) (s_linked s) = true.
  Definition wf_acc (a : acc) : Prop :=
    Forall (wf_svc (a_services a)) (a_services a) /\ distinct_iids (a_services a) = true.

  Definition strip (s : svc) : svc := mksvc (s_iid s) (s_type s) (s_chars s) [].

  Lemma services_roundtrip all ss : forall ctr,
    Forall (wf_svc all) ss ->
    exists ss', services_from ctr (map svc_to_dict ss) = Ok ss' /\
                map forget_svc ss' = map forget_svc (map strip ss) /\
                map s_iid ss' = map s_iid ss.
  Proof.
    induction ss as [|s ss IH]; intros ctr H; [exists []; repeat split; reflexivity|].
    inversion H as [|? ? Hs Hr]; subst.
    destruct Hs as (Hid & Hty & Hcs & _ & _).
    cbn [map PersistRec.services_from svc_to_dict sd_type sd_iid sd_chars].
    rewrite Hty. rewrite (is_id_truthy _ Hid).
    destruct (chars_roundtrip _ Hcs) as (cs' & E1 & E2). rewrite E1. cbn [rbind].
    destruct (IH (ctr + Z.of_nat (List.length (map chr_to_dict (s_chars s)))) Hr) as (ss' & F1 & F2 & F3).
    rewrite F1. cbn [rbind].
    exists (mksvc (s_iid s) (s_type s) cs' [] :: ss'). split; [reflexivity|]. split.
    - cbn [map]. unfold forget_svc at 1 3. cbn. now rewrite E2, F2.
    - cbn [map s_iid]. now rewrite F3.
  Qed.

  Lemma has_iid_map_iids i a b : map s_iid a = map s_iid b -> has_iid i a = has_iid i b.
  Proof.
    revert b. induction a as [|x a IH]; intros [|y b] H; try discriminate; [reflexivity|].
    cbn in H. inversion H as [[H1 H2]]. unfold has_iid. cbn [existsb]. rewrite H1. f_equal. now apply IH.
  Qed.

  Lemma true_links_to_dict s :
    forallb truthy (s_linked s) = true -> true_links (svc_to_dict s) = s_linked s.
  Proof.
    intros H. unfold true_links, svc_to_dict. cbn [sd_linked].
    destruct (s_linked s) as [|l r] eqn:E; [reflexivity|].
    rewrite <- E in *. clear E. induction (s_linked s) as [|x t IH]; [reflexivity|].
    cbn in H. apply andb_true_iff in H. destruct H as [H1 H2]. cbn. rewrite H1. f_equal. now apply IH.
  Qed.

  Lemma links_for_none i l :
    (forall x, In x l -> iid_eqb (s_iid x) i = false) -> links_for i (map svc_to_dict l) = [].
  Proof.
    induction l as [|x l IH]; intros H; [reflexivity|].
    unfold links_for. cbn [map flat_map svc_to_dict sd_iid]. rewrite (H x (or_introl eq_refl)). cbn [app].
    apply IH. intros y Hy. apply H. now right.
  Qed.

  Lemma has_iid_false i l : has_iid i l = false -> forall x, In x l -> iid_eqb (s_iid x) i = false.
  Proof.
    unfold has_iid. induction l as [|y l IH]; intros H x Hx; [destruct Hx|].
    cbn in H. apply orb_false_iff in H. destruct H as [H1 H2]. destruct Hx as [->|Hx]; auto.
  Qed.

  Lemma distinct_app_inv pre s post :
    distinct_iids (pre ++ s :: post) = true ->
    (forall x, In x pre -> iid_eqb (s_iid x) (s_iid s) = false) /\ has_iid (s_iid s) post = false.
  Proof.
    induction pre as [|p pre IH]; cbn [app distinct_iids]; intros H.
    - apply andb_true_iff in H. destruct H as [H _]. apply negb_true_iff in H. split; [intros x []|exact H].
    - apply andb_true_iff in H. destruct H as [H1 H2]. apply negb_true_iff in H1.
      destruct (IH H2) as [A B]. split; [|exact B]. intros x [->|Hx]; [|now apply A].
      rewrite iid_eqb_sym. apply (has_iid_false _ _ H1). apply in_or_app. right. now left.
  Qed.

  Lemma links_for_self pre s post :
    distinct_iids (pre ++ s :: post) = true -> is_id (s_iid s) -> forallb truthy (s_linked s) = true ->
    links_for (s_iid s) (map svc_to_dict (pre ++ s :: post)) = s_linked s.
  Proof.
    intros Hd Hid Ht. destruct (distinct_app_inv _ _ _ Hd) as [A B].
    rewrite map_app. unfold links_for. rewrite flat_map_app.
    fold (links_for (s_iid s) (map svc_to_dict pre)). rewrite (links_for_none _ _ A). cbn [app map flat_map].
    fold (links_for (s_iid s) (map svc_to_dict post)).
    rewrite (links_for_none _ _ (has_iid_false _ _ B)). rewrite app_nil_r.
    cbn [svc_to_dict sd_iid]. rewrite (iid_eqb_refl _ Hid).
    now apply true_links_to_dict.
  Qed.

  Lemma attach_roundtrip all : forall pre ss ss',
    all = pre ++ ss -> distinct_iids all = true -> Forall (wf_svc all) ss ->
    map forget_svc ss' = map forget_svc (map strip ss) -> map s_iid ss' = map s_iid ss ->
    map forget_svc (attach_links ss' (map svc_to_dict all)) = map forget_svc ss.
  Proof.
    intros pre ss. revert pre. induction ss as [|s ss IH]; intros pre ss' Hall Hd Hwf Hf Hi.
    - destruct ss'; [reflexivity|discriminate].
    - destruct ss' as [|s' ss']; [discriminate|].
      inversion Hwf as [|? ? Hs Hr]; subst.
      cbn [map] in Hf, Hi. inversion Hf as [[Hf1 Hf2]]. inversion Hi as [[Hi1 Hi2]].
      cbn [attach_links map].
      destruct (distinct_app_inv _ _ _ Hd) as [A B].
      rewrite (has_iid_map_iids _ ss' ss Hi2). rewrite Hi1, B.
      destruct Hs as (Hid & _ & _ & Ht & _).
      rewrite (links_for_self pre s ss Hd Hid Ht).
      f_equal.
      + unfold forget_svc in *. cbn in *. inversion Hf1. congruence.
      + apply (IH (pre ++ [s])); auto. now rewrite <- app_assoc.
  Qed.

  Lemma links_ok_roundtrip all ss' :
    map s_iid ss' = map s_iid all -> Forall (wf_svc all) all ->
    links_ok ss' (map svc_to_dict all) = true.
  Proof.
    intros Hi Hwf. unfold links_ok. apply forallb_forall. intros sd Hsd.
    apply in_map_iff in Hsd. destruct Hsd as (s & <- & Hs).
    rewrite Forall_forall in Hwf. destruct (Hwf s Hs) as (Hid & _ & _ & Ht & Hl).
    rewrite (true_links_to_dict _ Ht). cbn [svc_to_dict sd_iid].
    destruct (s_linked s) as [|l r]; [reflexivity|].
    apply andb_true_iff. split.
    - rewrite (has_iid_map_iids _ ss' all Hi). unfold has_iid. apply existsb_exists. exists s. split; auto.
      now apply iid_eqb_refl.
    - apply forallb_forall. intros x Hx. rewrite (has_iid_map_iids _ ss' all Hi).
      rewrite forallb_forall in Hl. now apply Hl.
  Qed.

  Theorem acc_roundtrip a :
    wf_acc a -> rmap forget_acc (acc_from_dict (acc_to_dict a)) = Ok (forget_acc a).
  Proof.
    intros [Hwf Hd]. unfold PersistRec.acc_from_dict, acc_to_dict. cbn [ad_aid ad_services].
    destruct (services_roundtrip (a_services a) (a_services a) 0 Hwf) as (ss' & E1 & E2 & E3).
    rewrite E1. cbn [rbind]. rewrite (links_ok_roundtrip _ _ E3 Hwf).
    unfold rmap. cbn [rbind]. unfold forget_acc. cbn [a_aid a_services]. f_equal. f_equal.
    now apply (attach_roundtrip (a_services a) [] (a_services a) ss').
  Qed.

  Theorem accs_roundtrip l :
    Forall wf_acc l -> rmap (map forget_acc) (accs_from (accs_to l)) = Ok (map forget_acc l).
  Proof.
    induction 1 as [|a l Ha _ IH]; [reflexivity|].
    unfold accs_to in *. cbn [map PersistRec.accs_from].
    pose proof (acc_roundtrip a Ha) as R. unfold rmap in *.
    destruct (acc_from_dict (acc_to_dict a)) as [a'| | |]; cbn in R; try discriminate.
    cbn [rbind]. destruct (accs_from (map acc_to_dict l)) as [l'| | |]; cbn in IH; try discriminate.
    cbn [rbind map]. inversion R. inversion IH. congruence.
  Qed.
End AccProofs.

(* ------------------------------------------------------------ broadcast key *)
Lemma hex_byte_ok :
  forallb (fun x => match hex_val (hex_digit (x / 16)%N), hex_val (hex_digit (x mod 16)%N) with
                    | Some a, Some b => N.eqb (16 * a + b) x
                    | _, _ => false
                    end) (map N.of_nat (seq 0 256)) = true.
Proof. vm_compute. reflexivity. Qed.

Lemma hex_byte x : (x < 256)%N ->
  exists a b, hex_val (hex_digit (x / 16)%N) = Some a /\ hex_val (hex_digit (x mod 16)%N) = Some b /\ (16 * a + b)%N = x.
Proof.
  intros H. pose proof hex_byte_ok as K. rewrite forallb_forall in K.
  specialize (K x). assert (I : In x (map N.of_nat (seq 0 256))).
  { apply in_map_iff. exists (N.to_nat x). split; [apply N2Nat.id|]. apply in_seq. lia. }
  specialize (K I).
  destruct (hex_val (hex_digit (x / 16)%N)) as [a|]; [|discriminate].
  destruct (hex_val (hex_digit (x mod 16)%N)) as [b|]; [|discriminate].
  exists a, b. repeat split; auto. now apply N.eqb_eq.
Qed.

Theorem hex_roundtrip b : all_bytes b = true -> hex_dec (hex_enc b) = Some b.
Proof.
  induction b as [|x b IH]; intros H; [reflexivity|].
  cbn in H. apply andb_true_iff in H. destruct H as [Hx Hb]. unfold is_byte in Hx. apply N.ltb_lt in Hx.
  cbn [hex_enc hex_dec]. destruct (hex_byte x Hx) as (a & c & -> & -> & E). rewrite (IH Hb). now rewrite E.
Qed.

(* ------------------------------------------------------------ cache entry *)
Section EntryProofs.
  Variable norm : bytes -> option bytes.
  Variable tbl : bytes -> ctab.

  Definition forget_state (s : astate) : astate :=
    mkas (map forget_acc (st_accs s)) (st_config s) (st_bkey s) (st_state s).
  Definition wf_state (s : astate) : Prop :=
    Forall (wf_acc norm tbl) (st_accs s) /\
    match st_bkey s with Some k => all_bytes k = true | None => True end.

  Theorem entry_roundtrip s :
    wf_state s -> rmap forget_state (entry_load norm tbl (entry_save s)) = Ok (forget_state s).
  Proof.
    intros [Ha Hk]. unfold entry_load, entry_save. cbn [e_accs e_config e_bkey e_state].
    pose proof (accs_roundtrip norm tbl _ Ha) as R. unfold rmap in R.
    destruct (accs_from norm tbl (accs_to (st_accs s))) as [l| | |]; cbn [rbind] in R; try discriminate.
    assert (R' : map forget_acc l = map forget_acc (st_accs s)) by congruence.
    cbn [rbind]. destruct (st_bkey s) as [k|] eqn:Ek.
    - rewrite (hex_roundtrip k Hk). unfold rmap, forget_state. cbn. now rewrite R', Ek.
    - unfold rmap, forget_state. cbn. now rewrite R', Ek.
  Qed.
End EntryProofs.

(* ------------------------------------------------------------ pairing records *)
Definition id_ok (d : pdata) : Prop := exists s, plook k_id d = Some (JStr s) /\ s <> [].
Definition wf_pdata (d : pdata) : Prop :=
  id_ok d /\
  ((str_is a_IP (plook k_conn d) = true /\ plook k_ip d <> None /\ plook k_port d <> None) \/
   (str_is a_CoAP (plook k_conn d) = true /\ plook k_ip d <> None /\ plook k_port d <> None) \/
   (str_is a_BLE (plook k_conn d) = true /\ plook k_addr d <> None)).

Lemma str_is_excl a b v : str_is a v = true -> bytes_eqb a b = false -> str_is b v = false.
Proof.
  destruct v as [[]|]; cbn; try discriminate. intros H1 H2. apply bytes_eqb_eq in H1. subst. exact H2.
Qed.

Theorem pairing_record_roundtrip d : wf_pdata d -> load_pairing d = LpLoaded d.
Proof.
  intros [(s & Hid & Hs) Hc]. unfold load_pairing.
  assert (Hconn : exists v, plook k_conn d = Some v).
  { destruct (plook k_conn d) eqn:E; [eauto|]. destruct Hc as [[H _]|[[H _]|[H _]]]; discriminate. }
  destruct Hconn as [cv Hcv]. rewrite Hcv. cbv beta iota zeta. rewrite Hcv. rewrite Hcv in Hc. rewrite Hid.
  assert (Ht : otruthy (Some (JStr s)) = true) by (destruct s; [congruence|reflexivity]).
  assert (Hn : negb (nil_b s) = true) by (destruct s; [congruence|reflexivity]).
  rewrite Ht, Hn.
  destruct Hc as [(H & Hi & Hp)|[(H & Hi & Hp)|(H & Ha)]].
  - rewrite H. destruct (plook k_ip d); [|congruence]. destruct (plook k_port d); [|congruence]. reflexivity.
  - rewrite (str_is_excl _ a_IP _ H eq_refl), H.
    destruct (plook k_ip d); [|congruence]. destruct (plook k_port d); [|congruence]. reflexivity.
  - rewrite (str_is_excl _ a_IP _ H eq_refl), (str_is_excl _ a_CoAP _ H eq_refl), H.
    destruct (plook k_addr d); [|congruence]. reflexivity.
Qed.

Theorem pairings_roundtrip l :
  Forall (fun ad => wf_pdata (snd ad)) l -> load_pairings (save_pairings l) = Some l.
Proof.
  unfold save_pairings. induction 1 as [|[a d] l H _ IH]; [reflexivity|].
  cbn [load_pairings]. cbn [snd] in H. rewrite (pairing_record_roundtrip d H). now rewrite IH.
Qed.

(* a legacy record without "Connection" gains Connection = "IP" and is otherwise unchanged *)
Lemma pairing_legacy d :
  plook k_conn d = None -> id_ok d -> plook k_ip d <> None -> plook k_port d <> None ->
  load_pairing d = LpLoaded (d ++ [(k_conn, JStr a_IP)]).
Proof.
  intros Hc (s & Hid & Hs) Hi Hp. unfold load_pairing. rewrite Hc. cbv beta iota zeta.
  assert (L : forall k, bytes_eqb k k_conn = false -> plook k (d ++ [(k_conn, JStr a_IP)]) = plook k d).
  { intros k Hk. clear -Hk. induction d as [|[k' v] d IH]; cbn [plook app]; [now rewrite Hk|]. destruct (bytes_eqb k k'); auto. }
  assert (Lc : plook k_conn (d ++ [(k_conn, JStr a_IP)]) = Some (JStr a_IP)).
  { clear -Hc. induction d as [|[k' v] d IH]; cbn [plook app]; [reflexivity|].
    cbn [plook] in Hc. destruct (bytes_eqb k_conn k'); [discriminate|auto]. }
  rewrite Lc, (L k_id eq_refl), (L k_ip eq_refl), (L k_port eq_refl), Hid.
  assert (Ht : otruthy (Some (JStr s)) = true) by (destruct s; [congruence|reflexivity]).
  assert (Hn : negb (nil_b s) = true) by (destruct s; [congruence|reflexivity]).
  rewrite Ht, Hn. cbn [str_is]. replace (bytes_eqb a_IP a_IP) with true by reflexivity.
  destruct (plook k_ip d); [|congruence]. destruct (plook k_port d); [|congruence]. reflexivity.
Qed.

(* ------------------------------------------------------------ decidable well-formedness
   (extracted: the driver reports for every generated entity map whether the objects the
   loader builds from it satisfy the hypotheses of the round-trip theorems) *)
Section WfDec.
  Variable norm : bytes -> option bytes.
  Variable tbl : bytes -> ctab.
  Notation norm_fixb := (norm_fixb norm).
  Notation wf_chrb := (wf_chrb norm tbl).
  Notation wf_svcb := (wf_svcb norm tbl).
  Notation wf_accb := (wf_accb norm tbl).

  Lemma norm_fixb_sound t : norm_fixb t = true -> norm t = Some t.
  Proof. unfold norm_fixb. destruct (norm t) as [t'|]; [|discriminate]. intros H. apply bytes_eqb_eq in H. now subst. Qed.
  Lemma tab_okb_sound f t : tab_okb f t = true -> f = None -> t = None.
  Proof. intros H ->. cbn in H. destruct t; [discriminate|reflexivity]. Qed.

  Lemma value_okb_sound c : value_okb c = true -> value_ok c.
  Proof.
    unfold value_okb, value_ok. destruct (c_value c) as [x|].
    - intros H. repeat (apply andb_true_iff in H; destruct H as [H ?]).
      repeat split; auto.
      + intros Hb. rewrite Hb in *. destruct x; try discriminate. eauto.
      + destruct (initial_value _ _ _ _ _) as [v0| | |]; try discriminate. eauto.
    - destruct (initial_value _ _ _ _ _) as [[v|]| | |]; try discriminate. reflexivity.
  Qed.

  Lemma wf_chrb_sound c : wf_chrb c = true -> wf_chr norm tbl c.
  Proof.
    unfold wf_chrb, wf_chr. intros H. repeat (apply andb_true_iff in H; destruct H as [H ?]).
    repeat split; auto using norm_fixb_sound, value_okb_sound; eapply tab_okb_sound; eauto.
  Qed.

  Lemma is_idb_sound v : is_idb v = true -> is_id v.
  Proof. destruct v; try discriminate. cbn. intros H. apply negb_true_iff, Z.eqb_neq in H. exists z. auto. Qed.

  Lemma forallb_Forall {A} (p : A -> bool) (P : A -> Prop) l :
    (forall x, p x = true -> P x) -> forallb p l = true -> Forall P l.
  Proof.
    intros H Hl. apply Forall_forall. intros x Hx. apply H. rewrite forallb_forall in Hl. now apply Hl.
  Qed.

  Lemma wf_svcb_sound all s : wf_svcb all s = true -> wf_svc norm tbl all s.
  Proof.
    unfold wf_svcb, wf_svc. intros H. repeat (apply andb_true_iff in H; destruct H as [H ?]).
    repeat split; auto using is_idb_sound, norm_fixb_sound.
    eapply forallb_Forall; [apply wf_chrb_sound|assumption].
  Qed.

  Lemma wf_accb_sound a : wf_accb a = true -> wf_acc norm tbl a.
  Proof.
    unfold wf_accb, wf_acc. intros H. apply andb_true_iff in H. destruct H as [H1 H2]. split; [|exact H2].
    eapply forallb_Forall; [apply wf_svcb_sound|assumption].
  Qed.

  Theorem accs_roundtrip_checked l :
    forallb wf_accb l = true ->
    rmap (map forget_acc) (accs_from norm tbl (accs_to l)) = Ok (map forget_acc l).
  Proof. intros H. apply accs_roundtrip. eapply forallb_Forall; [apply wf_accb_sound|assumption]. Qed.
End WfDec.

(* ------------------------------------------------------------ a concrete accessory database *)
Definition ex_norm (t : bytes) : option bytes := Some t.
Definition ex_tbl (t : bytes) : ctab :=
  if bytes_eqb t [49; 48]%N                                    (* a type with table defaults *)
  then mkctab (Some (JStr a_int)) (Some (JStr [66]%N)) None (Some (JInt 0)) (Some (JInt 100)) (Some (JInt 1))
  else no_tab.
Definition ex_db : list acc :=
  [mkacc (JInt 1)
     [mksvc (JInt 1) [51; 69]%N
        [mkchr [50; 53]%N (JInt 2) [a_pr; [112; 119]%N] (Some (JStr a_bool)) (Some (JBool true)) None None
               None None None None (Some (JInt 17)) (Some (JBool false)) None;
         mkchr [49; 48]%N (JInt 3) [[112; 119]%N] (Some (JStr a_int)) None (Some (JStr [66]%N)) None
               (Some (JInt 0)) (Some (JInt 100)) (Some (JInt 1)) None None None None;
         mkchr [50; 51]%N (JInt 4) [a_pr] (Some (JStr a_string)) (Some (JStr [226; 152; 131]%N)) (Some (JStr [])) None
               None None None None None None (Some (JBool true));
         mkchr [49; 49]%N (JInt 5) [a_pr] (Some (JStr a_float)) (Some (JFlt 255 1)) None (Some (JStr [99]%N))
               (Some (JFlt 5 1)) (Some (JInt 100)) (Some (JFlt 1 1)) None None None None]
        [JInt 8];
      mksvc (JInt 8) [52; 51]%N [] []]].

Lemma ex_db_wf : forallb (wf_accb ex_norm ex_tbl) ex_db = true.
Proof. vm_compute. reflexivity. Qed.

Lemma ex_db_roundtrip :
  rmap (map forget_acc) (accs_from ex_norm ex_tbl (accs_to ex_db)) = Ok (map forget_acc ex_db) /\
  ex_db <> [] /\ accs_from ex_norm ex_tbl (accs_to ex_db) <> Ok ex_db.
Proof.
  split; [vm_compute; reflexivity|]. split; [discriminate|].
  (* the empty description of characteristic 4 is not written and comes back as None *)
  vm_compute. intros H. discriminate H.
Qed.

Definition ex_pairings : list (bytes * pdata) :=
  [([195; 164]%N, [(k_id, JStr [65; 65]%N); (k_conn, JStr a_BLE); ([120]%N, JInt 7); (k_addr, JStr [48]%N)]);
   ([105]%N, [(k_ip, JStr [49]%N); (k_port, JInt 51826); (k_id, JStr [66]%N); (k_conn, JStr a_IP)]);
   ([99]%N, [(k_conn, JStr a_CoAP); (k_ip, JStr [49]%N); (k_port, JInt 5683); (k_id, JStr [67]%N)])].
Lemma ex_pairings_wf : Forall (fun ad => wf_pdata (snd ad)) ex_pairings.
Proof.
  unfold ex_pairings. apply Forall_cons; [|apply Forall_cons; [|apply Forall_cons; [|apply Forall_nil]]]; cbn [snd]; split.
  - eexists. split; [vm_compute; reflexivity|discriminate].
  - right. right. split; [reflexivity|discriminate].
  - eexists. split; [vm_compute; reflexivity|discriminate].
  - left. split; [reflexivity|split; discriminate].
  - eexists. split; [vm_compute; reflexivity|discriminate].
  - right. left. split; [reflexivity|split; discriminate].
Qed.

(* ------------------------------------------------------------ the cache map: last write wins *)
Section CacheMapProofs.
  Variable E : Type.

  Lemma bytes_eqb_refl a : bytes_eqb a a = true.
  Proof. now apply bytes_eqb_eq. Qed.
  Lemma bytes_eqb_trans_false k i id : bytes_eqb k i = true -> bytes_eqb i id = false -> bytes_eqb k id = false.
  Proof. intros H1 H2. apply bytes_eqb_eq in H1. now subst. Qed.

  Lemma get_update_same id (e : E) m : map_get E id (map_update E id e m) = Some e.
  Proof.
    induction m as [|[k e'] r IH]; cbn; [now rewrite bytes_eqb_refl|].
    destruct (bytes_eqb k id) eqn:Ek; cbn; rewrite Ek; auto.
  Qed.
  Lemma get_update_other i id (e : E) m :
    bytes_eqb i id = false -> map_get E id (map_update E i e m) = map_get E id m.
  Proof.
    intros H. induction m as [|[k e'] r IH]; cbn; [now rewrite H|].
    destruct (bytes_eqb k i) eqn:Ek; cbn.
    - now rewrite (bytes_eqb_trans_false _ _ _ Ek H).
    - destruct (bytes_eqb k id); auto.
  Qed.
  Lemma get_delete_same id (m : cmap E) : map_get E id (map_delete E id m) = None.
  Proof.
    induction m as [|[k e'] r IH]; cbn; [reflexivity|].
    destruct (bytes_eqb k id) eqn:Ek; cbn; [exact IH|]. now rewrite Ek.
  Qed.
  Lemma get_delete_other i id (m : cmap E) :
    bytes_eqb i id = false -> map_get E id (map_delete E i m) = map_get E id m.
  Proof.
    intros H. induction m as [|[k e'] r IH]; cbn; [reflexivity|].
    destruct (bytes_eqb k i) eqn:Ek; cbn.
    - rewrite (bytes_eqb_trans_false _ _ _ Ek H). exact IH.
    - destruct (bytes_eqb k id); auto.
  Qed.

  Theorem cache_map_last_write : forall ops id (m : cmap E),
      map_get E id (map_run E ops m) = last_write E id ops (map_get E id m).
  Proof.
    induction ops as [|o ops IH]; intros id m; [reflexivity|].
    unfold map_run in *. cbn [fold_left last_write]. rewrite IH. destruct o as [i e|i]; cbn [map_step].
    - destruct (bytes_eqb i id) eqn:Ei.
      + apply bytes_eqb_eq in Ei. subst. now rewrite get_update_same.
      + now rewrite get_update_other.
    - destruct (bytes_eqb i id) eqn:Ei.
      + apply bytes_eqb_eq in Ei. subst. now rewrite get_delete_same.
      + now rewrite get_delete_other.
  Qed.
End CacheMapProofs.

(* the history of seeded change F: write (key k1, state 7), then write (None, None): the entry holds None *)
Lemma cache_history_example :
  let e1 := mkce (Some (JInt 1)) (Some []) (Some (JStr [97; 98]%N)) (Some (JInt 7)) in
  let e2 := mkce (Some (JInt 2)) (Some []) None None in
  map_get centry [49]%N (map_run centry [CUpdate [49]%N e1; CUpdate [50]%N e1; CUpdate [49]%N e2; CDelete [50]%N] [])
  = Some e2 /\
  map_get centry [50]%N (map_run centry [CUpdate [49]%N e1; CUpdate [50]%N e1; CUpdate [49]%N e2; CDelete [50]%N] [])
  = None.
Proof. split; reflexivity. Qed.
