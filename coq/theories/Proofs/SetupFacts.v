(* Lemmas about the pair-setup model (Model/Setup.v). *)
From Coq Require Import List NArith Arith Bool Lia.
From AHK Require Import Lib.Res Lib.ByteStr Model.Tlv Model.Sym Model.Setup Proofs.SymFacts.
Import ListNotations.

Lemma s_check_err_none d : check_err d = None -> s_no_error d.
Proof. unfold check_err, s_no_error, S_error. destruct (slookup 7 d); [discriminate|reflexivity]. Qed.

Lemma s_state_step_none d n : state_step d n = None -> s_state_ok d n /\ s_no_error d.
Proof.
  unfold state_step, s_state_ok. change S_state with 6%N.
  destruct (slookup 6 d) as [st|] eqn:E.
  - destruct (msg_eqb st [AByte n]) eqn:Q; [|discriminate].
    apply msg_eqb_eq in Q. subst. intros H. split; [right; reflexivity|now apply s_check_err_none].
  - intros H. split; [left; reflexivity|now apply s_check_err_none].
Qed.

(* ---- part 1 ---- *)
Lemma ps1_done tr m2 salt B :
  ps1_on_m2 tr m2 = S1Done salt B ->
  slookup S_salt (prep tr exp_s2 m2) = Some salt /\ slookup S_pk (prep tr exp_s2 m2) = Some B /\
  s_state_ok (prep tr exp_s2 m2) 2 /\ s_no_error (prep tr exp_s2 m2).
Proof.
  unfold ps1_on_m2. cbv zeta. set (d := prep tr exp_s2 m2).
  destruct (state_step d 2) eqn:Est; [discriminate|]. apply s_state_step_none in Est. destruct Est as [Ha Hb].
  destruct (slookup S_pk d) as [B'|]; [|discriminate].
  destruct (slookup S_salt d) as [s'|]; [|discriminate].
  intros H; inversion H; subst. auto.
Qed.

(* ---- M4 ---- *)
Lemma ps2_m4_send tr c sb B m4 req K :
  ps2_on_m4 tr c sb B m4 = SSend req K ->
  exists proof,
    slookup S_proof (prep tr exp_s4 m4) = Some proof /\
    strip0 proof = srp_m2 (srp_A (ps_a c)) (ps_M1 c sb B) (ps_K c sb B) /\
    K = ps_K c sb B /\ req = m5_req c K /\
    s_state_ok (prep tr exp_s4 m4) 4 /\ s_no_error (prep tr exp_s4 m4).
Proof.
  unfold ps2_on_m4. cbv zeta. set (d := prep tr exp_s4 m4).
  destruct (state_step d 4) eqn:Est; [discriminate|]. apply s_state_step_none in Est. destruct Est as [Ha Hb].
  destruct (slookup S_proof d) as [proof|]; [|discriminate].
  destruct (msg_eqb (strip0 proof) _) eqn:E; cbn [negb]; [|discriminate].
  apply msg_eqb_eq in E. intros H; inversion H; subst. exists proof. repeat split; auto.
Qed.

Lemma ps2_m4_not_done tr c sb B m4 r : ps2_on_m4 tr c sb B m4 <> SDone r.
Proof.
  unfold ps2_on_m4. cbv zeta. destruct (state_step _ 4); [discriminate|].
  destruct (slookup S_proof _); [|discriminate]. destruct (negb _); discriminate.
Qed.

(* ---- M6 ---- *)
Lemma ps2_m6_done tr c K m6 r :
  ps2_on_m6 tr c K m6 = SDone r ->
  exists sub items idb L,
    slookup S_enc (prep tr exp_s6 m6) = Some (s_seal (ps_key K) N_ps06 [] sub) /\
    sdec sub = SItems items /\
    slookup S_id (smerge items) = Some (lit idb) /\ utf8_ok idb = true /\
    slookup S_pk (smerge items) = Some (s_pub L) /\
    slookup S_sig (smerge items) = Some (s_sign L (ps_acc_x K ++ lit idb ++ s_pub L)) /\
    r = {| r_acc_id := idb; r_acc_ltpk := s_pub L; r_ios_id := ps_ios_id c;
           r_ios_ltsk := ps_ltsk c; r_ios_ltpk := s_pub (ps_ltsk c) |} /\
    s_state_ok (prep tr exp_s6 m6) 6 /\ s_no_error (prep tr exp_s6 m6).
Proof.
  unfold ps2_on_m6. cbv zeta. set (d := prep tr exp_s6 m6).
  destruct (state_step d 6) eqn:Est; [discriminate|]. apply s_state_step_none in Est. destruct Est as [Ha Hb].
  destruct (slookup S_enc d) as [enc|]; [|discriminate].
  destruct (s_open (ps_key K) N_ps06 [] enc) as [sub|] eqn:Eo; [|discriminate].
  apply s_open_some in Eo. subst enc.
  destruct (sdec sub) as [items| |] eqn:Ed; try discriminate.
  destruct (slookup S_sig (smerge items)) as [sg|] eqn:Esg; [|discriminate].
  destruct (slookup S_id (smerge items)) as [idm|] eqn:Eid; [|discriminate].
  destruct (slookup S_pk (smerge items)) as [ltpk|] eqn:Epk; [|discriminate].
  destruct (N.eqb (mlen ltpk) 32); cbn [negb]; [|discriminate].
  destruct (s_verify ltpk sg (ps_acc_x K ++ idm ++ ltpk)) eqn:Ev; cbn [negb]; [|discriminate].
  destruct (as_bytes idm) as [idb|] eqn:Eb; [|discriminate].
  destruct (utf8_ok idb) eqn:Eu; cbn [negb]; [|discriminate].
  intros H; inversion H; subst.
  apply as_bytes_some in Eb. subst idm.
  apply s_verify_true in Ev. destruct Ev as (L & -> & ->).
  exists sub, items, idb, L. repeat split; auto.
Qed.

Lemma ps2_m6_not_send tr c K m6 req K' : ps2_on_m6 tr c K m6 <> SSend req K'.
Proof.
  unfold ps2_on_m6. cbv zeta. destruct (state_step _ 6); [discriminate|].
  destruct (slookup S_enc _); [|discriminate]. destruct (s_open _ _ _ _); [|discriminate].
  destruct (sdec _); try discriminate.
  destruct (slookup S_sig _); [|discriminate]. destruct (slookup S_id _); [|discriminate].
  destruct (slookup S_pk _); [|discriminate].
  destruct (negb _); [discriminate|]. destruct (negb _); [discriminate|].
  destruct (as_bytes _); [|discriminate]. destruct (negb _); discriminate.
Qed.

(* ---- C03 soundness ---- *)
Lemma ps_sound_l tr c m2 m4 m6 r :
  ps_run tr c m2 m4 m6 = SDone r -> ps_authentic tr c m2 m4 m6 r.
Proof.
  unfold ps_run.
  destruct (ps1_on_m2 tr m2) as [f|salt B] eqn:E1; [discriminate|].
  apply ps1_done in E1. destruct E1 as (H1 & H2 & H3 & H4).
  unfold ps2_start. destruct (norm_salt salt) as [sb|] eqn:En; [|discriminate].
  destruct (ps2_on_m4 tr c sb B m4) as [f|req K|r'|] eqn:E4; try discriminate.
  - apply ps2_m4_send in E4. destruct E4 as (proof & G1 & G2 & G3 & G4 & G5 & G6).
    intros E6. apply ps2_m6_done in E6.
    destruct E6 as (sub & items & idb & L & F1 & F2 & F3 & F4 & F5 & F6 & F7 & F8 & F9).
    unfold ps_authentic. cbv zeta. exists salt, sb, B, proof, sub, items, idb, L. subst K.
    repeat split; assumption.
  - intros _. exfalso. exact (ps2_m4_not_done _ _ _ _ _ _ E4).
Qed.

(* the record is self-consistent and carries the caller's identifier *)
Lemma ps_record_l tr c m2 m4 m6 r :
  ps_run tr c m2 m4 m6 = SDone r ->
  r_ios_ltpk r = s_pub (r_ios_ltsk r) /\ r_ios_id r = ps_ios_id c /\ r_ios_ltsk r = ps_ltsk c /\
  utf8_ok (r_acc_id r) = true /\ exists L, r_acc_ltpk r = s_pub L.
Proof.
  intros H. apply ps_sound_l in H. unfold ps_authentic in H. cbv zeta in H.
  destruct H as (salt & sb & B & proof & sub & items & idb & L & _ & _ & _ & _ & _ & _ & _ & _ & Hu & _ & _ & -> & _).
  cbn. repeat split; auto. exists L; reflexivity.
Qed.

(* ---- pinning of the honest shapes ---- *)
Lemma prep_m6_shape tr st key nn aad idm ltpk sg :
  prep tr exp_s6 (s_m6_shape st key nn aad idm ltpk sg) = s_m6_shape st key nn aad idm ltpk sg.
Proof. destruct tr; reflexivity. Qed.

Lemma prep_m4_shape tr st proof : prep tr exp_s4 (s_m4_shape st proof) = s_m4_shape st proof.
Proof. destruct tr; reflexivity. Qed.

Lemma ps_m6_pinned_l tr c K st key nn aad idm ltpk sg r :
  ps2_on_m6 tr c K (s_m6_shape st key nn aad idm ltpk sg) = SDone r ->
  st = [AByte 6] /\ key = ps_key K /\ nn = N_ps06 /\ aad = [] /\
  exists L idb, ltpk = s_pub L /\ idm = lit idb /\ utf8_ok idb = true /\
                sg = s_sign L (ps_acc_x K ++ idm ++ ltpk) /\
                r = {| r_acc_id := idb; r_acc_ltpk := ltpk; r_ios_id := ps_ios_id c;
                       r_ios_ltsk := ps_ltsk c; r_ios_ltpk := s_pub (ps_ltsk c) |}.
Proof.
  intros H. apply ps2_m6_done in H. rewrite prep_m6_shape in H.
  destruct H as (sub & items & idb & L & F1 & F2 & F3 & F4 & F5 & F6 & F7 & F8 & _).
  cbn [s_m6_shape slookup S_enc S_state N.eqb Pos.eqb] in F1.
  apply some_inj, s_seal_inj in F1. destruct F1 as (-> & -> & -> & <-).
  rewrite sdec_senc in F2. inversion F2; subst items.
  cbn in F3. apply some_inj in F3. subst idm.
  cbn in F5. apply some_inj in F5. subst ltpk.
  cbn in F6. apply some_inj in F6. subst sg.
  destruct F8 as [F8|F8]; cbn in F8; [discriminate|]. apply some_inj in F8. subst st.
  repeat split; try reflexivity. exists L, idb. repeat split; auto.
Qed.

(* M6 sealed under another key, nonce or aad *)
Lemma ps_m6_wrong_key_l tr c K st key nn aad idm ltpk sg r :
  (key, nn, aad) <> (ps_key K, N_ps06, []) ->
  ps2_on_m6 tr c K (s_m6_shape st key nn aad idm ltpk sg) <> SDone r.
Proof.
  intros Hne H. apply ps_m6_pinned_l in H. destruct H as (_ & -> & -> & -> & _). now apply Hne.
Qed.

(* the signature is by another key, or covers another identifier / key / X *)
Lemma ps_sig_other_l tr c K idm ltpk L' signed r :
  (s_pub L', signed) <> (ltpk, ps_acc_x K ++ idm ++ ltpk) ->
  ps2_on_m6 tr c K (s_m6_shape [AByte 6] (ps_key K) N_ps06 [] idm ltpk (s_sign L' signed)) <> SDone r.
Proof.
  intros Hne H. apply ps_m6_pinned_l in H.
  destruct H as (_ & _ & _ & _ & L & idb & -> & -> & _ & Hs & _).
  apply s_sign_inj in Hs. destruct Hs as [-> ->]. now apply Hne.
Qed.

(* one component of the honest M6 replaced *)
Lemma ps_m6_tampered_l tr c K L0 id0 st key nn aad idm ltpk sg r :
  let ltpk0 := s_pub L0 in
  let sg0 := s_sign L0 (ps_acc_x K ++ lit id0 ++ ltpk0) in
  (st, key, nn, aad, idm, ltpk, sg) <> ([AByte 6], ps_key K, N_ps06, [], lit id0, ltpk0, sg0) ->
  (sg = sg0 \/ (ltpk = ltpk0 /\ idm = lit id0)) ->
  ps2_on_m6 tr c K (s_m6_shape st key nn aad idm ltpk sg) <> SDone r.
Proof.
  intros ltpk0 sg0 Hne Hor H. apply ps_m6_pinned_l in H.
  destruct H as (-> & -> & -> & -> & L & idb & -> & -> & _ & -> & _).
  apply Hne. destruct Hor as [Hs|[Hl Hi]].
  - unfold sg0 in Hs. apply s_sign_inj in Hs. destruct Hs as [-> Hm].
    apply app_inv_head in Hm. unfold ltpk0 in Hm. apply app_inv_tail in Hm. rewrite Hm. reflexivity.
  - unfold ltpk0 in Hl. apply s_pub_inj in Hl. subst L. rewrite Hi. reflexivity.
Qed.

(* M4: anything but the server proof of this exchange *)
Lemma ps_m4_pinned_l tr c sb B st proof req K :
  ps2_on_m4 tr c sb B (s_m4_shape st proof) = SSend req K ->
  st = [AByte 4] /\ strip0 proof = srp_m2 (srp_A (ps_a c)) (ps_M1 c sb B) (ps_K c sb B).
Proof.
  intros H. apply ps2_m4_send in H. rewrite prep_m4_shape in H.
  destruct H as (p & G1 & G2 & _ & _ & G5 & _).
  cbn in G1. apply some_inj in G1. subst p.
  destruct G5 as [G5|G5]; cbn in G5; [discriminate|]. apply some_inj in G5. subst st. auto.
Qed.

(* an accessory that holds the verifier of another code: its B, and a server
   proof computed from ITS session key, over any client proof value *)
Lemma ps_wrong_code_l tr c b code' salt sb x r m6 :
  code' <> ps_code c -> norm_salt salt = Some sb ->
  let B := srp_B b code' salt in
  let A := srp_A (ps_a c) in
  let K' := srp_ks code' salt b A in
  ps_run tr c [(S_state, [AByte 2]); (S_pk, B); (S_salt, salt)]
         (s_m4_shape [AByte 4] (srp_m2 A (s_hash x) K')) m6 <> SDone r.
Proof.
  intros Hne Hn B A K' H. unfold ps_run in H.
  assert (E1 : ps1_on_m2 tr [(S_state, [AByte 2]); (S_pk, B); (S_salt, salt)] = S1Done salt B)
    by (destruct tr; reflexivity).
  rewrite E1 in H. unfold ps2_start in H. rewrite Hn in H.
  destruct (ps2_on_m4 tr c sb B (s_m4_shape [AByte 4] (srp_m2 A (s_hash x) K'))) as [f|req K|r'|] eqn:E4;
    try discriminate.
  - apply ps_m4_pinned_l in E4. destruct E4 as [_ E4].
    unfold srp_m2 in E4 at 1. cbn [s_hash strip0] in E4. unfold srp_m2 in E4.
    apply s_hash_inj in E4. fold A in E4. apply app_inv_head in E4.
    unfold ps_M1, srp_m1, s_hash in E4. cbn [app] in E4. inversion E4 as [[Hx HK]].
    unfold K', ps_K, srp_ks, srp_kc, A, srp_A, B, srp_B in HK.
    destruct (msg_eqb code' (ps_code c) && msg_eqb salt sb) eqn:Q.
    + apply andb_true_iff in Q. destruct Q as [Q _]. apply msg_eqb_eq in Q. contradiction.
    + discriminate.
  - exact (ps2_m4_not_done _ _ _ _ _ _ E4).
Qed.

(* a required field is missing (as seen by the generators) *)
Lemma ps_missing_field_l tr c m2 m4 m6 r :
  (slookup S_salt (prep tr exp_s2 m2) = None \/ slookup S_pk (prep tr exp_s2 m2) = None \/
   slookup S_proof (prep tr exp_s4 m4) = None \/ slookup S_enc (prep tr exp_s6 m6) = None \/
   (forall key sub items, slookup S_enc (prep tr exp_s6 m6) = Some (s_seal key N_ps06 [] sub) ->
       sdec sub = SItems items ->
       slookup S_id (smerge items) = None \/ slookup S_pk (smerge items) = None \/
       slookup S_sig (smerge items) = None)) ->
  ps_run tr c m2 m4 m6 <> SDone r.
Proof.
  intros Hm H. apply ps_sound_l in H. unfold ps_authentic in H. cbv zeta in H.
  destruct H as (salt & sb & B & proof & sub & items & idb & L & H1 & H2 & H3 & H4 & H5 & H6 & H7 & H8 & H9 & H10 & H11 & _).
  destruct Hm as [Hm|[Hm|[Hm|[Hm|Hm]]]].
  - rewrite Hm in H1; discriminate.
  - rewrite Hm in H2; discriminate.
  - rewrite Hm in H4; discriminate.
  - rewrite Hm in H6; discriminate.
  - destruct (Hm _ _ _ H6 H7) as [Hx|[Hx|Hx]].
    + rewrite Hx in H8; discriminate.
    + rewrite Hx in H10; discriminate.
    + rewrite Hx in H11; discriminate.
Qed.

(* ---- completeness ---- *)
Definition sacc_matches (a : sacc) (c : ps_cfg) : Prop :=
  sa_code a = ps_code c /\ norm_salt (sa_salt a) = Some (sa_salt a) /\ utf8_ok (sa_id a) = true.

Lemma ps_complete_l tr c wa a :
  sacc_matches a c ->
  let t := ps_exchange tr c wa a None None None in
  pt_result t = SDone {| r_acc_id := sa_id a; r_acc_ltpk := s_pub (sa_ltsk a); r_ios_id := ps_ios_id c;
                         r_ios_ltsk := ps_ltsk c; r_ios_ltpk := s_pub (ps_ltsk c) |} /\
  pt_m3_accepted t = Some true /\ pt_m5_accepted t = Some true /\
  pt_stored t = Some (lit (ps_ios_id c), s_pub (ps_ltsk c)).
Proof.
  intros (Hc & Hs & Hu). cbv zeta.
  unfold ps_exchange. cbv zeta.
  assert (E1 : ps1_on_m2 tr (sacc_m2 a (ps1_m1 wa)) = S1Done (sa_salt a) (sacc_B a))
    by (destruct tr; reflexivity).
  rewrite E1. unfold ps2_start. rewrite Hs.
  set (sb := sa_salt a). set (B := sacc_B a). set (A := srp_A (ps_a c)).
  assert (EK : ps_K c sb B = srp_ks (sa_code a) sb (sa_b a) A).
  { unfold ps_K, B, sacc_B. rewrite <- Hc. apply srp_agree. }
  set (K := ps_K c sb B) in *.
  assert (E3 : sacc_m4 a [(S_state, [AByte 3]); (S_pk, A); (S_proof, ps_M1 c sb B)]
               = ([(S_state, [AByte 4]); (S_proof, srp_m2 A (ps_M1 c sb B) K)], true, K)).
  { unfold sacc_m4.
    cbn [smerge fold_left spush fst snd rev app slookup S_state S_pk S_proof N.eqb Pos.eqb].
    fold sb. rewrite <- EK. fold K. unfold ps_M1 at 1. fold A K B. rewrite msg_eqb_refl. reflexivity. }
  rewrite E3.
  assert (E4 : ps2_on_m4 tr c sb B [(S_state, [AByte 4]); (S_proof, srp_m2 A (ps_M1 c sb B) K)]
               = SSend (m5_req c K) K).
  { unfold ps2_on_m4. cbv zeta. change [(S_state, [AByte 4]); (S_proof, srp_m2 A (ps_M1 c sb B) K)]
      with (s_m4_shape [AByte 4] (srp_m2 A (ps_M1 c sb B) K)). rewrite prep_m4_shape.
    unfold state_step, check_err.
    cbn [s_m4_shape slookup S_state S_proof N.eqb Pos.eqb msg_eqb atom_eqb andb].
    unfold srp_m2 at 1. cbn [s_hash strip0]. fold (s_hash (A ++ ps_M1 c sb B ++ K)).
    fold (srp_m2 A (ps_M1 c sb B) K). fold A. fold K. rewrite msg_eqb_refl. reflexivity. }
  rewrite E4.
  assert (E5 : sacc_m6 a K (m5_req c K)
               = (s_m6_shape [AByte 6] (ps_key K) N_ps06 [] (lit (sa_id a)) (s_pub (sa_ltsk a))
                             (s_sign (sa_ltsk a) (ps_acc_x K ++ lit (sa_id a) ++ s_pub (sa_ltsk a))),
                  true, Some (lit (ps_ios_id c), s_pub (ps_ltsk c)))).
  { unfold sacc_m6, m5_req. cbv zeta.
    cbn [smerge fold_left spush fst snd rev app slookup S_state S_enc N.eqb Pos.eqb].
    rewrite s_open_seal, sdec_senc.
    cbn [smerge fold_left spush fst snd rev app slookup S_id S_pk S_sig N.eqb Pos.eqb].
    rewrite s_verify_sign. reflexivity. }
  rewrite E5.
  assert (E6 : ps2_on_m6 tr c K
                 (s_m6_shape [AByte 6] (ps_key K) N_ps06 [] (lit (sa_id a)) (s_pub (sa_ltsk a))
                             (s_sign (sa_ltsk a) (ps_acc_x K ++ lit (sa_id a) ++ s_pub (sa_ltsk a))))
               = SDone {| r_acc_id := sa_id a; r_acc_ltpk := s_pub (sa_ltsk a); r_ios_id := ps_ios_id c;
                          r_ios_ltsk := ps_ltsk c; r_ios_ltpk := s_pub (ps_ltsk c) |}).
  { unfold ps2_on_m6. cbv zeta. rewrite prep_m6_shape.
    unfold state_step, check_err.
    cbn [s_m6_shape slookup S_state S_enc N.eqb Pos.eqb msg_eqb atom_eqb andb].
    rewrite s_open_seal, sdec_senc.
    cbn [smerge fold_left spush fst snd rev app slookup S_id S_pk S_sig N.eqb Pos.eqb].
    cbn [mlen s_pub alen N.add N.eqb Pos.eqb negb Pos.add Pos.succ].
    rewrite s_verify_sign. cbn [negb]. rewrite as_bytes_lit, Hu. reflexivity. }
  cbn [pt_result pt_m3_accepted pt_m5_accepted pt_stored]. rewrite E6. auto.
Qed.

(* a 16-byte literal salt is its own normal form (leading zero bytes included) *)
Lemma strip0_lit_pad : forall b : bytes,
  exists k, strip0 (lit b) = lit (skipn k b) /\ firstn k b = repeat 0%N k /\ k <= length b.
Proof.
  induction b as [|x r IH].
  - exists 0. cbn. auto.
  - destruct (N.eq_dec x 0) as [->|Hx].
    + destruct IH as (k & H1 & H2 & H3). exists (S k). cbn [lit map strip0 skipn firstn repeat length].
      fold (lit r). rewrite H1, H2. repeat split; auto. lia.
    + exists 0. cbn [lit map skipn firstn repeat]. split; [|split; [reflexivity|lia]].
      destruct x; [contradiction|reflexivity].
Qed.

Lemma norm_salt_lit16 (b : bytes) : length b = 16 -> norm_salt (lit b) = Some (lit b).
Proof.
  intros Hl. unfold norm_salt. destruct (strip0_lit_pad b) as (k & H1 & H2 & H3).
  rewrite H1, mlen_lit, skipn_length, Hl.
  destruct (N.ltb 16 (N.of_nat (16 - k))) eqn:E; [apply N.ltb_lt in E; lia|].
  f_equal. replace (N.to_nat (16 - N.of_nat (16 - k))) with k by lia.
  rewrite <- H2. rewrite <- lit_app. now rewrite firstn_skipn.
Qed.
