(* Facts about the bit-exact ChaCha20-Poly1305 model (Model/ChaChaPoly.v):
   lengths, the stream XOR is an involution, open . seal = Some, a successful open
   determines the box, and the 4-byte partial-tag variant used for BLE broadcasts. *)
From Coq Require Import List NArith Arith Bool Lia.
From AHK Require Import Lib.ByteStr Model.ChaChaPoly.
Import ListNotations.

(* ------------------------------------------------------------------ xor *)
Lemma xor_with_length d ks : length (xor_with d ks) = length d.
Proof. revert ks; induction d as [|x d IH]; intros ks; cbn [xor_with length]; [reflexivity|]. now rewrite IH. Qed.

Lemma xor_with_invol d ks : xor_with (xor_with d ks) ks = d.
Proof.
  revert ks; induction d as [|x d IH]; intros ks; cbn [xor_with]; [reflexivity|].
  rewrite IH. f_equal.
  rewrite N.lxor_assoc, N.lxor_nilpotent, N.lxor_0_r. reflexivity.
Qed.

Lemma chacha_xor_length k c n d : length (chacha_xor k c n d) = length d.
Proof. unfold chacha_xor. apply xor_with_length. Qed.

Lemma chacha_xor_invol k c n d : chacha_xor k c n (chacha_xor k c n d) = d.
Proof.
  unfold chacha_xor at 1. rewrite chacha_xor_length.
  unfold chacha_xor. apply xor_with_invol.
Qed.

(* ------------------------------------------------------------------ block length *)
Lemma st_set_length s i v : length (st_set s i v) = length s.
Proof. revert i; induction s as [|x s IH]; intros [|i]; cbn [st_set length]; try reflexivity. now rewrite IH. Qed.

Lemma quarter_length s a b c d : length (quarter s a b c d) = length s.
Proof. unfold quarter. now rewrite !st_set_length. Qed.

Lemma double_round_length s : length (double_round s) = length s.
Proof. unfold double_round. now rewrite !quarter_length. Qed.

Lemma iter_length_gen {A} (f : list A -> list A) (Hf : forall s, length (f s) = length s) n s :
  length (iter n f s) = length s.
Proof. revert s; induction n as [|n IH]; intros s; cbn [iter]; [reflexivity|]. rewrite IH. apply Hf. Qed.

Lemma iter_double_round_length n s : length (iter n double_round s) = length s.
Proof. apply iter_length_gen. exact double_round_length. Qed.

Lemma add_states_length a b : length a = length b -> length (add_states a b) = length a.
Proof.
  revert b; induction a as [|x a IH]; intros [|y b] H; cbn [add_states length] in *; try reflexivity; try discriminate.
  f_equal. apply IH. now injection H.
Qed.

Lemma ser_words_length s : length (ser_words s) = 4 * length s.
Proof.
  unfold ser_words. induction s as [|x s IH]; cbn [flat_map length]; [reflexivity|].
  rewrite app_length, le_enc_length, IH. lia.
Qed.

Lemma init_state_length k c n : length (init_state k c n) = 16.
Proof. reflexivity. Qed.

Lemma chacha_block_length k c n : length (chacha_block k c n) = 64.
Proof.
  unfold chacha_block. rewrite ser_words_length, add_states_length.
  - now rewrite iter_double_round_length, init_state_length.
  - now rewrite iter_double_round_length.
Qed.

Lemma keystream_length nb k c n : length (keystream nb k c n) = 64 * nb.
Proof.
  revert c; induction nb as [|nb IH]; intros c; cbn [keystream length]; [lia|].
  rewrite app_length, chacha_block_length, IH. lia.
Qed.

(* the default 0 of [xor_with] is never used: the keystream is long enough *)
Lemma keystream_covers k c n (d : bytes) :
  length d <= length (keystream (S (Nat.div (length d) 64)) k c n).
Proof.
  rewrite keystream_length.
  pose proof (Nat.div_mod (length d) 64 ltac:(lia)) as E.
  pose proof (Nat.mod_upper_bound (length d) 64 ltac:(lia)). lia.
Qed.

(* ------------------------------------------------------------------ tag *)
Lemma poly1305_length otk msg : length (poly1305 otk msg) = 16.
Proof. unfold poly1305. apply le_enc_length. Qed.

Lemma cp_tag_length k n a c : length (cp_tag k n a c) = 16.
Proof. unfold cp_tag. apply poly1305_length. Qed.

Lemma beq_bytes_refl x : beq_bytes x x = true.
Proof. induction x as [|a x IH]; cbn [beq_bytes]; [reflexivity|]. now rewrite N.eqb_refl, IH. Qed.

Lemma beq_bytes_eq x y : beq_bytes x y = true -> x = y.
Proof.
  revert y; induction x as [|a x IH]; intros [|b y] H; cbn [beq_bytes] in H; try reflexivity; try discriminate.
  apply andb_true_iff in H. destruct H as [H1 H2].
  apply N.eqb_eq in H1. subst b. f_equal. now apply IH.
Qed.

(* ------------------------------------------------------------------ AEAD laws *)
Lemma cp_seal_length k n a p : length (cp_seal k n a p) = length p + 16.
Proof. unfold cp_seal. now rewrite app_length, chacha_xor_length, cp_tag_length. Qed.

Lemma firstn_app_exact {A} (x y : list A) : firstn (length x) (x ++ y) = x.
Proof. induction x as [|a x IH]; cbn [firstn length app]; [now destruct y|]. now rewrite IH. Qed.

Lemma skipn_app_exact {A} (x y : list A) : skipn (length x) (x ++ y) = y.
Proof. induction x as [|a x IH]; cbn [skipn length app]; [reflexivity|]. exact IH. Qed.

Lemma cp_open_seal k n a p : cp_open k n a (cp_seal k n a p) = Some p.
Proof.
  unfold cp_open. rewrite cp_seal_length.
  destruct (Nat.ltb_spec (length p + 16) 16) as [H|_]; [lia|].
  replace (length p + 16 - 16) with (length (chacha_xor k 1 n p)) by (rewrite chacha_xor_length; lia).
  unfold cp_seal. rewrite firstn_app_exact, skipn_app_exact, beq_bytes_refl.
  now rewrite chacha_xor_invol.
Qed.

(* a successful open pins the whole box: it IS the sealing of the plaintext it returns *)
Lemma cp_open_sound k n a box p : cp_open k n a box = Some p -> box = cp_seal k n a p.
Proof.
  unfold cp_open. destruct (Nat.ltb_spec (length box) 16) as [H|H]; [discriminate|].
  set (m := length box - 16).
  destruct (beq_bytes (skipn m box) (cp_tag k n a (firstn m box))) eqn:E; [|discriminate].
  intros Hp. injection Hp as Hp. apply beq_bytes_eq in E.
  unfold cp_seal. rewrite <- Hp, chacha_xor_invol, <- E. symmetry. apply firstn_skipn.
Qed.

Lemma cp_open_short k n a box : length box < 16 -> cp_open k n a box = None.
Proof. intros H. unfold cp_open. destruct (Nat.ltb_spec (length box) 16); [reflexivity|lia]. Qed.

(* ------------------------------------------------------------------ partial tag *)
Lemma is_prefix_firstn e t : is_prefix e t = true -> e = firstn (length e) t.
Proof.
  revert t; induction e as [|a e IH]; intros t H; [reflexivity|].
  destruct t as [|b t]; cbn [is_prefix] in H; [discriminate|].
  apply andb_true_iff in H. destruct H as [H1 H2]. apply N.eqb_eq in H1. subst b.
  cbn [length firstn]. f_equal. now apply IH.
Qed.

Lemma is_prefix_of_firstn j t : is_prefix (firstn j t) t = true.
Proof.
  revert t; induction j as [|j IH]; intros t; [reflexivity|].
  destruct t as [|b t]; cbn [firstn is_prefix]; [reflexivity|]. now rewrite N.eqb_refl, IH.
Qed.

Lemma cp_seal_partial_length k n a p : length (cp_seal_partial k n a p) = length p + 4.
Proof.
  unfold cp_seal_partial. rewrite app_length, chacha_xor_length, firstn_length, cp_tag_length. lia.
Qed.

Lemma cp_open_partial_seal k n a p :
  length n = 12 -> cp_open_partial k n a (cp_seal_partial k n a p) = PPlain p.
Proof.
  intros Hn. unfold cp_open_partial. rewrite Hn, Nat.eqb_refl. cbn [negb].
  rewrite cp_seal_partial_length.
  replace (length p + 4 - 4) with (length (chacha_xor k 1 n p)) by (rewrite chacha_xor_length; lia).
  unfold cp_seal_partial. rewrite firstn_app_exact, skipn_app_exact, is_prefix_of_firstn.
  now rewrite chacha_xor_invol.
Qed.

(* an accepted box of at least four bytes is ciphertext ++ the first four bytes of ITS tag *)
Lemma cp_open_partial_sound k n a box p :
  cp_open_partial k n a box = PPlain p -> 4 <= length box ->
  length n = 12 /\ box = cp_seal_partial k n a p.
Proof.
  unfold cp_open_partial. intros H Hlen.
  destruct (Nat.eqb_spec (length n) 12) as [Hn|Hn]; cbn [negb] in H; [|discriminate].
  split; [exact Hn|].
  set (m := length box - 4) in *.
  destruct (is_prefix (skipn m box) (cp_tag k n a (firstn m box))) eqn:E; [|discriminate].
  injection H as Hp. apply is_prefix_firstn in E.
  assert (Hs : length (skipn m box) = 4) by (rewrite skipn_length; unfold m; lia).
  rewrite Hs in E.
  unfold cp_seal_partial. rewrite <- Hp, chacha_xor_invol, <- E. symmetry. apply firstn_skipn.
Qed.

Lemma cp_open_partial_bad_nonce k n a box : length n <> 12 -> cp_open_partial k n a box = PBadNonce.
Proof. intros H. unfold cp_open_partial. destruct (Nat.eqb_spec (length n) 12); [contradiction|reflexivity]. Qed.

(* whatever the full-tag open accepts, the partial-tag open accepts with the tag cut to four bytes *)
Lemma cp_full_implies_partial k n a box p :
  cp_open k n a box = Some p -> length n = 12 ->
  cp_open_partial k n a (firstn (length box - 12) box) = PPlain p.
Proof.
  intros H Hn. apply cp_open_sound in H. subst box.
  rewrite cp_seal_length. unfold cp_seal.
  replace (length p + 16 - 12) with (length (chacha_xor k 1 n p) + 4) by (rewrite chacha_xor_length; lia).
  rewrite firstn_app, firstn_all2 by lia.
  replace (length (chacha_xor k 1 n p) + 4 - length (chacha_xor k 1 n p)) with 4 by lia.
  now apply (cp_open_partial_seal k n a p).
Qed.

(* OBSERVATION about the real PartialTag.open (reproduced by the correspondence): the tag test is
   `tag.startswith(box[-4:])`, so a box shorter than four bytes is compared on fewer bytes, and the
   EMPTY box is accepted under every key, nonce and associated data, as the empty plaintext. *)
Lemma cp_open_partial_empty_box k n a : length n = 12 -> cp_open_partial k n a [] = PPlain [].
Proof. intros Hn. unfold cp_open_partial. rewrite Hn. reflexivity. Qed.

Lemma cp_open_partial_short_box k n a box :
  length n = 12 -> length box < 4 ->
  cp_open_partial k n a box = if is_prefix box (cp_tag k n a []) then PPlain [] else PReject.
Proof.
  intros Hn Hl. unfold cp_open_partial. rewrite Hn. cbn [Nat.eqb negb].
  replace (length box - 4) with 0 by lia. cbn [firstn skipn].
  destruct (is_prefix box (cp_tag k n a [])); reflexivity.
Qed.
