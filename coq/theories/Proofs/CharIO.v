(* C13 - lemmas about Model/CharIO.v *)
From Coq Require Import List NArith ZArith Arith Bool Lia ZifyN ZifyNat ZifyBool.
From AHK Require Import Lib.Res Model.CharIO.
Import ListNotations.

(* ------------------------------------------------------------------ keys and dicts *)
Lemma cid_eqb_eq : forall a b, cid_eqb a b = true <-> a = b.
Proof.
  intros [a1 a2] [b1 b2]. unfold cid_eqb. cbn [fst snd].
  rewrite andb_true_iff, !N.eqb_eq. split.
  - intros [-> ->]. reflexivity.
  - intros H. inversion H. auto.
Qed.
Lemma cid_eqb_refl : forall a, cid_eqb a a = true.
Proof. intros a. apply cid_eqb_eq. reflexivity. Qed.
Lemma cid_eqb_sym : forall a b, cid_eqb a b = cid_eqb b a.
Proof. intros [a1 a2] [b1 b2]. unfold cid_eqb. cbn [fst snd]. rewrite (N.eqb_sym a1), (N.eqb_sym a2). reflexivity. Qed.
Lemma cid_eqb_neq : forall a b, cid_eqb a b = false <-> a <> b.
Proof.
  intros a b. split.
  - intros H E. apply cid_eqb_eq in E. congruence.
  - intros H. destruct (cid_eqb a b) eqn:E; [|reflexivity]. apply cid_eqb_eq in E. contradiction.
Qed.
Lemma cid_eqb_trans_l : forall a b c, cid_eqb a b = true -> cid_eqb a c = cid_eqb b c.
Proof. intros a b c H. apply cid_eqb_eq in H. subst. reflexivity. Qed.

Lemma lookup_dremove : forall A k k' (m : dict A),
    lookup k (dremove k' m) = if cid_eqb k k' then None else lookup k m.
Proof.
  intros A k k' m. induction m as [|[k0 v] t IH]; cbn [dremove filter lookup fst].
  - destruct (cid_eqb k k'); reflexivity.
  - fold (dremove k' t). destruct (cid_eqb k' k0) eqn:E1; cbn [negb lookup].
    + rewrite IH. destruct (cid_eqb k k') eqn:E2; [reflexivity|].
      apply cid_eqb_eq in E1. subst k0. rewrite E2. reflexivity.
    + rewrite IH. destruct (cid_eqb k k') eqn:E2; [|reflexivity].
      apply cid_eqb_eq in E2. subst k'. rewrite E1. reflexivity.
Qed.
Lemma lookup_dset : forall A k k' (v : A) m,
    lookup k (dset k' v m) = if cid_eqb k k' then Some v else lookup k m.
Proof.
  intros A k k' v m. unfold dset. cbn [lookup]. rewrite lookup_dremove.
  destruct (cid_eqb k k'); reflexivity.
Qed.

(* ------------------------------------------------------------------ to_status_code *)
Lemma to_status_code_zero : forall s, to_status_code s = 0%Z <-> s = 0%Z.
Proof.
  intros s. unfold to_status_code.
  destruct (existsb (Z.eqb (- Z.abs s)) hap_defined) eqn:E.
  - lia.
  - unfold hap_unknown. split; [discriminate|]. intros ->. vm_compute in E. discriminate.
Qed.
Lemma to_status_code_defined : forall s, In (to_status_code s) hap_defined.
Proof.
  intros s. unfold to_status_code.
  destruct (existsb (Z.eqb (- Z.abs s)) hap_defined) eqn:E.
  - apply existsb_exists in E. destruct E as [x [Hin Hx]]. apply Z.eqb_eq in Hx. subst. exact Hin.
  - unfold hap_unknown, hap_defined. cbn [In]. do 13 right. left. reflexivity.
Qed.
(* sign normalisation: a positive-signed code means the same as the negative one *)
Lemma to_status_code_sign : forall s, to_status_code (- s) = to_status_code s.
Proof. intros s. unfold to_status_code. rewrite Z.abs_opp. reflexivity. Qed.
Lemma to_status_code_idem_defined : forall c, In c hap_defined -> to_status_code c = c.
Proof.
  intros c H. unfold hap_defined in H. cbn [In] in H.
  repeat (destruct H as [<-|H]; [vm_compute; reflexivity|]). contradiction.
Qed.
Lemma rej_fixed_spec : forall s, rej_fixed s = negb (Z.eqb s 0).
Proof.
  intros s. unfold rej_fixed, hap_success.
  destruct (Z.eqb_spec s 0) as [->|Hn].
  - vm_compute. reflexivity.
  - destruct (Z.eqb_spec (to_status_code s) 0) as [E|E]; [|reflexivity].
    apply (proj1 (to_status_code_zero s)) in E. contradiction.
Qed.

(* ------------------------------------------------------------------ last_entry *)
Lemma last_entry_app : forall l1 l2 k,
    last_entry (l1 ++ l2) k = match last_entry l2 k with Some x => Some x | None => last_entry l1 k end.
Proof.
  intros l1 l2 k. induction l1 as [|e t IH]; cbn [app last_entry].
  - destruct (last_entry l2 k); reflexivity.
  - rewrite IH. destruct (last_entry l2 k); [reflexivity|]. reflexivity.
Qed.
Lemma last_entry_spec : forall es k st v,
    last_entry es k = Some (st, v) <->
    exists l1 l2, es = l1 ++ Entry (fst k) (snd k) st v :: l2 /\ last_entry l2 k = None.
Proof.
  intros es k st v. split.
  - induction es as [|e t IH]; cbn [last_entry]; [discriminate|].
    destruct (last_entry t k) as [x|] eqn:E.
    + intros H. inversion H. subst x. destruct (IH eq_refl) as [l1 [l2 [-> H2]]].
      exists (e :: l1), l2. split; [reflexivity|exact H2].
    + destruct e as [|a i st' v']; [discriminate|].
      destruct (cid_eqb k (a, i)) eqn:E2; [|discriminate].
      intros H. inversion H. subst. apply cid_eqb_eq in E2. subst k.
      exists [], t. split; [reflexivity|exact E].
  - intros [l1 [l2 [-> H2]]]. rewrite last_entry_app. cbn [last_entry]. rewrite H2.
    destruct k as [a i]. cbn [fst snd]. rewrite cid_eqb_refl. reflexivity.
Qed.
Lemma last_entry_in : forall es k st v,
    last_entry es k = Some (st, v) -> In (Entry (fst k) (snd k) st v) es.
Proof.
  intros es k st v H. apply last_entry_spec in H. destruct H as [l1 [l2 [-> _]]].
  apply in_or_app. right. left. reflexivity.
Qed.
Lemma last_entry_none : forall es k,
    last_entry es k = None <-> (forall st v, ~ In (Entry (fst k) (snd k) st v) es).
Proof.
  intros es k. induction es as [|e t IH]; cbn [last_entry In].
  - split; [intros _ st v []|reflexivity].
  - destruct (last_entry t k) as [x|] eqn:E.
    + split; [discriminate|]. intros H. exfalso. destruct x as [st v].
      apply (H st v). right. apply last_entry_in. exact E.
    + destruct IH as [IH1 _]. specialize (IH1 eq_refl).
      destruct e as [|a i st' v'].
      * split; [|reflexivity]. intros _ st v [H|H]; [discriminate|]. exact (IH1 st v H).
      * destruct (cid_eqb k (a, i)) eqn:E2.
        -- split; [discriminate|]. intros H. exfalso. apply cid_eqb_eq in E2. subst k.
           apply (H st' v'). left. reflexivity.
        -- split; [|reflexivity]. intros _ st v [H|H]; [|exact (IH1 st v H)].
           inversion H. subst. destruct k as [ka ki]. cbn [fst snd] in E2.
           rewrite cid_eqb_refl in E2. discriminate.
Qed.

(* ------------------------------------------------------------------ format_characteristic_list *)
Lemma fcl_fold : forall es m0 k,
    lookup k (fold_left fcl_step es m0) =
    match last_entry es k with
    | Some (st, v) => Some (render st v)
    | None => lookup k m0
    end.
Proof.
  induction es as [|e t IH]; intros m0 k; cbn [fold_left last_entry]; [reflexivity|].
  rewrite IH. destruct (last_entry t k) as [[st v]|]; [reflexivity|].
  destruct e as [|a i st v]; cbn [fcl_step]; [reflexivity|].
  rewrite lookup_dset. destruct (cid_eqb k (a, i)); reflexivity.
Qed.
Lemma glob_fold : forall (x : rres) req m0 k,
    lookup k (fold_left (fun m k' => dset k' x m) req m0) =
    if existsb (cid_eqb k) req then Some x else lookup k m0.
Proof.
  intros x. induction req as [|r t IH]; intros m0 k; cbn [fold_left existsb]; [reflexivity|].
  rewrite IH, lookup_dset. destruct (existsb (cid_eqb k) t); [rewrite orb_true_r; reflexivity|].
  rewrite orb_false_r. destruct (cid_eqb k r); reflexivity.
Qed.
Lemma existsb_cid_In : forall k l, existsb (cid_eqb k) l = true <-> In k l.
Proof.
  intros k l. rewrite existsb_exists. split.
  - intros [x [H E]]. apply cid_eqb_eq in E. subst. exact H.
  - intros H. exists k. split; [exact H|apply cid_eqb_refl].
Qed.

(* master characterisation of the read result *)
Lemma fcl_lookup : forall g es req k,
    lookup k (format_characteristic_list g es req) =
    match last_entry es k with
    | Some (st, v) => Some (render st v)
    | None =>
        match g with
        | Some s => if Z.eqb s 0 then None
                    else if existsb (cid_eqb k) req then Some (glob_res s) else None
        | None => None
        end
    end.
Proof.
  intros g es req k. unfold format_characteristic_list. rewrite fcl_fold.
  destruct (last_entry es k) as [[st v]|]; [reflexivity|].
  destruct g as [s|]; [|reflexivity]. destruct (Z.eqb s 0); [reflexivity|].
  rewrite glob_fold. reflexivity.
Qed.

Lemma read_faithful_lem : forall g es req k, In k req ->
    lookup k (format_characteristic_list g es req) =
    match last_entry es k with
    | Some (st, v) => Some (render st v)
    | None => match g with
              | Some s => if Z.eqb s 0 then None else Some (glob_res s)
              | None => None
              end
    end.
Proof.
  intros g es req k H. rewrite fcl_lookup. apply existsb_cid_In in H. rewrite H. reflexivity.
Qed.

Lemma read_nothing_invented_lem : forall g es req k r,
    lookup k (format_characteristic_list g es req) = Some r ->
    (exists st v, In (Entry (fst k) (snd k) st v) es /\ r = render st v) \/
    (exists s, g = Some s /\ s <> 0%Z /\ In k req /\ r = glob_res s /\
               forall st v, ~ In (Entry (fst k) (snd k) st v) es).
Proof.
  intros g es req k r. rewrite fcl_lookup.
  destruct (last_entry es k) as [[st v]|] eqn:E.
  - intros H. inversion H. left. exists st, v. split; [apply last_entry_in; exact E|reflexivity].
  - destruct g as [s|]; [|discriminate]. destruct (Z.eqb_spec s 0); [discriminate|].
    destruct (existsb (cid_eqb k) req) eqn:E2; [|discriminate].
    intros H. inversion H. right. exists s. repeat split; auto.
    + apply existsb_cid_In. exact E2.
    + apply last_entry_none. exact E.
Qed.

Lemma fcl_step_filter : forall es m,
    fold_left fcl_step es m = fold_left fcl_step (filter wellformed es) m.
Proof.
  induction es as [|e t IH]; intros m; cbn [fold_left filter]; [reflexivity|].
  destruct e; cbn [wellformed fcl_step fold_left]; apply IH.
Qed.
Lemma read_malformed_skipped_lem : forall g es req,
    format_characteristic_list g es req = format_characteristic_list g (filter wellformed es) req.
Proof. intros. unfold format_characteristic_list. apply fcl_step_filter. Qed.

(* what a rendered entry looks like, spelled out *)
Lemma render_value : forall v, render None v = mk_rres None None v.
Proof. reflexivity. Qed.
Lemma render_zero : forall v, render (Some 0%Z) v = mk_rres None None v.
Proof. reflexivity. Qed.
Lemma render_status : forall s v, s <> 0%Z -> render (Some s) v = mk_rres (Some s) (Some (read_descr s)) v.
Proof. intros s v H. unfold render. destruct (Z.eqb_spec s 0); [contradiction|reflexivity]. Qed.

(* ------------------------------------------------------------------ IP put_characteristics *)
Definition popb (rej : Z -> bool) (es : list entry) (k : cid) : bool :=
  existsb (fun e => match e with
                    | Entry a i (Some s) _ => cid_eqb k (a, i) && rej s
                    | _ => false end) es.

Lemma listener_fold : forall (rd : cid -> bool) reqs m0 k,
    lookup k (fold_left (fun m q => if rd (fst q) then dset (fst q) (snd q) m else m) reqs m0) =
    match (if rd k then last_req reqs k else None) with
    | Some v => Some v
    | None => lookup k m0
    end.
Proof.
  intros rd. induction reqs as [|q t IH]; intros m0 k; cbn [fold_left last_req].
  - destruct (rd k); reflexivity.
  - rewrite IH. destruct (rd k) eqn:Ek.
    + destruct (last_req t k); [reflexivity|].
      destruct (cid_eqb k (fst q)) eqn:E.
      * apply cid_eqb_eq in E. subst k. rewrite Ek, lookup_dset, cid_eqb_refl. reflexivity.
      * destruct (rd (fst q)); [rewrite lookup_dset, E|]; reflexivity.
    + destruct (rd (fst q)) eqn:Eq; [|reflexivity].
      rewrite lookup_dset. destruct (cid_eqb k (fst q)) eqn:E; [|reflexivity].
      apply cid_eqb_eq in E. subst k. congruence.
Qed.
Lemma listener_init_lookup : forall rd reqs k,
    lookup k (listener_init rd reqs) = if rd k then last_req reqs k else None.
Proof.
  intros. unfold listener_init. rewrite listener_fold.
  destruct (rd k); [|reflexivity]. destruct (last_req reqs k); reflexivity.
Qed.

Lemma ip_loop_total : forall rej es rs lu,
    forallb has_status es = true -> exists out, ip_put_loop rej es rs lu = Ok out.
Proof.
  intros rej. induction es as [|e t IH]; intros rs lu H; cbn [ip_put_loop].
  - eexists. reflexivity.
  - cbn [forallb] in H. apply andb_true_iff in H. destruct H as [H1 H2].
    destruct e as [|a i [s|] v]; [apply IH; exact H2|apply IH; exact H2|discriminate].
Qed.
Lemma ip_loop_crash : forall rej es rs lu,
    forallb has_status es = false -> ip_put_loop rej es rs lu = Crash.
Proof.
  intros rej. induction es as [|e t IH]; intros rs lu H; cbn [ip_put_loop]; [discriminate|].
  cbn [forallb] in H. destruct e as [|a i [s|] v]; cbn [has_status andb] in H; auto.
Qed.
Lemma ip_loop_rs : forall rej es rs lu rs' lu',
    ip_put_loop rej es rs lu = Ok (rs', lu') ->
    forall k, lookup k rs' =
              match last_entry es k with
              | Some (Some s, _) => Some (s, DCode (to_status_code s))
              | _ => lookup k rs
              end.
Proof.
  intros rej. induction es as [|e t IH]; intros rs lu rs' lu' H k; cbn [ip_put_loop last_entry] in *.
  - inversion H. reflexivity.
  - destruct e as [|a i [s|] v]; [| |discriminate].
    + rewrite (IH _ _ _ _ H k). destruct (last_entry t k) as [[[s'|] v']|]; reflexivity.
    + rewrite (IH _ _ _ _ H k). destruct (last_entry t k) as [[[s'|] v']|] eqn:E; [reflexivity| |].
      * (* a later entry without status: the loop would have crashed *)
        exfalso. apply last_entry_in in E.
        assert (Hc : forallb has_status t = false).
        { destruct (forallb has_status t) eqn:F; [|reflexivity].
          rewrite forallb_forall in F. specialize (F _ E). discriminate. }
        rewrite (ip_loop_crash rej t _ _ Hc) in H. discriminate.
      * rewrite lookup_dset. destruct (cid_eqb k (a, i)); reflexivity.
Qed.
Lemma ip_loop_lu : forall rej es rs lu rs' lu',
    ip_put_loop rej es rs lu = Ok (rs', lu') ->
    forall k, lookup k lu' = if popb rej es k then None else lookup k lu.
Proof.
  intros rej. induction es as [|e t IH]; intros rs lu rs' lu' H k; cbn [ip_put_loop] in *.
  - inversion H. reflexivity.
  - unfold popb. cbn [existsb]. fold (popb rej t k).
    destruct e as [|a i [s|] v]; [| |discriminate].
    + rewrite (IH _ _ _ _ H k). reflexivity.
    + rewrite (IH _ _ _ _ H k). destruct (popb rej t k); [rewrite orb_true_r; reflexivity|].
      rewrite orb_false_r. destruct (rej s); [|rewrite andb_false_r; reflexivity].
      rewrite andb_true_r, lookup_dremove. reflexivity.
Qed.

Lemma popb_fixed : forall es k, popb rej_fixed es k = rejectsb es k.
Proof.
  intros es k. unfold popb, rejectsb. induction es as [|e t IH]; cbn [existsb]; [reflexivity|].
  rewrite IH. destruct e as [|a i [s|] v]; try reflexivity. rewrite rej_fixed_spec. reflexivity.
Qed.
Lemma rejectsb_spec : forall es k, rejectsb es k = true <-> rejects es k.
Proof.
  intros es k. unfold rejectsb, rejects. rewrite existsb_exists. split.
  - intros [e [Hin He]]. destruct e as [|a i [s|] v]; try discriminate.
    apply andb_true_iff in He. destruct He as [E1 E2]. apply cid_eqb_eq in E1.
    exists a, i, s, v. repeat split; auto. destruct (Z.eqb_spec s 0); [discriminate|assumption].
  - intros [a [i [s [v [Hin [Hk Hs]]]]]]. exists (Entry a i (Some s) v). split; [exact Hin|].
    subst k. rewrite cid_eqb_refl. cbn [andb]. destruct (Z.eqb_spec s 0); [contradiction|reflexivity].
Qed.

Definition reply_entries (r : wreply) : list entry :=
  match r with W207 es => es | _ => [] end.

Lemma ip_put_total_lem : forall rd reqs r,
    r <> WNoList -> forallb has_status (reply_entries r) = true ->
    exists rs lu, ip_put rd reqs r = Ok (rs, lu).
Proof.
  intros rd reqs r Hn H. destruct r as [| |es]; cbn [reply_entries] in H.
  - eexists. eexists. reflexivity.
  - contradiction.
  - unfold ip_put, ip_put_gen. destruct (ip_loop_total rej_fixed es [] (listener_init rd reqs) H) as [[rs lu] E].
    exists rs, lu. exact E.
Qed.

Lemma ip_put_rs : forall rej rd reqs r rs lu,
    ip_put_gen rej rd reqs r = Ok (rs, lu) ->
    forall k, lookup k rs =
              match last_entry (reply_entries r) k with
              | Some (Some s, _) => Some (s, DCode (to_status_code s))
              | _ => None
              end.
Proof.
  intros rej rd reqs r rs lu H k. destruct r as [| |es]; cbn [ip_put_gen reply_entries] in *.
  - inversion H. reflexivity.
  - discriminate.
  - rewrite (ip_loop_rs _ _ _ _ _ _ H k). cbn [lookup].
    destruct (last_entry es k) as [[[s|] v]|]; reflexivity.
Qed.
Lemma ip_put_lu : forall rej rd reqs r rs lu,
    ip_put_gen rej rd reqs r = Ok (rs, lu) ->
    forall k, lookup k lu =
              if rd k && negb (popb rej (reply_entries r) k) then last_req reqs k else None.
Proof.
  intros rej rd reqs r rs lu H k. destruct r as [| |es]; cbn [ip_put_gen reply_entries] in *.
  - inversion H. rewrite listener_init_lookup. cbn. rewrite andb_true_r. reflexivity.
  - discriminate.
  - rewrite (ip_loop_lu _ _ _ _ _ _ H k), listener_init_lookup.
    destruct (popb rej es k); [rewrite andb_false_r; reflexivity|]. rewrite andb_true_r. reflexivity.
Qed.

Lemma ip_listeners_lem : forall rd reqs r rs lu,
    ip_put rd reqs r = Ok (rs, lu) ->
    forall k, lookup k lu =
              if rd k && negb (rejectsb (reply_entries r) k) then last_req reqs k else None.
Proof. intros rd reqs r rs lu H k. unfold ip_put in H. rewrite (ip_put_lu _ _ _ _ _ _ H k), popb_fixed. reflexivity. Qed.

Lemma ip_never_hides_lem : forall rd reqs r rs lu k,
    ip_put rd reqs r = Ok (rs, lu) ->
    (rejects (reply_entries r) k -> lookup k lu = None /\ exists s d, lookup k rs = Some (s, d)) /\
    (forall s v, last_entry (reply_entries r) k = Some (Some s, v) ->
                 lookup k rs = Some (s, DCode (to_status_code s))).
Proof.
  intros rd reqs r rs lu k H. split.
  - intros Hr. split.
    + rewrite (ip_listeners_lem _ _ _ _ _ H k). apply rejectsb_spec in Hr. rewrite Hr, andb_false_r. reflexivity.
    + unfold ip_put in H. rewrite (ip_put_rs _ _ _ _ _ _ H k).
      destruct (last_entry (reply_entries r) k) as [[[s|] v]|] eqn:E.
      * eexists. eexists. reflexivity.
      * exfalso. apply last_entry_in in E.
        destruct r as [| |es]; cbn [reply_entries] in *; try contradiction.
        cbn [ip_put_gen] in H.
        assert (Hc : forallb has_status es = false).
        { destruct (forallb has_status es) eqn:F; [|reflexivity].
          rewrite forallb_forall in F. specialize (F _ E). discriminate. }
        rewrite (ip_loop_crash _ _ _ _ Hc) in H. discriminate.
      * exfalso. destruct Hr as [a [i [s [v [Hin [Hk _]]]]]]. subst k.
        rewrite last_entry_none in E. exact (E _ _ Hin).
  - intros s v E. unfold ip_put in H. rewrite (ip_put_rs _ _ _ _ _ _ H k), E. reflexivity.
Qed.

(* when the reply does not contradict itself about k, the reported status is the accessory's *)
Lemma ip_rejection_as_sent_lem : forall rd reqs r rs lu k s0,
    ip_put rd reqs r = Ok (rs, lu) ->
    (forall a i s v, In (Entry a i (Some s) v) (reply_entries r) -> (a, i) = k -> s = s0) ->
    rejects (reply_entries r) k ->
    s0 <> 0%Z /\ lookup k rs = Some (s0, DCode (to_status_code s0)) /\ lookup k lu = None.
Proof.
  intros rd reqs r rs lu k s0 H Hag Hr.
  destruct (ip_never_hides_lem _ _ _ _ _ k H) as [H1 H2].
  destruct (H1 Hr) as [Hlu [s [d Hrs]]].
  pose proof Hr as Hr'. destruct Hr' as [a [i [s1 [v1 [Hin [Hk Hs1]]]]]].
  pose proof (Hag _ _ _ _ Hin Hk) as E1. subst s1.
  split; [exact Hs1|]. split; [|exact Hlu].
  unfold ip_put in H. rewrite (ip_put_rs _ _ _ _ _ _ H k) in Hrs |- *.
  destruct (last_entry (reply_entries r) k) as [[[s2|] v2]|] eqn:E; try discriminate.
  apply last_entry_in in E. destruct k as [ka ki]. cbn [fst snd] in E.
  rewrite (Hag _ _ _ _ E eq_refl). reflexivity.
Qed.

Lemma ip_no_false_rejection_lem : forall rd reqs r rs lu k s d,
    ip_put rd reqs r = Ok (rs, lu) ->
    lookup k rs = Some (s, d) ->
    (exists v, In (Entry (fst k) (snd k) (Some s) v) (reply_entries r)) /\
    d = DCode (to_status_code s) /\
    (s <> 0%Z -> rejects (reply_entries r) k).
Proof.
  intros rd reqs r rs lu k s d H Hl. unfold ip_put in H. rewrite (ip_put_rs _ _ _ _ _ _ H k) in Hl.
  destruct (last_entry (reply_entries r) k) as [[[s2|] v2]|] eqn:E; try discriminate.
  inversion Hl. subst. apply last_entry_in in E. split; [exists v2; exact E|]. split; [reflexivity|].
  intros Hs. exists (fst k), (snd k), s, v2. repeat split; auto. destruct k; reflexivity.
Qed.

(* the unrepaired comparison drops an accepted, readable characteristic *)
Lemma ip_put_unrepaired_refuted_lem :
  exists rd reqs es rs lu k,
    ip_put_unrepaired rd reqs (W207 es) = Ok (rs, lu) /\
    rejectsb es k = false /\ rd k = true /\ last_req reqs k = Some 5%Z /\ lookup k lu = None.
Proof.
  exists (fun _ => true), [((1%N, 10%N), 5%Z); ((1%N, 12%N), 7%Z)],
    [Entry 1 10 (Some 0%Z) None; Entry 1 12 (Some (-70402)%Z) None].
  eexists. eexists. exists (1%N, 10%N). vm_compute. repeat split; reflexivity.
Qed.

(* ------------------------------------------------------------------ CoAP *)
Definition coap_rres (r : pdures) : rres :=
  match r with
  | PStatus n => mk_rres (Some (Z.opp (Z.of_N n))) (Some (DPdu n)) None
  | PBytes v => mk_rres None None (Some v)
  end.

Lemma coap_read_loop_ok : forall rs ids out,
    length rs <= length ids ->
    exists out', coap_read_loop ids rs out = Ok out' /\
                 forall k, lookup k out' = match last_paired ids rs k with
                                           | Some r => Some (coap_rres r)
                                           | None => lookup k out
                                           end.
Proof.
  induction rs as [|r rt IH]; intros ids out H; cbn [coap_read_loop].
  - exists out. split; [reflexivity|]. intros k. destruct ids; reflexivity.
  - destruct ids as [|i it]; cbn [length] in H; [lia|].
    destruct (IH it (dset i (coap_rres r) out)) as [out' [E Hl]]; [lia|].
    exists out'. split.
    + rewrite <- E. destruct r; reflexivity.
    + intros k. rewrite Hl. cbn [last_paired]. destruct (last_paired it rt k); [reflexivity|].
      rewrite lookup_dset. destruct (cid_eqb k i); reflexivity.
Qed.
Lemma coap_read_loop_crash : forall rs ids out,
    length ids < length rs -> coap_read_loop ids rs out = Crash.
Proof.
  induction rs as [|r rt IH]; intros ids out H; cbn [coap_read_loop length] in *; [lia|].
  destruct ids as [|i it]; [reflexivity|]. apply IH. cbn [length] in H. lia.
Qed.

Lemma coap_write_loop_ok : forall rs ids out,
    length rs <= length ids -> exists out', coap_write_loop ids rs out = Ok out'.
Proof.
  induction rs as [|r rt IH]; intros ids out H; cbn [coap_write_loop].
  - exists out. reflexivity.
  - destruct ids as [|i it]; cbn [length] in H; [lia|]. apply IH. lia.
Qed.

(* the last PDUStatus result paired with k *)
Fixpoint last_paired_status (ids : list cid) (rs : list pdures) (k : cid) : option N :=
  match ids, rs with
  | i :: it, r :: rt =>
      match last_paired_status it rt k with
      | Some n => Some n
      | None => match r with
                | PStatus n => if cid_eqb k i then Some n else None
                | PBytes _ => None
                end
      end
  | _, _ => None
  end.

Lemma coap_write_loop_lookup : forall rs ids out out',
    coap_write_loop ids rs out = Ok out' ->
    forall k, lookup k out' = match last_paired_status ids rs k with
                              | Some n => Some (Z.opp (Z.of_N n), DPdu n)
                              | None => lookup k out
                              end.
Proof.
  induction rs as [|r rt IH]; intros ids out out' H k; cbn [coap_write_loop] in H.
  - inversion H. destruct ids; reflexivity.
  - destruct ids as [|i it]; [discriminate|].
    rewrite (IH _ _ _ H k). cbn [last_paired_status].
    destruct (last_paired_status it rt k); [reflexivity|].
    destruct r as [v|n]; [reflexivity|].
    rewrite lookup_dset. destruct (cid_eqb k i); reflexivity.
Qed.
Lemma coap_write_loop_crash : forall rs ids out,
    length ids < length rs -> coap_write_loop ids rs out = Crash.
Proof.
  induction rs as [|r rt IH]; intros ids out H; cbn [coap_write_loop length] in *; [lia|].
  destruct ids as [|i it]; [reflexivity|]. apply IH. cbn [length] in H. lia.
Qed.
Lemma last_paired_status_any : forall ids rs k,
    (match last_paired_status ids rs k with Some _ => true | None => false end) = any_paired_status ids rs k.
Proof.
  induction ids as [|i it IH]; intros rs k; destruct rs as [|r rt]; cbn [last_paired_status any_paired_status]; try reflexivity.
  rewrite <- IH. destruct (last_paired_status it rt k); [rewrite orb_true_r; reflexivity|].
  rewrite orb_false_r. destruct r as [v|n]; cbn [is_pstatus]; [rewrite andb_false_r; reflexivity|].
  rewrite andb_true_r. destruct (cid_eqb k i); reflexivity.
Qed.
(* the status reported is one the accessory sent for that position *)
Lemma last_paired_status_in : forall ids rs k n,
    last_paired_status ids rs k = Some n -> In (k, PStatus n) (combine ids rs).
Proof.
  induction ids as [|i it IH]; intros rs k n; destruct rs as [|r rt]; cbn [last_paired_status combine]; try discriminate.
  destruct (last_paired_status it rt k) eqn:E.
  - intros H. inversion H. subst. right. apply IH. exact E.
  - destruct r as [v|m]; [discriminate|]. destruct (cid_eqb k i) eqn:E2; [|discriminate].
    intros H. inversion H. subst. apply cid_eqb_eq in E2. subst. left. reflexivity.
Qed.
Lemma any_paired_status_spec : forall ids rs k,
    any_paired_status ids rs k = true <-> exists n, In (k, PStatus n) (combine ids rs).
Proof.
  induction ids as [|i it IH]; intros rs k; destruct rs as [|r rt]; cbn [any_paired_status combine In];
    try (split; [discriminate|intros [n []]]).
  rewrite orb_true_iff, IH. split.
  - intros [H|[n H]].
    + apply andb_true_iff in H. destruct H as [E1 E2]. apply cid_eqb_eq in E1. subst.
      destruct r; [discriminate|]. eexists. left. reflexivity.
    + exists n. right. exact H.
  - intros [n [H|H]].
    + inversion H. subst. left. rewrite cid_eqb_refl. reflexivity.
    + right. exists n. exact H.
Qed.

Lemma coap_listener_fold : forall (ok : cid -> bool) reqs m0 k,
    lookup k (fold_left (fun m (q : cid * Z) => if ok (fst q) then dset (fst q) (snd q) m else m) reqs m0) =
    match (if ok k then last_req reqs k else None) with
    | Some v => Some v
    | None => lookup k m0
    end.
Proof. exact listener_fold. Qed.

Lemma coap_put_lem : forall rd reqs rs,
    (length rs <= length reqs ->
     exists out lu, coap_put rd reqs rs = Ok (out, lu) /\
       (forall k, lookup k out = match last_paired_status (map fst reqs) rs k with
                                 | Some n => Some (Z.opp (Z.of_N n), DPdu n)
                                 | None => None
                                 end) /\
       (forall k, lookup k lu = if rd k && negb (any_paired_status (map fst reqs) rs k)
                                then last_req reqs k else None)) /\
    (length reqs < length rs -> coap_put rd reqs rs = Crash).
Proof.
  intros rd reqs rs. split.
  - intros H. unfold coap_put.
    destruct (coap_write_loop_ok rs (map fst reqs) []) as [out E]; [rewrite map_length; exact H|].
    rewrite E. eexists. eexists. split; [reflexivity|]. split.
    + intros k. rewrite (coap_write_loop_lookup _ _ _ _ E k). reflexivity.
    + intros k.
      rewrite (coap_listener_fold (fun c => negb (dmem c out) && rd c)). cbn [lookup].
      unfold dmem. rewrite (coap_write_loop_lookup _ _ _ _ E k). cbn [lookup].
      rewrite <- last_paired_status_any.
      destruct (last_paired_status (map fst reqs) rs k); cbn [negb andb].
      * rewrite andb_false_r. reflexivity.
      * rewrite andb_true_r. destruct (rd k); [|reflexivity]. destruct (last_req reqs k); reflexivity.
  - intros H. unfold coap_put. rewrite coap_write_loop_crash; [reflexivity|]. rewrite map_length. exact H.
Qed.

(* ------------------------------------------------------------------ BLE *)
Lemma ble_loop_lem : forall perm rd items rs ns,
    fst (ble_loop perm rd items rs ns) = ns ++ ble_notified perm rd (ble_prefix perm items) /\
    match ble_first_reject perm items with
    | Some s => snd (ble_loop perm rd items rs ns) = Err (PduStatusError s) /\ s <> 0%N
    | None => exists rs', snd (ble_loop perm rd items rs ns) = Ok rs' /\
                forall k, lookup k rs' =
                          if existsb (fun it => cid_eqb k (b_key it) && negb (ble_sent perm it)) items
                          then Some (hap_read_only, DCode hap_read_only) else lookup k rs
    end.
Proof.
  intros perm rd. induction items as [|it t IH]; intros rs ns.
  - cbn. rewrite app_nil_r. split; [reflexivity|]. exists rs. split; reflexivity.
  - cbn [ble_loop ble_prefix ble_first_reject]. unfold ble_reject_status.
    unfold ble_notified in *. unfold ble_sent in *.
    destruct (perm (snd (b_key it))) eqn:P.
    + destruct (N.eqb_spec (b_s1 it) 0) as [E1|E1].
      * destruct (N.eqb_spec (b_s2 it) 0) as [E2|E2].
        -- cbn [filter]. unfold ble_sent. rewrite P. cbn [andb].
           destruct (IH rs (if rd (snd (b_key it)) then ns ++ [(b_key it, b_val it)] else ns)) as [I1 I2].
           split.
           ++ rewrite I1. destruct (rd (snd (b_key it))); cbn [map]; [rewrite <- app_assoc|]; reflexivity.
           ++ destruct (ble_first_reject perm t); [exact I2|].
              destruct I2 as [rs' [A B]]. exists rs'. split; [exact A|]. intros k. rewrite B.
              cbn [existsb]. rewrite P. cbn [negb]. rewrite andb_false_r. reflexivity.
        -- cbn. rewrite app_nil_r. split; [reflexivity|]. split; [reflexivity|exact E2].
      * cbn. rewrite app_nil_r. split; [reflexivity|]. split; [reflexivity|exact E1].
    + destruct (N.eqb_spec (b_s1 it) 0) as [E1|E1].
      * cbn [filter]. unfold ble_sent. rewrite P. cbn [andb].
        destruct (IH rs (if rd (snd (b_key it)) then ns ++ [(b_key it, b_val it)] else ns)) as [I1 I2].
        split.
        -- rewrite I1. destruct (rd (snd (b_key it))); cbn [map]; [rewrite <- app_assoc|]; reflexivity.
        -- destruct (ble_first_reject perm t); [exact I2|].
           destruct I2 as [rs' [A B]]. exists rs'. split; [exact A|]. intros k. rewrite B.
           cbn [existsb]. rewrite P. cbn [negb]. rewrite andb_false_r. reflexivity.
      * cbn. rewrite app_nil_r. split; [reflexivity|]. split; [reflexivity|exact E1].
    + cbn [filter]. unfold ble_sent. rewrite P. cbn [andb].
      destruct (IH (dset (b_key it) (hap_read_only, DCode hap_read_only) rs) ns) as [I1 I2].
      split; [exact I1|].
      destruct (ble_first_reject perm t); [exact I2|].
      destruct I2 as [rs' [A B]]. exists rs'. split; [exact A|]. intros k. rewrite B.
      cbn [existsb]. rewrite P. cbn [negb]. rewrite andb_true_r, lookup_dset.
      destruct (existsb _ t); [rewrite orb_true_r; reflexivity|]. rewrite orb_false_r. reflexivity.
Qed.

Lemma ble_first_reject_none : forall perm items,
    ble_first_reject perm items = None <-> (forall it, In it items -> ble_reject_status perm it = None).
Proof.
  intros perm. induction items as [|it t IH]; cbn [ble_first_reject In].
  - split; [intros _ it []|reflexivity].
  - destruct (ble_reject_status perm it) eqn:E.
    + split; [discriminate|]. intros H. rewrite <- E. apply H. left. reflexivity.
    + rewrite IH. split.
      * intros H x [<-|Hx]; [exact E|apply H; exact Hx].
      * intros H x Hx. apply H. right. exact Hx.
Qed.
Lemma ble_prefix_all : forall perm items,
    ble_first_reject perm items = None -> ble_prefix perm items = items.
Proof.
  intros perm. induction items as [|it t IH]; cbn [ble_first_reject ble_prefix]; [reflexivity|].
  destruct (ble_reject_status perm it); [discriminate|]. intros H. rewrite IH; auto.
Qed.
Lemma ble_first_reject_some : forall perm items s,
    ble_first_reject perm items = Some s ->
    exists pre it post, items = pre ++ it :: post /\ ble_prefix perm items = pre /\
                        ble_reject_status perm it = Some s.
Proof.
  intros perm. induction items as [|it t IH]; cbn [ble_first_reject ble_prefix]; [discriminate|].
  intros s. destruct (ble_reject_status perm it) eqn:E.
  - intros H. inversion H. subst. exists [], it, t. repeat split. exact E.
  - intros H. destruct (IH _ H) as [pre [x [post [-> [P R]]]]].
    exists (it :: pre), x, post. repeat split; [rewrite P; reflexivity|exact R].
Qed.

Lemma ble_put_lem : forall perm rd items,
    fst (ble_put perm rd items) = ble_notified perm rd (ble_prefix perm items) /\
    match ble_first_reject perm items with
    | Some s => snd (ble_put perm rd items) = Err (PduStatusError s) /\ s <> 0%N
    | None => exists rs', snd (ble_put perm rd items) = Ok rs' /\
                forall k, lookup k rs' =
                          if existsb (fun it => cid_eqb k (b_key it) && negb (ble_sent perm it)) items
                          then Some (hap_read_only, DCode hap_read_only) else None
    end.
Proof. intros. unfold ble_put. exact (ble_loop_lem perm rd items [] []). Qed.
