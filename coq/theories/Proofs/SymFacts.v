(* Facts about the symbolic term algebra of Model/Sym.v: decidable equality is
   exactly Leibniz equality, and the perfect-cryptography characterisations of
   verify / open / DH used by the protocol theorems. *)
From Coq Require Import List NArith Arith Bool Lia.
From AHK Require Import Lib.Res Lib.ByteStr Model.Tlv Model.Sym.
Import ListNotations.

(* ---- nested induction principle ---- *)
Section AtomInd.
  Variable P : atom -> Prop.
  Hypothesis HByte : forall b, P (AByte b).
  Hypothesis HPub : forall k, P (APub k).
  Hypothesis HSig : forall k m, Forall P m -> P (ASig k m).
  Hypothesis HAead : forall k n a p, Forall P k -> Forall P n -> Forall P a -> Forall P p -> P (AAead k n a p).
  Hypothesis HDH : forall a b, P (ADH a b).
  Hypothesis HDHx : forall a p, Forall P p -> P (ADHx a p).
  Hypothesis HHkdf : forall i s f l, Forall P i -> Forall P s -> Forall P f -> P (AHkdf i s f l).
  Hypothesis HHash : forall m, Forall P m -> P (AHash m).
  Hypothesis HSrpA : forall a, P (ASrpA a).
  Hypothesis HSrpB : forall b c s, Forall P c -> Forall P s -> P (ASrpB b c s).
  Hypothesis HSrpK : forall a b c s, Forall P c -> Forall P s -> P (ASrpK a b c s).
  Hypothesis HSrpKc : forall a c s B, Forall P c -> Forall P s -> Forall P B -> P (ASrpKc a c s B).
  Hypothesis HSrpKs : forall b c s A, Forall P c -> Forall P s -> Forall P A -> P (ASrpKs b c s A).
  Hypothesis HTlv : forall t v, Forall P v -> P (ATlv t v).
  Hypothesis HJunk : forall i l, P (AJunk i l).

  Fixpoint atom_ind' (x : atom) : P x :=
    let fix go (l : list atom) : Forall P l :=
      match l with
      | [] => Forall_nil P
      | a :: r => Forall_cons a (atom_ind' a) (go r)
      end in
    match x with
    | AByte b => HByte b
    | APub k => HPub k
    | ASig k m => HSig k m (go m)
    | AAead k n a p => HAead k n a p (go k) (go n) (go a) (go p)
    | ADH a b => HDH a b
    | ADHx a p => HDHx a p (go p)
    | AHkdf i s f l => HHkdf i s f l (go i) (go s) (go f)
    | AHash m => HHash m (go m)
    | ASrpA a => HSrpA a
    | ASrpB b c s => HSrpB b c s (go c) (go s)
    | ASrpK a b c s => HSrpK a b c s (go c) (go s)
    | ASrpKc a c s B => HSrpKc a c s B (go c) (go s) (go B)
    | ASrpKs b c s A => HSrpKs b c s A (go c) (go s) (go A)
    | ATlv t v => HTlv t v (go v)
    | AJunk i l => HJunk i l
    end.
End AtomInd.

(* the list equality nested inside atom_eqb is msg_eqb *)
Lemma msg_eqb_list (P : atom -> Prop) :
  forall l, Forall (fun a => forall b, atom_eqb a b = true <-> a = b) l ->
  forall l', msg_eqb l l' = true <-> l = l'.
Proof.
  induction l as [|a r IH]; intros HF l'; destruct l' as [|b s]; cbn [msg_eqb];
    try (split; [discriminate|discriminate]); try (split; reflexivity).
  inversion HF as [|? ? Ha Hr]; subst.
  rewrite andb_true_iff, Ha, (IH Hr). split; [intros [-> ->]; reflexivity|intros H; inversion H; auto].
Qed.

Ltac eqb_case :=
  repeat rewrite andb_true_iff; repeat rewrite N.eqb_eq;
  repeat match goal with
    | H : Forall _ ?m |- context [msg_eqb ?m ?m'] => rewrite (msg_eqb_list (fun _ => True) m H m')
    end;
  split; [intros; repeat match goal with H : _ /\ _ |- _ => destruct H end; subst; reflexivity
         | intros E; inversion E; subst; repeat split; reflexivity].

Lemma atom_eqb_eq : forall x y, atom_eqb x y = true <-> x = y.
Proof.
  induction x using atom_ind'; destruct y;
    try (split; [cbn; discriminate | discriminate]);
    change (atom_eqb ?a ?b) with (atom_eqb a b); cbn [atom_eqb];
    repeat match goal with
      | |- context [(fix meq (l1 l2 : list atom) {struct l1} : bool := _) ?a ?b] =>
          change ((fix meq (l1 l2 : list atom) {struct l1} : bool :=
                     match l1, l2 with
                     | [], [] => true
                     | a :: r, b :: s => atom_eqb a b && meq r s
                     | _, _ => false
                     end) a b) with (msg_eqb a b)
      end;
    eqb_case.
Qed.

Lemma msg_eqb_eq : forall l l', msg_eqb l l' = true <-> l = l'.
Proof.
  intros l. apply (msg_eqb_list (fun _ => True)).
  apply Forall_forall. intros a _ b. apply atom_eqb_eq.
Qed.

Lemma msg_eqb_refl m : msg_eqb m m = true.
Proof. now apply msg_eqb_eq. Qed.

Lemma msg_eqb_neq l l' : l <> l' -> msg_eqb l l' = false.
Proof. intros H. destruct (msg_eqb l l') eqn:E; [apply msg_eqb_eq in E; contradiction|reflexivity]. Qed.

Lemma bytes_eqb_eq : forall a b, bytes_eqb a b = true <-> a = b.
Proof.
  induction a as [|x r IH]; destruct b as [|y s]; cbn [bytes_eqb];
    try (split; [discriminate|discriminate]); try (split; reflexivity).
  rewrite andb_true_iff, N.eqb_eq, IH. split; [intros [-> ->]; reflexivity|intros H; inversion H; auto].
Qed.

Lemma bytes_eqb_refl a : bytes_eqb a a = true.
Proof. now apply bytes_eqb_eq. Qed.

(* ---- literals ---- *)
Lemma as_bytes_lit b : as_bytes (lit b) = Some b.
Proof. induction b as [|x r IH]; cbn; [reflexivity|]. unfold lit in IH. now rewrite IH. Qed.

Lemma as_bytes_some : forall m b, as_bytes m = Some b -> m = lit b.
Proof.
  induction m as [|a r IH]; intros b H; cbn in H.
  - inversion H; reflexivity.
  - destruct a; try discriminate. destruct (as_bytes r) as [b'|]; cbn in H; [|discriminate].
    inversion H; subst. cbn. now rewrite (IH b' eq_refl).
Qed.

Lemma lit_inj a b : lit a = lit b -> a = b.
Proof.
  intros H. pose proof (as_bytes_lit a) as Ha. rewrite H, as_bytes_lit in Ha. now inversion Ha.
Qed.

Lemma lit_app a b : lit (a ++ b) = lit a ++ lit b.
Proof. unfold lit. apply map_app. Qed.

Lemma mlen_app a b : mlen (a ++ b) = (mlen a + mlen b)%N.
Proof. induction a as [|x r IH]; cbn [mlen app]; [reflexivity|]. rewrite IH. lia. Qed.

Lemma mlen_lit b : mlen (lit b) = N.of_nat (length b).
Proof. induction b as [|x r IH]; cbn [mlen lit map length]; [reflexivity|]. unfold lit in IH. rewrite IH. cbn [alen]. lia. Qed.

(* ---- perfect cryptography ---- *)
Lemma s_verify_true pk sg m :
  s_verify pk sg m = true <-> exists k, pk = [APub k] /\ sg = [ASig k m].
Proof.
  unfold s_verify. split.
  - destruct pk as [|[] [|]]; try discriminate.
    destruct sg as [|[] [|]]; try discriminate.
    rewrite andb_true_iff, N.eqb_eq, msg_eqb_eq. intros [-> ->]. eexists; split; reflexivity.
  - intros (k & -> & ->). now rewrite N.eqb_refl, msg_eqb_refl.
Qed.

Lemma s_verify_sign sk m : s_verify (s_pub sk) (s_sign sk m) m = true.
Proof. apply s_verify_true. exists sk. split; reflexivity. Qed.

Lemma s_open_some key nn aad ct pt :
  s_open key nn aad ct = Some pt <-> ct = [AAead key nn aad pt].
Proof.
  unfold s_open. split.
  - destruct ct as [|[] [|]]; try discriminate.
    destruct (msg_eqb key0 key && msg_eqb nonce nn && msg_eqb aad0 aad) eqn:E; [|discriminate].
    rewrite !andb_true_iff, !msg_eqb_eq in E. destruct E as [[-> ->] ->]. intros H; inversion H; reflexivity.
  - intros ->. now rewrite !msg_eqb_refl.
Qed.

Lemma s_open_seal key nn aad pt : s_open key nn aad (s_seal key nn aad pt) = Some pt.
Proof. now apply s_open_some. Qed.

Lemma s_dh_comm a b : s_dh a (s_pub b) = s_dh b (s_pub a).
Proof.
  unfold s_dh, s_pub. destruct (N.leb a b) eqn:E1, (N.leb b a) eqn:E2; try reflexivity.
  - apply N.leb_le in E1, E2. assert (a = b) by lia. subst. reflexivity.
  - apply N.leb_gt in E1, E2. lia.
Qed.

(* a DH value built with a public key of a known secret determines the pair *)
Lemma s_dh_pub_inj a b b' : s_dh a (s_pub b) = s_dh a (s_pub b') -> b = b'.
Proof.
  unfold s_dh, s_pub. destruct (N.leb a b) eqn:E1, (N.leb a b') eqn:E2; intros H; inversion H; subst; reflexivity.
Qed.

Lemma srp_agree code salt a b :
  srp_kc code salt a (srp_B b code salt) = srp_ks code salt b (srp_A a).
Proof. unfold srp_kc, srp_ks, srp_B, srp_A. now rewrite !msg_eqb_refl. Qed.

(* ---- symbolic TLV ---- *)
Lemma all_tlv_senc l : all_tlv (senc l) = Some l.
Proof. induction l as [|[t v] r IH]; cbn; [reflexivity|]. unfold senc in IH. now rewrite IH. Qed.

Lemma sdec_senc l : sdec (senc l) = SItems l.
Proof. unfold sdec. now rewrite all_tlv_senc. Qed.

Lemma all_tlv_some : forall m l, all_tlv m = Some l -> m = senc l.
Proof.
  induction m as [|a r IH]; intros l H; cbn in H.
  - inversion H; reflexivity.
  - destruct a; try discriminate. destruct (all_tlv r) as [l'|]; cbn in H; [|discriminate].
    inversion H; subst. cbn. now rewrite (IH l' eq_refl).
Qed.

(* ---- injectivity of the constructors-as-functions ---- *)
Lemma s_seal_inj k n a p k' n' a' p' :
  s_seal k n a p = s_seal k' n' a' p' -> k = k' /\ n = n' /\ a = a' /\ p = p'.
Proof. unfold s_seal. intros H; inversion H; auto. Qed.
Lemma s_sign_inj k m k' m' : s_sign k m = s_sign k' m' -> k = k' /\ m = m'.
Proof. unfold s_sign. intros H; inversion H; auto. Qed.
Lemma s_pub_inj k k' : s_pub k = s_pub k' -> k = k'.
Proof. unfold s_pub. intros H; inversion H; auto. Qed.
Lemma s_hkdf_inj i s f l i' s' f' l' :
  s_hkdf i s f l = s_hkdf i' s' f' l' -> i = i' /\ s = s' /\ f = f' /\ l = l'.
Proof. unfold s_hkdf. intros H; inversion H; auto. Qed.
Lemma s_hash_inj m m' : s_hash m = s_hash m' -> m = m'.
Proof. unfold s_hash. intros H; inversion H; auto. Qed.
Lemma some_inj {A} (x y : A) : Some x = Some y -> x = y.
Proof. intros H; inversion H; auto. Qed.
