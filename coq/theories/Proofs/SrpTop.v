(* C02 - the statements of Props/C02.v in their final form (Z-level bounds,
   HAP instance), assembled from Proofs/SrpBytes.v, Proofs/Srp.v, Proofs/SrpBig.v. *)
From Coq Require Import List NArith ZArith Arith Bool Lia ZifyN ZifyNat ZifyBool.
From AHK Require Import Lib.Res Lib.ByteStr Model.Sha512 Model.Srp Model.SrpServer Model.SrpBig
  Proofs.Sha512 Proofs.SrpBytes Proofs.Srp Proofs.SrpServer Proofs.SrpBig.
Import ListNotations.
Local Open Scope Z_scope.

Lemma P256_Z len : Z.of_N (P256 len) = 256 ^ Z.of_nat len.
Proof. unfold P256. rewrite N2Z.inj_pow. rewrite nat_N_Z. reflexivity. Qed.

Lemma bound_Z_N z len : 0 <= z -> (z < 256 ^ Z.of_nat len <-> (Z.to_N z < P256 len)%N).
Proof. intros Hz. rewrite <- P256_Z. lia. Qed.

Lemma pad_left_roundtrip_Z z len :
  0 <= z < 256 ^ Z.of_nat len ->
  exists t bs, to_byte_array z = Ok t /\ pad_left t len = Ok bs /\
               length bs = len /\ from_bytes bs = z /\ all_bytes bs = true /\
               bs = be_enc len (Z.to_N z).
Proof.
  intros [Hz Hlt]. apply bound_Z_N in Hlt; [|assumption].
  exists (tba (Z.to_N z)), (be_enc len (Z.to_N z)).
  split; [now apply to_byte_array_nonneg|].
  split; [now apply padded_fixed_width|].
  split; [apply be_enc_length|].
  split; [unfold from_bytes; rewrite be_dec_enc' by assumption; lia|].
  split; [apply be_enc_bytes|reflexivity].
Qed.

Lemma pad_left_raises_Z z len :
  0 <= z -> 256 ^ Z.of_nat len <= z -> padded z len = Crash.
Proof.
  intros Hz Hge. apply padded_too_big; [assumption|].
  rewrite <- P256_Z in Hge. lia.
Qed.

Lemma to_byte_array_minimal_Z z :
  0 <= z ->
  exists t, to_byte_array z = Ok t /\ from_bytes t = z /\ all_bytes t = true /\
            hd 1%N t <> 0%N /\
            (forall l, all_bytes l = true -> from_bytes l = z ->
                       (length t <= length l)%nat /\ t = strip0 l).
Proof.
  intros Hz. exists (tba (Z.to_N z)).
  split; [now apply to_byte_array_nonneg|].
  split; [unfold from_bytes; rewrite tba_value; lia|].
  split; [apply tba_bytes|].
  split; [apply tba_head_nonzero|].
  intros l Hl E. unfold from_bytes in E.
  assert (be_dec l = Z.to_N z) as E' by lia.
  split; [now apply tba_shortest|].
  rewrite (strip0_canonical l Hl), E'. reflexivity.
Qed.

Lemma to_byte_array_negative z : z < 0 -> to_byte_array z = Crash.
Proof. apply to_byte_array_neg. Qed.

(* ------------------------------------------------------------ HAP instance *)

Lemma hap_client_total I P a salt B_b :
  0 <= a -> length salt = 16%nat -> all_bytes salt = true ->
  exists r, hap_client powm I P a salt B_b = Ok r /\
            r_A_b r = PAD HK_KEY_LENGTH (G3072 ^ a mod N3072) /\ r_salt_b r = salt /\
            length (r_A_b r) = 384%nat /\ length (r_M1 r) = 64%nat /\ length (r_K r) = 64%nat.
Proof.
  intros Ha Hlen Hsalt. eexists. split.
  - unfold hap_client. apply client_closed_form; try assumption.
    + apply powm_spec.
    + exact N3072_pos.
    + exact N3072_fits.
  - cbn [r_A_b r_salt_b r_M1 r_K]. split; [reflexivity|]. split; [reflexivity|].
    split; [apply PAD_length|]. split; apply sha512_length.
Qed.

Lemma hap_exchange I P salt a b :
  0 <= a -> 0 <= b -> length salt = 16%nat -> all_bytes salt = true ->
  let B_b := sv_public sha512 N3072 G3072 HK_KEY_LENGTH I P salt b in
  exists r, hap_client powm I P a salt B_b = Ok r /\
    let s := hap_server I P salt b (r_A_b r) (r_M1 r) in
    r_A_b r = PAD HK_KEY_LENGTH (G3072 ^ a mod N3072) /\
    r_salt_b r = salt /\
    s_B_b s = B_b /\
    r_S r = s_S s /\
    r_K r = s_K s /\
    r_M1 r = s_M1 s /\
    s_ok s = true /\
    r_M2 r = s_M2 s /\
    cl_accepts r (s_M2 s) = true.
Proof.
  intros Ha Hb Hlen Hsalt.
  apply (exchange sha512 powm N3072 G3072 K_LITERAL HGROUP_BYTES HK_KEY_LENGTH SALT_LENGTH
           powm_spec N3072_pos N3072_fits k_constant hgroup_constant N3072_gt1 G3072_coprime);
    assumption.
Qed.

Lemma hap_m2_iff I P a salt B_b r M_b :
  hap_client powm I P a salt B_b = Ok r ->
  length M_b = 64%nat -> all_bytes M_b = true ->
  (cl_accepts r M_b = true <-> M_b = r_M2 r).
Proof.
  intros Hr Hlen Hb.
  assert (exists m, r_M2 r = sha512 m) as [m Em].
  { unfold hap_client, client in Hr.
    destruct (padded _ HK_KEY_LENGTH) as [A_b| | |]; cbn [rbind] in Hr; try discriminate.
    destruct (padded _ SALT_LENGTH) as [salt_b| | |]; cbn [rbind] in Hr; try discriminate.
    destruct (padded _ HK_KEY_LENGTH) as [S_b| | |]; cbn [rbind] in Hr; try discriminate.
    injection Hr as <-. cbn [r_M2]. unfold cl_M2. eexists. reflexivity. }
  apply accepts_iff_same_length.
  - rewrite Em, sha512_length. assumption.
  - assumption.
  - rewrite Em. apply sha512_bytes.
Qed.

Lemma hap_m2_shape I P a salt B_b r :
  hap_client powm I P a salt B_b = Ok r ->
  length (r_M2 r) = 64%nat /\ all_bytes (r_M2 r) = true.
Proof.
  intros Hr.
  unfold hap_client, client in Hr.
  destruct (padded _ HK_KEY_LENGTH) as [A_b| | |]; cbn [rbind] in Hr; try discriminate.
  destruct (padded _ SALT_LENGTH) as [salt_b| | |]; cbn [rbind] in Hr; try discriminate.
  destruct (padded _ HK_KEY_LENGTH) as [S_b| | |]; cbn [rbind] in Hr; try discriminate.
  injection Hr as <-. cbn [r_M2]. unfold cl_M2. split; [apply sha512_length|apply sha512_bytes].
Qed.

Lemma hap_m2_strip0 I P a salt B_b r M_b :
  hap_client powm I P a salt B_b = Ok r -> all_bytes M_b = true ->
  (cl_accepts r M_b = true <-> strip0 M_b = strip0 (r_M2 r)).
Proof.
  intros Hr Hb. apply accepts_iff_strip0; [assumption|].
  now destruct (hap_m2_shape _ _ _ _ _ _ Hr).
Qed.

Lemma hap_bitflip_rejected I P a salt B_b r i bit :
  hap_client powm I P a salt B_b = Ok r -> (i < 64)%nat -> (bit < 8)%N ->
  cl_accepts r (flip_bit (r_M2 r) i bit) = false.
Proof.
  intros Hr Hi Hb. destruct (hap_m2_shape _ _ _ _ _ _ Hr) as [Hl Ha].
  apply flipped_rejected; [assumption|rewrite Hl; assumption|assumption].
Qed.

Lemma hap_wrong_code I P P' salt a b r :
  0 <= a -> length salt = 16%nat -> all_bytes salt = true ->
  hap_client powm I P' a salt (sv_public sha512 N3072 G3072 HK_KEY_LENGTH I P salt b) = Ok r ->
  s_ok (hap_server I P salt b (r_A_b r) (r_M1 r)) = true ->
  collision sha512 \/ r_S r = s_S (hap_server I P salt b (r_A_b r) (r_M1 r)).
Proof.
  intros Ha Hlen Hsalt Hr Hok.
  apply (wrong_code sha512 powm N3072 G3072 K_LITERAL HGROUP_BYTES HK_KEY_LENGTH SALT_LENGTH
           powm_spec N3072_pos N3072_fits hgroup_constant I P P' salt a b r); assumption.
Qed.

(* ------------------------------------------------------------ SrpServer, HAP instance *)

Lemma hap_srpserver_closed (I P salt : bytes) b (A_b M1_b : bytes) :
  0 <= b -> length A_b = 384%nat -> all_bytes A_b = true ->
  let s := hap_server I P salt b A_b M1_b in
  hap_srpserver powm false I P salt b (inr A_b) M1_b =
  Ok {| p_B := s_B s; p_B_b := s_B_b s; p_A_b := A_b; p_S := s_S s; p_K := s_K s; p_M1 := s_M1 s;
        p_ok := (from_bytes M1_b =? from_bytes (s_M1 s)); p_M2 := s_M2 s;
        p_M2_int := rbind (padded (from_bytes M1_b) PROOF_LENGTH)
                          (fun al => Ok (from_bytes (sha512 (A_b ++ al ++ s_K s)))) |}.
Proof.
  intros Hb Hlen Hall.
  apply (srpserver_bytes_closed sha512 powm N3072 G3072 K_LITERAL HGROUP_BYTES HK_KEY_LENGTH PROOF_LENGTH
           powm_spec N3072_pos N3072_fits k_constant hgroup_constant); assumption.
Qed.

Lemma hap_srpserver_int_path guard (I P salt : bytes) b A (M1_b : bytes) :
  0 <= A < 256 ^ Z.of_nat HK_KEY_LENGTH ->
  hap_srpserver powm guard I P salt b (inl A) M1_b =
  hap_srpserver powm guard I P salt b (inr (PAD HK_KEY_LENGTH A)) M1_b.
Proof.
  intros [HA Hlt].
  apply (srpserver_int_path sha512 powm N3072 G3072 K_LITERAL HGROUP_BYTES HK_KEY_LENGTH PROOF_LENGTH
           powm_spec N3072_pos N3072_fits); [assumption|].
  apply bound_Z_N; assumption.
Qed.

Lemma hap_srpserver_guarded_iff_spec (I P salt : bytes) b (A_b M1_b : bytes) :
  0 <= b -> length A_b = 384%nat -> all_bytes A_b = true ->
  length M1_b = 64%nat -> all_bytes M1_b = true ->
  ((exists r, hap_srpserver powm true I P salt b (inr A_b) M1_b = Ok r /\ p_ok r = true) <->
   s_ok (hap_server I P salt b A_b M1_b) = true).
Proof.
  intros Hb Hlen Hall HlenM HallM.
  apply (srpserver_guarded_iff_spec sha512 powm N3072 G3072 K_LITERAL HGROUP_BYTES HK_KEY_LENGTH PROOF_LENGTH
           powm_spec N3072_pos N3072_fits k_constant hgroup_constant I P salt b A_b M1_b Hb Hlen Hall
           sha512_length sha512_bytes HlenM HallM).
Qed.

Lemma hap_srpserver_zero_key (I P salt : bytes) b :
  0 < b ->
  let B_b := sv_public sha512 N3072 G3072 HK_KEY_LENGTH I P salt b in
  let forged := sha512 (HGROUP_BYTES ++ sha512 I ++ salt ++ PAD HK_KEY_LENGTH 0 ++ B_b
                        ++ sha512 (PAD HK_KEY_LENGTH 0)) in
  exists r, hap_srpserver powm false I P salt b (inr (PAD HK_KEY_LENGTH 0)) forged = Ok r /\
            p_B_b r = B_b /\ p_ok r = true /\ p_K r = sha512 (PAD HK_KEY_LENGTH 0) /\
            s_ok (hap_server I P salt b (PAD HK_KEY_LENGTH 0) forged) = false.
Proof.
  intros Hb.
  apply (srpserver_zero_key sha512 powm N3072 G3072 K_LITERAL HGROUP_BYTES HK_KEY_LENGTH PROOF_LENGTH
           powm_spec N3072_pos N3072_fits k_constant hgroup_constant); assumption.
Qed.

(* the real controller and SrpServer (either variant) complete an exchange: corollary of
   hap_exchange and hap_srpserver_closed *)
Lemma hap_client_srpserver (I P salt : bytes) a b :
  0 <= a -> 0 <= b -> length salt = 16%nat -> all_bytes salt = true ->
  let B_b := sv_public sha512 N3072 G3072 HK_KEY_LENGTH I P salt b in
  exists r q, hap_client powm I P a salt B_b = Ok r /\
    hap_srpserver powm true I P salt b (inr (r_A_b r)) (r_M1 r) = Ok q /\
    p_B_b q = B_b /\ p_ok q = true /\ p_K q = r_K r /\ cl_accepts r (p_M2 q) = true.
Proof.
  intros Ha Hb Hlen Hsalt B_b.
  destruct (hap_exchange I P salt a b Ha Hb Hlen Hsalt) as [r [Hr Hx]]. cbv zeta in Hx.
  destruct Hx as [EA [_ [EB [_ [EK [EM1 [Hok [_ Hacc]]]]]]]].
  assert (HlenA : length (r_A_b r) = 384%nat) by (rewrite EA; apply PAD_length).
  assert (HallA : all_bytes (r_A_b r) = true) by (rewrite EA; apply be_enc_bytes).
  pose proof (hap_srpserver_closed I P salt b (r_A_b r) (r_M1 r) Hb HlenA HallA) as Hc. cbv zeta in Hc.
  assert (Hnz : (from_bytes (r_A_b r) mod N3072 =? 0) = false).
  { unfold hap_server, server in Hok. cbn [s_ok] in Hok. apply andb_true_iff in Hok.
    destruct Hok as [Hn _]. now apply negb_true_iff in Hn. }
  exists r. eexists. split; [exact Hr|]. split.
  - unfold hap_srpserver.
    rewrite (srpserver_guard sha512 powm N3072 G3072 K_LITERAL HGROUP_BYTES HK_KEY_LENGTH PROOF_LENGTH
               powm_spec N3072_pos N3072_fits I P salt b (r_A_b r) (r_M1 r) Hb).
    rewrite Hnz. exact Hc.
  - cbn [p_B_b p_ok p_K p_M2]. split; [exact EB|]. split; [rewrite <- EM1; apply Z.eqb_refl|].
    split; [symmetry; exact EK|exact Hacc].
Qed.
