(* C19 - lemmas about the waiter-table transition system of Model/Find.v *)
From Coq Require Import List NArith ZArith Arith Bool Lia ZifyN ZifyNat ZifyBool.
From AHK Require Import Lib.Res Lib.ByteStr Model.Find.
Import ListNotations.
Open Scope N_scope.

(* ------------------------------------------------------------------ basics *)
Lemma beq_refl a : beq a a = true.
Proof. induction a as [|x a IH]; cbn; [reflexivity|]. now rewrite N.eqb_refl, IH. Qed.

Lemma beq_eq a b : beq a b = true <-> a = b.
Proof.
  split.
  - revert b; induction a as [|x a IH]; intros [|y b] H; cbn in H; try discriminate; [reflexivity|].
    apply andb_true_iff in H. destruct H as [H1 H2]. apply N.eqb_eq in H1. apply IH in H2. now subst.
  - intros ->. apply beq_refl.
Qed.

Lemma beq_false_neq a b : beq a b = false -> a <> b.
Proof. intros H E. subst. rewrite beq_refl in H. discriminate. Qed.

Lemma nodup_map_unique {A B} (f : A -> B) (l : list A) a b :
  NoDup (map f l) -> In a l -> In b l -> f a = f b -> a = b.
Proof.
  induction l as [|x l IH]; intros ND Ha Hb E; [destruct Ha|].
  cbn in ND. inversion ND as [|? ? Hn ND']; subst.
  destruct Ha as [->|Ha], Hb as [->|Hb]; auto.
  - exfalso. apply Hn. rewrite E. now apply in_map.
  - exfalso. apply Hn. rewrite <- E. now apply in_map.
Qed.

Lemma nodup_map_filter {A B} (f : A -> B) (p : A -> bool) (l : list A) :
  NoDup (map f l) -> NoDup (map f (filter p l)).
Proof.
  induction l as [|x l IH]; intros ND; cbn; [constructor|].
  cbn in ND. inversion ND as [|? ? Hn ND']; subst.
  destruct (p x); cbn; auto. constructor; auto.
  intros H. apply Hn. apply in_map_iff in H. destruct H as [y [E Hy]]. apply filter_In in Hy.
  apply in_map_iff. exists y. tauto.
Qed.

Lemma incl_map_filter {A B} (f : A -> B) (p : A -> bool) (l : list A) : incl (map f (filter p l)) (map f l).
Proof.
  intros b H. apply in_map_iff in H. destruct H as [y [E Hy]]. apply filter_In in Hy.
  apply in_map_iff. exists y. tauto.
Qed.

Lemma nodup_snoc {A} (l : list A) x : NoDup l -> ~ In x l -> NoDup (l ++ [x]).
Proof.
  induction l as [|y l IH]; intros ND H; cbn; [constructor; [tauto|constructor]|].
  inversion ND as [|? ? Hn ND']; subst. constructor.
  - intros Hy. apply in_app_or in Hy. destruct Hy as [Hy|[->|[]]]; [tauto|]. apply H. left. reflexivity.
  - apply IH; [assumption|]. intros Hx. apply H. right. assumption.
Qed.

(* ------------------------------------------------------------------ vocabulary of the statements *)
Definition good (c : cfg) : Prop := cregisters c = true /\ cdone_guard c = true /\ cstate_guard c = true.

Lemma good_mdns : good mdns_cfg. Proof. repeat split. Qed.
Lemma good_ble : good ble_cfg. Proof. repeat split. Qed.

Definition mkw (k : nat) (key : id) (dl : N) : waiter :=
  {| wk := k; wkey := key; wdl := dl; wst := Pending; wlisted := true |}.

(* caller k is registered under key, not yet completed, deadline dl *)
Definition pend (s : st) (k : nat) (key : id) (dl : N) : Prop := In (mkw k key dl) (tbl s).
(* no live entry for caller k *)
Definition dead (s : st) (k : nat) : Prop := forall w, In w (tbl s) -> wk w = k -> wst w = Stale.
(* handles are unique; [avoid] lists the handles used so far *)
Definition keys_ok (s : st) (avoid : list nat) : Prop :=
  NoDup (map wk (tbl s)) /\ incl (map wk (tbl s)) avoid.

Definition outs_of (c : cfg) (s : st) (evs : list event) : list out := snd (run c s evs).

Lemma wk_cancel1 k t w : wk (fst (cancel1 k t w)) = wk w.
Proof. unfold cancel1. destruct (is_pending w && Nat.eqb (wk w) k); reflexivity. Qed.
Lemma wk_expire t w : wk (fst (expire t w)) = wk w.
Proof. unfold expire. destruct (is_pending w && (wdl w <=? t)); reflexivity. Qed.

Lemma map_wk_cancel k t l : map wk (map fst (map (cancel1 k t) l)) = map wk l.
Proof. rewrite !map_map. apply map_ext. intros w. apply wk_cancel1. Qed.
Lemma map_wk_expire t l : map wk (map fst (map (expire t) l)) = map wk l.
Proof. rewrite !map_map. apply map_ext. intros w. apply wk_expire. Qed.

Lemma reap_incl c l w : In w (reap c l) -> In w l.
Proof. unfold reap. destruct (ckind c); [tauto|]. intros H. apply filter_In in H. tauto. Qed.

Lemma reap_pending c l w : In w l -> is_pending w = true -> In w (reap c l).
Proof. unfold reap. destruct (ckind c); [tauto|]. intros H P. apply filter_In. tauto. Qed.

Lemma nodup_reap c l : NoDup (map wk l) -> NoDup (map wk (reap c l)).
Proof. unfold reap. destruct (ckind c); [tauto|]. apply nodup_map_filter. Qed.

Lemma incl_reap c l : incl (map wk (reap c l)) (map wk l).
Proof. unfold reap. destruct (ckind c); [apply incl_refl|]. apply incl_map_filter. Qed.

Lemma good_adv_branch c s key :
  good c ->
  pair_raises c s key || (negb (cdone_guard c) && existsb (fun w => hit key w && negb (is_pending w)) (tbl s)) = false.
Proof.
  intros (_ & G2 & G3). rewrite G2. cbn [negb andb]. rewrite orb_false_r.
  unfold pair_raises. rewrite G3. destruct (ckind c); [reflexivity|].
  destruct (alookup key (pairs s)) as [[|]|]; reflexivity.
Qed.

(* ------------------------------------------------------------------ the callbacks never raise *)
Lemma step_no_raise c s e : good c -> ~ In Raised (snd (step c s e)).
Proof.
  intros G. destruct e as [k i tau|[d|]|k|delta|i b]; cbn [step].
  - unfold step_find. destruct (alookup (norm c i) (discs s)); cbn; [intros [H|[]]; discriminate|tauto].
  - unfold step_adv. rewrite good_adv_branch by assumption. cbn [snd].
    intros H. apply in_flat_map in H. destruct H as [w [_ H]]. unfold wake in H.
    destruct (hit (d_id d) w && is_pending w); [destruct H as [H|[]]; discriminate|destruct H].
  - cbn. tauto.
  - unfold step_cancel. cbn [snd]. intros H. apply in_flat_map in H. destruct H as [x [Hx H]].
    apply in_map_iff in Hx. destruct Hx as [w [<- _]]. unfold cancel1 in H.
    destruct (is_pending w && Nat.eqb (wk w) k); [destruct H as [H|[]]; discriminate|destruct H].
  - unfold step_advance. cbn [snd]. intros H. apply in_flat_map in H. destruct H as [x [Hx H]].
    apply in_map_iff in Hx. destruct Hx as [w [<- _]]. unfold expire in H.
    destruct (is_pending w && (wdl w <=? now s + delta)); [destruct H as [H|[]]; discriminate|destruct H].
  - cbn. tauto.
Qed.

(* ------------------------------------------------------------------ one step, seen from a pending caller *)
Definition elapsed (e : event) : N := match e with Advance d => d | _ => 0 end.

Lemma expect_cons k key dl t e r :
  expect k key dl t (e :: r) =
  match expect k key dl t [e] with Some x => Some x | None => expect k key dl (t + elapsed e) r end.
Proof.
  destruct e as [k' i tau|[d|]|k'|delta|i b]; cbn [expect elapsed]; rewrite ?N.add_0_r; try reflexivity.
  - destruct (beq key (d_id d)); reflexivity.
  - destruct (Nat.eqb k k'); reflexivity.
  - destruct (dl <=? t + delta); reflexivity.
Qed.

Lemma now_step c s e : good c -> now (fst (step c s e)) = now s + elapsed e.
Proof.
  intros G. destruct e as [k i tau|[d|]|k|delta|i b]; cbn [step elapsed]; rewrite ?N.add_0_r; try reflexivity.
  - unfold step_find. destruct (alookup (norm c i) (discs s)); reflexivity.
  - unfold step_adv. rewrite good_adv_branch by assumption. reflexivity.
Qed.

Definition fresh1 (avoid : list nat) (e : event) : Prop :=
  match e with Find k _ _ => ~ In k avoid | _ => True end.
Definition avoid' (avoid : list nat) (e : event) : list nat :=
  match e with Find k _ _ => k :: avoid | _ => avoid end.

Lemma keys_ok_step c s e avoid :
  good c -> keys_ok s avoid -> fresh1 avoid e -> keys_ok (fst (step c s e)) (avoid' avoid e).
Proof.
  intros G [ND IN] F. unfold keys_ok. destruct e as [k i tau|[d|]|k|delta|i b]; cbn [step avoid' fresh1] in *.
  - unfold step_find. destruct (alookup (norm c i) (discs s)); cbn [fst tbl].
    + split; [assumption|]. intros x Hx. right. auto.
    + rewrite map_app. cbn [map wk]. split.
      * apply nodup_snoc; [assumption|]. intros H. apply F. auto.
      * intros x Hx. apply in_app_or in Hx. destruct Hx as [Hx|[<-|[]]]; [right; auto|left; reflexivity].
  - unfold step_adv. rewrite good_adv_branch by assumption. cbn [fst tbl]. split.
    + now apply nodup_map_filter.
    + intros x Hx. apply IN. eapply incl_map_filter; eauto.
  - split; assumption.
  - unfold step_cancel. cbn [fst tbl]. rewrite map_wk_cancel. split; assumption.
  - unfold step_advance. cbn [fst tbl]. split.
    + apply nodup_reap. now rewrite map_wk_expire.
    + intros x Hx. apply incl_reap in Hx. rewrite map_wk_expire in Hx. auto.
  - split; assumption.
Qed.

Lemma pend_unique s avoid k key dl w :
  keys_ok s avoid -> pend s k key dl -> In w (tbl s) -> wk w = k -> w = mkw k key dl.
Proof.
  intros [ND _] P Hw E. eapply (nodup_map_unique wk); eauto.
Qed.

Lemma pend_in_avoid s avoid k key dl : keys_ok s avoid -> pend s k key dl -> In k avoid.
Proof.
  intros [_ IN] P. apply IN. change k with (wk (mkw k key dl)). now apply in_map.
Qed.

Lemma step_dead c s e avoid k :
  good c -> fresh1 avoid e -> In k avoid -> dead s k ->
  dead (fst (step c s e)) k /\ (forall o t, ~ In (Done k o t) (snd (step c s e))).
Proof.
  intros G F Hk D. destruct e as [k' i tau|[d|]|k'|delta|i b]; cbn [step fresh1] in *.
  - assert (k' <> k) by (intros ->; tauto).
    unfold step_find. destruct (alookup (norm c i) (discs s)); cbn [fst snd tbl].
    + split; [assumption|]. intros o t [E|[]]. inversion E. congruence.
    + split; [|intros o t []]. intros w Hw E. apply in_app_or in Hw. destruct Hw as [Hw|[<-|[]]]; [auto|].
      cbn in E. congruence.
  - unfold step_adv. rewrite good_adv_branch by assumption. cbn [fst snd tbl]. split.
    + intros w Hw E. apply filter_In in Hw. apply D; tauto.
    + intros o t H. apply in_flat_map in H. destruct H as [w [Hw H]]. unfold wake in H.
      destruct (hit (d_id d) w && is_pending w) eqn:Hp; [|destruct H].
      destruct H as [H|[]]. inversion H; subst. apply andb_true_iff in Hp. destruct Hp as [_ Hp].
      unfold is_pending in Hp. rewrite (D w Hw eq_refl) in Hp. discriminate.
  - split; [assumption|]. intros o t [].
  - unfold step_cancel. cbn [fst snd tbl]. split.
    + intros w' Hw' E. rewrite map_map in Hw'. apply in_map_iff in Hw'. destruct Hw' as [w [<- Hw]].
      rewrite wk_cancel1 in E. unfold cancel1. destruct (is_pending w && Nat.eqb (wk w) k'); cbn; auto.
    + intros o t H. apply in_flat_map in H. destruct H as [x [Hx H]].
      apply in_map_iff in Hx. destruct Hx as [w [<- Hw]]. unfold cancel1 in H.
      destruct (is_pending w && Nat.eqb (wk w) k') eqn:Hp; [|destruct H].
      destruct H as [H|[]]. inversion H; subst. apply andb_true_iff in Hp. destruct Hp as [Hp Hq].
      apply Nat.eqb_eq in Hq. unfold is_pending in Hp. rewrite (D w Hw Hq) in Hp. discriminate.
  - unfold step_advance. cbn [fst snd tbl]. split.
    + intros w' Hw' E. apply reap_incl in Hw'. rewrite map_map in Hw'. apply in_map_iff in Hw'.
      destruct Hw' as [w [<- Hw]]. rewrite wk_expire in E. unfold expire.
      destruct (is_pending w && (wdl w <=? now s + delta)); cbn; auto.
    + intros o t H. apply in_flat_map in H. destruct H as [x [Hx H]].
      apply in_map_iff in Hx. destruct Hx as [w [<- Hw]]. unfold expire in H.
      destruct (is_pending w && (wdl w <=? now s + delta)) eqn:Hp; [|destruct H].
      destruct H as [H|[]]. inversion H; subst. apply andb_true_iff in Hp. destruct Hp as [Hp _].
      unfold is_pending in Hp. rewrite (D w Hw eq_refl) in Hp. discriminate.
  - split; [assumption|]. intros o t [].
Qed.

Lemma step_pending c s e avoid k key dl :
  good c -> keys_ok s avoid -> fresh1 avoid e -> pend s k key dl ->
  match expect k key dl (now s) [e] with
  | Some (oc, t) =>
      (forall oc' t', In (Done k oc' t') (snd (step c s e)) <-> (oc', t') = (oc, t))
      /\ dead (fst (step c s e)) k
  | None =>
      (forall oc' t', ~ In (Done k oc' t') (snd (step c s e)))
      /\ pend (fst (step c s e)) k key dl
  end.
Proof.
  intros G K F P.
  pose proof (fun w => pend_unique s avoid k key dl w K P) as U.
  pose proof (pend_in_avoid s avoid k key dl K P) as Hk.
  destruct e as [k' i tau|[d|]|k'|delta|i b]; cbn [step fresh1 expect] in *.
  - (* Find *)
    assert (k' <> k) by (intros ->; tauto).
    unfold step_find. destruct (alookup (norm c i) (discs s)); cbn [fst snd tbl].
    + split; [|assumption]. intros o t [E|[]]. inversion E. congruence.
    + split; [intros o t []|]. unfold pend. cbn [tbl]. apply in_or_app. left. assumption.
  - (* Adv (Some d) *)
    unfold step_adv. rewrite good_adv_branch by assumption. cbn [fst snd tbl].
    destruct (beq key (d_id d)) eqn:B.
    + apply beq_eq in B. subst key. split.
      * intros o t. split.
        -- intros H. apply in_flat_map in H. destruct H as [w [Hw H]]. unfold wake in H.
           destruct (hit (d_id d) w && is_pending w); [|destruct H].
           destruct H as [H|[]]. inversion H; subst. reflexivity.
        -- intros E. inversion E; subst. apply in_flat_map. exists (mkw k (d_id d) dl). split; [exact P|].
           unfold wake, hit. cbn. rewrite beq_refl. cbn. left. reflexivity.
      * intros w Hw E. apply filter_In in Hw. destruct Hw as [Hw Hf].
        rewrite (U w Hw E) in Hf. unfold hit in Hf. cbn in Hf. rewrite beq_refl in Hf. discriminate.
    + split.
      * intros o t H. apply in_flat_map in H. destruct H as [w [Hw H]]. unfold wake in H.
        destruct (hit (d_id d) w && is_pending w) eqn:Hp; [|destruct H].
        destruct H as [H|[]]. inversion H; subst. rewrite (U w Hw eq_refl) in Hp.
        unfold hit in Hp. cbn in Hp. rewrite B in Hp. discriminate.
      * unfold pend. cbn [tbl]. apply filter_In. split; [exact P|]. unfold hit. cbn. rewrite B. reflexivity.
  - (* Adv None *)
    split; [intros o t []|assumption].
  - (* Cancel *)
    unfold step_cancel. cbn [fst snd tbl]. destruct (Nat.eqb k k') eqn:B.
    + apply Nat.eqb_eq in B. subst k'. split.
      * intros o t. split.
        -- intros H. apply in_flat_map in H. destruct H as [x [Hx H]].
           apply in_map_iff in Hx. destruct Hx as [w [<- Hw]]. unfold cancel1 in H.
           destruct (is_pending w && Nat.eqb (wk w) k); [|destruct H].
           destruct H as [H|[]]. inversion H; subst. reflexivity.
        -- intros E. inversion E; subst. apply in_flat_map. exists (cancel1 k (now s) (mkw k key dl)). split.
           ++ apply in_map. exact P.
           ++ unfold cancel1. cbn. rewrite Nat.eqb_refl. cbn. left. reflexivity.
      * intros w' Hw' E. rewrite map_map in Hw'. apply in_map_iff in Hw'. destruct Hw' as [w [<- Hw]].
        rewrite wk_cancel1 in E. rewrite (U w Hw E). unfold cancel1. cbn. rewrite Nat.eqb_refl. reflexivity.
    + apply Nat.eqb_neq in B. split.
      * intros o t H. apply in_flat_map in H. destruct H as [x [Hx H]].
        apply in_map_iff in Hx. destruct Hx as [w [<- Hw]]. unfold cancel1 in H.
        destruct (is_pending w && Nat.eqb (wk w) k'); [|destruct H].
        destruct H as [H|[]]. inversion H; subst. congruence.
      * unfold pend. cbn [tbl]. rewrite map_map. apply in_map_iff. exists (mkw k key dl). split; [|exact P].
        unfold cancel1. cbn. destruct (Nat.eqb k k') eqn:B'; [apply Nat.eqb_eq in B'; congruence|reflexivity].
  - (* Advance *)
    unfold step_advance. cbn [fst snd tbl]. destruct (dl <=? now s + delta) eqn:B.
    + split.
      * intros o t. split.
        -- intros H. apply in_flat_map in H. destruct H as [x [Hx H]].
           apply in_map_iff in Hx. destruct Hx as [w [<- Hw]]. unfold expire in H.
           destruct (is_pending w && (wdl w <=? now s + delta)); [|destruct H].
           destruct H as [H|[]]. inversion H; subst. rewrite (U w Hw eq_refl). reflexivity.
        -- intros E. inversion E; subst. apply in_flat_map. exists (expire (now s + delta) (mkw k key dl)). split.
           ++ apply in_map. exact P.
           ++ unfold expire. cbn. rewrite B. cbn. left. reflexivity.
      * intros w' Hw' E. apply reap_incl in Hw'. rewrite map_map in Hw'. apply in_map_iff in Hw'.
        destruct Hw' as [w [<- Hw]]. rewrite wk_expire in E. rewrite (U w Hw E). unfold expire. cbn. rewrite B. reflexivity.
    + split.
      * intros o t H. apply in_flat_map in H. destruct H as [x [Hx H]].
        apply in_map_iff in Hx. destruct Hx as [w [<- Hw]]. unfold expire in H.
        destruct (is_pending w && (wdl w <=? now s + delta)) eqn:Hp; [|destruct H].
        destruct H as [H|[]]. inversion H; subst. rewrite (U w Hw eq_refl) in Hp. cbn in Hp. rewrite B in Hp. discriminate.
      * unfold pend. cbn [tbl]. apply reap_pending; [|reflexivity]. rewrite map_map. apply in_map_iff.
        exists (mkw k key dl). split; [|exact P]. unfold expire. cbn. rewrite B. reflexivity.
  - (* Load *)
    split; [intros o t []|assumption].
Qed.

(* ------------------------------------------------------------------ traces *)
Lemma outs_cons c s e r :
  outs_of c s (e :: r) = snd (step c s e) ++ outs_of c (fst (step c s e)) r.
Proof.
  unfold outs_of. cbn [run]. destruct (step c s e) as [s1 o1]. cbn [fst snd].
  destruct (run c s1 r) as [s2 o2]. reflexivity.
Qed.

Lemma fresh_cons avoid e r : fresh_evs avoid (e :: r) <-> fresh1 avoid e /\ fresh_evs (avoid' avoid e) r.
Proof. destruct e; cbn; tauto. Qed.

Lemma in_avoid' avoid e k : In k avoid -> In k (avoid' avoid e).
Proof. destruct e; cbn; auto. Qed.

Lemma dead_trace c : good c -> forall evs s avoid k,
  fresh_evs avoid evs -> In k avoid -> dead s k -> forall o t, ~ In (Done k o t) (outs_of c s evs).
Proof.
  intros G. induction evs as [|e r IH]; intros s avoid k F Hk D o t; [intros []|].
  apply fresh_cons in F. destruct F as [F1 F2].
  destruct (step_dead c s e avoid k G F1 Hk D) as [D' N'].
  rewrite outs_cons. intros H. apply in_app_or in H. destruct H as [H|H].
  - eapply N'; eauto.
  - eapply IH; eauto. now apply in_avoid'.
Qed.

Lemma pending_trace c : good c -> forall evs s avoid k key dl,
  keys_ok s avoid -> fresh_evs avoid evs -> pend s k key dl ->
  forall o t, In (Done k o t) (outs_of c s evs) <-> expect k key dl (now s) evs = Some (o, t).
Proof.
  intros G. induction evs as [|e r IH]; intros s avoid k key dl K F P o t.
  - cbn. split; [intros []|discriminate].
  - apply fresh_cons in F. destruct F as [F1 F2].
    pose proof (step_pending c s e avoid k key dl G K F1 P) as SP.
    pose proof (keys_ok_step c s e avoid G K F1) as K'.
    pose proof (pend_in_avoid s avoid k key dl K P) as Hk.
    rewrite expect_cons, outs_cons.
    destruct (expect k key dl (now s) [e]) as [[oc t0]|].
    + destruct SP as [SP D]. split.
      * intros H. apply in_app_or in H. destruct H as [H|H].
        -- apply SP in H. inversion H; subst. reflexivity.
        -- exfalso. eapply (dead_trace c G r); eauto. now apply in_avoid'.
      * intros E. inversion E; subst. apply in_or_app. left. apply SP. reflexivity.
    + destruct SP as [SP P']. rewrite <- (now_step c s e G). rewrite <- (IH _ _ _ _ _ K' F2 P'). split.
      * intros H. apply in_app_or in H. destruct H as [H|H]; [exfalso; eapply SP; eauto|assumption].
      * intros H. apply in_or_app. right. assumption.
Qed.

(* a caller that starts waiting: Find registers it (no discovery yet) *)
Lemma find_registers c s k i tau :
  good c -> alookup (norm c i) (discs s) = None ->
  pend (fst (step c s (Find k i tau))) k (norm c i) (now s + tau) /\ snd (step c s (Find k i tau)) = [].
Proof.
  intros (G1 & _) H. cbn [step]. unfold step_find. rewrite H. cbn [fst snd]. split; [|reflexivity].
  unfold pend. cbn [tbl]. apply in_or_app. right. left. unfold mkw. now rewrite G1.
Qed.

Lemma find_known c s k i tau d :
  alookup (norm c i) (discs s) = Some d -> step c s (Find k i tau) = (s, [Done k (Found d) (now s)]).
Proof. intros H. cbn [step]. unfold step_find. now rewrite H. Qed.

(* the full life of one call, from its Find on *)
Theorem call_outcome c : good c -> forall s avoid k i tau evs,
  keys_ok s avoid -> fresh_evs avoid (Find k i tau :: evs) ->
  forall o t, In (Done k o t) (outs_of c s (Find k i tau :: evs)) <->
    match alookup (norm c i) (discs s) with
    | Some d => (o, t) = (Found d, now s)
    | None => expect k (norm c i) (now s + tau) (now s) evs = Some (o, t)
    end.
Proof.
  intros G s avoid k i tau evs K F o t.
  apply fresh_cons in F. destruct F as [F1 F2].
  pose proof (keys_ok_step c s (Find k i tau) avoid G K F1) as K'.
  rewrite outs_cons. destruct (alookup (norm c i) (discs s)) as [d|] eqn:L.
  - rewrite (find_known c s k i tau d L). cbn [fst snd]. split.
    + intros H. apply in_app_or in H. destruct H as [[H|[]]|H]; [inversion H; reflexivity|].
      exfalso. rewrite (find_known c s k i tau d L) in K'. cbn [fst avoid'] in K'.
      (* k is now in avoid; no entry for k exists *)
      eapply (dead_trace c G evs s (k :: avoid) k); eauto; [left; reflexivity|].
      intros w Hw E. exfalso. cbn in F1. apply F1. destruct K as [_ IN]. apply IN. rewrite <- E. now apply in_map.
    + intros E. inversion E; subst. apply in_or_app. left. left. reflexivity.
  - destruct (find_registers c s k i tau G L) as [P O]. rewrite O. cbn [app].
    assert (Hn : now (fst (step c s (Find k i tau))) = now s) by (rewrite now_step by assumption; cbn; lia).
    rewrite <- Hn at 2. apply (pending_trace c G evs _ _ _ _ _ K' F2 P).
Qed.

(* ------------------------------------------------------------------ step-level statements (any state) *)
Lemma wakeup_step c s k key dl d :
  good c -> pend s k key dl -> d_id d = key ->
  In (Done k (Found d) (now s)) (snd (step c s (Adv (Some d))))
  /\ ~ pend (fst (step c s (Adv (Some d)))) k key dl.
Proof.
  intros G P <-. cbn [step]. unfold step_adv. rewrite good_adv_branch by assumption. cbn [fst snd]. split.
  - apply in_flat_map. exists (mkw k (d_id d) dl). split; [exact P|].
    unfold wake, hit. cbn. rewrite beq_refl. cbn. left. reflexivity.
  - unfold pend. cbn [tbl]. intros H. apply filter_In in H. destruct H as [_ H].
    unfold hit in H. cbn in H. rewrite beq_refl in H. discriminate.
Qed.

(* only advertisements for the caller's key wake it, and only with that advertisement *)
Lemma adv_outputs_sound c s d k o t :
  In (Done k o t) (snd (step c s (Adv (Some d)))) ->
  o = Found d /\ t = now s /\ exists w, In w (tbl s) /\ wk w = k /\ wkey w = d_id d /\ wst w = Pending.
Proof.
  cbn [step]. unfold step_adv.
  destruct (pair_raises c s (d_id d) || _); cbn [snd]; [intros [H|[]]; discriminate|].
  intros H. apply in_flat_map in H. destruct H as [w [Hw H]]. unfold wake in H.
  destruct (hit (d_id d) w && is_pending w) eqn:Hp; [|destruct H].
  destruct H as [H|[]]. inversion H; subst. repeat split; auto. exists w.
  apply andb_true_iff in Hp. destruct Hp as [Hh Hp]. unfold hit in Hh. apply andb_true_iff in Hh.
  destruct Hh as [_ Hh]. apply beq_eq in Hh. unfold is_pending in Hp. destruct (wst w); [|discriminate]. auto.
Qed.

Lemma timeout_step c s k key dl delta :
  good c -> pend s k key dl ->
  if dl <=? now s + delta
  then In (Done k NotFound dl) (snd (step c s (Advance delta)))
  else pend (fst (step c s (Advance delta))) k key dl.
Proof.
  intros G P. cbn [step]. unfold step_advance. cbn [fst snd]. destruct (dl <=? now s + delta) eqn:B.
  - apply in_flat_map. exists (expire (now s + delta) (mkw k key dl)). split; [now apply in_map|].
    unfold expire. cbn. rewrite B. cbn. left. reflexivity.
  - unfold pend. cbn [tbl]. apply reap_pending; [|reflexivity]. rewrite map_map. apply in_map_iff.
    exists (mkw k key dl). split; [|exact P]. unfold expire. cbn. rewrite B. reflexivity.
Qed.

(* a timeout is reported at the deadline and never before it *)
Lemma timeout_outputs_sound c s delta k o t :
  In (Done k o t) (snd (step c s (Advance delta))) ->
  o = NotFound /\ t <= now s + delta /\ exists w, In w (tbl s) /\ wk w = k /\ wdl w = t /\ wst w = Pending.
Proof.
  cbn [step]. unfold step_advance. cbn [snd]. intros H. apply in_flat_map in H. destruct H as [x [Hx H]].
  apply in_map_iff in Hx. destruct Hx as [w [<- Hw]]. unfold expire in H.
  destruct (is_pending w && (wdl w <=? now s + delta)) eqn:Hp; [|destruct H].
  destruct H as [H|[]]. inversion H; subst. apply andb_true_iff in Hp. destruct Hp as [Hp Hd].
  repeat split; [lia|]. exists w. unfold is_pending in Hp. destruct (wst w); [|discriminate]. auto.
Qed.

(* ------------------------------------------------------------------ the unrepaired BLE controller *)
Definition id1 : id := [97; 97].
Definition d1 : descr := {| d_id := id1; d_cn := 1; d_sn := 7 |}.

Lemma ble_orig_loses_wakeup :
  outs_of ble_orig_cfg st0 [Find 1 id1 8; Advance 5; Adv (Some d1); Advance 5] = [Done 1%nat NotFound 8].
Proof. vm_compute. reflexivity. Qed.

Lemma ble_fixed_same_schedule :
  outs_of ble_cfg st0 [Find 1 id1 8; Advance 5; Adv (Some d1); Advance 5] = [Done 1%nat (Found d1) 5].
Proof. vm_compute. reflexivity. Qed.

Lemma ble_orig_raises_without_state :
  outs_of ble_orig_cfg st0 [Load id1 false; Adv (Some d1)] = [Raised].
Proof. vm_compute. reflexivity. Qed.

Lemma ble_noguard_raises :
  outs_of ble_noguard_cfg st0 [Find 1 id1 8; Cancel 1; Adv (Some d1)] = [Done 1%nat Cancelled 0; Raised].
Proof. vm_compute. reflexivity. Qed.

(* non-vacuity: three callers, two ids, interleaved *)
Definition id2 : id := [98; 98].
Definition d2 : descr := {| d_id := id2; d_cn := 2; d_sn := 9 |}.
Definition demo : list event :=
  [Find 1 id1 8; Find 2 id2 16; Advance 5; Find 3 id1 16; Adv None; Cancel 2; Advance 5; Adv (Some d1);
   Find 4 id1 8; Advance 64].

Lemma demo_fresh : fresh_evs [] demo.
Proof. cbn. intuition (try discriminate); lia. Qed.

Lemma demo_outs c : c = mdns_cfg \/ c = ble_cfg ->
  outs_of c st0 demo = [Done 2%nat Cancelled 5; Done 1%nat NotFound 8; Done 3%nat (Found d1) 10; Done 4%nat (Found d1) 10].
Proof. intros [->| ->]; vm_compute; reflexivity. Qed.
