(* C16 extension: the characteristic-signature secondary codec. *)
From Coq Require Import List NArith ZArith Arith Bool Lia ZifyN ZifyNat ZifyBool.
From AHK Require Import Lib.Res Lib.ByteStr Model.Tlv8 Model.Tlv8Sig.
Import ListNotations.

(* ---------- permissions: exactly the bits, in to_dict()'s order, no repeats ---------- *)
Lemma perms_of_spec props p : In p (perms_of props) <-> N.testbit props (perm_bit p) = true.
Proof.
  unfold perms_of. rewrite filter_In. split; [tauto|]. intros H. split; [|exact H].
  destruct p; cbn; tauto.
Qed.

Lemma perms_of_nodup props : NoDup (perms_of props).
Proof.
  unfold perms_of. apply NoDup_filter. unfold perm_order.
  repeat constructor; cbn; intuition discriminate.
Qed.

(* ---------- _unpack_value after _pack_value ---------- *)
(* values _pack_value can produce bytes for: a float is 4 bytes, a str is valid utf-8 *)
Definition sval_ok (x : sval) : bool :=
  match x with
  | SFloat b => Nat.eqb (length b) 4
  | SText b => utf8_valid b
  | SNone => false
  | _ => true
  end.

Lemma pack_uint_unpack k z b :
  pack_uint k z = Ok b -> exact k b uint = Ok (SInt z).
Proof.
  unfold pack_uint, exact, uint. intros H.
  destruct (Z.leb 0 z && Z.ltb z (Z.of_N (256 ^ N.of_nat k)))%bool eqn:E; [|discriminate].
  injection H as <-. rewrite le_enc_length, Nat.eqb_refl.
  apply andb_true_iff in E. destruct E as [E1 E2].
  rewrite le_dec_enc by lia. f_equal. f_equal. lia.
Qed.

Lemma pack_unpack fmt x b :
  sval_ok x = true -> pack_value fmt x = Ok b -> unpack_value fmt b = Ok x.
Proof.
  intros Hok H. unfold pack_value in H. unfold unpack_value.
  destruct fmt as [c|]; [|destruct x; try discriminate; now injection H as <-].
  destruct (N.eqb c 0); [destruct x; try discriminate; now injection H as <-|].
  destruct (N.eqb c 1).
  { destruct x as [| [|] | | | | |]; try discriminate; injection H as <-; reflexivity. }
  destruct (N.eqb c 4); [destruct x; try discriminate; now apply pack_uint_unpack|].
  destruct (N.eqb c 6); [destruct x; try discriminate; now apply pack_uint_unpack|].
  destruct (N.eqb c 8); [destruct x; try discriminate; now apply pack_uint_unpack|].
  destruct (N.eqb c 10); [destruct x; try discriminate; now apply pack_uint_unpack|].
  destruct (N.eqb c 16).
  { destruct x as [z| | | | | |]; try discriminate.
    destruct (Z.leb (-2147483648) z && Z.ltb z 2147483648)%bool eqn:E; [|discriminate].
    remember (le_enc 4 (Z.to_N (if Z.ltb z 0 then z + 4294967296 else z)%Z)) as e4 eqn:He4 in H.
    injection H as <-. subst e4. unfold exact. rewrite le_enc_length. cbn [Nat.eqb].
    apply andb_true_iff in E. destruct E as [E1 E2].
    rewrite le_dec_enc by (destruct (Z.ltb z 0) eqn:Ez; lia).
    f_equal. f_equal. unfold signed32.
    destruct (Z.ltb z 0) eqn:Ez.
    - destruct (N.ltb (Z.to_N (z + 4294967296)) 2147483648) eqn:En; lia.
    - destruct (N.ltb (Z.to_N z) 2147483648) eqn:En; lia. }
  destruct (N.eqb c 20).
  { destruct x; try discriminate. injection H as <-. cbn [sval_ok] in Hok. unfold exact. now rewrite Hok. }
  destruct (N.eqb c 25).
  { destruct x; try discriminate. injection H as <-. cbn [sval_ok] in Hok. now rewrite Hok. }
  destruct (N.eqb c 27); [destruct x; try discriminate; now injection H as <-|].
  destruct x; try discriminate; now injection H as <-.
Qed.

(* ---------- valid range of an integer format: the two packed bounds come back ---------- *)
Lemma min_max_uint c k lo hi blo bhi :
  (c, k) = (4%N, 1) \/ (c, k) = (6%N, 2) \/ (c, k) = (8%N, 4) \/ (c, k) = (10%N, 8) ->
  pack_uint k lo = Ok blo -> pack_uint k hi = Ok bhi ->
  min_max (Some c) (Some (blo ++ bhi)) = Ok (Some (SInt lo, SInt hi)).
Proof.
  intros Hc Hlo Hhi.
  assert (Ll : length blo = k).
  { unfold pack_uint in Hlo. destruct (_ && _)%bool; [|discriminate]. injection Hlo as <-. apply le_enc_length. }
  assert (Lh : length bhi = k).
  { unfold pack_uint in Hhi. destruct (_ && _)%bool; [|discriminate]. injection Hhi as <-. apply le_enc_length. }
  apply pack_uint_unpack in Hlo. apply pack_uint_unpack in Hhi.
  unfold exact in Hlo, Hhi. rewrite Ll, Nat.eqb_refl in Hlo. rewrite Lh, Nat.eqb_refl in Hhi.
  injection Hlo as Hlo. injection Hhi as Hhi.
  assert (Hne : blo ++ bhi <> []).
  { intros E. apply (f_equal (@length N)) in E. rewrite app_length in E. cbn in E.
    destruct Hc as [Hc|[Hc|[Hc|Hc]]]; injection Hc as _ ->; lia. }
  assert (Hpair : pair_of k (blo ++ bhi) uint = Ok (Some (SInt lo, SInt hi))).
  { unfold pair_of. rewrite app_length, Ll, Lh.
    replace (k + k =? 2 * k) with true by (symmetry; apply Nat.eqb_eq; lia).
    rewrite <- Ll at 1 2. rewrite firstn_app, Nat.sub_diag, firstn_all, firstn_O, app_nil_r.
    rewrite skipn_app, Nat.sub_diag, skipn_all, skipn_O. cbn [app]. unfold uint. now rewrite Hlo, Hhi. }
  unfold min_max. destruct (blo ++ bhi) as [|b0 rest] eqn:Eb; [contradiction|].
  destruct Hc as [Hc|[Hc|[Hc|Hc]]]; injection Hc as -> ->; exact Hpair.
Qed.
