(* Lemmas for Model/FindWorld.v: controllers sharing a process do not interfere; discoveries report the
   latest advertisement. *)
From Coq Require Import List NArith ZArith Arith Bool Lia.
From AHK Require Import Lib.Res Lib.ByteStr Model.Find Model.FindWorld Proofs.FindLts.
Import ListNotations.
Open Scope N_scope.

Lemma run_cons_fst c s e r : fst (run c s (e :: r)) = fst (run c (fst (step c s e)) r).
Proof.
  cbn [run]. destruct (step c s e) as [s1 o1]. cbn [fst]. destruct (run c s1 r) as [s2 o2]. reflexivity.
Qed.

Lemma run_cons_snd c s e r : snd (run c s (e :: r)) = snd (step c s e) ++ snd (run c (fst (step c s e)) r).
Proof. exact (outs_cons c s e r). Qed.

Lemma wmap_nth e : forall w i j, nth_error (wmap i e w) j = option_map (wstep1 (i + j) e) (nth_error w j).
Proof.
  induction w as [|x r IH]; intros i j.
  - destruct j; reflexivity.
  - destruct j as [|j]; cbn [wmap nth_error option_map].
    + now rewrite Nat.add_0_r.
    + rewrite IH. now rewrite Nat.add_succ_r.
Qed.

Lemma wstep_nth w e j : nth_error (wstep w e) j = option_map (wstep1 j e) (nth_error w j).
Proof. unfold wstep. now rewrite wmap_nth. Qed.

(* controller j's state and output log after ANY interleaving are those of its own history alone *)
Lemma world_proj : forall evs w j c s acc,
    nth_error w j = Some (c, s, acc) ->
    nth_error (wrun w evs) j = Some (c, fst (run c s (proj j evs)), acc ++ snd (run c s (proj j evs))).
Proof.
  induction evs as [|e r IH]; intros w j c s acc H.
  - cbn. now rewrite app_nil_r.
  - cbn [wrun proj].
    assert (H1 : nth_error (wstep w e) j = Some (wstep1 j e (c, s, acc))) by (rewrite wstep_nth; rewrite H; reflexivity).
    unfold wstep1 in H1. cbn [fst snd] in H1.
    destruct (ev_for j e) as [ev|].
    + rewrite (IH _ _ _ _ _ H1). rewrite run_cons_fst, run_cons_snd. now rewrite app_assoc.
    + exact (IH _ _ _ _ _ H1).
Qed.

Lemma world_length : forall evs w, length (wrun w evs) = length w.
Proof.
  assert (L : forall e w i, length (wmap i e w) = length w).
  { intros e. induction w; intros i; cbn; [reflexivity|now rewrite IHw]. }
  induction evs as [|e r IH]; intros w; cbn [wrun]; [reflexivity|]. rewrite IH. apply L.
Qed.

Lemma proj_at_self j e r : proj j (At j e :: r) = e :: proj j r.
Proof. cbn [proj ev_for]. now rewrite Nat.eqb_refl. Qed.

Lemma proj_at_other j j' e r : j <> j' -> proj j (At j' e :: r) = proj j r.
Proof. intros H. cbn [proj ev_for]. apply Nat.eqb_neq in H. now rewrite H. Qed.

(* the whole life of one call on controller j of a world: exactly one outcome, the one prescribed by
   controller j's OWN advertisements, cancellations and the clock *)
Lemma world_call_outcome c : good c -> forall w j s acc avoid k i tau evs,
    nth_error w j = Some (c, s, acc) ->
    keys_ok s avoid -> fresh_evs avoid (Find k i tau :: proj j evs) ->
    exists s' log,
      nth_error (wrun w (At j (Find k i tau) :: evs)) j = Some (c, s', acc ++ log)
      /\ forall o t, In (Done k o t) log <->
           match alookup (norm c i) (discs s) with
           | Some d => (o, t) = (Found d, now s)
           | None => expect k (norm c i) (now s + tau) (now s) (proj j evs) = Some (o, t)
           end.
Proof.
  intros G w j s acc avoid k i tau evs H K F.
  exists (fst (run c s (Find k i tau :: proj j evs))), (outs_of c s (Find k i tau :: proj j evs)).
  split.
  - rewrite (world_proj _ _ _ _ _ _ H). now rewrite proj_at_self.
  - apply (call_outcome c G s avoid k i tau (proj j evs) K F).
Qed.

(* an event addressed to another controller changes nothing on controller j *)
Lemma world_frame w j j' e x : j <> j' -> nth_error w j = Some x -> nth_error (wstep w (At j' e)) j = Some x.
Proof.
  intros Hn H. rewrite wstep_nth, H. cbn [option_map]. unfold wstep1. cbn [ev_for].
  apply Nat.eqb_neq in Hn. now rewrite Hn.
Qed.

(* ---- discoveries ---------------------------------------------------------------------------------- *)
Lemma alookup_upsert {A} key k (v : A) l :
  alookup key (upsert k v l) = if beq k key then Some v else alookup key l.
Proof.
  induction l as [|[k' v'] r IH]; cbn [upsert alookup].
  - reflexivity.
  - destruct (beq k' k) eqn:E.
    + apply beq_eq in E. subst k'. cbn [alookup]. destruct (beq k key); reflexivity.
    + cbn [alookup]. destruct (beq k' key) eqn:E2.
      * apply beq_eq in E2. subst key. destruct (beq k k') eqn:E3; [|reflexivity].
        apply beq_eq in E3. subst k'. rewrite beq_refl in E. discriminate.
      * exact IH.
Qed.

Lemma discs_step c s e key : good c ->
  alookup key (discs (fst (step c s e))) = last_adv key [e] (alookup key (discs s)).
Proof.
  intros G. destruct e as [k i tau|[d|]|k|delta|i b]; cbn [step last_adv].
  - unfold step_find. destruct (alookup (norm c i) (discs s)); reflexivity.
  - unfold step_adv. rewrite good_adv_branch by assumption. cbn [fst discs]. apply alookup_upsert.
  - reflexivity.
  - reflexivity.
  - reflexivity.
  - reflexivity.
Qed.

Lemma last_adv_cons key e r acc : last_adv key (e :: r) acc = last_adv key r (last_adv key [e] acc).
Proof. destruct e as [k i tau|[d|]|k|delta|i b]; reflexivity. Qed.

Lemma discs_run c : good c -> forall evs s key,
  alookup key (discs (fst (run c s evs))) = last_adv key evs (alookup key (discs s)).
Proof.
  intros G. induction evs as [|e r IH]; intros s key.
  - reflexivity.
  - rewrite run_cons_fst, IH, (discs_step c s e key G). symmetry. apply last_adv_cons.
Qed.

(* a caller that starts after the history gets the latest advertisement at once *)
Lemma find_after_history c : good c -> forall evs s k i tau d,
  last_adv (norm c i) evs (alookup (norm c i) (discs s)) = Some d ->
  snd (step c (fst (run c s evs)) (Find k i tau)) = [Done k (Found d) (now (fst (run c s evs)))].
Proof.
  intros G evs s k i tau d H. rewrite <- (discs_run c G) in H. now rewrite (find_known _ _ _ _ _ _ H).
Qed.

(* ---- demonstrations -------------------------------------------------------------------------------- *)
(* IP and CoAP controllers wait for the same id; only the CoAP controller processes an advertisement *)
Definition wdemo : list wevent :=
  [At 0 (Find 1 id1 8); At 1 (Find 2 id1 8); At 2 (Find 3 id1 8); Tick 0; At 1 (Adv (Some d1)); Tick 10].

Lemma wdemo_outs :
  map snd (wrun world0 wdemo)
  = [[Done 1%nat NotFound 8]; [Done 2%nat (Found d1) 0]; [Done 3%nat NotFound 8]].
Proof. vm_compute. reflexivity. Qed.

(* state number wraps 65535 -> 1 with unchanged configuration number, then a factory reset *)
Definition dwrap1 : descr := {| d_id := id1; d_cn := 2; d_sn := 65535 |}.
Definition dwrap2 : descr := {| d_id := id1; d_cn := 2; d_sn := 1 |}.
Definition dwrap3 : descr := {| d_id := id1; d_cn := 1; d_sn := 1 |}.
Lemma wrap_demo :
  alookup id1 (discs (fst (run ble_cfg st0 [Adv (Some dwrap1); Adv (Some dwrap2)]))) = Some dwrap2
  /\ alookup id1 (discs (fst (run ble_cfg st0 [Adv (Some dwrap1); Adv (Some dwrap2); Adv (Some d2); Adv (Some dwrap3)]))) = Some dwrap3
  /\ outs_of ble_cfg st0 [Adv (Some dwrap1); Adv (Some dwrap2); Find 1 id1 8] = [Done 1%nat (Found dwrap2) 0].
Proof. vm_compute. repeat split; reflexivity. Qed.
