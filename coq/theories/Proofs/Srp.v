(* C02 - SRP algebra and the client-equals-specification theorems. *)
From Coq Require Import List NArith ZArith Arith Bool Lia ZifyN ZifyNat ZifyBool Znumtheory Zpow_facts.
From AHK Require Import Lib.Res Lib.ByteStr Model.Srp Proofs.Sha512 Proofs.SrpBytes.
Import ListNotations.
Local Open Scope Z_scope.

(* ------------------------------------------------------------ pow(b, e, m) *)

Lemma mulmod_congr m a a' b b' :
  a mod m = a' mod m -> b mod m = b' mod m -> (a * b) mod m = (a' * b') mod m.
Proof. intros Ha Hb. rewrite (Zmult_mod a b), Ha, Hb, <- Zmult_mod. reflexivity. Qed.

Lemma powm_pos_spec b e m : 0 < m -> powm_pos (b mod m) e m = (b ^ Zpos e) mod m.
Proof.
  intros Hm. assert (m <> 0) as Hm0 by lia. induction e as [e IH|e IH|].
  - cbn [powm_pos]. rewrite IH. rewrite Pos2Z.inj_xI.
    rewrite Z.pow_add_r, Z.pow_1_r, Z.pow_twice_r by lia.
    apply mulmod_congr.
    + rewrite Z.mod_mod by assumption. apply mulmod_congr; apply Z.mod_mod; assumption.
    + apply Z.mod_mod; assumption.
  - cbn [powm_pos]. rewrite IH. rewrite Pos2Z.inj_xO.
    rewrite Z.pow_twice_r. apply mulmod_congr; apply Z.mod_mod; assumption.
  - cbn [powm_pos]. now rewrite Z.pow_1_r.
Qed.

Lemma powm_spec b e m : 0 < m -> 0 <= e -> powm b e m = (b ^ e) mod m.
Proof.
  intros Hm He. destruct e as [|p|p].
  - reflexivity.
  - cbn [powm]. now apply powm_pos_spec.
  - lia.
Qed.

Lemma powm_range b e m : 0 < m -> 0 <= e -> 0 <= powm b e m < m.
Proof. intros Hm He. rewrite powm_spec by assumption. now apply Z.mod_pos_bound. Qed.

(* ------------------------------------------------------------ the algebra *)

(* client's premaster secret = accessory's premaster secret, for every modulus,
   generator, multiplier, password hash, ephemerals and scrambling value *)
Lemma secret_agree N g k x a b u :
  0 < N -> 0 <= x -> 0 <= a -> 0 <= b -> 0 <= u ->
  let v := g ^ x mod N in
  let B := (k * v + g ^ b mod N) mod N in
  let A := g ^ a mod N in
  ((B - k * v) ^ (a + u * x)) mod N = ((A * v ^ u) ^ b) mod N.
Proof.
  intros HN Hx Ha Hb Hu v B A.
  assert (N <> 0) as HN0 by (intros ->; discriminate HN).
  assert (0 <= x * u) as Hxu by (apply Z.mul_nonneg_nonneg; assumption).
  assert (0 <= u * x) as Hux by (apply Z.mul_nonneg_nonneg; assumption).
  assert (0 <= a + u * x) as He by (apply Z.add_nonneg_nonneg; assumption).
  assert (0 <= a + x * u) as He' by (apply Z.add_nonneg_nonneg; assumption).
  assert (E1 : (B - k * v) mod N = (g ^ b) mod N).
  { unfold B. rewrite Zminus_mod_idemp_l.
    replace (k * v + g ^ b mod N - k * v) with (g ^ b mod N) by ring.
    apply Z.mod_mod. assumption. }
  assert (E2 : (A * v ^ u) mod N = (g ^ (a + x * u)) mod N).
  { unfold A, v. rewrite Zmult_mod. rewrite Z.mod_mod by assumption.
    rewrite <- (Zpower_mod (g ^ x) u N) by assumption.
    rewrite <- Zmult_mod. rewrite <- Z.pow_mul_r by assumption.
    rewrite <- Z.pow_add_r by assumption. reflexivity. }
  rewrite (Zpower_mod (B - k * v)) by assumption. rewrite E1. rewrite <- Zpower_mod by assumption.
  rewrite (Zpower_mod (A * v ^ u)) by assumption. rewrite E2. rewrite <- Zpower_mod by assumption.
  rewrite <- !Z.pow_mul_r by assumption. f_equal. f_equal. ring.
Qed.

(* g^a mod N is never 0 when g and N are coprime and N > 1: the accessory's
   "A mod N <> 0" check never fires on this client *)
Lemma pow_mod_nonzero N g a : 1 < N -> Z.gcd g N = 1 -> 0 <= a -> g ^ a mod N <> 0.
Proof.
  intros HN Hg Ha E.
  assert (N <> 0) as HN0 by (intros ->; discriminate HN).
  assert (rel_prime N (g ^ a)) as Hrp.
  { apply rel_prime_Zpower_r; [assumption|]. apply rel_prime_sym. now apply Zgcd_1_rel_prime. }
  apply Z.mod_divide in E; [|assumption].
  assert (N | 1) as Hd.
  { destruct Hrp as [_ _ Hrp]. apply Hrp; [apply Z.divide_refl|assumption]. }
  apply Z.divide_1_r_nonneg in Hd; [|apply Z.lt_le_incl, Z.lt_trans with 1; [reflexivity|assumption]].
  subst N. discriminate HN.
Qed.

Lemma from_bytes_nonneg l : 0 <= from_bytes l.
Proof. unfold from_bytes. lia. Qed.

(* ------------------------------------------------------------ client vs specification *)

Section PadRange.
  Variables (Nm : Z) (L : nat).
  Hypothesis HN : 0 < Nm.
  Hypothesis HNL : (Z.to_N Nm <= P256 L)%N.

  Lemma in_range z : 0 <= z < Nm -> (Z.to_N z < P256 L)%N.
  Proof. intros Hz. lia. Qed.

  Lemma padded_PAD z : 0 <= z < Nm -> padded z L = Ok (PAD L z).
  Proof. intros Hz. unfold PAD. apply padded_spec; [lia|now apply in_range]. Qed.

  Lemma from_bytes_PAD z : 0 <= z < Nm -> from_bytes (PAD L z) = z.
  Proof.
    intros Hz. unfold from_bytes, PAD. rewrite be_dec_enc' by now apply in_range. lia.
  Qed.

  Lemma PAD_inj y z : 0 <= y < Nm -> 0 <= z < Nm -> PAD L y = PAD L z -> y = z.
  Proof. intros Hy Hz E. rewrite <- (from_bytes_PAD y Hy), <- (from_bytes_PAD z Hz), E. reflexivity. Qed.
End PadRange.

Lemma PAD_length L z : length (PAD L z) = L.
Proof. apply be_enc_length. Qed.

Section ClientSpec.
  Variable H : bytes -> bytes.
  Variable PM : Z -> Z -> Z -> Z.
  Variables (Nm g kc : Z) (hgroup : bytes) (L SL : nat).
  Hypothesis PM_spec : forall b e m, 0 < m -> 0 <= e -> PM b e m = (b ^ e) mod m.
  Hypothesis HN : 0 < Nm.
  Hypothesis HNL : (Z.to_N Nm <= P256 L)%N.

  Let client := client H PM Nm g kc hgroup L SL.

  (* every step of the client, in closed form; in particular it never raises
     for a salt of the expected length and any received public key bytes *)
  Lemma client_closed_form I P a salt B_b :
    0 <= a -> length salt = SL -> all_bytes salt = true ->
    let A := g ^ a mod Nm in
    let A_b := PAD L A in
    let x := cl_x H I P salt in
    let u := cl_u H A_b B_b in
    let S := ((from_bytes B_b - kc * (g ^ x mod Nm)) ^ (a + u * x)) mod Nm in
    let K := H (PAD L S) in
    let M1 := cl_M1 H hgroup I salt A_b B_b K in
    client I P a salt B_b =
    Ok {| r_A := A; r_A_b := A_b; r_salt_b := salt; r_x := x; r_u := u; r_S := S;
          r_K := K; r_M1 := M1; r_M2 := cl_M2 H A_b M1 K |}.
  Proof.
    intros Ha Hlen Hsalt A A_b x u S K M1.
    unfold client, Srp.client, cl_A.
    rewrite PM_spec by assumption. fold A.
    assert (HA : 0 <= A < Nm) by (apply Z.mod_pos_bound; assumption).
    rewrite (padded_PAD Nm L HN HNL A HA). cbn [rbind]. fold A_b.
    rewrite <- Hlen. rewrite (padded_from_bytes salt Hsalt). cbn [rbind].
    fold x. fold u.
    assert (Hx : 0 <= x) by apply from_bytes_nonneg.
    assert (Hu : 0 <= u) by apply from_bytes_nonneg.
    unfold cl_S. rewrite (PM_spec g x Nm HN Hx).
    assert (He : 0 <= a + u * x).
    { apply Z.add_nonneg_nonneg; [assumption|]. apply Z.mul_nonneg_nonneg; assumption. }
    rewrite (PM_spec _ _ Nm HN He). fold S.
    assert (HS : 0 <= S < Nm) by (apply Z.mod_pos_bound; assumption).
    rewrite (padded_PAD Nm L HN HNL S HS). cbn [rbind]. reflexivity.
  Qed.

  (* a salt whose integer value needs more than SL bytes makes set_salt raise *)
  Lemma client_long_salt I P a salt B_b :
    0 <= a -> (P256 SL <= be_dec salt)%N -> client I P a salt B_b = Crash.
  Proof.
    intros Ha Hs. unfold client, Srp.client, cl_A.
    rewrite PM_spec by assumption.
    assert (HA : 0 <= g ^ a mod Nm < Nm) by (apply Z.mod_pos_bound; assumption).
    rewrite (padded_PAD Nm L HN HNL _ HA). cbn [rbind].
    rewrite padded_too_big; [reflexivity|apply from_bytes_nonneg|].
    unfold from_bytes. lia.
  Qed.

  (* ---------------------------------------------------------- full exchange *)
  Hypothesis Hk : kc = spec_k H Nm g L.
  Hypothesis Hhg : hgroup = spec_hgroup H Nm g L.
  Hypothesis HN1 : 1 < Nm.
  Hypothesis Hcop : Z.gcd g Nm = 1.

  Let server := server H Nm g L.

  Lemma exchange I P salt a b :
    0 <= a -> 0 <= b -> length salt = SL -> all_bytes salt = true ->
    let B_b := sv_public H Nm g L I P salt b in
    exists r, client I P a salt B_b = Ok r /\
      let s := server I P salt b (r_A_b r) (r_M1 r) in
      r_A_b r = PAD L (g ^ a mod Nm) /\
      r_salt_b r = salt /\
      s_B_b s = B_b /\
      r_S r = s_S s /\
      r_K r = s_K s /\
      r_M1 r = s_M1 s /\
      s_ok s = true /\
      r_M2 r = s_M2 s /\
      cl_accepts r (s_M2 s) = true.
  Proof.
    intros Ha Hb Hlen Hsalt B_b.
    eexists. split; [apply client_closed_form; assumption|].
    cbv zeta. cbn [r_A_b r_M1 r_salt_b r_S r_K r_M2].
    unfold server, Srp.server. cbn [s_B_b s_S s_K s_M1 s_ok s_M2].
    set (A := g ^ a mod Nm).
    assert (HA : 0 <= A < Nm) by (apply Z.mod_pos_bound; assumption).
    rewrite (from_bytes_PAD Nm L HN HNL A HA).
    set (x := sv_x H I P salt).
    assert (Hx : 0 <= x) by apply from_bytes_nonneg.
    set (v := sv_v Nm g x).
    set (B := sv_B H Nm g L v b).
    assert (HB : 0 <= B < Nm) by (apply Z.mod_pos_bound; assumption).
    assert (EB : B_b = PAD L B) by reflexivity.
    assert (Ex : cl_x H I P salt = x) by reflexivity.
    rewrite Ex.
    assert (Eu : cl_u H (PAD L A) B_b = sv_u H L A B) by (rewrite EB; reflexivity).
    rewrite Eu. set (u := sv_u H L A B).
    assert (Hu : 0 <= u) by apply from_bytes_nonneg.
    assert (ES : ((from_bytes B_b - kc * (g ^ x mod Nm)) ^ (a + u * x)) mod Nm = sv_S Nm A v u b).
    { rewrite EB, (from_bytes_PAD Nm L HN HNL B HB). unfold sv_S, B, sv_B, v, sv_v, A. rewrite Hk.
      apply secret_agree; assumption. }
    rewrite ES. set (S := sv_S Nm A v u b).
    assert (EK : H (PAD L S) = sv_K H L S) by reflexivity.
    rewrite EK. set (K := sv_K H L S).
    assert (EM1 : cl_M1 H hgroup I salt (PAD L A) B_b K = sv_M1 H Nm g L I salt A B K).
    { unfold cl_M1, sv_M1. rewrite Hhg, EB. reflexivity. }
    rewrite EM1. set (M1 := sv_M1 H Nm g L I salt A B K).
    assert (EM2 : cl_M2 H (PAD L A) M1 K = sv_M2 H L A M1 K) by reflexivity.
    repeat split; try reflexivity.
    - rewrite beq_refl, andb_true_r.
      rewrite Z.mod_small by assumption.
      assert (A <> 0) by (apply pow_mod_nonzero; assumption).
      destruct (Z.eqb_spec A 0); [contradiction|reflexivity].
    - unfold cl_accepts. cbn [r_M2]. rewrite EM2. apply Z.eqb_refl.
  Qed.

  (* the executable accessory is the specification accessory *)
  Lemma server_x_spec I P salt b A_b M1_b :
    0 <= b -> server_x H PM Nm g L I P salt b A_b M1_b = server I P salt b A_b M1_b.
  Proof.
    intros Hb. unfold server, Srp.server, server_x. cbv zeta.
    set (x := sv_x H I P salt).
    assert (Hx : 0 <= x) by apply from_bytes_nonneg.
    rewrite (PM_spec g x Nm HN Hx). rewrite (PM_spec g b Nm HN Hb).
    fold (sv_v Nm g x). set (v := sv_v Nm g x).
    fold (sv_B H Nm g L v b). set (B := sv_B H Nm g L v b).
    set (A := from_bytes A_b).
    fold (sv_u H L A B). set (u := sv_u H L A B).
    assert (Hu : 0 <= u) by apply from_bytes_nonneg.
    rewrite (PM_spec v u Nm HN Hu). rewrite (PM_spec _ b Nm HN Hb).
    assert (ES : (A * (v ^ u mod Nm)) ^ b mod Nm = sv_S Nm A v u b).
    { unfold sv_S. rewrite (Zpower_mod (A * (v ^ u mod Nm))) by assumption.
      rewrite Zmult_mod_idemp_r. rewrite <- Zpower_mod by assumption. reflexivity. }
    rewrite ES. reflexivity.
  Qed.

End ClientSpec.

(* ------------------------------------------------------------ acceptance of M2 *)

Lemma accepts_iff r M_b : cl_accepts r M_b = true <-> from_bytes M_b = from_bytes (r_M2 r).
Proof. unfold cl_accepts. rewrite Z.eqb_eq. split; intros E; symmetry; exact E. Qed.

Lemma from_bytes_eq l1 l2 : from_bytes l1 = from_bytes l2 <-> be_dec l1 = be_dec l2.
Proof. unfold from_bytes. lia. Qed.

(* ... exactly the correct proof, among byte strings of the proof's length *)
Lemma accepts_iff_same_length r M_b :
  length M_b = length (r_M2 r) -> all_bytes M_b = true -> all_bytes (r_M2 r) = true ->
  (cl_accepts r M_b = true <-> M_b = r_M2 r).
Proof.
  intros Hlen H1 H2. rewrite accepts_iff, from_bytes_eq. split.
  - now apply be_dec_inj.
  - intros ->. reflexivity.
Qed.

(* ... and in general: the correct proof up to leading zero bytes *)
Lemma accepts_iff_strip0 r M_b :
  all_bytes M_b = true -> all_bytes (r_M2 r) = true ->
  (cl_accepts r M_b = true <-> strip0 M_b = strip0 (r_M2 r)).
Proof.
  intros H1 H2. rewrite accepts_iff, from_bytes_eq. now apply be_dec_eq_iff_strip0.
Qed.

(* single-bit corruption *)
Fixpoint flip_bit (l : bytes) (i : nat) (bit : N) : bytes :=
  match l, i with
  | [], _ => []
  | x :: r, O => N.lxor x (2 ^ bit) :: r
  | x :: r, S i' => x :: flip_bit r i' bit
  end.

Lemma flip_bit_length l i bit : length (flip_bit l i bit) = length l.
Proof. revert i; induction l as [|x r IH]; intros [|i]; cbn [flip_bit length]; auto. Qed.

Definition byte_values : list N := map N.of_nat (seq 0 256).

Lemma byte_values_in x : (x < 256)%N -> In x byte_values.
Proof.
  intros Hx. unfold byte_values. apply in_map_iff. exists (N.to_nat x).
  split; [lia|]. apply in_seq. lia.
Qed.

Lemma xor_bit_sweep :
  forallb (fun x => forallb (fun b => (N.lxor x (2 ^ b) <? 256)%N && negb (N.lxor x (2 ^ b) =? x)%N)
                            [0; 1; 2; 3; 4; 5; 6; 7]%N) byte_values = true.
Proof. vm_compute. reflexivity. Qed.

Lemma xor_bit_byte x bit : (x < 256)%N -> (bit < 8)%N ->
  (N.lxor x (2 ^ bit) < 256)%N /\ N.lxor x (2 ^ bit) <> x.
Proof.
  intros Hx Hb. pose proof xor_bit_sweep as Hs.
  rewrite forallb_forall in Hs. specialize (Hs x (byte_values_in x Hx)).
  rewrite forallb_forall in Hs.
  assert (In bit [0; 1; 2; 3; 4; 5; 6; 7]%N) as Hin.
  { assert (bit = 0 \/ bit = 1 \/ bit = 2 \/ bit = 3 \/ bit = 4 \/ bit = 5 \/ bit = 6 \/ bit = 7)%N as Hc by lia.
    cbn [In]. intuition (subst; auto). }
  specialize (Hs bit Hin). apply andb_true_iff in Hs. destruct Hs as [H1 H2].
  split; [now apply N.ltb_lt|]. apply negb_true_iff in H2. now apply N.eqb_neq.
Qed.

Lemma flip_bit_bytes l i bit : (bit < 8)%N -> all_bytes l = true -> all_bytes (flip_bit l i bit) = true.
Proof.
  intros Hb. revert i; induction l as [|x r IH]; intros [|i] Hl; cbn [flip_bit]; try assumption.
  - apply all_bytes_cons in Hl. destruct Hl as [Hx Hr]. apply all_bytes_cons.
    split; [now apply xor_bit_byte|assumption].
  - apply all_bytes_cons in Hl. destruct Hl as [Hx Hr]. apply all_bytes_cons.
    split; [assumption|now apply IH].
Qed.

Lemma flip_bit_neq l i bit : (bit < 8)%N -> all_bytes l = true -> (i < length l)%nat -> flip_bit l i bit <> l.
Proof.
  intros Hb. revert i; induction l as [|x r IH]; intros [|i] Hl Hi; cbn [flip_bit length] in *; try lia.
  - apply all_bytes_cons in Hl. destruct Hl as [Hx Hr]. intros E. inversion E as [E1].
    now apply (xor_bit_byte x bit Hx Hb).
  - apply all_bytes_cons in Hl. destruct Hl as [Hx Hr]. intros E. inversion E as [E1].
    apply (IH i Hr); [lia|assumption].
Qed.

Lemma flipped_rejected r i bit :
  all_bytes (r_M2 r) = true -> (i < length (r_M2 r))%nat -> (bit < 8)%N ->
  cl_accepts r (flip_bit (r_M2 r) i bit) = false.
Proof.
  intros Hall Hi Hb.
  destruct (cl_accepts r (flip_bit (r_M2 r) i bit)) eqn:E; [|reflexivity].
  apply accepts_iff_same_length in E.
  - exfalso. now apply (flip_bit_neq (r_M2 r) i bit Hb Hall Hi).
  - apply flip_bit_length.
  - now apply flip_bit_bytes.
  - assumption.
Qed.

(* ------------------------------------------------------------ wrong setup code (partial) *)

Definition collision (H : bytes -> bytes) : Prop := exists m1 m2, m1 <> m2 /\ H m1 = H m2.

Lemma bytes_eq_dec (x y : bytes) : {x = y} + {x <> y}.
Proof. apply list_eq_dec. apply N.eq_dec. Qed.

Section WrongCode.
  Variable H : bytes -> bytes.
  Variable PM : Z -> Z -> Z -> Z.
  Variables (Nm g kc : Z) (hgroup : bytes) (L SL : nat).
  Hypothesis PM_spec : forall b e m, 0 < m -> 0 <= e -> PM b e m = (b ^ e) mod m.
  Hypothesis HN : 0 < Nm.
  Hypothesis HNL : (Z.to_N Nm <= P256 L)%N.
  Hypothesis Hhg : hgroup = spec_hgroup H Nm g L.

  (* The accessory holds setup code P; the controller was given P'.  If the
     accessory nevertheless accepts the controller's proof, then SHA-512 (H)
     has a collision, or the controller - without the right code - computed the
     accessory's premaster secret. *)
  Lemma wrong_code I P P' salt a b r :
    0 <= a -> length salt = SL -> all_bytes salt = true ->
    client H PM Nm g kc hgroup L SL I P' a salt (sv_public H Nm g L I P salt b) = Ok r ->
    s_ok (server H Nm g L I P salt b (r_A_b r) (r_M1 r)) = true ->
    collision H \/ r_S r = s_S (server H Nm g L I P salt b (r_A_b r) (r_M1 r)).
  Proof.
    intros Ha Hlen Hsalt Hcl Hok.
    rewrite (client_closed_form H PM Nm g kc hgroup L SL PM_spec HN HNL I P' a salt _ Ha Hlen Hsalt) in Hcl.
    injection Hcl as <-. cbn [r_A_b r_M1 r_S] in *.
    unfold server in *. cbn [s_ok s_S] in *.
    apply andb_true_iff in Hok. destruct Hok as [_ Hok]. apply beq_eq in Hok.
    set (A := g ^ a mod Nm) in *.
    assert (HA : 0 <= A < Nm) by (apply Z.mod_pos_bound; assumption).
    rewrite (from_bytes_PAD Nm L HN HNL A HA) in *.
    set (B_b := sv_public H Nm g L I P salt b) in *.
    set (B := sv_B H Nm g L (sv_v Nm g (sv_x H I P salt)) b) in *.
    assert (EB : B_b = PAD L B) by reflexivity.
    set (Sc := ((from_bytes B_b - kc * (g ^ cl_x H I P' salt mod Nm)) ^
                (a + cl_u H (PAD L A) B_b * cl_x H I P' salt)) mod Nm) in *.
    set (Ss := sv_S Nm A (sv_v Nm g (sv_x H I P salt)) (sv_u H L A B) b) in *.
    assert (HSc : 0 <= Sc < Nm) by (apply Z.mod_pos_bound; assumption).
    assert (HSs : 0 <= Ss < Nm) by (apply Z.mod_pos_bound; assumption).
    unfold cl_M1, sv_M1, sv_K in Hok. rewrite Hhg, EB in Hok.
    set (pre := spec_hgroup H Nm g L ++ H I ++ salt ++ PAD L A ++ PAD L B) in *.
    replace (spec_hgroup H Nm g L ++ H I ++ salt ++ PAD L A ++ PAD L B ++ H (PAD L Sc))
      with (pre ++ H (PAD L Sc)) in Hok by (unfold pre; now rewrite <- !app_assoc).
    replace (spec_hgroup H Nm g L ++ H I ++ salt ++ PAD L A ++ PAD L B ++ H (PAD L Ss))
      with (pre ++ H (PAD L Ss)) in Hok by (unfold pre; now rewrite <- !app_assoc).
    destruct (bytes_eq_dec (pre ++ H (PAD L Sc)) (pre ++ H (PAD L Ss))) as [E|NE].
    - apply app_inv_head in E.
      destruct (bytes_eq_dec (PAD L Sc) (PAD L Ss)) as [E2|NE2].
      + right. now apply (PAD_inj Nm L HN HNL).
      + left. exists (PAD L Sc), (PAD L Ss). tauto.
    - left. eexists _, _. split; [exact NE|exact Hok].
  Qed.
End WrongCode.
