From Coq Require Import List NArith ZArith Arith Bool Lia ZifyN ZifyNat ZifyBool.
From AHK Require Import Lib.Res Lib.ByteStr Model.Tlv.
Import ListNotations.


  (* ---------- generic list facts ---------- *)
  Lemma skipn_length_le {A} n (l : list A) : length (skipn n l) <= length l.
  Proof. rewrite skipn_length; lia. Qed.

  Lemma firstn_app_exact {A} (a b : list A) : firstn (length a) (a ++ b) = a.
  Proof. rewrite firstn_app, Nat.sub_diag, firstn_all; simpl; apply app_nil_r. Qed.

  Lemma skipn_app_exact {A} (a b : list A) : skipn (length a) (a ++ b) = b.
  Proof. rewrite skipn_app, Nat.sub_diag, skipn_all; reflexivity. Qed.

  Lemma firstn_app_len {A} n (a b : list A) : length a = n -> firstn n (a ++ b) = a.
  Proof. intros <-. apply firstn_app_exact. Qed.

  Lemma skipn_app_len {A} n (a b : list A) : length a = n -> skipn n (a ++ b) = b.
  Proof. intros <-. apply skipn_app_exact. Qed.

  (* ---------- push ---------- *)
  Lemma push_push acc k a b : push (push acc k a) k b = push acc k (a ++ b).
  Proof.
    unfold push. destruct acc as [|[k' v'] r].
    - rewrite N.eqb_refl. reflexivity.
    - destruct (N.eqb k' k) eqn:E.
      + rewrite E. now rewrite app_assoc.
      + rewrite N.eqb_refl. reflexivity.
  Qed.

  Definition top_ne (acc : list item) (k : N) : Prop :=
    match acc with [] => True | (k', _) :: _ => k' <> k end.

  Lemma push_fresh acc k v : top_ne acc k -> push acc k v = (k, v) :: acc.
  Proof.
    unfold push, top_ne. destruct acc as [|[k' v'] r]; [reflexivity|].
    intros H. destruct (N.eqb_spec k' k); [contradiction|reflexivity].
  Qed.

  (* ---------- decoder: fuel independence, totality ---------- *)
  Lemma dec_fuel e : forall f f' tail acc,
      length tail < f -> length tail < f' -> dec f e tail acc = dec f' e tail acc.
  Proof.
    induction f as [|f IH]; intros f' tail acc H H'; [lia|].
    destruct f' as [|f']; [lia|].
    cbn [dec]. destruct tail as [|k t1]; [reflexivity|].
    destruct (negb (nil_b e) && negb (mem_N k e)); [reflexivity|].
    destruct t1 as [|l t2]; [reflexivity|].
    destruct (N.leb l (N.of_nat (length t2))); [|reflexivity].
    pose proof (skipn_length_le (N.to_nat l) t2). cbn [length] in *.
    apply IH; lia.
  Qed.

  Lemma dec_total e : forall f tail acc,
      length tail < f ->
      (exists items, dec f e tail acc = Ok items) \/ dec f e tail acc = Err ParseError.
  Proof.
    induction f as [|f IH]; intros tail acc H; [lia|].
    cbn [dec]. destruct tail as [|k t1]; [left; eauto|].
    destruct (negb (nil_b e) && negb (mem_N k e)); [left; eauto|].
    destruct t1 as [|l t2]; [right; reflexivity|].
    destruct (N.leb l (N.of_nat (length t2))); [|right; reflexivity].
    pose proof (skipn_length_le (N.to_nat l) t2). cbn [length] in *.
    apply IH; lia.
  Qed.

  (* ---------- decoder characterisation: decode = merge . parse_frags ---------- *)
  Definition pushf (acc : list item) (kv : item) := push acc (fst kv) (snd kv).

  Lemma dec_char : forall f bs acc items,
      dec f [] bs acc = Ok items <->
      exists fr, parse_frags f bs = Some fr /\ rev (fold_left pushf fr acc) = items.
  Proof.
    induction f as [|f IH]; intros bs acc items.
    - cbn. split; [discriminate|intros [fr [H _]]; discriminate].
    - cbn [dec parse_frags nil_b negb andb]. destruct bs as [|k t1].
      + split.
        * intros H. injection H as <-. exists []. split; reflexivity.
        * intros [fr [H1 H2]]. injection H1 as <-. cbn in H2. now subst.
      + destruct t1 as [|l t2].
        * split; [discriminate|intros [fr [H _]]; discriminate].
        * destruct (N.leb l (N.of_nat (length t2))).
          -- rewrite IH. split.
             ++ intros [fr [H1 H2]]. exists ((k, firstn (N.to_nat l) t2) :: fr).
                rewrite H1. split; [reflexivity|exact H2].
             ++ intros [fr [H1 H2]].
                destruct (parse_frags f (skipn (N.to_nat l) t2)) as [fr'|]; [|discriminate].
                cbn in H1. injection H1 as <-. exists fr'. split; [reflexivity|exact H2].
          -- split; [discriminate|intros [fr [H _]]; discriminate].
  Qed.

  (* fragments returned by parse_frags re-render to exactly the input: nothing is
     shorter than declared, nothing is dropped *)
  Definition render_frag (kv : item) : bytes := fst kv :: N.of_nat (length (snd kv)) :: snd kv.

  Lemma parse_frags_render : forall f bs fr,
      parse_frags f bs = Some fr -> concat (map render_frag fr) = bs.
  Proof.
    induction f as [|f IH]; intros bs fr H; [discriminate|].
    cbn [parse_frags] in H. destruct bs as [|k [|l t]].
    - injection H as <-. reflexivity.
    - discriminate.
    - destruct (N.leb l (N.of_nat (length t))) eqn:E; [|discriminate].
      destruct (parse_frags f (skipn (N.to_nat l) t)) as [fr'|] eqn:E'; [|discriminate].
      cbn in H. injection H as <-.
      cbn [map concat]. rewrite (IH _ _ E'). unfold render_frag. cbn [fst snd app].
      rewrite firstn_length. replace (Init.Nat.min (N.to_nat l) (length t)) with (N.to_nat l) by lia.
      rewrite N2Nat.id. cbn [app]. now rewrite firstn_skipn.
  Qed.


Section Proofs.
  Variable F : nat.
  Hypothesis Fpos : 0 < F.

  (* ---------- one value: fragments decode back, merged ---------- *)
  Lemma frags_length_ge k : forall fe v, length v <= length (frags F fe k v) \/ fe <= length v.
  Proof.
    induction fe as [|fe IH]; intros v; [right; lia|].
    cbn [frags]. destruct (length v <=? F) eqn:E.
    - left. cbn [length]. lia.
    - destruct (IH (skipn F v)) as [H|H].
      + left. cbn [length]. rewrite app_length, firstn_length, skipn_length in *. lia.
      + rewrite skipn_length in H. right. lia.
  Qed.

  Lemma dec_frags k : forall fe v rest acc f f',
      length v < fe ->
      length (frags F fe k v ++ rest) < f -> length rest < f' ->
      dec f [] (frags F fe k v ++ rest) acc = dec f' [] rest (push acc k v).
  Proof.
    induction fe as [|fe IH]; intros v rest acc f f' Hfe Hf Hf'; [lia|].
    cbn [frags] in *. destruct (length v <=? F) eqn:E.
    - destruct f as [|f]; [lia|].
      cbn [app dec nil_b negb andb].
      cbn [app length] in Hf. rewrite app_length in Hf.
      assert (Hle : N.leb (N.of_nat (length v)) (N.of_nat (length (v ++ rest))) = true)
        by (rewrite app_length; lia).
      rewrite Hle, Nat2N.id, firstn_app_exact, skipn_app_exact.
      apply dec_fuel; lia.
    - destruct f as [|f]; [lia|].
      cbn [app dec nil_b negb andb].
      rewrite <- app_assoc.
      assert (HF : length (firstn F v) = F) by (rewrite firstn_length; lia).
      cbn [app length] in Hf. rewrite !app_length in Hf.
      assert (Hle : N.leb (N.of_nat F)
                      (N.of_nat (length (firstn F v ++ frags F fe k (skipn F v) ++ rest))) = true)
        by (rewrite !app_length; lia).
      rewrite Hle, Nat2N.id.
      rewrite (firstn_app_len F _ _ HF), (skipn_app_len F _ _ HF).
      rewrite (IH _ _ _ _ f').
      + rewrite push_push, firstn_skipn. reflexivity.
      + rewrite skipn_length. lia.
      + rewrite app_length. lia.
      + exact Hf'.
  Qed.

  (* ---------- round trip ---------- *)
  Lemma encode_cons k v r t :
    encode_list F ((k, v) :: r) = Ok t ->
    exists t', encode_list F r = Ok t' /\ t = frags F (S (length v)) k v ++ t'.
  Proof.
    intros He. remember (frags F (S (length v)) k v) as fr eqn:Hfr.
    assert (He' : (if negb (valid_key k) then Err ValueError
                   else if N.eqb k 255 && negb (nil_b v) then Err ValueError
                   else rbind (encode_list F r) (fun t => Ok (fr ++ t))) = Ok t).
    { rewrite Hfr. exact He. }
    clear He.
    destruct (negb (valid_key k)); [discriminate|].
    destruct (N.eqb k 255 && negb (nil_b v)); [discriminate|].
    destruct (encode_list F r) as [t'| | |]; cbn [rbind] in He'; try discriminate.
    exists t'. split; [reflexivity|]. congruence.
  Qed.

  Definition head_ne (acc : list item) (d : list item) : Prop :=
    match d with [] => True | (k, _) :: _ => top_ne acc k end.

  Lemma no_adj_cons k v r : no_adj ((k, v) :: r) = true -> head_ne [(k, v)] r /\ no_adj r = true.
  Proof.
    cbn [no_adj]. destruct r as [|[k2 v2] r']; [intros _; split; [exact I|reflexivity]|].
    intros H. apply andb_true_iff in H. destruct H as [H1 H2].
    split; [|exact H2]. cbn. intros ->. rewrite N.eqb_refl in H1. discriminate.
  Qed.

  Lemma roundtrip_acc : forall d t acc,
      encode_list F d = Ok t -> no_adj d = true -> head_ne acc d ->
      dec (S (length t)) [] t acc = Ok (rev acc ++ d).
  Proof.
    induction d as [|[k v] r IH]; intros t acc He Hn Hh.
    - cbn in He. injection He as <-. cbn. now rewrite app_nil_r.
    - destruct (encode_cons _ _ _ _ He) as [t' [Er ->]].
      rewrite (dec_frags k _ _ _ _ _ (S (length t'))) by lia.
      cbn [head_ne] in Hh. rewrite push_fresh by exact Hh.
      destruct (no_adj_cons _ _ _ Hn) as [Hh' Hn'].
      rewrite (IH t' ((k, v) :: acc) Er Hn').
      + cbn [rev]. now rewrite <- app_assoc.
      + destruct r as [|[k2 v2] r']; [exact I|]. cbn in *. exact Hh'.
  Qed.

  Theorem roundtrip d t :
    encode_list F d = Ok t -> no_adj d = true -> decode t = Ok d.
  Proof.
    intros He Hn. unfold decode, decode_exp.
    rewrite (roundtrip_acc d t [] He Hn); [reflexivity|].
    destruct d as [|[k v] r]; exact I.
  Qed.

  Lemma encode_ok d : forallb wf_item d = true -> exists t, encode_list F d = Ok t.
  Proof.
    induction d as [|[k v] r IH]; intros H; [eexists; reflexivity|].
    cbn [forallb] in H. apply andb_true_iff in H. destruct H as [H1 H2].
    destruct (IH H2) as [t' Ht'].
    unfold wf_item in H1. cbn [fst snd] in H1. apply andb_true_iff in H1. destruct H1 as [Hk Hs].
    cbn [encode_list]. rewrite Hk. cbn [negb].
    replace (N.eqb k 255 && negb (nil_b v)) with false.
    - rewrite Ht'. cbn [rbind]. eexists; reflexivity.
    - destruct (N.eqb k 255), (nil_b v); cbn in *; congruence.
  Qed.

  Theorem roundtrip_wf d :
    wf d = true -> exists t, encode_list F d = Ok t /\ decode t = Ok d.
  Proof.
    unfold wf. intros H. apply andb_true_iff in H. destruct H as [H1 H2].
    destruct (encode_ok d H1) as [t Ht]. exists t. split; [exact Ht|].
    now apply roundtrip.
  Qed.

  (* encode_list fails exactly outside the per-item domain *)
  Theorem encode_err d :
    forallb wf_item d = false -> encode_list F d = Err ValueError.
  Proof.
    induction d as [|[k v] r IH]; intros H; [discriminate|].
    cbn [forallb] in H. cbn [encode_list].
    destruct (valid_key k) eqn:Hk; cbn [negb]; [|reflexivity].
    destruct (N.eqb k 255 && negb (nil_b v)) eqn:Hs; [reflexivity|].
    assert (Hw : wf_item (k, v) = true).
    { unfold wf_item. cbn [fst snd]. rewrite Hk.
      destruct (N.eqb k 255), (nil_b v); cbn in *; congruence. }
    rewrite Hw in H. cbn [andb] in H. rewrite (IH H). reflexivity.
  Qed.

  (* ---------- canonical form ---------- *)
  Lemma chunks_f_nil fuel : chunks_f fuel F [] = [].
  Proof. destruct fuel; reflexivity. Qed.

  Definition render_chunk (k : N) (c : bytes) : bytes := k :: N.of_nat (length c) :: c.

  Lemma frags_chunks k : forall fe fc v,
      v <> [] -> length v < fe -> length v <= fc ->
      frags F fe k v = concat (map (render_chunk k) (chunks_f fc F v)).
  Proof.
    induction fe as [|fe IH]; intros fc v Hv Hfe Hfc; [lia|].
    destruct v as [|b v']; [contradiction|].
    destruct fc as [|fc]; [cbn in Hfc; lia|].
    cbn [frags chunks_f]. destruct (length (b :: v') <=? F) eqn:E.
    - rewrite firstn_all2 by lia. rewrite skipn_all2 by lia.
      rewrite chunks_f_nil. cbn [map concat render_chunk]. now rewrite app_nil_r.
    - cbn [map concat]. unfold render_chunk at 1.
      assert (HF : length (firstn F (b :: v')) = F) by (rewrite firstn_length; lia).
      rewrite HF. cbn [app]. f_equal. f_equal. f_equal.
      apply IH.
      + intros Hnil. apply (f_equal (@length N)) in Hnil.
        rewrite skipn_length in Hnil. cbn [length] in *. lia.
      + rewrite skipn_length. cbn [length] in *. lia.
      + rewrite skipn_length. cbn [length] in *. lia.
  Qed.

  Lemma frags_spec k v : frags F (S (length v)) k v = spec_item F k v.
  Proof.
    unfold spec_item, chunks. destruct v as [|b v'].
    - reflexivity.
    - rewrite (frags_chunks k (S (length (b :: v'))) (length (b :: v')) (b :: v'));
        [|discriminate|lia|lia].
      destruct (chunks_f (length (b :: v')) F (b :: v')) eqn:E; [|reflexivity].
      cbn in E. discriminate.
  Qed.

  Theorem canonical d t : encode_list F d = Ok t -> t = spec_encode F d.
  Proof.
    revert t; induction d as [|[k v] r IH]; intros t He.
    - cbn in He. now injection He as <-.
    - destruct (encode_cons _ _ _ _ He) as [t' [Er ->]].
      unfold spec_encode. cbn [map concat fst snd].
      rewrite frags_spec. f_equal. now apply IH.
  Qed.

  (* every fragment is at most F long, and all but the last of an item are exactly F:
     stated on the spec side via chunks *)
  Lemma chunks_f_le : forall fuel v c, In c (chunks_f fuel F v) -> length c <= F /\ c <> [].
  Proof.
    induction fuel as [|fuel IH]; intros v c Hin; [destruct Hin|].
    cbn [chunks_f] in Hin. destruct v as [|b v']; [destruct Hin|].
    destruct Hin as [<-|Hin].
    - split; [rewrite firstn_length; lia|].
      destruct F; [lia|]. discriminate.
    - eapply IH; eassumption.
  Qed.

  (* ---------- expected filter on encodings ---------- *)
  Fixpoint take_expected (e : list N) (d : list item) : list item :=
    match d with
    | [] => []
    | (k, v) :: r => if mem_N k e then (k, v) :: take_expected e r else []
    end.

  Lemma frags_head k fe v : exists tl, frags F (S fe) k v = k :: tl.
  Proof. cbn [frags]. destruct (length v <=? F); eexists; reflexivity. Qed.

  Lemma dec_exp_frags e k : mem_N k e = true -> forall fe v rest acc f f',
      length v < fe ->
      length (frags F fe k v ++ rest) < f -> length rest < f' ->
      dec f e (frags F fe k v ++ rest) acc = dec f' e rest (push acc k v).
  Proof.
    intros Hk.
    induction fe as [|fe IH]; intros v rest acc f f' Hfe Hf Hf'; [lia|].
    cbn [frags] in *. destruct (length v <=? F) eqn:E.
    - destruct f as [|f]; [lia|].
      cbn [app dec]. rewrite Hk. cbn [negb]. rewrite andb_false_r.
      cbn [app length] in Hf. rewrite app_length in Hf.
      assert (Hle : N.leb (N.of_nat (length v)) (N.of_nat (length (v ++ rest))) = true)
        by (rewrite app_length; lia).
      rewrite Hle, Nat2N.id, firstn_app_exact, skipn_app_exact.
      apply dec_fuel; lia.
    - destruct f as [|f]; [lia|].
      cbn [app dec]. rewrite Hk. cbn [negb]. rewrite andb_false_r.
      rewrite <- app_assoc.
      assert (HF : length (firstn F v) = F) by (rewrite firstn_length; lia).
      cbn [app length] in Hf. rewrite !app_length in Hf.
      assert (Hle : N.leb (N.of_nat F)
                      (N.of_nat (length (firstn F v ++ frags F fe k (skipn F v) ++ rest))) = true)
        by (rewrite !app_length; lia).
      rewrite Hle, Nat2N.id.
      rewrite (firstn_app_len F _ _ HF), (skipn_app_len F _ _ HF).
      rewrite (IH _ _ _ _ f').
      + rewrite push_push, firstn_skipn. reflexivity.
      + rewrite skipn_length. lia.
      + rewrite app_length. lia.
      + exact Hf'.
  Qed.

  Lemma expected_acc e : e <> [] -> forall d t acc,
      encode_list F d = Ok t -> no_adj d = true -> head_ne acc d ->
      dec (S (length t)) e t acc = Ok (rev acc ++ take_expected e d).
  Proof.
    intros He.
    induction d as [|[k v] r IH]; intros t acc Hen Hn Hh.
    - cbn in Hen. injection Hen as <-. cbn. now rewrite app_nil_r.
    - destruct (encode_cons _ _ _ _ Hen) as [t' [Er ->]]. cbn [take_expected].
      destruct (mem_N k e) eqn:Hk.
      + rewrite (dec_exp_frags e k Hk _ _ _ _ _ (S (length t'))) by lia.
        cbn [head_ne] in Hh. rewrite push_fresh by exact Hh.
        destruct (no_adj_cons _ _ _ Hn) as [Hh' Hn'].
        rewrite (IH t' ((k, v) :: acc) Er Hn').
        * cbn [rev]. now rewrite <- app_assoc.
        * destruct r as [|[k2 v2] r']; [exact I|]. cbn in *. exact Hh'.
      + destruct (frags_head k (length v) v) as [tl Htl]. rewrite Htl.
        cbn [app dec]. rewrite Hk.
        destruct e; [contradiction|]. cbn [nil_b negb andb]. now rewrite app_nil_r.
  Qed.

  Theorem expected_prefix e d t :
    e <> [] -> encode_list F d = Ok t -> no_adj d = true ->
    decode_exp e t = Ok (take_expected e d).
  Proof.
    intros He Hen Hn. unfold decode_exp.
    rewrite (expected_acc e He d t [] Hen Hn); [reflexivity|].
    destruct d as [|[k v] r]; exact I.
  Qed.

  (* ---------- the output consists of bytes ---------- *)
  Hypothesis Fbyte : F < 256.

  Lemma frags_bytes k : is_byte k = true -> forall fe v,
      all_bytes v = true -> all_bytes (frags F fe k v) = true.
  Proof.
    intros Hk. induction fe as [|fe IH]; intros v Hv; [reflexivity|].
    cbn [frags]. destruct (length v <=? F) eqn:E.
    - unfold all_bytes in *. cbn [forallb]. rewrite Hk, Hv.
      unfold is_byte. replace (N.ltb (N.of_nat (length v)) 256) with true by lia. reflexivity.
    - unfold all_bytes in *. cbn [forallb]. rewrite Hk, forallb_app.
      rewrite <- (firstn_skipn F v), forallb_app in Hv.
      apply andb_true_iff in Hv. destruct Hv as [H1 H2].
      rewrite H1, (IH _ H2).
      unfold is_byte. replace (N.ltb (N.of_nat F) 256) with true by lia. reflexivity.
  Qed.

  Theorem encode_bytes : forall d t,
      encode_list F d = Ok t -> forallb (fun kv => all_bytes (snd kv)) d = true ->
      all_bytes t = true.
  Proof.
    induction d as [|[k v] r IH]; intros t He Hb.
    - cbn in He. injection He as <-. reflexivity.
    - assert (Hk : is_byte k = true).
      { cbn [encode_list] in He. unfold valid_key in He. unfold is_byte.
        destruct (N.ltb k 256); [reflexivity|discriminate]. }
      destruct (encode_cons _ _ _ _ He) as [t' [Er ->]].
      cbn [forallb snd] in Hb. apply andb_true_iff in Hb. destruct Hb as [Hv Hr].
      unfold all_bytes. rewrite forallb_app.
      fold (all_bytes (frags F (S (length v)) k v)). rewrite (frags_bytes k Hk _ _ Hv).
      apply (IH _ Er Hr).
  Qed.

  (* ---------- BLE pairing reassembly ---------- *)
  Definition reply_of (k : N) (p : bytes) : bytes := frags F (S (length p)) k p.

  Lemma decode_reply k p : valid_key k = true -> k <> 255%N -> decode (reply_of k p) = Ok [(k, p)].
  Proof.
    intros Hk Hs. apply roundtrip; [|reflexivity].
    cbn [encode_list]. rewrite Hk. cbn [negb].
    destruct (N.eqb_spec k 255); [contradiction|]. cbn [andb rbind].
    unfold reply_of. now rewrite app_nil_r.
  Qed.

  Definition finish (acks : nat) (r : res tlv_err (list item)) : reasm :=
    match r with Ok x => RDone acks x | Err e => RFail acks e | _ => RCrash end.

  Definition finish_s (acks : nat) (sib : list item) (r : res tlv_err (list item)) : reasm :=
    match r with Ok x => RDone acks (sib ++ x) | Err e => RFail acks e | _ => RCrash end.

  Lemma nonfrag_frag k p : (k = 12 \/ k = 13)%N -> nonfrag [(k, p)] = [].
  Proof. intros [->| ->]; reflexivity. Qed.

  (* pure fragment payloads carry no sibling items: whatever siblings were collected before stay in front *)
  Theorem reassemble_split_sib : forall ps last max buf sib acks,
      length ps < max ->
      reassemble max (map (reply_of 12) ps ++ [reply_of 13 last]) buf sib acks
      = finish_s (acks + length ps) sib (decode (buf ++ concat ps ++ last)).
  Proof.
    induction ps as [|p ps IH]; intros last max buf sib acks Hmax.
    - destruct max as [|m]; [cbn in Hmax; lia|].
      cbn [map app reassemble]. rewrite decode_reply by (reflexivity || discriminate).
      rewrite nonfrag_frag by (right; reflexivity). rewrite app_nil_r.
      cbn [lookup N.eqb Pos.eqb concat app]. rewrite Nat.add_0_r.
      unfold finish_buf, finish_s. destruct (decode (buf ++ last)) as [r|e| |]; reflexivity.
    - destruct max as [|m]; [cbn in Hmax; lia|].
      cbn [map app reassemble]. rewrite decode_reply by (reflexivity || discriminate).
      rewrite nonfrag_frag by (left; reflexivity). rewrite app_nil_r.
      cbn [lookup N.eqb Pos.eqb].
      rewrite IH by (cbn [length] in Hmax; lia).
      cbn [concat length]. rewrite <- !app_assoc. f_equal. lia.
  Qed.

  Theorem reassemble_split : forall ps last max buf acks,
      length ps < max ->
      reassemble max (map (reply_of 12) ps ++ [reply_of 13 last]) buf [] acks
      = finish (acks + length ps) (decode (buf ++ concat ps ++ last)).
  Proof.
    intros. rewrite reassemble_split_sib by assumption.
    unfold finish_s, finish. destruct (decode _); reflexivity.
  Qed.

  (* nothing sent beside a fragment item is lost: a payload [sibs ++ FragmentLast last] whose sibling items are
     well-formed non-fragment items yields them in front of the reassembled items *)
  Theorem reassemble_keeps_siblings : forall max buf sib acks data items last,
      decode data = Ok items -> lookup 13 items = Some last ->
      reassemble (S max) [data] buf sib acks = finish_s acks (sib ++ nonfrag items) (decode (buf ++ last)).
  Proof.
    intros max buf sib acks data items last Hd Hl.
    cbn [reassemble]. rewrite Hd, Hl. unfold finish_buf, finish_s.
    destruct (decode (buf ++ last)); reflexivity.
  Qed.
End Proofs.
