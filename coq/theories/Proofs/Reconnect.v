From Coq Require Import List NArith ZArith Arith Bool Lia ZifyN ZifyNat ZifyBool.
From AHK Require Import Model.Reconnect.
Import ListNotations.

(* ---------- simplification of record accessors over setters ---------- *)
Ltac ss :=
  cbn [hosts desc excl closing shut cur secure ph nfail imm ntasks opn waiters dials verifs nextcid now subs
       supsub ploss set_ploss tie fuel_out adv_out trace
       set_hosts set_desc set_excl set_closing set_shut set_cur set_secure set_ph set_nfail set_imm set_ntasks
       set_opn set_waiters set_dials set_verifs set_nextcid set_now set_subs set_supsub set_tie set_fuel_out set_adv_out
       set_trace emit] in *.

(* ---------- arithmetic of the back-off ---------- *)
Lemma sleep_ticks_bounds n : 1 <= n -> (3072 <= sleep_ticks n <= SIXTY_S)%N.
Proof.
  intros H. unfold sleep_ticks, SIXTY_S.
  destruct (n <=? 11) eqn:E; [|lia].
  assert (Hn : n = 1 \/ n = 2 \/ n = 3 \/ n = 4 \/ n = 5 \/ n = 6 \/ n = 7 \/ n = 8 \/ n = 9 \/ n = 10 \/ n = 11) by lia.
  repeat (destruct Hn as [->|Hn]; [vm_compute; split; discriminate|]).
  subst; vm_compute; split; discriminate.
Qed.

Lemma sleep_ticks_mono n : (sleep_ticks n <= sleep_ticks (S n))%N.
Proof.
  unfold sleep_ticks, SIXTY_S.
  destruct (n <=? 11) eqn:E.
  - assert (Hn : n = 0 \/ n = 1 \/ n = 2 \/ n = 3 \/ n = 4 \/ n = 5 \/ n = 6 \/ n = 7 \/ n = 8 \/ n = 9 \/ n = 10 \/ n = 11) by lia.
    repeat (destruct Hn as [->|Hn]; [vm_compute; discriminate|]).
    subst; vm_compute; discriminate.
  - replace (S n <=? 11) with false by lia. lia.
Qed.

(* ---------- small list facts ---------- *)
Lemma mem_nat_In x l : mem_nat x l = true <-> In x l.
Proof.
  induction l as [|y r IH]; cbn; [split; [discriminate|tauto]|].
  destruct (Nat.eqb_spec x y); split; intros H; auto.
  - right. now apply IH.
  - destruct H as [H|H]; [congruence|now apply IH].
Qed.

Lemma remove_nat_single c : remove_nat c [c] = [].
Proof. cbn. now rewrite Nat.eqb_refl. Qed.

Lemma subset_nat_refl l : subset_nat l l = true.
Proof. unfold subset_nat. apply forallb_forall. intros x Hx. now apply mem_nat_In. Qed.

Lemma same_set_refl l : same_set l l = true.
Proof. unfold same_set. now rewrite subset_nat_refl. Qed.

(* number of advertised hosts (with multiplicity) not excluded *)
Definition free_count (hs ex : list nat) : nat := length (filter (fun h => negb (mem_nat h ex)) hs).

Lemma free_count_le hs ex : free_count hs ex <= length hs.
Proof. unfold free_count. induction hs as [|h r IH]; cbn; [lia|]. destruct (negb (mem_nat h ex)); cbn; lia. Qed.

Lemma mem_nat_app x a b : mem_nat x (a ++ b) = mem_nat x a || mem_nat x b.
Proof. induction a as [|y r IH]; cbn; [reflexivity|]. destruct (Nat.eqb x y); [reflexivity|exact IH]. Qed.

Lemma free_count_add_le hs ex h : free_count hs (ex ++ [h]) <= free_count hs ex.
Proof.
  unfold free_count. induction hs as [|x r IH]; cbn; [lia|].
  rewrite mem_nat_app. destruct (mem_nat x ex); cbn; [exact IH|].
  destruct (Nat.eqb x h); cbn; lia.
Qed.

Lemma free_count_add_lt hs ex h :
  In h hs -> mem_nat h ex = false -> free_count hs (ex ++ [h]) < free_count hs ex.
Proof.
  unfold free_count. induction hs as [|x r IH]; intros Hin Hm; [destruct Hin|].
  cbn. rewrite mem_nat_app. destruct Hin as [->|Hin].
  - rewrite Hm. cbn. rewrite Nat.eqb_refl. cbn.
    pose proof (free_count_add_le r ex h) as Hle. unfold free_count in Hle. lia.
  - specialize (IH Hin Hm). destruct (mem_nat x ex); cbn; [exact IH|].
    destruct (Nat.eqb x h); cbn; lia.
Qed.

Lemma not_subset_free hs ex : subset_nat hs ex = false -> 1 <= free_count hs ex.
Proof.
  unfold subset_nat, free_count. induction hs as [|x r IH]; cbn; [discriminate|].
  destruct (mem_nat x ex); cbn; [exact IH|lia].
Qed.

Lemma filter_nil_free hs ex : filter (fun h => negb (mem_nat h ex)) hs = [] -> free_count hs ex = 0.
Proof. unfold free_count. now intros ->. Qed.

(* ---------- the invariant ---------- *)
Definition cur_list (s : st) : list cid := match cur s with Some c => [c] | None => [] end.
Definition wait_ok (s : st) : Prop :=
  forall w d, In (w, d) (waiters s) -> (now s <= d)%N /\ (d <= now s + TEN_S)%N.

Record Inv (s : st) : Prop := {
  i_open : opn s = cur_list s;
  i_cur : forall c, cur s = Some c ->
          (secure s = true /\ (ph s = PDoneOk \/ exists u, ph s = PPost c u)) \/
          (exists h f r u, ph s = PVerify c h f r u);
  i_post : forall c u, ph s = PPost c u -> cur s = Some c;
  i_ver : forall c h f r u, ph s = PVerify c h f r u ->
          cur s = Some c /\ secure s = false /\ In h (hosts s) /\ length (excl s) <= f /\ (u <= now s + THIRTY_S)%N;
  i_tasks : ntasks s = if running s then 1 else 0;
  i_wait : waiters s <> [] -> running s = true;
  i_live : closing s = false -> connected s = false -> running s = true \/ ph s = PNone \/ ph s = PDoneAuth;
  i_sleep : forall w, ph s = PSleep w -> excl s = [] /\ (w <= now s + SIXTY_S)%N;
  i_dial : forall r d f, ph s = PDial r d f ->
           (d <= now s + TEN_S)%N /\ length (excl s) <= f /\ incl r (hosts s) /\ secure s = false;
  i_wdl : wait_ok s;
  i_fuel : fuel_out s = false;
  i_run : running s = true -> closing s = false;
  i_ptime : forall t, phase_timer s = Some t -> (now s <= t)%N;
  i_excl : incl (excl s) (hosts s)
}.

(* the connector task holds control: no current connection, nothing open *)
Record Ctl (s : st) : Prop := {
  c_open : opn s = [];
  c_cur : cur s = None;
  c_tasks : ntasks s = 1;
  c_wdl : wait_ok s;
  c_fuel : fuel_out s = false;
  c_closing : closing s = false;
  c_excl : incl (excl s) (hosts s)
}.

Ltac inv_tac :=
  constructor; ss; unfold running, connected, cur_list, wait_ok, phase_timer in *; ss;
  intros; try congruence; try discriminate; auto;
  try (match goal with Hw : forall w d, In (w, d) _ -> _ |- _ => eapply Hw; eassumption end);
  try (match goal with |- incl [] _ => apply incl_nil_l end).

Lemma backoff_inv s : Ctl s -> Inv (backoff s).
Proof.
  intros [Ho Hc Ht Hw Hf Hcl Hex]. unfold backoff. inv_tac.
  - rewrite Ho, Hc. reflexivity.
  - match goal with H : PSleep _ = PSleep _ |- _ => injection H as <- end.
    split; [reflexivity|]. pose proof (sleep_ticks_bounds (S (nfail s))). lia.
  - match goal with H : Some _ = Some _ |- _ => injection H as <- end. lia.
Qed.

Lemma finish_auth_inv s : Ctl s -> Inv (finish PDoneAuth s).
Proof.
  intros [Ho Hc Ht Hw Hf Hcl Hex]. unfold finish, resolve_waiters. inv_tac.
  - rewrite Ho, Hc. reflexivity.
  - rewrite Ht. reflexivity.
  - match goal with H : In _ [] |- _ => destruct H end.
Qed.

Lemma finish_ok_connected_inv s c :
  cur s = Some c -> opn s = [c] -> secure s = true -> ntasks s = 1 -> wait_ok s -> fuel_out s = false ->
  incl (excl s) (hosts s) ->
  Inv (finish PDoneOk s).
Proof.
  intros Hc Ho Hs Ht Hw Hf Hex. unfold finish, resolve_waiters. inv_tac.
  - rewrite Ho, Hc. reflexivity.
  - rewrite Ht. reflexivity.
  - rewrite Hc, Hs in *. discriminate.
  - match goal with H : In _ [] |- _ => destruct H end.
Qed.

Definition ContOk (cont : st -> st) (hs ds ex : list hostid) (h : hostid) : Prop :=
  forall s'', Ctl s'' -> hosts s'' = hs -> desc s'' = ds ->
              mem_nat h ex = false -> excl s'' = ex ++ [h] ->
              subset_nat hs (excl s'') = false -> Inv (cont s'').

Lemma incl_snoc (l hs : list nat) h : incl l hs -> In h hs -> incl (l ++ [h]) hs.
Proof. intros Hl Hh. apply incl_app; [exact Hl|]. intros x [<-|[]]. exact Hh. Qed.

Ltac inclh :=
  try (match goal with |- incl (if ?c then _ else _) _ => destruct c end);
  try assumption; try (apply incl_snoc; assumption); try (apply incl_nil_l).

Lemma verify_done_inv cont fhc h c r s :
  cur s = Some c -> opn s = [c] -> ntasks s = 1 -> wait_ok s -> fuel_out s = false -> closing s = false ->
  incl (excl s) (hosts s) -> length (excl s) <= fhc -> In h (hosts s) ->
  ContOk cont (hosts s) (desc s) (excl s) h -> Inv (verify_done cont fhc h c r s).
Proof.
  intros Hc Ho Ht Hw Hf Hcl Hex Hfhc Hin Hcont. unfold verify_done.
  assert (Hother : Inv (fail_other s)).
  { unfold fail_other, drop_transport. rewrite Hc, Ho. cbn [mem_nat]. rewrite Nat.eqb_refl. ss.
    rewrite remove_nat_single. apply backoff_inv. constructor; ss; auto. }
  destruct r as [[k delta]|]; [|exact Hother].
  destruct (vclass_of k) eqn:Ek.
  - (* ok *)
    ss. destruct (subs s && supsub s && negb (delta =? 0)%N) eqn:Ep.
    + inv_tac.
      * rewrite Ho, Hc. reflexivity.
      * left. split; [reflexivity|]. right. exists (now s + delta)%N. congruence.
      * match goal with H : Some _ = Some _ |- _ => injection H as <- end. lia.
    + eapply finish_ok_connected_inv; ss; eauto.
  - (* wrong id *)
    ss. unfold drop_transport. ss. rewrite Hc, Ho. cbn [mem_nat]. rewrite Nat.eqb_refl. ss.
    rewrite remove_nat_single.
    match goal with |- context [(fhc <? length ?e)] => destruct ((fhc <? length e) && negb (subset_nat (hosts s) e)) eqn:Econt end.
    * apply andb_true_iff in Econt. destruct Econt as [E1 E2].
      destruct (mem_nat h (excl s)) eqn:Em.
      -- exfalso. apply Nat.ltb_lt in E1. lia.
      -- apply Hcont; ss; auto.
         ++ constructor; ss; auto; inclh.
         ++ destruct (subset_nat (hosts s) (excl s ++ [h])); [discriminate|reflexivity].
    * apply backoff_inv. constructor; ss; auto; inclh.
  - (* authentication error: the connector ends *)
    unfold drop_transport. rewrite Hc, Ho. cbn [mem_nat]. rewrite Nat.eqb_refl. ss.
    rewrite remove_nat_single.
    apply finish_auth_inv. constructor; ss; auto.
  - (* any other failure: close and back off *)
    exact Hother.
Qed.

Lemma after_verify_inv cont fhc h c k delta vd s0 :
  cur s0 = Some c -> opn s0 = [c] -> ntasks s0 = 1 -> wait_ok s0 -> fuel_out s0 = false -> closing s0 = false ->
  incl (excl s0) (hosts s0) -> secure s0 = false -> length (excl s0) <= fhc -> In h (hosts s0) ->
  ContOk cont (hosts s0) (desc s0) (excl s0) h ->
  Inv (if (vd =? 0)%N then verify_done cont fhc h c (Some (k, delta)) s0
       else if (vd <? THIRTY_S)%N then set_ph (PVerify c h fhc (Some (k, delta)) (now s0 + vd)) s0
       else set_ph (PVerify c h fhc None (now s0 + THIRTY_S))
                   (if (vd =? THIRTY_S)%N then set_tie true s0 else s0)).
Proof.
  intros Hc Ho Ht Hw Hf Hcl Hex Hsec Hfhc Hin Hcont. destruct (vd =? 0)%N.
  - now apply verify_done_inv.
  - destruct (N.ltb_spec vd THIRTY_S).
    + inv_tac.
      * rewrite Ho, Hc. reflexivity.
      * right. assert (c0 = c) by congruence. subst. eauto.
      * match goal with H : PVerify _ _ _ _ _ = PVerify _ _ _ _ _ |- _ => injection H as <- <- <- <- <- end.
        repeat split; auto. lia.
      * match goal with H : Some _ = Some _ |- _ => injection H as <- end. lia.
    + destruct (vd =? THIRTY_S)%N; inv_tac.
      all: try (rewrite Ho, Hc; reflexivity).
      all: try (right; assert (c0 = c) by congruence; subst; eauto; fail).
      all: try (match goal with H : PVerify _ _ _ _ _ = PVerify _ _ _ _ _ |- _ => injection H as <- <- <- <- <- end;
                repeat split; auto; lia).
      all: try (match goal with H : Some _ = Some _ |- _ => injection H as <- end; lia).
Qed.

Lemma after_connect_inv cont fhc h s :
  Ctl s -> secure s = false -> length (excl s) <= fhc -> In h (hosts s) ->
  ContOk cont (hosts s) (desc s) (excl s) h -> Inv (after_connect cont fhc h s).
Proof.
  intros [Ho Hc Ht Hw Hf Hcl Hex] Hsec Hfhc Hin Hcont. unfold after_connect, pop_verif.
  destruct (verifs _) as [|[[k delta] vd] vr] eqn:Ev.
  - apply after_verify_inv; ss; auto. rewrite Ho. reflexivity.
  - apply after_verify_inv; ss; auto. rewrite Ho. reflexivity.
Qed.

Lemma rounds_inv cont fhc : forall cands s,
  Ctl s -> secure s = false -> length (excl s) <= fhc -> incl cands (hosts s) ->
  (forall h, In h cands -> ContOk cont (hosts s) (desc s) (excl s) h) ->
  Inv (rounds cont fhc cands s).
Proof.
  induction cands as [|c0 rest IH]; intros s HC Hsec Hfhc Hincl Hcont.
  - cbn [rounds]. unfold fail_other, drop_transport. destruct HC as [Ho Hc Ht Hw Hf Hcl Hex]. rewrite Hc.
    apply backoff_inv. constructor; auto.
  - cbn [rounds]. unfold pop_dial.
    assert (HC' := HC). destruct HC' as [Ho Hc Ht Hw Hf Hcl Hex].
    destruct (dials s) as [|d dr] eqn:Ed.
    + (* script exhausted: refused *)
      apply IH; ss; auto.
      * constructor; ss; auto.
      * intros x Hx. apply Hincl. now right.
      * intros h Hh. apply Hcont. now right.
    + destruct d as [| |i].
      * apply IH; ss; auto.
        -- constructor; ss; auto.
        -- intros x Hx. apply Hincl. now right.
        -- intros h Hh. apply Hcont. now right.
      * inv_tac.
        -- rewrite Ho, Hc. reflexivity.
        -- match goal with H : PDial _ _ _ = PDial _ _ _ |- _ => injection H as <- <- <- end.
           split; [lia|]. split; [assumption|]. split; [|assumption]. intros x Hx. apply Hincl. now right.
        -- match goal with H : Some _ = Some _ |- _ => injection H as <- end. lia.
      * assert (Hnth : In (nth (Nat.min i (length (c0 :: rest) - 1)) (c0 :: rest) 0) (c0 :: rest))
          by (apply nth_In; cbn [length]; lia).
        apply after_connect_inv; ss; auto.
        -- constructor; ss; auto.
Qed.

(* ---------- the immediate-retry cascade terminates: fuel measure ---------- *)
Definition mu (hs ex : list nat) : nat :=
  let c := free_count hs ex in if c =? 0 then length hs else c.
Definition need (s : st) : nat :=
  if same_set (hosts s) (desc s) then mu (hosts s) (excl s) else S (length (desc s)).

Lemma mu_le hs ex : mu hs ex <= length hs.
Proof. unfold mu. pose proof (free_count_le hs ex). destruct (free_count hs ex =? 0); lia. Qed.

Lemma need_lt_fuel s : need s < fuel_of s.
Proof.
  unfold need, fuel_of. pose proof (mu_le (hosts s) (excl s)).
  destruct (same_set (hosts s) (desc s)); unfold hostid in *; lia.
Qed.

Lemma filter_incl {A} (f : A -> bool) l : incl (filter f l) l.
Proof. intros x Hx. apply filter_In in Hx. tauto. Qed.

Lemma cont_step f hs ds ex h :
  (forall s, Ctl s -> need s < f -> Inv (attempt_loop f s)) ->
  same_set hs ds = true -> In h hs -> free_count hs ex <= f ->
  ContOk (attempt_loop f) hs ds ex h.
Proof.
  intros IH Hsync Hin Hle s'' HC Hh Hd Hm He Hsub.
  apply IH; [exact HC|].
  unfold need. rewrite Hh, Hd, Hsync, He. unfold mu.
  rewrite He in Hsub. pose proof (not_subset_free _ _ Hsub) as H1.
  pose proof (free_count_add_lt hs ex h Hin Hm) as H2.
  unfold hostid in *. destruct (free_count hs (ex ++ [h])) as [|n] eqn:E; [lia|]. cbn [Nat.eqb]. lia.
Qed.

Lemma attempt_loop_inv : forall f s, Ctl s -> need s < f -> Inv (attempt_loop f s).
Proof.
  induction f as [|f IH]; intros s HC Hneed; [lia|].
  cbn [attempt_loop]. destruct (closing s) eqn:Ecl.
  - rewrite (c_closing _ HC) in Ecl. discriminate.
  - assert (HC' := HC). destruct HC' as [Ho Hc Ht Hw Hf Hcl Hex]. ss.
    unfold need in Hneed.
    destruct (same_set (hosts s) (desc s)) eqn:Esync.
    + (* address list unchanged *)
      ss. destruct (filter (fun h => negb (mem_nat h (excl s))) (hosts s)) as [|c0 cr] eqn:Efil.
      * (* every address excluded: start over with all of them *)
        apply rounds_inv; ss; auto.
        -- constructor; ss; auto; inclh.
        -- cbn [length]; unfold hostid in *; lia.
        -- apply incl_refl.
        -- intros h Hh. apply cont_step; auto.
           unfold mu in Hneed. rewrite (filter_nil_free _ _ Efil) in Hneed. cbn in Hneed.
           pose proof (free_count_le (hosts s) []). (unfold hostid in *; lia).
      * apply rounds_inv; ss; auto.
        -- constructor; ss; auto; inclh.
        -- rewrite <- Efil. apply filter_incl.
        -- intros h Hh. apply cont_step; auto.
           ++ rewrite <- Efil in Hh. apply filter_In in Hh. tauto.
           ++ unfold mu in Hneed. destruct (free_count (hosts s) (excl s) =? 0) eqn:E0; [|lia].
              unfold free_count in E0. rewrite Efil in E0. discriminate.
    + (* the advertised addresses changed: adopt them, forget exclusions *)
      ss. match goal with |- context [match ?X with [] => _ | _ :: _ => _ end] => destruct X as [|c0 cr] eqn:Efil end.
      * apply rounds_inv; ss; auto.
        -- constructor; ss; auto; inclh.
        -- cbn [length]; unfold hostid in *; lia.
        -- apply incl_refl.
        -- intros h Hh. apply cont_step; auto.
           ++ apply same_set_refl.
           ++ pose proof (free_count_le (desc s) []). (unfold hostid in *; lia).
      * apply rounds_inv; ss; auto.
        -- constructor; ss; auto; inclh.
        -- cbn [length]; unfold hostid in *; lia.
        -- rewrite <- Efil. apply filter_incl.
        -- intros h Hh. apply cont_step; auto.
           ++ apply same_set_refl.
           ++ rewrite <- Efil in Hh. apply filter_In in Hh. tauto.
           ++ pose proof (free_count_le (desc s) []). (unfold hostid in *; lia).
Qed.

Lemma attempt_inv s : Ctl s -> Inv (attempt s).
Proof. intros HC. apply attempt_loop_inv; [exact HC|apply need_lt_fuel]. Qed.

(* ---------- control events and timers preserve the invariant ---------- *)
Ltac dinv H :=
  let Ho := fresh "Io" in let Hc := fresh "Ic" in let Hp := fresh "Ip" in let Ht := fresh "It" in
  let Hw := fresh "Iw" in let Hl := fresh "Il" in let Hs := fresh "Is" in let Hd := fresh "Id" in
  let Hwd := fresh "Iwd" in let Hf := fresh "If" in let Hr := fresh "Ir" in let Hpt := fresh "Ipt" in
  let Hex := fresh "Iex" in let Hv := fresh "Iv" in
  destruct H as [Ho Hc Hp Hv Ht Hw Hl Hs Hd Hwd Hf Hr Hpt Hex].

(* a current connection exists only when connected, or while its pair-verify is in flight *)
Lemma inv_cur_none s : Inv s -> connected s = false -> running s = false -> cur s = None.
Proof.
  intros H Hn Hr. dinv H. unfold connected in Hn. destruct (cur s) as [c|] eqn:E; [|reflexivity].
  destruct (Ic c eq_refl) as [[Hs _]|(h & f & r & u & Hp)]; [congruence|].
  unfold running in Hr. rewrite Hp in Hr. discriminate.
Qed.

Lemma inv_cur_cases s c : Inv s -> cur s = Some c ->
  opn s = [c] /\
  ((secure s = true /\ (ph s = PDoneOk \/ exists u, ph s = PPost c u)) \/
   (secure s = false /\ exists h f r u, ph s = PVerify c h f r u /\ In h (hosts s) /\ length (excl s) <= f)).
Proof.
  intros H Hc. dinv H. split; [rewrite Io; unfold cur_list; now rewrite Hc|].
  destruct (Ic c Hc) as [Hx|(h & f & r & u & Hp)]; [now left|]. right.
  destruct (Iv _ _ _ _ _ Hp) as (_ & Hs & Hin & Hl & _). split; [exact Hs|]. exists h, f, r, u. auto.
Qed.

(* in the phases without a current connection *)
Lemma inv_nocur_phase s : Inv s ->
  (ph s = PNone \/ ph s = PDoneAuth \/ ph s = PCancelled \/
   (exists w, ph s = PSleep w) \/ (exists r d f, ph s = PDial r d f)) -> cur s = None.
Proof.
  intros H Hp. dinv H. destruct (cur s) as [c|] eqn:E; [|reflexivity].
  destruct (Ic c eq_refl) as [[_ [Hx|[u Hx]]]|(h & f & r & u & Hx)];
    destruct Hp as [Hp|[Hp|[Hp|[[w Hp]|[r' [d [f' Hp]]]]]]]; congruence.
Qed.

Lemma start_from s :
  opn s = [] -> cur s = None -> running s = false -> ntasks s = 0 -> wait_ok s ->
  fuel_out s = false -> closing s = false -> incl (excl s) (hosts s) -> Inv (start_connector s).
Proof.
  intros Ho Hc Hr Ht Hw Hf Hcl Hex. unfold start_connector, connected. rewrite Hr, Hc. cbn [orb].
  apply attempt_inv. constructor; ss; auto; try (rewrite Ht; reflexivity).
Qed.

Lemma running_ph s : running s = false ->
  ph s = PNone \/ ph s = PDoneOk \/ ph s = PDoneAuth \/ ph s = PCancelled.
Proof. unfold running. destruct (ph s); intros; try discriminate; auto. Qed.

(* a caller starts waiting / _start_reconnecting: closing is reset, a connector is started if needed *)
Lemma restart_inv s ws :
  Inv s -> connected s = false ->
  (forall w d, In (w, d) ws -> (now s <= d)%N /\ (d <= now s + TEN_S)%N) ->
  Inv (start_connector (set_closing false (set_waiters (waiters s ++ ws) s))).
Proof.
  intros H Hn Hws. pose proof (inv_cur_none s H Hn) as Hcur. dinv H.
  assert (Hwok : wait_ok (set_closing false (set_waiters (waiters s ++ ws) s))).
  { unfold wait_ok. ss. intros w d Hin. apply in_app_or in Hin. destruct Hin as [Hin|Hin]; [exact (Iwd w d Hin)|exact (Hws w d Hin)]. }
  destruct (running s) eqn:Er.
  - unfold start_connector. unfold running in *. ss. rewrite Er. cbn [orb].
    inv_tac; eauto; try (rewrite Er; assumption).
  - specialize (Hcur eq_refl). apply start_from; ss; auto;
      try (rewrite Io; unfold cur_list; now rewrite Hcur); try (rewrite It, Er; reflexivity).
Qed.

Lemma attempt_from_sleep s w : Inv s -> ph s = PSleep w -> Inv (attempt s).
Proof.
  intros H Hp. assert (Hrun : running s = true) by (unfold running; now rewrite Hp).
  assert (Hcur : cur s = None) by (apply inv_nocur_phase; eauto 6).
  dinv H. apply attempt_inv. constructor; auto.
  - rewrite Io. unfold cur_list. now rewrite Hcur.
  - rewrite It, Hrun. reflexivity.
Qed.

Lemma set_waiters_id s : set_waiters (waiters s ++ []) s = s.
Proof. rewrite app_nil_r. destruct s; reflexivity. Qed.

Lemma start_reconnecting_inv s : Inv s -> Inv (start_reconnecting s).
Proof.
  intros H. unfold start_reconnecting. destruct (connected s) eqn:Ec; [exact H|].
  rewrite <- (set_waiters_id s) at 1. apply restart_inv; [exact H|exact Ec|intros w d []].
Qed.

Lemma reconnect_soon_inv s : Inv s -> Inv (reconnect_soon s).
Proof.
  intros H. unfold reconnect_soon. destruct (ph s) eqn:Ep; try (now apply start_reconnecting_inv).
  eapply attempt_from_sleep; eauto.
Qed.

Ltac fin :=
  inv_tac; try congruence; try discriminate; eauto;
  try (match goal with H : In _ [] |- _ => destruct H end).

Ltac fin2 :=
  ss; try congruence; try discriminate; eauto; try symmetry; eauto;
  try (match goal with H : In _ [] |- _ => destruct H end).

Lemma inv_cur_none_open s : Inv s -> cur s = None -> opn s = [].
Proof. intros H Hc. dinv H. rewrite Io. unfold cur_list. now rewrite Hc. Qed.

Lemma do_close_inv s : Inv s -> Inv (do_close s) /\ opn (do_close s) = [] /\ closing (do_close s) = true.
Proof.
  intros H. destruct (cur s) as [c|] eqn:Ecur.
  - destruct (inv_cur_cases s c H Ecur) as [Ho [[Hs [Hp|[u Hp]]]|[Hs (h & f & r & u & Hp & _)]]]; dinv H.
    + unfold do_close, stop_connector, running. ss. rewrite Hp.
      unfold drop_transport. ss. rewrite Ecur, Ho. cbn [mem_nat]. rewrite Nat.eqb_refl. ss.
      rewrite remove_nat_single. split; [|split; reflexivity].
      unfold running in *. rewrite Hp in *. fin; rewrite ?Hp in *; fin2.
    + unfold do_close, stop_connector, running. ss. rewrite Hp. ss.
      rewrite Ho. cbn [mem_nat]. rewrite Nat.eqb_refl. ss. rewrite remove_nat_single.
      unfold drop_transport. ss. rewrite Ecur. cbn [mem_nat]. ss.
      unfold finish, resolve_waiters. ss. split; [|split; reflexivity].
      unfold running in *. rewrite Hp in *. fin; rewrite ?Hp in *; fin2; try (rewrite It; reflexivity).
    + (* close()/shutdown() while the pair-verify request is in flight: the cancelled connector
         closes its transport (_send_lines, then _drop_transport in _reconnect) *)
      unfold do_close, stop_connector, running. ss. rewrite Hp. ss.
      unfold drop_transport. ss. rewrite Ecur, Ho. cbn [mem_nat]. rewrite Nat.eqb_refl. ss.
      rewrite remove_nat_single.
      unfold finish, resolve_waiters. ss. split; [|split; reflexivity].
      unfold running in *. rewrite Hp in *. fin; rewrite ?Hp in *; fin2; try (rewrite It; reflexivity).
  - pose proof (inv_cur_none_open s H Ecur) as Ho. dinv H.
    destruct (ph s) eqn:Ep;
      try (match goal with Hp : ph s = PPost ?c ?u |- _ => rewrite (Ip c u eq_refl) in Ecur; discriminate end);
      try (match goal with Hp : ph s = PVerify _ _ _ _ _ |- _ =>
             destruct (Iv _ _ _ _ _ Hp) as [Hx _]; rewrite Hx in Ecur; discriminate end);
      unfold do_close, stop_connector, running, drop_transport, finish, resolve_waiters; ss; rewrite ?Ep; ss;
      rewrite ?Ecur; ss; rewrite ?Ecur; ss;
      (split; [|split; [assumption || reflexivity|reflexivity]]);
      unfold running in *; rewrite ?Ep in *; fin; rewrite ?Ep in *; fin2; try (rewrite It; reflexivity).
    all: try (destruct (waiters s); [reflexivity|exfalso; assert (false = true) by (apply Iw; discriminate); discriminate]).
Qed.

Lemma lose_current_inv reset c s : Inv s -> cur s = Some c -> Inv (lose_current reset c s).
Proof.
  intros H Ecur.
  destruct (inv_cur_cases s c H Ecur) as [Ho [[Hs [Hp|[u Hp]]]|[Hs (h & f & r & u & Hp & _)]]]; dinv H.
  - (* steady state: the connection in use is lost *)
    unfold lose_current. cbv zeta. ss. rewrite Hp. rewrite Ho, remove_nat_single.
    assert (Hrun : running s = false) by (unfold running; now rewrite Hp).
    destruct (closing s) eqn:Ecl.
    + unfold running in *. rewrite Hp in *. fin; rewrite ?Hp in *; fin2.
    + apply start_from; ss; auto;
        try (unfold running; ss; now rewrite Hp); try (rewrite It, Hrun; reflexivity).
  - (* lost while the connector is inside owner.connection_made(True) *)
    assert (Hrun : running s = true) by (unfold running; now rewrite Hp).
    unfold lose_current. cbv zeta. ss. rewrite Hp. rewrite Ho, remove_nat_single.
    destruct reset.
    + apply backoff_inv. constructor; ss; auto; try (rewrite It, Hrun; reflexivity).
    + unfold finish, resolve_waiters. ss.
      rewrite (Ir Hrun).
      apply start_from; ss; auto;
        try (rewrite It, Hrun; reflexivity); try (unfold wait_ok; ss; intros w d []).
  - (* lost while its pair-verify request is in flight: the request fails, the connector backs off *)
    assert (Hrun : running s = true) by (unfold running; now rewrite Hp).
    unfold lose_current. cbv zeta. ss. rewrite Hp. rewrite Ho, remove_nat_single.
    apply backoff_inv. constructor; ss; auto; try (rewrite It, Hrun; reflexivity).
Qed.

Lemma emit_inv e s : Inv s -> Inv (emit e s).
Proof. intros H. dinv H. unfold running in *. fin. Qed.

Lemma set_desc_inv hs s : Inv s -> Inv (set_desc hs s).
Proof. intros H. dinv H. unfold running in *. fin. Qed.

Lemma set_shut_inv b s : Inv s -> Inv (set_shut b s).
Proof. intros H. dinv H. unfold running in *. fin. Qed.

Lemma set_ploss_inv b s : Inv s -> Inv (set_ploss b s).
Proof. intros H. dinv H. unfold running in *. fin. Qed.

Lemma remove_waiter_In w w' d l : In (w', d) (remove_waiter w l) -> In (w', d) l.
Proof. unfold remove_waiter. intros H. apply filter_In in H. tauto. Qed.

Lemma remove_waiter_inv w s : Inv s -> Inv (set_waiters (remove_waiter w (waiters s)) s).
Proof.
  intros H. dinv H. unfold running in *. fin.
  - apply Iw. intros E. rewrite E in *. cbn in *. congruence.
  - eapply Iwd. eapply remove_waiter_In. eassumption.
Qed.

Lemma drop_inv reset c s : Inv s -> mem_nat c (opn s) = true ->
  Inv match cur s with
      | Some c' => if Nat.eqb c c' then lose_current reset c s
                   else emit (EvClosed c) (set_opn (remove_nat c (opn s)) s)
      | None => emit (EvClosed c) (set_opn (remove_nat c (opn s)) s)
      end.
Proof.
  intros H Hm. destruct (cur s) as [c'|] eqn:Ecur.
  - destruct (inv_cur_cases s c' H Ecur) as [Ho _]. rewrite Ho in Hm. cbn in Hm.
    destruct (Nat.eqb_spec c c') as [->|]; [|discriminate].
    now apply lose_current_inv.
  - rewrite (inv_cur_none_open s H Ecur) in Hm. discriminate.
Qed.

Lemma apply_control_inv c s : Inv s -> Inv (apply_control c s).
Proof.
  intros H. unfold apply_control. pose proof (emit_inv (EvControl c) s H) as He.
  destruct c as [w|w|hs| |c|c| | |v].
  - destruct (shut (emit (EvControl (Ensure w)) s) || connected (emit (EvControl (Ensure w)) s)) eqn:E.
    + now apply emit_inv.
    + apply orb_false_iff in E. destruct E as [_ E].
      apply restart_inv; [exact He|exact E|].
      intros w' d [Hx|[]]. injection Hx as <- <-. ss. unfold TEN_S. lia.
  - destruct (has_waiter w (waiters (emit (EvControl (Cancel w)) s))); [|exact He].
    apply emit_inv. now apply remove_waiter_inv.
  - destruct (shut (emit (EvControl (Zeroconf hs)) s)); [exact He|].
    apply reconnect_soon_inv. now apply set_desc_inv.
  - now apply reconnect_soon_inv.
  - destruct (mem_nat c (opn (emit (EvControl (Drop c)) s))) eqn:Em; [|exact He].
    now apply drop_inv.
  - destruct (mem_nat c (opn (emit (EvControl (DropReset c)) s))) eqn:Em; [|exact He].
    now apply drop_inv.
  - apply emit_inv. now apply do_close_inv.
  - apply emit_inv. apply do_close_inv. now apply set_shut_inv.
  - destruct (connected _ && negb (running _)); [|exact He].
    destruct (cur (emit (EvControl (BadReply v)) s)) as [c|] eqn:Ec; [|exact He].
    now apply lose_current_inv.
Qed.

(* ---------- timers ---------- *)
Lemma min_waiter_spec l :
  match min_waiter l with
  | Some (w, t) => In (w, t) l /\ forall w' d, In (w', d) l -> (t <= d)%N
  | None => l = []
  end.
Proof.
  induction l as [|[w0 d0] r IH]; [reflexivity|].
  cbn [min_waiter]. destruct (min_waiter r) as [[w1 t1]|].
  - destruct IH as [Hin Hmin]. cbn [snd]. destruct (N.leb_spec d0 t1).
    + split; [now left|]. intros w' d [Hx|Hx]; [injection Hx as <- <-; lia|]. specialize (Hmin _ _ Hx). lia.
    + split; [now right|]. intros w' d [Hx|Hx]; [injection Hx as <- <-; lia|]. now apply (Hmin w').
  - subst r. split; [now left|]. intros w' d [Hx|[]]. injection Hx as <- <-. lia.
Qed.

Lemma next_timer_spec s x : next_timer s = Some x ->
  (forall w d, In (w, d) (waiters s) -> (timer_time x <= d)%N) /\
  (forall p, phase_timer s = Some p -> (timer_time x <= p)%N) /\
  match x with
  | TWaiter w t => In (w, t) (waiters s)
  | TPhase t => phase_timer s = Some t
  end.
Proof.
  unfold next_timer. pose proof (min_waiter_spec (waiters s)) as Hm.
  destruct (min_waiter (waiters s)) as [[w t]|]; destruct (phase_timer s) as [p|]; intros Hx.
  - destruct Hm as [Hin Hmin]. destruct (N.leb_spec t p); injection Hx as <-; cbn [timer_time].
    + split; [exact Hmin|]. split; [|exact Hin]. intros p' Hp. injection Hp as <-. lia.
    + split; [|split; [|reflexivity]].
      * intros w' d Hd. specialize (Hmin _ _ Hd). lia.
      * intros p' Hp. injection Hp as <-. lia.
  - destruct Hm as [Hin Hmin]. injection Hx as <-. cbn [timer_time].
    split; [exact Hmin|]. split; [intros p' Hp; discriminate|exact Hin].
  - injection Hx as <-. cbn [timer_time]. rewrite Hm.
    split; [intros w' d []|]. split; [|reflexivity]. intros p' Hp. injection Hp as <-. lia.
  - discriminate.
Qed.

Lemma set_now_inv t s :
  Inv s -> (now s <= t)%N ->
  (forall w d, In (w, d) (waiters s) -> (t <= d)%N) ->
  (forall p, phase_timer s = Some p -> (t <= p)%N) ->
  Inv (set_now t s).
Proof.
  intros H Hle Hw Hp. dinv H. unfold running in *. fin.
  - destruct (Iv _ _ _ _ _ H) as (H1 & H2 & H3 & H4 & H5). repeat split; auto. lia.
  - destruct (Is _ H) as [H1 H2]. split; [exact H1|lia].
  - destruct (Id _ _ _ H) as [H1 H2]. split; [lia|exact H2].
  - destruct (Iwd _ _ H) as [H1 H2]. specialize (Hw _ _ H). split; lia.
Qed.

Lemma fire_inv x s : Inv s -> next_timer s = Some x -> Inv (fire x s).
Proof.
  intros H Hx. destruct (next_timer_spec s x Hx) as [Hw [Hp Hk]].
  assert (Hnow : (now s <= timer_time x)%N).
  { destruct x as [w t|t]; cbn [timer_time] in *.
    - dinv H. now destruct (Iwd _ _ Hk).
    - dinv H. now apply Ipt. }
  pose proof (set_now_inv (timer_time x) s H Hnow Hw Hp) as H1.
  unfold fire. destruct x as [w t|t]; cbn [timer_time] in *.
  - apply emit_inv. now apply remove_waiter_inv.
  - unfold phase_timer in Hk. ss.
    destruct (ph s) as [|rest dl fhc|vc vh vf vr vu|c u|wk| | |] eqn:Ep; try discriminate; injection Hk as ->.
    + (* a hanging dial round times out: next round *)
      assert (Hcur : cur (set_now t s) = None).
      { apply inv_nocur_phase; [exact H1|]. ss. eauto 10. }
      assert (Hrun : running (set_now t s) = true) by (unfold running; ss; now rewrite Ep).
      assert (H1' := H1). dinv H1'. ss.
      destruct (Id _ _ _ Ep) as [_ [Hlen [Hincl Hsec]]].
      apply rounds_inv; ss; auto.
      * constructor; ss; auto.
        -- rewrite Io. unfold cur_list. ss. now rewrite Hcur.
        -- rewrite It, Hrun. reflexivity.
      * intros h Hh s'' HC Hh' Hd' _ _ _. apply attempt_loop_inv; [exact HC|].
        pose proof (need_lt_fuel s'') as Hn. unfold fuel_of in *. ss. rewrite Hh', Hd' in Hn. exact Hn.
    + (* the decisive pair-verify answer arrives, or the 30 s request timeout fires *)
      assert (Hrun : running (set_now t s) = true) by (unfold running; ss; now rewrite Ep).
      assert (H1' := H1). dinv H1'. ss.
      destruct (Iv _ _ _ _ _ Ep) as (Hcur & Hsec & Hin & Hlen & _).
      apply verify_done_inv; ss; auto.
      * rewrite Io. unfold cur_list. ss. now rewrite Hcur.
      * rewrite It, Hrun. reflexivity.
      * intros s'' HC Hh' Hd' _ _ _. apply attempt_loop_inv; [exact HC|].
        pose proof (need_lt_fuel s'') as Hn. unfold fuel_of in *. ss. rewrite Hh', Hd' in Hn. exact Hn.
    + (* the re-subscribe round trip completes: the connector is done - or the accessory drops the
         connection instead of answering (scripted loss = the control event Drop / DropReset) *)
      destruct (ploss s) as [reset|] eqn:El.
      { apply lose_current_inv; [exact H1|]. assert (H1' := H1). dinv H1'. ss. exact (Ip _ _ Ep). }
      assert (Hrun : running (set_now t s) = true) by (unfold running; ss; now rewrite Ep).
      assert (H1' := H1). dinv H1'. ss.
      pose proof (Ip _ _ Ep) as Hcur.
      destruct (Ic _ Hcur) as [[Hsec _]|(h' & f' & r' & u' & Hxx)]; [|congruence].
      eapply finish_ok_connected_inv; ss; eauto.
      * rewrite Io. unfold cur_list. ss. now rewrite Hcur.
      * rewrite It, Hrun. reflexivity.
    + (* the back-off sleep ends: next attempt *)
      eapply attempt_from_sleep; [exact H1|]. ss. exact Ep.
Qed.

Lemma advance_inv : forall f t s, Inv s -> Inv (advance f t s).
Proof.
  induction f as [|f IH]; intros t s H.
  - cbn [advance]. dinv H. unfold running in *. fin.
  - cbn [advance]. destruct (next_timer s) as [x|] eqn:Ex.
    + destruct (next_timer_spec s x Ex) as [Hw [Hp _]].
      destruct (N.ltb_spec (timer_time x) t).
      * apply IH. now apply fire_inv.
      * assert (Hgen : forall s', Inv s' -> now s' = now s -> waiters s' = waiters s -> ph s' = ph s ->
                                  Inv (set_now (N.max t (now s)) s')).
        { intros s' H' Hn Hws Hph. apply set_now_inv; [exact H'|lia| |].
          - rewrite Hws. intros w d Hd. specialize (Hw _ _ Hd).
            dinv H. destruct (Iwd _ _ Hd). lia.
          - unfold phase_timer. rewrite Hph. intros p Hp'. specialize (Hp _ Hp').
            dinv H. specialize (Ipt _ Hp'). lia. }
        destruct (N.eqb (timer_time x) t).
        -- apply Hgen; ss; auto. dinv H. unfold running in *. fin.
        -- now apply Hgen.
    + unfold next_timer in Ex. pose proof (min_waiter_spec (waiters s)) as Hm.
      destruct (min_waiter (waiters s)) as [[w d]|];
        [destruct (phase_timer s); [destruct (N.leb _ _)|]; discriminate|].
      destruct (phase_timer s) eqn:Ept; [discriminate|].
      apply set_now_inv; [exact H|lia| |].
      * rewrite Hm. intros w d [].
      * intros p Hp'. congruence.
Qed.

Lemma snap_inv b s : Inv s -> Inv (snap b s).
Proof. intros H. unfold snap. now apply emit_inv. Qed.

Lemma step_inv tc s : Inv s -> Inv (step tc s).
Proof. intros H. unfold step. apply apply_control_inv, snap_inv, advance_inv, H. Qed.

Lemma init_inv hs sb ds vs : Inv (init hs sb ds vs).
Proof.
  unfold init. constructor; cbn; intros; try congruence; try discriminate; auto.
  all: try (match goal with H : False |- _ => destruct H end).
  all: try (apply incl_nil_l).
  intros w d [].
Qed.

Theorem run_inv hs sb ds vs controls end_ : Inv (run hs sb ds vs controls end_).
Proof.
  unfold run. apply snap_inv, advance_inv.
  assert (Hgen : forall cs s, Inv s -> Inv (fold_left (fun s tc => step tc s) cs s)).
  { induction cs as [|tc cs IH]; intros s H; [exact H|]. cbn [fold_left]. apply IH. now apply step_inv. }
  apply Hgen, init_inv.
Qed.

(* ---------- reachable states ---------- *)
Definition reachable (s : st) : Prop :=
  exists hs sb ds vs cs, s = fold_left (fun s tc => step tc s) cs (init hs sb ds vs).

Lemma fold_step_inv cs s : Inv s -> Inv (fold_left (fun s tc => step tc s) cs s).
Proof. revert s. induction cs as [|tc cs IH]; intros s H; [exact H|]. cbn [fold_left]. apply IH. now apply step_inv. Qed.

Theorem reachable_inv s : reachable s -> Inv s.
Proof. intros (hs & sb & ds & vs & cs & ->). apply fold_step_inv, init_inv. Qed.

(* between controls too: any amount of internal timer processing *)
Theorem reachable_advance_inv s f t : reachable s -> Inv (advance f t s).
Proof. intros H. apply advance_inv. now apply reachable_inv. Qed.

(* ---------- consequences used by the property theorems ---------- *)
Lemma inv_open_le_1 s : Inv s -> length (opn s) <= 1 /\ opn s = cur_list s.
Proof. intros H. dinv H. split; [|exact Io]. rewrite Io. unfold cur_list. destruct (cur s); cbn; lia. Qed.

Lemma inv_failed_closed s : Inv s ->
  (ph s = PNone \/ ph s = PDoneAuth \/ ph s = PCancelled \/
   (exists w, ph s = PSleep w) \/ (exists r d f, ph s = PDial r d f)) -> opn s = [] /\ cur s = None.
Proof.
  intros H Hp. assert (Hc : cur s = None) by (now apply inv_nocur_phase).
  split; [now apply inv_cur_none_open|exact Hc].
Qed.

(* while a pair-verify request is in flight its connection is the only open one, it is the current
   one, not secure; the connector task is alive and the timer ends the wait within 30 s *)
Lemma inv_verify_in_flight s c h f r u : Inv s -> ph s = PVerify c h f r u ->
  opn s = [c] /\ cur s = Some c /\ secure s = false /\ connected s = false /\
  running s = true /\ ntasks s = 1 /\ closing s = false /\ (now s <= u <= now s + THIRTY_S)%N.
Proof.
  intros H Hp. assert (Hr : running s = true) by (unfold running; now rewrite Hp).
  dinv H. destruct (Iv _ _ _ _ _ Hp) as (Hc & Hs & _ & _ & Hu).
  repeat split; auto.
  - rewrite Io. unfold cur_list. now rewrite Hc.
  - unfold connected. now rewrite Hc.
  - rewrite It, Hr. reflexivity.
  - apply Ipt. unfold phase_timer. now rewrite Hp.
Qed.

Lemma inv_verify_alive s c h f r u : Inv s -> ph s = PVerify c h f r u ->
  running s = true /\ ntasks s = 1 /\ closing s = false /\ connected s = false /\
  (now s <= u <= now s + THIRTY_S)%N.
Proof.
  intros H Hp. destruct (inv_verify_in_flight _ _ _ _ _ _ H Hp) as (_ & _ & _ & H4 & H5 & H6 & H7 & H8).
  repeat split; auto; apply H8.
Qed.

Lemma inv_verify_open s c h f r u : Inv s -> ph s = PVerify c h f r u ->
  opn s = [c] /\ cur s = Some c /\ secure s = false /\ connected s = false.
Proof.
  intros H Hp. destruct (inv_verify_in_flight _ _ _ _ _ _ H Hp) as (H1 & H2 & H3 & H4 & _). auto.
Qed.

(* the timer of an in-flight pair-verify: a request that is never answered in time (r = None), an
   answer of class "other" or an authentication error all close the connection; the first two are
   followed by the back-off sleep (0.75 s .. 60 s), so a silent accessory cannot stall the connector *)
Lemma verify_failed_closed s c h f r u : Inv s -> ph s = PVerify c h f r u ->
  match r with
  | None => True
  | Some (k, _) => vclass_of k = KOther
  end ->
  let s' := fire (TPhase u) s in
  opn s' = [] /\ cur s' = None /\ ntasks s' = 1 /\ excl s' = [] /\
  exists w, ph s' = PSleep w /\ (u + 3072 <= w <= u + SIXTY_S)%N.
Proof.
  intros H Hp Hr. cbv zeta.
  destruct (inv_verify_in_flight _ _ _ _ _ _ H Hp) as (Ho & Hc & _ & _ & _ & Ht & _ & _).
  assert (E : fire (TPhase u) s = fail_other (set_now u s)).
  { unfold fire. cbn [timer_time]. ss. rewrite Hp. unfold verify_done.
    destruct r as [[k d]|]; [|reflexivity]. now rewrite Hr. }
  rewrite E. unfold fail_other, drop_transport, backoff. ss. rewrite Hc, Ho. cbn [mem_nat]. rewrite Nat.eqb_refl. ss.
  rewrite remove_nat_single. repeat split; auto.
  eexists. split; [reflexivity|]. pose proof (sleep_ticks_bounds (S (nfail s))). lia.
Qed.

Lemma verify_auth_closed s c h f d u k : Inv s -> ph s = PVerify c h f (Some (k, d)) u -> vclass_of k = KAuth ->
  let s' := fire (TPhase u) s in
  opn s' = [] /\ cur s' = None /\ ntasks s' = 0 /\ ph s' = PDoneAuth /\ waiters s' = [].
Proof.
  intros H Hp Hk. cbv zeta.
  destruct (inv_verify_in_flight _ _ _ _ _ _ H Hp) as (Ho & Hc & _ & _ & _ & Ht & _ & _).
  unfold fire. cbn [timer_time]. ss. rewrite Hp. unfold verify_done. rewrite Hk.
  unfold drop_transport, finish, resolve_waiters. ss. rewrite Hc, Ho. cbn [mem_nat]. rewrite Nat.eqb_refl. ss.
  rewrite remove_nat_single, Ht. repeat split; reflexivity.
Qed.

(* a wrong-pairing-id answer: the connection is closed BEFORE the connector moves on - to the next
   address without back-off (cont) or to the back-off sleep *)
Lemma verify_wrongid_closed cont s c h f d k :
  cur s = Some c -> opn s = [c] -> vclass_of k = KWrong ->
  exists s1, opn s1 = [] /\ cur s1 = None /\
    (verify_done cont f h c (Some (k, d)) s = cont (set_imm (S (imm s1)) s1) \/
     verify_done cont f h c (Some (k, d)) s = backoff s1).
Proof.
  intros Hc Ho Hk. unfold verify_done. rewrite Hk.
  set (s1 := drop_transport (set_excl (if mem_nat h (excl s) then excl s else excl s ++ [h]) s)).
  exists s1. assert (E : opn s1 = [] /\ cur s1 = None).
  { unfold s1, drop_transport. ss. rewrite Hc, Ho. cbn [mem_nat]. rewrite Nat.eqb_refl. ss.
    rewrite remove_nat_single. split; reflexivity. }
  destruct E as [E1 E2]. split; [exact E1|]. split; [exact E2|].
  destruct ((f <? length (excl s1)) && negb (subset_nat (hosts s1) (excl s1))); [left|right]; reflexivity.
Qed.

Lemma inv_one_connector s : Inv s -> ntasks s <= 1.
Proof. intros H. dinv H. rewrite It. destruct (running s); lia. Qed.

Lemma filter_not_in_nil (hs : list nat) : filter (fun h => negb (mem_nat h [])) hs = hs.
Proof. induction hs as [|h r IH]; [reflexivity|]. cbn [filter mem_nat negb]. f_equal. exact IH. Qed.

(* stale loss: a connection that is not open (already abandoned and closed) changes nothing *)
Lemma stale_drop_noop c s : mem_nat c (opn s) = false ->
  apply_control (Drop c) s = emit (EvControl (Drop c)) s /\
  apply_control (DropReset c) s = emit (EvControl (DropReset c)) s.
Proof. intros H. unfold apply_control. ss. rewrite H. split; reflexivity. Qed.

Lemma close_total s : Inv s ->
  let s' := apply_control Close s in
  Inv s' /\ opn s' = [] /\ closing s' = true /\ hd_error (trace s') = Some (now s', EvReturned false).
Proof.
  intros H. cbv zeta. unfold apply_control.
  destruct (do_close_inv (emit (EvControl Close) s) (emit_inv _ _ H)) as [H1 [H2 H3]].
  split; [now apply emit_inv|]. ss. split; [exact H2|]. split; [exact H3|reflexivity].
Qed.

Lemma running_emit e s : running (emit e s) = running s.
Proof. reflexivity. Qed.

Lemma shut_drop_transport s : shut (drop_transport s) = shut s.
Proof. unfold drop_transport. destruct (cur s); [|reflexivity]. destruct (mem_nat _ _); reflexivity. Qed.

Lemma shut_finish p s : shut (finish p s) = shut s.
Proof. unfold finish. destruct p; reflexivity. Qed.

Lemma shut_do_close s : shut (do_close s) = shut s.
Proof.
  unfold do_close. cbn [shut set_secure]. rewrite shut_drop_transport. unfold stop_connector.
  destruct (running _); [|reflexivity]. rewrite shut_finish, shut_drop_transport.
  destruct (ph _); try reflexivity. destruct (mem_nat _ _); reflexivity.
Qed.

Lemma shutdown_total s : Inv s ->
  let s' := apply_control Shutdown s in
  Inv s' /\ opn s' = [] /\ closing s' = true /\ shut s' = true /\ running s' = false.
Proof.
  intros H. cbv zeta. unfold apply_control.
  set (s0 := set_shut true (emit (EvControl Shutdown) s)).
  destruct (do_close_inv s0 (set_shut_inv _ _ (emit_inv _ _ H))) as [H1 [H2 H3]].
  split; [now apply emit_inv|]. split; [exact H2|]. split; [exact H3|].
  split; [change (shut (do_close s0) = true); rewrite shut_do_close; reflexivity|].
  rewrite running_emit.
  destruct (running (do_close s0)) eqn:Er; [|reflexivity].
  dinv H1. specialize (Ir Er). congruence.
Qed.

(* a scripted loss (verify outcomes okfin / okrst) is exactly the loss event of the controls Drop / DropReset *)
Lemma scripted_loss_fire s c u reset :
  ph s = PPost c u -> ploss s = Some reset -> fire (TPhase u) s = lose_current reset c (set_now u s).
Proof. intros Hp Hl. unfold fire. cbn [timer_time]. ss. rewrite Hp, Hl. reflexivity. Qed.

(* ---------- after shutdown nothing is attempted any more ---------- *)
Fixpoint count_dials (tr : list (N * ev)) : nat :=
  match tr with
  | [] => 0
  | (_, EvDial _ _) :: r => S (count_dials r)
  | _ :: r => count_dials r
  end.

Definition Quiet (s : st) : Prop :=
  shut s = true /\ closing s = true /\ running s = false /\ waiters s = [] /\ opn s = [] /\ cur s = None.

(* the pairing-level API; reconnect_soon() on the connection object itself is excluded *)
Definition pairing_level (c : control) : bool := match c with Soon => false | _ => true end.

Lemma quiet_next_timer s : Quiet s -> next_timer s = None.
Proof.
  intros (_ & _ & Hr & Hw & _ & _). unfold next_timer, phase_timer. rewrite Hw. cbn [min_waiter].
  unfold running in Hr. destruct (ph s); try discriminate; reflexivity.
Qed.

Lemma quiet_advance f t s : Quiet s ->
  Quiet (advance f t s) /\ trace (advance f t s) = trace s.
Proof.
  intros Q. destruct f as [|f]; cbn [advance].
  - unfold Quiet, running in *. ss. split; [exact Q|reflexivity].
  - rewrite (quiet_next_timer s Q). unfold Quiet, running in *. ss. split; [exact Q|reflexivity].
Qed.

Lemma idle_do_close s : running s = false -> cur s = None ->
  do_close s = set_secure false (set_closing true s).
Proof.
  intros Hr Hc. unfold do_close, stop_connector. unfold running in *. ss. rewrite Hr.
  unfold drop_transport. ss. rewrite Hc. reflexivity.
Qed.

Lemma quiet_control c s : Quiet s -> pairing_level c = true ->
  Quiet (apply_control c s) /\ count_dials (trace (apply_control c s)) = count_dials (trace s).
Proof.
  intros (Hs & Hc & Hr & Hw & Ho & Hcu) Hp. unfold running in Hr.
  destruct c as [w|w|hs| |c|c| | |v]; try discriminate; unfold apply_control; ss.
  - rewrite Hs. cbn [orb]. unfold Quiet, running. ss. repeat split; auto.
  - rewrite Hw. cbn [has_waiter existsb]. unfold Quiet, running. ss. repeat split; auto.
  - rewrite Hs. unfold Quiet, running. ss. repeat split; auto.
  - rewrite Ho. cbn [mem_nat]. unfold Quiet, running. ss. repeat split; auto.
  - rewrite Ho. cbn [mem_nat]. unfold Quiet, running. ss. repeat split; auto.
  - rewrite idle_do_close by (unfold running; ss; auto). unfold Quiet, running. ss. repeat split; auto.
  - rewrite idle_do_close by (unfold running; ss; auto). unfold Quiet, running. ss. repeat split; auto.
  - unfold connected. ss. rewrite Hcu. cbn [andb]. unfold Quiet, running. ss. repeat split; auto.
Qed.

Lemma quiet_step tc s : Quiet s -> pairing_level (snd tc) = true ->
  Quiet (step tc s) /\ count_dials (trace (step tc s)) = count_dials (trace s).
Proof.
  intros Q Hp. unfold step.
  destruct (quiet_advance (advance_fuel (fst tc) s) (fst tc) s Q) as [Q1 T1].
  assert (Q2 : Quiet (snap false (advance (advance_fuel (fst tc) s) (fst tc) s))).
  { unfold snap, Quiet, running in *. ss. exact Q1. }
  destruct (quiet_control (snd tc) _ Q2 Hp) as [Q3 T3].
  split; [exact Q3|]. rewrite T3. unfold snap. ss. rewrite T1. reflexivity.
Qed.

Theorem quiet_forever cs s :
  Quiet s -> forallb (fun tc => pairing_level (snd tc)) cs = true ->
  let s' := fold_left (fun s tc => step tc s) cs s in
  Quiet s' /\ count_dials (trace s') = count_dials (trace s).
Proof.
  revert s. induction cs as [|tc cs IH]; intros s Q Hall; cbv zeta; cbn [fold_left]; [split; [exact Q|reflexivity]|].
  cbn [forallb] in Hall. apply andb_true_iff in Hall. destruct Hall as [H1 H2].
  destruct (quiet_step tc s Q H1) as [Q1 T1].
  destruct (IH _ Q1 H2) as [Q2 T2]. split; [exact Q2|]. rewrite T2. exact T1.
Qed.

Lemma shutdown_quiet s : Inv s -> Quiet (apply_control Shutdown s).
Proof.
  intros H. destruct (shutdown_total s H) as (H1 & H2 & H3 & H4 & H5).
  unfold Quiet. repeat split; auto.
  - dinv H1. destruct (waiters (apply_control Shutdown s)) eqn:E; [reflexivity|].
    assert (X : running (apply_control Shutdown s) = true) by (apply Iw; discriminate). congruence.
  - destruct (inv_open_le_1 _ H1) as [_ Ho]. rewrite H2 in Ho. unfold cur_list in Ho.
    destruct (cur (apply_control Shutdown s)); [discriminate|reflexivity].
Qed.
