(* C09 extension - histories: every request of every history is the canonical
   request naming the peer of the connection that is up, handed over in one call *)
From Coq Require Import List NArith ZArith Arith Bool Lia ZifyN ZifyNat ZifyBool String.
From AHK Require Import Lib.Res Lib.ByteStr Model.Request Model.RequestSession
  Proofs.RequestLib Proofs.RequestParse.
Import ListNotations.
Local Open Scope N_scope.

Lemma render_with_host method target hs body h :
  render_with method target hs body (host_header h) = render method target hs body h.
Proof. reflexivity. Qed.

Lemma request_bytes_host m t b h :
  request_bytes m t b (host_header h) = render_req (mkReq m t h b).
Proof. unfold request_bytes, render_req. cbn [r_meth r_target r_host r_body]. destruct b as [[ct body]|]; reflexivity. Qed.

(* ------------------------------------------------------------------ chunking *)
Lemma chunks_f_concat F : (0 < F)%nat -> forall fuel v,
  (List.length v <= fuel)%nat -> List.concat (chunks_f fuel F v) = v.
Proof.
  intros HF. induction fuel as [|f IH]; intros v Hl.
  - destruct v; [reflexivity|cbn in Hl; lia].
  - cbn [chunks_f]. destruct v as [|b v']; [reflexivity|].
    cbn [List.concat]. rewrite IH.
    + apply firstn_skipn.
    + rewrite skipn_length. cbn [List.length] in *. lia.
Qed.

Lemma chunks_concat F v : (0 < F)%nat -> List.concat (chunks F v) = v.
Proof. intros HF. unfold chunks. now apply chunks_f_concat. Qed.

Lemma chunks_f_sizes F : (0 < F)%nat -> forall fuel v,
  Forall (fun c => (0 < List.length c <= F)%nat) (chunks_f fuel F v).
Proof.
  intros HF. induction fuel as [|f IH]; intros v; cbn [chunks_f]; [constructor|].
  destruct v as [|b v']; [constructor|]. constructor; [|apply IH].
  rewrite firstn_length. cbn [List.length]. lia.
Qed.

Lemma chunks_sizes F v : (0 < F)%nat -> Forall (fun c => (0 < List.length c <= F)%nat) (chunks F v).
Proof. intros HF. apply chunks_f_sizes; assumption. Qed.

(* all chunks but the last are full *)
Lemma chunks_f_full F : (0 < F)%nat -> forall fuel v c r pre,
  chunks_f fuel F v = pre ++ c :: r -> r <> [] -> List.length c = F.
Proof.
  intros HF. induction fuel as [|f IH]; intros v c r pre E Hr; cbn [chunks_f] in E.
  - destruct pre; discriminate.
  - destruct v as [|b v']; [destruct pre; discriminate|].
    destruct pre as [|p pre'].
    + cbn in E. inversion E as [[E1 E2]]. subst r.
      destruct f as [|f']; [cbn in Hr; congruence|]. cbn [chunks_f] in Hr.
      destruct (skipn F (b :: v')) as [|x xs] eqn:Es; [congruence|].
      rewrite firstn_length.
      assert (F < List.length (b :: v'))%nat.
      { destruct (Nat.lt_ge_cases F (List.length (b :: v'))) as [L|G]; [exact L|].
        rewrite skipn_all2 in Es by exact G. discriminate. }
      lia.
    + cbn in E. inversion E as [[E1 E2]]. eapply IH; eassumption.
Qed.

Section WireFacts.
  Variable F : nat.
  Hypothesis HF : (0 < F)%nat.
  Variable seal : N -> bytes -> bytes -> bytes.

  Lemma frames_length ctr cs : List.length (frames seal ctr cs) = (2 * List.length cs)%nat.
  Proof. revert ctr; induction cs as [|c r IH]; intros ctr; cbn [frames List.length]; [reflexivity|]. rewrite IH. lia. Qed.

  (* the hand-off: one call; secure = frames of the 1..F-byte chunks that concatenate to the payload *)
  Lemma send_connected c payload :
    c_proto c <> None ->
    exists c' chunks, send F seal c payload = (c', [OCall payload chunks]) /\ c_proto c' = c_proto c
      /\ c_connected c' = c_connected c /\ c_hostline c' = c_hostline c
      /\ match c_proto c with
         | Some Plain => chunks = [payload] /\ c' = c
         | Some Secure =>
             exists cs, chunks = frames seal (c_ctr c) cs /\ List.concat cs = payload
                        /\ Forall (fun x => (0 < List.length x <= F)%nat) cs
                        /\ (forall pre x r, cs = pre ++ x :: r -> r <> [] -> List.length x = F)
                        /\ c_ctr c' = c_ctr c + N.of_nat (List.length cs)
         | None => False
         end.
  Proof.
    intros Hp. unfold send. destruct (c_proto c) as [[|]|] eqn:E; [| |congruence].
    - exists c, [payload]. rewrite E. repeat split; reflexivity.
    - eexists. eexists. split; [reflexivity|]. cbn [c_proto c_connected c_hostline c_ctr].
      repeat split; try reflexivity.
      exists (chunks F payload). split; [reflexivity|]. split; [now apply chunks_concat|].
      split; [now apply chunks_sizes|]. split; [|reflexivity].
      intros pre x r Hc Hr. unfold chunks in Hc. eapply chunks_f_full; eassumption.
  Qed.

  Lemma send_disconnected c payload : c_proto c = None -> send F seal c payload = (c, [ORaise]).
  Proof. intros E. unfold send. now rewrite E. Qed.

  (* invariant of the machine against the history: when a protocol is installed, the stored
     Host line is the one of the peer the live connection was made to *)
  Definition inv (c : conn) (cur : option bytes) : Prop :=
    match c_proto c with
    | Some _ => exists h, cur = Some h /\ c_connected c = Some h /\ c_hostline c = Some (host_header h)
    | None => cur = None
    end.

  Lemma inv_init : inv conn_init None.
  Proof. reflexivity. Qed.

  Lemma run_spec evs : forall c cur,
    inv c cur -> map obs_payload (snd (run F seal c evs)) = spec cur evs.
  Proof.
    induction evs as [|e r IH]; intros c cur I; [reflexivity|].
    cbn [run]. destruct (step F seal c e) as [c1 o1] eqn:Es.
    destruct (run F seal c1 r) as [c2 o2] eqn:Er. cbn [snd]. rewrite map_app.
    assert (Hr : forall cur', inv c1 cur' -> map obs_payload o2 = spec cur' r).
    { intros cur' I'. specialize (IH c1 cur' I'). rewrite Er in IH. exact IH. }
    destruct e as [h| | | |m t b]; cbn [step] in Es.
    - inversion Es; subst. cbn [map List.app spec]. apply Hr. unfold inv. cbn. exists h. auto.
    - unfold inv in I. destruct (c_proto c) as [p|] eqn:Ep.
      + inversion Es; subst. cbn [map List.app spec]. apply Hr. unfold inv. cbn [c_proto c_connected c_hostline]. exact I.
      + inversion Es; subst. cbn [map List.app spec]. apply Hr. unfold inv. rewrite Ep. first [exact I | reflexivity].
    - inversion Es; subst. cbn [map List.app spec]. apply Hr. reflexivity.
    - inversion Es; subst. cbn [map List.app spec]. apply Hr. reflexivity.
    - unfold inv in I. destruct (c_proto c) as [p|] eqn:Ep.
      + destruct I as (h & -> & Hc & Hh). rewrite Hh in Es.
        destruct (send_connected c (request_bytes m t b (host_header h))) as (c' & ch & Hs & P1 & P2 & P3 & _);
          [rewrite Ep; discriminate|].
        rewrite Hs in Es. inversion Es; subst. cbn [map List.app spec obs_payload].
        rewrite request_bytes_host. f_equal. apply Hr. unfold inv. rewrite P1, Ep. exists h. rewrite P2, P3. auto.
      + subst cur. inversion Es; subst. cbn [map List.app spec obs_payload]. f_equal. apply Hr. unfold inv. now rewrite Ep.
  Qed.

  Lemma run_spec_init evs : map obs_payload (snd (run F seal conn_init evs)) = spec None evs.
  Proof. apply run_spec, inv_init. Qed.

  (* every observation that wrote something is exactly ONE transport call whose chunks are
     the hand-off of its payload in the state it was sent from: stated on the trace *)
  Lemma step_calls_ok c e : Forall (call_ok F seal) (snd (step F seal c e)).
  Proof.
    destruct e as [h| | | |m t b]; cbn [step].
    - constructor.
    - destruct (c_proto c); constructor.
    - constructor.
    - constructor.
    - destruct (c_proto c) as [p|] eqn:Ep; [|repeat constructor].
      destruct (c_hostline c) as [hl|]; [|repeat constructor].
      destruct (send_connected c (request_bytes m t b hl)) as (c' & ch & Hs & _ & _ & _ & Hk); [rewrite Ep; discriminate|].
      rewrite Hs. cbn [snd]. constructor; [|constructor]. cbn [call_ok]. rewrite Ep in Hk. destruct p.
      + left. now destruct Hk.
      + right. destruct Hk as (cs & H1 & H2 & H3 & _). exists (c_ctr c), cs. auto.
  Qed.

  Lemma run_calls_ok evs : forall c, Forall (call_ok F seal) (snd (run F seal c evs)).
  Proof.
    induction evs as [|e r IH]; intros c; cbn [run]; [constructor|].
    pose proof (step_calls_ok c e) as H1. destruct (step F seal c e) as [c1 o1]. cbn [snd] in H1.
    specialize (IH c1). destruct (run F seal c1 r) as [c2 o2]. cbn [snd] in *.
    apply Forall_app. split; assumption.
  Qed.
End WireFacts.

(* one observation per request() call of the history, whatever the history *)
Lemma spec_length evs : forall cur, List.length (spec cur evs) = count_req evs.
Proof.
  induction evs as [|e r IH]; intros cur; [reflexivity|].
  destruct e; cbn [spec count_req List.length]; try apply IH. now rewrite IH.
Qed.

Lemma run_length F seal evs : (0 < F)%nat ->
  List.length (snd (run F seal conn_init evs)) = count_req evs.
Proof.
  intros HF. rewrite <- (spec_length evs None), <- (run_spec_init F HF seal evs). now rewrite map_length.
Qed.

(* and every written request of a history parses, with the strict grammar, to a request
   whose host is the peer of the live connection *)
Lemma spec_parses evs : forall cur,
  Forall (fun o => match o with
                   | None => True
                   | Some bs => exists r, bs = render_req r /\ (wf_req r = true -> parse_req bs = Some r)
                   end) (spec cur evs).
Proof.
  induction evs as [|e r IH]; intros cur; [constructor|].
  destruct e as [h| | | |m t b]; cbn [spec]; try apply IH.
  constructor; [|apply IH]. destruct cur as [h|]; [|exact I].
  exists (mkReq m t h b). split; [reflexivity|]. apply parse_render_lemma.
Qed.

(* the Host line is a function of the PEER text alone (what getpeername reports,
   the argument of EConnect): bracketed iff that text contains ':' *)
Lemma host_header_peer h :
  host_header h = if mem_N 58 h then lit "Host: [" ++ h ++ lit "]" else lit "Host: " ++ h.
Proof. reflexivity. Qed.

Lemma host_header_parses_to_peer h : wf_host h = true -> parse_hostline (host_header h) = Some h.
Proof. apply parse_hostline_render. Qed.
