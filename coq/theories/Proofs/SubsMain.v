(* C12 - the statements of Props/C12.v, assembled from Proofs/Subs.v and Proofs/SubsStep.v. *)
From Coq Require Import List NArith ZArith Arith Bool Lia.
From AHK Require Import Model.Subs Proofs.Subs Proofs.SubsStep.
Import ListNotations.

Lemma reachable_run : forall raises h, reachable raises (fst (run raises h)).
Proof. intros. unfold run. apply reachable_run_from. constructor. Qed.

Lemma main_invariant : forall raises h,
    NoDup (subs (fst (run raises h))) /\ NoDup (lst (fst (run raises h))).
Proof. intros. apply (inv_reachable raises). apply reachable_run. Qed.

Lemma main_resubscribe_all : forall raises h rs s' o,
    let s := fst (run raises h) in
    conn s = false -> sup s = true ->
    step raises s (ConnUp rs) = (s', o) -> sup s' = true ->
    (forall c, In c (put_ids true o) <-> In c (subs s))
    /\ put_ids false o = []
    /\ (forall l, In l (lst s) -> calls_of l o = [[]])
    /\ (forall l, ~ In l (lst s) -> calls_of l o = [])
    /\ conn s' = true /\ subs s' = subs s /\ lst s' = lst s.
Proof.
  intros raises h rs s' o s HC HS Hstep Hs'.
  apply (resubscribe_all_l raises s rs s' o); try assumption.
  apply (inv_reachable raises). apply reachable_run.
Qed.

Lemma main_connup_fallback : forall raises h rs s' o,
    let s := fst (run raises h) in
    conn s = false -> sup s = false ->
    step raises s (ConnUp rs) = (s', o) ->
    put_ids true o = [] /\ put_ids false o = []
    /\ (forall l, In l (lst s) -> calls_of l o = [[]])
    /\ conn s' = true /\ subs s' = subs s /\ sup s' = false.
Proof.
  intros raises h rs s' o s HC HS Hstep.
  apply (connup_fallback_l raises s rs s' o); try assumption.
  apply (inv_reachable raises). apply reachable_run.
Qed.

Lemma main_fallback_permanent : forall raises s e, sup s = false -> sup (fst (step raises s e)) = false.
Proof. intros raises s e H. rewrite sup_step, H. reflexivity. Qed.

Lemma main_subs_survive : forall raises s,
    (forall rs, subs (fst (step raises s (ConnUp rs))) = subs s)
    /\ subs (fst (step raises s ConnDown)) = subs s
    /\ (forall b, subs (fst (step raises s (EventMsg b))) = subs s)
    /\ (forall l, subs (fst (step raises s (AddL l))) = subs s)
    /\ (forall l, subs (fst (step raises s (DelL l))) = subs s).
Proof.
  intros raises s. split; [|split; [|split; [|split]]].
  - intros rs. exact (subs_other raises s (ConnUp rs)).
  - exact (subs_other raises s ConnDown).
  - intros b. exact (subs_other raises s (EventMsg b)).
  - intros l. exact (subs_other raises s (AddL l)).
  - intros l. exact (subs_other raises s (DelL l)).
Qed.

Lemma main_event_stream : forall raises h bs l,
    let s := fst (run raises h) in
    conn s = true ->
    fst (run_from raises s (map EventMsg bs)) = s
    /\ calls_of l (snd (run_from raises s (map EventMsg bs)))
       = if memN l (lst s) then flat_map deliver bs else [].
Proof.
  intros raises h bs l s HC. apply event_stream_l; [exact HC|].
  apply (main_invariant raises h).
Qed.

Lemma main_log_char : forall raises h l,
    calls_of l (snd (run raises h)) = expected_log raises l init h.
Proof. intros. unfold run. apply log_char. apply inv_init. Qed.

Lemma main_format : forall rows,
    NoDup (map fst (format rows))
    /\ (forall k, In k (map fst (format rows)) <-> In k (map fst rows))
    /\ (forall k, lookup k (format rows) = last_value k rows).
Proof.
  intros rows. split; [apply format_keys_NoDup|]. split; intros k; [apply format_keys_In|apply format_lookup].
Qed.

Lemma main_isolation : forall r1 r2 h,
    fst (run r1 h) = fst (run r2 h)
    /\ strip (snd (run r1 h)) = strip (snd (run r2 h))
    /\ (forall l, calls_of l (snd (run r1 h)) = calls_of l (snd (run r2 h)))
    /\ (forall ev, put_ids ev (snd (run r1 h)) = put_ids ev (snd (run r2 h)))
    /\ (In OLost (snd (run r1 h)) <-> In OLost (snd (run r2 h))).
Proof.
  intros r1 r2 h. unfold run. destruct (run_indep r1 r2 h init) as [P1 P2].
  split; [exact P1|]. split; [exact P2|]. split; [|split].
  - intros l. rewrite <- (calls_of_strip l (snd (run_from r1 init h))), P2. apply calls_of_strip.
  - intros ev. rewrite <- (put_ids_strip ev (snd (run_from r1 init h))), P2. apply put_ids_strip.
  - rewrite <- (lost_strip (snd (run_from r1 init h))), P2. apply lost_strip.
Qed.

Lemma main_raise_keeps_session : forall raises s b,
    fst (step raises s (EventMsg b)) = s /\ ~ In OLost (snd (step raises s (EventMsg b))).
Proof.
  intros raises s b. split; [apply event_keeps_state|].
  cbn [step]. destruct (conn s); [|intros []]. destruct b; cbn [snd]; try (intros []).
  apply notify_no_lost.
Qed.
