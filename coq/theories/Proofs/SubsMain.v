(* C12 - the statements of Props/C12.v, assembled from Proofs/Subs.v and Proofs/SubsStep.v. *)
From Coq Require Import List NArith ZArith Arith Bool Lia.
From AHK Require Import Model.Subs Proofs.Subs Proofs.SubsStep.
Import ListNotations.

Lemma reachable_run : forall raises acts h, reachable raises acts (fst (run raises acts h)).
Proof. intros. unfold run. apply reachable_run_from. constructor. Qed.

Lemma main_invariant : forall raises acts h,
    NoDup (subs (fst (run raises acts h))) /\ NoDup (lst (fst (run raises acts h))).
Proof. intros. apply (inv_reachable raises acts). apply reachable_run. Qed.

Lemma main_resubscribe_all : forall raises acts h rs s' o,
    let s := fst (run raises acts h) in
    conn s = false -> sup s = true ->
    step raises acts s (ConnUp rs) = (s', o) -> sup s' = true ->
    (forall c, In c (put_ids true o) <-> In c (subs s))
    /\ put_ids false o = []
    /\ (forall l, In l (lst s) -> calls_of l o = [[]])
    /\ (forall l, ~ In l (lst s) -> calls_of l o = [])
    /\ conn s' = true /\ subs s' = subs s /\ lst s' = reg_after acts s [].
Proof.
  intros raises acts h rs s' o s HC HS Hstep Hs'.
  apply (resubscribe_all_l raises acts s rs s' o); try assumption.
  apply (inv_reachable raises acts). apply reachable_run.
Qed.

Lemma main_connup_fallback : forall raises acts h rs s' o,
    let s := fst (run raises acts h) in
    conn s = false -> sup s = false ->
    step raises acts s (ConnUp rs) = (s', o) ->
    put_ids true o = [] /\ put_ids false o = []
    /\ (forall l, In l (lst s) -> calls_of l o = [[]])
    /\ conn s' = true /\ subs s' = subs s /\ sup s' = false.
Proof.
  intros raises acts h rs s' o s HC HS Hstep.
  apply (connup_fallback_l raises acts s rs s' o); try assumption.
  apply (inv_reachable raises acts). apply reachable_run.
Qed.

Lemma main_fallback_permanent : forall raises acts s e, sup s = false -> sup (fst (step raises acts s e)) = false.
Proof. intros raises acts s e H. rewrite sup_step, H. reflexivity. Qed.

Lemma main_subs_survive : forall raises acts s,
    (forall rs, subs (fst (step raises acts s (ConnUp rs))) = subs s)
    /\ subs (fst (step raises acts s ConnDown)) = subs s
    /\ (forall b, subs (fst (step raises acts s (EventMsg b))) = subs s)
    /\ (forall l, subs (fst (step raises acts s (AddL l))) = subs s)
    /\ (forall l, subs (fst (step raises acts s (DelL l))) = subs s).
Proof.
  intros raises acts s. split; [|split; [|split; [|split]]].
  - intros rs. exact (subs_other raises acts s (ConnUp rs)).
  - exact (subs_other raises acts s ConnDown).
  - intros b. exact (subs_other raises acts s (EventMsg b)).
  - intros l. exact (subs_other raises acts s (AddL l)).
  - intros l. exact (subs_other raises acts s (DelL l)).
Qed.

Lemma main_event_stream : forall raises acts h bs l,
    let s := fst (run raises acts h) in
    quiet acts -> conn s = true ->
    fst (run_from raises acts s (map EventMsg bs)) = s
    /\ calls_of l (snd (run_from raises acts s (map EventMsg bs)))
       = if memN l (lst s) then flat_map deliver bs else [].
Proof.
  intros raises acts h bs l s Q HC. apply event_stream_l; [exact Q|exact HC|].
  apply (main_invariant raises acts h).
Qed.

Lemma main_log_char : forall raises acts h l,
    calls_of l (snd (run raises acts h)) = expected_log raises acts l init h.
Proof. intros. unfold run. apply log_char. apply inv_init. Qed.

Lemma main_format : forall rows,
    NoDup (map fst (format rows))
    /\ (forall k, In k (map fst (format rows)) <-> In k (map fst rows))
    /\ (forall k, lookup k (format rows) = last_value k rows).
Proof.
  intros rows. split; [apply format_keys_NoDup|]. split; intros k; [apply format_keys_In|apply format_lookup].
Qed.

Lemma main_isolation : forall r1 r2 acts h,
    fst (run r1 acts h) = fst (run r2 acts h)
    /\ strip (snd (run r1 acts h)) = strip (snd (run r2 acts h))
    /\ (forall l, calls_of l (snd (run r1 acts h)) = calls_of l (snd (run r2 acts h)))
    /\ (forall ev, put_ids ev (snd (run r1 acts h)) = put_ids ev (snd (run r2 acts h)))
    /\ (In OLost (snd (run r1 acts h)) <-> In OLost (snd (run r2 acts h))).
Proof.
  intros r1 r2 acts h. unfold run. destruct (run_indep r1 r2 acts h init) as [P1 P2].
  split; [exact P1|]. split; [exact P2|]. split; [|split].
  - intros l. rewrite <- (calls_of_strip l (snd (run_from r1 acts init h))), P2. apply calls_of_strip.
  - intros ev. rewrite <- (put_ids_strip ev (snd (run_from r1 acts init h))), P2. apply put_ids_strip.
  - rewrite <- (lost_strip (snd (run_from r1 acts init h))), P2. apply lost_strip.
Qed.

Lemma main_raise_keeps_session : forall raises acts s b,
    subs (fst (step raises acts s (EventMsg b))) = subs s
    /\ sup (fst (step raises acts s (EventMsg b))) = sup s
    /\ conn (fst (step raises acts s (EventMsg b))) = conn s
    /\ ~ In OLost (snd (step raises acts s (EventMsg b))).
Proof.
  intros raises acts s b. destruct (event_keeps_session raises acts s b) as [P1 [P2 P3]].
  split; [exact P1|]. split; [exact P2|]. split; [exact P3|].
  cbn [step]. destruct (conn s); [|intros []]. destruct b; cbn [snd]; try (intros []).
  apply notify_no_lost.
Qed.

(* every listener registered when an event (or a new session) arrives is called exactly once in
   that step, whatever the listeners do to the registry from inside their callbacks *)
Lemma main_step_calls : forall raises acts h e l,
    let s := fst (run raises acts h) in
    calls_of l (snd (step raises acts s e)) = if memN l (lst s) then notif s e else [].
Proof.
  intros raises acts h e l s. apply step_calls. apply (main_invariant raises acts h).
Qed.

(* ------------------------------------------------------------ round 9: a subscribe() call on a live session *)
(* The model's Subscribe takes the ids as ONE list `cs` that feeds both the bookkeeping (union) and the
   requests (update): the argument is materialised once (fixes/C12-subscribe-oneshot-iterable.patch). *)
Lemma main_subscribe_asks_named : forall raises acts s cs rs s' o,
    conn s = true -> sup s = true ->
    step raises acts s (Subscribe cs rs) = (s', o) -> sup s' = true ->
    (forall c, In c (put_ids true o) <-> In c cs)
    /\ put_ids false o = []
    /\ (forall l, calls_of l o = [])
    /\ conn s' = true
    /\ (forall c, In c (subs s') <-> In c (subs s) \/ In c (put_ids true o)).
Proof.
  intros raises acts s cs rs s' o HC HS Hstep Hs'.
  pose proof (subs_subscribe raises acts s cs rs) as SU. rewrite Hstep in SU. cbn [fst] in SU.
  cbn [step] in Hstep. rewrite HS, HC in Hstep. cbn [negb] in Hstep.
  destruct (update true rs cs) as [o1 [stt|lost]] eqn:EU.
  - inversion Hstep; subst; clear Hstep. cbn [conn].
    pose proof (update_shape true rs cs) as SH. rewrite EU in SH. cbn [fst] in SH.
    unfold update in EU. destruct (send_done _ _ _ _ _ _ EU) as [P1 _].
    assert (Q : forall c, In c (put_ids true (o1 ++ [ORet RetDict])) <-> In c cs).
    { intros c. rewrite put_ids_app. cbn [put_ids flat_map]. rewrite app_nil_r.
      rewrite P1. apply groups_concat_In. }
    split; [exact Q|]. split; [|split; [|split]].
    + pose proof (puts_other true o1 SH) as Q2. cbn [negb] in Q2. rewrite put_ids_app, Q2. reflexivity.
    + intros l. rewrite calls_of_app, (puts_calls true o1 l SH). reflexivity.
    + reflexivity.
    + intros c. rewrite (SU c). rewrite (Q c). tauto.
  - inversion Hstep; subst. cbn in Hs'. discriminate.
Qed.
