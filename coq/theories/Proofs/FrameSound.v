(* C05 - inbound soundness: on ANY byte stream (not only honestly sealed ones) every
   plaintext handed to the application was opened by the decrypt function, for a
   complete frame of the stream, with the nonce of its position. *)
From Coq Require Import List NArith ZArith Arith Bool Lia ZifyN ZifyNat ZifyBool.
From AHK Require Import Lib.Res Lib.ByteStr Model.Frame Proofs.FrameBase Proofs.FrameFeed.
Import ListNotations.

Lemma skipn_add {A} b : forall a (l : list A), skipn a (skipn b l) = skipn (b + a) l.
Proof.
  induction b as [|b IH]; intros a l; [reflexivity|].
  destruct l as [|x l]; [now rewrite !skipn_nil|]. cbn [skipn Nat.add]. apply IH.
Qed.

Section Sound.
  Variable T : nat.
  Variable opn : bytes -> bytes -> bytes -> option bytes.

  Lemma step_frame_inv buf ctr p rest :
    step T opn buf ctr = Frame p rest ->
    exists h c, buf = h ++ c ++ rest /\ length h = 2 /\
                length c = N.to_nat (le_dec h) + T /\
                (ctr < ctr_limit)%N /\ opn (nonce_of ctr) h c = Some p.
  Proof.
    unfold step.
    destruct (length buf <? 2) eqn:E1; [discriminate|].
    apply Nat.ltb_ge in E1.
    remember (N.to_nat (le_dec (firstn 2 buf))) as n eqn:En.
    remember (2 + (n + T)) as e eqn:Ee.
    destruct (length buf <? e) eqn:E2; [discriminate|].
    apply Nat.ltb_ge in E2.
    destruct (ctr_limit <=? ctr)%N eqn:E3; [discriminate|].
    apply N.leb_gt in E3.
    destruct (opn (nonce_of ctr) (firstn 2 buf) (firstn (n + T) (skipn 2 buf))) as [q|] eqn:E4; [|discriminate].
    intros H. assert (R : rest = skipn e buf) by congruence. assert (P : q = p) by congruence.
    exists (firstn 2 buf), (firstn (n + T) (skipn 2 buf)).
    repeat split.
    - rewrite R, Ee. rewrite <- skipn_add. now rewrite !firstn_skipn.
    - rewrite firstn_length. lia.
    - rewrite firstn_length, skipn_length, <- En. lia.
    - exact E3.
    - now rewrite <- P.
  Qed.

  Lemma authentic_snoc : forall frs ctr outs h c p,
      authentic T opn ctr frs outs ->
      length h = 2 -> length c = N.to_nat (le_dec h) + T ->
      (ctr + N.of_nat (length outs) < ctr_limit)%N ->
      opn (nonce_of (ctr + N.of_nat (length outs))%N) h c = Some p ->
      authentic T opn ctr (frs ++ [(h, c)]) (outs ++ [p]).
  Proof.
    induction frs as [|[h0 c0] fr IH]; intros ctr outs h c p HA Hh Hc Hl Ho.
    - destruct outs; [|contradiction]. cbn in *. rewrite N.add_0_r in *. repeat split; assumption.
    - destruct outs as [|p0 os]; [contradiction|].
      cbn [authentic app] in *. destruct HA as [A1 [A2 [A3 [A4 A5]]]].
      repeat split; try assumption.
      apply IH; try assumption; cbn [length] in *.
      + replace (ctr + 1 + N.of_nat (length os))%N with (ctr + N.of_nat (S (length os)))%N by lia. exact Hl.
      + replace (ctr + 1 + N.of_nat (length os))%N with (ctr + N.of_nat (S (length os)))%N by lia. exact Ho.
  Qed.

  Lemma authentic_length : forall frs ctr outs,
      authentic T opn ctr frs outs -> length frs = length outs.
  Proof.
    induction frs as [|[h c] fr IH]; intros ctr [|p os] H; cbn in *; try contradiction; auto.
    destruct H as [_ [_ [_ [_ H]]]]. now rewrite (IH _ _ H).
  Qed.

  Lemma flat_snoc frs h c : flat (frs ++ [(h, c)]) = flat frs ++ h ++ c.
  Proof. unfold flat. rewrite map_app, concat_app. cbn. now rewrite app_nil_r. Qed.

  (* invariant of the loop, threaded from the start of the read *)
  Lemma drain_sound f : forall buf ctr0 ctr frs acc pre s' o,
      authentic T opn ctr0 frs acc -> ctr = (ctr0 + N.of_nat (length acc))%N ->
      pre = flat frs ++ buf ->
      drain T opn f buf ctr acc = (s', o) ->
      exists frs' rem,
        pre = flat frs' ++ rem /\ authentic T opn ctr0 frs' o /\
        (s' = Live rem (ctr0 + N.of_nat (length o))%N \/ s' = Dead).
  Proof.
    induction f as [|f IH]; intros buf ctr0 ctr frs acc pre s' o HA Hc Hp HD; cbn [drain] in HD.
    - injection HD as <- <-. exists frs, buf. subst. auto.
    - destruct (step T opn buf ctr) as [|p rest|] eqn:E.
      + injection HD as <- <-. exists frs, buf. subst. auto.
      + destruct (step_frame_inv _ _ _ _ E) as [h [c [Hb [Hh [Hl [Hlim Ho]]]]]].
        apply (IH rest ctr0 (ctr + 1)%N (frs ++ [(h, c)]) (acc ++ [p]) pre s' o); try assumption.
        * subst ctr. apply authentic_snoc; assumption.
        * rewrite app_length. cbn [length]. lia.
        * rewrite flat_snoc, Hp, Hb, <- !app_assoc. reflexivity.
      + injection HD as <- <-. exists frs, buf. subst. auto.
  Qed.

  Lemma feed_sound buf ctr d s' o :
    feed T opn (Live buf ctr) d = (s', o) ->
    exists frs rem,
      buf ++ d = flat frs ++ rem /\ authentic T opn ctr frs o /\
      (s' = Live rem (ctr + N.of_nat (length o))%N \/ s' = Dead).
  Proof.
    cbn [feed]. intros H.
    apply (drain_sound (S (length (buf ++ d))) (buf ++ d) ctr ctr [] [] (buf ++ d) s' o);
      try reflexivity; try assumption.
    cbn. lia.
  Qed.

  (* under any read schedule, from the start of a session *)
  Lemma feed_all_sound ctr segs s' o :
    feed_all T opn (Live [] ctr) segs = (s', o) ->
    exists frs rem,
      concat segs = flat frs ++ rem /\ authentic T opn ctr frs o /\
      (s' = Live rem (ctr + N.of_nat (length o))%N \/ s' = Dead).
  Proof.
    rewrite feed_all_concat by reflexivity. intros H.
    apply (feed_sound [] ctr (concat segs) s' o H).
  Qed.
End Sound.
