(* C18: the lemmas of Proofs/Bcast.v and Proofs/BcastHist.v instantiated at the
   implementation's window (range(s+2, s+100): w = 98, i.e. s < n < s + 100),
   in the shape restated by Props/C18.v. *)
From Coq Require Import List NArith ZArith Arith Bool Lia ZifyN ZifyNat ZifyBool Sorted.
From AHK Require Import Lib.ByteStr Model.Bcast Proofs.Bcast Proofs.BcastHist.
Import ListNotations.
Open Scope N_scope.

(* authentic and fresh at n: opens under the pairing's key, AAD = advertising id a,
   at a counter n in the accepted window above the stored number, inner counter = n *)
Definition fresh (p : pairing) (a : bytes) (body : payload) (n : N) (pt : bytes) : Prop :=
  exists k s, p_key p = Some k /\ p_sn p = Some s /\
              aopen k n a body = Some pt /\ s < n < s + 100 /\ gsn_of pt = n.

Lemma fresh_iff p a body n pt : fresh p a body n pt <-> fresh_w 98 p a body n pt.
Proof.
  unfold fresh, fresh_w. split; intros (k & s & H1 & H2 & H3 & H4 & H5); exists k, s;
    repeat split; try assumption; lia.
Qed.

Lemma top_accept_iff p a body p' o cl :
  notify p a body = (p', o, cl) ->
  ((p' <> p \/ cl <> []) <-> exists n pt, fresh p a body n pt) /\
  (forall n pt, fresh p a body n pt ->
     p' = with_sn p n /\ p_sn p' = Some n /\ (o, cl) = deliver p pt /\
     (forall f v, find_char (iid_of pt) (p_chars p) = Some f ->
                  from_bytes f (value_of pt) = inr v ->
                  o = OAccepted /\ cl = [(p_id p, 1, iid_of pt, v)])) /\
  ((forall n pt, ~ fresh p a body n pt) -> p' = p /\ cl = []).
Proof.
  intros E. destruct (accept_iff 98 _ _ _ _ _ _ E) as (H1 & H2 & H3). split; [|split].
  - rewrite H1. split; intros (n & pt & H); exists n, pt; now apply fresh_iff.
  - intros n pt H. apply H2. now apply fresh_iff.
  - intros H. apply H3. intros n pt Hf. apply (H n pt). now apply fresh_iff.
Qed.

Lemma top_routing c hdr body c' o cl j p :
  wf_ctrl c -> detect c (hdr, body) = (c', o, cl) -> nth_error c j = Some p ->
  (hd 0 hdr = 17 /\ adv_id hdr = p_id p ->
     exists p', notify p (p_id p) (eff_body hdr body) = (p', o, cl) /\ nth_error c' j = Some p') /\
  (hd 0 hdr <> 17 \/ adv_id hdr <> p_id p ->
     nth_error c' j = Some p /\ calls_for (p_id p) cl = []).
Proof. exact (detect_j 98 c hdr body c' o cl j p). Qed.

Lemma top_monotone c h j :
  wf_ctrl c ->
  match sn_at c j with
  | Some s => StronglySorted N.lt (s :: accepted j c h)
  | None => accepted j c h = []
  end.
Proof. intros H. exact (accepted_sorted 98 j h c H). Qed.

Lemma top_listener_implies_advance c f c' o cl j p :
  wf_ctrl c -> detect c f = (c', o, cl) -> nth_error c j = Some p ->
  calls_for (p_id p) cl <> [] ->
  exists s n, sn_at c j = Some s /\ sn_at c' j = Some n /\ s < n < s + 100.
Proof.
  intros Hwf Hd Hn Hc.
  destruct (detect_sn_step 98 _ _ _ _ _ _ _ Hwf Hd Hn) as [[_ H]|(p' & s & n & Hn' & _ & _ & _ & Hs & Hs' & Hw)];
    [contradiction|].
  exists s, n. rewrite (sn_at_nth _ _ _ Hn), (sn_at_nth _ _ _ Hn'). repeat split; try assumption; lia.
Qed.

Definition accepts (c : ctrl) (f : frame) (j : nat) (n : N) : Prop :=
  sn_at (fst (fst (detect c f))) j = Some n /\ sn_at c j <> Some n.

Lemma top_no_replay c h1 f h2 hdr' body' j p k n :
  wf_ctrl c ->
  let c1 := final c h1 in
  nth_error c1 j = Some p -> p_key p = Some k ->
  accepts c1 f j n ->
  old_for k (p_id p) body' n ->
  let c2 := final (fst (fst (detect c1 f))) h2 in
  let r := detect c2 (hdr', body') in
  sn_at (fst (fst r)) j = sn_at c2 j /\ calls_for (p_id p) (snd r) = [].
Proof. exact (no_replay_general 98 c h1 f h2 hdr' body' j p k n). Qed.

Lemma top_no_replay_same c h1 hdr body h2 j p k n :
  wf_ctrl c ->
  let c1 := final c h1 in
  nth_error c1 j = Some p -> p_key p = Some k ->
  accepts c1 (hdr, body) j n ->
  let c2 := final (fst (fst (detect c1 (hdr, body)))) h2 in
  let r := detect c2 (hdr, body) in
  sn_at (fst (fst r)) j = sn_at c2 j /\ calls_for (p_id p) (snd r) = [].
Proof. exact (no_replay_same 98 c h1 hdr body h2 j p k n). Qed.

Lemma top_old_seal k a k' m a' pt n : m <= n -> old_for k a (PSeal k' m a' pt) n.
Proof. exact (old_for_seal k a k' m a' pt n). Qed.

(* stale: nonce counter at or below the stored number (this includes the explicit
   "state_num == start_state_num" rule and everything older); also beyond the window *)
Lemma top_stale_ignored c hdr k m a pt c' o cl j p s :
  wf_ctrl c -> detect c (hdr, PSeal k m a pt) = (c', o, cl) -> nth_error c j = Some p ->
  p_sn p = Some s -> m <= s \/ s + 100 <= m ->
  nth_error c' j = Some p /\ calls_for (p_id p) cl = [].
Proof.
  intros Hwf Hd Hn Hs Hm. apply (detect_ignored_j 98 _ _ _ _ _ _ _ _ Hwf Hd Hn).
  intros _ n pt'. destruct Hm as [Hm|Hm].
  - now apply (not_fresh_old 98 p (p_id p) k m a pt n pt' s).
  - apply (not_fresh_beyond 98 p (p_id p) k m a pt n pt' s); [assumption|lia].
Qed.

(* forged for pairing p: not sealed under p's key with AAD = p's advertising id *)
Definition forged (p : pairing) (body : payload) : Prop :=
  match body with
  | PSeal k _ a _ => p_key p <> Some k \/ a <> p_id p
  | PJunk | PShort _ | PEmpty => True
  end.

Lemma top_forgery_ignored c hdr body c' o cl j p :
  wf_ctrl c -> detect c (hdr, body) = (c', o, cl) -> nth_error c j = Some p ->
  forged p body \/ adv_id hdr <> p_id p ->
  nth_error c' j = Some p /\ calls_for (p_id p) cl = [].
Proof.
  intros Hwf Hd Hn [Hf|Ha].
  - apply (detect_ignored_j 98 _ _ _ _ _ _ _ _ Hwf Hd Hn). intros _ n pt.
    destruct body as [k m a pt0| |ats|]; cbn in Hf.
    + destruct Hf as [Hk|Ha]; [now apply not_fresh_wrong_key|now apply not_fresh_wrong_aad].
    + apply not_fresh_junk.
    + apply not_fresh_short.
    + apply not_fresh_empty.
  - apply (top_routing _ _ _ _ _ _ _ _ Hwf Hd Hn). now right.
Qed.

Lemma top_inner_mismatch_ignored c hdr k m a pt c' o cl j p :
  wf_ctrl c -> detect c (hdr, PSeal k m a pt) = (c', o, cl) -> nth_error c j = Some p ->
  gsn_of pt <> m ->
  nth_error c' j = Some p /\ calls_for (p_id p) cl = [].
Proof.
  intros Hwf Hd Hn Hg. apply (detect_ignored_j 98 _ _ _ _ _ _ _ _ Hwf Hd Hn).
  intros _ n pt'. now apply not_fresh_inner.
Qed.

(* ---- non-vacuity ------------------------------------------------------------ *)
Definition ex_idA : bytes := [170; 187; 204; 221; 238; 255].
Definition ex_idB : bytes := [1; 2; 3; 4; 5; 6].
Definition ex_A : pairing := mkP ex_idA (Some 1) (Some 7) (Some 7) [(9, FBool); (11, FU16); (14, FInt)] true.
Definition ex_B : pairing := mkP ex_idB (Some 2) (Some 300) (Some 300) [(11, FU8)] false.
Definition ex_hdr (i : bytes) : bytes := 17 :: 54 :: i.
(* gsn 9, iid 11, value 0x0201 *)
Definition ex_pt : bytes := [9; 0; 11; 0; 1; 2; 0; 0; 0; 0; 0; 0].
Definition ex_f : frame := (ex_hdr ex_idA, PSeal 1 9 ex_idA ex_pt).

Lemma ex_nonvacuous :
  wf_ctrl [ex_A; ex_B] /\
  fresh ex_A ex_idA (snd ex_f) 9 ex_pt /\
  accepts [ex_A; ex_B] ex_f 0 9 /\
  detect [ex_A; ex_B] ex_f = ([with_sn ex_A 9; ex_B], OAccepted, [(ex_idA, 1, 11, VInt 513)]) /\
  (* the same advertisement again, a wrong-key and a wrong-id copy, and an older one: ignored *)
  map (fun x => (snd (fst x), snd x))
      (run [ex_A; ex_B] [ex_f; ex_f; (ex_hdr ex_idA, PSeal 2 10 ex_idA ex_pt);
                         (ex_hdr ex_idB, PSeal 1 10 ex_idA ex_pt); (ex_hdr ex_idA, PSeal 1 8 ex_idA ex_pt)])
  = [(OAccepted, [(ex_idA, 1, 11, VInt 513)]); (OStale, []); (ONoDecrypt, []); (ONoDecrypt, []); (ONoDecrypt, [])] /\
  accepted 0 [ex_A; ex_B] [ex_f; ex_f; (ex_hdr ex_idA, PSeal 1 108 ex_idA (108 :: 0 :: skipn 2 ex_pt));
                           (ex_hdr ex_idA, PSeal 1 208 ex_idA (208 :: 0 :: skipn 2 ex_pt))] = [9; 108].
Proof.
  split; [repeat constructor; cbn; intuition discriminate|].
  split; [exists 1, 7; repeat split; try reflexivity; lia|].
  split; [split; [reflexivity|discriminate]|].
  split; [vm_compute; reflexivity|].
  split; vm_compute; reflexivity.
Qed.
