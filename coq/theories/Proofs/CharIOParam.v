(* C13 extension (round 8) - every modelled function commutes with a renaming of values *)
From Coq Require Import List NArith ZArith Arith Bool Lia.
From AHK Require Import Lib.Res Model.CharIO Model.CharIOParam Proofs.CharIO.
Import ListNotations.

(* ------------------------------------------------------------------ dicts *)
Lemma dmap_dremove : forall A B (f : A -> B) k (m : dict A),
    dmap f (dremove k m) = dremove k (dmap f m).
Proof.
  intros A B f k m. unfold dmap, dremove. induction m as [|[k0 v] t IH]; cbn [filter map fst snd].
  - reflexivity.
  - destruct (negb (cid_eqb k k0)); cbn [map fst snd]; rewrite IH; reflexivity.
Qed.
Lemma dmap_dset : forall A B (f : A -> B) k v (m : dict A),
    dmap f (dset k v m) = dset k (f v) (dmap f m).
Proof.
  intros A B f k v m. unfold dset. rewrite <- dmap_dremove. reflexivity.
Qed.
Lemma dmap_app : forall A B (f : A -> B) (m1 m2 : dict A), dmap f (m1 ++ m2) = dmap f m1 ++ dmap f m2.
Proof. intros. unfold dmap. apply map_app. Qed.
Lemma dmap_keys : forall A B (f : A -> B) (m : dict A), map fst (dmap f m) = map fst m.
Proof.
  intros A B f m. unfold dmap. rewrite map_map. apply map_ext. intros [k v]. reflexivity.
Qed.

(* the "conditional dset" folds of listener_init and of CoAPPairing.put_characteristics *)
Lemma fold_cond_param : forall (f : Z -> Z) (c : cid -> bool) (reqs : list (cid * Z)) (m0 : dict Z),
    fold_left (fun m q => if c (fst q) then dset (fst q) (snd q) m else m) (dmap f reqs) (dmap f m0) =
    dmap f (fold_left (fun m q => if c (fst q) then dset (fst q) (snd q) m else m) reqs m0).
Proof.
  intros f c reqs. induction reqs as [|[k v] t IH]; intros m0; cbn [dmap map fold_left fst snd].
  - reflexivity.
  - fold (dmap f t). destruct (c k).
    + rewrite <- dmap_dset. apply IH.
    + apply IH.
Qed.

Lemma listener_init_param : forall f rd reqs,
    listener_init rd (vmap_reqs f reqs) = dmap f (listener_init rd reqs).
Proof.
  intros f rd reqs. unfold listener_init, vmap_reqs.
  exact (fold_cond_param f rd reqs []).
Qed.

(* ------------------------------------------------------------------ IP write *)
Lemma ip_put_loop_param : forall f rej es rs lu,
    ip_put_loop rej es rs (dmap f lu) = rmap (vmap_wout f) (ip_put_loop rej es rs lu).
Proof.
  intros f rej es. induction es as [|e t IH]; intros rs lu; cbn [ip_put_loop].
  - reflexivity.
  - destruct e as [|a i [s|] v].
    + apply IH.
    + destruct (rej s).
      * rewrite <- dmap_dremove. apply IH.
      * apply IH.
    + reflexivity.
Qed.

Lemma ip_put_gen_param_lem : forall f rej rd reqs r,
    ip_put_gen rej rd (vmap_reqs f reqs) r = rmap (vmap_wout f) (ip_put_gen rej rd reqs r).
Proof.
  intros f rej rd reqs r. unfold ip_put_gen. rewrite listener_init_param. destruct r.
  - reflexivity.
  - reflexivity.
  - apply ip_put_loop_param.
Qed.

(* the "value" key of a write-reply entry is never looked at *)
Lemma ip_put_loop_reply_values : forall f rej es rs lu,
    ip_put_loop rej (map (vmap_entry f) es) rs lu = ip_put_loop rej es rs lu.
Proof.
  intros f rej es. induction es as [|e t IH]; intros rs lu; cbn [map ip_put_loop].
  - reflexivity.
  - destruct e as [|a i [s|] v]; cbn [vmap_entry ip_put_loop]; try apply IH. reflexivity.
Qed.

(* ------------------------------------------------------------------ CoAP write *)
Lemma coap_put_param_lem : forall f rd reqs rs,
    coap_put rd (vmap_reqs f reqs) rs = rmap (vmap_wout f) (coap_put rd reqs rs).
Proof.
  intros f rd reqs rs. unfold coap_put, vmap_reqs. rewrite dmap_keys.
  destruct (coap_write_loop (map fst reqs) rs []) as [out| | |]; try reflexivity.
  unfold rmap, rbind, vmap_wout. cbn [fst snd]. do 2 f_equal.
  exact (fold_cond_param f (fun k => negb (dmem k out) && rd k) reqs []).
Qed.

(* ------------------------------------------------------------------ BLE write *)
Lemma ble_loop_param : forall f perm rd items rs ns,
    ble_loop perm rd (map (vmap_bitem f) items) rs (dmap f ns) =
    vmap_bout f (ble_loop perm rd items rs ns).
Proof.
  intros f perm rd items. induction items as [|it t IH]; intros rs ns; cbn [map ble_loop].
  - reflexivity.
  - cbn [vmap_bitem b_key b_val b_s1 b_s2].
    assert (Hok : ble_loop perm rd (map (vmap_bitem f) t) rs
                    (if rd (snd (b_key it)) then dmap f ns ++ [(b_key it, f (b_val it))] else dmap f ns) =
                  vmap_bout f (ble_loop perm rd t rs
                    (if rd (snd (b_key it)) then ns ++ [(b_key it, b_val it)] else ns))).
    { destruct (rd (snd (b_key it))).
      - rewrite <- IH. rewrite dmap_app. reflexivity.
      - apply IH. }
    destruct (perm (snd (b_key it))).
    + destruct (b_s1 it =? 0)%N; [destruct (b_s2 it =? 0)%N|]; try exact Hok; reflexivity.
    + destruct (b_s1 it =? 0)%N; try exact Hok; reflexivity.
    + apply IH.
Qed.

Lemma ble_put_param_lem : forall f perm rd items,
    ble_put perm rd (map (vmap_bitem f) items) = vmap_bout f (ble_put perm rd items).
Proof. intros. unfold ble_put. exact (ble_loop_param f perm rd items [] []). Qed.

(* ------------------------------------------------------------------ reads *)
Lemma render_param : forall f st v, render st (option_map f v) = vmap_rres f (render st v).
Proof.
  intros f st v. unfold render, vmap_rres. destruct st as [s|]; [destruct (Z.eqb s 0)|]; reflexivity.
Qed.

Lemma fcl_fold_param : forall f es m0,
    fold_left fcl_step (map (vmap_entry f) es) (dmap (vmap_rres f) m0) =
    dmap (vmap_rres f) (fold_left fcl_step es m0).
Proof.
  intros f es. induction es as [|e t IH]; intros m0; cbn [map fold_left].
  - reflexivity.
  - destruct e as [|a i st v]; cbn [vmap_entry fcl_step].
    + apply IH.
    + rewrite render_param, <- dmap_dset. apply IH.
Qed.

Lemma glob_fold_param : forall f s req m0,
    fold_left (fun m k => dset k (glob_res s) m) req (dmap (vmap_rres f) m0) =
    dmap (vmap_rres f) (fold_left (fun m k => dset k (glob_res s) m) req m0).
Proof.
  intros f s req. induction req as [|k t IH]; intros m0; cbn [fold_left].
  - reflexivity.
  - rewrite <- IH. rewrite dmap_dset. reflexivity.
Qed.

Lemma fcl_param_lem : forall f g es req,
    format_characteristic_list g (map (vmap_entry f) es) req =
    dmap (vmap_rres f) (format_characteristic_list g es req).
Proof.
  intros f g es req. unfold format_characteristic_list.
  destruct g as [s|].
  - destruct (Z.eqb s 0).
    + exact (fcl_fold_param f es []).
    + rewrite <- fcl_fold_param. f_equal. exact (glob_fold_param f s req []).
  - exact (fcl_fold_param f es []).
Qed.

Lemma ip_get_param_lem : forall f req g es,
    ip_get req g (map (vmap_entry f) es) = dmap (vmap_rres f) (ip_get req g es).
Proof. intros. unfold ip_get. apply fcl_param_lem. Qed.

Lemma coap_read_loop_param : forall f rs ids out,
    coap_read_loop ids (map (vmap_pdures f) rs) (dmap (vmap_rres f) out) =
    rmap (dmap (vmap_rres f)) (coap_read_loop ids rs out).
Proof.
  intros f rs. induction rs as [|r t IH]; intros ids out; cbn [map coap_read_loop].
  - reflexivity.
  - destruct ids as [|k kt]; [reflexivity|].
    rewrite <- IH. f_equal. rewrite dmap_dset. f_equal. destruct r; reflexivity.
Qed.

Lemma coap_read_param_lem : forall f ids rs,
    coap_read ids (map (vmap_pdures f) rs) = rmap (dmap (vmap_rres f)) (coap_read ids rs).
Proof. intros. unfold coap_read. exact (coap_read_loop_param f rs ids []). Qed.

(* ------------------------------------------------------------------ non-vacuity: a renaming that is not the identity *)
Lemma param_example :
  let f := fun v => (v * 2 + 900)%Z in
  ip_put (fun _ => true) (vmap_reqs f [((1%N, 10%N), 20%Z); ((1%N, 11%N), 21%Z)])
         (W207 [Entry 1 10 (Some 0%Z) None; Entry 1 11 (Some 70410%Z) None]) =
  Ok ([((1, 11)%N, (70410%Z, DCode (-70410)%Z)); ((1, 10)%N, (0%Z, DCode 0%Z))], [((1, 10)%N, 940%Z)]).
Proof. vm_compute. reflexivity. Qed.
