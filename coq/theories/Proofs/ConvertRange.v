(* C14: six-digit numbers are barriers for the six-digit roundings, hence the
   result of the decimal path stays inside [min, max] when the bounds, their
   distance and the number of steps between them have at most six digits. *)
From Coq Require Import List NArith ZArith Bool Lia ZifyN ZifyBool QArith Qabs Qpower Qminmax Lqa.
From AHK Require Import Lib.Res Model.Convert Proofs.ConvertInt Proofs.ConvertDec Proofs.ConvertDiv
  Proofs.ConvertQ Proofs.ConvertFrac.
Local Open Scope Z_scope.

(* ------------------------------------------------------------------ *)
(* _fix never crosses a number n * 10^t with n < 10^p (coefficients)    *)
(* ------------------------------------------------------------------ *)

Lemma fix_core : forall cx d n t, (1 <= cprec cx)%N -> (n < 10 ^ cprec cx)%N ->
  exists k, dexp (dfix cx d) = dexp d + Z.of_N k /\ dneg (dfix cx d) = dneg d /\
    forall g, g <= dexp d -> g <= t ->
      let X := Z.of_N (dcoef d) * 10 ^ (dexp d - g) in
      let Y := Z.of_N (dcoef (dfix cx d)) * 10 ^ (dexp d + Z.of_N k - g) in
      let B := Z.of_N n * 10 ^ (t - g) in
      (X <= B -> Y <= B) /\ (B <= X -> B <= Y).
Proof.
  intros cx d n t Hp Hn.
  destruct (N.le_gt_cases (ndigits (dcoef d)) (cprec cx)) as [S|L].
  - rewrite dfix_short by assumption. exists 0%N. simpl Z.of_N. rewrite Z.add_0_r.
    split; [reflexivity|]. split; [reflexivity|]. intros g Hg Ht. cbv zeta. split; intro; assumption.
  - destruct (dfix_long cx d Hp L) as [k [He [Hs [Hv [Hk _]]]]].
    exists k. split; [exact He|]. split; [exact Hs|]. intros g Hg Ht. cbv zeta.
    set (c := dcoef d) in *. set (e := dexp d) in *. set (p := cprec cx) in *.
    set (k0 := (ndigits c - p)%N) in *.
    destruct (round_drop_bound (crnd cx) c k0) as [Hc' Hb].
    set (c' := round_drop (crnd cx) c k0) in *.
    assert (Hc0 : c <> 0%N). { intro Z0. rewrite Z0 in L. rewrite ndigits_0 in L. lia. }
    destruct (ndigits_specZ c Hc0) as [_ [Hlo _]].
    set (P := Z.of_N (pow10 k0)) in *.
    assert (HP : P = 10 ^ Z.of_N k0) by (unfold P, pow10; rewrite N2Z.inj_pow; reflexivity).
    assert (HPpos : 0 < P) by (rewrite HP; apply ConvertInt.p10_pos; lia).
    assert (Hk0 : (1 <= k0)%N) by (unfold k0; lia).
    (* value of the result coefficient at exponent e : c' * P *)
    assert (EV : Z.of_N (dcoef (dfix cx d)) * 10 ^ Z.of_N k = Z.of_N c' * P).
    { change (10 ^ Z.of_N k) with (Z.of_N 10 ^ Z.of_N k). rewrite <- N2Z.inj_pow, <- N2Z.inj_mul.
      fold (pow10 k). rewrite Hv. rewrite N2Z.inj_mul. reflexivity. }
    set (E := 10 ^ (e - g)). assert (HE : 0 < E) by (apply ConvertInt.p10_pos; lia).
    assert (EY : Z.of_N (dcoef (dfix cx d)) * 10 ^ (e + Z.of_N k - g) = Z.of_N c' * P * E).
    { replace (e + Z.of_N k - g) with (Z.of_N k + (e - g)) by lia. rewrite Z.pow_add_r by lia.
      rewrite Z.mul_assoc, EV. reflexivity. }
    rewrite EY. clear EY EV.
    (* quotient and remainder of c by P *)
    assert (Hdm := N.div_mod c (pow10 k0) ltac:(assert (Q := pow10_pos k0); lia)).
    assert (Hm := N.mod_lt c (pow10 k0) ltac:(assert (Q := pow10_pos k0); lia)).
    set (q := Z.of_N (c / pow10 k0)) in *. set (r := Z.of_N (c mod pow10 k0)).
    assert (Hcq : Z.of_N c = q * P + r) by (unfold q, r, P; lia).
    assert (Hr : 0 <= r < P) by (unfold r, P; lia).
    assert (Hq0 : 0 <= q) by (unfold q; lia).
    assert (Hcc : Z.of_N c' = q \/ (Z.of_N c' = q + 1 /\ 0 < r)).
    { destruct Hc' as [->| ->]; [left; reflexivity|right]. split; [unfold q; lia|].
      rewrite N2Z.inj_succ in Hb. fold q in Hb. fold P in Hb. nia. }
    (* 10^(D-1) = 10^(p-1) * P <= c *)
    assert (Hlow : 10 ^ (Z.of_N p - 1) * P <= Z.of_N c).
    { rewrite HP. rewrite <- Z.pow_add_r by lia.
      replace (Z.of_N p - 1 + Z.of_N k0) with (Z.of_N (ndigits c) - 1) by (unfold k0; lia). exact Hlo. }
    assert (Hp1 : 0 < 10 ^ (Z.of_N p - 1)) by (apply ConvertInt.p10_pos; lia).
    assert (Hnp : Z.of_N n < 10 * 10 ^ (Z.of_N p - 1)).
    { replace (10 * 10 ^ (Z.of_N p - 1)) with (10 ^ Z.of_N p).
      - change 10 with (Z.of_N 10). rewrite <- N2Z.inj_pow. lia.
      - replace (Z.of_N p) with (1 + (Z.of_N p - 1)) at 1 by lia. rewrite Z.pow_add_r by lia. reflexivity. }
    set (T := 10 ^ (t - g)). assert (HT : 0 < T) by (apply ConvertInt.p10_pos; lia).
    destruct (Z_le_gt_dec (e + Z.of_N k0) t) as [A|Bc].
    + (* the barrier is a multiple of the new unit P * E *)
      assert (ET : T = 10 ^ (t - e - Z.of_N k0) * P * E).
      { unfold T, E. rewrite HP. rewrite <- !Z.pow_add_r by lia. f_equal. lia. }
      set (N' := Z.of_N n * 10 ^ (t - e - Z.of_N k0)).
      assert (EB : Z.of_N n * T = N' * P * E) by (rewrite ET; unfold N'; ring).
      rewrite EB. split; intro H.
      * assert (H1 : Z.of_N c <= N' * P) by (apply (Z.mul_le_mono_pos_r _ _ E HE); lia).
        assert (H2 : Z.of_N c' <= N').
        { destruct Hcc as [->|[-> Hr0]].
          - apply (Z.mul_le_mono_pos_r _ _ P HPpos). lia.
          - assert (q < N'); [|lia]. apply (Z.mul_lt_mono_pos_r P); lia. }
        apply Z.mul_le_mono_nonneg_r; [lia|]. apply Z.mul_le_mono_nonneg_r; lia.
      * assert (H1 : N' * P <= Z.of_N c) by (apply (Z.mul_le_mono_pos_r _ _ E HE); lia).
        assert (H2 : N' < q + 1) by (apply (Z.mul_lt_mono_pos_r P); lia).
        assert (H3 : N' <= Z.of_N c') by (destruct Hcc as [->|[-> _]]; lia).
        apply Z.mul_le_mono_nonneg_r; [lia|]. apply Z.mul_le_mono_nonneg_r; lia.
    + (* the barrier is below 10^(D-1) * E <= c * E *)
      set (A := 10 ^ (Z.of_N p - 1)) in *.
      assert (ET : 10 * T <= P * E).
      { assert (X1 : P * E = 10 ^ (e + Z.of_N k0 - t - 1) * (10 * T)).
        { unfold T, E. rewrite HP. rewrite <- (Z.pow_succ_r 10 (t - g)) by lia.
          rewrite <- !Z.pow_add_r by lia. f_equal. lia. }
        assert (W : 1 <= 10 ^ (e + Z.of_N k0 - t - 1)).
        { assert (0 < 10 ^ (e + Z.of_N k0 - t - 1)) by (apply ConvertInt.p10_pos; lia). lia. }
        rewrite X1. replace (10 * T) with (1 * (10 * T)) at 1 by ring.
        apply Z.mul_le_mono_nonneg_r; lia. }
      assert (HB1 : Z.of_N n * T < 10 * A * T) by (apply Z.mul_lt_mono_pos_r; lia).
      assert (HB2 : A * (10 * T) <= A * (P * E)) by (apply Z.mul_le_mono_nonneg_l; lia).
      assert (HX : A * P * E <= Z.of_N c * E) by (apply Z.mul_le_mono_nonneg_r; lia).
      split; intro H.
      * exfalso. lia.
      * assert (H2 : A < q + 1) by (apply (Z.mul_lt_mono_pos_r P); lia).
        assert (H3 : A <= Z.of_N c') by (destruct Hcc as [->|[-> _]]; lia).
        assert (HY : A * P * E <= Z.of_N c' * P * E).
        { apply Z.mul_le_mono_nonneg_r; [lia|]. apply Z.mul_le_mono_nonneg_r; lia. }
        lia.
Qed.

(* ------------------------------------------------------------------ *)
(* the same in Q: a six-digit number is a barrier for _fix              *)
(* ------------------------------------------------------------------ *)
Local Open Scope Q_scope.

Definition dabs (d : dec) : dec := mkDec false (dcoef d) (dexp d).

Lemma dfix_dabs : forall cx d,
  dcoef (dfix cx (dabs d)) = dcoef (dfix cx d) /\ dexp (dfix cx (dabs d)) = dexp (dfix cx d) /\
  dneg (dfix cx (dabs d)) = false /\ dneg (dfix cx d) = dneg d.
Proof.
  intros cx d. unfold dfix, dabs. cbn [dcoef dexp dneg].
  destruct (ndigits (dcoef d) <=? cprec cx)%N; [repeat split|].
  destruct (ndigits (round_drop (crnd cx) (dcoef d) (ndigits (dcoef d) - cprec cx)) <=? cprec cx)%N; repeat split.
Qed.

Lemma dval_sign : forall d, dval d == inject_Z (sgz (dneg d)) * dval (dabs d).
Proof.
  intro d. unfold dval, dabs, scoef. cbn [dexp dneg dcoef]. destruct (dneg d); unfold sgz.
  - rewrite inject_Z_opp. simpl (inject_Z (-1)). ring.
  - simpl (inject_Z 1). ring.
Qed.

Lemma dval_abs_nonneg : forall d, 0 <= dval (dabs d).
Proof.
  intro d. unfold dval, dabs, scoef. cbn [dexp dneg dcoef].
  apply Qmult_le_0_compat; [|apply Qlt_le_weak, ConvertQ.p10_pos].
  rewrite <- (Zle_Qle 0). lia.
Qed.

Lemma dfix_sign : forall cx d, dval (dfix cx d) == inject_Z (sgz (dneg d)) * dval (dfix cx (dabs d)).
Proof.
  intros cx d. destruct (dfix_dabs cx d) as [Hc [He [Hn Hs]]].
  unfold dval, scoef. rewrite Hc, He, Hn, Hs. destruct (dneg d); unfold sgz.
  - rewrite inject_Z_opp. simpl (inject_Z (-1)). ring.
  - simpl (inject_Z 1). ring.
Qed.

(* nonnegative number, nonnegative six-digit barrier *)
Lemma fix6_barrier_pos : forall d n t, dneg d = false -> (0 <= n < 10 ^ 6)%Z ->
  let B := inject_Z n * p10 t in
  (dval d <= B -> dval (dfix ctx6 d) <= B) /\ (B <= dval d -> B <= dval (dfix ctx6 d)).
Proof.
  intros d n t Hd Hn B.
  destruct (fix_core ctx6 d (Z.to_N n) t ctx6_prec ltac:(unfold ctx6; cbn [cprec]; lia)) as [k [He [Hs H]]].
  set (g := Z.min (dexp d) t).
  specialize (H g ltac:(unfold g; lia) ltac:(unfold g; lia)). cbv zeta in H.
  rewrite Z2N.id in H by lia.
  set (D := dfix ctx6 d) in *.
  assert (Ax : at_exp (dval d) (Z.of_N (dcoef d) * 10 ^ (dexp d - g)) g).
  { assert (A := dval_sval d g ltac:(unfold g; lia)). unfold sval in A. rewrite scoef_sgz, Hd in A.
    unfold sgz in A. rewrite Z.mul_1_l in A. exact A. }
  assert (Ay : at_exp (dval D) (Z.of_N (dcoef D) * 10 ^ (dexp d + Z.of_N k - g)) g).
  { assert (A := dval_sval D g ltac:(unfold g; lia)). unfold sval in A. rewrite scoef_sgz, Hs, Hd, He in A.
    unfold sgz in A. rewrite Z.mul_1_l in A. exact A. }
  assert (Ab : at_exp B (n * 10 ^ (t - g)) g).
  { apply at_exp_lower; [unfold at_exp, B; reflexivity|unfold g; lia]. }
  destruct H as [HU HL]. split; intro HH.
  - apply (proj2 (at_exp_le _ _ _ _ _ Ay Ab)). apply HU. apply (proj1 (at_exp_le _ _ _ _ _ Ax Ab)). exact HH.
  - apply (proj2 (at_exp_le _ _ _ _ _ Ab Ay)). apply HL. apply (proj1 (at_exp_le _ _ _ _ _ Ab Ax)). exact HH.
Qed.

Lemma rep6_nonneg_form : forall B, rep6 B -> 0 <= B -> exists n t, (0 <= n < 10 ^ 6)%Z /\ B == inject_Z n * p10 t.
Proof.
  intros B [n [t [Hn H]]] HB. exists (Z.abs n), t. split; [lia|].
  assert (A := at_exp_abs _ _ _ H). unfold at_exp in A. rewrite <- A. symmetry. apply Qabs_pos. exact HB.
Qed.

Lemma rep6_opp : forall B, rep6 B -> rep6 (- B).
Proof.
  intros B [n [t [Hn H]]]. exists (- n)%Z, t. split; [lia|]. unfold at_exp in *. rewrite H, inject_Z_opp. ring.
Qed.

Lemma rep6_zero : rep6 0.
Proof. exists 0%Z, 0%Z. split; [reflexivity|]. unfold at_exp. ring. Qed.

(* general signs *)
Lemma fix6_barrier_up : forall d B, rep6 B -> dval d <= B -> dval (dfix ctx6 d) <= B.
Proof.
  intros d B HB H.
  assert (Hy := dval_abs_nonneg d).
  assert (Hfy : 0 <= dval (dfix ctx6 (dabs d))).
  { destruct (fix6_barrier_pos (dabs d) 0 0 eq_refl ltac:(lia)) as [_ L].
    assert (E0 : inject_Z 0 * p10 0 == 0) by ring. rewrite E0 in L. apply L. exact Hy. }
  rewrite dfix_sign. rewrite dval_sign in H.
  destruct (dneg d); unfold sgz in *; [change (inject_Z (-1)) with (- (1)) in * | change (inject_Z 1) with 1 in *].
  - (* d = -y *)
    destruct (Qlt_le_dec B 0) as [Bn|Bp].
    + assert (R := rep6_opp B HB).
      destruct (rep6_nonneg_form (- B) R ltac:(lra)) as [n [t [Hn E]]].
      destruct (fix6_barrier_pos (dabs d) n t eq_refl Hn) as [_ L]. rewrite <- E in L.
      assert (- B <= dval (dfix ctx6 (dabs d))) by (apply L; lra). lra.
    + lra.
  - assert (Bp : 0 <= B) by lra.
    destruct (rep6_nonneg_form B HB Bp) as [n [t [Hn E]]].
    destruct (fix6_barrier_pos (dabs d) n t eq_refl Hn) as [U _]. rewrite <- E in U.
    assert (dval (dfix ctx6 (dabs d)) <= B) by (apply U; lra). lra.
Qed.

Lemma fix6_barrier_lo : forall d B, rep6 B -> B <= dval d -> B <= dval (dfix ctx6 d).
Proof.
  intros d B HB H.
  assert (Hy := dval_abs_nonneg d).
  assert (Hfy : 0 <= dval (dfix ctx6 (dabs d))).
  { destruct (fix6_barrier_pos (dabs d) 0 0 eq_refl ltac:(lia)) as [_ L].
    assert (E0 : inject_Z 0 * p10 0 == 0) by ring. rewrite E0 in L. apply L. exact Hy. }
  rewrite dfix_sign. rewrite dval_sign in H.
  destruct (dneg d); unfold sgz in *; [change (inject_Z (-1)) with (- (1)) in * | change (inject_Z 1) with 1 in *].
  - assert (Bn : B <= 0) by lra.
    assert (R := rep6_opp B HB).
    destruct (rep6_nonneg_form (- B) R ltac:(lra)) as [n [t [Hn E]]].
    destruct (fix6_barrier_pos (dabs d) n t eq_refl Hn) as [U _]. rewrite <- E in U.
    assert (dval (dfix ctx6 (dabs d)) <= - B) by (apply U; lra). lra.
  - destruct (Qlt_le_dec B 0) as [Bn|Bp]; [lra|].
    destruct (rep6_nonneg_form B HB Bp) as [n [t [Hn E]]].
    destruct (fix6_barrier_pos (dabs d) n t eq_refl Hn) as [_ L]. rewrite <- E in L.
    assert (B <= dval (dfix ctx6 (dabs d))) by (apply L; lra). lra.
Qed.

(* ------------------------------------------------------------------ *)
(* barriers for the operations                                          *)
(* ------------------------------------------------------------------ *)

Lemma dadd6_barrier : forall a b B, rep6 B ->
  (dval a + dval b <= B -> dval (dadd ctx6 a b) <= B) /\ (B <= dval a + dval b -> B <= dval (dadd ctx6 a b)).
Proof.
  intros a b B HB. unfold dadd.
  match goal with |- context [dfix ctx6 ?D] => assert (E : dval D == dval a + dval b) end.
  { apply dval_add_exact. intro NZ. apply Z.eqb_neq in NZ. rewrite NZ. reflexivity. }
  split; intro H.
  - apply fix6_barrier_up; [exact HB|]. rewrite E. exact H.
  - apply fix6_barrier_lo; [exact HB|]. rewrite E. exact H.
Qed.

Lemma dsub6_barrier : forall a b B, rep6 B ->
  (dval a - dval b <= B -> dval (dsub ctx6 a b) <= B) /\ (B <= dval a - dval b -> B <= dval (dsub ctx6 a b)).
Proof.
  intros a b B HB. unfold dsub. destruct (dadd6_barrier a (dneg_of b) B HB) as [U L].
  rewrite dval_neg in U, L. split; intro H; [apply U|apply L]; lra.
Qed.

Lemma dmul6_barrier : forall a b B, rep6 B ->
  (dval a * dval b <= B -> dval (dmul ctx6 a b) <= B) /\ (B <= dval a * dval b -> B <= dval (dmul ctx6 a b)).
Proof.
  intros a b B HB. unfold dmul.
  set (D0 := mkDec (xorb (dneg a) (dneg b)) (dcoef a * dcoef b) (dexp a + dexp b)).
  assert (E : dval D0 == dval a * dval b).
  { unfold dval, D0. cbn [dexp]. rewrite ConvertQ.p10_add.
    assert (E1 : scoef (mkDec (xorb (dneg a) (dneg b)) (dcoef a * dcoef b) (dexp a + dexp b)) = (scoef a * scoef b)%Z).
    { unfold scoef. simpl. destruct (dneg a), (dneg b); simpl; lia. }
    rewrite E1, inject_Z_mult. ring. }
  split; intro H.
  - apply fix6_barrier_up; [exact HB|]. rewrite E. exact H.
  - apply fix6_barrier_lo; [exact HB|]. rewrite E. exact H.
Qed.

Lemma near_nonneg : forall x y, 0 <= x -> near x y -> 0 <= y.
Proof.
  intros x y Hx H. unfold near, eps6 in H. rewrite (Qabs_pos x Hx) in H.
  apply Qabs_Qle_condition in H. destruct H as [H _].
  assert ((1 # 200000) * x <= x).
  { setoid_replace x with (1 * x) at 2 by ring. apply Qmult_le_compat_r; [discriminate|exact Hx]. }
  lra.
Qed.

(* division of a nonnegative by a positive number: a six-digit number above the
   true quotient stays above the computed one *)
Lemma ddiv6_barrier_up : forall a b B, 0 <= dval a -> dneg b = false -> dcoef b <> 0%N ->
  rep6 B -> dval a / dval b <= B ->
  exists q, ddiv ctx6 a b = Some q /\ dval q <= B /\ 0 <= dval q.
Proof.
  intros a b B Ha0 Hsb Hb HB H.
  destruct (ddiv6_rnd a b Hb) as [qd [Hq [Hnear _]]].
  assert (Hbpos : 0 < dval b).
  { unfold dval. rewrite scoef_sgz, Hsb. unfold sgz. rewrite Z.mul_1_l.
    apply Qmult_lt_0_compat; [|apply ConvertQ.p10_pos]. rewrite <- (Zlt_Qlt 0). lia. }
  assert (Hquot0 : 0 <= dval a / dval b).
  { apply Qle_shift_div_l; [exact Hbpos|]. lra. }
  exists qd. split; [exact Hq|]. split; [|exact (near_nonneg _ _ Hquot0 Hnear)].
  destruct (N.eq_dec (dcoef a) 0) as [Ha|Ha].
  - (* zero dividend: the result is a zero *)
    unfold ddiv in Hq. destruct (dcoef b =? 0)%N eqn:Eb; [lia|]. rewrite Ha in Hq. simpl (0 =? 0)%N in Hq. cbv iota in Hq.
    injection Hq as <-.
    assert (E : dval (mkDec (xorb (dneg a) (dneg b)) 0 (dexp a - dexp b)) == 0).
    { unfold dval. rewrite scoef_sgz. cbn [dcoef dneg dexp]. simpl Z.of_N. rewrite Z.mul_0_r. ring. }
    apply fix6_barrier_up; [exact HB|]. rewrite E. lra.
  - assert (Hsa : dneg a = false).
    { destruct (dneg a) eqn:Es; [exfalso|reflexivity].
      assert (dval a < 0); [|lra].
      unfold dval. rewrite scoef_sgz, Es. unfold sgz.
      assert (0 < inject_Z (Z.of_N (dcoef a)) * p10 (dexp a)).
      { apply Qmult_lt_0_compat; [|apply ConvertQ.p10_pos]. rewrite <- (Zlt_Qlt 0). lia. }
      rewrite inject_Z_mult. change (inject_Z (-1)) with (- (1)). lra. }
    rewrite (ddiv_unfold ctx6 a b Ha Hb) in Hq. injection Hq as <-.
    assert (QS := quot_scaled a b Ha Hb). rewrite Hsa, Hsb in QS. change (xorb false false) with false in QS. unfold sgz in QS. rewrite Z.mul_1_l in QS.
    destruct (div_operands ctx6 a b Ha Hb) as [Hden Hnum].
    change (10 ^ Z.of_N (cprec ctx6))%Z with 1000000%Z in Hnum.
    rewrite Hsa, Hsb. change (xorb false false) with false.
    set (num := dnum ctx6 a b) in *. set (den := dden ctx6 a b) in *.
    set (e := (dexp a - dexp b - dshift ctx6 a b)%Z) in *.
    assert (Hdm := N.div_mod num den ltac:(lia)). assert (Hmod := N.mod_lt num den ltac:(lia)).
    destruct (num mod den =? 0)%N eqn:Er.
    + (* exact: the unrounded decimal is the quotient *)
      apply fix6_barrier_up; [exact HB|].
      destruct (strip0_spec (S (N.to_nat (N.log2 (num / den)))) (num / den)%N e (dexp a - dexp b)) as [S1 S2].
      set (st := strip0 (S (N.to_nat (N.log2 (num / den)))) (num / den)%N e (dexp a - dexp b)) in *.
      assert (HD := dval_sval (mkDec false (fst st) (snd st)) e ltac:(cbn [dexp]; lia)).
      unfold sval in HD. cbn [dexp] in HD. rewrite scoef_sgz in HD. cbn [dneg dcoef] in HD. unfold sgz in HD.
      rewrite Z.mul_1_l, S2 in HD.
      assert (Hdq0 : ~ inject_Z (Z.of_N den) == 0) by (apply injZ_neq0; lia).
      assert (EQ : dval (mkDec false (fst st) (snd st)) == dval a / dval b).
      { apply (Qmult_inj_r _ _ _ Hdq0). apply (at_exp_scale _ _ _ (Z.of_N den)) in HD.
        apply (proj2 (at_exp_eq _ _ _ _ _ HD QS)).
        assert ((num mod den = 0)%N) by lia. rewrite H0 in Hdm. lia. }
      change (dval (mkDec false (fst st) (snd st)) <= B). rewrite EQ. exact H.
    + (* inexact: floor (+1) of the true coefficient is still below the barrier *)
      apply fix6_barrier_up; [exact HB|].
      set (q := (num / den)%N) in *. set (q' := if (q mod 5 =? 0)%N then N.succ q else q).
      assert (Hq' : (q' <= N.succ q)%N) by (unfold q'; destruct (q mod 5 =? 0)%N; lia).
      assert (Hr : (0 < num mod den)%N) by lia.
      assert (Bpos : 0 <= B) by lra.
      destruct (rep6_nonneg_form B HB Bpos) as [n [t [Hn EB]]].
      assert (Ab : at_exp B n t) by exact EB.
      assert (Hdq : 0 < inject_Z (Z.of_N den)) by (rewrite <- (Zlt_Qlt 0); exact Hden).
      assert (HqB : dval a / dval b * inject_Z (Z.of_N den) <= B * inject_Z (Z.of_N den)).
      { apply Qmult_le_compat_r; [exact H|apply Qlt_le_weak; exact Hdq]. }
      assert (Ab' := at_exp_scale _ _ _ (Z.of_N den) Ab).
      assert (Hte : (e < t)%Z).
      { destruct (Z_lt_le_dec e t) as [?|G]; [assumption|exfalso].
        assert (QS' := at_exp_lower _ _ _ t QS G).
        apply (proj1 (at_exp_le _ _ _ _ _ QS' Ab')) in HqB.
        assert (P := ConvertInt.p10_pos (e - t) ltac:(lia)). nia. }
      assert (Ab2 := at_exp_lower _ _ _ e Ab' ltac:(lia)).
      apply (proj1 (at_exp_le _ _ _ _ _ QS Ab2)) in HqB.
      set (beta := (n * 10 ^ (t - e))%Z) in *.
      assert (Hb1 : (Z.of_N num <= beta * Z.of_N den)%Z) by (unfold beta; lia).
      assert (Hb2 : (Z.of_N q < beta)%Z).
      { apply (Z.mul_lt_mono_pos_r (Z.of_N den)); [lia|]. lia. }
      assert (AD := dval_at (mkDec false q' e)). rewrite scoef_sgz in AD. cbn [dneg dcoef dexp] in AD. unfold sgz in AD.
      rewrite Z.mul_1_l in AD.
      assert (Ab3 := at_exp_lower _ _ _ e Ab ltac:(lia)). fold beta in Ab3.
      apply (proj2 (at_exp_le _ _ _ _ _ AD Ab3)). lia.
Qed.

(* rounding a number between 0 and an integer K to the nearest integer stays there *)
Lemma rhaQ_bounds : forall x K, 0 <= x -> x <= inject_Z K -> (0 <= rhaQ x <= K)%Z.
Proof.
  intros [n d] K H0 HK. unfold rhaQ. cbn [Qnum Qden].
  unfold Qle in H0, HK. cbn [Qnum Qden inject_Z] in H0, HK. rewrite Z.mul_1_r in H0, HK. simpl in H0.
  unfold rhaz. rewrite (Z.sgn_pos (Z.pos d)), (Z.abs_eq (Z.pos d)), (Z.abs_eq n) by lia. rewrite Z.mul_1_r.
  set (R := ((2 * n + Z.pos d) / (2 * Z.pos d))%Z).
  assert (HR0 : (0 <= R)%Z) by (apply Z.div_pos; lia).
  assert (HRK : (R < K + 1)%Z) by (apply Z.div_lt_upper_bound; lia).
  destruct (Z.sgn_spec n) as [[? E]|[[? E]|[? E]]]; rewrite E; lia.
Qed.

(* ------------------------------------------------------------------ *)
(* the result of the six-digit path stays in [min, max]                 *)
(* ------------------------------------------------------------------ *)

Lemma snap_dec_in_range : forall c m s W K,
  dcoef s <> 0%N -> dneg s = false ->
  dval m <= dval c -> dval c - dval m <= W ->
  rep6 (dval m) -> rep6 (dval m + W) -> rep6 W ->
  (0 <= K < 10 ^ 6)%Z -> W == inject_Z K * dval s ->
  exists res, snap_dec c m s = Ok res /\ dval m <= dval res <= dval m + W.
Proof.
  intros c m s W K Hs Hsn Hlo Hhi RO RM RW HK HW.
  assert (Hspos : 0 < dval s).
  { unfold dval. rewrite scoef_sgz, Hsn. unfold sgz. rewrite Z.mul_1_l.
    apply Qmult_lt_0_compat; [|apply ConvertQ.p10_pos]. rewrite <- (Zlt_Qlt 0). lia. }
  assert (RK : rep6 (inject_Z K)).
  { exists K, 0%Z. split; [lia|]. unfold at_exp, p10. rewrite Qpower_0_r. ring. }
  unfold snap_dec.
  (* d = val - offset *)
  destruct (dsub6_barrier c m W RW) as [U1 _]. destruct (dsub6_barrier c m 0 rep6_zero) as [_ L1].
  set (d := dsub ctx6 c m) in *.
  assert (Hd : 0 <= dval d <= W) by (split; [apply L1; lra|apply U1; exact Hhi]).
  (* q = d / step *)
  assert (Hquot : dval d / dval s <= inject_Z K).
  { apply Qle_shift_div_r; [exact Hspos|]. rewrite <- HW. apply Hd. }
  destruct (ddiv6_barrier_up d s (inject_Z K) (proj1 Hd) Hsn Hs RK Hquot) as [q [Hq [HqK Hq0]]].
  rewrite Hq.
  (* r = round(q) *)
  destruct (rhaQ_bounds (dval q) K Hq0 HqK) as [Hr0 HrK].
  set (ti := to_integral HalfUp q). assert (Eti : dval ti == inject_Z (rhaQ (dval q))) by apply to_integral_Q.
  (* m' = r * step *)
  assert (Hprod : 0 <= dval ti * dval s <= W).
  { rewrite Eti. split.
    - apply Qmult_le_0_compat; [rewrite <- (Zle_Qle 0); exact Hr0|lra].
    - rewrite HW. apply Qmult_le_compat_r; [rewrite <- Zle_Qle; exact HrK|lra]. }
  destruct (dmul6_barrier ti s W RW) as [U3 _]. destruct (dmul6_barrier ti s 0 rep6_zero) as [_ L3].
  set (pm := dmul ctx6 ti s) in *.
  assert (Hpm : 0 <= dval pm <= W) by (split; [apply L3|apply U3]; apply Hprod).
  (* res = offset + m' *)
  destruct (dadd6_barrier m pm (dval m) RO) as [_ L4]. destruct (dadd6_barrier m pm (dval m + W) RM) as [U4 _].
  eexists. split; [reflexivity|]. split; [apply L4|apply U4]; lra.
Qed.

Lemma float_in_range_lemma : forall m M s str v K,
  dcoef s <> 0%N -> dneg s = false -> dval m <= dval M ->
  rep6 (dval m) -> rep6 (dval M) -> rep6 (dval M - dval m) ->
  (0 <= K < 10 ^ 6)%Z -> dval M - dval m == inject_Z K * dval s ->
  exists res, ideal_convert FFloat (Some m) (Some M) (Some s) str (RFin v) = Ok (VDec res) /\
              dval m <= dval res <= dval M.
Proof.
  intros m M s str v K Hs Hsn Hle RO RM RW HK HW.
  rewrite float_step_unfold by assumption.
  set (c := clamp (Some m) (Some M) v).
  assert (Hc : dval m <= dval c <= dval M).
  { unfold c. rewrite clamp_Q. unfold clampQ. simpl.
    split.
    - apply Q.min_glb; [exact Hle|apply Q.le_max_l].
    - apply Q.le_min_l. }
  destruct (snap_dec_in_range c m s (dval M - dval m) K Hs Hsn (proj1 Hc) ltac:(lra) RO
              ltac:(apply (rep6_compat (dval M)); [ring|exact RM]) RW HK HW) as [res [H0 H1]].
  exists res. rewrite H0. split; [reflexivity|]. lra.
Qed.

(* integer formats taking the decimal path with integer bounds: the int handed over is in range too *)
Lemma int_dec_path_in_range_lemma : forall f m M s str v K zm zM,
  is_integer_fmt f = true -> dcoef s <> 0%N -> dneg s = false -> dval m <= dval M ->
  is_integral HalfUp (clamp (Some m) (Some M) v) && is_integral HalfUp m && is_integral HalfUp s = false ->
  dval m == inject_Z zm -> dval M == inject_Z zM ->
  rep6 (dval m) -> rep6 (dval M) -> rep6 (dval M - dval m) ->
  (0 <= K < 10 ^ 6)%Z -> dval M - dval m == inject_Z K * dval s ->
  exists z, ideal_convert f (Some m) (Some M) (Some s) str (RFin v) = Ok (VInt z) /\ (zm <= z <= zM)%Z.
Proof.
  intros f m M s str v K zm zM Hf Hs Hsn Hle Hni Em EM RO RM RW HK HW.
  assert (Hcc : ideal_convert f (Some m) (Some M) (Some s) str (RFin v) = ideal_number f (Some m) (Some M) (Some s) (RFin v))
    by (destruct f; try discriminate; reflexivity).
  rewrite Hcc. unfold ideal_number. destruct (dcoef s =? 0)%N eqn:E; [lia|].
  unfold ideal_snap. rewrite Hf.
  replace (true && is_integral HalfUp (clamp (Some m) (Some M) v) && is_integral HalfUp m && is_integral HalfUp s) with false
    by (simpl; symmetry; exact Hni).
  set (c := clamp (Some m) (Some M) v) in *.
  assert (Hc : dval m <= dval c <= dval M).
  { unfold c. rewrite clamp_Q. unfold clampQ. simpl. split; [apply Q.min_glb; [exact Hle|apply Q.le_max_l]|apply Q.le_min_l]. }
  destruct (snap_dec_in_range c m s (dval M - dval m) K Hs Hsn (proj1 Hc) ltac:(lra) RO
              ltac:(apply (rep6_compat (dval M)); [ring|exact RM]) RW HK HW) as [res [H0 H1]].
  rewrite H0. simpl. eexists. split; [reflexivity|].
  assert (Hh := to_integral_even_half res).
  set (z := dec_to_Z (to_integral HalfEven res)) in *.
  apply Qabs_Qle_condition in Hh. destruct Hh as [Hh1 Hh2].
  assert (B1 : inject_Z zm - (1 # 2) <= inject_Z z) by (rewrite <- Em; lra).
  assert (B2 : inject_Z z <= inject_Z zM + (1 # 2)) by (rewrite <- EM; lra).
  unfold Qle, Qminus, Qplus, Qopp, inject_Z in B1, B2. cbn [Qnum Qden] in B1, B2. lia.
Qed.

Lemma barrier_lemma : forall d B, rep6 B ->
  (dval d <= B -> dval (dfix ctx6 d) <= B) /\ (B <= dval d -> B <= dval (dfix ctx6 d)).
Proof. intros d B HB. split; [apply fix6_barrier_up|apply fix6_barrier_lo]; exact HB. Qed.
