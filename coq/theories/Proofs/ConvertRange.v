(* C14: six-digit numbers are barriers for the six-digit roundings, hence the
   result of the decimal path stays inside [min, max] when the bounds, their
   distance and the number of steps between them have at most six digits. *)
From Coq Require Import List NArith ZArith Bool Lia ZifyN ZifyBool QArith Qabs Qpower Qminmax Lqa.
From AHK Require Import Lib.Res Model.Convert Proofs.ConvertInt Proofs.ConvertDec Proofs.ConvertDiv
  Proofs.ConvertQ Proofs.ConvertFrac.
Local Open Scope Z_scope.

(* ------------------------------------------------------------------ *)
(* _fix never crosses a number n * 10^t with n < 10^p (coefficients)    *)
(* ------------------------------------------------------------------ *)

Lemma fix_core : forall cx d n t, (1 <= cprec cx)%N -> (n < 10 ^ cprec cx)%N ->
  exists k, dexp (dfix cx d) = dexp d + Z.of_N k /\ dneg (dfix cx d) = dneg d /\
    forall g, g <= dexp d -> g <= t ->
      let X := Z.of_N (dcoef d) * 10 ^ (dexp d - g) in
      let Y := Z.of_N (dcoef (dfix cx d)) * 10 ^ (dexp d + Z.of_N k - g) in
      let B := Z.of_N n * 10 ^ (t - g) in
      (X <= B -> Y <= B) /\ (B <= X -> B <= Y).
Proof.
  intros cx d n t Hp Hn.
  destruct (N.le_gt_cases (ndigits (dcoef d)) (cprec cx)) as [S|L].
  - rewrite dfix_short by assumption. exists 0%N. simpl Z.of_N. rewrite Z.add_0_r.
    split; [reflexivity|]. split; [reflexivity|]. intros g Hg Ht. cbv zeta. split; intro; assumption.
  - destruct (dfix_long cx d Hp L) as [k [He [Hs [Hv [Hk _]]]]].
    exists k. split; [exact He|]. split; [exact Hs|]. intros g Hg Ht. cbv zeta.
    set (c := dcoef d) in *. set (e := dexp d) in *. set (p := cprec cx) in *.
    set (k0 := (ndigits c - p)%N) in *.
    destruct (round_drop_bound (crnd cx) c k0) as [Hc' Hb].
    set (c' := round_drop (crnd cx) c k0) in *.
    assert (Hc0 : c <> 0%N). { intro Z0. rewrite Z0 in L. rewrite ndigits_0 in L. lia. }
    destruct (ndigits_specZ c Hc0) as [_ [Hlo _]].
    set (P := Z.of_N (pow10 k0)) in *.
    assert (HP : P = 10 ^ Z.of_N k0) by (unfold P, pow10; rewrite N2Z.inj_pow; reflexivity).
    assert (HPpos : 0 < P) by (rewrite HP; apply ConvertInt.p10_pos; lia).
    assert (Hk0 : (1 <= k0)%N) by (unfold k0; lia).
    (* value of the result coefficient at exponent e : c' * P *)
    assert (EV : Z.of_N (dcoef (dfix cx d)) * 10 ^ Z.of_N k = Z.of_N c' * P).
    { change (10 ^ Z.of_N k) with (Z.of_N 10 ^ Z.of_N k). rewrite <- N2Z.inj_pow, <- N2Z.inj_mul.
      fold (pow10 k). rewrite Hv. rewrite N2Z.inj_mul. reflexivity. }
    set (E := 10 ^ (e - g)). assert (HE : 0 < E) by (apply ConvertInt.p10_pos; lia).
    assert (EY : Z.of_N (dcoef (dfix cx d)) * 10 ^ (e + Z.of_N k - g) = Z.of_N c' * P * E).
    { replace (e + Z.of_N k - g) with (Z.of_N k + (e - g)) by lia. rewrite Z.pow_add_r by lia.
      rewrite Z.mul_assoc, EV. reflexivity. }
    rewrite EY. clear EY EV.
    (* quotient and remainder of c by P *)
    assert (Hdm := N.div_mod c (pow10 k0) ltac:(assert (Q := pow10_pos k0); lia)).
    assert (Hm := N.mod_lt c (pow10 k0) ltac:(assert (Q := pow10_pos k0); lia)).
    set (q := Z.of_N (c / pow10 k0)) in *. set (r := Z.of_N (c mod pow10 k0)).
    assert (Hcq : Z.of_N c = q * P + r) by (unfold q, r, P; lia).
    assert (Hr : 0 <= r < P) by (unfold r, P; lia).
    assert (Hq0 : 0 <= q) by (unfold q; lia).
    assert (Hcc : Z.of_N c' = q \/ (Z.of_N c' = q + 1 /\ 0 < r)).
    { destruct Hc' as [->| ->]; [left; reflexivity|right]. split; [unfold q; lia|].
      rewrite N2Z.inj_succ in Hb. fold q in Hb. fold P in Hb. nia. }
    (* 10^(D-1) = 10^(p-1) * P <= c *)
    assert (Hlow : 10 ^ (Z.of_N p - 1) * P <= Z.of_N c).
    { rewrite HP. rewrite <- Z.pow_add_r by lia.
      replace (Z.of_N p - 1 + Z.of_N k0) with (Z.of_N (ndigits c) - 1) by (unfold k0; lia). exact Hlo. }
    assert (Hp1 : 0 < 10 ^ (Z.of_N p - 1)) by (apply ConvertInt.p10_pos; lia).
    assert (Hnp : Z.of_N n < 10 * 10 ^ (Z.of_N p - 1)).
    { replace (10 * 10 ^ (Z.of_N p - 1)) with (10 ^ Z.of_N p).
      - change 10 with (Z.of_N 10). rewrite <- N2Z.inj_pow. lia.
      - replace (Z.of_N p) with (1 + (Z.of_N p - 1)) at 1 by lia. rewrite Z.pow_add_r by lia. reflexivity. }
    set (T := 10 ^ (t - g)). assert (HT : 0 < T) by (apply ConvertInt.p10_pos; lia).
    destruct (Z_le_gt_dec (e + Z.of_N k0) t) as [A|Bc].
    + (* the barrier is a multiple of the new unit P * E *)
      assert (ET : T = 10 ^ (t - e - Z.of_N k0) * P * E).
      { unfold T, E. rewrite HP. rewrite <- !Z.pow_add_r by lia. f_equal. lia. }
      set (N' := Z.of_N n * 10 ^ (t - e - Z.of_N k0)).
      assert (EB : Z.of_N n * T = N' * P * E) by (rewrite ET; unfold N'; ring).
      rewrite EB. split; intro H.
      * assert (H1 : Z.of_N c <= N' * P) by nia.
        assert (Z.of_N c' <= N') by (destruct Hcc as [->|[-> Hr0]]; nia).
        nia.
      * assert (H1 : N' * P <= Z.of_N c) by nia.
        assert (N' <= q) by nia.
        assert (N' <= Z.of_N c') by (destruct Hcc as [->|[-> _]]; lia).
        nia.
    + (* the barrier is below 10^(D-1) * E <= c * E *)
      assert (ET : 10 * T <= P * E).
      { assert (X1 : P * E = 10 ^ (e + Z.of_N k0 - t - 1) * (10 * T)).
        { unfold T, E. rewrite HP. replace 10 with (10 ^ 1) at 3 by reflexivity.
          rewrite <- !Z.pow_add_r by lia. f_equal. lia. }
        assert (0 < 10 ^ (e + Z.of_N k0 - t - 1)) by (apply ConvertInt.p10_pos; lia). nia. }
      assert (HB : Z.of_N n * T < 10 ^ (Z.of_N p - 1) * P * E) by nia.
      split; intro H.
      * exfalso. nia.
      * assert (10 ^ (Z.of_N p - 1) <= q).
        { apply Z.lt_succ_r. apply Z.lt_le_trans with (m := q + 1); [|lia]. nia. }
        assert (q <= Z.of_N c') by (destruct Hcc as [->|[-> _]]; lia). nia.
Qed.
