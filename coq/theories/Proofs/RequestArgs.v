(* Lemmas about Model/RequestArgs.v: which walk over the argument sees the items. *)
From Coq Require Import List NArith ZArith Arith Bool Lia.
From AHK Require Import Lib.Res Lib.ByteStr Model.Request Model.RequestArgs
  Proofs.RequestLib Proofs.RequestParse Proofs.RequestIds.
Import ListNotations.

Lemma walk_first_lemma : forall (A : Type) (it : iterable A), fst (walk it) = asked it.
Proof. reflexivity. Qed.

Lemma walk_kind_lemma : forall (A : Type) (it : iterable A), it_kind (snd (walk it)) = it_kind it.
Proof. intros A [[|] l]; reflexivity. Qed.

Lemma after_walks_reiterable_lemma : forall (A : Type) n (it : iterable A),
    it_kind it = Reiterable -> after_walks n it = it.
Proof.
  intros A n; induction n as [|n IH]; intros it H; [reflexivity|].
  cbn [after_walks]. assert (E : snd (walk it) = it) by (unfold walk; rewrite H; reflexivity).
  rewrite E. apply IH; exact H.
Qed.

Lemma after_walks_one_shot_lemma : forall (A : Type) n (it : iterable A),
    it_kind it = OneShot -> after_walks (S n) it = mkIter OneShot [].
Proof.
  intros A n; induction n as [|n IH]; intros it H.
  - cbn [after_walks]. unfold walk; rewrite H; reflexivity.
  - change (after_walks (S (S n)) it) with (after_walks (S n) (snd (walk it))).
    apply IH. rewrite walk_kind_lemma. exact H.
Qed.

(* the walk made after n earlier complete walks sees every item iff the argument is
   re-iterable or n = 0; a one-shot argument has nothing left for any later walk *)
Lemma nth_walk_lemma : forall (A : Type) n (it : iterable A),
    fst (walk (after_walks n it)) =
    match it_kind it, n with
    | Reiterable, _ => asked it
    | OneShot, O => asked it
    | OneShot, S _ => []
    end.
Proof.
  intros A n it. destruct (it_kind it) eqn:K.
  - rewrite after_walks_reiterable_lemma by exact K. reflexivity.
  - destruct n as [|n]; [reflexivity|]. rewrite after_walks_one_shot_lemma by exact K. reflexivity.
Qed.

Lemma get_any_iterable_lemma : forall host k ids,
    pairing_get_characteristics host (mkIter k ids) = [api_get_characteristics host ids].
Proof. reflexivity. Qed.

Lemma put_any_iterable_lemma : forall host k cs,
    pairing_put_characteristics host (mkIter k cs) = [api_put_characteristics host cs].
Proof. reflexivity. Qed.

Lemma put_bytes_any_iterable_lemma : forall host k cs,
    wf_host host = true ->
    map (fun r => parse_req (render_req r)) (pairing_put_characteristics host (mkIter k cs))
    = [Some (api_put_characteristics host cs)].
Proof.
  intros host k cs H. cbn [pairing_put_characteristics map walk fst it_items].
  rewrite parse_render_lemma; [reflexivity|]. apply api_put_wf; exact H.
Qed.

Lemma get_bytes_any_iterable_lemma : forall host k ids,
    wf_host host = true ->
    map (fun r => parse_req (render_req r)) (pairing_get_characteristics host (mkIter k ids))
    = [Some (api_get_characteristics host ids)].
Proof.
  intros host k ids H. cbn [pairing_get_characteristics map walk fst it_items].
  rewrite parse_render_lemma; [reflexivity|]. apply api_get_wf; exact H.
Qed.

Lemma subs_reiterable_lemma : forall host ev ids,
    pairing_update_subscriptions host ev (mkIter Reiterable ids) = api_update_subscriptions host ev ids.
Proof. reflexivity. Qed.

Lemma subs_one_shot_lemma : forall host ev ids,
    pairing_update_subscriptions host ev (mkIter OneShot ids) = [].
Proof. reflexivity. Qed.

(* whatever the argument kind, nothing is written that the caller did not ask for: the
   requests are the canonical per-aid requests of the asked ids, or there are none *)
Lemma subs_any_iterable_lemma : forall host ev arg,
    pairing_update_subscriptions host ev arg = api_update_subscriptions host ev (asked arg)
    \/ pairing_update_subscriptions host ev arg = [].
Proof. intros host ev [[|] ids]; [left|right]; reflexivity. Qed.
