(* Invariants of the session-history machine (Model/VerifyHist.v). *)
From Coq Require Import List NArith Arith Bool Lia.
From AHK Require Import Lib.Res Lib.ByteStr Model.Tlv Model.Sym Model.Verify Model.VerifyHist
     Proofs.SymFacts Proofs.VerifyFacts.
Import ListNotations.

(* a Done run started from a rooted (or absent) resume state yields a rooted secret *)
Lemma done_rooted tr pd eph rs m2 m4 sid k :
  (forall r, rs = Some r -> rooted tr pd (rs_secret r)) ->
  pv_run tr pd eph rs m2 m4 = PDone sid k -> rooted tr pd k.
Proof.
  intros Hrs H. destruct (pv_sound_l _ _ _ _ _ _ _ _ H) as [Hf|Hr].
  - exact (root_full tr pd eph m2 m4 sid k Hf).
  - pose proof Hr as Hr'. unfold pv_resume_auth in Hr'. cbv zeta in Hr'.
    destruct Hr' as (r & meth & mb & pt & Er & _). subst rs.
    exact (root_resume tr pd eph r m2 sid k (Hrs r eq_refl) Hr).
Qed.

Lemma g_inv_init tr pd : g_inv tr pd g_init.
Proof. repeat split; cbn; intros; discriminate. Qed.

Lemma g_inv_dead tr pd : g_inv tr pd g_dead.
Proof. repeat split; cbn; intros; discriminate. Qed.

Lemma g_verify_inv tr pd st eph m2 m4 : g_inv tr pd st -> g_inv tr pd (g_verify tr pd st eph m2 m4).
Proof.
  intros (Hk & Hr & Hl). unfold g_verify.
  set (rs := match tr with TBLE => gs_resume st | _ => None end).
  assert (Hrs : forall r, rs = Some r -> rooted tr pd (rs_secret r)).
  { intros r E. unfold rs in E. destruct tr; try discriminate. exact (proj2 (Hr r E)). }
  destruct (pv_run tr pd eph rs m2 m4) as [f|req sh|sid k|] eqn:E.
  - unfold g_verify_failed. destruct tr; [apply g_inv_dead|exact (conj Hk (conj Hr Hl))|].
    case (gs_live st); [apply g_inv_dead|exact (conj Hk (conj Hr Hl))].
  - exfalso. exact (pv_run_not_send _ _ _ _ _ _ _ _ E).
  - pose proof (done_rooted _ _ _ _ _ _ _ _ Hrs E) as Hroot.
    split; [|split]; cbn.
    + intros ks G; inversion G; subst. exists k. split; [reflexivity|assumption].
    + destruct tr; intros r0 G; inversion G; subst; cbn. split; [reflexivity|assumption].
    + intros _; discriminate.
  - unfold g_verify_failed. destruct tr; [apply g_inv_dead|exact (conj Hk (conj Hr Hl))|].
    case (gs_live st); [apply g_inv_dead|exact (conj Hk (conj Hr Hl))].
Qed.

Lemma g_drop_inv tr pd st : g_inv tr pd st -> g_inv tr pd (g_drop tr st).
Proof.
  intros (Hk & Hr & Hl). unfold g_drop. destruct tr; (split; [|split]); cbn; try (intros; discriminate); auto.
Qed.

Lemma g_step_inv tr pd st ev : g_inv tr pd st -> g_inv tr pd (g_step tr pd st ev).
Proof.
  intros H. destruct ev; cbn [g_step].
  - now apply g_verify_inv.
  - now apply g_drop_inv.
  - unfold g_reset. destruct tr; [now apply g_drop_inv|now apply g_drop_inv|apply g_inv_dead].
Qed.

Lemma g_fold_inv tr pd : forall h st, g_inv tr pd st -> g_inv tr pd (fold_left (g_step tr pd) h st).
Proof. induction h as [|ev r IH]; intros st H; cbn; [assumption|]. apply IH. now apply g_step_inv. Qed.

Lemma g_run_inv_l tr pd h : g_inv tr pd (g_run tr pd h).
Proof. apply g_fold_inv. apply g_inv_init. Qed.

Lemma g_run_snoc tr pd h ev : g_run tr pd (h ++ [ev]) = g_step tr pd (g_run tr pd h) ev.
Proof. unfold g_run. now rewrite fold_left_app. Qed.

(* ---- one-step characterisations ---- *)
Lemma g_verify_done_l tr pd st eph m2 m4 sid k :
  pv_run tr pd eph (match tr with TBLE => gs_resume st | _ => None end) m2 m4 = PDone sid k ->
  let st' := g_verify tr pd st eph m2 m4 in
  gs_live st' = true /\ gs_keys st' = Some (glue tr k) /\
  (tr = TBLE -> gs_resume st' = Some {| rs_sid := sid; rs_secret := k |}).
Proof. intros H. unfold g_verify. rewrite H. cbn. repeat split. intros ->. reflexivity. Qed.

Lemma g_verify_fail_l tr pd st eph m2 m4 :
  (forall sid k, pv_run tr pd eph (match tr with TBLE => gs_resume st | _ => None end) m2 m4 <> PDone sid k) ->
  g_verify tr pd st eph m2 m4 = g_verify_failed tr st.
Proof.
  intros H. unfold g_verify.
  destruct (pv_run tr pd eph _ m2 m4) as [f|req sh|sid k|] eqn:E; try reflexivity.
  exfalso. exact (H sid k eq_refl).
Qed.

Lemma g_failed_not_live tr st : gs_live st = false -> gs_live (g_verify_failed tr st) = false.
Proof. intros H. unfold g_verify_failed. destruct tr; cbn; try assumption; try reflexivity. now rewrite H. Qed.

Lemma g_drop_dead_l tr st :
  gs_live (g_drop tr st) = false /\ (tr <> TCOAP -> gs_keys (g_drop tr st) = None) /\
  (tr = TBLE -> gs_resume (g_drop tr st) = gs_resume st).
Proof. unfold g_drop. destruct tr; cbn; repeat split; try reflexivity; intros H; try discriminate; contradiction. Qed.

(* ---- a reply without Method item is processed as if no resume state existed ---- *)
Lemma pv_on_m2_no_method tr pd eph r m2 :
  slookup T_method (prep tr exp_m2 m2) = None ->
  pv_on_m2 tr pd eph (Some r) m2 = pv_on_m2 tr pd eph None m2.
Proof.
  intros H. unfold pv_on_m2. cbv zeta. destruct (state_step _ 2); [reflexivity|].
  unfold resume_m3. rewrite H. reflexivity.
Qed.

Lemma pv_run_no_method tr pd eph rs m2 m4 :
  slookup T_method (prep tr exp_m2 m2) = None ->
  pv_run tr pd eph rs m2 m4 = pv_run tr pd eph None m2 m4.
Proof.
  intros H. destruct rs as [r|]; [|reflexivity]. unfold pv_run. now rewrite (pv_on_m2_no_method _ _ _ _ _ H).
Qed.

(* M2/M4 recorded in another session (controller ephemeral eph' <> eph), replayed into ANY state of the machine *)
Lemma g_replay_rejected_l tr pd st eph eph' L b m4 :
  pd_acc_ltpk pd = s_pub L -> eph' <> eph ->
  let P := s_pub b in
  let m2 := m2_shape [AByte 2] P (pv_key (s_dh eph' P)) N_pv02 [] (lit (pd_acc_id pd))
                     (s_sign L (P ++ lit (pd_acc_id pd) ++ s_pub eph')) in
  g_verify tr pd st eph m2 m4 = g_verify_failed tr st.
Proof.
  intros HL Hne P m2. apply g_verify_fail_l. intros sid k.
  rewrite pv_run_no_method.
  - exact (pv_replayed_l tr pd eph eph' L b m4 sid k HL Hne).
  - unfold m2. rewrite prep_shape. reflexivity.
Qed.
