(* C09 - the read URL: "/characteristics?id=" then aid.iid joined by commas *)
From Coq Require Import List NArith ZArith Arith Bool Lia ZifyN ZifyNat ZifyBool.
From Coq Require Import String Ascii.
From AHK Require Import Lib.Res Lib.ByteStr Model.Request Proofs.RequestLib.
Import ListNotations.
Local Open Scope N_scope.

Lemma read_int_zdec z rest :
  stops is_digit rest = true -> read_int (zdec z ++ rest) = Some (z, rest).
Proof.
  intros Hs. destruct z as [|p|p].
  - cbn [zdec Z.to_N]. destruct (ndec_head 0) as (c & r & E & Hc).
    unfold read_int. rewrite E. cbn [List.app].
    assert ((c =? 45) = false) as -> by (unfold is_digit in Hc; lia).
    change (c :: r ++ rest) with ((c :: r) ++ rest). rewrite <- E.
    rewrite span_app by (auto using ndec_digits). rewrite parse_dec_ndec. reflexivity.
  - cbn [zdec Z.to_N]. destruct (ndec_head (N.pos p)) as (c & r & E & Hc).
    unfold read_int. rewrite E. cbn [List.app].
    assert ((c =? 45) = false) as -> by (unfold is_digit in Hc; lia).
    change (c :: r ++ rest) with ((c :: r) ++ rest). rewrite <- E.
    rewrite span_app by (auto using ndec_digits). rewrite parse_dec_ndec. reflexivity.
  - cbn [zdec]. unfold read_int. cbn [List.app]. rewrite N.eqb_refl.
    rewrite span_app by (auto using ndec_digits). rewrite parse_dec_ndec. reflexivity.
Qed.

Lemma read_id_str p rest :
  stops is_digit rest = true -> read_id (id_str p ++ rest) = Some (p, rest).
Proof.
  intros Hs. destruct p as [a i]. unfold read_id, id_str. cbn [fst snd].
  rewrite <- !app_assoc. rewrite read_int_zdec by reflexivity. cbn [obind List.app].
  rewrite N.eqb_refl. rewrite read_int_zdec by assumption. reflexivity.
Qed.

Lemma zdec_nonempty z : zdec z <> [].
Proof.
  destruct z; cbn [zdec]; try discriminate;
    match goal with |- ndec ?n <> [] => destruct (ndec_head n) as (c & r & E & _); rewrite E; discriminate end.
Qed.

Lemma id_str_len p : (1 <= List.length (id_str p))%nat.
Proof.
  unfold id_str. rewrite !app_length. cbn [List.length]. lia.
Qed.

Lemma join_ids_len l : (List.length l <= List.length (join comma (map id_str l)))%nat.
Proof.
  induction l as [|x r IH]; [cbn; lia|].
  destruct r as [|y r'].
  - cbn [map join List.length]. pose proof (id_str_len x). lia.
  - cbn [map]. rewrite join_cons_ne by discriminate.
    rewrite !app_length. cbn [map] in IH. pose proof (id_str_len x). cbn [comma List.length] in *. lia.
Qed.

Lemma read_ids_join l : forall fuel,
  l <> [] -> (List.length l <= fuel)%nat -> read_ids fuel (join comma (map id_str l)) = Some l.
Proof.
  induction l as [|x r IH]; intros fuel Hne Hf; [congruence|].
  destruct fuel as [|f]; [cbn in Hf; lia|].
  destruct r as [|y r'].
  - cbn [map join read_ids]. rewrite <- (app_nil_r (id_str x)).
    rewrite read_id_str by reflexivity. reflexivity.
  - cbn [map]. rewrite join_cons_ne by discriminate. cbn [read_ids].
    rewrite read_id_str by reflexivity. cbn [obind comma List.app]. rewrite N.eqb_refl.
    cbn [map] in IH. rewrite IH; [reflexivity|discriminate|cbn [List.length] in *; lia].
Qed.

Lemma ids_render_lemma ids : parse_read_url (read_url ids) = Some ids.
Proof.
  unfold parse_read_url, read_url. rewrite strip_prefix_app. cbn [obind].
  destruct ids as [|x r]; [reflexivity|].
  pose proof (join_ids_len (x :: r)) as L.
  remember (join comma (map id_str (x :: r))) as j eqn:E.
  destruct j as [|c bs]; [cbn [List.length] in L; lia|].
  rewrite E. apply read_ids_join; [discriminate|]. rewrite <- E. cbn [List.length] in *. lia.
Qed.

(* the URL is a well-formed request target *)
Definition url_char (c : N) : bool := is_digit c || (c =? 45) || (c =? 46) || (c =? 44).

Lemma url_char_target c : url_char c = true -> target_char c = true.
Proof. unfold url_char, is_digit, target_char. lia. Qed.

Lemma zdec_url z : forallb url_char (zdec z) = true.
Proof.
  assert (D : forall n, forallb url_char (ndec n) = true).
  { intros n. eapply forallb_impl; [|apply ndec_digits]. intros c H. unfold url_char. now rewrite H. }
  destruct z; cbn [zdec forallb]; [apply D|apply D|]. rewrite D. reflexivity.
Qed.

Lemma join_ids_url l : forallb url_char (join comma (map id_str l)) = true.
Proof.
  induction l as [|x r IH]; [reflexivity|].
  assert (forallb url_char (id_str x) = true) as Hx.
  { unfold id_str. rewrite !forallb_app, !zdec_url. reflexivity. }
  destruct r as [|y r']; [exact Hx|].
  cbn [map]. rewrite join_cons_ne by discriminate. cbn [map] in IH.
  rewrite !forallb_app, Hx, IH. reflexivity.
Qed.

Lemma read_url_target ids :
  nil_b (read_url ids) = false /\ forallb target_char (read_url ids) = true.
Proof.
  unfold read_url. split; [reflexivity|]. rewrite forallb_app.
  replace (forallb target_char (lit "/characteristics?id=")) with true by reflexivity.
  eapply forallb_impl; [apply url_char_target|apply join_ids_url].
Qed.

(* groupby keeps every id, in order *)
Lemma group_aid_concat ids : List.concat (group_aid ids) = ids.
Proof.
  induction ids as [|p r IH]; [reflexivity|]. cbn [group_aid].
  destruct (group_aid r) as [|[|q g] gs] eqn:E.
  - cbn in *. now rewrite <- IH.
  - cbn in *. now rewrite <- IH.
  - destruct (Z.eqb (fst p) (fst q)); cbn in *; now rewrite <- IH.
Qed.

(* the requests the pairing API issues are in the domain of the round trip *)
Lemma api_get_wf host ids : wf_host host = true -> wf_req (api_get_characteristics host ids) = true.
Proof.
  intros W. destruct (read_url_target ids) as [H1 H2].
  unfold wf_req, api_get_characteristics, req_get. cbn [r_meth r_target r_host r_body is_get].
  now rewrite H1, H2, W.
Qed.

Lemma api_put_wf host cs : wf_host host = true -> wf_req (api_put_characteristics host cs) = true.
Proof.
  intros W. unfold wf_req, api_put_characteristics, req_put_json. cbn [r_meth r_target r_host r_body is_get].
  rewrite W. reflexivity.
Qed.

Lemma api_sub_wf host ev ids :
  wf_host host = true -> forallb wf_req (api_update_subscriptions host ev ids) = true.
Proof.
  intros W. unfold api_update_subscriptions. induction (group_aid ids) as [|g gs IH]; [reflexivity|].
  cbn [map forallb]. rewrite IH. unfold wf_req, req_put_json. cbn [r_meth r_target r_host r_body is_get].
  rewrite W. reflexivity.
Qed.
