(* C09 - generic lemmas about the list/decimal helpers of Model/Request.v *)
From Coq Require Import List NArith ZArith Arith Bool Lia ZifyN ZifyNat ZifyBool.
From Coq Require Import String Ascii Decimal DecimalN DecimalFacts DecimalPos.
From AHK Require Import Lib.Res Lib.ByteStr Model.Request.
Import ListNotations.
Local Open Scope N_scope.

(* ------------------------------------------------------------------ beq *)
Lemma beq_refl a : beq a a = true.
Proof. induction a as [|x a IH]; cbn [beq]; [reflexivity|]. now rewrite N.eqb_refl, IH. Qed.

Lemma beq_true a b : beq a b = true -> a = b.
Proof.
  revert b; induction a as [|x a IH]; intros [|y b] H; cbn [beq] in H; try discriminate; [reflexivity|].
  apply andb_true_iff in H. destruct H as [H1 H2]. apply N.eqb_eq in H1. subst y. f_equal. now apply IH.
Qed.

(* ------------------------------------------------------------------ join *)
Lemma join_cons_ne sep x r : r <> [] -> join sep (x :: r) = x ++ sep ++ join sep r.
Proof. destruct r; [congruence|reflexivity]. Qed.

Lemma join_lines_end (f : bytes * bytes -> bytes) hs :
  join CRLF (map f hs ++ [[]; []]) = List.concat (map (fun h => f h ++ CRLF) hs) ++ CRLF.
Proof.
  induction hs as [|h hs IH].
  - reflexivity.
  - cbn [map List.app List.concat]. rewrite join_cons_ne.
    + rewrite IH. now rewrite <- !app_assoc.
    + destruct hs; discriminate.
Qed.

(* ------------------------------------------------------------------ span *)
Lemma span_eq p l a b : span p l = (a, b) -> l = a ++ b.
Proof.
  revert a b; induction l as [|c l IH]; intros a b H; cbn [span] in H.
  - now inversion H.
  - destruct (p c).
    + destruct (span p l) as [a' b'] eqn:E. inversion H; subst. cbn. f_equal. now apply IH.
    + now inversion H.
Qed.

Lemma span_all p l a b : span p l = (a, b) -> forallb p a = true.
Proof.
  revert a b; induction l as [|c l IH]; intros a b H; cbn [span] in H.
  - now inversion H.
  - destruct (p c) eqn:Ec.
    + destruct (span p l) as [a' b'] eqn:E. inversion H; subst. cbn. rewrite Ec. cbn. eapply IH; reflexivity.
    + now inversion H.
Qed.

Definition stops (p : N -> bool) (b : bytes) : bool :=
  match b with [] => true | c :: _ => negb (p c) end.

Lemma span_stops p l a b : span p l = (a, b) -> stops p b = true.
Proof.
  revert a b; induction l as [|c l IH]; intros a b H; cbn [span] in H.
  - now inversion H.
  - destruct (p c) eqn:Ec.
    + destruct (span p l) as [a' b'] eqn:E. inversion H; subst. eapply IH; reflexivity.
    + inversion H; subst. cbn. now rewrite Ec.
Qed.

Lemma span_app p a b : forallb p a = true -> stops p b = true -> span p (a ++ b) = (a, b).
Proof.
  intros Ha Hb. induction a as [|c a IH].
  - cbn. destruct b as [|d b]; [reflexivity|]. cbn in Hb. cbn. destruct (p d); [discriminate|reflexivity].
  - cbn in Ha. apply andb_true_iff in Ha. destruct Ha as [Hc Ha].
    cbn [List.app span]. rewrite Hc, (IH Ha). reflexivity.
Qed.

(* ------------------------------------------------------------------ strip_prefix *)
Lemma strip_prefix_app p r : strip_prefix p (p ++ r) = Some r.
Proof. induction p as [|x p IH]; cbn; [reflexivity|]. now rewrite N.eqb_refl. Qed.

Lemma strip_prefix_inv p l r : strip_prefix p l = Some r -> l = p ++ r.
Proof.
  revert l; induction p as [|x p IH]; intros l H; cbn in H.
  - now inversion H.
  - destruct l as [|y l]; [discriminate|]. destruct (N.eqb x y) eqn:E; [|discriminate].
    apply N.eqb_eq in E. subst y. cbn. f_equal. now apply IH.
Qed.

(* ------------------------------------------------------------------ take_line *)
Definition line_char (c : N) : bool := negb (c =? 13) && negb (c =? 10).
Definition no_crlf (l : bytes) : bool := forallb line_char l.

Lemma take_line_app l rest : no_crlf l = true -> take_line (l ++ CRLF ++ rest) = Some (l, rest).
Proof.
  intros H. induction l as [|c l IH].
  - reflexivity.
  - cbn in H. apply andb_true_iff in H. destruct H as [Hc Hl].
    unfold line_char in Hc. apply andb_true_iff in Hc. destruct Hc as [H13 H10].
    apply negb_true_iff in H13, H10.
    cbn [List.app take_line]. rewrite H13, H10, (IH Hl). reflexivity.
Qed.

Lemma take_line_inv bs l rest : take_line bs = Some (l, rest) -> bs = l ++ CRLF ++ rest /\ no_crlf l = true.
Proof.
  revert l rest; induction bs as [|c bs IH]; intros l rest H; cbn [take_line] in H; [discriminate|].
  destruct (c =? 13) eqn:E13.
  - destruct bs as [|d bs']; [discriminate|]. destruct (d =? 10) eqn:E10; [|discriminate].
    inversion H; subst. apply N.eqb_eq in E13, E10. subst. split; reflexivity.
  - destruct (c =? 10) eqn:E10; [discriminate|].
    destruct (take_line bs) as [[l' rest']|] eqn:E; [|discriminate].
    inversion H; subst. destruct (IH _ _ eq_refl) as [-> Hl]. split; [reflexivity|].
    cbn. unfold line_char at 1. rewrite E13, E10. exact Hl.
Qed.

Lemma no_crlf_app a b : no_crlf (a ++ b) = no_crlf a && no_crlf b.
Proof. unfold no_crlf. apply forallb_app. Qed.

(* ------------------------------------------------------------------ decimals *)
Lemma bytes_uint_bytes u : bytes_uint (uint_bytes u) = Some u.
Proof. induction u; cbn [uint_bytes bytes_uint]; try rewrite IHu; reflexivity. Qed.

Lemma uint_bytes_digits u : forallb is_digit (uint_bytes u) = true.
Proof. induction u; cbn [uint_bytes forallb]; try rewrite IHu; reflexivity. Qed.

Lemma ndec_digits n : forallb is_digit (ndec n) = true.
Proof. apply uint_bytes_digits. Qed.

Lemma parse_dec_ndec n : parse_dec (ndec n) = Some n.
Proof.
  unfold parse_dec, ndec. rewrite bytes_uint_bytes. cbv zeta.
  rewrite DecimalN.Unsigned.of_to. now rewrite beq_refl.
Qed.

Lemma parse_dec_inv ds n : parse_dec ds = Some n -> ds = ndec n.
Proof.
  unfold parse_dec. destruct (bytes_uint ds) as [u|]; [|discriminate]. cbv zeta.
  destruct (beq (ndec (N.of_uint u)) ds) eqn:E; [|discriminate].
  intros H; inversion H; subst. symmetry. now apply beq_true.
Qed.

Lemma to_uint_nonnil n : N.to_uint n <> Nil.
Proof.
  intros H. pose proof (DecimalN.Unsigned.to_of (N.to_uint n)) as T.
  rewrite DecimalN.Unsigned.of_to in T. rewrite H in T at 1.
  rewrite H in T. cbn in T. discriminate.
Qed.

Lemma ndec_head n : exists c r, ndec n = c :: r /\ is_digit c = true.
Proof.
  pose proof (ndec_digits n) as D. unfold ndec in *.
  destruct (N.to_uint n) eqn:E; try (now apply to_uint_nonnil in E);
    cbn [uint_bytes] in *; eexists; eexists; (split; [reflexivity|reflexivity]).
Qed.

Lemma digit_line_char c : is_digit c = true -> line_char c = true.
Proof. unfold is_digit, line_char. intros H. lia. Qed.

Lemma forallb_impl {A} (p q : A -> bool) l :
  (forall x, p x = true -> q x = true) -> forallb p l = true -> forallb q l = true.
Proof.
  intros I. induction l as [|x l IH]; cbn; [reflexivity|]. intros H.
  apply andb_true_iff in H. destruct H as [H1 H2]. now rewrite (I _ H1), (IH H2).
Qed.

Lemma ndec_no_crlf n : no_crlf (ndec n) = true.
Proof. eapply forallb_impl; [apply digit_line_char|apply ndec_digits]. Qed.

Lemma nil_b_app_l {A} (a b : list A) : nil_b a = false -> nil_b (a ++ b) = false.
Proof. destruct a; [discriminate|reflexivity]. Qed.
