(* C06 - the CoAP machine (EncryptionContext): the event channel is replay-safe
   for every history; the request/response channel is NOT (witnesses), and is
   safe on histories in which no response decrypt attempt fails. *)
From Coq Require Import List Arith Bool Lia PeanoNat.
From AHK Require Import Model.Counters Proofs.CountersLib.
Import ListNotations.

(* ------------------------------------------------------------ event channel *)
Definition einv (ep evt : nat) (acc : list nid) : Prop :=
  (forall x, In x acc -> fst (fst x) <= ep)
  /\ (forall c, snd c = EVT -> exists m, under c acc = pref c m /\ (c = (ep, EVT) -> m = evt)).

Definition coap_einv (s : coap) : Prop := einv (c_ep s) (c_evt s) (l_acc (c_log s)).

Lemma einv_resp : forall ep evt acc n, einv ep evt acc -> einv ep evt (acc ++ [((ep, A2C), n)]).
Proof.
  intros ep evt acc n (H1 & H2). split.
  - intros x I. apply in_app_iff in I. destruct I as [I|[<-|[]]]; [apply H1; exact I|cbn; lia].
  - intros c Hc. destruct (H2 c Hc) as (m & Hm & He). exists m. split; [|exact He].
    rewrite under_app, Hm, under_one_other; [apply app_nil_r|].
    intro E. subst c. discriminate.
Qed.

Lemma einv_event : forall ep evt acc, einv ep evt acc -> einv ep (S evt) (acc ++ [((ep, EVT), evt)]).
Proof.
  intros ep evt acc (H1 & H2). split.
  - intros x I. apply in_app_iff in I. destruct I as [I|[<-|[]]]; [apply H1; exact I|cbn; lia].
  - intros c Hc. destruct (H2 c Hc) as (m & Hm & He).
    destruct (chan_eqb c (ep, EVT)) eqn:Q.
    + apply chan_eqb_eq in Q. subst c. exists (S evt). split; [|reflexivity].
      rewrite under_app, Hm, under_one_same, (He eq_refl), pref_snoc. reflexivity.
    + exists m. split.
      * rewrite under_app, Hm, under_one_other; [apply app_nil_r|].
        intro E. subst c. rewrite chan_eqb_refl in Q. discriminate.
      * intro E. subst c. rewrite chan_eqb_refl in Q. discriminate.
Qed.

Lemma einv_reconnect : forall ep evt acc, einv ep evt acc -> einv (S ep) 0 acc.
Proof.
  intros ep evt acc (H1 & H2). split.
  - intros x I. specialize (H1 x I). lia.
  - intros c Hc. destruct (chan_eqb c (S ep, EVT)) eqn:Q.
    + apply chan_eqb_eq in Q. subst c. exists 0. split; [|reflexivity].
      rewrite pref_0. apply under_none. intros x I E. specialize (H1 x I). rewrite E in H1. cbn in H1. lia.
    + destruct (H2 c Hc) as (m & Hm & _). exists m. split; [exact Hm|].
      intro E. subst c. rewrite chan_eqb_refl in Q. discriminate.
Qed.

Lemma coap_einv_drain : forall w ep send recv evt alive srv esrv nreq L,
    einv ep evt (l_acc L) -> coap_einv (coap_drain ep send recv evt alive srv esrv nreq L w).
Proof.
  induction w as [|id r IH]; intros ep send recv evt alive srv esrv nreq L H; cbn [coap_drain].
  - exact H.
  - destruct alive; [exact H|]. apply IH. exact H.
Qed.

Lemma coap_einv_response : forall s f nf, coap_einv s -> coap_einv (coap_response s f nf).
Proof.
  intros s f nf H. unfold coap_response. destruct (c_infl s); [|exact H].
  destruct (snd (try_open _ f _)).
  - apply coap_einv_drain. cbn. apply einv_resp. exact H.
  - destruct (opens _ f); apply coap_einv_drain; cbn; [apply einv_resp|]; exact H.
Qed.

Lemma coap_einv_abort : forall s c k, coap_einv s -> coap_einv (coap_abort s c k).
Proof.
  intros s c k H. unfold coap_abort. destruct (c_infl s); [|exact H]. apply coap_einv_drain. exact H.
Qed.

Lemma coap_einv_event : forall s f, coap_einv s -> coap_einv (coap_event s f).
Proof.
  intros s f H. unfold coap_event. destruct (opens _ f); [|exact H].
  unfold coap_einv. cbn. apply einv_event. exact H.
Qed.

Lemma coap_abort_ep : forall s c k, c_ep (coap_abort s c k) = c_ep s.
Proof.
  intros s c k. unfold coap_abort. destruct (c_infl s); [|reflexivity].
  generalize (c_wait s) (c_send s) (if k then false else c_alive s) (add_out [(c_ep s, n, c)] (c_log s)).
  intros w. induction w as [|id r IH]; intros sd al L; cbn [coap_drain]; [reflexivity|].
  destruct al; [reflexivity|apply IH].
Qed.

Lemma coap_einv_step : forall s e, coap_einv s -> coap_einv (coap_step s e).
Proof.
  intros s e H.
  assert (RA : forall i nf, coap_einv (coap_response_at s i nf)).
  { intros i nf. unfold coap_response_at. destruct (c_infl s) eqn:Q; [|exact H].
    apply (coap_einv_response (coap_setsrv s (Nat.max (c_srv s) (S i)))). exact H. }
  assert (EA : forall i, coap_einv (coap_event_at s i)).
  { intro i. unfold coap_event_at. apply (coap_einv_event (coap_setesrv s (Nat.max (c_esrv s) (S i)))). exact H. }
  destruct e; cbn [coap_step]; try exact H; try apply RA; try apply EA; try (apply coap_einv_abort; exact H).
  - destruct (c_infl s); [exact H|]. apply coap_einv_drain. exact H.
  - destruct (c_infl s); [|exact H]. destruct (c_ep s) eqn:E; [exact H|]. apply coap_einv_response. exact H.
  - destruct (c_infl s) eqn:Q; [|exact H]. apply (coap_einv_response (coap_setsrv s (S (c_srv s)))). exact H.
  - pose proof (coap_einv_abort s RFail true H) as A. unfold coap_einv in *. cbn.
    rewrite (coap_abort_ep s RFail true) in A. eapply einv_reconnect. exact A.
Qed.

Lemma coap_einv_init : coap_einv coap_init.
Proof.
  split; [intros x []|]. intros c _. exists 0. split; reflexivity.
Qed.

Lemma coap_einv_run : forall h s, coap_einv s -> coap_einv (coap_run s h).
Proof.
  induction h as [|e h IH]; intros s H; [exact H|]. cbn. apply IH. apply coap_einv_step. exact H.
Qed.

Lemma coap_event_accepted_prefix_l : forall h e,
    exists m, under (e, EVT) (l_acc (c_log (coap_run coap_init h))) = pref (e, EVT) m.
Proof.
  intros h e. destruct (coap_einv_run h _ coap_einv_init) as (_ & H).
  destruct (H (e, EVT) eq_refl) as (m & Hm & _). exists m. exact Hm.
Qed.

(* ----------------------------------- the seal log only ever uses the C2A key *)
Definition coap_sinv (s : coap) : Prop := forall x, In x (l_seal (c_log s)) -> snd (fst x) = C2A.

Lemma coap_sinv_drain : forall w ep send recv evt alive srv esrv nreq L,
    (forall x, In x (l_seal L) -> snd (fst x) = C2A) ->
    coap_sinv (coap_drain ep send recv evt alive srv esrv nreq L w).
Proof.
  induction w as [|id r IH]; intros ep send recv evt alive srv esrv nreq L H; cbn [coap_drain].
  - exact H.
  - assert (H' : forall x, In x (l_seal L ++ [((ep, C2A), send)]) -> snd (fst x) = C2A).
    { intros x I. apply in_app_iff in I. destruct I as [I|[<-|[]]]; [apply H; exact I|reflexivity]. }
    destruct alive; [exact H'|]. apply IH. exact H'.
Qed.

Lemma coap_sinv_response : forall s f nf, coap_sinv s -> coap_sinv (coap_response s f nf).
Proof.
  intros s f nf H. unfold coap_response. destruct (c_infl s); [|exact H].
  destruct (snd (try_open _ f _)); [apply coap_sinv_drain; exact H|].
  destruct (opens _ f); apply coap_sinv_drain; exact H.
Qed.

Lemma coap_sinv_abort : forall s c k, coap_sinv s -> coap_sinv (coap_abort s c k).
Proof.
  intros s c k H. unfold coap_abort. destruct (c_infl s); [|exact H]. apply coap_sinv_drain. exact H.
Qed.

Lemma coap_sinv_event : forall s f, coap_sinv s -> coap_sinv (coap_event s f).
Proof. intros s f H. unfold coap_event. destruct (opens _ f); exact H. Qed.

Lemma coap_sinv_step : forall s e, coap_sinv s -> coap_sinv (coap_step s e).
Proof.
  intros s e H.
  assert (RA : forall i nf, coap_sinv (coap_response_at s i nf)).
  { intros i nf. unfold coap_response_at. destruct (c_infl s) eqn:Q; [|exact H].
    apply (coap_sinv_response (coap_setsrv s (Nat.max (c_srv s) (S i)))). exact H. }
  assert (EA : forall i, coap_sinv (coap_event_at s i)).
  { intro i. unfold coap_event_at. apply (coap_sinv_event (coap_setesrv s (Nat.max (c_esrv s) (S i)))). exact H. }
  destruct e; cbn [coap_step]; try exact H; try apply RA; try apply EA; try (apply coap_sinv_abort; exact H).
  - destruct (c_infl s); [exact H|]. apply coap_sinv_drain. exact H.
  - destruct (c_infl s); [|exact H]. destruct (c_ep s) eqn:E; [exact H|]. apply coap_sinv_response. exact H.
  - destruct (c_infl s) eqn:Q; [|exact H]. apply (coap_sinv_response (coap_setsrv s (S (c_srv s)))). exact H.
Qed.

Lemma coap_sinv_run : forall h s, coap_sinv s -> coap_sinv (coap_run s h).
Proof.
  induction h as [|e h IH]; intros s H; [exact H|]. cbn. apply IH. apply coap_sinv_step. exact H.
Qed.

Lemma coap_event_key_never_seals_l : forall h x,
    In x (l_seal (c_log (coap_run coap_init h))) -> snd (fst x) = C2A.
Proof. intros h. apply (coap_sinv_run h coap_init). intros x []. Qed.

(* --------------------------------- response channel without decrypt failures *)
Definition cinv (ep send recv : nat) (seal acc : list nid) : Prop :=
  (forall x, In x seal -> fst (fst x) <= ep /\ (fst (fst x) = ep -> snd x < send))
  /\ NoDup seal
  /\ (forall x, In x acc -> fst (fst x) <= ep)
  /\ (forall e, exists m, under (e, A2C) acc = pref (e, A2C) m /\ (e = ep -> m = recv)).

Definition coap_jinv (s : coap) : Prop :=
  resp_opens_ok (c_log s) = true ->
  cinv (c_ep s) (c_send s) (c_recv s) (l_seal (c_log s)) (l_acc (c_log s)).

Lemma cinv_seal1 : forall ep send recv seal acc,
    cinv ep send recv seal acc -> cinv ep (S send) recv (seal ++ [((ep, C2A), send)]) acc.
Proof.
  intros ep send recv seal acc (H1 & H2 & H3 & H4). split; [|split; [|split]]; try assumption.
  - intros x I. apply in_app_iff in I. destruct I as [I|[<-|[]]].
    + destruct (H1 x I) as (A & B). split; [exact A|]. intro E. specialize (B E). lia.
    + cbn. split; lia.
  - apply NoDup_app_intro; [exact H2|repeat constructor; intros []|].
    intros x I [<-|[]]. destruct (H1 _ I) as (_ & B). cbn in B. specialize (B eq_refl). lia.
Qed.

Lemma cinv_accept : forall ep send recv seal acc,
    cinv ep send recv seal acc -> cinv ep send (S recv) seal (acc ++ [((ep, A2C), recv)]).
Proof.
  intros ep send recv seal acc (H1 & H2 & H3 & H4). split; [|split; [|split]]; try assumption.
  - intros x I. apply in_app_iff in I. destruct I as [I|[<-|[]]]; [apply H3; exact I|cbn; lia].
  - intro e. destruct (H4 e) as (m & Hm & He). destruct (Nat.eq_dec e ep) as [->|N].
    + exists (S recv). split; [|reflexivity].
      rewrite under_app, Hm, under_one_same, (He eq_refl), pref_snoc. reflexivity.
    + exists m. split; [|intro E; contradiction].
      rewrite under_app, Hm, under_one_other; [apply app_nil_r|]. intro E. inversion E. auto.
Qed.

Lemma cinv_event : forall ep send recv seal acc n,
    cinv ep send recv seal acc -> cinv ep send recv seal (acc ++ [((ep, EVT), n)]).
Proof.
  intros ep send recv seal acc n (H1 & H2 & H3 & H4). split; [|split; [|split]]; try assumption.
  - intros x I. apply in_app_iff in I. destruct I as [I|[<-|[]]]; [apply H3; exact I|cbn; lia].
  - intro e. destruct (H4 e) as (m & Hm & He). exists m. split; [|exact He].
    rewrite under_app, Hm, under_one_other; [apply app_nil_r|]. intro E. inversion E.
Qed.

Lemma cinv_reconnect : forall ep send recv seal acc, cinv ep send recv seal acc -> cinv (S ep) 0 0 seal acc.
Proof.
  intros ep send recv seal acc (H1 & H2 & H3 & H4). split; [|split; [|split]]; try assumption.
  - intros x I. destruct (H1 x I) as (A & _). split; lia.
  - intros x I. specialize (H3 x I). lia.
  - intro e. destruct (Nat.eq_dec e (S ep)) as [->|N].
    + exists 0. split; [|reflexivity]. rewrite pref_0. apply under_none.
      intros x I E. specialize (H3 x I). rewrite E in H3. cbn in H3. lia.
    + destruct (H4 e) as (m & Hm & _). exists m. split; [exact Hm|]. intro E. contradiction.
Qed.

Lemma resp_ok_seal : forall xs L, resp_opens_ok (add_seal xs L) = resp_opens_ok L.
Proof. reflexivity. Qed.
Lemma resp_ok_wire : forall xs L, resp_opens_ok (add_wire xs L) = resp_opens_ok L.
Proof. reflexivity. Qed.
Lemma resp_ok_acc : forall xs L, resp_opens_ok (add_acc xs L) = resp_opens_ok L.
Proof. reflexivity. Qed.
Lemma resp_ok_out : forall xs L, resp_opens_ok (add_out xs L) = resp_opens_ok L.
Proof. reflexivity. Qed.
Lemma resp_ok_open : forall xs L,
    resp_opens_ok (add_open xs L) =
    resp_opens_ok L && forallb (fun o => match snd (fst (fst o)) with A2C => snd o | _ => true end) xs.
Proof. intros. unfold resp_opens_ok, add_open. cbn [l_open]. apply forallb_app. Qed.

(* the first candidate either opens, or is logged as a failed attempt *)
Lemma try_open_first : forall c f n r,
    (opens (c, n) f = true /\ try_open c f (n :: r) = ([((c, n), true)], Some n))
    \/ (exists a, fst (try_open c f (n :: r)) = ((c, n), false) :: a).
Proof.
  intros c f n r. cbn [try_open]. destruct (opens (c, n) f).
  - left. split; reflexivity.
  - right. eexists. reflexivity.
Qed.

Lemma coap_jinv_drain : forall w ep send recv evt alive srv esrv nreq L,
    (resp_opens_ok L = true -> cinv ep send recv (l_seal L) (l_acc L)) ->
    coap_jinv (coap_drain ep send recv evt alive srv esrv nreq L w).
Proof.
  induction w as [|id r IH]; intros ep send recv evt alive srv esrv nreq L H; cbn [coap_drain].
  - exact H.
  - destruct alive.
    + intro K. cbn [c_log c_ep c_send c_recv] in K |- *. rewrite resp_ok_wire, resp_ok_seal in K.
      cbn [l_seal l_acc add_wire add_seal]. apply cinv_seal1. apply H. exact K.
    + apply IH. intro K. rewrite resp_ok_out, resp_ok_seal in K.
      cbn [l_seal l_acc add_out add_seal]. apply cinv_seal1. apply H. exact K.
Qed.

Lemma coap_jinv_response : forall s f nf, coap_jinv s -> coap_jinv (coap_response s f nf).
Proof.
  intros s f nf H. unfold coap_response. destruct (c_infl s) as [id|]; [|exact H].
  unfold coap_cands.
  destruct (try_open_first (c_ep s, A2C) f (c_recv s)
              (seq (c_recv s - Nat.min 5 (c_recv s)) (Nat.min 5 (c_recv s)) ++ seq (S (c_recv s)) 5))
    as [(O & T)|(a & T)].
  - rewrite T. cbn [fst snd]. apply coap_jinv_drain. intro K.
    rewrite resp_ok_out, resp_ok_acc, resp_ok_open in K. apply andb_true_iff in K. destruct K as [K _].
    cbn [l_seal l_acc add_out add_acc add_open]. apply cinv_accept. apply H. exact K.
  - (* a failed attempt is in the log: the hypothesis of the invariant is false *)
    assert (B : forall L' tail, resp_opens_ok (add_open (fst (try_open (c_ep s, A2C) f
                 (c_recv s :: seq (c_recv s - Nat.min 5 (c_recv s)) (Nat.min 5 (c_recv s)) ++ seq (S (c_recv s)) 5)) ++ tail) L') = false).
    { intros L' tail. rewrite resp_ok_open, T. cbn. apply andb_false_r. }
    destruct (snd (try_open _ f _)).
    + apply coap_jinv_drain. intro K. rewrite resp_ok_out, resp_ok_acc in K.
      rewrite <- (app_nil_r (fst _)) in K. rewrite B in K. discriminate.
    + destruct (opens _ f); apply coap_jinv_drain; intro K; rewrite resp_ok_out, ?resp_ok_acc in K;
        rewrite B in K; discriminate.
Qed.

Lemma coap_jinv_abort : forall s c k, coap_jinv s -> coap_jinv (coap_abort s c k).
Proof.
  intros s c k H. unfold coap_abort. destruct (c_infl s); [|exact H]. apply coap_jinv_drain. exact H.
Qed.

Lemma coap_jinv_event : forall s f, coap_jinv s -> coap_jinv (coap_event s f).
Proof.
  intros s f H. unfold coap_event. destruct (opens _ f); intro K; unfold coap_jinv in H;
    cbn [c_log c_ep c_send c_recv] in K |- *.
  - rewrite resp_ok_acc, resp_ok_open in K. apply andb_true_iff in K. destruct K as [K _].
    cbn [l_seal l_acc add_acc add_open]. apply cinv_event. apply H. exact K.
  - rewrite resp_ok_open in K. apply andb_true_iff in K. destruct K as [K _].
    cbn [l_seal l_acc add_acc add_open]. apply H. exact K.
Qed.

Lemma coap_jinv_step : forall s e, coap_jinv s -> coap_jinv (coap_step s e).
Proof.
  intros s e H.
  assert (RA : forall i nf, coap_jinv (coap_response_at s i nf)).
  { intros i nf. unfold coap_response_at. destruct (c_infl s) eqn:Q; [|exact H].
    apply (coap_jinv_response (coap_setsrv s (Nat.max (c_srv s) (S i)))). exact H. }
  assert (EA : forall i, coap_jinv (coap_event_at s i)).
  { intro i. unfold coap_event_at. apply (coap_jinv_event (coap_setesrv s (Nat.max (c_esrv s) (S i)))). exact H. }
  destruct e; cbn [coap_step]; try exact H; try apply RA; try apply EA; try (apply coap_jinv_abort; exact H).
  - destruct (c_infl s); [exact H|]. apply coap_jinv_drain. exact H.
  - destruct (c_infl s); [|exact H]. destruct (c_ep s) eqn:E; [exact H|]. apply coap_jinv_response. exact H.
  - destruct (c_infl s) eqn:Q; [|exact H]. apply (coap_jinv_response (coap_setsrv s (S (c_srv s)))). exact H.
  - pose proof (coap_jinv_abort s RFail true H) as A. unfold coap_jinv in *. cbn. intro K.
    rewrite <- (coap_abort_ep s RFail true). eapply cinv_reconnect. apply A. exact K.
  - apply (coap_jinv_event (coap_setesrv s (S (c_esrv s)))). exact H.
Qed.

Lemma coap_jinv_init : coap_jinv coap_init.
Proof.
  intros _. cbn. split; [intros x []|split; [constructor|split; [intros x []|]]].
  intro e. exists 0. split; [reflexivity|]. intros ->. reflexivity.
Qed.

Lemma coap_jinv_run : forall h s, coap_jinv s -> coap_jinv (coap_run s h).
Proof.
  induction h as [|e h IH]; intros s H; [exact H|]. cbn. apply IH. apply coap_jinv_step. exact H.
Qed.

Lemma coap_in_window_l : forall h,
    resp_opens_ok (c_log (coap_run coap_init h)) = true ->
    NoDup (l_seal (c_log (coap_run coap_init h)))
    /\ forall e, exists m, under (e, A2C) (l_acc (c_log (coap_run coap_init h))) = pref (e, A2C) m.
Proof.
  intros h K. destruct (coap_jinv_run h _ coap_jinv_init K) as (_ & H2 & _ & H4).
  split; [exact H2|]. intro e. destruct (H4 e) as (m & Hm & _). exists m. exact Hm.
Qed.

(* ------------------------------------------------------------- refutations *)
Definition wit_replay : list ev := [Send 1 0; Next; Send 1 0; Replay 0].
Definition wit_reuse : list ev := [Send 1 0; Corrupt; Send 1 0].
Definition wit_wire_reuse : list ev :=
  [Send 1 0; Next; Send 1 0; Next; Send 1 0; Next; Send 1 0; Next; Send 1 0; Next; Send 1 0; Next;
   Send 1 0; Replay 0; Send 1 0].

Lemma coap_replay_refuted_l :
  l_acc (c_log (coap_run coap_init wit_replay)) = [((0, A2C), 0); ((0, A2C), 0)]
  /\ in_order (0, A2C) (l_acc (c_log (coap_run coap_init wit_replay))) = false.
Proof. split; vm_compute; reflexivity. Qed.

Lemma coap_nonce_reuse_refuted_l : ~ NoDup (l_seal (c_log (coap_run coap_init wit_reuse))).
Proof. apply nodupb_sound. vm_compute. reflexivity. Qed.

Lemma coap_wire_nonce_reuse_refuted_l : ~ NoDup (l_wire (c_log (coap_run coap_init wit_wire_reuse))).
Proof. apply nodupb_sound. vm_compute. reflexivity. Qed.

Lemma coap_replay_refuted_ex :
  exists h, l_acc (c_log (coap_run coap_init h)) = [((0, A2C), 0); ((0, A2C), 0)]
            /\ in_order (0, A2C) (l_acc (c_log (coap_run coap_init h))) = false.
Proof. exists wit_replay. exact coap_replay_refuted_l. Qed.

Lemma coap_nonce_reuse_refuted_ex : exists h, ~ NoDup (l_seal (c_log (coap_run coap_init h))).
Proof. exists wit_reuse. exact coap_nonce_reuse_refuted_l. Qed.

Lemma coap_wire_nonce_reuse_refuted_ex : exists h, ~ NoDup (l_wire (c_log (coap_run coap_init h))).
Proof. exists wit_wire_reuse. exact coap_wire_nonce_reuse_refuted_l. Qed.

(* --------------------------------------------- a dead context transmits nothing
   (coap_ctx = None after a timeout, a 4.04 response or a failed resynchronisation:
   post_bytes still encrypts, but self.coap_ctx.request raises AttributeError) *)
Definition not_reconnect (e : ev) : bool := match e with Reconnect => false | _ => true end.

Lemma coap_drain_dead : forall w ep send recv evt srv esrv nreq L,
    let s' := coap_drain ep send recv evt false srv esrv nreq L w in
    c_alive s' = false /\ l_wire (c_log s') = l_wire L.
Proof.
  induction w as [|id r IH]; intros ep send recv evt srv esrv nreq L; cbn [coap_drain].
  - split; reflexivity.
  - destruct (IH ep (S send) recv evt srv esrv nreq (add_out [(ep, id, RCrash)] (add_seal [((ep, C2A), send)] L))) as (A & B).
    split; [exact A|]. rewrite B. reflexivity.
Qed.

Lemma coap_response_dead : forall s f nf,
    c_alive s = false ->
    c_alive (coap_response s f nf) = false /\ l_wire (c_log (coap_response s f nf)) = l_wire (c_log s).
Proof.
  intros s f nf D. unfold coap_response. destruct (c_infl s); [|split; [exact D|reflexivity]].
  rewrite D. replace (if nf then false else false) with false by (destruct nf; reflexivity).
  destruct (snd (try_open _ f _)); [|destruct (opens _ f)]; match goal with
  | |- context [coap_drain ?a ?b ?c ?d false ?e ?g ?h ?L ?w] => destruct (coap_drain_dead w a b c d e g h L) as (A & B)
  end; (split; [exact A|rewrite B; reflexivity]).
Qed.

Lemma coap_abort_dead : forall s c k,
    c_alive s = false ->
    c_alive (coap_abort s c k) = false /\ l_wire (c_log (coap_abort s c k)) = l_wire (c_log s).
Proof.
  intros s c k D. unfold coap_abort. destruct (c_infl s); [|split; [exact D|reflexivity]].
  rewrite D. replace (if k then false else false) with false by (destruct k; reflexivity).
  match goal with
  | |- context [coap_drain ?a ?b ?c ?d false ?e ?g ?h ?L ?w] => destruct (coap_drain_dead w a b c d e g h L) as (A & B)
  end. split; [exact A|rewrite B; reflexivity].
Qed.

Lemma coap_event_dead : forall s f,
    c_alive (coap_event s f) = c_alive s /\ l_wire (c_log (coap_event s f)) = l_wire (c_log s).
Proof. intros s f. unfold coap_event. destruct (opens _ f); split; reflexivity. Qed.

Lemma coap_step_dead : forall s e,
    c_alive s = false -> not_reconnect e = true ->
    c_alive (coap_step s e) = false /\ l_wire (c_log (coap_step s e)) = l_wire (c_log s).
Proof.
  intros s e D NR.
  assert (RA : forall i nf, c_alive (coap_response_at s i nf) = false
                            /\ l_wire (c_log (coap_response_at s i nf)) = l_wire (c_log s)).
  { intros i nf. unfold coap_response_at. destruct (c_infl s) eqn:Q; [|split; [exact D|reflexivity]].
    apply (coap_response_dead (coap_setsrv s (Nat.max (c_srv s) (S i)))). exact D. }
  assert (EA : forall i, c_alive (coap_event_at s i) = false
                         /\ l_wire (c_log (coap_event_at s i)) = l_wire (c_log s)).
  { intro i. unfold coap_event_at.
    destruct (coap_event_dead (coap_setesrv s (Nat.max (c_esrv s) (S i))) (Genuine ((c_ep s, EVT), i))) as (A & B).
    split; [rewrite A; exact D|exact B]. }
  destruct e; cbn [coap_step]; try discriminate NR; try (split; [exact D|reflexivity]); try apply RA; try apply EA;
    try (apply coap_abort_dead; exact D).
  - (* Send *)
    destruct (c_infl s); [split; [exact D|reflexivity]|]. rewrite D.
    match goal with
    | |- context [coap_drain ?a ?b ?c ?d false ?e ?g ?h ?L ?w] => destruct (coap_drain_dead w a b c d e g h L) as (A & B)
    end. split; [exact A|rewrite B; reflexivity].
  - (* ReplayOld *)
    destruct (c_infl s); [|split; [exact D|reflexivity]]. destruct (c_ep s) eqn:E; [split; [exact D|reflexivity]|].
    apply coap_response_dead. exact D.
  - (* Corrupt *)
    destruct (c_infl s) eqn:Q; [|split; [exact D|reflexivity]].
    apply (coap_response_dead (coap_setsrv s (S (c_srv s)))). exact D.
Qed.

Lemma coap_dead_context_l : forall h s,
    c_alive s = false -> forallb not_reconnect h = true ->
    l_wire (c_log (coap_run s h)) = l_wire (c_log s).
Proof.
  induction h as [|e h IH]; intros s D NR; [reflexivity|].
  cbn in NR. apply andb_true_iff in NR. destruct NR as [N1 N2].
  destruct (coap_step_dead s e D N1) as (A & B). cbn [coap_run fold_left].
  change (fold_left coap_step h (coap_step s e)) with (coap_run (coap_step s e) h).
  rewrite (IH _ A N2). exact B.
Qed.

(* a 4.04 response to the in-flight request leaves the context dead *)
Lemma coap_response_404_kills : forall s f, c_infl s <> None -> c_alive (coap_response s f true) = false.
Proof.
  intros s f I. unfold coap_response. destruct (c_infl s) as [id|]; [|contradiction].
  assert (K : forall w ep send recv evt srv esrv nreq L, c_alive (coap_drain ep send recv evt false srv esrv nreq L w) = false).
  { intros. apply coap_drain_dead. }
  cbn [andb]. destruct (snd (try_open _ f _)); [apply K|]. destruct (opens _ f); apply K.
Qed.

Lemma coap_not_found_l : forall h1 h2,
    c_infl (coap_run coap_init h1) <> None -> forallb not_reconnect h2 = true ->
    l_wire (c_log (coap_run coap_init (h1 ++ Next404 :: h2)))
    = l_wire (c_log (coap_run coap_init (h1 ++ [Next404]))).
Proof.
  intros h1 h2 I NR. unfold coap_run. rewrite !fold_left_app. cbn [fold_left].
  set (s1 := fold_left coap_step h1 coap_init) in *.
  apply (coap_dead_context_l h2 (coap_step s1 Next404)); [|exact NR].
  cbn [coap_step]. unfold coap_response_at. destruct (c_infl s1) eqn:Q; [|contradiction].
  apply coap_response_404_kills. cbn. rewrite Q. discriminate.
Qed.
