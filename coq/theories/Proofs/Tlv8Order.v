(* C16: accessory-side encodings.  A conformant accessory may send the items of
   a struct in ANY order, at every nesting level.  [acc n t v e] says that [e] is
   such an encoding of [v]; decoding any acceptable encoding returns [v]. *)
From Coq Require Import List NArith ZArith Arith Bool Lia ZifyN ZifyNat ZifyBool Permutation.
From AHK Require Import Lib.Res Lib.ByteStr Model.Tlv8 Proofs.Tlv8Iter Proofs.Tlv8.
Import ListNotations.

Lemma assoc_last_in {A} k (x : A) : forall l, assoc_last k l = Some x -> In (k, x) l.
Proof.
  induction l as [|[k' x'] r IH]; intros H; [discriminate|].
  cbn [assoc_last] in H. destruct (assoc_last k r) as [y|] eqn:E.
  - injection H as ->. right. now apply IH.
  - destruct (N.eqb_spec k' k); [|discriminate]. injection H as ->. subst. now left.
Qed.

Lemma assoc_last_none {A} k : forall (l : list (N * A)), assoc_last k l = None -> ~ In k (map fst l).
Proof.
  induction l as [|[k' x'] r IH]; intros H Hin; [destruct Hin|].
  cbn [assoc_last] in H. destruct (assoc_last k r) as [y|] eqn:E; [discriminate|].
  destruct (N.eqb_spec k' k); [discriminate|].
  cbn [map fst In] in Hin. destruct Hin as [Hk|Hin]; [contradiction|]. now apply IH.
Qed.

Lemma assoc_last_perm {A} k (l l' : list (N * A)) :
  NoDup (map fst l) -> Permutation l l' -> assoc_last k l = assoc_last k l'.
Proof.
  intros Hn Hp.
  assert (Hn' : NoDup (map fst l')) by (eapply Permutation_NoDup; [apply Permutation_map; exact Hp|exact Hn]).
  destruct (assoc_last k l) as [x|] eqn:E.
  - apply assoc_last_in in E. symmetry. apply assoc_last_nodup; [exact Hn'|].
    eapply Permutation_in; eassumption.
  - apply assoc_last_none in E. symmetry. apply assoc_last_notin. intros Hin. apply E.
    eapply Permutation_in; [apply Permutation_sym, Permutation_map; exact Hp|exact Hin].
Qed.

Lemma build_ext fs : forall kv kv',
    (forall k, assoc_last k kv = assoc_last k kv') -> build fs kv = build fs kv'.
Proof.
  induction fs as [|[k ft] r IH]; intros kv kv' H; [reflexivity|].
  cbn [build]. rewrite (H k), (IH kv kv' H). reflexivity.
Qed.

Definition s_ty (x : N * ty * val) : ty := snd (fst x).
Definition s_val (x : N * ty * val) : val := snd x.

Section Order.
  Variable F : nat.
  Hypothesis Fpos : 0 < F.

  (* the items [L] are an acceptable transmission of the set fields of (fs, vs):
     one item per set field, any order, each payload acceptable for its field *)
  Definition acc_fields (A : ty -> val -> bytes -> Prop) (fs : fields) (vs : svals) (L : list (N * bytes)) : Prop :=
    length vs = length fs /\
    exists S', Permutation (setf fs vs) S' /\
               Forall2 (fun x p => fst p = s_tag x /\ A (s_ty x) (s_val x) (snd p)) S' L.

  Fixpoint acc (n : nat) (t : ty) (v : val) (e : bytes) : Prop :=
    match n with
    | O => False
    | S n' =>
        match t, v with
        | TStruct fs, VStruct vs =>
            exists L, e = render F L /\ L <> [] /\ acc_fields (acc n') fs vs L
        | TSeq fs, VSeq l =>
            exists Ls, e = join [0%N; 0%N] (map (render F) Ls) /\ Ls <> [] /\
                       Forall2 (fun vs L => L <> [] /\ acc_fields (acc n') fs vs L) l Ls
        | _, _ => fits n t v = true /\ enc F n t v = Ok e      (* scalars, strings, bytes, packed ids *)
        end
    end.

  (* a whole message may also be empty (every field unset) *)
  Definition acc_msg (n : nat) (t : ty) (v : val) (e : bytes) : Prop :=
    match n, t, v with
    | S n', TStruct fs, VStruct vs => exists L, e = render F L /\ acc_fields (acc n') fs vs L
    | _, _, _ => acc n t v e
    end.

  Section Level.
    Variable dr : ty -> bytes -> R val.

    Lemma struct_decode_perm fs vs S' L :
      NoDup (map fst fs) -> length vs = length fs ->
      Permutation (setf fs vs) S' -> Forall2 (rel dr) S' L ->
      dec_struct F dr fs (render F L) = Ok vs.
    Proof.
      intros Hnd Hlen Hp HR.
      pose proof (rel_tags dr _ _ HR) as Htags. pose proof (rel_nonempty dr _ _ HR) as Hne.
      assert (HndS : NoDup (map s_tag S')).
      { eapply Permutation_NoDup; [apply Permutation_map; exact Hp|]. now apply setf_nodup. }
      assert (HndL : NoDup (map fst L)) by (rewrite Htags; exact HndS).
      unfold dec_struct. rewrite (items_of_render F Fpos L Hne (NoDup_no_adj _ HndL)).
      rewrite (dec_items_ok dr fs Hnd S' L HR).
      - cbn [rbind finish]. f_equal.
        rewrite (build_ext fs (kv_of S') (kv_of (setf fs vs))).
        + apply (build_ok fs vs []); [exact Hnd|exact Hlen|intros k []].
        + intros k. symmetry. apply assoc_last_perm.
          * rewrite kv_of_keys. now apply setf_nodup.
          * unfold kv_of. now apply Permutation_map.
      - intros x Hx. apply (setf_in fs vs). eapply Permutation_in; [apply Permutation_sym; exact Hp|exact Hx].
    Qed.

    Lemma seq_decode fs l Ls :
      Forall elem_ok Ls -> Ls <> [] ->
      Forall2 (fun vs L => dec_struct F dr fs (render F L) = Ok vs) l Ls ->
      dec_seq F dr fs (join [0%N; 0%N] (map (render F) Ls)) = Ok l.
    Proof.
      intros Hoks HLs Hd. unfold dec_seq. rewrite (tlv_array_join F Fpos Ls Hoks HLs).
      rewrite (map_res_forall2 (dec_struct F dr fs) l (map (render F) Ls)).
      - reflexivity.
      - clear - Hd. induction Hd; cbn [map]; constructor; assumption.
    Qed.
  End Level.

  Lemma wf_fields_split wr fs :
    wf_fields wr fs = true -> NoDup (map fst fs) /\ (forall p, In p fs -> wr (snd p) = true).
  Proof.
    unfold wf_fields. intros H. apply andb_true_iff in H. destruct H as [H1 H2].
    split; [now apply nodup_b_NoDup|]. rewrite forallb_forall in H2.
    intros p Hp. specialize (H2 p Hp). apply andb_true_iff in H2. tauto.
  Qed.

  Lemma acc_sound : forall n t v e,
      wf n t = true -> acc n t v e -> e <> [] /\ dec F n t e = Ok v.
  Proof.
    induction n as [|n IH]; intros t v e Hw Ha; [destruct Ha|].
    assert (Hleaf : fits (S n) t v = true /\ enc F (S n) t v = Ok e -> e <> [] /\ dec F (S n) t e = Ok v).
    { intros [Hf He]. destruct (roundtrip_n F Fpos (S n) t v Hw Hf) as [e' [He' [Hne Hd]]].
      rewrite He in He'. injection He' as <-. tauto. }
    (* per-level: an acceptable field list gives [rel] for the recursive decoder *)
    assert (Hlevel : forall fs vs L, wf_fields (wf n) fs = true -> acc_fields (acc n) fs vs L ->
                                    dec_struct F (dec F n) fs (render F L) = Ok vs
                                    /\ Forall nonempty L /\ NoDup (map fst L)
                                    /\ (forall k, In k (map fst L) -> In k (map fst fs))).
    { intros fs vs L Hwf [Hlen [S' [Hp HF]]].
      destruct (wf_fields_split _ _ Hwf) as [Hnd Hall].
      assert (HR : Forall2 (rel (dec F n)) S' L).
      { assert (Hin : forall x, In x S' -> In (fst x) fs).
        { intros x Hx. apply (setf_in fs vs). eapply Permutation_in; [apply Permutation_sym; exact Hp|exact Hx]. }
        clear Hp. induction HF as [|x p S'' L' [Ht Hacc] _ IHF]; [constructor|].
        constructor; [|apply IHF; intros y Hy; apply Hin; now right].
        assert (Hx : In (fst x) fs) by (apply Hin; now left).
        destruct (IH (s_ty x) (s_val x) (snd p) (Hall _ Hx) Hacc) as [Hne Hd].
        unfold rel. auto. }
      split; [now apply (struct_decode_perm (dec F n) fs vs S' L)|].
      pose proof (rel_tags _ _ _ HR) as Htags.
      split; [now apply (rel_nonempty (dec F n) S')|]. split.
      - rewrite Htags. eapply Permutation_NoDup; [apply Permutation_map; exact Hp|]. now apply setf_nodup.
      - intros k Hk. rewrite Htags in Hk. apply (setf_tags_in fs vs).
        eapply Permutation_in; [apply Permutation_sym, Permutation_map; exact Hp|exact Hk]. }
    destruct t as [k|ms| | |fs|fs|k|]; destruct v as [x|b|vs|l|ids]; try (apply Hleaf; exact Ha).
    - (* struct *) destruct Ha as [L [-> [HLne Haf]]]. cbn [wf] in Hw.
      destruct (Hlevel fs vs L Hw Haf) as [Hd [Hne _]].
      split; [now apply render_nonnil|]. cbn [dec]. now rewrite Hd.
    - (* list of structs *) destruct Ha as [Ls [-> [HLs HF]]]. cbn [wf] in Hw.
      apply andb_true_iff in Hw. destruct Hw as [Hw H0]. apply negb_true_iff, mem_N_false in H0.
      assert (Hoks : Forall elem_ok Ls /\ Forall2 (fun vs L => dec_struct F (dec F n) fs (render F L) = Ok vs) l Ls).
      { clear HLs Hleaf. induction HF as [|vs L l' Ls' [HLne Haf] _ IHF]; [split; constructor|].
        destruct IHF as [I1 I2]. destruct (Hlevel fs vs L Hw Haf) as [Hd [Hne [Hnd Hincl]]].
        split; [|now constructor]. constructor; [|exact I1].
        split; [exact Hne|]. split; [|split; [now apply NoDup_no_adj|exact HLne]].
        apply Forall_forall. intros p Hp Hz. apply H0. apply Hincl. rewrite <- Hz. now apply in_map. }
      destruct Hoks as [Hoks Hds]. split.
      + destruct Ls as [|L Ls]; [contradiction|]. cbn [map]. apply join_nonnil.
        inversion Hoks as [|? ? [Hn [_ [_ HL]]] _]; subst. now apply render_nonnil.
      + cbn [dec]. now rewrite (seq_decode (dec F n) fs l Ls Hoks HLs Hds).
  Qed.

  Theorem acc_msg_sound n t v e :
    wf n t = true -> acc_msg n t v e -> dec F n t e = Ok v.
  Proof.
    intros Hw Ha.
    assert (Hgen : acc n t v e -> dec F n t e = Ok v) by (intros H; now apply acc_sound).
    destruct n as [|n]; [destruct Ha|].
    destruct t as [k|ms| | |fs|fs|k|]; try (apply Hgen; exact Ha).
    destruct v as [x|b|vs|l|ids]; try (apply Hgen; exact Ha).
    destruct Ha as [L [-> Haf]].
    destruct L as [|p L].
    - (* empty message: all fields unset *)
      destruct Haf as [Hlen [S' [Hp HF]]]. inversion HF; subst.
      apply Permutation_sym, Permutation_nil in Hp.
      cbn [wf] in Hw. destruct (wf_fields_split _ _ Hw) as [Hnd _].
      cbn [dec]. rewrite (struct_decode_perm (dec F n) fs vs [] [] Hnd Hlen); [reflexivity| |constructor].
      rewrite Hp. constructor.
    - apply Hgen. cbn [acc]. exists (p :: L). split; [reflexivity|]. split; [discriminate|exact Haf].
  Qed.

  (* the library's own encoding is one of the acceptable ones *)
  Lemma enc_fields_acc (A : ty -> val -> bytes -> Prop) er fr :
    (forall t v e, fr t v = true -> er t v = Ok e -> A t v e) ->
    forall fs vs e, fits_fields fr fs vs = true -> enc_fields F er fs vs = Ok e ->
      exists L, e = render F L /\ acc_fields A fs vs L /\ (any_set vs = true -> L <> []).
  Proof.
    intros HA. induction fs as [|[tag ft] r IH]; intros vs e Hf He.
    - destruct vs; [|discriminate]. cbn in He. injection He as <-. exists []. split; [reflexivity|].
      split; [|intros H; discriminate]. split; [reflexivity|]. exists []. split; constructor.
    - destruct vs as [|o vr]; [discriminate|]. cbn [fits_fields] in Hf. cbn [enc_fields] in He.
      destruct o as [v|].
      + apply andb_true_iff in Hf. destruct Hf as [Hf1 Hf2].
        destruct (er ft v) as [e1| | |] eqn:E1; cbn [rbind] in He; try discriminate.
        destruct (enc_fields F er r vr) as [e2| | |] eqn:E2; cbn [rbind] in He; try discriminate.
        injection He as <-. destruct (IH vr e2 Hf2 E2) as [L [-> [[Hlen [S' [Hp HF]]] _]]].
        exists ((tag, e1) :: L). split; [reflexivity|]. split; [|intros _; discriminate].
        split; [cbn [length]; now rewrite Hlen|].
        exists ((tag, ft, v) :: S'). cbn [setf]. split; [now constructor|].
        constructor; [|exact HF]. unfold s_tag, s_ty, s_val. cbn [fst snd]. split; [reflexivity|now apply HA].
      + destruct (IH vr e Hf He) as [L [-> [[Hlen [S' [Hp HF]]] Hany]]].
        exists L. split; [reflexivity|]. split; [|exact Hany].
        split; [cbn [length]; now rewrite Hlen|]. exists S'. cbn [setf]. split; assumption.
  Qed.

  Lemma enc_acc : forall n t v e, fits n t v = true -> enc F n t v = Ok e -> acc n t v e.
  Proof.
    induction n as [|n IH]; intros t v e Hf He; [discriminate|].
    destruct t as [k|ms| | |fs|fs|k|]; destruct v as [x|b|vs|l|ids]; try discriminate;
      try (cbn [acc]; split; assumption).
    - cbn [fits] in Hf. apply andb_true_iff in Hf. destruct Hf as [Hff Hany]. cbn [enc] in He.
      destruct (enc_fields_acc (acc n) (enc F n) (fits n) (IH) fs vs e Hff He) as [L [-> [Haf HL]]].
      cbn [acc]. exists L. split; [reflexivity|]. split; [now apply HL|exact Haf].
    - cbn [fits] in Hf. apply andb_true_iff in Hf. destruct Hf as [Hne Hall]. cbn [enc] in He.
      assert (Hgen : forall l first e, l <> [] ->
                 forallb (fun vs => fits_fields (fits n) fs vs && any_set vs) l = true ->
                 enc_seq F (enc F n) fs l first = Ok e ->
                 exists Ls, e = (if first then [] else [0%N; 0%N]) ++ join [0%N; 0%N] (map (render F) Ls)
                            /\ Ls <> []
                            /\ Forall2 (fun vs L => L <> [] /\ acc_fields (acc n) fs vs L) l Ls).
      { clear - IH. induction l as [|vs r IHl]; intros first e Hne Hall He; [contradiction|].
        cbn [forallb] in Hall. apply andb_true_iff in Hall. destruct Hall as [Hvs Hr].
        apply andb_true_iff in Hvs. destruct Hvs as [Hff Hany]. cbn [enc_seq] in He.
        destruct (enc_fields F (enc F n) fs vs) as [e1| | |] eqn:E1; cbn [rbind] in He; try discriminate.
        destruct (enc_seq F (enc F n) fs r false) as [e2| | |] eqn:E2; cbn [rbind] in He; try discriminate.
        injection He as <-.
        destruct (enc_fields_acc (acc n) (enc F n) (fits n) (IH) fs vs e1 Hff E1) as [L [-> [Haf HL]]].
        destruct r as [|vs2 r'].
        - cbn in E2. injection E2 as <-. exists [L]. cbn [map join]. rewrite app_nil_r.
          split; [reflexivity|]. split; [discriminate|]. constructor; [|constructor]. split; [now apply HL|exact Haf].
        - destruct (IHl false e2 ltac:(discriminate) Hr E2) as [Ls' [-> [HLs' HF]]].
          exists (L :: Ls'). split.
          + destruct Ls' as [|L2 Ls'']; [contradiction|]. cbn [map]. now rewrite join_cons2.
          + split; [discriminate|]. constructor; [|exact HF]. split; [now apply HL|exact Haf]. }
      destruct (Hgen l true e) as [Ls [-> [HLs HF]]]; [destruct l; discriminate|exact Hall|exact He|].
      cbn [acc app]. exists Ls. auto.
  Qed.
End Order.
