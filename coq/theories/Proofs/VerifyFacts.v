(* Lemmas about the pair-verify model (Model/Verify.v): soundness of a Done run,
   its corollaries in the symbolic algebra, and completeness against the
   specification accessory. *)
From Coq Require Import List NArith Arith Bool Lia.
From AHK Require Import Lib.Res Lib.ByteStr Model.Tlv Model.Sym Model.Verify Proofs.SymFacts.
Import ListNotations.

Lemma check_err_none d : check_err d = None -> no_error d.
Proof. unfold check_err, no_error, T_error. destruct (slookup 7 d); [discriminate|reflexivity]. Qed.

Lemma state_step_none d n : state_step d n = None -> state_ok d n /\ no_error d.
Proof.
  unfold state_step, state_ok. change T_state with 6%N.
  destruct (slookup 6 d) as [st|] eqn:E.
  - destruct (msg_eqb st [AByte n]) eqn:Q; [|discriminate].
    apply msg_eqb_eq in Q. subst. intros H. split; [right; reflexivity|now apply check_err_none].
  - intros H. split; [left; reflexivity|now apply check_err_none].
Qed.

Lemma is_empty_false_mlen m : is_empty m = true -> mlen m = 0%N.
Proof. unfold is_empty. apply N.eqb_eq. Qed.

(* ---- what a resume acceptance means ---- *)
Lemma resume_m3_some eph r d sid k :
  resume_m3 eph r d = Some (sid, k) ->
  exists meth mb pt,
    slookup T_method d = Some meth /\ as_bytes meth = Some mb /\ le_dec mb = 6%N /\
    slookup T_sid d = Some sid /\ is_empty sid = false /\
    slookup T_enc d = Some (s_seal (s_hkdf (rs_secret r) (s_pub eph ++ sid) L_res_resp 32) N_pr02 [] pt) /\
    mlen pt = 0%N /\
    k = s_hkdf (rs_secret r) (s_pub eph ++ sid) L_res_secret 32.
Proof.
  unfold resume_m3.
  destruct (slookup T_method d) as [meth|]; [|discriminate].
  destruct (is_empty meth); [discriminate|].
  destruct (as_bytes meth) as [mb|] eqn:Emb; [|discriminate].
  destruct (N.eqb (le_dec mb) 6) eqn:E6; cbn [negb]; [|discriminate].
  destruct (slookup T_sid d) as [sid'|]; [|discriminate].
  destruct (is_empty sid') eqn:Esid; [discriminate|].
  destruct (slookup T_enc d) as [tag|]; [|discriminate].
  destruct (is_empty tag); [discriminate|].
  destruct (s_open _ _ _ tag) as [pt|] eqn:Eo; [|discriminate].
  destruct (is_empty pt) eqn:Ept; cbn [negb]; [|discriminate].
  intros H; inversion H; subst. apply s_open_some in Eo. subst tag.
  exists meth, mb, pt. repeat split; try reflexivity; try assumption.
  - now apply N.eqb_eq.
  - now apply is_empty_false_mlen.
Qed.

(* ---- what a Send / Done at M2 means ---- *)
Lemma pv_on_m2_send tr pd eph rs m2 req shared :
  pv_on_m2 tr pd eph rs m2 = PSend req shared ->
  exists P sub items L, let d2 := prep tr exp_m2 m2 in
    slookup T_pk d2 = Some P /\ mlen P = 32%N /\
    slookup T_enc d2 = Some (s_seal (pv_key (s_dh eph P)) N_pv02 [] sub) /\
    sdec sub = SItems items /\
    slookup T_id (smerge items) = Some (lit (pd_acc_id pd)) /\
    pd_acc_ltpk pd = s_pub L /\
    slookup T_sig (smerge items) = Some (s_sign L (P ++ lit (pd_acc_id pd) ++ s_pub eph)) /\
    state_ok d2 2 /\ no_error d2 /\
    shared = s_dh eph P /\ req = m3_req pd eph P shared.
Proof.
  unfold pv_on_m2. cbv zeta.
  set (d2 := prep tr exp_m2 m2).
  destruct (state_step d2 2) eqn:Est; [discriminate|].
  apply state_step_none in Est. destruct Est as [Hst Herr].
  destruct (match rs with Some r => resume_m3 eph r d2 | None => None end) as [[? ?]|]; [discriminate|].
  destruct (slookup T_pk d2) as [P|] eqn:EP; [|discriminate].
  destruct (slookup T_enc d2) as [enc|] eqn:Eenc; [|discriminate].
  destruct (N.eqb (mlen P) 32) eqn:E32; cbn [negb]; [|discriminate].
  destruct (s_open (pv_key (s_dh eph P)) N_pv02 [] enc) as [sub|] eqn:Eo; [|discriminate].
  apply s_open_some in Eo. subst enc.
  destruct (sdec sub) as [items| |] eqn:Ed; try discriminate.
  destruct (slookup T_id (smerge items)) as [idm|] eqn:Eid; [|discriminate].
  destruct (slookup T_sig (smerge items)) as [sg|] eqn:Esg; [|discriminate].
  destruct (as_bytes idm) as [idb|] eqn:Eb; [|discriminate].
  destruct (bytes_eqb idb (pd_acc_id pd)) eqn:Eq; cbn [negb]; [|discriminate].
  destruct (N.eqb (mlen (pd_acc_ltpk pd)) 32); cbn [negb]; [|discriminate].
  destruct (s_verify (pd_acc_ltpk pd) sg (P ++ lit idb ++ s_pub eph)) eqn:Ev; cbn [negb]; [|discriminate].
  intros H; inversion H; subst.
  apply bytes_eqb_eq in Eq. subst idb.
  apply as_bytes_some in Eb. subst idm.
  apply s_verify_true in Ev. destruct Ev as (L & HL & Hsg). subst sg.
  exists P, sub, items, L. cbv zeta. fold d2. repeat split; try assumption; try reflexivity.
  now apply N.eqb_eq.
Qed.

Lemma pv_on_m2_done tr pd eph rs m2 sid k :
  pv_on_m2 tr pd eph rs m2 = PDone sid k -> pv_resume_auth tr eph rs m2 sid k.
Proof.
  unfold pv_on_m2, pv_resume_auth. cbv zeta.
  set (d2 := prep tr exp_m2 m2).
  destruct (state_step d2 2) eqn:Est; [discriminate|].
  apply state_step_none in Est. destruct Est as [Hst Herr].
  destruct rs as [r|].
  - destruct (resume_m3 eph r d2) as [[sid' k']|] eqn:Er.
    + intros H; inversion H; subst. apply resume_m3_some in Er.
      destruct Er as (meth & mb & pt & H1 & H2 & H3 & H4 & H5 & H6 & H7 & H8).
      exists r, meth, mb, pt. repeat split; assumption.
    + destruct (slookup T_pk d2); [|discriminate].
      destruct (slookup T_enc d2); [|discriminate].
      destruct (negb _); [discriminate|].
      destruct (s_open _ _ _ _); [|discriminate].
      destruct (sdec _); try discriminate.
      destruct (slookup T_id _); [|discriminate].
      destruct (slookup T_sig _); [|discriminate].
      destruct (as_bytes _); [|discriminate].
      repeat (destruct (negb _); [discriminate|]). discriminate.
  - destruct (slookup T_pk d2); [|discriminate].
    destruct (slookup T_enc d2); [|discriminate].
    destruct (negb _); [discriminate|].
    destruct (s_open _ _ _ _); [|discriminate].
    destruct (sdec _); try discriminate.
    destruct (slookup T_id _); [|discriminate].
    destruct (slookup T_sig _); [|discriminate].
    destruct (as_bytes _); [|discriminate].
    repeat (destruct (negb _); [discriminate|]). discriminate.
Qed.

Lemma pv_on_m4_done tr shared m4 sid k :
  pv_on_m4 tr shared m4 = PDone sid k ->
  state_ok (prep tr exp_m4 m4) 4 /\ no_error (prep tr exp_m4 m4) /\ k = shared /\ sid = pv_sid shared.
Proof.
  unfold pv_on_m4. cbv zeta. destruct (state_step _ 4) eqn:E; [discriminate|].
  apply state_step_none in E. destruct E as [Ea Eb]. intros HH; inversion HH; subst. repeat split; assumption.
Qed.

Lemma pv_on_m4_not_send tr shared m4 req s : pv_on_m4 tr shared m4 <> PSend req s.
Proof. unfold pv_on_m4. cbv zeta. destruct (state_step _ 4); discriminate. Qed.

(* ---- C01 soundness ---- *)
Lemma pv_sound_l tr pd eph rs m2 m4 sid k :
  pv_run tr pd eph rs m2 m4 = PDone sid k ->
  pv_full_auth tr pd eph m2 m4 sid k \/ pv_resume_auth tr eph rs m2 sid k.
Proof.
  unfold pv_run. destruct (pv_on_m2 tr pd eph rs m2) as [f|req shared|sid' k'|] eqn:E2; try discriminate.
  - intros H4. left. apply pv_on_m2_send in E2. cbv zeta in E2.
    destruct E2 as (P & sub & items & L & H1 & H2 & H3 & H5 & H6 & H7 & H8 & H9 & H10 & H11 & H12).
    apply pv_on_m4_done in H4. destruct H4 as (G1 & G2 & G3 & G4).
    unfold pv_full_auth. cbv zeta. exists P, sub, items, L. subst. repeat split; assumption.
  - intros H; inversion H; subst. right. exact (pv_on_m2_done _ _ _ _ _ _ _ E2).
Qed.

(* a Fail (or Unsupported) result has no keys; keys exist only for Done *)
Lemma pv_no_keys_l tr r ks : keys_of tr r = Some ks -> exists sid k, r = PDone sid k /\ ks = glue tr k.
Proof. destruct r; cbn; try discriminate. intros H; inversion H. eauto. Qed.

(* the run never ends in Send *)
Lemma pv_run_not_send tr pd eph rs m2 m4 req s : pv_run tr pd eph rs m2 m4 <> PSend req s.
Proof.
  unfold pv_run. destruct (pv_on_m2 tr pd eph rs m2) eqn:E; try discriminate.
  apply pv_on_m4_not_send.
Qed.

(* ---- the prepared view of a reply of the honest three-field shape ---- *)
Lemma prep_shape tr st P key nn aad idm sg :
  prep tr exp_m2 (m2_shape st P key nn aad idm sg) = m2_shape st P key nn aad idm sg.
Proof. destruct tr; reflexivity. Qed.

Lemma shape_lookups st P key nn aad idm sg :
  let d := m2_shape st P key nn aad idm sg in
  slookup T_pk d = Some P /\
  slookup T_enc d = Some (s_seal key nn aad (senc [(T_id, idm); (T_sig, sg)])) /\
  slookup T_state d = Some st /\ slookup T_method d = None.
Proof. cbv zeta. repeat split; reflexivity. Qed.

(* every component of an accepted M2 of the honest shape is pinned *)
Lemma pv_components_pinned_l tr pd eph st P key nn aad idm sg m4 sid k :
  pv_run tr pd eph None (m2_shape st P key nn aad idm sg) m4 = PDone sid k ->
  st = [AByte 2] /\ key = pv_key (s_dh eph P) /\ nn = N_pv02 /\ aad = [] /\
  idm = lit (pd_acc_id pd) /\
  exists L, pd_acc_ltpk pd = s_pub L /\ sg = s_sign L (P ++ lit (pd_acc_id pd) ++ s_pub eph).
Proof.
  intros H. apply pv_sound_l in H. destruct H as [H|H].
  - unfold pv_full_auth in H. cbv zeta in H. rewrite prep_shape in H.
    destruct H as (P' & sub & items & L & H1 & H2 & H3 & H4 & H5 & H6 & H7 & H8 & H9 & _).
    destruct (shape_lookups st P key nn aad idm sg) as (S1 & S2 & S3 & S4).
    rewrite S1 in H1. inversion H1; subst P'.
    rewrite S2 in H3. apply some_inj, s_seal_inj in H3. destruct H3 as (-> & -> & -> & <-).
    rewrite sdec_senc in H4. inversion H4; subst items.
    cbn in H5. apply some_inj in H5. subst idm.
    cbn in H7. apply some_inj in H7. subst sg.
    destruct H8 as [H8|H8]; rewrite S3 in H8; [discriminate|]. inversion H8; subst st.
    repeat split; try reflexivity. exists L. split; [assumption|reflexivity].
  - unfold pv_resume_auth in H. cbv zeta in H. destruct H as (r & ? & ? & ? & H & _). discriminate.
Qed.

(* replacing ONE component of an honest M2 (keeping the signature, or keeping
   the public key) is fatal *)
Lemma pv_tampered_l tr pd eph L b st P key nn aad idm sg m4 sid k :
  pd_acc_ltpk pd = s_pub L ->
  let P0 := s_pub b in
  let sg0 := s_sign L (P0 ++ lit (pd_acc_id pd) ++ s_pub eph) in
  (st, P, key, nn, aad, idm, sg) <> ([AByte 2], P0, pv_key (s_dh eph P0), N_pv02, [], lit (pd_acc_id pd), sg0) ->
  (sg = sg0 \/ P = P0) ->
  pv_run tr pd eph None (m2_shape st P key nn aad idm sg) m4 <> PDone sid k.
Proof.
  intros HL P0 sg0 Hne Hor Hrun.
  apply pv_components_pinned_l in Hrun.
  destruct Hrun as (-> & -> & -> & -> & -> & L' & HL' & ->).
  rewrite HL in HL'. apply s_pub_inj in HL'. subst L'.
  assert (P = P0) as ->.
  { destruct Hor as [Hs|Hp]; [|assumption].
    unfold sg0 in Hs. apply s_sign_inj in Hs. destruct Hs as [_ Hm]. now apply app_inv_tail in Hm. }
  apply Hne. reflexivity.
Qed.

Lemma pv_wrong_ltsk_l tr pd eph L L' b m4 sid k :
  pd_acc_ltpk pd = s_pub L -> L' <> L ->
  let P := s_pub b in
  pv_run tr pd eph None
    (m2_shape [AByte 2] P (pv_key (s_dh eph P)) N_pv02 [] (lit (pd_acc_id pd))
              (s_sign L' (P ++ lit (pd_acc_id pd) ++ s_pub eph))) m4 <> PDone sid k.
Proof.
  intros HL Hne P Hrun. apply pv_components_pinned_l in Hrun.
  destruct Hrun as (_ & _ & _ & _ & _ & L0 & HL0 & Hs).
  rewrite HL in HL0. apply s_pub_inj in HL0. subst L0.
  apply s_sign_inj in Hs. destruct Hs as [Hs _]. contradiction.
Qed.

Lemma pv_wrong_id_l tr pd eph id' P key nn aad sg m4 sid k :
  id' <> pd_acc_id pd ->
  pv_run tr pd eph None (m2_shape [AByte 2] P key nn aad (lit id') sg) m4 <> PDone sid k.
Proof.
  intros Hne Hrun. apply pv_components_pinned_l in Hrun.
  destruct Hrun as (_ & _ & _ & _ & Hid & _). apply lit_inj in Hid. contradiction.
Qed.

Lemma pv_permuted_l tr pd eph L b perm m4 sid k :
  pd_acc_ltpk pd = s_pub L ->
  let P := s_pub b in
  perm <> P ++ lit (pd_acc_id pd) ++ s_pub eph ->
  pv_run tr pd eph None
    (m2_shape [AByte 2] P (pv_key (s_dh eph P)) N_pv02 [] (lit (pd_acc_id pd)) (s_sign L perm)) m4
  <> PDone sid k.
Proof.
  intros HL P Hne Hrun. apply pv_components_pinned_l in Hrun.
  destruct Hrun as (_ & _ & _ & _ & _ & L0 & HL0 & Hs).
  apply s_sign_inj in Hs. destruct Hs as [_ Hs]. contradiction.
Qed.

(* an M2 produced (honestly, by the right accessory) for another exchange eph' *)
Lemma pv_replayed_l tr pd eph eph' L b m4 sid k :
  pd_acc_ltpk pd = s_pub L -> eph' <> eph ->
  let P := s_pub b in
  pv_run tr pd eph None
    (m2_shape [AByte 2] P (pv_key (s_dh eph' P)) N_pv02 [] (lit (pd_acc_id pd))
              (s_sign L (P ++ lit (pd_acc_id pd) ++ s_pub eph'))) m4 <> PDone sid k.
Proof.
  intros HL Hne P Hrun. apply pv_components_pinned_l in Hrun.
  destruct Hrun as (_ & _ & _ & _ & _ & L0 & HL0 & Hs).
  apply s_sign_inj in Hs. destruct Hs as [_ Hm].
  apply app_inv_head in Hm. apply app_inv_head in Hm. apply s_pub_inj in Hm. contradiction.
Qed.

(* a reply lacking the public key or the encrypted data (as seen by the
   generator), or whose sub-TLV lacks identifier or signature, never completes
   a full verify *)
Lemma pv_field_removed_l tr pd eph m2 m4 sid k :
  (slookup T_pk (prep tr exp_m2 m2) = None \/ slookup T_enc (prep tr exp_m2 m2) = None \/
   (forall sub items, slookup T_enc (prep tr exp_m2 m2) = Some (s_seal (pv_key (s_dh eph (match slookup T_pk (prep tr exp_m2 m2) with Some P => P | None => [] end))) N_pv02 [] sub) ->
       sdec sub = SItems items ->
       slookup T_id (smerge items) = None \/ slookup T_sig (smerge items) = None)) ->
  pv_run tr pd eph None m2 m4 <> PDone sid k.
Proof.
  intros Hmiss Hrun. apply pv_sound_l in Hrun. destruct Hrun as [H|H].
  - unfold pv_full_auth in H. cbv zeta in H.
    destruct H as (P & sub & items & L & H1 & H2 & H3 & H4 & H5 & H6 & H7 & _).
    destruct Hmiss as [Hm|[Hm|Hm]].
    + rewrite Hm in H1. discriminate.
    + rewrite Hm in H3. discriminate.
    + rewrite H1 in Hm. destruct (Hm sub items H3 H4) as [Hx|Hx].
      * rewrite Hx in H5. discriminate.
      * rewrite Hx in H7. discriminate.
  - unfold pv_resume_auth in H. cbv zeta in H. destruct H as (r & ? & ? & ? & H & _). discriminate.
Qed.

(* resume: a tag made from another secret is not accepted, on any transport *)
Definition resume_reply (sid' key : msg) : list sitem :=
  [(T_state, [AByte 2]); (T_method, [AByte 6]); (T_sid, sid'); (T_enc, s_seal key N_pr02 [] [])].

Lemma pv_resume_wrong_secret_l tr pd eph r secret' sid' m4 sid k :
  secret' <> rs_secret r ->
  pv_run tr pd eph (Some r)
    (resume_reply sid' (s_hkdf secret' (s_pub eph ++ sid') L_res_resp 32)) m4 <> PDone sid k.
Proof.
  intros Hne Hrun. apply pv_sound_l in Hrun. destruct Hrun as [H|H].
  - unfold pv_full_auth in H. cbv zeta in H.
    destruct H as (P & sub & items & L & H1 & _). destruct tr; cbn in H1; discriminate.
  - unfold pv_resume_auth in H. cbv zeta in H.
    destruct H as (r0 & meth & mb & pt & Hr & _ & _ & Hm & _ & _ & Hs & _ & He & _).
    inversion Hr; subst r0.
    destruct tr; cbn in Hm; try discriminate.
    cbn in Hs. inversion Hs; subst sid.
    cbn in He. unfold s_seal, s_hkdf in He. inversion He. contradiction.
Qed.

(* ---- completeness ---- *)
Lemma glue_acc_keys tr secret : glue tr secret = acc_keys tr secret.
Proof. destruct tr; reflexivity. Qed.

Lemma pv_complete_l tr pd eph a :
  acc_matches a pd ->
  let m1 := pv_m1 eph None in
  let shared := s_dh eph (s_pub (ac_eph a)) in
  exists m2 m3 m4,
    acc_m2 a m1 = (m2, AVerify (s_pub eph) shared) /\
    pv_on_m2 tr pd eph None m2 = PSend m3 shared /\
    acc_m4 a (AVerify (s_pub eph) shared) m3 = (m4, true, Some shared) /\
    pv_run tr pd eph None m2 m4 = PDone (pv_sid shared) shared /\
    keys_of tr (pv_run tr pd eph None m2 m4) = Some (acc_keys tr shared).
Proof.
  intros (Hid & Hltpk & Hcid & Hcltpk). cbv zeta.
  set (shared := s_dh eph (s_pub (ac_eph a))).
  assert (Hsh : s_dh (ac_eph a) (s_pub eph) = shared) by apply s_dh_comm.
  set (sg := s_sign (ac_ltsk a) (s_pub (ac_eph a) ++ lit (ac_id a) ++ s_pub eph)).
  set (m2 := m2_shape [AByte 2] (s_pub (ac_eph a)) (pv_key shared) N_pv02 [] (lit (ac_id a)) sg).
  set (m3 := m3_req pd eph (s_pub (ac_eph a)) shared).
  assert (E2 : acc_m2 a (pv_m1 eph None) = (m2, AVerify (s_pub eph) shared)).
  { unfold acc_m2, pv_m1, m1_plain. cbn [smerge fold_left spush fst snd rev app N.eqb T_state T_pk Pos.eqb].
    cbn [slookup T_state T_pk N.eqb Pos.eqb]. unfold acc_try_resume.
    cbn [slookup T_state T_pk T_method N.eqb Pos.eqb].
    rewrite Hsh. destruct (ac_session a); reflexivity. }
  assert (E3 : pv_on_m2 tr pd eph None m2 = PSend m3 shared).
  { unfold pv_on_m2. cbv zeta. unfold m2. rewrite prep_shape.
    destruct (shape_lookups [AByte 2] (s_pub (ac_eph a)) (pv_key shared) N_pv02 [] (lit (ac_id a)) sg) as (S1 & S2 & S3 & S4).
    unfold state_step, check_err. change T_state with 6%N in S3. rewrite S3. cbn [msg_eqb atom_eqb N.eqb Pos.eqb andb].
    change (slookup 7 (m2_shape [AByte 2] (s_pub (ac_eph a)) (pv_key shared) N_pv02 [] (lit (ac_id a)) sg)) with (@None msg).
    cbv iota. rewrite S1, S2. cbn [mlen s_pub alen N.add N.eqb Pos.eqb negb Pos.add Pos.succ].
    fold shared. rewrite s_open_seal, sdec_senc.
    cbn [smerge fold_left spush fst snd rev app slookup T_id T_sig N.eqb Pos.eqb].
    rewrite as_bytes_lit, Hid, bytes_eqb_refl. cbn [negb].
    rewrite Hltpk. cbn [mlen s_pub alen N.add N.eqb Pos.eqb negb Pos.add Pos.succ].
    unfold sg. rewrite Hid, s_verify_sign. cbn [negb]. reflexivity. }
  assert (E4 : acc_m4 a (AVerify (s_pub eph) shared) m3 = ([(T_state, [AByte 4])], true, Some shared)).
  { unfold acc_m4, m3, m3_req.
    cbn [smerge fold_left spush fst snd rev app slookup T_state T_enc N.eqb Pos.eqb].
    rewrite s_open_seal, sdec_senc.
    cbn [smerge fold_left spush fst snd rev app slookup T_id T_sig N.eqb Pos.eqb].
    rewrite Hcid, msg_eqb_refl, Hcltpk, s_verify_sign. reflexivity. }
  assert (E5 : pv_run tr pd eph None m2 [(T_state, [AByte 4])] = PDone (pv_sid shared) shared).
  { unfold pv_run. rewrite E3. destruct tr; reflexivity. }
  exists m2, m3, [(T_state, [AByte 4])]. repeat split; try assumption.
  rewrite E5. cbn [keys_of]. now rewrite glue_acc_keys.
Qed.

(* resume completes on BLE (the only transport that passes resume state) *)
Lemma pv_complete_resume_l pd eph a r :
  ac_session a = Some r -> is_empty (rs_sid r) = false -> is_empty (ac_new_sid a) = false ->
  let m1 := pv_m1 eph (Some r) in
  let secret' := s_hkdf (rs_secret r) (s_pub eph ++ ac_new_sid a) L_res_secret 32 in
  exists m2,
    acc_m2 a m1 = (m2, AResumed (ac_new_sid a) secret') /\
    (forall m4, pv_run TBLE pd eph (Some r) m2 m4 = PDone (ac_new_sid a) secret') /\
    glue TBLE secret' = acc_keys TBLE secret'.
Proof.
  intros Hs He1 He2. cbv zeta.
  set (nsid := ac_new_sid a).
  set (m2 := resume_reply nsid (s_hkdf (rs_secret r) (s_pub eph ++ nsid) L_res_resp 32)).
  assert (E2 : acc_m2 a (pv_m1 eph (Some r)) =
               (m2, AResumed nsid (s_hkdf (rs_secret r) (s_pub eph ++ nsid) L_res_secret 32))).
  { unfold acc_m2, pv_m1. rewrite He1. unfold resume_m1.
    cbn [smerge fold_left spush fst snd rev app slookup T_state T_method T_pk T_sid T_enc N.eqb Pos.eqb].
    unfold acc_try_resume. rewrite Hs.
    cbn [slookup T_state T_method T_pk T_sid T_enc N.eqb Pos.eqb].
    rewrite !msg_eqb_refl. cbn [andb]. rewrite s_open_seal. reflexivity. }
  exists m2. split; [exact E2|]. split; [|reflexivity].
  intros m4. unfold pv_run, pv_on_m2. cbv zeta. unfold m2, resume_reply.
  cbn [prep smerge fold_left spush fst snd rev app T_state T_method T_pk T_sid T_enc N.eqb Pos.eqb].
  unfold state_step, check_err.
  cbn [slookup T_state T_method T_pk T_sid T_enc N.eqb Pos.eqb msg_eqb atom_eqb andb].
  unfold resume_m3.
  cbn [slookup T_state T_method T_pk T_sid T_enc N.eqb Pos.eqb].
  change (is_empty [AByte 6]) with false. cbv iota.
  change (as_bytes [AByte 6]) with (Some [6%N]). cbv iota.
  change (negb (N.eqb (le_dec [6%N]) 6)) with false. cbv iota.
  fold nsid in He2. rewrite He2. change (is_empty (s_seal (s_hkdf (rs_secret r) (s_pub eph ++ nsid) L_res_resp 32) N_pr02 [] [])) with false. cbv iota.
  rewrite s_open_seal. reflexivity.
Qed.

(* ---- byte-level justification of treating the transcript as three atoms ---- *)
Lemma app_inj_len {A} : forall (a a' x y : list A),
  length a = length a' -> a ++ x = a' ++ y -> a = a' /\ x = y.
Proof.
  induction a as [|h t IH]; intros [|h' t'] x y Hl H; try discriminate.
  - auto.
  - cbn in H. inversion H; subst. cbn in Hl. inversion Hl as [Hl'].
    destruct (IH t' x y Hl' H2) as [-> ->]. auto.
Qed.

Lemma cat3_inj_l {A} (a i b a' i' b' : list A) :
  length a = length a' -> length b = length b' ->
  a ++ i ++ b = a' ++ i' ++ b' -> a = a' /\ i = i' /\ b = b'.
Proof.
  intros Ha Hb H. destruct (app_inj_len a a' _ _ Ha H) as [-> H'].
  assert (Hi : length i = length i').
  { apply (f_equal (@length A)) in H'. rewrite !app_length in H'. lia. }
  destruct (app_inj_len i i' _ _ Hi H') as [-> ->]. auto.
Qed.
