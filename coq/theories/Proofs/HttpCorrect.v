(* C07, part 3: a concatenation of well-formed messages is parsed into exactly
   those messages, with an empty buffer and a fresh parser at the end. *)
From Coq Require Import List NArith ZArith Arith Bool Lia ZifyN ZifyNat ZifyBool.
From AHK Require Import Lib.ByteStr Model.Http Model.HttpWire Proofs.HttpStep Proofs.HttpFeed.
Import ListNotations.

(* ---- running without fuel bookkeeping ---- *)

Definition run (p : pst) (r : bytes) (acc : list msg) : hstate * list msg :=
  drain (S (length r)) p r acc.

Lemma run_next p r p' r' acc : step p r = Next p' r' -> run p r acc = run p' r' acc.
Proof.
  intros H. unfold run. remember (S (length r')) as f' eqn:Ef. cbn [drain]. rewrite H.
  pose proof (step_shrinks p r (length r')) as HS. rewrite H in HS. specialize (HS eq_refl).
  apply drain_fuel; lia.
Qed.

Lemma run_emit p r m r' acc : step p r = Emit m r' -> run p r acc = run init r' (acc ++ [m]).
Proof.
  intros H. unfold run. remember (S (length r')) as f' eqn:Ef. cbn [drain]. rewrite H.
  pose proof (step_shrinks p r (length r')) as HS. rewrite H in HS. specialize (HS eq_refl).
  apply drain_fuel; lia.
Qed.

Lemma run_wait p r acc : step p r = Wait -> run p r acc = (Run p r, acc).
Proof. intros H. unfold run. cbn [drain]. now rewrite H. Qed.

(* ---- lines ---- *)

Lemma find_crlf_line l : forall rest,
    no_crlf l = true -> find_crlf (l ++ 13%N :: 10%N :: rest) = Some (l, rest).
Proof.
  unfold no_crlf. induction l as [|x t IH]; intros rest H.
  - reflexivity.
  - cbn [find_crlf app] in *.
    destruct (N.eqb x 13 && starts_lf t) eqn:E; [discriminate|].
    destruct (find_crlf t) as [[a r]|] eqn:F; [discriminate|].
    assert (E' : N.eqb x 13 && starts_lf (t ++ 13%N :: 10%N :: rest) = false).
    { destruct t as [|y t']; [cbn; now rewrite andb_false_r|exact E]. }
    rewrite E'. rewrite IH by reflexivity. reflexivity.
Qed.

Lemma split1_app c a : forall r, no_byte c a = true -> split1 c (a ++ c :: r) = Some (a, r).
Proof.
  unfold no_byte. induction a as [|x t IH]; intros r H.
  - cbn. now rewrite N.eqb_refl.
  - cbn [split1 app] in *. destruct (N.eqb x c); [discriminate|].
    destruct (split1 c t) as [[u v]|] eqn:F; [discriminate|].
    rewrite IH by reflexivity. reflexivity.
Qed.

Lemma crlf_assoc (l r : bytes) : (l ++ [13%N; 10%N]) ++ r = l ++ 13%N :: 10%N :: r.
Proof. now rewrite <- app_assoc. Qed.

Lemma is_some_eq {A} (o : option A) : is_some o = true -> exists a, o = Some a.
Proof. destruct o; [eauto|discriminate]. Qed.

(* ---- status line ---- *)

Lemma on_status_wf p w z :
  no_byte 32 (w_version w) = true -> no_byte 32 (w_codeb w) = true ->
  ascii (status_line w) = true -> int10 ws_b (w_codeb w) = Some z ->
  on_status p (status_line w)
  = LNext (mkP Headers (chunked p) (clen p) (w_version w) z (w_reason w) (hdrs p) (body p)).
Proof.
  intros H1 H2 H3 H4. unfold on_status.
  unfold status_line in *.
  rewrite (split1_app _ _ _ H1). rewrite (split1_app _ _ _ H2).
  rewrite H3, H4. reflexivity.
Qed.

(* ---- header lines ---- *)

Lemma hline_nonnil nv : nil_b (hline nv) = false.
Proof. unfold hline. destruct (fst nv); reflexivity. Qed.

Lemma on_header_wf p nv ck cl :
  wf_hdr nv = true -> hdr_step (chunked p, clen p) nv = Some (ck, cl) ->
  on_header p (hline nv) = LNext (add_hdr p ck cl (sem nv)).
Proof.
  unfold wf_hdr. intros H HS.
  apply andb_true_iff in H as [H H3]. apply andb_true_iff in H as [H1 H2].
  unfold on_header. rewrite hline_nonnil.
  unfold hline at 1. rewrite (split1_app _ _ _ H1). rewrite H3. cbn [negb].
  unfold hdr_step, sem in HS. cbn [fst snd] in HS. unfold sem.
  set (name := title (strip ws_s (fst nv))) in *.
  set (value := strip ws_s (snd nv)) in *.
  destruct (beq name s_te).
  - inversion HS; subst. reflexivity.
  - destruct (beq name s_cl).
    + destruct (int10 ws_s value); inversion HS; subst. reflexivity.
    + inversion HS; subst. reflexivity.
Qed.

Definition hlines (hs : list (bytes * bytes)) : bytes :=
  concat (map (fun nv => hline nv ++ [13%N; 10%N]) hs).

Definition after_hdrs (p : pst) (ck : bool) (cl : Z) (hs : list (bytes * bytes)) : pst :=
  mkP (ph p) ck cl (version p) (code p) (reason p) (hdrs p ++ map sem hs) (body p).

Lemma run_headers hs : forall p rest acc ck cl,
    ph p = Headers -> forallb wf_hdr hs = true ->
    hdr_fold (chunked p, clen p) hs = Some (ck, cl) ->
    run p (hlines hs ++ rest) acc = run (after_hdrs p ck cl hs) rest acc.
Proof.
  induction hs as [|nv hs IH]; intros p rest acc ck cl Hph Hwf Hf.
  - cbn in Hf. inversion Hf; subst. cbn [hlines map concat app].
    unfold after_hdrs. cbn [map]. rewrite app_nil_r. destruct p; reflexivity.
  - cbn [forallb] in Hwf. apply andb_true_iff in Hwf as [Hnv Hwf].
    cbn [hdr_fold] in Hf.
    destruct (hdr_step (chunked p, clen p) nv) as [[ck1 cl1]|] eqn:HS; [|discriminate].
    unfold hlines. cbn [map concat]. rewrite <- app_assoc. rewrite crlf_assoc.
    assert (Hnc : no_crlf (hline nv) = true).
    { unfold wf_hdr in Hnv. apply andb_true_iff in Hnv as [Hnv _].
      apply andb_true_iff in Hnv as [_ Hnv]. exact Hnv. }
    rewrite (run_next p _ (add_hdr p ck1 cl1 (sem nv)) (hlines hs ++ rest)).
    + rewrite (IH (add_hdr p ck1 cl1 (sem nv)) rest acc ck cl); [|exact Hph|exact Hwf|exact Hf].
      unfold after_hdrs, add_hdr. cbn [ph chunked clen version code reason hdrs body map].
      now rewrite <- app_assoc.
    + unfold step. rewrite Hph. unfold line_step.
      rewrite (find_crlf_line _ _ Hnc). rewrite (on_header_wf _ _ _ _ Hnv HS). reflexivity.
Qed.

(* ---- chunks ---- *)

Lemma firstn_exact {A} (d y : list A) : firstn (length d) (d ++ y) = d.
Proof. induction d as [|x d IH]; [reflexivity|]. cbn. now rewrite IH. Qed.

Lemma skipn_exact {A} (d y : list A) : skipn (length d) (d ++ y) = y.
Proof. induction d as [|x d IH]; [reflexivity|]. exact IH. Qed.

Lemma skipn_exact2 {A} (d : list A) a b y : skipn (length d + 2) (d ++ a :: b :: y) = y.
Proof. induction d as [|x d IH]; [reflexivity|]. exact IH. Qed.

Lemma rchunk_app c X : rchunk c ++ X = fst c ++ 13%N :: 10%N :: (snd c ++ 13%N :: 10%N :: X).
Proof.
  unfold rchunk. rewrite <- app_assoc. cbn [app]. rewrite <- app_assoc. reflexivity.
Qed.

Lemma set_body_same p : set_body p (body p) = p.
Proof. destruct p; reflexivity. Qed.

Lemma run_chunks cs : forall p rest acc,
    ph p = Body -> chunked p = true -> forallb wf_chunk cs = true ->
    run p (concat (map rchunk cs) ++ rest) acc
    = run (set_body p (body p ++ concat (map snd cs))) rest acc.
Proof.
  induction cs as [|c cs IH]; intros p rest acc Hph Hck Hwf.
  - cbn [map concat app]. rewrite app_nil_r, set_body_same. reflexivity.
  - cbn [forallb] in Hwf. apply andb_true_iff in Hwf as [Hc Hwf].
    unfold wf_chunk in Hc. apply andb_true_iff in Hc as [Hc Hz].
    apply andb_true_iff in Hc as [Hnc Hne].
    destruct (int16 (fst c)) as [z|] eqn:Ez; [|discriminate].
    apply Z.eqb_eq in Hz.
    assert (Hlen : 0 < length (snd c)) by (destruct (snd c); [discriminate|cbn; lia]).
    cbn [map concat]. rewrite <- app_assoc. rewrite rchunk_app.
    rewrite (run_next p _ (set_body p (body p ++ snd c)) (concat (map rchunk cs) ++ rest)).
    + rewrite IH; [|exact Hph|exact Hck|exact Hwf].
      cbn [set_body body]. rewrite <- app_assoc. reflexivity.
    + unfold step. rewrite Hph, Hck. unfold chunk_step.
      rewrite (find_crlf_line _ _ Hnc). rewrite Ez.
      assert (E1 : Z.ltb z 0 = false) by lia. rewrite E1.
      assert (E2 : Z.ltb (Z.of_nat (length (snd c ++ 13%N :: 10%N :: concat (map rchunk cs) ++ rest))) (z + 2) = false).
      { rewrite app_length. cbn [length]. lia. }
      rewrite E2.
      assert (E3 : Z.eqb z 0 = false) by lia. rewrite E3.
      replace (Z.to_nat z) with (length (snd c)) by lia.
      rewrite firstn_exact, skipn_exact2. reflexivity.
Qed.

(* ---- one message ---- *)

Lemma render_app w rest :
  render w ++ rest
  = status_line w ++ 13%N :: 10%N :: hlines (w_hdrs w) ++ 13%N :: 10%N :: render_fr (w_fr w) ++ rest.
Proof.
  unfold render, hlines. rewrite <- app_assoc. cbn [app]. rewrite <- app_assoc. reflexivity.
Qed.

Lemma run_msg w rest acc :
  wf_wire w = true -> run init (render w ++ rest) acc = run init rest (acc ++ [interp w]).
Proof.
  unfold wf_wire. intros H.
  apply andb_true_iff in H as [H Hfr]. apply andb_true_iff in H as [H Hhs].
  apply andb_true_iff in H as [H Hk]. apply andb_true_iff in H as [H Hz].
  apply andb_true_iff in H as [H Hasc]. apply andb_true_iff in H as [H Hnc].
  apply andb_true_iff in H as [Hv Hc].
  apply is_some_eq in Hz as [z Hz]. apply is_some_eq in Hk as [k Hk].
  destruct (hdr_fold (false, (-1)%Z) (w_hdrs w)) as [[ck cl]|] eqn:Hf; [|discriminate].
  rewrite render_app. unfold interp. rewrite Hz, Hk.
  set (p1 := mkP Headers false (-1) (w_version w) z (w_reason w) [] []).
  (* status line *)
  rewrite (run_next init _ p1 (hlines (w_hdrs w) ++ 13%N :: 10%N :: render_fr (w_fr w) ++ rest)).
  2:{ unfold step. cbn [ph init]. unfold line_step. rewrite (find_crlf_line _ _ Hnc).
      rewrite (on_status_wf init w z Hv Hc Hasc Hz). reflexivity. }
  (* headers *)
  rewrite (run_headers (w_hdrs w) p1 _ acc ck cl eq_refl Hhs Hf).
  set (p2 := after_hdrs p1 ck cl (w_hdrs w)).
  assert (Hend : forall X, step p2 (13%N :: 10%N :: X) = lift (header_end p2) X).
  { intros X. reflexivity. }
  destruct (w_fr w) as [|b|cs last]; cbn [wf_fr render_fr body_of] in *.
  - (* no body *)
    apply andb_true_iff in Hfr as [Hck Hcl]. apply negb_true_iff in Hck. subst ck.
    cbn [app].
    rewrite (run_emit p2 _ (mkM k (w_version w) z (w_reason w) (map sem (w_hdrs w)) []) rest); [reflexivity|].
    rewrite Hend. unfold header_end, finish. unfold p2, after_hdrs, p1, set_ph, set_body; cbn [ph chunked clen version code reason hdrs body app length]. rewrite Hcl, Hk. reflexivity.
  - (* Content-Length *)
    apply andb_true_iff in Hfr as [Hfr Hcl]. apply andb_true_iff in Hfr as [Hck Hne].
    apply negb_true_iff in Hck. subst ck. apply Z.eqb_eq in Hcl.
    assert (Hlen : 0 < length b) by (destruct b; [discriminate|cbn; lia]).
    rewrite (run_next p2 _ (set_ph p2 Body) (b ++ rest)).
    2:{ rewrite Hend. unfold header_end. unfold p2, after_hdrs, p1, set_ph, set_body; cbn [ph chunked clen version code reason hdrs body app length].
        assert (E1 : Z.eqb cl (-1) || Z.eqb cl 0 = false) by lia. rewrite E1. reflexivity. }
    rewrite (run_emit (set_ph p2 Body) _ (mkM k (w_version w) z (w_reason w) (map sem (w_hdrs w)) b) rest); [reflexivity|].
    unfold step, body_step, finish. unfold p2, after_hdrs, p1, set_ph, set_body; cbn [ph chunked clen version code reason hdrs body app length].
    assert (E0 : Z.ltb 0 cl = true) by lia. rewrite E0.
    assert (E1 : nil_b (b ++ rest) = false) by (destruct b; [discriminate|reflexivity]). rewrite E1.
    assert (E2 : Z.leb (cl - Z.of_nat 0) 0 = false) by lia. rewrite E2.
    assert (E3 : Z.ltb (Z.of_nat (length (b ++ rest))) (cl - Z.of_nat 0) = false) by (rewrite app_length; lia).
    rewrite E3.
    replace (Z.to_nat (cl - Z.of_nat 0)) with (length b) by lia.
    rewrite firstn_exact, skipn_exact.
    rewrite Hk. reflexivity.
  - (* chunked *)
    apply andb_true_iff in Hfr as [Hfr Hlast]. apply andb_true_iff in Hfr as [Hfr Hncl].
    apply andb_true_iff in Hfr as [Hfr Hcs]. apply andb_true_iff in Hfr as [Hck Hcl].
    subst ck.
    destruct (int16 last) as [z0|] eqn:El; [|discriminate]. apply Z.eqb_eq in Hlast. subst z0.
    rewrite (run_next p2 _ (set_ph p2 Body) ((concat (map rchunk cs) ++ last ++ [13; 10; 13; 10]%N) ++ rest)).
    2:{ rewrite Hend. unfold header_end. unfold p2, after_hdrs, p1, set_ph, set_body; cbn [ph chunked clen version code reason hdrs body app length].
        assert (E1 : Z.ltb 0 cl = false) by lia. rewrite E1. reflexivity. }
    rewrite <- app_assoc.
    rewrite (run_chunks cs (set_ph p2 Body) _ acc eq_refl eq_refl Hcs).
    rewrite <- app_assoc.
    change ([13; 10; 13; 10]%N ++ rest) with (13%N :: 10%N :: 13%N :: 10%N :: rest).
    rewrite (run_emit _ _ (mkM k (w_version w) z (w_reason w) (map sem (w_hdrs w)) (concat (map snd cs))) rest); [reflexivity|].
    unfold step, chunk_step, finish. unfold p2, after_hdrs, p1, set_ph, set_body; cbn [ph chunked clen version code reason hdrs body app length].
    rewrite (find_crlf_line _ _ Hncl). rewrite El.
    assert (E2 : Z.ltb (Z.of_nat (length (13%N :: 10%N :: rest))) (0 + 2) = false) by (cbn [length]; lia).
    rewrite E2. cbn [Z.ltb Z.compare Z.eqb skipn]. rewrite Hk.
    reflexivity.
Qed.

(* ---- a stream of messages ---- *)

Lemma run_stream ws : forall acc,
    forallb wf_wire ws = true ->
    run init (concat (map render ws)) acc = (Run init [], acc ++ map interp ws).
Proof.
  induction ws as [|w ws IH]; intros acc H.
  - cbn [map concat]. rewrite app_nil_r. apply run_wait. reflexivity.
  - cbn [forallb] in H. apply andb_true_iff in H as [Hw H].
    cbn [map concat]. rewrite (run_msg w _ acc Hw). rewrite (IH _ H).
    now rewrite <- app_assoc.
Qed.

Lemma render_nonnil w x : nil_b (render w ++ x) = false.
Proof. unfold render, status_line. destruct (w_version w); reflexivity. Qed.

Lemma hfeed_correct_lem ws :
  forallb wf_wire ws = true ->
  hfeed hinit (concat (map render ws)) = (hinit, map interp ws).
Proof.
  intros H. destruct ws as [|w ws]; [reflexivity|].
  unfold hinit, hfeed. cbn [map concat]. rewrite render_nonnil.
  cbn [app]. exact (run_stream (w :: ws) [] H).
Qed.

(* ... under every segmentation *)
Lemma hfeed_correct_seg ws ds :
  forallb wf_wire ws = true -> concat ds = concat (map render ws) ->
  hfeeds hinit ds = (hinit, map interp ws).
Proof. intros H E. rewrite hfeeds_concat, E. now apply hfeed_correct_lem. Qed.
