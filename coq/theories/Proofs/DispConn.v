(* C08 (extension) - theorems about the long-lived connection (Model/DispConn.v): the invariants of
   Proofs/Disp*.v carry over every reconnect, responses never cross connection epochs. *)
From Coq Require Import List NArith Arith Bool Lia ZifyN ZifyNat ZifyBool Sorted Permutation.
From AHK Require Import Model.Disp Model.DispConn Proofs.Disp Proofs.DispTrace.
Import ListNotations.

(* ---------------------------------------------------------------- sel / untag *)
Lemma sel_app : forall (A : Type) k (a b : list (nat * A)), sel k (a ++ b) = sel k a ++ sel k b.
Proof. intros. unfold sel. rewrite filter_app, map_app. reflexivity. Qed.

Lemma untag_app : forall (A : Type) (a b : list (nat * A)), untag (a ++ b) = untag a ++ untag b.
Proof. intros. unfold untag. apply map_app. Qed.

Lemma sel_tag_same : forall (A : Type) k (l : list A), sel k (map (fun o => (k, o)) l) = l.
Proof.
  intros. unfold sel. induction l; cbn; [reflexivity|]. rewrite Nat.eqb_refl. cbn. congruence.
Qed.

Lemma sel_tag_other : forall (A : Type) k k' (l : list A), k' <> k -> sel k (map (fun o => (k', o)) l) = [].
Proof.
  intros A k k' l H. unfold sel. induction l; cbn; [reflexivity|].
  destruct (Nat.eqb k' k) eqn:E; [apply Nat.eqb_eq in E; contradiction|assumption].
Qed.

Lemma untag_tag : forall (A : Type) k (l : list A), untag (map (fun o => (k, o)) l) = l.
Proof. intros. unfold untag. rewrite map_map. cbn. apply map_id. Qed.

Section ConnProofs.
Variable cap : nat.
Variable T30 : N.
Hypothesis cap_pos : 0 < cap.
Hypothesis T30_pos : (0 < T30)%N.

Notation step := (step cap T30).
Notation cstep := (cstep cap T30).
Notation crun := (crun cap T30).
Notation cfinal := (cfinal cap T30).
Notation ctrace := (ctrace cap T30).
Notation cevents := (cevents cap T30).
Notation Inv := (Inv cap T30).

Lemma Inv_reopen : forall s, Inv (reopen s).
Proof. intros. constructor; cbn; auto; try constructor; try lia; try discriminate. intros H; contradiction. Qed.

Lemma cstep_Inv : forall c ce, Inv (base c) -> Inv (base (fst (cstep c ce))).
Proof.
  intros c ce I. destruct ce; cbn [DispConn.cstep].
  - pose proof (step_Inv cap T30 cap_pos T30_pos (base c) e I) as H.
    destruct (step (base c) e) as [s' o]. cbn in *. exact H.
  - destruct (opened (base c)); cbn; [exact I|apply Inv_reopen].
  - exact I.
Qed.

Lemma crun_snoc : forall ces c ce,
    crun c (ces ++ [ce]) =
    (fst (cstep (fst (fst (crun c ces))) ce),
     snd (fst (crun c ces)) ++ map (fun o => (epoch (fst (fst (crun c ces))), o)) (snd (cstep (fst (fst (crun c ces))) ce)),
     snd (crun c ces) ++ tag_event (fst (fst (crun c ces))) ce).
Proof.
  induction ces as [|x ces IH]; intros c ce; cbn [app DispConn.crun fst snd].
  - destruct (cstep c ce) as [c1 o1]. cbn [fst snd]. rewrite !app_nil_r. reflexivity.
  - destruct (cstep c x) as [c1 o1]. rewrite (IH c1 ce).
    destruct (crun c1 ces) as [[c2 o2] e2]. cbn [fst snd]. rewrite !app_assoc. reflexivity.
Qed.

(* induction over the reachable (tagged events, state, tagged outputs) triples *)
Lemma creach_ind : forall (P : list (nat * event) -> cst -> list (nat * output) -> Prop),
    P [] cinit [] ->
    (forall evs c os ce, Inv (base c) -> P evs c os ->
       P (evs ++ tag_event c ce) (fst (cstep c ce)) (os ++ map (fun o => (epoch c, o)) (snd (cstep c ce)))) ->
    forall ces, P (cevents ces) (cfinal ces) (ctrace ces) /\ Inv (base (cfinal ces)).
Proof.
  intros P H0 Hs ces. unfold DispConn.cevents, DispConn.cfinal, DispConn.ctrace.
  induction ces using rev_ind.
  - cbn. split; [exact H0|apply Inv_init; assumption].
  - destruct IHces as [IH I]. rewrite crun_snoc. cbn [fst snd]. split; [apply Hs; assumption|apply cstep_Inv; assumption].
Qed.

Theorem conn_Inv_thm : forall ces, Inv (base (cfinal ces)).
Proof. intros ces. apply (creach_ind (fun _ _ _ => True)); auto. Qed.

(* ---------------------------------------------------------------- invariants that do not look at epochs *)
Lemma lift_blind : forall (Q : st -> list output -> Prop),
    Q init [] ->
    (forall s os e, Inv s -> Q s os -> Q (fst (step s e)) (os ++ snd (step s e))) ->
    (forall s os, Inv s -> opened s = false -> Q s os -> Q (reopen s) os) ->
    forall ces, Q (base (cfinal ces)) (untag (ctrace ces)).
Proof.
  intros Q H0 Hs Hr ces.
  apply (creach_ind (fun _ c os => Q (base c) (untag os))); [exact H0|].
  intros evs c os ce I H. rewrite untag_app, untag_tag. destruct ce; cbn [DispConn.cstep].
  - specialize (Hs (base c) (untag os) e I H). destruct (step (base c) e) as [s' o]. cbn in *. exact Hs.
  - destruct (opened (base c)) eqn:Eo; cbn; rewrite app_nil_r; [exact H|apply Hr; assumption].
  - cbn. rewrite app_nil_r. exact H.
Qed.

(* every request ever issued on the connection object is exactly one of: completed (once), in flight, queued *)
Theorem conn_accounted_thm : forall ces,
    Permutation (seq 0 (next (base (cfinal ces))))
                (dones (untag (ctrace ces)) ++ map fst (inflight (base (cfinal ces))) ++ waiters (base (cfinal ces))).
Proof.
  intros ces. apply (lift_blind (fun s os => P_acc [] s os)).
  - cbn. constructor.
  - intros s os e I H. apply (acc_step cap T30 [] s os e I H).
  - intros s os I Ho H. unfold P_acc in *. destruct (inv_closed _ _ _ I Ho) as [H1 H2]. rewrite H1, H2 in H. cbn in *. exact H.
Qed.

(* requests are written in issue order over the whole life of the object: the semaphore is FIFO and
   no caller overtakes another, also across reconnects *)
Theorem conn_issue_order_thm : forall ces, StronglySorted lt (writes (untag (ctrace ces))).
Proof.
  intros ces.
  assert (H : P_ord [] (base (cfinal ces)) (untag (ctrace ces))).
  { apply (lift_blind (fun s os => P_ord [] s os)).
    - split; constructor.
    - intros s os e I H. apply (ord_step cap T30 cap_pos T30_pos [] s os e I H).
    - intros s os I Ho [H1 H2]. destruct (inv_closed _ _ _ I Ho) as [_ Hw]. unfold P_ord. cbn. rewrite Hw in *. split; assumption. }
  destruct H as [H _]. eapply ss_app_l. exact H.
Qed.

(* a written request completes within T30 of the write, whatever reconnects happen meanwhile *)
Theorem conn_timeout_30s_thm : forall ces r t0,
    In (OWrote r t0) (untag (ctrace ces)) -> (t0 + T30 <= clock (base (cfinal ces)))%N ->
    exists oc t1, In (ODone r oc t1) (untag (ctrace ces)) /\ (t0 <= t1 <= t0 + T30)%N.
Proof.
  intros ces r t0 Hin Hc.
  assert (H : P_w T30 [] (base (cfinal ces)) (untag (ctrace ces))).
  { apply (lift_blind (fun s os => P_w T30 [] s os)).
    - repeat split; cbn; intros; contradiction.
    - intros s os e I H. apply (w_step cap T30 cap_pos T30_pos [] s os e I H).
    - intros s os I Ho [H1 [H2 H3]]. destruct (inv_closed _ _ _ I Ho) as [Hf _]. repeat split.
      + intros q t Hq. destruct (H1 _ _ Hq) as [Hd|Hf']; [left; exact Hd|]. rewrite Hf in Hf'. destruct Hf'.
      + cbn. intros; contradiction.
      + exact H3. }
  destruct H as [H1 _]. destruct (H1 _ _ Hin) as [Hd|Hf]; [exact Hd|].
  exfalso. pose proof (inv_time _ _ _ (conn_Inv_thm ces)) as Ht. rewrite Forall_forall in Ht.
  specialize (Ht _ Hf). cbn [snd] in Ht. lia.
Qed.

Theorem conn_closed_flushed_thm : forall ces, opened (base (cfinal ces)) = false ->
    inflight (base (cfinal ces)) = [] /\ waiters (base (cfinal ces)) = [].
Proof. intros ces Ho. exact (inv_closed _ _ _ (conn_Inv_thm ces) Ho). Qed.

(* ---------------------------------------------------------------- a reconnect gives a fresh, usable epoch *)
Theorem conn_reconnect_fresh_thm : forall ces, opened (base (cfinal ces)) = false ->
    let c' := fst (cstep (cfinal ces) Reconnect) in
    epoch c' = S (epoch (cfinal ces)) /\ opened (base c') = true /\
    inflight (base c') = [] /\ waiters (base c') = [] /\
    next (base c') = next (base (cfinal ces)) /\ clock (base c') = clock (base (cfinal ces)) /\
    snd (cstep c' (Ev Issue)) = [OWrote (next (base c')) (clock (base c'))].
Proof.
  intros ces Ho. cbn [DispConn.cstep]. rewrite Ho. cbn.
  destruct cap as [|k]; [lia|]. cbn. repeat split; reflexivity.
Qed.

Theorem conn_reconnect_open_noop_thm : forall c, opened (base c) = true -> cstep c Reconnect = (c, []).
Proof. intros c Ho. cbn. rewrite Ho. reflexivity. Qed.

Theorem conn_late_lost_noop_thm : forall c, cstep c LateLost = (c, []).
Proof. reflexivity. Qed.

(* ---------------------------------------------------------------- responses never cross epochs *)
Definition PF (evs : list (nat * event)) (c : cst) (os : list (nat * output)) : Prop :=
  P_fifo (sel (epoch c) evs) (base c) (sel (epoch c) os) /\
  (forall k, k <> epoch c ->
     exists W2 H2, writes (sel k os) = map fst (resps (sel k os)) ++ W2 /\
                   https (sel k evs) = map snd (resps (sel k os)) ++ H2) /\
  (forall k, epoch c < k -> sel k os = [] /\ sel k evs = []).

Lemma PF_step : forall evs c os ce, Inv (base c) -> PF evs c os ->
    PF (evs ++ tag_event c ce) (fst (cstep c ce)) (os ++ map (fun o => (epoch c, o)) (snd (cstep c ce))).
Proof.
  intros evs c os ce I [H1 [H2 H3]]. destruct ce; cbn [DispConn.cstep tag_event].
  - (* an event of the current epoch *)
    pose proof (fifo_step cap T30 _ _ _ e I H1) as Hf.
    destruct (step (base c) e) as [s' o] eqn:E. cbn [fst snd base epoch] in *. repeat split; cbn [fst snd base epoch] in *.
    + rewrite !sel_app, sel_tag_same.
      replace (sel (epoch c) [(epoch c, e)]) with [e] by (unfold sel; cbn; rewrite Nat.eqb_refl; reflexivity).
      exact Hf.
    + intros k Hk. rewrite !sel_app, sel_tag_other by congruence.
      replace (sel k [(epoch c, e)]) with (@nil event)
        by (unfold sel; cbn; destruct (Nat.eqb (epoch c) k) eqn:E2; [apply Nat.eqb_eq in E2; congruence|reflexivity]).
      rewrite !app_nil_r. apply H2. exact Hk.
    + rewrite sel_app, sel_tag_other by lia. rewrite app_nil_r. apply H3. assumption.
    + rewrite sel_app.
      replace (sel k [(epoch c, e)]) with (@nil event)
        by (unfold sel; cbn; destruct (Nat.eqb (epoch c) k) eqn:E2; [apply Nat.eqb_eq in E2; lia|reflexivity]).
      rewrite app_nil_r. apply H3. assumption.
  - (* reconnect *)
    destruct (opened (base c)) eqn:Eo; cbn [fst snd base epoch map]; rewrite !app_nil_r; [exact (conj H1 (conj H2 H3))|].
    repeat split; cbn [fst snd base epoch] in *.
    + destruct (H3 (S (epoch c)) (Nat.lt_succ_diag_r _)) as [E1 E2]. rewrite E1, E2.
      exists [], []. cbn. repeat split; reflexivity.
    + intros k Hk. destruct (Nat.eq_dec k (epoch c)) as [->|Hn].
      * destruct H1 as [W2 [H2' [A [B _]]]]. exists W2, H2'. split; assumption.
      * apply H2. exact Hn.
    + apply H3. lia.
    + apply H3. lia.
  - cbn [fst snd map]. rewrite !app_nil_r. exact (conj H1 (conj H2 H3)).
Qed.

Theorem conn_resp_fifo_thm : forall ces k,
    exists W2 H2, writes (sel k (ctrace ces)) = map fst (resps (sel k (ctrace ces))) ++ W2 /\
                  https (sel k (cevents ces)) = map snd (resps (sel k (ctrace ces))) ++ H2.
Proof.
  intros ces k.
  assert (H : PF (cevents ces) (cfinal ces) (ctrace ces)).
  { apply (creach_ind PF); [|apply PF_step].
    repeat split; cbn; try reflexivity.
    - exists [], []. cbn. repeat split; reflexivity.
    - intros k0 _. exists [], []. split; reflexivity. }
  destruct H as [H1 [H2 _]]. destruct (Nat.eq_dec k (epoch (cfinal ces))) as [->|Hn].
  - destruct H1 as [W2 [H2' [A [B _]]]]. exists W2, H2'. split; assumption.
  - apply H2. exact Hn.
Qed.

(* no stale response: a request resolved in epoch k was written in epoch k, with a message the peer
   sent in epoch k *)
Theorem conn_no_stale_thm : forall ces k r n,
    In (r, n) (resps (sel k (ctrace ces))) ->
    In r (writes (sel k (ctrace ces))) /\ In n (https (sel k (cevents ces))).
Proof.
  intros ces k r n Hin. destruct (conn_resp_fifo_thm ces k) as [W2 [H2 [A B]]]. rewrite A, B. split.
  - apply in_app_iff. left. apply (in_map fst) in Hin. exact Hin.
  - apply in_app_iff. left. apply (in_map snd) in Hin. exact Hin.
Qed.

End ConnProofs.
