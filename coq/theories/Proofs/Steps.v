(* Lemmas for C04 about Model/Steps.v.  All results are by case analysis on the
   decision structure of the model; values are arbitrary byte strings. *)
From Coq Require Import List NArith ZArith Arith Bool Lia ZifyN ZifyNat ZifyBool.
From AHK Require Import Lib.Res Lib.ByteStr Model.Tlv Proofs.Tlv Model.Steps.
Import ListNotations.

(* ---------- byte-string equality ---------- *)
Lemma eqb_bytes_refl a : eqb_bytes a a = true.
Proof. induction a as [|x a IH]; [reflexivity|]. cbn [eqb_bytes]. now rewrite N.eqb_refl, IH. Qed.

Lemma eqb_bytes_eq a : forall b, eqb_bytes a b = true <-> a = b.
Proof.
  induction a as [|x a IH]; intros [|y b]; cbn [eqb_bytes]; split; intros H; try reflexivity; try discriminate.
  - apply andb_true_iff in H. destruct H as [H1 H2]. apply N.eqb_eq in H1. apply IH in H2. now subst.
  - injection H as -> ->. now rewrite N.eqb_refl, eqb_bytes_refl.
Qed.

Lemma eqb_bytes_neq a b : a <> b -> eqb_bytes a b = false.
Proof.
  intros H. destruct (eqb_bytes a b) eqn:E; [|reflexivity]. apply eqb_bytes_eq in E. contradiction.
Qed.

(* ---------- dict(list) lookup ---------- *)
Lemma lookup_some_in k : forall d v, lookup k d = Some v -> In (k, v) d.
Proof.
  induction d as [|[k' v'] r IH]; intros v H; [discriminate|].
  cbn [lookup] in H. destruct (lookup k r) as [x|] eqn:E.
  - injection H as ->. right. now apply IH.
  - destruct (N.eqb k k') eqn:Ek; [|discriminate]. injection H as ->.
    apply N.eqb_eq in Ek. subst. now left.
Qed.

Lemma in_lookup_some k : forall d v, In (k, v) d -> exists v', lookup k d = Some v'.
Proof.
  induction d as [|[k' v'] r IH]; intros v H; [contradiction|].
  cbn [lookup]. destruct H as [H|H].
  - injection H as -> ->. destruct (lookup k r); [eexists; reflexivity|].
    rewrite N.eqb_refl. eexists; reflexivity.
  - destruct (IH _ H) as [x ->]. eexists; reflexivity.
Qed.

Lemma lookup_none_not_in k d : lookup k d = None -> forall v, ~ In (k, v) d.
Proof. intros H v Hin. destruct (in_lookup_some _ _ _ Hin) as [x Hx]. congruence. Qed.

(* all items of type k carry the same value: that is the dict's value *)
Lemma lookup_unique k d code :
  In (k, code) d -> (forall c, In (k, c) d -> c = code) -> lookup k d = Some code.
Proof.
  intros Hin Hall. destruct (in_lookup_some _ _ _ Hin) as [x Hx].
  rewrite Hx. f_equal. apply Hall. now apply lookup_some_in.
Qed.

(* ---------- the property's vocabulary ---------- *)
(* the reply carries an Error item: any code bytes, any length (also empty) *)
Definition has_error (d : list item) : Prop := exists code, In (tError, code) d.
(* the reply's State (as the dict sees it) is not the expected step number *)
Definition wrong_state (d : list item) (exp : N) : Prop :=
  exists st, lookup tState d = Some st /\ st <> [exp].
Definition bad_reply (d : list item) (exp : N) : Prop := has_error d \/ wrong_state d exp.
(* State item absent, or exactly the expected step *)
Definition state_ok (d : list item) (exp : N) : Prop :=
  lookup tState d = None \/ lookup tState d = Some [exp].
(* every Error item in the reply carries [code] and there is one *)
Definition error_is (d : list item) (code : bytes) : Prop :=
  In (tError, code) d /\ forall c, In (tError, c) d -> c = code.

Lemma has_error_lookup d : has_error d <-> exists code, lookup tError d = Some code.
Proof.
  split; intros [c H].
  - now apply in_lookup_some in H.
  - exists c. now apply lookup_some_in.
Qed.

Lemma state_ok_or_wrong d exp : state_ok d exp \/ wrong_state d exp.
Proof.
  unfold state_ok, wrong_state. destruct (lookup tState d) as [st|]; [|now left; left].
  destruct (eqb_bytes st [exp]) eqn:E.
  - apply eqb_bytes_eq in E. subst. left; right; reflexivity.
  - right. exists st. split; [reflexivity|]. intros ->. now rewrite eqb_bytes_refl in E.
Qed.

(* ---------- error_handler ---------- *)
Lemma error_handler_documented code : error_handler code = documented_class code.
Proof.
  unfold documented_class.
  destruct code as [|c [|c2 r]]; cbn [error_handler eqb_bytes]; try reflexivity.
  - rewrite !andb_true_r.
    destruct (N.eqb c 2) eqn:E2; [apply N.eqb_eq in E2; subst; reflexivity|].
    destruct (N.eqb c 3) eqn:E3; [apply N.eqb_eq in E3; subst; reflexivity|].
    destruct (N.eqb c 4) eqn:E4; [apply N.eqb_eq in E4; subst; reflexivity|].
    destruct (N.eqb c 5) eqn:E5; [apply N.eqb_eq in E5; subst; reflexivity|].
    destruct (N.eqb c 6) eqn:E6; [apply N.eqb_eq in E6; subst; reflexivity|].
    destruct (N.eqb c 7) eqn:E7; [apply N.eqb_eq in E7; subst; reflexivity|].
    reflexivity.
  - rewrite !andb_false_r. reflexivity.
Qed.

Lemma documented_table :
  documented_class [2%N] = EAuthentication /\ documented_class [3%N] = EBackoff /\
  documented_class [4%N] = EMaxPeers /\ documented_class [5%N] = EMaxTries /\
  documented_class [6%N] = EUnavailable /\ documented_class [7%N] = EBusy /\
  (forall code, code <> [2%N] -> code <> [3%N] -> code <> [4%N] -> code <> [5%N] ->
                code <> [6%N] -> code <> [7%N] -> documented_class code = EInvalid).
Proof.
  repeat split; try reflexivity.
  intros code H2 H3 H4 H5 H6 H7. unfold documented_class.
  now rewrite !eqb_bytes_neq by assumption.
Qed.

(* ---------- handle_state_step ---------- *)
Lemma hss_wrong_state d exp : wrong_state d exp -> hss d exp = Some EInvalid.
Proof.
  intros [st [H1 H2]]. unfold hss. rewrite H1. now rewrite eqb_bytes_neq.
Qed.

Lemma hss_error d exp code :
  state_ok d exp -> lookup tError d = Some code -> hss d exp = Some (error_handler code).
Proof.
  intros [H|H] He; unfold hss, check_error; rewrite H; try rewrite eqb_bytes_refl; now rewrite He.
Qed.

Lemma hss_bad d exp : bad_reply d exp -> exists e, hss d exp = Some e.
Proof.
  intros Hb. destruct (state_ok_or_wrong d exp) as [Hs|Hw].
  - destruct Hb as [He|Hw]; [|eexists; now apply hss_wrong_state].
    apply has_error_lookup in He. destruct He as [c Hc].
    eexists. eapply hss_error; eassumption.
  - eexists; now apply hss_wrong_state.
Qed.

Lemma hss_none_clean d exp : hss d exp = None -> ~ bad_reply d exp.
Proof. intros H Hb. destruct (hss_bad _ _ Hb) as [e He]. congruence. Qed.

(* ---------- steps on decoded items ---------- *)
Lemma step_hss s o d e : hss d (expected_state s) = Some e -> step_items s o d = Err e.
Proof. intros H. unfold step_items. rewrite H. reflexivity. Qed.

Lemma step_ok_hss s o d p : step_items s o d = Ok p -> hss d (expected_state s) = None.
Proof.
  intros H. destruct (hss d (expected_state s)) as [e|] eqn:E; [|reflexivity].
  rewrite (step_hss _ _ _ _ E) in H. discriminate.
Qed.

Theorem step_err_never_success s o d :
  bad_reply d (expected_state s) -> exists e, step_items s o d = Err e.
Proof. intros H. destruct (hss_bad _ _ H) as [e He]. exists e. now apply step_hss. Qed.

Theorem step_err_class s o d code :
  state_ok d (expected_state s) -> error_is d code ->
  step_items s o d = Err (documented_class code).
Proof.
  intros Hs [Hin Hall]. rewrite <- error_handler_documented.
  apply step_hss. apply hss_error; [assumption|]. now apply lookup_unique.
Qed.

Theorem step_err_class_wrong_state s o d code :
  wrong_state d (expected_state s) -> error_is d code ->
  step_items s o d = Err EInvalid \/ step_items s o d = Err (documented_class code).
Proof. intros Hw _. left. apply step_hss. now apply hss_wrong_state. Qed.

Theorem step_success_clean s o d p :
  step_items s o d = Ok p -> ~ bad_reply d (expected_state s).
Proof. intros H. apply hss_none_clean. eapply step_ok_hss; eassumption. Qed.

(* ---------- the decoding glue ---------- *)
Definition visible (t : transport) (s : step) (d : list item) : list item :=
  match t with Filtered => take_expected (expected s) d | Unfiltered => d end.

Definition in_vocab (s : step) (d : list item) : bool :=
  forallb (fun kv => mem_N (fst kv) (expected s)) d.

Lemma take_expected_all e d :
  forallb (fun kv => mem_N (fst kv) e) d = true -> take_expected e d = d.
Proof.
  induction d as [|[k v] r IH]; intros H; [reflexivity|].
  cbn [forallb fst] in H. apply andb_true_iff in H. destruct H as [H1 H2].
  cbn [take_expected]. rewrite H1. now rewrite IH.
Qed.

(* an Error item all of whose predecessors are expected types survives the filter *)
Lemma take_expected_keeps e pre kv post :
  forallb (fun x => mem_N (fst x) e) pre = true -> mem_N (fst kv) e = true ->
  In kv (take_expected e (pre ++ kv :: post)).
Proof.
  induction pre as [|[k v] r IH]; intros H Hk.
  - destruct kv as [k v]. cbn [app take_expected fst] in *. rewrite Hk. now left.
  - cbn [forallb fst] in H. apply andb_true_iff in H. destruct H as [H1 H2].
    cbn [app take_expected]. rewrite H1. right. now apply IH.
Qed.

Lemma expected_nonempty s : expected s <> [].
Proof. destruct s; discriminate. Qed.

Lemma F255 : 0 < 255. Proof. lia. Qed.

Theorem wire_items t s o d reply :
  tlv_encode d = Ok reply -> no_adj d = true ->
  step_wire t s o reply = step_items s o (visible t s d).
Proof.
  intros He Hn. unfold step_wire, tlv_decode_exp, tlv_encode in *. destruct t; cbn [glue_filter visible].
  - rewrite (expected_prefix 255 F255 (expected s) d reply (expected_nonempty s) He Hn). reflexivity.
  - pose proof (roundtrip 255 F255 d reply He Hn) as R. unfold decode in R. rewrite R. reflexivity.
Qed.

Theorem wire_err_never_success t s o d reply :
  tlv_encode d = Ok reply -> no_adj d = true ->
  bad_reply (visible t s d) (expected_state s) ->
  exists e, step_wire t s o reply = Err e.
Proof. intros He Hn Hb. rewrite (wire_items t s o d reply He Hn). now apply step_err_never_success. Qed.

Lemma visible_vocab t s d : in_vocab s d = true -> visible t s d = d.
Proof. intros H. destruct t; [|reflexivity]. now apply take_expected_all. Qed.

Theorem wire_err_never_success_vocab t s o d reply :
  tlv_encode d = Ok reply -> no_adj d = true -> in_vocab s d = true ->
  bad_reply d (expected_state s) ->
  exists e, step_wire t s o reply = Err e.
Proof.
  intros He Hn Hv Hb. apply (wire_err_never_success t s o d reply He Hn).
  now rewrite visible_vocab.
Qed.

Theorem wire_err_class_vocab t s o d reply code :
  tlv_encode d = Ok reply -> no_adj d = true -> in_vocab s d = true ->
  state_ok d (expected_state s) -> error_is d code ->
  step_wire t s o reply = Err (documented_class code).
Proof.
  intros He Hn Hv Hs Hc. rewrite (wire_items t s o d reply He Hn), visible_vocab by assumption.
  now apply step_err_class.
Qed.

(* for ANY reply bytes: a step only succeeds on a decoded reply that is clean *)
Theorem wire_success_clean t s o reply p :
  step_wire t s o reply = Ok p ->
  exists d, tlv_decode_exp (glue_filter t s) reply = Ok d /\ ~ bad_reply d (expected_state s).
Proof.
  unfold step_wire. destruct (tlv_decode_exp (glue_filter t s) reply) as [d|e| |] eqn:E; try discriminate.
  intros H. exists d. split; [reflexivity|]. eapply step_success_clean; eassumption.
Qed.

(* a reply the decoder rejects never succeeds either *)
Theorem wire_total t s o reply :
  (exists d, tlv_decode_exp (glue_filter t s) reply = Ok d /\ step_wire t s o reply = step_items s o d)
  \/ step_wire t s o reply = Err EParse.
Proof.
  unfold step_wire.
  destruct (dec_total (glue_filter t s) (S (length reply)) reply [] (Nat.lt_succ_diag_r _)) as [[items H]|H];
    unfold tlv_decode_exp, decode_exp; rewrite H.
  - left. exists items. split; reflexivity.
  - now right.
Qed.

(* ---------- whole generators ---------- *)
Lemma setup_m4_ok_or_err o d : (exists p, step_items SetupM4 o d = Ok p) \/ (exists e, step_items SetupM4 o d = Err e).
Proof.
  unfold step_items. destruct (hss d (expected_state SetupM4)); cbn [of_hss]; [right; eexists; reflexivity|].
  destruct (lookup tProof d); [|right; eexists; reflexivity].
  destruct (o_srp_proof_ok o); [left|right]; eexists; reflexivity.
Qed.

Theorem run_setup2_never o m4 m6 :
  bad_reply m4 4 \/ bad_reply m6 6 -> exists e, run_setup2 o m4 m6 = Err e.
Proof.
  intros H. unfold run_setup2.
  destruct (setup_m4_ok_or_err o m4) as [[p Hp]|[e He]].
  - rewrite Hp. destruct H as [H|H].
    + destruct (step_err_never_success SetupM4 o m4 H) as [e He]. congruence.
    + apply (step_err_never_success SetupM6 o m6 H).
  - rewrite He. eexists; reflexivity.
Qed.

Theorem run_verify_m2_never o m2 m4 :
  bad_reply m2 2 -> exists e, run_verify o m2 m4 = Err e.
Proof.
  intros H. unfold run_verify.
  destruct (step_err_never_success VerifyM2 o m2 H) as [e He]. rewrite He. eexists; reflexivity.
Qed.

Theorem run_verify_m4_never o m2 m4 p :
  bad_reply m4 4 -> run_verify o m2 m4 = Ok p -> p = PResumed.
Proof.
  intros H. unfold run_verify.
  destruct (step_err_never_success VerifyM4 o m4 H) as [e He]. rewrite He.
  destruct (step_items VerifyM2 o m2) as [q|e'| |]; try discriminate.
  destruct q; try discriminate. intros E. now injection E as <-.
Qed.

(* ---------- add / remove pairing ---------- *)
Definition mgmt_class (op : mgmt_op) (code : bytes) : errclass :=
  match op with
  | IpAdd => documented_class code
  | _ => if eqb_bytes code [2%N] then EAuthentication else EUnknown
  end.

Theorem mgmt_never_done op d : bad_reply d 2 -> exists e, mgmt_items op d = Err e.
Proof.
  intros Hb. unfold mgmt_items.
  destruct (state_ok_or_wrong d 2) as [Hs|[st [H1 H2]]].
  - destruct Hb as [He|[st [H1 H2]]].
    + apply has_error_lookup in He. destruct He as [c Hc]. rewrite Hc.
      destruct (negb _); [eexists; reflexivity|].
      destruct op; try (eexists; reflexivity); destruct (eqb_bytes c [2%N]); eexists; reflexivity.
    + rewrite H1. rewrite eqb_bytes_neq by assumption. eexists; reflexivity.
  - rewrite H1. rewrite eqb_bytes_neq by assumption. eexists; reflexivity.
Qed.

Theorem mgmt_err_class op d code :
  state_ok d 2 -> error_is d code -> mgmt_items op d = Err (mgmt_class op code).
Proof.
  intros Hs [Hin Hall]. pose proof (lookup_unique _ _ _ Hin Hall) as Hl.
  unfold mgmt_items, mgmt_class. rewrite Hl.
  destruct Hs as [Hs|Hs]; rewrite Hs; cbn [eqb_bytes N.eqb Pos.eqb andb negb].
  - destruct op; try rewrite error_handler_documented; try reflexivity;
      destruct (eqb_bytes code [2%N]); reflexivity.
  - destruct op; try rewrite error_handler_documented; try reflexivity;
      destruct (eqb_bytes code [2%N]); reflexivity.
Qed.

Theorem mgmt_done_clean op d : mgmt_items op d = Ok MDone -> ~ bad_reply d 2.
Proof. intros H Hb. destruct (mgmt_never_done op d Hb) as [e He]. congruence. Qed.

(* the decoded pairing-management payload of a raw reply *)
Definition mgmt_payload (op : mgmt_op) (reply : bytes) : option (list item) :=
  match op with
  | IpAdd | IpRemove => match tlv_decode reply with Ok d => Some d | _ => None end
  | BleAdd | BleRemove =>
      match tlv_decode reply with
      | Ok outer => match lookup 1 outer with
                    | Some inner => match tlv_decode inner with Ok d => Some d | _ => None end
                    | None => None
                    end
      | _ => None
      end
  end.

Theorem mgmt_wire_done_clean op reply :
  mgmt_wire op reply = Ok MDone ->
  exists d, mgmt_payload op reply = Some d /\ ~ bad_reply d 2.
Proof.
  unfold mgmt_wire, mgmt_payload. intros H.
  destruct op; destruct (tlv_decode reply) as [d|e| |]; try discriminate.
  - exists d. split; [reflexivity|]. eapply mgmt_done_clean; eassumption.
  - exists d. split; [reflexivity|]. eapply mgmt_done_clean; eassumption.
  - destruct (lookup 1 d) as [inner|]; [|discriminate].
    destruct (tlv_decode inner) as [d'|e| |]; try discriminate.
    exists d'. split; [reflexivity|]. eapply mgmt_done_clean; eassumption.
  - destruct (lookup 1 d) as [inner|]; [|discriminate].
    destruct (tlv_decode inner) as [d'|e| |]; try discriminate.
    exists d'. split; [reflexivity|]. eapply mgmt_done_clean; eassumption.
Qed.

Theorem mgmt_wire_never_done op d reply :
  (op = IpAdd \/ op = IpRemove) -> tlv_encode d = Ok reply -> no_adj d = true ->
  bad_reply d 2 -> exists e, mgmt_wire op reply = Err e.
Proof.
  intros Hop He Hn Hb.
  pose proof (roundtrip 255 F255 d reply He Hn) as R.
  unfold mgmt_wire, tlv_decode. destruct Hop as [-> | ->]; rewrite R; now apply mgmt_never_done.
Qed.

Theorem mgmt_wire_never_done_ble op d reply outer wrapped :
  (op = BleAdd \/ op = BleRemove) -> tlv_encode d = Ok reply -> no_adj d = true ->
  tlv_decode wrapped = Ok outer -> lookup 1 outer = Some reply ->
  bad_reply d 2 -> exists e, mgmt_wire op wrapped = Err e.
Proof.
  intros Hop He Hn Ho Hl Hb.
  pose proof (roundtrip 255 F255 d reply He Hn) as R.
  unfold mgmt_wire. destruct Hop as [-> | ->]; rewrite Ho, Hl; unfold tlv_decode; rewrite R;
    now apply mgmt_never_done.
Qed.

(* ---------- filter: what survives, and what the filter can hide ---------- *)
Lemma filter_keeps_error_l s pre code post :
  in_vocab s pre = true ->
  In (tError, code) (take_expected (expected s) (pre ++ (tError, code) :: post)).
Proof. intros H. apply take_expected_keeps; [exact H|destruct s; reflexivity]. Qed.

(* oracle answers of an accessory whose cryptography is all valid *)
Definition good_oracles : oracles :=
  {| o_srp_proof_ok := true; o_m6_plain := None; o_m6_sig_ok := true;
     o_derive_given := false; o_resume_plain := None;
     o_v2_plain := Some [1%N; 1%N; 65%N; 10%N; 1%N; 9%N]; o_v2_sig_ok := true;
     o_pairing_id := [65%N] |}.

(* The 'expected' filter stops at the FIRST unexpected type, so an item of a type
   the step does not expect (RetryDelay = 8) placed BEFORE the Error item hides
   the error from the generator: verify M4 then returns session keys. *)
Lemma wire_full_refuted :
  exists d reply,
    tlv_encode d = Ok reply /\ no_adj d = true /\ bad_reply d (expected_state VerifyM4) /\
    step_wire Filtered VerifyM4 good_oracles reply = Ok PKeys.
Proof.
  exists [(8%N, [0%N]); (tError, [2%N])], [8%N; 1%N; 0%N; 7%N; 1%N; 2%N].
  split; [vm_compute; reflexivity|]. split; [reflexivity|].
  split; [left; exists [2%N]; right; left; reflexivity|]. vm_compute; reflexivity.
Qed.
