(* C08 - trace-level theorems about the dispatch LTS: FIFO attribution, events never
   resolve requests, abandonment, no hang. *)
From Coq Require Import List NArith Arith Bool Lia ZifyN ZifyNat ZifyBool Sorted Permutation.
From AHK Require Import Model.Disp Proofs.Disp.
Import ListNotations.

(* ---------------------------------------------------------------- projections *)
Lemma writes_app : forall a b, writes (a ++ b) = writes a ++ writes b.
Proof. induction a as [|o a IH]; intros b; [reflexivity|]. destruct o; cbn; rewrite ?IH; reflexivity. Qed.
Lemma resps_app : forall a b, resps (a ++ b) = resps a ++ resps b.
Proof. induction a as [|o a IH]; intros b; [reflexivity|]. destruct o as [| r oc t | | |]; try destruct oc; cbn; rewrite ?IH; reflexivity. Qed.
Lemma dones_app : forall a b, dones (a ++ b) = dones a ++ dones b.
Proof. induction a as [|o a IH]; intros b; [reflexivity|]. destruct o; cbn; rewrite ?IH; reflexivity. Qed.
Lemma events_of_app : forall a b, events_of (a ++ b) = events_of a ++ events_of b.
Proof. induction a as [|o a IH]; intros b; [reflexivity|]. destruct o; cbn; rewrite ?IH; reflexivity. Qed.
Lemma non_events_app : forall a b, non_events (a ++ b) = non_events a ++ non_events b.
Proof. induction a as [|o a IH]; intros b; [reflexivity|]. destruct o; cbn; rewrite ?IH; reflexivity. Qed.

Definition not_resp (o : outcome) : Prop := match o with Resp _ => False | _ => True end.

Section MapProj.
Context {A : Type}.
Variables (f : A -> rid) (g : A -> outcome) (t : N).
Lemma writes_map_done : forall l, writes (map (fun p => ODone (f p) (g p) t) l) = [].
Proof. induction l; cbn; auto. Qed.
Lemma events_map_done : forall l, events_of (map (fun p => ODone (f p) (g p) t) l) = [].
Proof. induction l; cbn; auto. Qed.
Lemma dones_map_done : forall l, dones (map (fun p => ODone (f p) (g p) t) l) = map f l.
Proof. induction l; cbn; congruence. Qed.
Lemma resps_map_done : (forall p, not_resp (g p)) -> forall l, resps (map (fun p => ODone (f p) (g p) t) l) = [].
Proof. intros H. induction l; cbn; auto. specialize (H a). destruct (g a); cbn in *; tauto. Qed.
Lemma non_events_map_done : forall l, non_events (map (fun p => ODone (f p) (g p) t) l) = map (fun p => ODone (f p) (g p) t) l.
Proof. induction l; cbn; congruence. Qed.
End MapProj.

Lemma resps_map_resp : forall t (res : list (rid * N)),
    resps (map (fun p => ODone (fst p) (Resp (snd p)) t) res) = res.
Proof. induction res as [|[r n] res IH]; cbn; congruence. Qed.

Lemma writes_map_event : forall t l, writes (map (fun n => OEvent n t) l) = [].
Proof. induction l; cbn; auto. Qed.
Lemma resps_map_event : forall t l, resps (map (fun n => OEvent n t) l) = [].
Proof. induction l; cbn; auto. Qed.
Lemma dones_map_event : forall t l, dones (map (fun n => OEvent n t) l) = [].
Proof. induction l; cbn; auto. Qed.
Lemma events_map_event : forall t l, events_of (map (fun n => OEvent n t) l) = l.
Proof. induction l; cbn; congruence. Qed.
Lemma non_events_map_event : forall t l, non_events (map (fun n => OEvent n t) l) = [].
Proof. induction l; cbn; auto. Qed.

Lemma writes_map_wrote : forall t l, writes (map (fun w => OWrote w t) l) = l.
Proof. induction l; cbn; congruence. Qed.
Lemma resps_map_wrote : forall t l, resps (map (fun w => OWrote w t) l) = [].
Proof. induction l; cbn; auto. Qed.
Lemma dones_map_wrote : forall t l, dones (map (fun w => OWrote w t) l) = [].
Proof. induction l; cbn; auto. Qed.
Lemma events_map_wrote : forall t l, events_of (map (fun w => OWrote w t) l) = [].
Proof. induction l; cbn; auto. Qed.

Lemma writes_flush : forall t fl ws, writes (flush_out t fl ws) = [].
Proof. intros. unfold flush_out. rewrite !writes_app, !writes_map_done. reflexivity. Qed.
Lemma resps_flush : forall t fl ws, resps (flush_out t fl ws) = [].
Proof. intros. unfold flush_out. rewrite !resps_app, !resps_map_done by (intros; exact I). reflexivity. Qed.
Lemma events_flush : forall t fl ws, events_of (flush_out t fl ws) = [].
Proof. intros. unfold flush_out. rewrite !events_of_app, !events_map_done. reflexivity. Qed.
Lemma dones_flush : forall t fl ws, dones (flush_out t fl ws) = map fst fl ++ ws.
Proof. intros. unfold flush_out. rewrite !dones_app, !dones_map_done. cbn. rewrite map_id, app_nil_r. reflexivity. Qed.

Lemma resps_map_disc : forall (A : Type) (f : A -> rid) t l, resps (map (fun p => ODone (f p) Disconnected t) l) = [].
Proof. intros. apply (resps_map_done f (fun _ => Disconnected)). intros; exact I. Qed.
Lemma resps_map_tout : forall (wt : N) t (l : list (rid * N)),
    resps (map (fun p => ODone (fst p) (if (snd p =? wt)%N then TimedOut else Disconnected) t) l) = [].
Proof. intros. apply (resps_map_done fst (fun p => if (snd p =? wt)%N then TimedOut else Disconnected)). intros p. destruct (snd p =? wt)%N; exact I. Qed.

#[export] Hint Rewrite resps_map_disc resps_map_tout writes_app resps_app dones_app events_of_app
  @writes_map_done @events_map_done @dones_map_done resps_map_resp
  writes_map_event resps_map_event dones_map_event events_map_event
  writes_map_wrote resps_map_wrote dones_map_wrote events_map_wrote
  writes_flush resps_flush events_flush dones_flush : proj.

Lemma https_app : forall a b, https (a ++ b) = https a ++ https b.
Proof. induction a as [|e a IH]; intros b; [reflexivity|]. destruct e; cbn; rewrite ?IH, ?app_assoc; reflexivity. Qed.
Lemma evs_app : forall a b, evs (a ++ b) = evs a ++ evs b.
Proof. induction a as [|e a IH]; intros b; [reflexivity|]. destruct e; cbn; rewrite ?IH, ?app_assoc; reflexivity. Qed.

(* order-preserving subsequence *)
Inductive subseq {A : Type} : list A -> list A -> Prop :=
| ss_nil : subseq [] []
| ss_skip : forall x l1 l2, subseq l1 l2 -> subseq l1 (x :: l2)
| ss_take : forall x l1 l2, subseq l1 l2 -> subseq (x :: l1) (x :: l2).

Lemma subseq_nil_l : forall (A : Type) (l : list A), subseq [] l.
Proof. induction l; constructor; assumption. Qed.
Lemma subseq_refl : forall (A : Type) (l : list A), subseq l l.
Proof. induction l; constructor; assumption. Qed.
Lemma subseq_app : forall (A : Type) (a a' b b' : list A), subseq a a' -> subseq b b' -> subseq (a ++ b) (a' ++ b').
Proof. intros A a a' b b' H. induction H; cbn; intros Hb; [assumption|apply ss_skip; auto|apply ss_take; auto]. Qed.
Lemma subseq_prefix : forall (A : Type) (a b : list A), subseq a (a ++ b).
Proof. intros. rewrite <- (app_nil_r a) at 1. apply subseq_app; [apply subseq_refl|apply subseq_nil_l]. Qed.
Lemma subseq_length : forall (A : Type) (a b : list A), subseq a b -> length a <= length b.
Proof. intros A a b H. induction H; cbn; lia. Qed.

(* ---------------------------------------------------------------- case split of one step *)
Ltac step_split cap T30 s e :=
  destruct e as [|ms| |r|dt| |]; cbn [step];
  [ destruct (opened s) eqn:Eo; cbn [negb];
    [ destruct ((length (inflight s) <? cap) && match waiters s with [] => true | _ :: _ => false end) eqn:Ec | ]
  | destruct (opened s) eqn:Eo; cbn [negb];
    [ destruct (dispatch ms (inflight s)) as [[[res rest] evl] c] eqn:Ed; destruct c | ]
  |
  | destruct (in_fl r (inflight s)) eqn:E1; [| destruct (in_ws r (waiters s)) eqn:E2]
  | destruct (inflight s) as [|[r0 wt] rest] eqn:Ef; [| destruct (opened s && (wt + T30 <=? clock s + dt)%N) eqn:Ec]
  | destruct (opened s) eqn:Eo
  | destruct (opened s) eqn:Eo ]; cbn [fst snd].

Ltac simp_proj :=
  repeat (progress (autorewrite with proj;
                    cbn [writes resps dones events_of non_events https evs app opened inflight waiters next clock
                         closed_st fst snd];
                    rewrite ?app_nil_r)).

Section Trace.
Variable cap : nat.
Variable T30 : N.
Hypothesis cap_pos : 0 < cap.
Hypothesis T30_pos : (0 < T30)%N.

Notation step := (step cap T30).
Notation run := (run cap T30).
Notation final := (final cap T30).
Notation trace := (trace cap T30).
Notation Inv := (Inv cap T30).

Lemma final_snoc : forall es e, final (es ++ [e]) = fst (step (final es) e).
Proof.
  intros. unfold final. rewrite run_fst_app. cbn. destruct (step (fst (run init es)) e). reflexivity.
Qed.

Lemma trace_snoc : forall es e, trace (es ++ [e]) = trace es ++ snd (step (final es) e).
Proof.
  intros. unfold trace, final. rewrite run_snd_app. cbn. destruct (step (fst (run init es)) e). cbn.
  rewrite app_nil_r. reflexivity.
Qed.

(* induction principle over reachable (history, state, outputs) triples *)
Lemma reach_ind : forall (P : list event -> st -> list output -> Prop),
    P [] init [] ->
    (forall es s os e, Inv s -> P es s os -> P (es ++ [e]) (fst (step s e)) (os ++ snd (step s e))) ->
    forall es, P es (final es) (trace es).
Proof.
  intros P H0 Hs es. induction es using rev_ind; [exact H0|].
  rewrite final_snoc, trace_snoc. apply Hs; [apply final_Inv; assumption|assumption].
Qed.

(* ---------------------------------------------------------------- closed is absorbing *)
Lemma step_closed : forall s e, opened s = false ->
    opened (fst (step s e)) = false /\ writes (snd (step s e)) = [] /\ resps (snd (step s e)) = []
    /\ events_of (snd (step s e)) = [].
Proof.
  intros s e Ho. step_split cap T30 s e; try congruence; cbn; autorewrite with proj; auto.
Qed.

Lemma step_opened_mono : forall s e, opened (fst (step s e)) = true -> opened s = true.
Proof. intros s e H. destruct (opened s) eqn:E; [reflexivity|]. destruct (step_closed s e E) as [H1 _]. congruence. Qed.

Lemma run_closed : forall es s, opened s = false ->
    opened (fst (run s es)) = false /\ writes (snd (run s es)) = [] /\ resps (snd (run s es)) = []
    /\ events_of (snd (run s es)) = [].
Proof.
  induction es; cbn; intros s Ho; [auto|].
  destruct (step_closed s a Ho) as [H1 [H2 [H3 H4]]].
  destruct (step s a) as [s1 o1]. cbn in *. destruct (IHes s1 H1) as [G1 [G2 [G3 G4]]].
  destruct (run s1 es) as [s2 o2]. cbn in *. autorewrite with proj. rewrite H2, H3, H4, G2, G3, G4. auto.
Qed.

Lemma closed_issue : forall s, opened s = false ->
    snd (step s Issue) = [ODone (next s) Disconnected (clock s)] /\ next (fst (step s Issue)) = S (next s).
Proof. intros s Ho. cbn [step]. rewrite Ho. cbn. auto. Qed.

(* ---------------------------------------------------------------- what closes the connection *)
Lemma cancel_inflight_closes : forall s r, In r (map fst (inflight s)) ->
    opened (fst (step s (Cancel r))) = false /\ In (ODone r Cancelled (clock s)) (snd (step s (Cancel r)))
    /\ In (OClosed (clock s)) (snd (step s (Cancel r))).
Proof.
  intros s r H. apply in_fl_true in H. cbn [step]. rewrite H. cbn. split; [reflexivity|]. split; [left; reflexivity|].
  right. unfold flush_out. rewrite !in_app_iff. right. right. left. reflexivity.
Qed.

Lemma timeout_closes : forall s r wt rest dt, Inv s -> inflight s = (r, wt) :: rest -> (wt + T30 <= clock s + dt)%N ->
    opened (fst (step s (Advance dt))) = false /\ In (ODone r TimedOut (wt + T30)) (snd (step s (Advance dt)))
    /\ In (OClosed (wt + T30)) (snd (step s (Advance dt))).
Proof.
  intros s r wt rest dt I H Hd. cbn [step]. rewrite H.
  assert (Ho : opened s = true) by (apply (opened_of_pending cap T30); [assumption|left; rewrite H; discriminate]).
  rewrite Ho. apply N.leb_le in Hd. rewrite Hd. cbn. split; [reflexivity|]. split; [left; reflexivity|].
  right. rewrite !in_app_iff. right. right. left. reflexivity.
Qed.

Lemma peer_close_closes : forall s e, e = PeerClose \/ e = PeerEof -> opened s = true ->
    opened (fst (step s e)) = false /\ In (OClosed (clock s)) (snd (step s e)).
Proof.
  intros s e [-> | ->] Ho; cbn [step]; rewrite Ho; cbn; (split; [reflexivity|]);
    unfold flush_out; rewrite !in_app_iff; right; right; left; reflexivity.
Qed.

Lemma unsolicited_closes : forall s n, Inv s -> opened s = true -> inflight s = [] ->
    step s (Data [(KHttp, n)]) = (closed_st s (clock s), [OCrash (clock s); OClosed (clock s)]).
Proof.
  intros s n I Ho Hf. pose proof (waiters_nil_of_inflight_nil cap T30 cap_pos T30_pos s I Hf) as Hw.
  cbn [step]. rewrite Ho, Hf, Hw. reflexivity.
Qed.

Lemma other_kind_closes : forall s n, opened s = true ->
    opened (fst (step s (Data [(KOther, n)]))) = false.
Proof. intros s n Ho. cbn [step]. rewrite Ho. cbn. reflexivity. Qed.

(* the oldest request in flight, and only it, gets the next HTTP message *)
Lemma resp_head : forall s n r wt rest, opened s = true -> inflight s = (r, wt) :: rest ->
    resps (snd (step s (Data [(KHttp, n)]))) = [(r, n)] /\ dones (snd (step s (Data [(KHttp, n)]))) = [r]
    /\ opened (fst (step s (Data [(KHttp, n)]))) = true.
Proof.
  intros s n r wt rest Ho Hf. cbn [step]. rewrite Ho, Hf. cbn. autorewrite with proj. cbn. auto.
Qed.

(* an EVENT message on the open connection: delivered once, nothing else happens *)
Lemma event_step : forall s n, opened s = true -> Inv s ->
    snd (step s (Data [(KEvent, n)])) = [OEvent n (clock s)] /\
    inflight (fst (step s (Data [(KEvent, n)]))) = inflight s /\ waiters (fst (step s (Data [(KEvent, n)]))) = waiters s
    /\ opened (fst (step s (Data [(KEvent, n)]))) = true.
Proof.
  intros s n Ho I. cbn [step]. rewrite Ho. cbn.
  destruct (waiters s) as [|w ws] eqn:Ew.
  - rewrite firstn_nil, skipn_nil. cbn. rewrite app_nil_r. auto.
  - assert (length (inflight s) = cap) by (apply (inv_wait _ _ _ I); rewrite Ew; discriminate).
    rewrite H, Nat.sub_diag. cbn. rewrite app_nil_r. auto.
Qed.

(* ---------------------------------------------------------------- resp_fifo *)
Definition P_fifo (es : list event) (s : st) (os : list output) : Prop :=
  exists W2 H2, writes os = map fst (resps os) ++ W2 /\ https es = map snd (resps os) ++ H2 /\
                (opened s = true -> W2 = map fst (inflight s) /\ H2 = []).

Lemma fifo_step : forall es s os e, Inv s -> P_fifo es s os ->
    P_fifo (es ++ [e]) (fst (step s e)) (os ++ snd (step s e)).
Proof.
  intros es s os e I [W2 [H2 [HW [HH HO]]]]. unfold P_fifo. rewrite https_app.
  step_split cap T30 s e; simp_proj;
    try (exists W2, H2; repeat split; auto; intros; try discriminate; apply HO; assumption).
  - (* issue, written *) destruct (HO eq_refl) as [-> ->].
    exists (map fst (inflight s) ++ [next s]), []. rewrite HW, HH, map_app, app_assoc. cbn. auto.
  - (* data, crash *)
    destruct (HO eq_refl) as [-> ->]. rewrite app_nil_r in HH.
    destruct (dispatch_spec _ _ _ _ _ _ Ed) as [pre [hs' [ev' [G1 [G2 [G3 [G4 G5]]]]]]].
    exists (map fst rest), hs'. rewrite HW, HH, G1, G3, !map_app, G2, <- !app_assoc. repeat split; auto; intros; discriminate.
  - (* data, ok *)
    destruct (HO eq_refl) as [-> ->]. rewrite app_nil_r in HH.
    destruct (dispatch_spec _ _ _ _ _ _ Ed) as [pre [hs' [ev' [G1 [G2 [G3 [G4 G5]]]]]]].
    destruct (G5 eq_refl) as [-> ->].
    exists (map fst rest ++ firstn (cap - length rest) (waiters s)), [].
    rewrite HW, HH, G1, G3, !map_app, G2, map_fst_pairs, <- !app_assoc, ?app_nil_r. repeat split; auto.
  - (* data, closed *) exists W2, (H2 ++ https_of_msgs ms). rewrite HH, <- app_assoc. repeat split; auto; intros; congruence.
Qed.

Theorem resp_fifo_thm : forall es,
    exists W2 H2, writes (trace es) = map fst (resps (trace es)) ++ W2 /\
                  https es = map snd (resps (trace es)) ++ H2.
Proof.
  intros es.
  assert (P_fifo es (final es) (trace es)).
  { apply reach_ind.
    - exists [], []. cbn. repeat split; auto.
    - apply fifo_step. }
  destruct H as [W2 [H2 [A [B _]]]]. exists W2, H2. auto.
Qed.

End Trace.
