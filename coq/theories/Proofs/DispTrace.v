(* C08 - trace-level theorems about the dispatch LTS: FIFO attribution, events never
   resolve requests, abandonment, no hang. *)
From Coq Require Import List NArith Arith Bool Lia ZifyN ZifyNat ZifyBool Sorted Permutation.
From AHK Require Import Model.Disp Proofs.Disp.
Import ListNotations.

(* ---------------------------------------------------------------- projections *)
Lemma writes_app : forall a b, writes (a ++ b) = writes a ++ writes b.
Proof. induction a as [|o a IH]; intros b; [reflexivity|]. destruct o; cbn; rewrite ?IH; reflexivity. Qed.
Lemma resps_app : forall a b, resps (a ++ b) = resps a ++ resps b.
Proof. induction a as [|o a IH]; intros b; [reflexivity|]. destruct o as [| r oc t | | |]; try destruct oc; cbn; rewrite ?IH; reflexivity. Qed.
Lemma dones_app : forall a b, dones (a ++ b) = dones a ++ dones b.
Proof. induction a as [|o a IH]; intros b; [reflexivity|]. destruct o; cbn; rewrite ?IH; reflexivity. Qed.
Lemma events_of_app : forall a b, events_of (a ++ b) = events_of a ++ events_of b.
Proof. induction a as [|o a IH]; intros b; [reflexivity|]. destruct o; cbn; rewrite ?IH; reflexivity. Qed.
Lemma non_events_app : forall a b, non_events (a ++ b) = non_events a ++ non_events b.
Proof. induction a as [|o a IH]; intros b; [reflexivity|]. destruct o; cbn; rewrite ?IH; reflexivity. Qed.

Definition not_resp (o : outcome) : Prop := match o with Resp _ => False | _ => True end.

Section MapProj.
Context {A : Type}.
Variables (f : A -> rid) (g : A -> outcome) (t : N).
Lemma writes_map_done : forall l, writes (map (fun p => ODone (f p) (g p) t) l) = [].
Proof. induction l; cbn; auto. Qed.
Lemma events_map_done : forall l, events_of (map (fun p => ODone (f p) (g p) t) l) = [].
Proof. induction l; cbn; auto. Qed.
Lemma dones_map_done : forall l, dones (map (fun p => ODone (f p) (g p) t) l) = map f l.
Proof. induction l; cbn; congruence. Qed.
Lemma resps_map_done : (forall p, not_resp (g p)) -> forall l, resps (map (fun p => ODone (f p) (g p) t) l) = [].
Proof. intros H. induction l; cbn; auto. specialize (H a). destruct (g a); cbn in *; tauto. Qed.
Lemma non_events_map_done : forall l, non_events (map (fun p => ODone (f p) (g p) t) l) = map (fun p => ODone (f p) (g p) t) l.
Proof. induction l; cbn; congruence. Qed.
End MapProj.

Lemma resps_map_resp : forall t (res : list (rid * N)),
    resps (map (fun p => ODone (fst p) (Resp (snd p)) t) res) = res.
Proof. induction res as [|[r n] res IH]; cbn; congruence. Qed.

Lemma writes_map_event : forall t l, writes (map (fun n => OEvent n t) l) = [].
Proof. induction l; cbn; auto. Qed.
Lemma resps_map_event : forall t l, resps (map (fun n => OEvent n t) l) = [].
Proof. induction l; cbn; auto. Qed.
Lemma dones_map_event : forall t l, dones (map (fun n => OEvent n t) l) = [].
Proof. induction l; cbn; auto. Qed.
Lemma events_map_event : forall t l, events_of (map (fun n => OEvent n t) l) = l.
Proof. induction l; cbn; congruence. Qed.
Lemma non_events_map_event : forall t l, non_events (map (fun n => OEvent n t) l) = [].
Proof. induction l; cbn; auto. Qed.

Lemma writes_map_wrote : forall t l, writes (map (fun w => OWrote w t) l) = l.
Proof. induction l; cbn; congruence. Qed.
Lemma resps_map_wrote : forall t l, resps (map (fun w => OWrote w t) l) = [].
Proof. induction l; cbn; auto. Qed.
Lemma dones_map_wrote : forall t l, dones (map (fun w => OWrote w t) l) = [].
Proof. induction l; cbn; auto. Qed.
Lemma events_map_wrote : forall t l, events_of (map (fun w => OWrote w t) l) = [].
Proof. induction l; cbn; auto. Qed.

Lemma writes_flush : forall t fl ws, writes (flush_out t fl ws) = [].
Proof. intros. unfold flush_out. rewrite !writes_app, !writes_map_done. reflexivity. Qed.
Lemma resps_flush : forall t fl ws, resps (flush_out t fl ws) = [].
Proof. intros. unfold flush_out. rewrite !resps_app, !resps_map_done by (intros; exact I). reflexivity. Qed.
Lemma events_flush : forall t fl ws, events_of (flush_out t fl ws) = [].
Proof. intros. unfold flush_out. rewrite !events_of_app, !events_map_done. reflexivity. Qed.
Lemma dones_flush : forall t fl ws, dones (flush_out t fl ws) = map fst fl ++ ws.
Proof. intros. unfold flush_out. rewrite !dones_app, !dones_map_done. cbn. rewrite map_id, app_nil_r. reflexivity. Qed.

Lemma resps_map_disc : forall (A : Type) (f : A -> rid) t l, resps (map (fun p => ODone (f p) Disconnected t) l) = [].
Proof. intros. apply (resps_map_done f (fun _ => Disconnected)). intros; exact I. Qed.
Lemma resps_map_tout : forall (wt : N) t (l : list (rid * N)),
    resps (map (fun p => ODone (fst p) (if (snd p =? wt)%N then TimedOut else Disconnected) t) l) = [].
Proof. intros. apply (resps_map_done fst (fun p => if (snd p =? wt)%N then TimedOut else Disconnected)). intros p. destruct (snd p =? wt)%N; exact I. Qed.

#[export] Hint Rewrite resps_map_disc resps_map_tout writes_app resps_app dones_app events_of_app
  @writes_map_done @events_map_done @dones_map_done resps_map_resp
  writes_map_event resps_map_event dones_map_event events_map_event
  writes_map_wrote resps_map_wrote dones_map_wrote events_map_wrote
  writes_flush resps_flush events_flush dones_flush : proj.

Lemma https_app : forall a b, https (a ++ b) = https a ++ https b.
Proof. induction a as [|e a IH]; intros b; [reflexivity|]. destruct e; cbn; rewrite ?IH, ?app_assoc; reflexivity. Qed.
Lemma evs_app : forall a b, evs (a ++ b) = evs a ++ evs b.
Proof. induction a as [|e a IH]; intros b; [reflexivity|]. destruct e; cbn; rewrite ?IH, ?app_assoc; reflexivity. Qed.

(* order-preserving subsequence *)
Inductive subseq {A : Type} : list A -> list A -> Prop :=
| ss_nil : subseq [] []
| ss_skip : forall x l1 l2, subseq l1 l2 -> subseq l1 (x :: l2)
| ss_take : forall x l1 l2, subseq l1 l2 -> subseq (x :: l1) (x :: l2).

Lemma subseq_nil_l : forall (A : Type) (l : list A), subseq [] l.
Proof. induction l; constructor; assumption. Qed.
Lemma subseq_refl : forall (A : Type) (l : list A), subseq l l.
Proof. induction l; constructor; assumption. Qed.
Lemma subseq_app : forall (A : Type) (a a' b b' : list A), subseq a a' -> subseq b b' -> subseq (a ++ b) (a' ++ b').
Proof. intros A a a' b b' H. induction H; cbn; intros Hb; [assumption|apply ss_skip; auto|apply ss_take; auto]. Qed.
Lemma subseq_prefix : forall (A : Type) (a b : list A), subseq a (a ++ b).
Proof. intros. rewrite <- (app_nil_r a) at 1. apply subseq_app; [apply subseq_refl|apply subseq_nil_l]. Qed.
Lemma subseq_length : forall (A : Type) (a b : list A), subseq a b -> length a <= length b.
Proof. intros A a b H. induction H; cbn; lia. Qed.

(* ---------------------------------------------------------------- case split of one step *)
Ltac step_split cap T30 s e :=
  destruct e as [|ms| |r|dt| | |]; cbn [step];
  [ destruct (opened s) eqn:Eo; cbn [negb];
    [ destruct ((length (inflight s) <? cap) && match waiters s with [] => true | _ :: _ => false end) eqn:Ec | ]
  | destruct (opened s) eqn:Eo; cbn [negb];
    [ destruct (dispatch ms (inflight s)) as [[[res rest] evl] c] eqn:Ed; destruct c | ]
  |
  | destruct (in_fl r (inflight s)) eqn:E1; [| destruct (in_ws r (waiters s)) eqn:E2]
  | destruct (inflight s) as [|[r0 wt] rest] eqn:Ef; [| destruct (opened s && (wt + T30 <=? clock s + dt)%N) eqn:Ec]
  | destruct (opened s) eqn:Eo
  | destruct (opened s) eqn:Eo
  | destruct (opened s) eqn:Eo ]; cbn [fst snd].

Ltac simp_proj :=
  repeat (progress (autorewrite with proj;
                    cbn [writes resps dones events_of non_events https evs app opened inflight waiters next clock
                         closed_st fst snd];
                    rewrite ?app_nil_r)).

Section Trace.
Variable cap : nat.
Variable T30 : N.
Hypothesis cap_pos : 0 < cap.
Hypothesis T30_pos : (0 < T30)%N.

Notation step := (step cap T30).
Notation run := (run cap T30).
Notation final := (final cap T30).
Notation trace := (trace cap T30).
Notation Inv := (Inv cap T30).

Lemma final_snoc : forall es e, final (es ++ [e]) = fst (step (final es) e).
Proof.
  intros. unfold final. rewrite run_fst_app. cbn. destruct (step (fst (run init es)) e). reflexivity.
Qed.

Lemma trace_snoc : forall es e, trace (es ++ [e]) = trace es ++ snd (step (final es) e).
Proof.
  intros. unfold trace, final. rewrite run_snd_app. cbn. destruct (step (fst (run init es)) e). cbn.
  rewrite app_nil_r. reflexivity.
Qed.

(* induction principle over reachable (history, state, outputs) triples *)
Lemma reach_ind : forall (P : list event -> st -> list output -> Prop),
    P [] init [] ->
    (forall es s os e, Inv s -> P es s os -> P (es ++ [e]) (fst (step s e)) (os ++ snd (step s e))) ->
    forall es, P es (final es) (trace es).
Proof.
  intros P H0 Hs es. induction es using rev_ind; [exact H0|].
  rewrite final_snoc, trace_snoc. apply Hs; [apply final_Inv; assumption|assumption].
Qed.

(* ---------------------------------------------------------------- closed is absorbing *)
Lemma step_closed : forall s e, opened s = false ->
    opened (fst (step s e)) = false /\ writes (snd (step s e)) = [] /\ resps (snd (step s e)) = []
    /\ events_of (snd (step s e)) = [].
Proof.
  intros s e Ho. step_split cap T30 s e; try congruence; cbn; autorewrite with proj; auto.
Qed.

Lemma step_opened_mono : forall s e, opened (fst (step s e)) = true -> opened s = true.
Proof. intros s e H. destruct (opened s) eqn:E; [reflexivity|]. destruct (step_closed s e E) as [H1 _]. congruence. Qed.

Lemma run_closed : forall es s, opened s = false ->
    opened (fst (run s es)) = false /\ writes (snd (run s es)) = [] /\ resps (snd (run s es)) = []
    /\ events_of (snd (run s es)) = [].
Proof.
  induction es; cbn; intros s Ho; [auto|].
  destruct (step_closed s a Ho) as [H1 [H2 [H3 H4]]].
  destruct (step s a) as [s1 o1]. cbn in *. destruct (IHes s1 H1) as [G1 [G2 [G3 G4]]].
  destruct (run s1 es) as [s2 o2]. cbn in *. autorewrite with proj. rewrite H2, H3, H4, G2, G3, G4. auto.
Qed.

Lemma closed_issue : forall s, opened s = false ->
    snd (step s Issue) = [ODone (next s) Disconnected (clock s)] /\ next (fst (step s Issue)) = S (next s).
Proof. intros s Ho. cbn [step]. rewrite Ho. cbn. auto. Qed.

(* ---------------------------------------------------------------- what closes the connection *)
Lemma cancel_inflight_closes : forall s r, In r (map fst (inflight s)) ->
    opened (fst (step s (Cancel r))) = false /\ In (ODone r Cancelled (clock s)) (snd (step s (Cancel r)))
    /\ In (OClosed (clock s)) (snd (step s (Cancel r))).
Proof.
  intros s r H. apply in_fl_true in H. cbn [step]. rewrite H. cbn. split; [reflexivity|]. split; [left; reflexivity|].
  right. unfold flush_out. rewrite !in_app_iff. right. right. left. reflexivity.
Qed.

Lemma timeout_closes : forall s r wt rest dt, Inv s -> inflight s = (r, wt) :: rest -> (wt + T30 <= clock s + dt)%N ->
    opened (fst (step s (Advance dt))) = false /\ In (ODone r TimedOut (wt + T30)) (snd (step s (Advance dt)))
    /\ In (OClosed (wt + T30)) (snd (step s (Advance dt))).
Proof.
  intros s r wt rest dt I H Hd. cbn [step]. rewrite H.
  assert (Ho : opened s = true) by (apply (opened_of_pending cap T30); [assumption|left; rewrite H; discriminate]).
  rewrite Ho. apply N.leb_le in Hd. rewrite Hd. cbn. split; [reflexivity|]. split; [left; reflexivity|].
  right. rewrite !in_app_iff. right. right. left. reflexivity.
Qed.

Lemma peer_close_closes : forall s e, e = PeerClose \/ e = PeerEof \/ e = LocalClose -> opened s = true ->
    opened (fst (step s e)) = false /\ In (OClosed (clock s)) (snd (step s e)) /\
    (forall r wt, In (r, wt) (inflight s) -> In (ODone r Disconnected (clock s)) (snd (step s e))) /\
    (forall w, In w (waiters s) -> In (ODone w Disconnected (clock s)) (snd (step s e))) /\
    writes (snd (step s e)) = [].
Proof.
  assert (G : forall s, opened s = true ->
    opened (closed_st s (clock s)) = false /\ In (OClosed (clock s)) (flush_out (clock s) (inflight s) (waiters s)) /\
    (forall r wt, In (r, wt) (inflight s) -> In (ODone r Disconnected (clock s)) (flush_out (clock s) (inflight s) (waiters s))) /\
    (forall w, In w (waiters s) -> In (ODone w Disconnected (clock s)) (flush_out (clock s) (inflight s) (waiters s))) /\
    writes (flush_out (clock s) (inflight s) (waiters s)) = []).
  { intros s _. split; [reflexivity|]. split; [unfold flush_out; rewrite !in_app_iff; right; right; left; reflexivity|].
    split; [intros r wt H; unfold flush_out; apply in_app_iff; left; apply in_map_iff; exists (r, wt); split; [reflexivity|assumption]|].
    split; [|apply writes_flush].
    intros w H. unfold flush_out. apply in_app_iff. right. apply in_app_iff. left. apply in_map_iff. exists w. split; [reflexivity|assumption]. }
  intros s e [-> | [-> | ->]] Ho; cbn [step]; rewrite Ho; cbn [fst snd]; apply G; assumption.
Qed.

Lemma peer_close_closes_old : forall s e, e = PeerClose \/ e = PeerEof -> opened s = true ->
    opened (fst (step s e)) = false /\ In (OClosed (clock s)) (snd (step s e)).
Proof.
  intros s e [-> | ->] Ho; cbn [step]; rewrite Ho; cbn; (split; [reflexivity|]);
    unfold flush_out; rewrite !in_app_iff; right; right; left; reflexivity.
Qed.

Lemma unsolicited_closes : forall s n, Inv s -> opened s = true -> inflight s = [] ->
    step s (Data [(KHttp, n)]) = (closed_st s (clock s), [OCrash (clock s); OClosed (clock s)]).
Proof.
  intros s n I Ho Hf. pose proof (waiters_nil_of_inflight_nil cap T30 cap_pos T30_pos s I Hf) as Hw.
  cbn [step]. rewrite Ho, Hf, Hw. reflexivity.
Qed.

Lemma other_kind_closes : forall s n, opened s = true ->
    opened (fst (step s (Data [(KOther, n)]))) = false.
Proof. intros s n Ho. cbn [step]. rewrite Ho. cbn. reflexivity. Qed.

(* the oldest request in flight, and only it, gets the next HTTP message *)
Lemma resp_head : forall s n r wt rest, opened s = true -> inflight s = (r, wt) :: rest ->
    resps (snd (step s (Data [(KHttp, n)]))) = [(r, n)] /\ dones (snd (step s (Data [(KHttp, n)]))) = [r]
    /\ opened (fst (step s (Data [(KHttp, n)]))) = true.
Proof.
  intros s n r wt rest Ho Hf. cbn [step]. rewrite Ho, Hf. cbn. autorewrite with proj. cbn. auto.
Qed.

(* an EVENT message on the open connection: delivered once, nothing else happens *)
Lemma event_step : forall s n, opened s = true -> Inv s ->
    snd (step s (Data [(KEvent, n)])) = [OEvent n (clock s)] /\
    inflight (fst (step s (Data [(KEvent, n)]))) = inflight s /\ waiters (fst (step s (Data [(KEvent, n)]))) = waiters s
    /\ opened (fst (step s (Data [(KEvent, n)]))) = true.
Proof.
  intros s n Ho I. cbn [step]. rewrite Ho. cbn.
  destruct (waiters s) as [|w ws] eqn:Ew.
  - rewrite firstn_nil, skipn_nil. cbn. rewrite app_nil_r. auto.
  - assert (length (inflight s) = cap) by (apply (inv_wait _ _ _ I); rewrite Ew; discriminate).
    rewrite H, Nat.sub_diag. cbn. rewrite app_nil_r. auto.
Qed.

(* ---------------------------------------------------------------- resp_fifo *)
Definition P_fifo (es : list event) (s : st) (os : list output) : Prop :=
  exists W2 H2, writes os = map fst (resps os) ++ W2 /\ https es = map snd (resps os) ++ H2 /\
                (opened s = true -> W2 = map fst (inflight s) /\ H2 = []).

Lemma fifo_step : forall es s os e, Inv s -> P_fifo es s os ->
    P_fifo (es ++ [e]) (fst (step s e)) (os ++ snd (step s e)).
Proof.
  intros es s os e I [W2 [H2 [HW [HH HO]]]]. unfold P_fifo. rewrite https_app.
  step_split cap T30 s e; simp_proj;
    try (exists W2, H2; (split; [assumption|split; [assumption|]]); first [exact HO | intros; discriminate | intros; congruence]).
  - (* issue, written *) destruct (HO eq_refl) as [-> ->].
    exists (map fst (inflight s) ++ [next s]), []. rewrite HW, HH, map_app, app_assoc. cbn. auto.
  - (* data, crash *)
    destruct (HO eq_refl) as [-> ->]. rewrite app_nil_r in HH.
    destruct (dispatch_spec _ _ _ _ _ _ Ed) as [pre [hs' [ev' [G1 [G2 [G3 [G4 G5]]]]]]].
    exists (map fst rest), hs'. rewrite HW, HH, G1, G3, !map_app, G2, <- !app_assoc. repeat split; auto; intros; discriminate.
  - (* data, ok *)
    destruct (HO eq_refl) as [-> ->]. rewrite app_nil_r in HH.
    destruct (dispatch_spec _ _ _ _ _ _ Ed) as [pre [hs' [ev' [G1 [G2 [G3 [G4 G5]]]]]]].
    destruct (G5 eq_refl) as [-> ->].
    exists (map fst rest ++ firstn (cap - length rest) (waiters s)), [].
    rewrite HW, HH, G1, G3, !map_app, G2, map_fst_pairs, <- !app_assoc, ?app_nil_r. repeat split; auto.
  - (* data, closed *) exists W2, (H2 ++ https_of_msgs ms). rewrite HH, <- app_assoc. repeat split; auto; intros; congruence.
Qed.

Theorem resp_fifo_thm : forall es,
    exists W2 H2, writes (trace es) = map fst (resps (trace es)) ++ W2 /\
                  https es = map snd (resps (trace es)) ++ H2.
Proof.
  intros es.
  assert (P_fifo es (final es) (trace es)).
  { apply reach_ind.
    - exists [], []. cbn. repeat split; auto.
    - apply fifo_step. }
  destruct H as [W2 [H2 [A [B _]]]]. exists W2, H2. auto.
Qed.


(* ---------------------------------------------------------------- every issued request is accounted for *)
Definition P_acc (es : list event) (s : st) (os : list output) : Prop :=
  Permutation (seq 0 (next s)) (dones os ++ map fst (inflight s) ++ waiters s).

Lemma perm_ins : forall (X a b : list rid) r, Permutation X (a ++ b) -> Permutation (X ++ [r]) (a ++ r :: b).
Proof.
  intros. eapply Permutation_trans; [apply Permutation_sym, Permutation_cons_append|].
  apply Permutation_cons_app. assumption.
Qed.

Lemma acc_step : forall es s os e, Inv s -> P_acc es s os ->
    P_acc (es ++ [e]) (fst (step s e)) (os ++ snd (step s e)).
Proof.
  intros es s os e I H. unfold P_acc in *.
  step_split cap T30 s e; simp_proj; rewrite ?map_id; try exact H.
  - (* issue, written *)
    rewrite seq_S, map_app. cbn [map fst plus].
    replace (dones os ++ (map fst (inflight s) ++ [next s]) ++ waiters s)
      with ((dones os ++ map fst (inflight s)) ++ next s :: waiters s) by (rewrite <- !app_assoc; reflexivity).
    apply perm_ins. rewrite <- app_assoc. exact H.
  - (* issue, queued *)
    rewrite seq_S. cbn [plus].
    replace (dones os ++ map fst (inflight s) ++ waiters s ++ [next s])
      with ((dones os ++ map fst (inflight s) ++ waiters s) ++ next s :: []) by (rewrite <- !app_assoc; reflexivity).
    apply perm_ins. rewrite app_nil_r. exact H.
  - (* issue, closed *)
    rewrite seq_S. cbn [plus]. rewrite <- app_assoc. cbn [app]. apply perm_ins. exact H.
  - (* data, crash *)
    destruct (dispatch_spec _ _ _ _ _ _ Ed) as [pre [hs' [ev' [G1 [G2 _]]]]].
    rewrite G1, map_app, <- G2 in H. rewrite <- !app_assoc in *. cbn [map]. rewrite ?app_nil_r. exact H.
  - (* data, ok *)
    destruct (dispatch_spec _ _ _ _ _ _ Ed) as [pre [hs' [ev' [G1 [G2 _]]]]].
    rewrite G1, map_app, <- G2 in H. rewrite map_app, map_fst_pairs. rewrite <- !app_assoc in *.
    rewrite firstn_skipn. exact H.
  - (* cancel in flight *)
    apply in_fl_true in E1. destruct (remove_fl_split _ _ E1) as [a [wt [b [G1 G2]]]].
    rewrite G2. rewrite G1 in H. cbn [map]. rewrite ?app_nil_r.
    eapply Permutation_trans; [exact H|]. apply Permutation_app_head.
    rewrite !map_app. cbn [map fst app]. rewrite <- !app_assoc. cbn [app].
    apply Permutation_sym, Permutation_middle.
  - (* cancel waiter *)
    apply in_ws_true in E2. destruct (remove_rid_split _ _ E2) as [a [b [G1 G2]]].
    rewrite G2. rewrite G1 in H.
    eapply Permutation_trans; [exact H|]. rewrite <- app_assoc. apply Permutation_app_head. cbn [app].
    rewrite !app_assoc. apply Permutation_sym, Permutation_middle.
  all: try (cbn [map fst app] in *; rewrite <- ?app_assoc; cbn [map app]; rewrite ?app_nil_r; exact H).
Qed.

Theorem accounted_thm : forall es,
    Permutation (seq 0 (next (final es))) (dones (trace es) ++ map fst (inflight (final es)) ++ waiters (final es)).
Proof.
  intros es. apply (reach_ind P_acc); [cbn; constructor|apply acc_step].
Qed.

(* ---------------------------------------------------------------- the fate of a written request *)
Ltac in_inv :=
  repeat match goal with
  | H : In _ (flush_out _ _ _) |- _ => unfold flush_out in H
  | H : In _ (_ ++ _) |- _ => apply in_app_iff in H; destruct H as [H|H]
  | H : In _ (map _ _) |- _ => apply in_map_iff in H; destruct H as [? [? H]]
  | H : In _ (_ :: _) |- _ => destruct H as [H|H]
  | H : In _ [] |- _ => destruct H
  end; try discriminate.

Lemma in_done_resp : forall t (res : list (rid * N)) r n,
    In (r, n) res -> In (ODone r (Resp n) t) (map (fun p => ODone (fst p) (Resp (snd p)) t) res).
Proof. intros. apply in_map_iff. exists (r, n). split; [reflexivity|assumption]. Qed.

Lemma in_flush_fl : forall t fl ws r w, In (r, w) fl -> In (ODone r Disconnected t) (flush_out t fl ws).
Proof. intros. unfold flush_out. apply in_app_iff. left. apply in_map_iff. exists (r, w). split; [reflexivity|assumption]. Qed.

Lemma in_pre_resolved : forall (pre : list (rid * N)) (res : list (rid * N)) r t0,
    map fst res = map fst pre -> In (r, t0) pre -> exists n, In (r, n) res.
Proof.
  intros pre res r t0 H Hin. apply (in_map fst) in Hin. rewrite <- H in Hin. apply in_map_iff in Hin.
  destruct Hin as [[r' n] [E Hin]]. cbn in E. subst. exists n. assumption.
Qed.

Lemma step_fate : forall s e q t0, Inv s -> In (q, t0) (inflight s) ->
    In (q, t0) (inflight (fst (step s e))) \/
    exists oc t1, In (ODone q oc t1) (snd (step s e)) /\ (t0 <= t1 <= t0 + T30)%N.
Proof.
  intros s e q t0 I Hin.
  pose proof (inv_time _ _ _ I) as Ht. rewrite Forall_forall in Ht. pose proof (Ht _ Hin) as Hr. cbn [snd] in Hr.
  step_split cap T30 s e; cbn [inflight closed_st]; try (left; exact Hin).
  - left. apply in_app_iff. left. exact Hin.
  - (* data, crash *)
    destruct (dispatch_spec _ _ _ _ _ _ Ed) as [pre [hs' [ev' [G1 [G2 _]]]]].
    rewrite G1 in Hin. apply in_app_iff in Hin. right. destruct Hin as [Hin|Hin].
    + destruct (in_pre_resolved _ _ _ _ G2 Hin) as [n Hn]. exists (Resp n), (clock s). split; [|lia].
      apply in_app_iff. left. apply in_app_iff. right. apply in_done_resp. exact Hn.
    + exists Disconnected, (clock s). split; [|lia].
      apply in_app_iff. right. apply in_app_iff. right. eapply in_flush_fl. exact Hin.
  - (* data, ok *)
    destruct (dispatch_spec _ _ _ _ _ _ Ed) as [pre [hs' [ev' [G1 [G2 _]]]]].
    rewrite G1 in Hin. apply in_app_iff in Hin. destruct Hin as [Hin|Hin].
    + right. destruct (in_pre_resolved _ _ _ _ G2 Hin) as [n Hn]. exists (Resp n), (clock s). split; [|lia].
      apply in_app_iff. left. apply in_app_iff. right. apply in_done_resp. exact Hn.
    + left. apply in_app_iff. left. exact Hin.
  - (* cancel in flight *)
    right. apply in_fl_true in E1. destruct (remove_fl_split _ _ E1) as [a [wt [b [G1 G2]]]].
    rewrite G2. rewrite G1 in Hin. apply in_app_iff in Hin. destruct Hin as [Hin|[Hin|Hin]].
    + exists Disconnected, (clock s). split; [|lia]. right. eapply in_flush_fl. apply in_app_iff. left. exact Hin.
    + inversion Hin; subst. exists Cancelled, (clock s). split; [left; reflexivity|lia].
    + exists Disconnected, (clock s). split; [|lia]. right. eapply in_flush_fl. apply in_app_iff. right. exact Hin.
  - (* timeout *)
    right.
    pose proof (inv_sorted _ _ _ I) as Hs. rewrite Ef in Hs. pose proof (StronglySorted_inv Hs) as [_ Hhd].
    rewrite Forall_forall in Hhd.
    assert (Hh : (wt <= clock s /\ clock s < wt + T30)%N) by (apply (Ht (r0, wt)); left; reflexivity).
    destruct Hin as [Hin|Hin].
    + inversion Hin; subst. exists TimedOut, (t0 + T30)%N. split; [left; reflexivity|lia].
    + exists (if (t0 =? wt)%N then TimedOut else Disconnected), (wt + T30)%N. split.
      * right. apply in_app_iff. left. apply in_map_iff. exists (q, t0). split; [reflexivity|assumption].
      * specialize (Hhd _ Hin). unfold le_wt in Hhd. cbn in Hhd. lia.
  - right. exists Disconnected, (clock s). split; [|lia]. eapply in_flush_fl. exact Hin.
  - right. exists Disconnected, (clock s). split; [|lia]. eapply in_flush_fl. exact Hin.
  - right. exists Disconnected, (clock s). split; [|lia]. eapply in_flush_fl. exact Hin.
Qed.

Lemma step_wrote : forall s e q t0, In (OWrote q t0) (snd (step s e)) -> In (q, t0) (inflight (fst (step s e))).
Proof.
  intros s e q t0 H. revert H.
  step_split cap T30 s e; cbn [inflight closed_st]; intros H; in_inv.
  - inversion H; subst. apply in_app_iff. right. left. reflexivity.
  - inversion H0; subst. apply in_app_iff. right. apply in_map_iff. eexists. split; [reflexivity|assumption].
Qed.

Lemma step_origin : forall s e q w0, In (q, w0) (inflight (fst (step s e))) ->
    In (q, w0) (inflight s) \/ In (OWrote q w0) (snd (step s e)).
Proof.
  intros s e q w0 H. revert H.
  step_split cap T30 s e; cbn [inflight closed_st]; intros H; try (left; exact H); try (destruct H; fail).
  - apply in_app_iff in H. destruct H as [H|[H|[]]]; [left; assumption|]. inversion H; subst. right. left. reflexivity.
  - destruct (dispatch_spec _ _ _ _ _ _ Ed) as [pre [hs' [ev' [G1 _]]]].
    apply in_app_iff in H. destruct H as [H|H].
    + left. rewrite G1. apply in_app_iff. right. assumption.
    + right. apply in_map_iff in H. destruct H as [w [E Hw]]. inversion E; subst.
      apply in_app_iff. right. apply in_map_iff. exists q. split; [reflexivity|assumption].
Qed.

Lemma step_timedout : forall s e q t1, In (ODone q TimedOut t1) (snd (step s e)) ->
    exists t0, In (q, t0) (inflight s) /\ t1 = (t0 + T30)%N.
Proof.
  intros s e q t1 H. revert H.
  step_split cap T30 s e; intros H; in_inv.
  - inversion H; subst. exists wt. split; [left; reflexivity|reflexivity].
  - destruct x as [r' w']. cbn [fst snd] in H0. destruct (w' =? wt)%N eqn:E; [|discriminate].
    apply N.eqb_eq in E. inversion H0; subst. exists wt. split; [right; assumption|reflexivity].
Qed.

Definition P_w (es : list event) (s : st) (os : list output) : Prop :=
  (forall r t0, In (OWrote r t0) os ->
     (exists oc t1, In (ODone r oc t1) os /\ (t0 <= t1 <= t0 + T30)%N) \/ In (r, t0) (inflight s)) /\
  (forall r wt, In (r, wt) (inflight s) -> In (OWrote r wt) os) /\
  (forall r t1, In (ODone r TimedOut t1) os -> exists t0, In (OWrote r t0) os /\ t1 = (t0 + T30)%N).

Lemma w_step : forall es s os e, Inv s -> P_w es s os ->
    P_w (es ++ [e]) (fst (step s e)) (os ++ snd (step s e)).
Proof.
  intros es s os e I [H1 [H2 H3]]. repeat split.
  - intros r t0 Hin. apply in_app_iff in Hin. destruct Hin as [Hin|Hin].
    + destruct (H1 _ _ Hin) as [[oc [t1 [Hd Ht]]]|Hf].
      * left. exists oc, t1. split; [apply in_app_iff; left; assumption|assumption].
      * destruct (step_fate s e r t0 I Hf) as [Hf'|[oc [t1 [Hd Ht]]]]; [right; assumption|].
        left. exists oc, t1. split; [apply in_app_iff; right; assumption|assumption].
    + right. apply step_wrote. assumption.
  - intros r wt Hin. apply in_app_iff. destruct (step_origin s e r wt Hin) as [Ho|Ho]; [left; auto|right; assumption].
  - intros r t1 Hin. apply in_app_iff in Hin. destruct Hin as [Hin|Hin].
    + destruct (H3 _ _ Hin) as [t0 [Ha Hb]]. exists t0. split; [apply in_app_iff; left; assumption|assumption].
    + destruct (step_timedout s e r t1 Hin) as [t0 [Ha Hb]]. exists t0. split; [apply in_app_iff; left; auto|assumption].
Qed.

Lemma w_reach : forall es, P_w es (final es) (trace es).
Proof.
  intros es. apply (reach_ind P_w); [|apply w_step].
  repeat split; cbn; intros; contradiction.
Qed.

Theorem timeout_30s_thm : forall es r t0,
    In (OWrote r t0) (trace es) -> (t0 + T30 <= clock (final es))%N ->
    exists oc t1, In (ODone r oc t1) (trace es) /\ (t0 <= t1 <= t0 + T30)%N.
Proof.
  intros es r t0 Hin Hc. destruct (w_reach es) as [H1 _]. destruct (H1 _ _ Hin) as [Hd|Hf]; [exact Hd|].
  exfalso. pose proof (inv_time _ _ _ (final_Inv cap T30 cap_pos T30_pos es)) as Ht. rewrite Forall_forall in Ht.
  specialize (Ht _ Hf). cbn [snd] in Ht. lia.
Qed.

Theorem timeout_exact_thm : forall es r t1,
    In (ODone r TimedOut t1) (trace es) -> exists t0, In (OWrote r t0) (trace es) /\ t1 = (t0 + T30)%N.
Proof. intros es r t1 H. destruct (w_reach es) as [_ [_ H3]]. exact (H3 _ _ H). Qed.

(* 30 s of silence complete everything *)
Theorem silence_thm : forall s dt, Inv s -> (T30 <= dt)%N ->
    inflight (fst (step s (Advance dt))) = [] /\ waiters (fst (step s (Advance dt))) = [].
Proof.
  intros s dt I Hd. cbn [step]. destruct (inflight s) as [|[r wt] rest] eqn:Ef.
  - cbn. split; [reflexivity|]. apply (waiters_nil_of_inflight_nil cap T30 cap_pos T30_pos s I Ef).
  - assert (Ho : opened s = true) by (apply (opened_of_pending cap T30); [assumption|left; rewrite Ef; discriminate]).
    pose proof (inv_time _ _ _ I) as Ht. rewrite Ef in Ht. inversion Ht; subst. cbn [snd] in H1.
    rewrite Ho. cbn [andb]. assert (E : (wt + T30 <=? clock s + dt)%N = true) by (apply N.leb_le; lia).
    rewrite E. cbn. auto.
Qed.

(* ---------------------------------------------------------------- events *)
Definition P_ev (es : list event) (s : st) (os : list output) : Prop :=
  (opened s = true -> events_of os = evs es) /\ subseq (events_of os) (evs es).

Lemma ev_step : forall es s os e, Inv s -> P_ev es s os ->
    P_ev (es ++ [e]) (fst (step s e)) (os ++ snd (step s e)).
Proof.
  intros es s os e I [H1 H2]. unfold P_ev. rewrite evs_app, events_of_app.
  assert (Hsub : subseq (events_of (snd (step s e))) (evs [e]) /\
                 (opened (fst (step s e)) = true -> events_of (snd (step s e)) = evs [e])).
  { step_split cap T30 s e; simp_proj; rewrite ?events_map_done; cbn [app];
      try (split; [apply subseq_nil_l|intros; try discriminate; try congruence; reflexivity]).
    - destruct (dispatch_spec _ _ _ _ _ _ Ed) as [pre [hs' [ev' [_ [_ [_ [G4 _]]]]]]].
      rewrite G4. split; [apply subseq_prefix|intros; discriminate].
    - destruct (dispatch_spec _ _ _ _ _ _ Ed) as [pre [hs' [ev' [_ [_ [_ [G4 G5]]]]]]].
      destruct (G5 eq_refl) as [_ ->]. rewrite app_nil_r in G4. rewrite G4. split; [apply subseq_refl|reflexivity].
  }
  destruct Hsub as [Ha Hb]. split.
  - intros Ho. rewrite (H1 (step_opened_mono _ _ Ho)), (Hb Ho). reflexivity.
  - apply subseq_app; assumption.
Qed.

Theorem events_thm : forall es,
    (opened (final es) = true -> events_of (trace es) = evs es) /\ subseq (events_of (trace es)) (evs es).
Proof.
  intros es. apply (reach_ind P_ev); [|apply ev_step]. split; [reflexivity|constructor].
Qed.

(* ---------------------------------------------------------------- events do not interfere with requests *)
Lemma strip_step : forall s e,
    fst (step s (strip_event e)) = fst (step s e) /\
    non_events (snd (step s (strip_event e))) = non_events (snd (step s e)).
Proof.
  intros s e. destruct e; try (split; reflexivity). cbn [strip_event step].
  destruct (opened s); cbn [negb]; [|split; reflexivity].
  destruct (dispatch ms (inflight s)) as [[[res rest] evl] c] eqn:Ed.
  rewrite (dispatch_strip _ _ _ _ _ _ Ed).
  destruct c; cbn [fst snd map app]; (split; [reflexivity|]); rewrite !non_events_app, non_events_map_event; reflexivity.
Qed.

Theorem strip_thm : forall es s,
    fst (run s (map strip_event es)) = fst (run s es) /\
    non_events (snd (run s (map strip_event es))) = non_events (snd (run s es)).
Proof.
  induction es as [|e es IH]; intros s; [split; reflexivity|]. cbn [map Disp.run].
  destruct (strip_step s e) as [A B].
  destruct (step s (strip_event e)) as [s1 o1]. destruct (step s e) as [s1' o1']. cbn [fst snd] in A, B. subst s1'.
  destruct (IH s1) as [C D].
  destruct (run s1 (map strip_event es)) as [s2 o2]. destruct (run s1 es) as [s2' o2']. cbn [fst snd] in *.
  split; [assumption|]. rewrite !non_events_app. congruence.
Qed.

End Trace.

(* ---------------------------------------------------------------- global corollaries *)
Section Trace2.
Variable cap : nat.
Variable T30 : N.
Hypothesis cap_pos : 0 < cap.
Hypothesis T30_pos : (0 < T30)%N.

Notation step := (step cap T30).
Notation run := (run cap T30).
Notation final := (final cap T30).
Notation trace := (trace cap T30).

Lemma trace_app : forall es1 es2, trace (es1 ++ es2) = trace es1 ++ snd (run (final es1) es2).
Proof. intros. unfold trace, final. apply run_snd_app. Qed.

Lemma final_app : forall es1 es2, final (es1 ++ es2) = fst (run (final es1) es2).
Proof. intros. unfold final. apply run_fst_app. Qed.

(* once abandoned, always abandoned: nothing is written, nothing is resolved, no event is delivered *)
Theorem abandoned_forever_thm : forall es1 es2, opened (final es1) = false ->
    opened (final (es1 ++ es2)) = false /\
    writes (trace (es1 ++ es2)) = writes (trace es1) /\
    resps (trace (es1 ++ es2)) = resps (trace es1) /\
    events_of (trace (es1 ++ es2)) = events_of (trace es1).
Proof.
  intros es1 es2 Ho. rewrite final_app, trace_app.
  destruct (run_closed cap T30 es2 (final es1) Ho) as [H1 [H2 [H3 H4]]].
  autorewrite with proj. rewrite H2, H3, H4, !app_nil_r. auto.
Qed.

(* ... and a request issued later fails with the disconnection error in the same step, unwritten *)
Theorem late_issue_thm : forall es1 es2, opened (final es1) = false ->
    snd (step (final (es1 ++ es2)) Issue)
    = [ODone (next (final (es1 ++ es2))) Disconnected (clock (final (es1 ++ es2)))].
Proof.
  intros es1 es2 Ho. destruct (abandoned_forever_thm es1 es2 Ho) as [H _].
  apply (closed_issue cap T30 _ H).
Qed.

(* closing empties the pending set in the same step *)
Theorem closed_flushed_thm : forall es, opened (final es) = false ->
    inflight (final es) = [] /\ waiters (final es) = [].
Proof. intros es Ho. exact (inv_closed _ _ _ (final_Inv cap T30 cap_pos T30_pos es) Ho). Qed.

Theorem closed_all_done_thm : forall es, opened (final es) = false ->
    Permutation (seq 0 (next (final es))) (dones (trace es)).
Proof.
  intros es Ho. pose proof (accounted_thm cap T30 cap_pos T30_pos es) as H.
  destruct (closed_flushed_thm es Ho) as [H1 H2]. rewrite H1, H2 in H. cbn in H. rewrite app_nil_r in H. exact H.
Qed.

(* a caller queued on the semaphore always has a full set of requests in flight in front of it,
   each with a running 30 s timer *)
Theorem queued_thm : forall es, waiters (final es) <> [] ->
    opened (final es) = true /\ length (inflight (final es)) = cap.
Proof.
  intros es H. pose proof (final_Inv cap T30 cap_pos T30_pos es) as I. split.
  - apply (opened_of_pending cap T30 _ I). right. exact H.
  - apply (inv_wait _ _ _ I H).
Qed.

Theorem inflight_deadline_thm : forall es r wt, In (r, wt) (inflight (final es)) ->
    (wt <= clock (final es) < wt + T30)%N.
Proof.
  intros es r wt H. pose proof (inv_time _ _ _ (final_Inv cap T30 cap_pos T30_pos es)) as Ht.
  rewrite Forall_forall in Ht. exact (Ht _ H).
Qed.

(* events never change a request's fate *)
Theorem events_dont_interfere_thm : forall es,
    final (map strip_event es) = final es /\
    non_events (trace (map strip_event es)) = non_events (trace es).
Proof. intros es. apply strip_thm. Qed.

End Trace2.

(* ---------------------------------------------------------------- requests are written in issue order *)
Lemma ss_snoc : forall l n, StronglySorted lt l -> Forall (fun r => r < n) l -> StronglySorted lt (l ++ [n]).
Proof.
  induction l; cbn; intros n H F; [repeat constructor|].
  inversion H; subst. inversion F; subst. constructor; [auto|].
  apply Forall_app. split; [assumption|repeat constructor; assumption].
Qed.

Lemma ss_app_l : forall (a b : list nat), StronglySorted lt (a ++ b) -> StronglySorted lt a.
Proof.
  induction a; cbn; intros b H; [constructor|]. inversion H; subst. constructor; [eauto|].
  apply Forall_app in H3. tauto.
Qed.

Lemma ss_remove : forall r (a l : list nat), StronglySorted lt (a ++ l) -> StronglySorted lt (a ++ remove_rid r l).
Proof.
  induction a; cbn; intros l H.
  - induction l; cbn; [constructor|]. inversion H; subst. destruct (Nat.eqb a r); [assumption|].
    constructor; [auto|]. rewrite Forall_forall in *. intros x Hx. apply H3. eapply remove_rid_incl; eauto.
  - inversion H; subst. constructor; [auto|]. rewrite Forall_forall in *. intros x Hx. apply H3.
    apply in_app_iff in Hx. apply in_app_iff. destruct Hx; [left; assumption|right; eapply remove_rid_incl; eauto].
Qed.

Section Order.
Variable cap : nat.
Variable T30 : N.
Hypothesis cap_pos : 0 < cap.
Hypothesis T30_pos : (0 < T30)%N.

Notation step := (step cap T30).

Definition P_ord (es : list event) (s : st) (os : list output) : Prop :=
  StronglySorted lt (writes os ++ waiters s) /\ Forall (fun r => r < next s) (writes os ++ waiters s).

Lemma ord_step : forall es s os e, Inv cap T30 s -> P_ord es s os ->
    P_ord (es ++ [e]) (fst (step s e)) (os ++ snd (step s e)).
Proof.
  intros es s os e I [H1 H2]. unfold P_ord.
  assert (Hpre : StronglySorted lt (writes os) /\ Forall (fun r => r < next s) (writes os)).
  { split; [eapply ss_app_l; exact H1|]. apply Forall_app in H2. tauto. }
  assert (Hmono : forall l, Forall (fun r => r < next s) l -> Forall (fun r => r < S (next s)) l).
  { intros l F. eapply Forall_impl; [|exact F]. cbn. intros; lia. }
  step_split cap T30 s e; simp_proj; rewrite ?map_id; try (split; assumption); try exact Hpre.
  - (* issue, written *)
    apply andb_prop in Ec. destruct Ec as [_ Ec]. destruct (waiters s); [|discriminate]. rewrite app_nil_r in *.
    destruct Hpre as [P1 P2].
    split; [apply ss_snoc; assumption|]. apply Forall_app. split; [auto|repeat constructor].
  - (* issue, queued *)
    rewrite app_assoc. split; [apply ss_snoc; assumption|]. apply Forall_app. split; [auto|repeat constructor].
  - split; [assumption|auto].
  - (* data ok *) rewrite <- app_assoc, firstn_skipn. split; assumption.
  - (* cancel waiter *) split; [apply ss_remove; assumption|].
    apply Forall_app in H2. destruct H2 as [F1 F2]. apply Forall_app. split; [assumption|].
    rewrite Forall_forall in *. intros x Hx. apply F2. eapply remove_rid_incl; eauto.
Qed.

Theorem issue_order_thm : forall es, StronglySorted lt (writes (trace cap T30 es)).
Proof.
  intros es.
  assert (P_ord es (final cap T30 es) (trace cap T30 es)).
  { apply (reach_ind cap T30 cap_pos T30_pos P_ord); [split; constructor|apply ord_step]. }
  destruct H as [H _]. eapply ss_app_l. exact H.
Qed.

End Order.
