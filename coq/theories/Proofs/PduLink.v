(* C17 - lemmas about the GATT link model (Model/PduLink.v) *)
From Coq Require Import List NArith ZArith Arith Bool Lia ZifyN ZifyNat ZifyBool.
From AHK Require Import Lib.Res Lib.ByteStr Model.Pdu Model.PduLink Proofs.PduBle Proofs.PduSession.
Import ListNotations.

Lemma issue_seq_ge : forall ws t x, In x (issue_seq t ws) -> t <= fst x.
Proof.
  induction ws as [|[lat w] r IH]; intros t x H; cbn [issue_seq] in H.
  - destruct H.
  - destruct H as [<-|H]; [cbn; lia|]. apply IH in H. lia.
Qed.

Lemma insert_timed_head : forall x l, (forall y, In y l -> fst x <= fst y) -> insert_timed x l = x :: l.
Proof.
  intros x [|y r] H; [reflexivity|]. cbn [insert_timed].
  assert (fst x <= fst y) as E by (apply H; left; reflexivity).
  apply Nat.leb_le in E. rewrite E. reflexivity.
Qed.

Lemma sort_issue_seq : forall ws t, sort_timed (issue_seq t ws) = issue_seq t ws.
Proof.
  induction ws as [|[lat w] r IH]; intros t; [reflexivity|].
  cbn [issue_seq sort_timed]. rewrite IH. apply insert_timed_head.
  intros y Hy. apply issue_seq_ge in Hy. cbn [fst]. lia.
Qed.

Lemma issue_seq_payloads : forall ws t, map snd (issue_seq t ws) = map snd ws.
Proof.
  induction ws as [|[lat w] r IH]; intros t; [reflexivity|].
  cbn [issue_seq map snd]. rewrite IH. reflexivity.
Qed.

(* sequential issue: whatever the latencies, the characteristic sees the writes in program order *)
Lemma arrival_seq : forall ws t, arrival (issue_seq t ws) = map snd ws.
Proof. intros. unfold arrival. rewrite sort_issue_seq. apply issue_seq_payloads. Qed.

Lemma map_snd_combine : forall (A B : Type) (l : list A) (m : list B),
    length l = length m -> map snd (combine l m) = m.
Proof.
  induction l as [|a l IH]; intros [|b m] H; cbn in *; try reflexivity; try discriminate.
  f_equal. apply IH. lia.
Qed.

Lemma arrival_seq_combine : forall lats ws t, length lats = length ws ->
    arrival (issue_seq t (combine lats ws)) = ws.
Proof. intros. rewrite arrival_seq. apply map_snd_combine. assumption. Qed.

(* _write_pdu over any link: the accessory receives exactly the sealed fragments, in order,
   opens them under consecutive nonces and reassembles the request *)
Lemma ble_write_arrival_ok : forall seal open,
    (forall n m, open n (seal n m) = Some m) ->
    forall fs op tid iid data ctr,
    8 <= fs -> (op < 256)%N -> (tid < 256)%N -> (iid < 65536)%N -> (N.of_nat (length data) < 65536)%N ->
    exists ws frs,
      ble_write seal ctr fs op tid iid data = Ok (ws, (ctr + N.of_nat (length ws))%N)
      /\ forall t lats, length lats = length ws ->
           ble_write_arrival seal ctr fs op tid iid data t lats = Ok ws
           /\ open_seq open ctr ws = Some frs
           /\ acc_reassemble frs = Some (op, tid, iid, data)
           /\ Forall (fun f => length f <= fs) frs.
Proof.
  intros seal open Hso fs op tid iid data ctr Hfs Hop Htid Hiid Hlen.
  destruct (ble_write_ok seal open Hso fs op tid iid data ctr Hfs Hop Htid Hiid Hlen)
    as (ws & frs & Hw & Ho & Ha & Hf & _).
  exists ws, frs. split; [exact Hw|].
  intros t lats Hl. unfold ble_write_arrival. rewrite Hw. cbv beta iota delta [rmap rbind fst].
  rewrite (arrival_seq_combine lats ws t Hl). repeat split; assumption.
Qed.

(* two calls in flight together: the faster one overtakes *)
Lemma arrival_par_overtake : forall t l1 l2 w1 w2, l2 < l1 ->
    arrival (issue_par t [(l1, w1); (l2, w2)]) = [w2; w1].
Proof.
  intros. unfold arrival, issue_par. cbn [map sort_timed insert_timed fst snd].
  destruct (t + l1 <=? t + l2) eqn:E; [apply Nat.leb_le in E; lia|]. reflexivity.
Qed.


(* ------------------------------------------------------------------ sessions over the link *)
Lemma issue_seq_f_ge : forall lat ws t k x, In x (issue_seq_f lat t k ws) -> t <= fst x.
Proof.
  induction ws as [|w r IH]; intros t k x H; cbn [issue_seq_f] in H.
  - destruct H.
  - destruct H as [<-|H]; [cbn; lia|]. apply IH in H. lia.
Qed.

Lemma sort_issue_seq_f : forall lat ws t k, sort_timed (issue_seq_f lat t k ws) = issue_seq_f lat t k ws.
Proof.
  induction ws as [|w r IH]; intros t k; [reflexivity|].
  cbn [issue_seq_f sort_timed]. rewrite IH. apply insert_timed_head.
  intros y Hy. apply issue_seq_f_ge in Hy. cbn [fst]. lia.
Qed.

Lemma link_seq_id : forall lat ws t k, link_seq lat t k ws = ws.
Proof.
  intros. unfold link_seq, arrival. rewrite sort_issue_seq_f. revert t k.
  induction ws as [|w r IH]; intros t k; [reflexivity|].
  cbn [issue_seq_f map snd]. rewrite IH. reflexivity.
Qed.

(* the closed loop over ANY link is the closed loop of Model/Pdu.v: the link is invisible as
   long as every call is awaited before the next one starts *)
Lemma ble_loop_link_eq : forall lat sealW openR sealR openW resp reqs k cst ast,
    ble_loop_link lat sealW openR sealR openW resp k cst ast reqs
    = ble_loop sealW openR sealR openW resp cst ast reqs.
Proof.
  intros lat sealW openR sealR openW resp.
  induction reqs as [|[[[[fs op] tid] iid] data] r IH]; intros k cst ast; [reflexivity|].
  cbn [ble_loop_link ble_loop].
  destruct (ble_write sealW (fst cst) fs op tid iid data) as [we|e| |]; try reflexivity.
  cbn [rbind]. rewrite link_seq_id.
  destruct (acc_handle sealR openW resp ast (fst we)) as [[fr ast']|]; [|reflexivity].
  rewrite link_seq_id.
  destruct (read_pdu openR (snd cst) tid fr) as [[[[st body] un] d']|e| |]; try reflexivity.
  cbn [rbind]. rewrite IH. reflexivity.
Qed.

Lemma ble_session_link_l : forall lat sealW sealR openW openR,
    (forall n m, openW n (sealW n m) = Some m) -> (forall n m, openR n (sealR n m) = Some m) ->
    forall resp : responder,
    (forall (op t i : N) (b : bytes), (N.of_nat (length b) < 65536)%N -> ans_ok (resp (op, t, i, b))) ->
    forall reqs k e d, Forall breq_ok reqs ->
    exists e' d',
      ble_loop_link lat sealW openR sealR openW resp k (e, d) (e, d) reqs
      = Ok (map (fun r => ans_outcome (resp (breq_core r))) reqs, (e', d'), (e', d')).
Proof.
  intros lat sealW sealR openW openR HW HR resp Hresp reqs k e d Hall.
  rewrite ble_loop_link_eq.
  exact (Proofs.PduSession.ble_session_attribution_l sealW sealR openW openR HW HR resp Hresp reqs e d Hall).
Qed.

(* concurrent issue of a whole fragment train keeps program order only if no later call is
   faster: with a strictly faster second call the first two payloads swap *)
Lemma link_par_overtake : forall lat t k w1 w2, lat (S k) w2 < lat k w1 ->
    arrival (issue_par_f lat t k [w1; w2]) = [w2; w1].
Proof.
  intros lat t k w1 w2 H. unfold arrival, issue_par_f.
  cbn [length seq combine map sort_timed insert_timed fst snd].
  rewrite Nat.add_0_r. replace (k + 1) with (S k) by lia.
  destruct (t + lat k w1 <=? t + lat (S k) w2) eqn:E; [apply Nat.leb_le in E; lia|]. reflexivity.
Qed.
