(* Facts about the HKDF-SHA-512 model: lengths, the length guard, and the prefix property
   (a shorter derivation is a prefix of a longer one with the same salt and info). *)
From Coq Require Import List NArith Arith Bool Lia.
From AHK Require Import Lib.ByteStr Model.Sha512 Proofs.Sha512 Model.Hkdf.
Import ListNotations.

Lemma hmac512_length k m : length (hmac512 k m) = 64.
Proof. unfold hmac512. apply sha512_length. Qed.

Lemma hmac_key_block_length k : length (hmac_key_block k) = 128.
Proof.
  unfold hmac_key_block. destruct (Nat.ltb_spec 128 (length k)) as [H|H].
  - rewrite app_length, repeat_length, sha512_length. reflexivity.
  - rewrite app_length, repeat_length. lia.
Qed.

Lemma hkdf_blocks_length n prk info prev i : length (hkdf_blocks n prk info prev i) = 64 * n.
Proof.
  revert prev i; induction n as [|n IH]; intros prev i; cbn [hkdf_blocks]; [reflexivity|].
  rewrite app_length, hmac512_length, IH. lia.
Qed.

Lemma hkdf_nblocks_enough len : len <= 64 * hkdf_nblocks len.
Proof.
  unfold hkdf_nblocks.
  pose proof (Nat.div_mod (len + 63) 64 ltac:(lia)).
  pose proof (Nat.mod_upper_bound (len + 63) 64 ltac:(lia)). lia.
Qed.

Lemma hkdf_expand_length prk info len : length (hkdf_expand prk info len) = len.
Proof.
  unfold hkdf_expand. rewrite firstn_length, hkdf_blocks_length.
  pose proof (hkdf_nblocks_enough len). lia.
Qed.

Lemma hkdf_derive_length ikm salt info len out :
  hkdf_derive ikm salt info len = Some out -> length out = len.
Proof.
  unfold hkdf_derive. destruct (Nat.ltb_spec hkdf_max len) as [Hl|Hl]; [discriminate|].
  intros E; injection E as <-. apply hkdf_expand_length.
Qed.

Lemma hkdf_derive_guard ikm salt info len :
  hkdf_derive ikm salt info len = None <-> 255 * 64 < len.
Proof.
  unfold hkdf_derive, hkdf_max. destruct (Nat.ltb_spec (255 * 64) len) as [Hl|Hl]; split; intros E; try lia; try discriminate; reflexivity.
Qed.

(* every length the code asks for (32 everywhere) is served: no ValueError, exactly len bytes *)
Lemma hkdf_derive_small ikm salt info len :
  len <= 255 * 64 -> exists out, hkdf_derive ikm salt info len = Some out /\ length out = len.
Proof.
  intros H. unfold hkdf_derive, hkdf_max.
  destruct (Nat.ltb_spec (255 * 64) len) as [Hl|Hl]; [lia|].
  eexists; split; [reflexivity|apply hkdf_expand_length].
Qed.

Lemma hkdf_derive_32 ikm salt info :
  exists out, hkdf_derive ikm salt info 32 = Some out /\ length out = 32.
Proof. apply hkdf_derive_small. lia. Qed.

(* more blocks only append *)
Lemma hkdf_blocks_prefix n m prk info prev i :
  exists tail, hkdf_blocks (n + m) prk info prev i = hkdf_blocks n prk info prev i ++ tail.
Proof.
  revert prev i; induction n as [|n IH]; intros prev i; cbn [hkdf_blocks Nat.add].
  - eexists; reflexivity.
  - destruct (IH (hmac512 prk (prev ++ info ++ [i])) (i + 1)%N) as [tl E].
    exists tl. rewrite E, app_assoc. reflexivity.
Qed.

Lemma hkdf_nblocks_mono a b : a <= b -> hkdf_nblocks a <= hkdf_nblocks b.
Proof. intros H. unfold hkdf_nblocks. apply Nat.div_le_mono; lia. Qed.

Lemma hkdf_expand_prefix prk info l1 l2 :
  l1 <= l2 -> hkdf_expand prk info l1 = firstn l1 (hkdf_expand prk info l2).
Proof.
  intros H. unfold hkdf_expand.
  rewrite firstn_firstn, Nat.min_l by exact H.
  pose proof (hkdf_nblocks_mono _ _ H) as Hm.
  replace (hkdf_nblocks l2) with (hkdf_nblocks l1 + (hkdf_nblocks l2 - hkdf_nblocks l1)) by lia.
  destruct (hkdf_blocks_prefix (hkdf_nblocks l1) (hkdf_nblocks l2 - hkdf_nblocks l1) prk info [] 1%N) as [tl E].
  rewrite E, firstn_app.
  pose proof (hkdf_nblocks_enough l1).
  replace (l1 - length (hkdf_blocks (hkdf_nblocks l1) prk info [] 1%N)) with 0
    by (rewrite hkdf_blocks_length; lia).
  cbn [firstn]. now rewrite app_nil_r.
Qed.

Lemma hkdf_derive_prefix ikm salt info l1 l2 o1 o2 :
  l1 <= l2 -> hkdf_derive ikm salt info l1 = Some o1 -> hkdf_derive ikm salt info l2 = Some o2 ->
  o1 = firstn l1 o2.
Proof.
  unfold hkdf_derive. intros H H1 H2.
  destruct (Nat.ltb_spec hkdf_max l1) as [Ha|Ha]; [discriminate|].
  destruct (Nat.ltb_spec hkdf_max l2) as [Hb|Hb]; [discriminate|].
  injection H1 as <-. injection H2 as <-. now apply hkdf_expand_prefix.
Qed.

(* salt b"" and salt = 64 zero bytes are the same HMAC key (what `cryptography` does for salt=None) *)
Lemma hkdf_extract_empty_salt ikm : hkdf_extract [] ikm = hkdf_extract (repeat 0%N 64) ikm.
Proof.
  unfold hkdf_extract, hmac512, hmac_key_block.
  cbn [length]. rewrite repeat_length.
  replace (128 <? 0) with false by reflexivity.
  replace (128 <? 64) with false by reflexivity.
  cbn [app]. rewrite <- repeat_app. reflexivity.
Qed.

(* the repository's own test vector (tests/test_crypto_hkdf.py) *)
Example hkdf_repo_vector :
  hkdf_derive (repeat 49%N 32)
    [80;97;105;114;45;86;101;114;105;102;121;45;69;110;99;114;121;112;116;45;83;97;108;116]%N
    [80;97;105;114;45;86;101;114;105;102;121;45;69;110;99;114;121;112;116;45;73;110;102;111]%N 32
  = Some [143;67;49;118;227;78;140;162;156;148;170;97;206;245;34;148;36;55;47;120;113;191;140;59;77;233;226;165;78;249;229;8]%N.
Proof. vm_compute. reflexivity. Qed.
