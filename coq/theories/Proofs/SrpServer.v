(* C02 extension - SrpServer (Model/SrpServer.v) against the specification accessory. *)
From Coq Require Import List NArith ZArith Arith Bool Lia ZifyN ZifyNat ZifyBool Zpow_facts.
From AHK Require Import Lib.Res Lib.ByteStr Model.Srp Model.SrpServer Proofs.Sha512 Proofs.SrpBytes Proofs.Srp.
Import ListNotations.
Local Open Scope Z_scope.

Lemma PAD_from_bytes L l : length l = L -> all_bytes l = true -> PAD L (from_bytes l) = l.
Proof.
  intros Hlen Hl. unfold PAD, from_bytes. rewrite N2Z.id, <- Hlen. now apply be_enc_dec.
Qed.

Section ServerSpec.
  Variable H : bytes -> bytes.
  Variable PM : Z -> Z -> Z -> Z.
  Variables (Nm g kc : Z) (hgroup : bytes) (L PL : nat).
  Hypothesis PM_spec : forall b e m, 0 < m -> 0 <= e -> PM b e m = (b ^ e) mod m.
  Hypothesis HN : 0 < Nm.
  Hypothesis HNL : (Z.to_N Nm <= P256 L)%N.
  Hypothesis Hk : kc = spec_k H Nm g L.
  Hypothesis Hhg : hgroup = spec_hgroup H Nm g L.

  Let srpserver := srpserver H PM Nm g kc hgroup L PL.
  Let server := server H Nm g L.

  (* SrpServer without the guard, fed the client's public key as L bytes: every value is the
     specification accessory's; the proof check is the integer comparison with the expected M1 *)
  Lemma srpserver_bytes_closed (I P salt : bytes) b (A_b M1_b : bytes) :
    0 <= b -> length A_b = L -> all_bytes A_b = true ->
    let s := server I P salt b A_b M1_b in
    srpserver false I P salt b (inr A_b) M1_b =
    Ok {| p_B := s_B s; p_B_b := s_B_b s; p_A_b := A_b; p_S := s_S s; p_K := s_K s; p_M1 := s_M1 s;
          p_ok := (from_bytes M1_b =? from_bytes (s_M1 s)); p_M2 := s_M2 s;
          p_M2_int := rbind (padded (from_bytes M1_b) PL)
                            (fun al => Ok (from_bytes (H (A_b ++ al ++ s_K s)))) |}.
  Proof.
    intros Hb Hlen Hall s.
    unfold srpserver, SrpServer.srpserver.
    set (x := from_bytes (H (salt ++ H (I ++ [58%N] ++ P)))).
    assert (Hx : 0 <= x) by apply from_bytes_nonneg.
    rewrite (PM_spec g x Nm HN Hx). rewrite (PM_spec g b Nm HN Hb).
    change (g ^ x mod Nm) with (sv_v Nm g (sv_x H I P salt)).
    set (v := sv_v Nm g (sv_x H I P salt)).
    rewrite Hk. change ((spec_k H Nm g L * v + g ^ b mod Nm) mod Nm) with (sv_B H Nm g L v b).
    set (B := sv_B H Nm g L v b).
    assert (HB : 0 <= B < Nm) by (apply Z.mod_pos_bound; assumption).
    rewrite (padded_PAD Nm L HN HNL B HB). cbn [rbind andb].
    set (A := from_bytes A_b).
    assert (EA : PAD L A = A_b) by (apply PAD_from_bytes; assumption).
    assert (Eu : from_bytes (H (A_b ++ PAD L B)) = sv_u H L A B) by (unfold sv_u; rewrite EA; reflexivity).
    rewrite Eu. set (u := sv_u H L A B).
    assert (Hu : 0 <= u) by apply from_bytes_nonneg.
    rewrite (PM_spec v u Nm HN Hu). rewrite (PM_spec _ b Nm HN Hb).
    assert (ES : (A * (v ^ u mod Nm)) ^ b mod Nm = sv_S Nm A v u b).
    { unfold sv_S. rewrite (Zpower_mod (A * (v ^ u mod Nm))) by assumption.
      rewrite Zmult_mod_idemp_r. rewrite <- Zpower_mod by assumption. reflexivity. }
    rewrite ES. set (S := sv_S Nm A v u b).
    assert (HS : 0 <= S < Nm) by (apply Z.mod_pos_bound; assumption).
    rewrite (padded_PAD Nm L HN HNL S HS). cbn [rbind].
    subst s. unfold server, Srp.server. cbn [s_B s_B_b s_S s_K s_M1 s_M2].
    fold A. fold v. fold B. fold u. fold S.
    unfold sv_K, sv_M1, sv_M2. rewrite EA, Hhg. reflexivity.
  Qed.

  (* set_client_public_key(int) is set_client_public_key(PAD(int)) for every int that fits *)
  Lemma srpserver_int_path guard (I P salt : bytes) b A (M1_b : bytes) :
    0 <= A -> (Z.to_N A < P256 L)%N ->
    srpserver guard I P salt b (inl A) M1_b = srpserver guard I P salt b (inr (PAD L A)) M1_b.
  Proof.
    intros HA Hfit. unfold srpserver, SrpServer.srpserver.
    destruct (padded _ L) as [B_b| | |]; cbn [rbind]; try reflexivity.
    rewrite (padded_spec A L HA Hfit). cbn [rbind]. fold (PAD L A).
    assert (E : from_bytes (PAD L A) = A).
    { unfold from_bytes, PAD. rewrite be_dec_enc' by assumption. lia. }
    rewrite E. reflexivity.
  Qed.

  (* an int that does not fit the key length makes set_client_public_key raise *)
  Lemma srpserver_int_too_big guard (I P salt : bytes) b A (M1_b : bytes) :
    0 <= b -> 0 <= A -> (P256 L <= Z.to_N A)%N ->
    srpserver guard I P salt b (inl A) M1_b = Crash.
  Proof.
    intros Hb HA Hbig. unfold srpserver, SrpServer.srpserver.
    set (x := from_bytes (H (salt ++ H (I ++ [58%N] ++ P)))).
    assert (Hx : 0 <= x) by apply from_bytes_nonneg.
    rewrite (PM_spec g x Nm HN Hx). rewrite (PM_spec g b Nm HN Hb).
    assert (HB : 0 <= (kc * (g ^ x mod Nm) + g ^ b mod Nm) mod Nm < Nm) by (apply Z.mod_pos_bound; assumption).
    rewrite (padded_PAD Nm L HN HNL _ HB). cbn [rbind].
    rewrite (padded_too_big A L HA Hbig). reflexivity.
  Qed.

  (* the guard adds exactly the rejection of A = 0 (mod N) *)
  Lemma srpserver_guard (I P salt : bytes) b (A_b M1_b : bytes) :
    0 <= b ->
    srpserver true I P salt b (inr A_b) M1_b =
    if from_bytes A_b mod Nm =? 0 then Err tt else srpserver false I P salt b (inr A_b) M1_b.
  Proof.
    intros Hb. unfold srpserver, SrpServer.srpserver.
    set (x := from_bytes (H (salt ++ H (I ++ [58%N] ++ P)))).
    assert (Hx : 0 <= x) by apply from_bytes_nonneg.
    rewrite (PM_spec g x Nm HN Hx). rewrite (PM_spec g b Nm HN Hb).
    assert (HB : 0 <= (kc * (g ^ x mod Nm) + g ^ b mod Nm) mod Nm < Nm) by (apply Z.mod_pos_bound; assumption).
    rewrite (padded_PAD Nm L HN HNL _ HB). cbn [rbind andb].
    destruct (from_bytes A_b mod Nm =? 0); reflexivity.
  Qed.

  (* with the guard, SrpServer accepts exactly what the specification accessory accepts *)
  Lemma srpserver_guarded_iff_spec (I P salt : bytes) b (A_b M1_b : bytes) :
    0 <= b -> length A_b = L -> all_bytes A_b = true ->
    (forall m, length (H m) = PL) -> (forall m, all_bytes (H m) = true) ->
    length M1_b = PL -> all_bytes M1_b = true ->
    ((exists r, srpserver true I P salt b (inr A_b) M1_b = Ok r /\ p_ok r = true) <->
     s_ok (server I P salt b A_b M1_b) = true).
  Proof.
    intros Hb Hlen Hall HHlen HHbytes HlenM0 HallM.
    assert (HlenM : length M1_b = length (s_M1 (server I P salt b A_b M1_b))).
    { unfold server, Srp.server. cbn [s_M1]. unfold sv_M1. rewrite HHlen. exact HlenM0. }
    assert (HallS : all_bytes (s_M1 (server I P salt b A_b M1_b)) = true).
    { unfold server, Srp.server. cbn [s_M1]. unfold sv_M1. apply HHbytes. }
    pose proof (srpserver_guard I P salt b A_b M1_b Hb) as Hg.
    pose proof (srpserver_bytes_closed I P salt b A_b M1_b Hb Hlen Hall) as Hc. cbv zeta in Hc.
    set (s := server I P salt b A_b M1_b) in *.
    assert (Eok : s_ok s = negb (from_bytes A_b mod Nm =? 0) && beq M1_b (s_M1 s)) by reflexivity.
    rewrite Eok.
    destruct (from_bytes A_b mod Nm =? 0); cbn [negb andb].
    - split; [intros [r [E _]]; rewrite Hg in E; discriminate E|discriminate].
    - rewrite Hc in Hg. split.
      + intros [r [E Hok]]. rewrite Hg in E. injection E as <-. cbn [p_ok] in Hok.
        apply Z.eqb_eq in Hok. apply from_bytes_eq in Hok.
        apply beq_eq. now apply be_dec_inj.
      + intros Hbeq. apply beq_eq in Hbeq. eexists. split; [exact Hg|].
        cbn [p_ok]. rewrite Hbeq. apply Z.eqb_refl.
  Qed.

  (* WITHOUT the guard: a client that sends A = 0 and a proof computed from public values only
     (no setup code) is accepted, for every setup code P, salt and ephemeral b > 0; the
     specification accessory rejects the same message *)
  Lemma srpserver_zero_key (I P salt : bytes) b :
    0 < b ->
    let B_b := sv_public H Nm g L I P salt b in
    let forged := H (hgroup ++ H I ++ salt ++ PAD L 0 ++ B_b ++ H (PAD L 0)) in
    exists r, srpserver false I P salt b (inr (PAD L 0)) forged = Ok r /\
              p_B_b r = B_b /\ p_ok r = true /\ p_K r = H (PAD L 0) /\
              s_ok (server I P salt b (PAD L 0) forged) = false.
  Proof.
    intros Hb B_b forged.
    assert (Hb0 : 0 <= b) by lia.
    assert (Hlen : length (PAD L 0) = L) by apply PAD_length.
    assert (Hall : all_bytes (PAD L 0) = true) by apply be_enc_bytes.
    pose proof (srpserver_bytes_closed I P salt b (PAD L 0) forged Hb0 Hlen Hall) as Hc. cbv zeta in Hc.
    assert (H0 : 0 <= 0 < Nm) by lia.
    assert (EA : from_bytes (PAD L 0) = 0) by (apply (from_bytes_PAD Nm L HN HNL 0 H0)).
    set (s := server I P salt b (PAD L 0) forged) in *.
    assert (ES : s_S s = 0).
    { subst s. unfold server, Srp.server. cbn [s_S]. rewrite EA. unfold sv_S.
      rewrite Z.mul_0_l. rewrite Z.pow_0_l by assumption. now apply Z.mod_0_l, Z.neq_sym, Z.lt_neq. }
    assert (EK : s_K s = H (PAD L 0)).
    { subst s. unfold server, Srp.server in *. cbn [s_K s_S] in *. unfold sv_K. rewrite ES. reflexivity. }
    assert (EM : s_M1 s = forged).
    { subst s forged. unfold server, Srp.server in *. cbn [s_M1 s_K s_S] in *. unfold sv_M1, sv_K in *.
      rewrite ES, EA, Hhg. reflexivity. }
    eexists. split; [exact Hc|]. cbn [p_B_b p_ok p_K].
    split; [reflexivity|]. split; [rewrite EM; apply Z.eqb_refl|]. split; [exact EK|].
    subst s. unfold server, Srp.server. cbn [s_ok]. rewrite EA.
    rewrite Z.mod_0_l by (now apply Z.neq_sym, Z.lt_neq). reflexivity.
  Qed.

End ServerSpec.
