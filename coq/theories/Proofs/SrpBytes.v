(* C02 - byte-level lemmas: to_byte_array is the minimal big-endian encoding,
   pad_left . to_byte_array is the fixed-width encoding (I2OSP) for every value
   that fits, big-endian decoding is injective on equal lengths. *)
From Coq Require Import List NArith ZArith Arith Bool Lia ZifyN ZifyNat ZifyBool.
From AHK Require Import Lib.Res Lib.ByteStr Model.Srp Proofs.Sha512.
Import ListNotations.
Ltac Zify.zify_post_hook ::= Z.to_euclidean_division_equations.
Local Open Scope N_scope.

Definition P256 (k : nat) : N := 256 ^ N.of_nat k.

Lemma P256_0 : P256 0 = 1.
Proof. reflexivity. Qed.

Lemma P256_S k : P256 (S k) = 256 * P256 k.
Proof.
  unfold P256. replace (N.of_nat (S k)) with (N.succ (N.of_nat k)) by lia.
  apply N.pow_succ_r'.
Qed.

Lemma P256_pos k : 0 < P256 k.
Proof. unfold P256. apply N.neq_0_lt_0. apply N.pow_nonzero. discriminate. Qed.

Lemma P256_add a b : P256 (a + b) = P256 a * P256 b.
Proof. unfold P256. rewrite Nat2N.inj_add. apply N.pow_add_r. Qed.

Lemma P256_lt_iff a b : (a < b)%nat <-> P256 a < P256 b.
Proof.
  unfold P256. rewrite <- N.pow_lt_mono_r_iff by (vm_compute; reflexivity). lia.
Qed.

Lemma P256_le_iff a b : (a <= b)%nat <-> P256 a <= P256 b.
Proof.
  unfold P256. rewrite <- N.pow_le_mono_r_iff by (vm_compute; reflexivity). lia.
Qed.

(* ------------------------------------------------------------ le/be codecs *)

Lemma le_enc_zero j : le_enc j 0 = repeat 0 j.
Proof.
  induction j as [|j IH]; [reflexivity|]. cbn [le_enc repeat].
  change (0 mod 256) with 0. change (0 / 256) with 0. now rewrite IH.
Qed.

Lemma le_enc_app_zeros k j n : n < P256 k -> le_enc (k + j) n = le_enc k n ++ repeat 0 j.
Proof.
  revert n; induction k as [|k IH]; intros n Hn.
  - rewrite P256_0 in Hn. assert (n = 0) by lia. subst. apply le_enc_zero.
  - rewrite P256_S in Hn. cbn [Nat.add le_enc app]. f_equal. apply IH.
    apply N.div_lt_upper_bound; lia.
Qed.

Lemma rev_repeat {A} (x : A) j : rev (repeat x j) = repeat x j.
Proof.
  induction j as [|j IH]; [reflexivity|].
  cbn [repeat rev]. rewrite IH. clear IH.
  induction j as [|j IH]; [reflexivity|]. cbn [repeat app]. now rewrite IH.
Qed.

Lemma be_enc_pad k j n : n < P256 k -> be_enc (j + k) n = repeat 0 j ++ be_enc k n.
Proof.
  intros Hn. unfold be_enc. rewrite Nat.add_comm, le_enc_app_zeros by assumption.
  now rewrite rev_app_distr, rev_repeat.
Qed.

Lemma le_dec_app x y : le_dec (x ++ y) = le_dec x + P256 (length x) * le_dec y.
Proof.
  induction x as [|b x IH]; cbn [app le_dec length].
  - rewrite P256_0. lia.
  - rewrite IH, P256_S. lia.
Qed.

Lemma be_dec_cons b r : be_dec (b :: r) = b * P256 (length r) + be_dec r.
Proof.
  unfold be_dec. cbn [rev]. rewrite le_dec_app, rev_length. cbn [le_dec]. lia.
Qed.

Lemma be_dec_nil : be_dec [] = 0.
Proof. reflexivity. Qed.

Lemma all_bytes_cons b r : all_bytes (b :: r) = true <-> b < 256 /\ all_bytes r = true.
Proof.
  unfold all_bytes. cbn [forallb]. rewrite andb_true_iff. unfold is_byte. rewrite N.ltb_lt. tauto.
Qed.

Lemma all_bytes_app x y : all_bytes (x ++ y) = true <-> all_bytes x = true /\ all_bytes y = true.
Proof. unfold all_bytes. rewrite forallb_app, andb_true_iff. tauto. Qed.

Lemma all_bytes_rev l : all_bytes (rev l) = all_bytes l.
Proof. apply forallb_rev. Qed.

Lemma all_bytes_repeat0 j : all_bytes (repeat 0 j) = true.
Proof. induction j; [reflexivity|]. cbn [repeat]. apply all_bytes_cons. split; [lia|assumption]. Qed.

Lemma be_dec_lt l : all_bytes l = true -> be_dec l < P256 (length l).
Proof.
  induction l as [|b r IH]; intros Hl.
  - vm_compute. reflexivity.
  - apply all_bytes_cons in Hl. destruct Hl as [Hb Hr]. specialize (IH Hr).
    rewrite be_dec_cons. cbn [length]. rewrite P256_S.
    pose proof (P256_pos (length r)). nia.
Qed.

Lemma be_enc_dec l : all_bytes l = true -> be_enc (length l) (be_dec l) = l.
Proof.
  intros Hl. unfold be_enc, be_dec. rewrite <- (rev_length l).
  rewrite le_enc_dec; [apply rev_involutive|].
  fold (all_bytes (rev l)). now rewrite all_bytes_rev.
Qed.

Lemma be_dec_inj l1 l2 :
  length l1 = length l2 -> all_bytes l1 = true -> all_bytes l2 = true ->
  be_dec l1 = be_dec l2 -> l1 = l2.
Proof.
  intros Hlen H1 H2 E.
  rewrite <- (be_enc_dec l1 H1), <- (be_enc_dec l2 H2), Hlen, E. reflexivity.
Qed.

Lemma be_dec_enc' k n : n < P256 k -> be_dec (be_enc k n) = n.
Proof. apply be_dec_enc. Qed.

Lemma be_dec_zeros j l : be_dec (repeat 0 j ++ l) = be_dec l.
Proof.
  induction j as [|j IH]; [reflexivity|].
  cbn [repeat app]. rewrite be_dec_cons, IH. lia.
Qed.

(* ------------------------------------------------------------ byte_len *)

Definition blN (n : N) : N := (N.size n + 7) / 8.

Lemma byte_len_N n : N.of_nat (byte_len n) = blN n.
Proof. unfold byte_len, blN. apply N2Nat.id. Qed.

Lemma pow256 e : 256 ^ e = 2 ^ (8 * e).
Proof. rewrite N.pow_mul_r. reflexivity. Qed.

Lemma byte_len_upper n : n < P256 (byte_len n).
Proof.
  unfold P256. rewrite byte_len_N, pow256.
  eapply N.lt_le_trans; [apply N.size_gt|].
  apply N.pow_le_mono_r; [discriminate|]. unfold blN. lia.
Qed.

Lemma byte_len_0 : byte_len 0 = 0%nat.
Proof. reflexivity. Qed.

Lemma byte_len_lower n : n <> 0 -> P256 (byte_len n - 1) <= n.
Proof.
  intros Hn. unfold P256.
  replace (N.of_nat (byte_len n - 1)) with (blN n - 1) by (rewrite <- byte_len_N; lia).
  rewrite pow256.
  eapply N.le_trans; [|apply (N.log2_spec n); lia].
  apply N.pow_le_mono_r; [discriminate|].
  unfold blN. rewrite (N.size_log2 n Hn). lia.
Qed.

Lemma byte_len_le n k : n < P256 k -> (byte_len n <= k)%nat.
Proof.
  intros Hn. destruct (N.eq_dec n 0) as [->|Hz]; [rewrite byte_len_0; lia|].
  pose proof (byte_len_lower n Hz) as Hl.
  assert (P256 (byte_len n - 1) < P256 k) as Hlt by lia.
  apply P256_lt_iff in Hlt. lia.
Qed.

Lemma byte_len_unique n k : P256 k <= n -> n < P256 (S k) -> byte_len n = S k.
Proof.
  intros Hlo Hhi.
  pose proof (byte_len_upper n) as Hu.
  assert (n <> 0) as Hz by (pose proof (P256_pos k); lia).
  pose proof (byte_len_lower n Hz) as Hl.
  assert (P256 k < P256 (byte_len n)) as H1 by lia.
  assert (P256 (byte_len n - 1) < P256 (S k)) as H2 by lia.
  apply P256_lt_iff in H1. apply P256_lt_iff in H2. lia.
Qed.

(* ------------------------------------------------------------ to_byte_array / pad_left *)

Definition tba (n : N) : bytes := be_enc (byte_len n) n.

Lemma to_byte_array_nonneg z : (0 <= z)%Z -> to_byte_array z = Ok (tba (Z.to_N z)).
Proof.
  intros Hz. unfold to_byte_array.
  destruct (Z.ltb_spec z 0); [lia|reflexivity].
Qed.

Lemma to_byte_array_neg z : (z < 0)%Z -> to_byte_array z = Crash.
Proof. intros Hz. unfold to_byte_array. destruct (Z.ltb_spec z 0); [reflexivity|lia]. Qed.

Lemma tba_length n : length (tba n) = byte_len n.
Proof. apply be_enc_length. Qed.

Lemma tba_value n : be_dec (tba n) = n.
Proof. apply be_dec_enc'. apply byte_len_upper. Qed.

Lemma tba_bytes n : all_bytes (tba n) = true.
Proof. apply be_enc_bytes. Qed.

Lemma pad_left_ok data len :
  (length data <= len)%nat -> pad_left data len = Ok (repeat 0 (len - length data) ++ data).
Proof. intros H. unfold pad_left. destruct (Nat.leb_spec (length data) len); [reflexivity|lia]. Qed.

Lemma pad_left_crash data len : (len < length data)%nat -> pad_left data len = Crash.
Proof. intros H. unfold pad_left. destruct (Nat.leb_spec (length data) len); [lia|reflexivity]. Qed.

(* the leading-zero case, for every value: whatever the number of leading zero
   bytes of n, padding its minimal encoding gives the fixed-width encoding *)
Lemma padded_fixed_width n len :
  n < P256 len -> pad_left (tba n) len = Ok (be_enc len n).
Proof.
  intros Hn. pose proof (byte_len_le n len Hn) as Hle.
  rewrite pad_left_ok by (rewrite tba_length; exact Hle).
  rewrite tba_length. f_equal.
  replace len with ((len - byte_len n) + byte_len n)%nat at 2 by lia.
  symmetry. apply be_enc_pad. apply byte_len_upper.
Qed.

Lemma padded_spec z len :
  (0 <= z)%Z -> Z.to_N z < P256 len -> padded z len = Ok (be_enc len (Z.to_N z)).
Proof.
  intros Hz Hn. unfold padded. rewrite to_byte_array_nonneg by assumption.
  cbn [rbind]. now apply padded_fixed_width.
Qed.

Lemma padded_too_big z len :
  (0 <= z)%Z -> P256 len <= Z.to_N z -> padded z len = Crash.
Proof.
  intros Hz Hn. unfold padded. rewrite to_byte_array_nonneg by assumption. cbn [rbind].
  apply pad_left_crash. rewrite tba_length.
  pose proof (byte_len_upper (Z.to_N z)).
  assert (P256 len < P256 (byte_len (Z.to_N z))) as H1 by lia.
  now apply P256_lt_iff in H1.
Qed.

Lemma pad_left_roundtrip_N n len :
  n < P256 len ->
  exists bs, pad_left (tba n) len = Ok bs /\ length bs = len /\ be_dec bs = n /\ all_bytes bs = true
             /\ bs = be_enc len n.
Proof.
  intros Hn. exists (be_enc len n). split; [now apply padded_fixed_width|].
  split; [apply be_enc_length|]. split; [now apply be_dec_enc'|]. split; [apply be_enc_bytes|reflexivity].
Qed.

(* a 16-byte salt (any content, including leading zeros / all zero) survives
   int.from_bytes -> to_byte_array -> pad_left unchanged *)
Lemma padded_from_bytes l :
  all_bytes l = true -> padded (from_bytes l) (length l) = Ok l.
Proof.
  intros Hl. unfold from_bytes. rewrite padded_spec.
  - rewrite N2Z.id. f_equal. now apply be_enc_dec.
  - lia.
  - rewrite N2Z.id. now apply be_dec_lt.
Qed.

(* ------------------------------------------------------------ minimality *)

Lemma strip0_zeros j l : strip0 (repeat 0 j ++ l) = strip0 l.
Proof. induction j as [|j IH]; [reflexivity|]. cbn [repeat app strip0]. exact IH. Qed.

Lemma be_dec_strip0 l : be_dec (strip0 l) = be_dec l.
Proof.
  induction l as [|b r IH]; [reflexivity|].
  destruct b as [|p]; [|reflexivity].
  cbn [strip0]. rewrite IH, be_dec_cons. lia.
Qed.

(* stripping leading zero bytes of any byte string gives exactly what
   to_byte_array computes from its value *)
Lemma strip0_canonical l : all_bytes l = true -> strip0 l = tba (be_dec l).
Proof.
  induction l as [|b r IH]; intros Hl.
  - reflexivity.
  - apply all_bytes_cons in Hl. destruct Hl as [Hb Hr].
    destruct b as [|p].
    + cbn [strip0]. rewrite IH by assumption. rewrite be_dec_cons. f_equal; lia.
    + cbn [strip0].
      assert (Hall : all_bytes (N.pos p :: r) = true) by (apply all_bytes_cons; tauto).
      pose proof (be_dec_lt _ Hall) as Hlt. cbn [length] in Hlt.
      assert (Hlo : P256 (length r) <= be_dec (N.pos p :: r)).
      { rewrite be_dec_cons. pose proof (P256_pos (length r)). nia. }
      unfold tba. rewrite (byte_len_unique _ (length r) Hlo Hlt).
      symmetry. apply (be_enc_dec (N.pos p :: r) Hall).
Qed.

Lemma tba_strip0 n len : n < P256 len -> tba n = strip0 (be_enc len n).
Proof.
  intros Hn. rewrite strip0_canonical by apply be_enc_bytes.
  now rewrite be_dec_enc'.
Qed.

Lemma tba_head_nonzero n : hd 1 (tba n) <> 0.
Proof.
  pose proof (strip0_canonical (tba n) (tba_bytes n)) as H. rewrite tba_value in H.
  destruct (tba n) as [|b r] eqn:E; [cbn; discriminate|].
  cbn [hd]. intros ->. cbn [strip0] in H.
  assert (length (strip0 r) = length (0 :: r)) as Hlen by (rewrite H; reflexivity).
  assert (forall l, (length (strip0 l) <= length l)%nat) as Hs.
  { induction l as [|x l IHl]; [cbn; lia|]. destruct x; cbn [strip0 length]; lia. }
  specialize (Hs r). cbn [length] in Hlen. lia.
Qed.

(* no byte string with the same value is shorter *)
Lemma tba_shortest n l : all_bytes l = true -> be_dec l = n -> (length (tba n) <= length l)%nat.
Proof.
  intros Hl <-. rewrite tba_length. apply byte_len_le. now apply be_dec_lt.
Qed.

(* equality of values = equality up to leading zero bytes *)
Lemma be_dec_eq_iff_strip0 l1 l2 :
  all_bytes l1 = true -> all_bytes l2 = true ->
  (be_dec l1 = be_dec l2 <-> strip0 l1 = strip0 l2).
Proof.
  intros H1 H2. split; intros E.
  - rewrite (strip0_canonical l1 H1), (strip0_canonical l2 H2), E. reflexivity.
  - rewrite <- (be_dec_strip0 l1), <- (be_dec_strip0 l2), E. reflexivity.
Qed.

(* ------------------------------------------------------------ misc *)

Lemma beq_refl x : beq x x = true.
Proof. induction x as [|a x IH]; [reflexivity|]. cbn [beq]. now rewrite N.eqb_refl, IH. Qed.

Lemma beq_eq x y : beq x y = true <-> x = y.
Proof.
  revert y; induction x as [|a x IH]; intros [|b y]; cbn [beq]; try (split; [discriminate|discriminate]).
  - tauto.
  - rewrite andb_true_iff, N.eqb_eq, IH. split; [intros [-> ->]; reflexivity|intros E; inversion E; tauto].
Qed.
