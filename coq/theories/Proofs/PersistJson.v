(* C20 (part iii) - the concrete JSON codec satisfies the two codec hypotheses *)
From Coq Require Import List NArith Arith Bool Lia.
From AHK Require Import Lib.Res Lib.ByteStr Model.Persist Proofs.Persist Model.PersistJson.
Import ListNotations.

Definition all_ws (w : bytes) : bool := forallb is_ws w.
Definition isnum (v : json) : bool := match v with JNumT _ => true | _ => false end.

(* ------------------------------------------------------------ white space *)
Lemma skip_ws_ws w s : all_ws w = true -> skip_ws (w ++ s) = skip_ws s.
Proof.
  induction w as [|c w IH]; intros H; [reflexivity|].
  cbn in H. apply andb_true_iff in H. destruct H as [H1 H2]. cbn. rewrite H1. auto.
Qed.
Lemma skip_ws_head c r : is_ws c = false -> skip_ws (c :: r) = c :: r.
Proof. intros H. cbn. now rewrite H. Qed.
Lemma skip_ws_cons_inv s c r : skip_ws s = c :: r -> is_ws c = false.
Proof.
  induction s as [|a s IH]; cbn; [discriminate|]. destruct (is_ws a) eqn:E; auto.
  intros H. inversion H; subst. exact E.
Qed.
Lemma skip_ws_app s c r x : skip_ws s = c :: r -> skip_ws (s ++ x) = c :: r ++ x.
Proof.
  induction s as [|a s IH]; cbn; [discriminate|]. destruct (is_ws a); auto.
  intros H. inversion H; subst. reflexivity.
Qed.
Lemma skip_ws_nil_inv s : skip_ws s = [] -> all_ws s = true.
Proof.
  induction s as [|a s IH]; cbn; auto. destruct (is_ws a); [auto|discriminate].
Qed.
Lemma nl_ws ind k : all_ws (nl ind k) = true.
Proof.
  unfold nl. destruct ind; [|reflexivity]. cbn. induction (k + (k + 0)); cbn; auto.
Qed.

(* ------------------------------------------------------------ strings *)
Lemma scan_str_ok t rest : str_ok t = true -> scan_str (t ++ 34%N :: rest) = Some (t, rest).
Proof.
  revert rest. induction t as [t IH] using (well_founded_induction (Wf_nat.well_founded_ltof _ (@length N))).
  intros rest H. destruct t as [|c t]; [reflexivity|].
  cbn [str_ok] in H. cbn [app scan_str].
  destruct (N.eqb c 34); [discriminate|].
  destruct (N.eqb c 92).
  - destruct t as [|e t]; [discriminate|]. apply andb_true_iff in H. destruct H as [H1 H2].
    cbn [app]. rewrite H1. rewrite IH; auto. unfold ltof. cbn. lia.
  - apply andb_true_iff in H. destruct H as [H1 H2]. apply negb_true_iff in H1. rewrite H1.
    rewrite IH; auto. unfold ltof. cbn. lia.
Qed.

Lemma scan_str_ext s : forall t r x, scan_str s = Some (t, r) -> scan_str (s ++ x) = Some (t, r ++ x).
Proof.
  induction s as [s IH] using (well_founded_induction (Wf_nat.well_founded_ltof _ (@length N))).
  intros t r x H. destruct s as [|c s]; [discriminate|].
  cbn [scan_str] in H. cbn [app scan_str].
  destruct (N.eqb c 34); [inversion H; subst; reflexivity|].
  destruct (N.eqb c 92).
  - destruct s as [|e s]; [discriminate|]. cbn [app]. destruct (is_esc e); [|discriminate].
    destruct (scan_str s) as [[t' r']|] eqn:E; [|discriminate]. inversion H; subst.
    rewrite (IH s) with (t := t') (r := r); auto. unfold ltof. cbn. lia.
  - destruct (N.ltb c 32); [discriminate|].
    destruct (scan_str s) as [[t' r']|] eqn:E; [|discriminate]. inversion H; subst.
    rewrite (IH s) with (t := t') (r := r); auto. unfold ltof. cbn. lia.
Qed.

(* ------------------------------------------------------------ numbers *)
Definition head_not_numc (s : bytes) : Prop := match s with c :: _ => is_numc c = false | [] => True end.

Lemma span_num_ok t rest : forallb is_numc t = true -> head_not_numc rest -> span_num (t ++ rest) = (t, rest).
Proof.
  intros H Hr. induction t as [|c t IH]; cbn [app span_num].
  - destruct rest as [|c r]; [reflexivity|]. cbn [head_not_numc] in Hr. cbn [span_num]. now rewrite Hr.
  - cbn [forallb] in H. apply andb_true_iff in H. destruct H as [H1 H2]. rewrite H1. now rewrite IH.
Qed.
Lemma span_num_ext s : forall t r x, span_num s = (t, r) -> r <> [] -> span_num (s ++ x) = (t, r ++ x).
Proof.
  induction s as [|c s IH]; intros t r x H Hr; cbn in H.
  - inversion H; subst. congruence.
  - cbn. destruct (is_numc c) eqn:E.
    + destruct (span_num s) as [a b] eqn:Es. inversion H; subst. now rewrite (IH a r x eq_refl Hr).
    + inversion H; subst. cbn. reflexivity.
Qed.
Lemma span_num_spec s t r : span_num s = (t, r) -> s = t ++ r /\ forallb is_numc t = true /\ head_not_numc r.
Proof.
  revert t r. induction s as [|c s IH]; intros t r H; cbn in H.
  - inversion H; subst. repeat split.
  - destruct (is_numc c) eqn:E.
    + destruct (span_num s) as [a b] eqn:Es. inversion H; subst. destruct (IH a r eq_refl) as (A & B & C).
      repeat split; cbn; [now rewrite <- A|now rewrite E, B|exact C].
    + inversion H; subst. repeat split. cbn. exact E.
Qed.

Lemma strip_ext pre s r x : strip pre s = Some r -> strip pre (s ++ x) = Some (r ++ x).
Proof.
  revert s. induction pre as [|a pre IH]; intros s H; cbn in *; [inversion H; reflexivity|].
  destruct s as [|b s]; [discriminate|]. cbn. destruct (N.eqb a b); [auto|discriminate].
Qed.
Lemma strip_app pre rest : strip pre (pre ++ rest) = Some rest.
Proof. induction pre as [|a pre IH]; cbn; [reflexivity|]. now rewrite N.eqb_refl. Qed.

(* ------------------------------------------------------------ extension stability *)
Definition ext_ok (p : bytes -> option (json * bytes)) : Prop :=
  forall s v r x, p s = Some (v, r) -> (r <> [] \/ isnum v = false) -> p (s ++ x) = Some (v, r ++ x).

Lemma elems_ext p : ext_ok p ->
  forall n s l r x m, elems p n s = Some (l, r) -> n <= m -> elems p m (s ++ x) = Some (l, r ++ x).
Proof.
  intros Hp. induction n as [|n IH]; intros s l r x m H Hm; [discriminate|].
  destruct m as [|m]; [lia|]. cbn [elems] in *.
  destruct (p s) as [[v r1]|] eqn:Ep; [|discriminate].
  destruct (skip_ws r1) as [|c r2] eqn:Es; [discriminate|].
  assert (Hr1 : r1 <> []) by (intros ->; discriminate).
  rewrite (Hp s v r1 x Ep (or_introl Hr1)). rewrite (skip_ws_app _ _ _ x Es).
  destruct (N.eqb c 44).
  - destruct (elems p n r2) as [[l' r3]|] eqn:Ee; [|discriminate]. inversion H; subst.
    rewrite (IH r2 l' r x m Ee); [reflexivity|lia].
  - destruct (N.eqb c 93); [|discriminate]. inversion H; subst. reflexivity.
Qed.

Lemma members_ext p : ext_ok p ->
  forall n s l r x m, members p n s = Some (l, r) -> n <= m -> members p m (s ++ x) = Some (l, r ++ x).
Proof.
  intros Hp. induction n as [|n IH]; intros s l r x m H Hm; [discriminate|].
  destruct m as [|m]; [lia|]. cbn [members] in *.
  destruct (skip_ws s) as [|q r0] eqn:E0; [discriminate|]. rewrite (skip_ws_app _ _ _ x E0).
  destruct (N.eqb q 34); [|discriminate].
  destruct (scan_str r0) as [[key r1]|] eqn:Ek; [|discriminate]. rewrite (scan_str_ext _ _ _ x Ek).
  destruct (skip_ws r1) as [|c r2] eqn:E1; [discriminate|]. rewrite (skip_ws_app _ _ _ x E1).
  destruct (N.eqb c 58); [|discriminate].
  destruct (p r2) as [[v r3]|] eqn:Ep; [|discriminate].
  destruct (skip_ws r3) as [|d r4] eqn:E3; [discriminate|].
  assert (Hr3 : r3 <> []) by (intros ->; discriminate).
  rewrite (Hp r2 v r3 x Ep (or_introl Hr3)). rewrite (skip_ws_app _ _ _ x E3).
  destruct (N.eqb d 44).
  - destruct (members p n r4) as [[l' r5]|] eqn:Ee; [|discriminate]. inversion H; subst.
    rewrite (IH r4 l' r x m Ee); [reflexivity|lia].
  - destruct (N.eqb d 125); [|discriminate]. inversion H; subst. reflexivity.
Qed.

Lemma pv_ext f : ext_ok (pv f).
Proof.
  induction f as [|f IH]; intros s v r x H Hc; [discriminate|].
  cbn [pv] in *.
  destruct (skip_ws s) as [|c r0] eqn:E0; [discriminate|]. rewrite (skip_ws_app _ _ _ x E0).
  destruct (N.eqb c 34).
  { destruct (scan_str r0) as [[t r']|] eqn:Ek; [|discriminate]. rewrite (scan_str_ext _ _ _ x Ek).
    inversion H; subst. reflexivity. }
  destruct (N.eqb c 91).
  { destruct (skip_ws r0) as [|c2 r'] eqn:E1; [discriminate|]. rewrite (skip_ws_app _ _ _ x E1).
    destruct (N.eqb c2 93); [inversion H; subst; reflexivity|].
    destruct (elems (pv f) (length r0) r0) as [[l r'']|] eqn:Ee; [|discriminate]. inversion H; subst.
    rewrite (elems_ext _ IH _ _ _ _ x (length (r0 ++ x)) Ee); [reflexivity|]. rewrite app_length. lia. }
  destruct (N.eqb c 123).
  { destruct (skip_ws r0) as [|c2 r'] eqn:E1; [discriminate|]. rewrite (skip_ws_app _ _ _ x E1).
    destruct (N.eqb c2 125); [inversion H; subst; reflexivity|].
    destruct (members (pv f) (length r0) r0) as [[l r'']|] eqn:Ee; [|discriminate]. inversion H; subst.
    rewrite (members_ext _ IH _ _ _ _ x (length (r0 ++ x)) Ee); [reflexivity|]. rewrite app_length. lia. }
  destruct (N.eqb c 110).
  { destruct (strip lit_null (c :: r0)) as [r'|] eqn:Es; [|discriminate].
    change (c :: r0 ++ x) with ((c :: r0) ++ x). rewrite (strip_ext _ _ _ x Es). inversion H; subst. reflexivity. }
  destruct (N.eqb c 116).
  { destruct (strip lit_true (c :: r0)) as [r'|] eqn:Es; [|discriminate].
    change (c :: r0 ++ x) with ((c :: r0) ++ x). rewrite (strip_ext _ _ _ x Es). inversion H; subst. reflexivity. }
  destruct (N.eqb c 102).
  { destruct (strip lit_false (c :: r0)) as [r'|] eqn:Es; [|discriminate].
    change (c :: r0 ++ x) with ((c :: r0) ++ x). rewrite (strip_ext _ _ _ x Es). inversion H; subst. reflexivity. }
  destruct (is_numc c); [|discriminate].
  destruct (span_num (c :: r0)) as [t r'] eqn:Es. destruct (num_ok t) eqn:En; [|discriminate].
  inversion H; subst. destruct Hc as [Hc|Hc]; [|discriminate].
  change (c :: r0 ++ x) with ((c :: r0) ++ x). rewrite (span_num_ext _ _ _ x Es Hc). now rewrite En.
Qed.

(* ------------------------------------------------------------ round trip *)
Lemma pv_ws f w s : all_ws w = true -> pv f (w ++ s) = pv f s.
Proof. intros H. destruct f; [reflexivity|]. cbn [pv]. now rewrite (skip_ws_ws _ _ H). Qed.

Definition follow (v : json) (rest : bytes) : Prop := isnum v = true -> head_not_numc rest.

Definition G (ind : bool) (k : nat) (x : json) : bytes := nl ind (S k) ++ jpr ind (S k) x.
Definition GM (ind : bool) (k : nat) (kv : bytes * json) : bytes :=
  nl ind (S k) ++ quote (fst kv) ++ colon ind ++ jpr ind (S k) (snd kv).

Lemma jpr_JA_cons ind k x l :
  jpr ind k (JA (x :: l)) = 91%N :: join [44%N] (map (G ind k) (x :: l)) ++ nl ind k ++ [93%N].
Proof. reflexivity. Qed.
Lemma jpr_JO_cons ind k x l :
  jpr ind k (JO (x :: l)) = 123%N :: join [44%N] (map (GM ind k) (x :: l)) ++ nl ind k ++ [125%N].
Proof. reflexivity. Qed.

Lemma digit_facts c : is_digit c = true ->
  is_ws c = false /\ is_numc c = true /\ N.eqb c 34 = false /\ N.eqb c 91 = false /\ N.eqb c 93 = false /\
  N.eqb c 123 = false /\ N.eqb c 125 = false /\ N.eqb c 110 = false /\ N.eqb c 116 = false /\ N.eqb c 102 = false.
Proof.
  unfold is_digit, is_ws, is_numc, is_digit. intros H. apply andb_true_iff in H. destruct H as [H1 H2].
  rewrite H1, H2. apply N.leb_le in H1. apply N.leb_le in H2.
  repeat split; try reflexivity; repeat (apply orb_false_iff; split); apply N.eqb_neq; lia.
Qed.

Lemma num_head t : num_ok t = true ->
  exists c r, t = c :: r /\ forallb is_numc t = true /\
  is_ws c = false /\ is_numc c = true /\ N.eqb c 34 = false /\ N.eqb c 91 = false /\ N.eqb c 93 = false /\
  N.eqb c 123 = false /\ N.eqb c 125 = false /\ N.eqb c 110 = false /\ N.eqb c 116 = false /\ N.eqb c 102 = false.
Proof.
  destruct t as [|c r]; [discriminate|]. unfold num_ok. intros H. apply andb_true_iff in H. destruct H as [H _].
  apply andb_true_iff in H. destruct H as [H1 H2].
  exists c, r. split; [reflexivity|]. split; [exact H2|].
  apply orb_true_iff in H1. destruct H1 as [H1|H1]; [now apply digit_facts|].
  apply N.eqb_eq in H1. subst. repeat split; reflexivity.
Qed.

Lemma jpr_head ind k v : wfj v = true ->
  exists c t, jpr ind k v = c :: t /\ is_ws c = false /\ N.eqb c 93 = false /\ N.eqb c 125 = false.
Proof.
  destruct v as [| [|] | t | t | [|x l] | [|x l]]; intros H; cbn [jpr];
    try (eexists; eexists; split; [reflexivity|repeat split; reflexivity]).
  cbn in H. destruct (num_head t H) as (c & r & -> & _ & A & _ & _ & _ & B & _ & C & _). exists c, r. auto.
Qed.

Lemma hnn_nl ind k c rest : is_numc c = false -> head_not_numc (nl ind k ++ c :: rest).
Proof. intros H. unfold nl. destruct ind; cbn; [reflexivity|exact H]. Qed.

Lemma join_cons2 sep a b (r : list bytes) : join sep (a :: b :: r) = a ++ sep ++ join sep (b :: r).
Proof. reflexivity. Qed.

Lemma join_len {A} (g : A -> bytes) sep l :
  (forall x, In x l -> g x <> []) -> length l <= length (join sep (map g l)).
Proof.
  induction l as [|a l IH]; intros H; [cbn; lia|].
  destruct l as [|b l].
  - cbn. specialize (H a (or_introl eq_refl)). destruct (g a); [congruence|cbn; lia].
  - cbn [map]. rewrite join_cons2. rewrite !app_length.
    assert (g a <> []) by (apply H; now left). destruct (g a); [congruence|].
    cbn [length]. cbn [map] in IH. specialize (IH (fun x Hx => H x (or_intror Hx))). cbn [length] in IH. lia.
Qed.
Lemma join_ge {A} (g : A -> bytes) sep l x : In x l -> length (g x) <= length (join sep (map g l)).
Proof.
  induction l as [|a l IH]; intros Hx; [destruct Hx|].
  destruct l as [|b l].
  - destruct Hx as [->|[]]. cbn. lia.
  - cbn [map]. rewrite join_cons2. rewrite !app_length. destruct Hx as [->|Hx]; [lia|].
    specialize (IH Hx). cbn [map] in IH. lia.
Qed.

Lemma elems_rt p ind k rest : forall l n,
  l <> [] -> length l <= n ->
  (forall x, In x l -> forall w rest', all_ws w = true -> follow x rest' ->
                       p (w ++ jpr ind (S k) x ++ rest') = Some (x, rest')) ->
  elems p n (join [44%N] (map (G ind k) l) ++ nl ind k ++ 93%N :: rest) = Some (l, rest).
Proof.
  induction l as [|x l IH]; intros n Hne Hn Hp; [congruence|].
  destruct n as [|n]; [cbn in Hn; lia|]. cbn [elems].
  destruct l as [|y l].
  - cbn [map join]. unfold G at 1. rewrite <- !app_assoc.
    rewrite (Hp x (or_introl eq_refl) _ _ (nl_ws ind (S k))); [|intros _; now apply hnn_nl].
    rewrite (skip_ws_ws _ _ (nl_ws ind k)). rewrite skip_ws_head by reflexivity. reflexivity.
  - cbn [map]. rewrite join_cons2. unfold G at 1. rewrite <- !app_assoc.
    rewrite (Hp x (or_introl eq_refl) _ _ (nl_ws ind (S k))); [|intros _; reflexivity].
    cbn [app]. rewrite skip_ws_head by reflexivity. cbn [N.eqb Pos.eqb].
    change (N.eqb 44 44) with true. cbv iota.
    cbn [map] in IH. rewrite (IH n); [reflexivity|discriminate|cbn in *; lia|].
    intros z Hz. apply Hp. now right.
Qed.

Lemma quote_scan key rest : str_ok key = true -> scan_str (key ++ 34%N :: rest) = Some (key, rest).
Proof. apply scan_str_ok. Qed.

Lemma colon_form ind : exists w, all_ws w = true /\ colon ind = 58%N :: w.
Proof. destruct ind; [exists [32%N]|exists []]; split; reflexivity. Qed.

Lemma members_rt p ind k rest : forall l n,
  l <> [] -> length l <= n ->
  (forall kv, In kv l -> str_ok (fst kv) = true) ->
  (forall kv, In kv l -> forall w rest', all_ws w = true -> follow (snd kv) rest' ->
                       p (w ++ jpr ind (S k) (snd kv) ++ rest') = Some (snd kv, rest')) ->
  members p n (join [44%N] (map (GM ind k) l) ++ nl ind k ++ 125%N :: rest) = Some (l, rest).
Proof.
  induction l as [|x l IH]; intros n Hne Hn Hk Hp; [congruence|].
  destruct n as [|n]; [cbn in Hn; lia|]. cbn [members].
  destruct (colon_form ind) as (cw & Hcw & Ecol).
  destruct l as [|y l].
  - cbn [map join]. unfold GM at 1. unfold quote. rewrite <- !app_assoc.
    rewrite (skip_ws_ws _ _ (nl_ws ind (S k))). cbn [app]. rewrite skip_ws_head by reflexivity.
    change (N.eqb 34 34) with true. cbv iota. rewrite <- !app_assoc. cbn [app].
    rewrite (quote_scan _ _ (Hk x (or_introl eq_refl))).
    rewrite Ecol. cbn [app]. rewrite skip_ws_head by reflexivity. change (N.eqb 58 58) with true. cbv iota.
    rewrite (Hp x (or_introl eq_refl) _ _ Hcw); [|intros _; now apply hnn_nl].
    rewrite (skip_ws_ws _ _ (nl_ws ind k)). rewrite skip_ws_head by reflexivity.
    destruct x; reflexivity.
  - cbn [map]. rewrite join_cons2. unfold GM at 1. unfold quote. rewrite <- !app_assoc.
    rewrite (skip_ws_ws _ _ (nl_ws ind (S k))). cbn [app]. rewrite skip_ws_head by reflexivity.
    change (N.eqb 34 34) with true. cbv iota. rewrite <- !app_assoc. cbn [app].
    rewrite (quote_scan _ _ (Hk x (or_introl eq_refl))).
    rewrite Ecol. cbn [app]. rewrite skip_ws_head by reflexivity. change (N.eqb 58 58) with true. cbv iota.
    rewrite (Hp x (or_introl eq_refl) _ _ Hcw); [|intros _; reflexivity].
    rewrite skip_ws_head by reflexivity. change (N.eqb 44 44) with true. cbv iota.
    cbn [map] in IH. rewrite (IH n); [destruct x; reflexivity|discriminate|cbn in *; lia| |].
    + intros z Hz. apply Hk. now right.
    + intros z Hz. apply Hp. now right.
Qed.

Lemma depth_in_A x l : In x l -> depth x <= fold_right (fun y a => Nat.max (depth y) a) 0 l.
Proof. induction l as [|a l IH]; intros H; [destruct H|]. cbn. destruct H as [->|H]; [lia|specialize (IH H); lia]. Qed.
Lemma depth_in_O (kv : bytes * json) l :
  In kv l -> depth (snd kv) <= fold_right (fun y a => Nat.max (depth (snd y)) a) 0 l.
Proof. induction l as [|a l IH]; intros H; [destruct H|]. cbn. destruct H as [->|H]; [lia|specialize (IH H); lia]. Qed.

Lemma pv_rt : forall f v ind k rest,
  wfj v = true -> depth v < f -> follow v rest -> pv f (jpr ind k v ++ rest) = Some (v, rest).
Proof.
  induction f as [|f IH]; intros v ind k rest Hw Hd Hf; [lia|].
  destruct v as [| [|] | t | t | [|x l] | [|x l]].
  - reflexivity.
  - reflexivity.
  - reflexivity.
  - (* number *)
    cbn [wfj] in Hw. destruct (num_head t Hw) as (c & r & -> & Hall & A1 & A2 & A3 & A4 & A5 & A6 & A7 & A8 & A9 & A10).
    cbn [jpr pv]. cbn [app]. rewrite skip_ws_head by exact A1.
    rewrite A3, A4, A6, A8, A9, A10, A2.
    change (c :: r ++ rest) with ((c :: r) ++ rest).
    rewrite (span_num_ok _ _ Hall (Hf eq_refl)). now rewrite Hw.
  - (* string *)
    cbn [wfj] in Hw. cbn [jpr pv]. unfold quote. cbn [app]. rewrite skip_ws_head by reflexivity.
    change (N.eqb 34 34) with true. cbv iota. rewrite <- app_assoc. cbn [app]. now rewrite (scan_str_ok _ _ Hw).
  - reflexivity.
  - (* non-empty array *)
    rewrite jpr_JA_cons. cbn [pv app]. rewrite skip_ws_head by reflexivity.
    change (N.eqb 91 34) with false. change (N.eqb 91 91) with true. cbv iota.
    cbn [wfj] in Hw. cbn [depth] in Hd.
    assert (Hx : wfj x = true) by (cbn in Hw; now apply andb_true_iff in Hw).
    destruct (jpr_head ind (S k) x Hx) as (c & t & Ec & Ews & E93 & _).
    rewrite <- !app_assoc. cbn [app].
    remember (join [44%N] (map (G ind k) (x :: l)) ++ nl ind k ++ 93%N :: rest) as R eqn:ER.
    assert (Hs : exists t', skip_ws R = c :: t').
    { subst R. destruct l as [|y l]; cbn [map]; [cbn [join]|rewrite join_cons2]; unfold G at 1;
        rewrite <- !app_assoc; rewrite (skip_ws_ws _ _ (nl_ws ind (S k))); rewrite Ec; cbn [app];
        rewrite (skip_ws_head _ _ Ews); eauto. }
    destruct Hs as [t' Hs]. rewrite Hs, E93.
    assert (He : elems (pv f) (length R) R = Some (x :: l, rest)).
    { subst R. apply elems_rt; [discriminate| |].
      - rewrite app_length. pose proof (join_len (G ind k) [44%N] (x :: l)) as J.
        assert (forall z, In z (x :: l) -> G ind k z <> []).
        { intros z Hz. unfold G. rewrite forallb_forall in Hw. destruct (jpr_head ind (S k) z (Hw z Hz)) as (c' & t'' & E' & _).
          rewrite E'. destruct (nl ind (S k)); discriminate. }
        specialize (J H). lia.
      - intros z Hz w rest' Hwws Hfo. rewrite (pv_ws _ _ _ Hwws). apply IH; auto.
        + rewrite forallb_forall in Hw. now apply Hw.
        + pose proof (depth_in_A z (x :: l) Hz). lia. }
    now rewrite He.
  - reflexivity.
  - (* non-empty object *)
    rewrite jpr_JO_cons. cbn [pv app]. rewrite skip_ws_head by reflexivity.
    change (N.eqb 123 34) with false. change (N.eqb 123 91) with false. change (N.eqb 123 123) with true. cbv iota.
    cbn [wfj] in Hw. cbn [depth] in Hd.
    rewrite <- !app_assoc. cbn [app].
    remember (join [44%N] (map (GM ind k) (x :: l)) ++ nl ind k ++ 125%N :: rest) as R eqn:ER.
    assert (Hs : exists t', skip_ws R = 34%N :: t').
    { subst R. destruct l as [|y l]; cbn [map]; [cbn [join]|rewrite join_cons2]; unfold GM at 1; unfold quote;
        rewrite <- !app_assoc; rewrite (skip_ws_ws _ _ (nl_ws ind (S k))); cbn [app];
        rewrite skip_ws_head by reflexivity; eauto. }
    destruct Hs as [t' Hs]. rewrite Hs. change (N.eqb 34 125) with false. cbv iota.
    assert (He : members (pv f) (length R) R = Some (x :: l, rest)).
    { subst R. apply members_rt; [discriminate| | |].
      - rewrite app_length. pose proof (join_len (GM ind k) [44%N] (x :: l)) as J.
        assert (forall z, In z (x :: l) -> GM ind k z <> []).
        { intros z Hz. unfold GM, quote. destruct (nl ind (S k)); discriminate. }
        specialize (J H). lia.
      - intros z Hz. rewrite forallb_forall in Hw. specialize (Hw z Hz). now apply andb_true_iff in Hw.
      - intros z Hz w rest' Hwws Hfo. rewrite (pv_ws _ _ _ Hwws). apply IH; auto.
        + rewrite forallb_forall in Hw. specialize (Hw z Hz). now apply andb_true_iff in Hw.
        + pose proof (depth_in_O z (x :: l) Hz). lia. }
    now rewrite He.
Qed.

(* ------------------------------------------------------------ fuel *)
Lemma elems_mono p q : (forall s r, p s = Some r -> q s = Some r) ->
  forall n s r, elems p n s = Some r -> elems q n s = Some r.
Proof.
  intros Hpq. induction n as [|n IH]; intros s r H; [discriminate|]. cbn [elems] in *.
  destruct (p s) as [[v r1]|] eqn:Ep; [|discriminate]. rewrite (Hpq _ _ Ep).
  destruct (skip_ws r1) as [|c r2]; [discriminate|]. destruct (N.eqb c 44).
  - destruct (elems p n r2) as [[l r3]|] eqn:Ee; [|discriminate]. now rewrite (IH _ _ Ee).
  - exact H.
Qed.
Lemma members_mono p q : (forall s r, p s = Some r -> q s = Some r) ->
  forall n s r, members p n s = Some r -> members q n s = Some r.
Proof.
  intros Hpq. induction n as [|n IH]; intros s r H; [discriminate|]. cbn [members] in *.
  destruct (skip_ws s) as [|q0 r0]; [discriminate|]. destruct (N.eqb q0 34); [|discriminate].
  destruct (scan_str r0) as [[key r1]|]; [|discriminate].
  destruct (skip_ws r1) as [|c r2]; [discriminate|]. destruct (N.eqb c 58); [|discriminate].
  destruct (p r2) as [[v r3]|] eqn:Ep; [|discriminate]. rewrite (Hpq _ _ Ep).
  destruct (skip_ws r3) as [|d r4]; [discriminate|]. destruct (N.eqb d 44).
  - destruct (members p n r4) as [[l r5]|] eqn:Ee; [|discriminate]. now rewrite (IH _ _ Ee).
  - exact H.
Qed.
Lemma pv_S f' s : pv (S f') s =
      match skip_ws s with
      | [] => None
      | c :: r =>
          if N.eqb c 34 then
            match scan_str r with Some (t, r') => Some (JStrT t, r') | None => None end
          else if N.eqb c 91 then
            match skip_ws r with
            | [] => None
            | c2 :: r' =>
                if N.eqb c2 93 then Some (JA [], r')
                else match elems (pv f') (length r) r with Some (l, r'') => Some (JA l, r'') | None => None end
            end
          else if N.eqb c 123 then
            match skip_ws r with
            | [] => None
            | c2 :: r' =>
                if N.eqb c2 125 then Some (JO [], r')
                else match members (pv f') (length r) r with Some (l, r'') => Some (JO l, r'') | None => None end
            end
          else if N.eqb c 110 then
            match strip lit_null (c :: r) with Some r' => Some (JN, r') | None => None end
          else if N.eqb c 116 then
            match strip lit_true (c :: r) with Some r' => Some (JB true, r') | None => None end
          else if N.eqb c 102 then
            match strip lit_false (c :: r) with Some r' => Some (JB false, r') | None => None end
          else if is_numc c then
            match span_num (c :: r) with (t, r') => if num_ok t then Some (JNumT t, r') else None end
          else None
      end.
Proof. reflexivity. Qed.

Lemma pv_mono f : forall s r, pv f s = Some r -> pv (S f) s = Some r.
Proof.
  induction f as [|f IH]; intros s r H; [discriminate|].
  rewrite pv_S in H. rewrite pv_S.
  destruct (skip_ws s) as [|c r0]; [discriminate|].
  destruct (N.eqb c 34); [exact H|].
  destruct (N.eqb c 91).
  { destruct (skip_ws r0) as [|c2 r']; [discriminate|]. destruct (N.eqb c2 93); [exact H|].
    destruct (elems (pv f) (length r0) r0) as [[l r'']|] eqn:Ee; [|discriminate].
    now rewrite (elems_mono _ _ IH _ _ _ Ee). }
  destruct (N.eqb c 123).
  { destruct (skip_ws r0) as [|c2 r']; [discriminate|]. destruct (N.eqb c2 125); [exact H|].
    destruct (members (pv f) (length r0) r0) as [[l r'']|] eqn:Ee; [|discriminate].
    now rewrite (members_mono _ _ IH _ _ _ Ee). }
  exact H.
Qed.
Lemma pv_mono_le f g s r : f <= g -> pv f s = Some r -> pv g s = Some r.
Proof. intros Hle. induction Hle as [|g Hle IH]; auto. intros Hp. apply pv_mono. auto. Qed.

Lemma fold_max_le {A} (d : A -> nat) l B : (forall x, In x l -> d x <= B) ->
  fold_right (fun y a => Nat.max (d y) a) 0 l <= B.
Proof.
  induction l as [|a l IH]; intros H; cbn; [lia|].
  pose proof (H a (or_introl eq_refl)). specialize (IH (fun x Hx => H x (or_intror Hx))). lia.
Qed.

Lemma depth_len : forall n v ind k, depth v <= n -> depth v <= length (jpr ind k v).
Proof.
  induction n as [|n IH]; intros v ind k H.
  - lia.
  - destruct v as [| b | t | t | [|x l] | [|x l]]; cbn [depth] in *; try lia.
    + cbn. lia.
    + rewrite jpr_JA_cons. cbn [length]. rewrite !app_length.
      assert (fold_right (fun y a => Nat.max (depth y) a) 0 (x :: l) <= length (join [44%N] (map (G ind k) (x :: l)))).
      { apply fold_max_le. intros z Hz.
        pose proof (depth_in_A z (x :: l) Hz).
        assert (depth z <= length (jpr ind (S k) z)) by (apply IH; cbn [fold_right] in *; lia).
        pose proof (join_ge (G ind k) [44%N] (x :: l) z Hz). unfold G in H2 at 1. rewrite app_length in H2. lia. }
      cbn [fold_right] in *. lia.
    + cbn. lia.
    + rewrite jpr_JO_cons. cbn [length]. rewrite !app_length.
      assert (fold_right (fun y a => Nat.max (depth (snd y)) a) 0 (x :: l) <= length (join [44%N] (map (GM ind k) (x :: l)))).
      { apply (fold_max_le (fun y : bytes * json => depth (snd y))). intros z Hz.
        pose proof (depth_in_O z (x :: l) Hz).
        assert (depth (snd z) <= length (jpr ind (S k) (snd z))) by (apply IH; cbn [fold_right] in *; lia).
        pose proof (join_ge (GM ind k) [44%N] (x :: l) z Hz). unfold GM in H2 at 1. rewrite !app_length in H2. lia. }
      cbn [fold_right] in *. lia.
Qed.

(* ------------------------------------------------------------ the two codec properties *)
Theorem jparse_jprint ind v : wfj v = true -> jparse (jprint ind v) = Some v.
Proof.
  intros Hw. unfold jparse, jprint.
  rewrite <- (app_nil_r (jpr ind 0 v)) at 2.
  rewrite pv_rt; [reflexivity|exact Hw| |intros _; exact I].
  pose proof (depth_len (depth v) v ind 0 (le_n _)). lia.
Qed.

Lemma pv_num_head f s v r : pv f s = Some (v, r) -> isnum v = true ->
  exists c s', skip_ws s = c :: s' /\ N.eqb c 91 = false /\ N.eqb c 123 = false.
Proof.
  destruct f; [discriminate|]. cbn [pv]. destruct (skip_ws s) as [|c r0]; [discriminate|].
  intros H Hn. exists c, r0. split; [reflexivity|].
  destruct (N.eqb c 34). { destruct (scan_str r0) as [[? ?]|]; inversion H; subst; discriminate. }
  destruct (N.eqb c 91).
  { destruct (skip_ws r0) as [|c2 r']; [discriminate|]. destruct (N.eqb c2 93); [inversion H; subst; discriminate|].
    destruct (elems _ _ _) as [[? ?]|]; inversion H; subst; discriminate. }
  destruct (N.eqb c 123).
  { destruct (skip_ws r0) as [|c2 r']; [discriminate|]. destruct (N.eqb c2 125); [inversion H; subst; discriminate|].
    destruct (members _ _ _) as [[? ?]|]; inversion H; subst; discriminate. }
  split; reflexivity.
Qed.

Lemma container_head ind v : is_container v = true ->
  exists c t, jprint ind v = c :: t /\ (N.eqb c 91 = true \/ N.eqb c 123 = true).
Proof.
  unfold jprint. destruct v as [| b | t | t | [|x l] | [|x l]]; try discriminate; intros _.
  - exists 91%N, [93%N]. split; [reflexivity|now left].
  - rewrite jpr_JA_cons. eexists; eexists; split; [reflexivity|now left].
  - exists 123%N, [125%N]. split; [reflexivity|now right].
  - rewrite jpr_JO_cons. eexists; eexists; split; [reflexivity|now right].
Qed.

Theorem jparse_prefix_none ind v p :
  wfj v = true -> is_container v = true -> strict_prefix p (jprint ind v) -> jparse p = None.
Proof.
  intros Hw Hc (t & Ht & E).
  destruct (jparse p) as [v'|] eqn:Ep; [exfalso|reflexivity].
  unfold jparse in Ep. destruct (pv (S (length p)) p) as [[v1 r]|] eqn:E1; [|discriminate].
  destruct (skip_ws r) eqn:Er; [|discriminate].
  set (F := S (length (p ++ t))).
  assert (Hfull : pv F (p ++ t) = Some (v, [])).
  { rewrite <- E. unfold jprint. rewrite <- (app_nil_r (jpr ind 0 v)).
    apply pv_rt; [exact Hw| |intros _; exact I].
    pose proof (depth_len (depth v) v ind 0 (le_n _)). unfold F. rewrite <- E. unfold jprint. lia. }
  assert (HF : pv F p = Some (v1, r)).
  { apply (pv_mono_le (S (length p))); [unfold F; rewrite app_length; lia|exact E1]. }
  destruct r as [|c0 r0].
  - destruct (isnum v1) eqn:En.
    + destruct (pv_num_head _ _ _ _ HF En) as (c & s' & Es & A & B).
      destruct (container_head ind v Hc) as (c1 & t1 & E2 & Hc1).
      rewrite E in E2. destruct p as [|a p']; [cbn in Es; discriminate|].
      cbn in E2. inversion E2; subst a.
      assert (Hws1 : is_ws c1 = false).
      { destruct Hc1 as [Hq|Hq]; apply N.eqb_eq in Hq; subst; reflexivity. }
      rewrite skip_ws_head in Es by assumption. inversion Es; subst c.
      destruct Hc1 as [Hq|Hq]; [rewrite A in Hq|rewrite B in Hq]; discriminate Hq.
    + pose proof (pv_ext F p v1 [] t HF (or_intror En)) as X. rewrite Hfull in X.
      injection X as _ Ht'. cbn [app] in Ht'. apply Ht. symmetry. exact Ht'.
  - assert (Hne : c0 :: r0 <> []) by discriminate.
    pose proof (pv_ext F p v1 (c0 :: r0) t HF (or_introl Hne)) as X.
    rewrite Hfull in X. injection X as _ Ht'. cbn [app] in Ht'. discriminate Ht'.
Qed.

(* the cache wrapper *)
Lemma jget_jwrap c : jget_pairings (jwrap c) = Some c.
Proof. reflexivity. Qed.
Lemma wfj_jwrap c : wfj c = true -> wfj (jwrap c) = true /\ is_container (jwrap c) = true.
Proof. intros H. cbn. rewrite H. split; reflexivity. Qed.
