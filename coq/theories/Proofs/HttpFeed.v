(* C07, part 2: the feed loop is a monoid homomorphism on the input stream:
   fuel independence, accumulator factoring, the Content-Length splitting lemma,
   drain_app, hfeed_app and its corollaries. *)
From Coq Require Import List NArith ZArith Arith Bool Lia ZifyN ZifyNat ZifyBool.
From AHK Require Import Lib.ByteStr Model.Http Proofs.HttpStep.
Import ListNotations.

(* ---- fuel ---- *)

Lemma drain_fuel f : forall f' p r acc,
    length r < f -> length r < f' -> drain f p r acc = drain f' p r acc.
Proof.
  induction f as [|f IH]; intros f' p r acc H1 H2; [lia|].
  destruct f' as [|f']; [lia|].
  cbn [drain].
  pose proof (step_shrinks p r) as HS.
  destruct (step p r) as [|p' r'|m r'|k]; try reflexivity.
  - specialize (HS _ eq_refl). apply IH; lia.
  - specialize (HS _ eq_refl). apply IH; lia.
Qed.

Lemma drain_step_eq f f' p r p' r' acc :
  step p r = step p' r' -> step p r <> Wait -> length r < f -> length r' < f' ->
  drain f p r acc = drain f' p' r' acc.
Proof.
  intros E NW H1 H2. destruct f as [|f]; [lia|]. destruct f' as [|f']; [lia|].
  cbn [drain].
  pose proof (step_shrinks p r) as HS1. pose proof (step_shrinks p' r') as HS2.
  rewrite <- E in HS2. rewrite <- E.
  destruct (step p r) as [|q x|m x|k]; try reflexivity.
  - congruence.
  - specialize (HS1 _ eq_refl). specialize (HS2 _ eq_refl). apply drain_fuel; lia.
  - specialize (HS1 _ eq_refl). specialize (HS2 _ eq_refl). apply drain_fuel; lia.
Qed.

(* ---- accumulator ---- *)

Lemma drain_acc f : forall p r acc,
    drain f p r acc = (fst (drain f p r []), acc ++ snd (drain f p r [])).
Proof.
  induction f as [|f IH]; intros p r acc; cbn [drain].
  - cbn. now rewrite app_nil_r.
  - destruct (step p r) as [|p' r'|m r'|k].
    + cbn. now rewrite app_nil_r.
    + apply IH.
    + rewrite (IH init r' (acc ++ [m])). rewrite (IH init r' ([] ++ [m])).
      cbn [fst snd app]. now rewrite <- app_assoc.
    + cbn. now rewrite app_nil_r.
Qed.

(* ---- the Content-Length body: splitting ---- *)

Lemma set_body_twice p x y : set_body (set_body p x) y = set_body p y.
Proof. reflexivity. Qed.

Lemma partial_nonempty p r : partial p r = true -> 0 < length r.
Proof.
  unfold partial. destruct (ph p); try discriminate.
  destruct r; [|cbn [length]; lia].
  cbn [nil_b negb]. rewrite andb_false_r. discriminate.
Qed.

Lemma step_after_partial p r x : partial p r = true -> step (set_body p x) [] = Wait.
Proof.
  unfold partial, step. cbn [set_body ph chunked clen].
  destruct (ph p); try discriminate.
  destruct (chunked p); [discriminate|].
  destruct (Z.ltb 0 (clen p)); [|reflexivity]. reflexivity.
Qed.

Lemma lift_finish_nowait p r : lift (finish p) r <> Wait.
Proof. unfold finish. destruct (kind_of (version p)); discriminate. Qed.

Lemma step_split p r b :
  partial p r = true -> b <> [] ->
  step p (r ++ b) = step (set_body p (body p ++ r)) b /\ step p (r ++ b) <> Wait.
Proof.
  unfold partial, step. cbn [set_body ph chunked clen].
  destruct (ph p); try discriminate.
  destruct (chunked p); [discriminate|]. cbn [negb andb].
  destruct (Z.ltb 0 (clen p)); [|discriminate]. cbn [andb].
  destruct (nil_b r) eqn:Er; [discriminate|]. cbn [negb andb].
  intros H Hb. unfold body_step. cbn [set_body body clen].
  rewrite (nil_b_app_false _ b Er).
  destruct b as [|y b]; [congruence|]. cbn [nil_b].
  rewrite !app_length. cbn [length].
  set (rem := (clen p - Z.of_nat (length (body p)))%Z) in *.
  assert (E0 : Z.leb rem 0 = false) by lia. rewrite E0.
  assert (E1 : Z.leb (clen p - Z.of_nat (length (body p) + length r)) 0 = false) by lia.
  rewrite E1.
  destruct (Z.ltb (Z.of_nat (length r + S (length b))) rem) eqn:E2.
  - assert (E3 : Z.ltb (Z.of_nat (S (length b))) (clen p - Z.of_nat (length (body p) + length r)) = true) by lia.
    rewrite E3. rewrite set_body_twice. split; [now rewrite app_assoc|discriminate].
  - assert (E3 : Z.ltb (Z.of_nat (S (length b))) (clen p - Z.of_nat (length (body p) + length r)) = false) by lia.
    rewrite E3. rewrite set_body_twice.
    replace (Z.to_nat (clen p - Z.of_nat (length (body p) + length r)))
      with (Z.to_nat rem - length r) by lia.
    rewrite firstn_app, skipn_app.
    rewrite (firstn_all2 r) by lia. rewrite (skipn_all2 r) by lia.
    rewrite app_assoc. split; [reflexivity|apply lift_finish_nowait].
Qed.

Lemma body_split f p r b acc :
  partial p r = true -> length (r ++ b) < f ->
  drain f p (r ++ b) acc = drain (S (length b)) (set_body p (body p ++ r)) b acc.
Proof.
  intros HP Hf. pose proof (partial_nonempty _ _ HP) as Hr.
  destruct b as [|y b].
  - rewrite app_nil_r in *. destruct f as [|f]; [lia|]. cbn [drain].
    rewrite (step_partial _ _ HP). destruct f as [|f]; [lia|]. cbn [drain length].
    now rewrite (step_after_partial _ _ _ HP).
  - destruct (step_split p r (y :: b) HP) as [E NW]; [discriminate|].
    apply drain_step_eq; [exact E|exact NW|assumption|lia].
Qed.

(* ---- the homomorphism on drain ---- *)

Definition continue (x : hstate * list msg) (b : bytes) : hstate * list msg :=
  match x with
  | (Run p1 r1, ms) => drain (S (length (r1 ++ b))) p1 (r1 ++ b) ms
  | _ => x
  end.

Lemma drain_app f : forall p r acc b f',
    length r < f -> length (r ++ b) < f' ->
    drain f' p (r ++ b) acc = continue (drain f p r acc) b.
Proof.
  induction f as [|f IH]; intros p r acc b f' H1 H2; [lia|].
  cbn [drain].
  pose proof (step_shrinks p r) as HS.
  destruct (step p r) as [|p' r'|m r'|k] eqn:E.
  - cbn [continue]. apply drain_fuel; lia.
  - specialize (HS _ eq_refl).
    destruct (partial p r) eqn:P.
    + rewrite (step_partial _ _ P) in E. inversion E; subst p' r'.
      destruct f as [|f]; [lia|]. cbn [drain].
      rewrite (step_after_partial _ _ _ P). cbn [continue app].
      apply body_split; assumption.
    + destruct f' as [|f']; [lia|]. cbn [drain].
      rewrite step_app by (congruence || assumption). rewrite E. cbn [out_app].
      rewrite app_length in H2.
      apply IH; [lia|rewrite app_length; lia].
  - specialize (HS _ eq_refl).
    destruct (partial p r) eqn:P.
    + rewrite (step_partial _ _ P) in E. discriminate.
    + destruct f' as [|f']; [lia|]. cbn [drain].
      rewrite step_app by (congruence || assumption). rewrite E. cbn [out_app].
      rewrite app_length in H2.
      apply IH; [lia|rewrite app_length; lia].
  - destruct (partial p r) eqn:P.
    + rewrite (step_partial _ _ P) in E. discriminate.
    + destruct f' as [|f']; [lia|]. cbn [drain].
      rewrite step_app by (congruence || assumption). rewrite E. reflexivity.
Qed.

(* ---- hfeed ---- *)

Definition then_feed (x : hstate * list msg) (b : bytes) : hstate * list msg :=
  let (s2, m2) := hfeed (fst x) b in (s2, snd x ++ m2).

Lemma hfeed_nil s : hfeed s [] = (s, []).
Proof. destruct s; reflexivity. Qed.

(* feeding a ++ b in one read = feeding a, then b: for ALL states and ALL a, b
   (Halt states are absorbing, so this holds without side conditions) *)
Lemma hfeed_app_total s a b : hfeed s (a ++ b) = then_feed (hfeed s a) b.
Proof.
  unfold then_feed.
  destruct a as [|x a].
  - rewrite hfeed_nil. cbn [app fst snd]. now destruct (hfeed s b).
  - destruct b as [|y b].
    + rewrite app_nil_r, hfeed_nil. destruct (hfeed s (x :: a)); cbn. now rewrite app_nil_r.
    + destruct s as [p r| |]; try reflexivity.
      cbn [hfeed nil_b app].
      change (x :: a ++ y :: b) with ((x :: a) ++ y :: b).
      rewrite (app_assoc r (x :: a) (y :: b)).
      rewrite (drain_app (S (length (r ++ x :: a))) p (r ++ x :: a) [] (y :: b)) by lia.
      destruct (drain (S (length (r ++ x :: a))) p (r ++ x :: a) []) as [s1 m1].
      cbn [fst snd]. destruct s1 as [p1 r1| |]; cbn [continue hfeed nil_b].
      * rewrite drain_acc. now destruct (drain _ p1 _ []).
      * now rewrite app_nil_r.
      * now rewrite app_nil_r.
Qed.

Lemma then_feed_clean x b : clean (then_feed x b) -> clean x.
Proof.
  unfold then_feed, clean. destruct x as [s ms]. cbn [fst snd].
  destruct s; cbn; auto.
Qed.

(* the statement of DESIGN.md: on a clean run of a ++ b, the run of a is clean
   too and splitting the read changes neither the messages nor the final state *)
Lemma hfeed_app_clean s a b :
  clean (hfeed s (a ++ b)) ->
  clean (hfeed s a) /\ hfeed s (a ++ b) = then_feed (hfeed s a) b.
Proof.
  intros H. rewrite hfeed_app_total in *. split; [|reflexivity].
  eapply then_feed_clean; eassumption.
Qed.

(* all segmentations at once *)
Lemma hfeeds_concat ds : forall s, hfeeds s ds = hfeed s (concat ds).
Proof.
  induction ds as [|d ds IH]; intros s; cbn [hfeeds concat].
  - now rewrite hfeed_nil.
  - rewrite hfeed_app_total. unfold then_feed.
    destruct (hfeed s d) as [s1 m1]. cbn [fst snd]. rewrite IH. reflexivity.
Qed.

Lemma hfeeds_segmentation s ds ds' :
  concat ds = concat ds' -> hfeeds s ds = hfeeds s ds'.
Proof. intros H. now rewrite !hfeeds_concat, H. Qed.

(* bytes that follow a complete message start the next message *)
Lemma hfeed_leftover_lem s a b ms :
  hfeed s a = (hinit, ms) ->
  hfeed s (a ++ b) = (fst (hfeed hinit b), ms ++ snd (hfeed hinit b)).
Proof.
  intros H. rewrite hfeed_app_total, H. unfold then_feed. cbn [fst snd].
  now destruct (hfeed hinit b).
Qed.

Lemma then_feed_eq x b :
  then_feed x b = (fst (hfeed (fst x) b), snd x ++ snd (hfeed (fst x) b)).
Proof. unfold then_feed. now destruct (hfeed (fst x) b). Qed.

Lemma hfeed_app_total_eq s a b :
  hfeed s (a ++ b)
  = (fst (hfeed (fst (hfeed s a)) b), snd (hfeed s a) ++ snd (hfeed (fst (hfeed s a)) b)).
Proof. rewrite hfeed_app_total. apply then_feed_eq. Qed.

Lemma hfeed_app_clean_eq s a b :
  clean (hfeed s (a ++ b)) ->
  clean (hfeed s a) /\
  hfeed s (a ++ b)
  = (fst (hfeed (fst (hfeed s a)) b), snd (hfeed s a) ++ snd (hfeed (fst (hfeed s a)) b)).
Proof.
  intros H. destruct (hfeed_app_clean s a b H) as [H1 H2]. split; [exact H1|].
  rewrite H2. apply then_feed_eq.
Qed.
