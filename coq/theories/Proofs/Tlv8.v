(* C16: TLVStruct encode/decode round trip, canonical form, packed id lists. *)
From Coq Require Import List NArith ZArith Arith Bool Lia ZifyN ZifyNat ZifyBool Permutation.
From AHK Require Import Lib.Res Lib.ByteStr Model.Tlv8 Proofs.Tlv8Iter.
Import ListNotations.

(* ---------- small list facts ---------- *)
Lemma mem_N_In x l : mem_N x l = true <-> In x l.
Proof.
  induction l as [|y r IH]; cbn [mem_N In].
  - split; [discriminate|tauto].
  - destruct (N.eqb_spec x y).
    + subst. tauto.
    + rewrite IH. split; [tauto|]. intros [H|H]; [congruence|exact H].
Qed.

Lemma mem_N_false x l : mem_N x l = false <-> ~ In x l.
Proof. rewrite <- mem_N_In. destruct (mem_N x l); split; congruence. Qed.

Lemma nodup_b_NoDup l : nodup_b l = true <-> NoDup l.
Proof.
  induction l as [|x r IH]; cbn [nodup_b].
  - split; [constructor|reflexivity].
  - rewrite andb_true_iff, negb_true_iff, mem_N_false, IH. split.
    + intros [H1 H2]. now constructor.
    + intros H. inversion H; subst. tauto.
Qed.

Lemma NoDup_no_adj l : NoDup l -> no_adj l.
Proof.
  induction 1 as [|x r Hx _ IH]; [exact I|].
  cbn [no_adj]. split; [|exact IH]. destruct r as [|y r]; [exact I|].
  intros ->. apply Hx. now left.
Qed.

Lemma assoc_last_notin {A} k (l : list (N * A)) : ~ In k (map fst l) -> assoc_last k l = None.
Proof.
  induction l as [|[k' x] r IH]; intros H; [reflexivity|].
  cbn [assoc_last]. cbn [map fst In] in H. rewrite IH by tauto.
  destruct (N.eqb_spec k' k); [exfalso; tauto|reflexivity].
Qed.

Lemma assoc_last_app {A} k (a b : list (N * A)) :
  assoc_last k (a ++ b) = match assoc_last k b with Some y => Some y | None => assoc_last k a end.
Proof.
  induction a as [|[k' x] r IH]; cbn [app assoc_last].
  - destruct (assoc_last k b); reflexivity.
  - rewrite IH. destruct (assoc_last k b); reflexivity.
Qed.

Lemma assoc_last_nodup {A} k (x : A) l : NoDup (map fst l) -> In (k, x) l -> assoc_last k l = Some x.
Proof.
  induction l as [|[k' x'] r IH]; intros Hn Hin; [destruct Hin|].
  cbn [map fst] in Hn. inversion Hn as [|? ? Hk Hr]; subst.
  cbn [assoc_last]. destruct Hin as [E|Hin].
  - injection E as -> ->. rewrite assoc_last_notin by exact Hk. now rewrite N.eqb_refl.
  - now rewrite (IH Hr Hin).
Qed.

(* ---------- scalars; the packed id array of the SPECIFICATION side ---------- *)
Lemma iwidth_pos k : 0 < iwidth k.
Proof. destruct k; cbn; lia. Qed.

Lemma ienc_length k x : length (ienc k x) = iwidth k.
Proof. destruct k; cbn [ienc iwidth]; first [apply le_enc_length|apply be_enc_length]. Qed.

Lemma ienc_nonnil k x : ienc k x <> [].
Proof.
  intros H. apply (f_equal (@length N)) in H. rewrite ienc_length in H.
  pose proof (iwidth_pos k). cbn in H. lia.
Qed.

Lemma idec_ienc k x : irange k x = true -> idec k (ienc k x) = x.
Proof.
  unfold irange. intros H. apply N.ltb_lt in H.
  destruct k; cbn [ienc idec iwidth] in *; first [now apply le_dec_enc|now apply be_dec_enc].
Qed.

Lemma ienc_bytes k x : all_bytes (ienc k x) = true.
Proof.
  unfold all_bytes. destruct k; cbn [ienc]; try apply le_enc_bytes.
  unfold be_enc. rewrite forallb_forall. intros b Hb. apply in_rev in Hb.
  pose proof (le_enc_bytes 2 x) as H. rewrite forallb_forall in H. now apply H.
Qed.

Lemma spec_pack_ok k : forall l, forallb (irange k) l = true -> spec_pack k l = Ok (concat (map (ienc k) l)).
Proof.
  induction l as [|x r IH]; intros H; [reflexivity|].
  cbn [forallb] in H. apply andb_true_iff in H. destruct H as [H1 H2].
  cbn [spec_pack map concat]. now rewrite H1, (IH H2).
Qed.

Lemma spec_pack_spec k : forall l e, spec_pack k l = Ok e -> e = concat (map (ienc k) l).
Proof.
  induction l as [|x r IH]; intros e H.
  - cbn in H. now injection H as <-.
  - cbn [spec_pack] in H. destruct (irange k x); [|discriminate].
    destruct (spec_pack k r) as [t| | |]; cbn [rbind] in H; try discriminate.
    injection H as <-. cbn [map concat]. now rewrite (IH t eq_refl).
Qed.

Lemma spec_unpack_f_pack k : forall l fuel,
    length l <= fuel -> forallb (irange k) l = true ->
    spec_unpack_f fuel k (concat (map (ienc k) l)) = l.
Proof.
  induction l as [|x r IH]; intros fuel Hf H.
  - cbn [map concat]. destruct fuel; [reflexivity|]. cbn [spec_unpack_f length].
    pose proof (iwidth_pos k). destruct (0 <? iwidth k) eqn:E; [reflexivity|lia].
  - destruct fuel as [|fuel]; [cbn in Hf; lia|].
    cbn [forallb] in H. apply andb_true_iff in H. destruct H as [H1 H2].
    cbn [map concat spec_unpack_f]. rewrite app_length, ienc_length.
    destruct (iwidth k + length (concat (map (ienc k) r)) <? iwidth k) eqn:E; [lia|].
    rewrite (t8_firstn_app_len _ _ _ (ienc_length k x)), (t8_skipn_app_len _ _ _ (ienc_length k x)).
    rewrite idec_ienc by exact H1. f_equal. apply IH; [cbn in Hf; lia|exact H2].
Qed.

Lemma concat_ienc_length k l : length (concat (map (ienc k) l)) = length l * iwidth k.
Proof.
  induction l as [|x r IH]; [reflexivity|].
  cbn [map concat length]. rewrite app_length, ienc_length, IH. lia.
Qed.

Theorem spec_unpack_pack k l : forallb (irange k) l = true -> spec_unpack k (concat (map (ienc k) l)) = l.
Proof.
  intros H. unfold spec_unpack. apply spec_unpack_f_pack; [|exact H].
  rewrite concat_ienc_length. pose proof (iwidth_pos k). nia.
Qed.

(* every byte string that is a whole number of little-endian u16 is the packing of
   the ids it decodes to: no byte value is special (0x00 in particular) *)
Theorem pack_unpack_u16 : forall b fuel,
    all_bytes b = true -> Nat.even (length b) = true -> length b <= fuel ->
    concat (map (ienc U16) (spec_unpack_f fuel U16 b)) = b.
Proof.
  intros b fuel. revert b. induction fuel as [|fuel IH]; intros b Hb He Hf.
  - destruct b; [reflexivity|cbn in Hf; lia].
  - destruct b as [|lo [|hi r]]; [reflexivity|cbn in He; discriminate|].
    cbn [spec_unpack_f length iwidth]. cbn [Nat.ltb Nat.leb].
    cbn [firstn skipn map concat idec ienc iwidth].
    unfold all_bytes in *. cbn [forallb] in Hb.
    apply andb_true_iff in Hb. destruct Hb as [Hlo Hb]. apply andb_true_iff in Hb. destruct Hb as [Hhi Hr].
    rewrite IH; [|exact Hr|exact He|cbn [length] in Hf; lia].
    pose proof (le_enc_dec [lo; hi]) as E. cbn [length forallb] in E.
    rewrite Hlo, Hhi in E. rewrite (E eq_refl). reflexivity.
Qed.

(* ---------- the fields of a struct ---------- *)
Fixpoint setf (fs : fields) (vs : svals) : list (N * ty * val) :=
  match fs, vs with
  | (tag, ft) :: fr, Some v :: vr => (tag, ft, v) :: setf fr vr
  | _ :: fr, None :: vr => setf fr vr
  | _, _ => []
  end.
Definition s_tag (x : N * ty * val) : N := fst (fst x).
Definition kv_of (S : list (N * ty * val)) : list (N * val) := map (fun x => (s_tag x, snd x)) S.

Lemma setf_in fs : forall vs x, In x (setf fs vs) -> In (fst x) fs.
Proof.
  induction fs as [|[tag ft] fr IH]; intros vs x H; [destruct vs; destruct H|].
  destruct vs as [|[v|] vr]; cbn [setf] in H; [destruct H| |].
  - destruct H as [<-|H]; [now left|]. right. eapply IH; eassumption.
  - right. eapply IH; eassumption.
Qed.

Lemma setf_tags_in fs vs k : In k (map s_tag (setf fs vs)) -> In k (map fst fs).
Proof.
  rewrite !in_map_iff. intros [x [<- Hx]]. exists (fst x). split; [reflexivity|]. eapply setf_in; eassumption.
Qed.

Lemma setf_nodup fs : forall vs, NoDup (map fst fs) -> NoDup (map s_tag (setf fs vs)).
Proof.
  induction fs as [|[tag ft] fr IH]; intros vs Hn; [destruct vs; constructor|].
  cbn [map fst] in Hn. inversion Hn as [|? ? Hk Hr]; subst.
  destruct vs as [|[v|] vr]; cbn [setf map]; [constructor| |now apply IH].
  constructor; [|now apply IH]. intros Hin. apply Hk. eapply setf_tags_in; eassumption.
Qed.

Lemma kv_of_keys S : map fst (kv_of S) = map s_tag S.
Proof. unfold kv_of. rewrite map_map. reflexivity. Qed.

Lemma kv_of_cons k ft v S : kv_of ((k, ft, v) :: S) = (k, v) :: kv_of S.
Proof. reflexivity. Qed.

Lemma fits_fields_length fr fs : forall vs, fits_fields fr fs vs = true -> length vs = length fs.
Proof.
  induction fs as [|[tag ft] r IH]; intros vs H; destruct vs as [|o vr]; cbn [fits_fields] in H; try discriminate; [reflexivity|].
  cbn [length]. f_equal. destruct o; [apply andb_true_iff in H; destruct H as [_ H]|]; now apply IH.
Qed.

Lemma build_ok : forall fs vs pre,
    NoDup (map fst fs) -> length vs = length fs ->
    (forall k, In k (map fst pre) -> ~ In k (map fst fs)) ->
    build fs (pre ++ kv_of (setf fs vs)) = vs.
Proof.
  induction fs as [|[k ft] r IH]; intros vs pre Hn Hl Hpre.
  - destruct vs; [reflexivity|discriminate].
  - destruct vs as [|o vr]; [discriminate|]. cbn [length] in Hl. injection Hl as Hl.
    cbn [map fst] in Hn. inversion Hn as [|? ? Hk Hr]; subst.
    cbn [build]. apply mem_N_false in Hk as Hm. rewrite Hm.
    assert (Hkeys : ~ In k (map fst (kv_of (setf r vr)))).
    { rewrite kv_of_keys. intros H. apply Hk. eapply setf_tags_in; eassumption. }
    assert (Hkpre : ~ In k (map fst pre)).
    { intros H. apply (Hpre k H). now left. }
    destruct o as [v|]; cbn [setf].
    + rewrite kv_of_cons. f_equal.
      * rewrite assoc_last_app. cbn [assoc_last]. rewrite (assoc_last_notin k _ Hkeys), N.eqb_refl. reflexivity.
      * replace (pre ++ (k, v) :: kv_of (setf r vr)) with ((pre ++ [(k, v)]) ++ kv_of (setf r vr))
          by (rewrite <- app_assoc; reflexivity).
        apply IH; [exact Hr|exact Hl|].
        intros k' Hin. rewrite map_app, in_app_iff in Hin. destruct Hin as [Hin|Hin].
        -- intros H. apply (Hpre k' Hin). now right.
        -- cbn in Hin. destruct Hin as [<-|[]]. exact Hk.
    + f_equal.
      * rewrite assoc_last_app, (assoc_last_notin k _ Hkeys). now apply assoc_last_notin.
      * apply IH; [exact Hr|exact Hl|].
        intros k' Hin H. apply (Hpre k' Hin). now right.
Qed.

Section Main.
  Variable F : nat.
  Hypothesis Fpos : 0 < F.

  (* ---------- one struct level, relative to (de)serialisers of the field types ---------- *)
  Section Level.
    Variable er : ty -> val -> R bytes.
    Variable dr : ty -> bytes -> R val.
    Variable wr : ty -> bool.
    Variable fr : ty -> val -> bool.
    Hypothesis Hrec : forall t v, wr t = true -> fr t v = true ->
                                  exists e, er t v = Ok e /\ e <> [] /\ dr t e = Ok v.

    Definition rel (x : N * ty * val) (p : N * bytes) : Prop :=
      fst p = s_tag x /\ snd p <> [] /\ dr (snd (fst x)) (snd p) = Ok (snd x).

    Lemma enc_fields_render : forall fs vs,
        Forall (fun p => wr (snd p) = true) fs -> fits_fields fr fs vs = true ->
        exists L, enc_fields F er fs vs = Ok (render F L) /\ Forall2 rel (setf fs vs) L.
    Proof.
      induction fs as [|[tag ft] r IH]; intros vs Hw Hf.
      - destruct vs; [|discriminate]. exists []. split; [reflexivity|constructor].
      - destruct vs as [|o vr]; [discriminate|]. inversion Hw as [|? ? Hw1 Hw2]; subst. cbn [snd] in Hw1.
        cbn [fits_fields] in Hf. destruct o as [v|].
        + apply andb_true_iff in Hf. destruct Hf as [Hf1 Hf2].
          destruct (IH vr Hw2 Hf2) as [L [HL HR]].
          destruct (Hrec ft v Hw1 Hf1) as [e [He [Hne Hd]]].
          exists ((tag, e) :: L). split.
          * cbn [enc_fields]. rewrite He. cbn [rbind]. rewrite HL. cbn [rbind]. reflexivity.
          * cbn [setf]. constructor; [|exact HR]. unfold rel, s_tag. cbn [fst snd]. auto.
        + destruct (IH vr Hw2 Hf) as [L [HL HR]]. exists L. split; [exact HL|exact HR].
    Qed.

    Lemma rel_tags S L : Forall2 rel S L -> map fst L = map s_tag S.
    Proof. induction 1 as [|x p S L [H _] _ IH]; [reflexivity|]. cbn [map]. now rewrite H, IH. Qed.

    Lemma rel_nonempty S L : Forall2 rel S L -> Forall nonempty L.
    Proof. induction 1 as [|x p S L [_ [H _]] _ IH]; constructor; assumption. Qed.

    Lemma dec_items_ok fs : NoDup (map fst fs) -> forall S L,
        Forall2 rel S L -> (forall x, In x S -> In (fst x) fs) ->
        map_res (dec_item dr fs) L = Ok (kv_of S).
    Proof.
      intros Hn. induction 1 as [|x p S L [H1 [_ H3]] _ IH]; intros Hin; [reflexivity|].
      cbn [map_res]. unfold dec_item at 1, ftype_last.
      assert (Hx : In (fst x) fs) by (apply Hin; now left).
      destruct x as [[tag ft] v]. unfold s_tag in H1. cbn [fst snd] in *.
      rewrite H1, (assoc_last_nodup tag ft fs Hn Hx). rewrite H3. cbn [rbind].
      rewrite IH by (intros y Hy; apply Hin; now right). cbn [rbind].
      unfold kv_of. cbn [map]. unfold s_tag. cbn [fst snd]. reflexivity.
    Qed.

    (* a struct: encodes to the rendering of its set fields, and decodes back *)
    Lemma struct_roundtrip fs vs :
      wf_fields wr fs = true -> fits_fields fr fs vs = true ->
      exists L, enc_fields F er fs vs = Ok (render F L)
        /\ Forall nonempty L /\ NoDup (map fst L)
        /\ (forall k, In k (map fst L) -> In k (map fst fs))
        /\ (any_set vs = true -> L <> [])
        /\ dec_struct F dr fs (render F L) = Ok vs.
    Proof.
      intros Hw Hf. unfold wf_fields in Hw. apply andb_true_iff in Hw. destruct Hw as [Hnd Hall].
      apply nodup_b_NoDup in Hnd.
      assert (Hw : Forall (fun p => wr (snd p) = true) fs).
      { rewrite forallb_forall in Hall. apply Forall_forall. intros p Hp.
        specialize (Hall p Hp). apply andb_true_iff in Hall. tauto. }
      destruct (enc_fields_render fs vs Hw Hf) as [L [HL HR]].
      exists L. split; [exact HL|].
      pose proof (rel_tags _ _ HR) as Htags. pose proof (rel_nonempty _ _ HR) as Hne.
      assert (HndL : NoDup (map fst L)) by (rewrite Htags; now apply setf_nodup).
      split; [exact Hne|]. split; [exact HndL|]. split.
      { intros k Hk. rewrite Htags in Hk. eapply setf_tags_in; eassumption. }
      split.
      { intros Hany HLnil. subst L. inversion HR as [Hs|]. clear - Hany Hs Hf.
        revert vs Hany Hs Hf. induction fs as [|[tag ft] r IH]; intros vs Hany Hs Hf.
        - destruct vs; [discriminate|discriminate].
        - destruct vs as [|[v|] vr]; [discriminate|discriminate|].
          cbn [any_set existsb is_set orb] in Hany. cbn [setf] in Hs. cbn [fits_fields] in Hf.
          eapply IH; eauto. }
      unfold dec_struct. rewrite (items_of_render F Fpos L Hne (NoDup_no_adj _ HndL)).
      rewrite (dec_items_ok fs Hnd _ _ HR (setf_in fs vs)). cbn [rbind finish].
      f_equal. apply (build_ok fs vs []); [exact Hnd|eapply fits_fields_length; eassumption|].
      intros k [].
    Qed.


    (* ---------- a list of structs ---------- *)
    Definition elem_fits (fs : fields) (vs : svals) : bool := fits_fields fr fs vs && any_set vs.

    Lemma join_nonnil (x : bytes) r : x <> [] -> join [0%N; 0%N] (x :: r) <> [].
    Proof. intros H. destruct r; cbn [join]; [exact H|]. now apply app_nonnil_l. Qed.

    Lemma enc_seq_join fs :
      wf_fields wr fs = true -> mem_N 0 (map fst fs) = false ->
      forall l first, l <> [] -> forallb (elem_fits fs) l = true ->
      exists Ls, enc_seq F er fs l first =
                   Ok ((if first then [] else [0%N; 0%N]) ++ join [0%N; 0%N] (map (render F) Ls))
        /\ Forall elem_ok Ls /\ Ls <> []
        /\ Forall2 (fun vs L => dec_struct F dr fs (render F L) = Ok vs) l Ls.
    Proof.
      intros Hw H0. induction l as [|vs r IH]; intros first Hne Hall; [contradiction|].
      cbn [forallb] in Hall. apply andb_true_iff in Hall. destruct Hall as [Hvs Hr].
      unfold elem_fits in Hvs. apply andb_true_iff in Hvs. destruct Hvs as [Hf Hany].
      destruct (struct_roundtrip fs vs Hw Hf) as [L [HL [Hnon [Hnd [Hincl [HLne Hdec]]]]]].
      assert (Hok : elem_ok L).
      { split; [exact Hnon|]. split; [|split; [now apply NoDup_no_adj|now apply HLne]].
        apply Forall_forall. intros p Hp Hz. apply mem_N_false in H0. apply H0.
        apply Hincl. rewrite <- Hz. now apply in_map. }
      cbn [enc_seq]. rewrite HL. cbn [rbind].
      destruct r as [|vs2 r'].
      - exists [L]. cbn [enc_seq rbind map join]. rewrite app_nil_r.
        split; [reflexivity|]. split; [now constructor|]. split; [discriminate|]. now constructor.
      - destruct (IH false ltac:(discriminate) Hr) as [Ls' [He [Hoks [Hne' Hd]]]].
        rewrite He. cbn [rbind]. exists (L :: Ls').
        split.
        + destruct Ls' as [|L2 Ls'']; [contradiction|]. cbn [map]. rewrite join_cons2. reflexivity.
        + split; [now constructor|]. split; [discriminate|]. now constructor.
    Qed.

    Lemma map_res_forall2 {A B} (f : A -> R B) : forall (ys : list B) (xs : list A),
        Forall2 (fun y x => f x = Ok y) ys xs -> map_res f xs = Ok ys.
    Proof.
      induction 1 as [|y x ys xs H _ IH]; [reflexivity|].
      cbn [map_res]. rewrite H. cbn [rbind]. rewrite IH. reflexivity.
    Qed.

    Lemma seq_roundtrip fs l :
      wf_fields wr fs = true -> mem_N 0 (map fst fs) = false ->
      l <> [] -> forallb (elem_fits fs) l = true ->
      exists e, enc_seq F er fs l true = Ok e /\ e <> [] /\ dec_seq F dr fs e = Ok l.
    Proof.
      intros Hw H0 Hne Hall.
      destruct (enc_seq_join fs Hw H0 l true Hne Hall) as [Ls [He [Hoks [HLs Hd]]]].
      cbn [app] in He. eexists. split; [exact He|]. split.
      - destruct Ls as [|L Ls]; [contradiction|]. cbn [map]. apply join_nonnil.
        inversion Hoks as [|? ? [Hn [_ [_ HL]]] _]; subst. now apply render_nonnil.
      - unfold dec_seq. rewrite (tlv_array_join F Fpos Ls Hoks HLs).
        rewrite (map_res_forall2 (dec_struct F dr fs) l (map (render F) Ls)).
        + reflexivity.
        + clear - Hd. induction Hd; cbn [map]; constructor; assumption.
    Qed.
  End Level.

  (* ---------- every nesting depth ---------- *)
  Lemma roundtrip_n : forall n t v,
      wf n t = true -> fits n t v = true ->
      exists e, enc F n t v = Ok e /\ e <> [] /\ dec F n t e = Ok v.
  Proof.
    induction n as [|n IH]; intros t v Hw Hf; [discriminate|].
    destruct t as [k|ms| | |fs|fs|k|]; destruct v as [x|b|vs|l|ids]; cbn [fits] in Hf; try discriminate.
    - (* int *) cbn [enc dec]. rewrite Hf. eexists. split; [reflexivity|]. split; [apply ienc_nonnil|].
      now rewrite idec_ienc.
    - (* enum *) apply andb_true_iff in Hf. destruct Hf as [Hm Hx].
      cbn [enc dec]. rewrite Hx. eexists. split; [reflexivity|]. split; [discriminate|].
      cbn [le_dec]. replace (x + 256 * 0)%N with x by lia. now rewrite Hm.
    - (* str *) apply andb_true_iff in Hf. destruct Hf as [Hn Hu].
      cbn [enc dec]. eexists. split; [reflexivity|]. split; [destruct b; [discriminate|discriminate]|].
      now rewrite Hu.
    - (* bytes *) cbn [enc dec]. eexists. split; [reflexivity|]. split; [destruct b; [discriminate|discriminate]|reflexivity].
    - (* struct *) apply andb_true_iff in Hf. destruct Hf as [Hff Hany]. cbn [wf] in Hw.
      destruct (struct_roundtrip (enc F n) (dec F n) (wf n) (fits n) IH fs vs Hw Hff)
        as [L [HL [Hnon [_ [_ [HLne Hdec]]]]]].
      cbn [enc dec]. rewrite HL. eexists. split; [reflexivity|]. split.
      + apply render_nonnil; [exact Hnon|now apply HLne].
      + rewrite Hdec. reflexivity.
    - (* seq of struct *) apply andb_true_iff in Hf. destruct Hf as [Hne Hall]. cbn [wf] in Hw.
      apply andb_true_iff in Hw. destruct Hw as [Hw H0]. apply negb_true_iff in H0.
      destruct (seq_roundtrip (enc F n) (dec F n) (wf n) (fits n) IH fs l Hw H0) as [e [He [Hen Hd]]].
      + destruct l; [discriminate|discriminate].
      + exact Hall.
      + cbn [enc dec]. rewrite He. exists e. split; [reflexivity|]. split; [exact Hen|]. now rewrite Hd.
  Qed.

  (* a whole message: additionally the all-unset message (empty byte string) *)
  Lemma roundtrip_top : forall n t v,
      wf n t = true -> fits_top n t v = true ->
      exists e, enc F n t v = Ok e /\ dec F n t e = Ok v.
  Proof.
    intros n t v Hw Hf.
    assert (Hgen : fits n t v = true -> exists e, enc F n t v = Ok e /\ dec F n t e = Ok v).
    { intros H. destruct (roundtrip_n n t v Hw H) as [e [H1 [_ H2]]]. eauto. }
    destruct n as [|n]; [discriminate|].
    destruct t as [k|ms| | |fs|fs|k|]; try (apply Hgen; exact Hf).
    destruct v as [x|b|vs|l|ids]; try (apply Hgen; exact Hf).
    cbn [fits_top] in Hf. cbn [wf] in Hw.
    destruct (struct_roundtrip (enc F n) (dec F n) (wf n) (fits n) (roundtrip_n n) fs vs Hw Hf)
      as [L [HL [_ [_ [_ [_ Hdec]]]]]].
    cbn [enc dec]. rewrite HL. eexists. split; [reflexivity|]. now rewrite Hdec.
  Qed.

  (* ---------- canonical form: enc = the textbook encoder ---------- *)
  Lemma chunks_f_nil8 fc : chunks_f fc F [] = [].
  Proof. destruct fc; reflexivity. Qed.

  Lemma frags_chunks tag : forall fe fc e,
      length e <= fe -> length e <= fc ->
      frags F fe tag e = concat (map (fun c => tag :: N.of_nat (length c) :: c) (chunks_f fc F e)).
  Proof.
    induction fe as [|fe IH]; intros fc e Hfe Hfc.
    - destruct e; [|cbn in Hfe; lia]. now rewrite chunks_f_nil8.
    - destruct e as [|b e]; [now rewrite frags_nil, chunks_f_nil8|].
      destruct fc as [|fc]; [cbn in Hfc; lia|].
      rewrite frags_cons. cbn [chunks_f map concat]. cbn [app]. f_equal. f_equal. f_equal.
      apply IH; rewrite skipn_length; cbn [length] in *; lia.
  Qed.

  Lemma emit_spec tag e : emit F tag e = spec_item F tag e.
  Proof. unfold emit, spec_item, chunks. now apply frags_chunks. Qed.

  Section CanonLevel.
    Variable er : ty -> val -> R bytes.
    Variable sr : ty -> val -> bytes.
    Hypothesis Hcan : forall t v e, er t v = Ok e -> e = sr t v.

    Lemma enc_fields_spec : forall fs vs e,
        enc_fields F er fs vs = Ok e -> e = spec_fields F sr fs vs.
    Proof.
      induction fs as [|[tag ft] r IH]; intros vs e H.
      - destruct vs; cbn in H; [|discriminate]. now injection H as <-.
      - destruct vs as [|o vr]; [discriminate|]. cbn [enc_fields] in H.
        unfold spec_fields. cbn [combine map concat]. fold (spec_fields F sr r vr).
        destruct o as [v|].
        + destruct (er ft v) as [e1| | |] eqn:E1; cbn [rbind] in H; try discriminate.
          destruct (enc_fields F er r vr) as [e2| | |] eqn:E2; cbn [rbind] in H; try discriminate.
          injection H as <-. unfold spec_field. cbn [fst snd].
          now rewrite emit_spec, (Hcan _ _ _ E1), (IH _ _ E2).
        + unfold spec_field at 1. cbn [snd app]. now apply IH.
    Qed.

    Lemma enc_seq_spec fs : forall l first e,
        enc_seq F er fs l first = Ok e ->
        e = match l with
            | [] => []
            | _ => (if first then [] else [0%N; 0%N]) ++ join [0%N; 0%N] (map (spec_fields F sr fs) l)
            end.
    Proof.
      induction l as [|vs r IH]; intros first e H.
      - cbn in H. now injection H as <-.
      - cbn [enc_seq] in H.
        destruct (enc_fields F er fs vs) as [e1| | |] eqn:E1; cbn [rbind] in H; try discriminate.
        destruct (enc_seq F er fs r false) as [e2| | |] eqn:E2; cbn [rbind] in H; try discriminate.
        injection H as <-. rewrite (enc_fields_spec _ _ _ E1), (IH false e2 E2).
        destruct r as [|vs2 r']; [cbn [map join]; now rewrite app_nil_r|].
        cbn [map]. rewrite join_cons2. reflexivity.
    Qed.
  End CanonLevel.

  Lemma canonical_n : forall n t v e, enc F n t v = Ok e -> e = spec F n t v.
  Proof.
    induction n as [|n IH]; intros t v e H; [discriminate|].
    destruct t as [k|ms| | |fs|fs|k|]; destruct v as [x|b|vs|l|ids]; cbn [enc] in H; try discriminate; cbn [spec].
    - destruct (irange k x); [|discriminate]. now injection H as <-.
    - destruct (N.ltb x 256); [|discriminate]. now injection H as <-.
    - now injection H as <-.
    - now injection H as <-.
    - now apply (enc_fields_spec (enc F n) (spec F n) IH).
    - apply (enc_seq_spec (enc F n) (spec F n) IH) in H. destruct l; [exact H|]. exact H.
    - destruct ids; [now injection H as <-|discriminate].
  Qed.
End Main.

(* ---------- the depth fuel of [wf_schema] is sufficient ---------- *)
Definition fields_depth (fs : fields) : nat :=
  fold_right (fun p m => Nat.max (ty_depth (snd p)) m) 0 fs.

Lemma fields_depth_in fs p : In p fs -> ty_depth (snd p) <= fields_depth fs.
Proof.
  induction fs as [|q r IH]; intros H; [destruct H|].
  cbn [fields_depth fold_right]. fold (fields_depth r). destruct H as [->|H]; [lia|].
  specialize (IH H). lia.
Qed.

Lemma wf_fields_ext f g fs :
  (forall p, In p fs -> f (snd p) = g (snd p)) -> wf_fields f fs = wf_fields g fs.
Proof.
  intros H. unfold wf_fields. f_equal.
  induction fs as [|q r IH]; [reflexivity|]. cbn [forallb].
  rewrite (H q (or_introl eq_refl)), IH; [reflexivity|]. intros p Hp. apply H. now right.
Qed.

Lemma wf_fuel_irrelevant : forall n m t,
    ty_depth t < n -> ty_depth t < m -> wf n t = wf m t.
Proof.
  induction n as [|n IH]; intros m t Hn Hm; [lia|]. destruct m as [|m]; [lia|].
  destruct t as [k|ms| | |fs|fs|k|]; try reflexivity; cbn [wf]; cbn [ty_depth] in Hn, Hm;
    fold (fields_depth fs) in Hn, Hm.
  - apply wf_fields_ext. intros p Hp. pose proof (fields_depth_in fs p Hp). apply IH; lia.
  - f_equal. apply wf_fields_ext. intros p Hp. pose proof (fields_depth_in fs p Hp). apply IH; lia.
Qed.

Lemma wf_fields_mono (f g : ty -> bool) fs :
  (forall t, f t = true -> g t = true) -> wf_fields f fs = true -> wf_fields g fs = true.
Proof.
  intros H. unfold wf_fields. rewrite !andb_true_iff. intros [H1 H2]. split; [exact H1|].
  rewrite forallb_forall in *. intros p Hp. specialize (H2 p Hp).
  apply andb_true_iff in H2. destruct H2 as [Ha Hb]. now rewrite Ha, (H _ Hb).
Qed.

Lemma wf_mono_S : forall n t, wf n t = true -> wf (S n) t = true.
Proof.
  induction n as [|n IH]; intros t H; [discriminate|].
  destruct t as [k|ms| | |fs|fs|k|]; try reflexivity; cbn [wf] in *.
  - now apply (wf_fields_mono (wf n) (wf (S n)) fs IH).
  - apply andb_true_iff in H. destruct H as [H H0]. rewrite H0, andb_true_r.
    now apply (wf_fields_mono (wf n) (wf (S n)) fs IH).
Qed.

Lemma wf_mono n m t : n <= m -> wf n t = true -> wf m t = true.
Proof. induction 1 as [|m _ IH]; [auto|]. intros H. apply wf_mono_S. now apply IH. Qed.

(* the fuel [wf_schema] uses is enough: it accepts exactly the schemas accepted at some depth *)
Theorem wf_schema_iff t : wf_schema t = true <-> exists n, wf n t = true.
Proof.
  unfold wf_schema, fuel_of. split; [eauto|]. intros [n H].
  apply (wf_mono n (Nat.max n (S (ty_depth t)))) in H; [|lia].
  rewrite <- H. apply wf_fuel_irrelevant; lia.
Qed.

(* ---------- outside wf_schema the round trip fails: duplicate item types (Meshcop 128/129) ---------- *)
Lemma dup_tags_refuted :
  exists t v e, wf_schema t = false /\ fits_msg t v = true /\
                tlv8_encode t v = Ok e /\ tlv8_decode t e <> Ok v.
Proof.
  exists (TStruct [(128%N, TBytes); (128%N, TBytes)]), (VStruct [Some (VB [1%N]); None]), [128%N; 1%N; 1%N].
  split; [vm_compute; reflexivity|]. split; [vm_compute; reflexivity|]. split; [vm_compute; reflexivity|].
  vm_compute. discriminate.
Qed.

(* ---------- Sequence[u16] (linked services): the current code against the packed-array spec ---------- *)
(* known finding.  The wire form of n ids is [concat (map (ienc U16) l)] (spec side); the
   code decodes it through tlv_array.  Witnesses, all replayed on the implementation:
     [256]     = 00 01        -> [0]          (zero low byte is taken for a list separator)
     [16; 32]  = 10 00 20 00  -> [2097168]    (no separator found: one 4-byte integer)
     [256; 16] = 00 01 10 00  -> IndexError
   and encoding any non-empty list raises AttributeError. *)
Lemma sequ16_refuted_cases :
  tlv8_decode (TSeqInt U16) (concat (map (ienc U16) [256%N])) = Ok (VIds [0%N]) /\
  tlv8_decode (TSeqInt U16) (concat (map (ienc U16) [16%N; 32%N])) = Ok (VIds [2097168%N]) /\
  tlv8_decode (TSeqInt U16) (concat (map (ienc U16) [256%N; 16%N])) = Crash /\
  tlv8_encode (TSeqInt U16) (VIds [1%N]) = Err EAttr /\
  tlv8_decode (TStruct [(15%N, TInt U16); (16%N, TSeqInt U16)]) [15%N; 2%N; 7%N; 0%N; 16%N; 2%N; 0%N; 1%N]
    = Ok (VStruct [Some (VInt 7); Some (VIds [0%N])]).
Proof. repeat split; vm_compute; reflexivity. Qed.

Lemma sequ16_refuted :
  exists l, forallb (irange U16) l = true /\
            tlv8_decode (TSeqInt U16) (concat (map (ienc U16) l)) <> Ok (VIds l).
Proof. exists [256%N]. split; [reflexivity|]. vm_compute. discriminate. Qed.

(* the one sub-domain where the current decoder is right: a single id whose low byte
   is not zero (stated on the two wire bytes lo hi) *)
Lemma gather_empty_body F f t l v pre :
  gather F (S f) t l [] v pre =
  Ok {| y_tag := t; y_len := l; y_val := v; y_pre := pre; y_last := []; y_next := [] |}.
Proof.
  rewrite gather_eq. cbv zeta. rewrite firstn_nil, !skipn_nil.
  destruct (N.eqb l (N.of_nat F)); reflexivity.
Qed.

Lemma sequ16_single_id_ok lo hi :
  lo <> 0%N -> tlv8_decode (TSeqInt U16) [lo; hi] = Ok (VIds [(lo + 256 * (hi + 256 * 0))%N]).
Proof.
  intros Hlo. unfold tlv8_decode, fuel_of. cbn [ty_depth dec].
  assert (E : tlv_array 255 [lo; hi] = ([[lo; hi]], FinOk)).
  { unfold tlv_array. cbn [length]. rewrite arr_f_step by discriminate.
    cbn [step length]. rewrite gather_empty_body. cbn [y_tag y_pre y_last y_next y_len].
    destruct (N.eqb_spec lo 0); [contradiction|]. reflexivity. }
  rewrite E. reflexivity.
Qed.
