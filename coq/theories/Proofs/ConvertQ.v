From Coq Require Import List NArith ZArith Bool Lia ZifyN ZifyBool QArith Qabs Qpower Lqa.
From AHK Require Import Lib.Res Model.Convert Proofs.ConvertInt Proofs.ConvertDec Proofs.ConvertDiv.
Local Open Scope Q_scope.

Definition ten : Q := inject_Z 10.
Definition p10 (e : Z) : Q := ten ^ e.

Lemma ten_neq0 : ~ ten == 0.
Proof. unfold ten. intro H. discriminate H. Qed.

Lemma p10_pos : forall e, 0 < p10 e.
Proof. intro e. apply Qpower_0_lt. reflexivity. Qed.

Lemma p10_neq0 : forall e, ~ p10 e == 0.
Proof. intro e. assert (H := p10_pos e). intro E. rewrite E in H. discriminate H. Qed.

Lemma p10_add : forall a b, p10 (a + b) == p10 a * p10 b.
Proof. intros. apply Qpower_plus. apply ten_neq0. Qed.

Lemma p10_Z : forall n, (0 <= n)%Z -> inject_Z (10 ^ n) == p10 n.
Proof. intros n H. apply Zpower_Qpower. assumption. Qed.

Definition dval (d : dec) : Q := inject_Z (scoef d) * p10 (dexp d).

(* "x is the integer X at exponent e" *)
Definition at_exp (x : Q) (X e : Z) : Prop := x == inject_Z X * p10 e.

Lemma dval_sval : forall d e, (e <= dexp d)%Z -> at_exp (dval d) (sval d e) e.
Proof.
  intros d e H. unfold at_exp, dval, sval. rewrite inject_Z_mult.
  rewrite p10_Z by lia. rewrite <- Qmult_assoc. rewrite <- p10_add.
  replace (dexp d - e + e)%Z with (dexp d) by lia. reflexivity.
Qed.

Lemma at_exp_eq : forall x y X Y e, at_exp x X e -> at_exp y Y e -> (x == y <-> X = Y).
Proof.
  intros x y X Y e Hx Hy. unfold at_exp in *. rewrite Hx, Hy.
  rewrite Qmult_inj_r by apply p10_neq0. apply inject_Z_injective.
Qed.

Lemma at_exp_le : forall x y X Y e, at_exp x X e -> at_exp y Y e -> (x <= y <-> (X <= Y)%Z).
Proof.
  intros x y X Y e Hx Hy. unfold at_exp in *. rewrite Hx, Hy.
  rewrite Qmult_le_r by apply p10_pos. rewrite <- Zle_Qle. reflexivity.
Qed.

Lemma at_exp_lower : forall x X e e', at_exp x X e -> (e' <= e)%Z -> at_exp x (X * 10 ^ (e - e')) e'.
Proof.
  intros x X e e' H L. unfold at_exp in *. rewrite H. rewrite inject_Z_mult, p10_Z by lia.
  rewrite <- Qmult_assoc, <- p10_add. replace (e - e' + e')%Z with e by lia. reflexivity.
Qed.

Lemma Qabs_inject : forall z, Qabs (inject_Z z) == inject_Z (Z.abs z).
Proof. intro z. reflexivity. Qed.

Lemma at_exp_abs : forall x X e, at_exp x X e -> at_exp (Qabs x) (Z.abs X) e.
Proof.
  intros x X e H. unfold at_exp in *. rewrite H. rewrite Qabs_Qmult.
  rewrite (Qabs_pos (p10 e)) by (apply Qlt_le_weak, p10_pos). reflexivity.
Qed.

Lemma at_exp_sub : forall x y X Y e, at_exp x X e -> at_exp y Y e -> at_exp (y - x) (Y - X) e.
Proof.
  intros. unfold at_exp in *. rewrite H, H0. unfold Zminus. rewrite inject_Z_plus, inject_Z_opp. ring.
Qed.

Lemma at_exp_add : forall x y X Y e, at_exp x X e -> at_exp y Y e -> at_exp (x + y) (X + Y) e.
Proof.
  intros. unfold at_exp in *. rewrite H, H0. rewrite inject_Z_plus. ring.
Qed.

Definition eps6 : Q := 1 # 200000.
Definition near (x y : Q) : Prop := Qabs (y - x) <= eps6 * Qabs x.

Lemma near_Z : forall x y X Y e, at_exp x X e -> at_exp y Y e ->
  (200000 * Z.abs (Y - X) <= Z.abs X)%Z -> near x y.
Proof.
  intros x y X Y e Hx Hy H. unfold near.
  assert (A := at_exp_abs _ _ _ (at_exp_sub _ _ _ _ _ Hx Hy)).
  assert (B := at_exp_abs _ _ _ Hx).
  unfold at_exp in A, B. rewrite A, B. rewrite Qmult_assoc.
  apply Qmult_le_compat_r; [|apply Qlt_le_weak, p10_pos].
  unfold eps6, Qle, inject_Z, Qmult. cbn [Qnum Qden]. lia.
Qed.

(* representable with at most six significant digits *)
Definition rep6 (x : Q) : Prop := exists n e, (Z.abs n < 10 ^ 6)%Z /\ at_exp x n e.

Definition rnd6 (x y : Q) : Prop := near x y /\ (rep6 x -> y == x).

Lemma near_compat : forall x x' y y', x == x' -> y == y' -> near x y -> near x' y'.
Proof. intros x x' y y' Hx Hy H. unfold near in *. rewrite <- Hx, <- Hy. exact H. Qed.

Lemma rep6_compat : forall x x', x == x' -> rep6 x -> rep6 x'.
Proof. intros x x' Hx [n [e [Hn H]]]. exists n, e. split; [assumption|]. unfold at_exp in *. rewrite <- Hx. exact H. Qed.

Lemma rnd6_compat : forall x x' y y', x == x' -> y == y' -> rnd6 x y -> rnd6 x' y'.
Proof.
  intros x x' y y' Hx Hy [H1 H2]. split.
  - eapply near_compat; eassumption.
  - intro R. rewrite <- Hx, <- Hy. apply H2. eapply rep6_compat; [symmetry; eassumption|assumption].
Qed.

Lemma scoef_abs : forall d, Z.abs (scoef d) = Z.of_N (dcoef d).
Proof. intro d. unfold scoef. destruct (dneg d); lia. Qed.

Lemma ctx6_prec : (1 <= cprec ctx6)%N.
Proof. unfold ctx6. simpl. lia. Qed.

(* the value of a decimal as a signed coefficient at its own exponent *)
Lemma dval_at : forall d, at_exp (dval d) (scoef d) (dexp d).
Proof. intro d. unfold at_exp, dval. reflexivity. Qed.

Lemma dfix6_near : forall d, near (dval d) (dval (dfix ctx6 d)).
Proof.
  intro d. destruct (dfix_spec ctx6 d ctx6_prec) as [k [He [Hs [_ Hb]]]].
  set (D := dfix ctx6 d) in *.
  assert (HD : at_exp (dval D) (sval D (dexp d)) (dexp d)) by (apply dval_sval; lia).
  apply (near_Z _ _ _ _ _ (dval_at d) HD).
  unfold sval. rewrite He. replace (dexp d + Z.of_N k - dexp d)%Z with (Z.of_N k) by lia.
  rewrite scoef_abs. unfold scoef. rewrite Hs.
  change (2 * 10 ^ (Z.of_N (cprec ctx6) - 1))%Z with 200000%Z in Hb.
  destruct (dneg d).
  - replace (- Z.of_N (dcoef D) * 10 ^ Z.of_N k - - Z.of_N (dcoef d))%Z
      with (- (Z.of_N (dcoef D) * 10 ^ Z.of_N k - Z.of_N (dcoef d)))%Z by ring.
    rewrite Z.abs_opp. exact Hb.
  - exact Hb.
Qed.

(* a six-digit value has a coefficient of the form n * 10^t, n < 10^6 *)
Lemma rep6_coef : forall d, rep6 (dval d) ->
  exists n t, (dcoef d = n * 10 ^ t)%N /\ (n < 10 ^ 6)%N.
Proof.
  intros d [n [e [Hn H]]].
  destruct (Z_le_gt_dec (dexp d) e) as [L|G].
  - (* e >= dexp d: coefficient = |n| * 10^(e - dexp d) *)
    assert (H' := at_exp_lower _ _ _ (dexp d) H L).
    assert (E := proj1 (at_exp_eq _ _ _ _ _ (dval_at d) H') (Qeq_refl _)).
    exists (Z.to_N (Z.abs n)), (Z.to_N (e - dexp d)). split.
    + apply N2Z.inj. rewrite <- scoef_abs, E. rewrite Z.abs_mul.
      rewrite N2Z.inj_mul, N2Z.inj_pow, !Z2N.id by lia.
      rewrite (Z.abs_eq (10 ^ _)) by (apply Z.pow_nonneg; lia). reflexivity.
    + lia.
  - (* e < dexp d: coefficient * 10^(dexp d - e) = |n|, so the coefficient itself is small *)
    assert (H' := dval_sval d e ltac:(lia)).
    assert (E := proj1 (at_exp_eq _ _ _ _ _ H' H) (Qeq_refl _)).
    exists (dcoef d), 0%N. split; [simpl; lia|].
    unfold sval in E. assert (P := ConvertInt.p10_pos (dexp d - e) ltac:(lia)).
    assert (Z.of_N (dcoef d) <= Z.abs n)%Z.
    { rewrite <- E, Z.abs_mul, scoef_abs. nia. }
    lia.
Qed.

Lemma dfix6_exact : forall d, rep6 (dval d) -> dval (dfix ctx6 d) == dval d.
Proof.
  intros d R. destruct (rep6_coef d R) as [n [t [Hc Hn]]].
  destruct (dfix_exact ctx6 d n t ctx6_prec Hc Hn) as [k [He [Hs Hv]]].
  set (D := dfix ctx6 d) in *.
  assert (HD : at_exp (dval D) (sval D (dexp d)) (dexp d)) by (apply dval_sval; lia).
  apply (at_exp_eq _ _ _ _ _ HD (dval_at d)).
  unfold sval, scoef. rewrite He, Hs. replace (dexp d + Z.of_N k - dexp d)%Z with (Z.of_N k) by lia.
  assert (E : (Z.of_N (dcoef D) * 10 ^ Z.of_N k = Z.of_N (dcoef d))%Z).
  { rewrite <- Hv. rewrite N2Z.inj_mul. unfold pow10. rewrite N2Z.inj_pow. reflexivity. }
  destruct (dneg d); lia.
Qed.

Lemma dfix6_rnd : forall x d, x == dval d -> rnd6 x (dval (dfix ctx6 d)).
Proof.
  intros x d Hx. apply (rnd6_compat (dval d) x _ _ (Qeq_sym _ _ Hx) (Qeq_refl _)).
  split; [apply dfix6_near|apply dfix6_exact].
Qed.

(* ------------------------------------------------------------------ *)
(* add / sub / mul: exact result, then _fix                             *)
(* ------------------------------------------------------------------ *)

Lemma scoef_mk : forall z e, scoef (mkDec (z <? 0)%Z (Z.abs_N z) e) = z.
Proof. intros z e. unfold scoef. simpl. rewrite N2Z.inj_abs_N. destruct (z <? 0)%Z eqn:E; lia. Qed.

Lemma dval_add_exact : forall a b,
  let e := Z.min (dexp a) (dexp b) in
  let z := (sval a e + sval b e)%Z in
  forall neg, (z <> 0%Z -> neg = (z <? 0)%Z) ->
  dval (mkDec neg (Z.abs_N z) e) == dval a + dval b.
Proof.
  intros a b e z neg Hneg.
  assert (Ha := dval_sval a e ltac:(unfold e; lia)).
  assert (Hb := dval_sval b e ltac:(unfold e; lia)).
  assert (Hs := at_exp_add _ _ _ _ _ Ha Hb). fold z in Hs.
  unfold at_exp in Hs. rewrite Hs. unfold dval. cbn [dexp].
  apply Qmult_comp; [|reflexivity]. apply inject_Z_injective.
  destruct (Z.eq_dec z 0) as [Z0|NZ].
  - rewrite Z0. unfold scoef. simpl. destruct neg; reflexivity.
  - rewrite (Hneg NZ). apply scoef_mk.
Qed.

Lemma dadd6_rnd : forall a b, rnd6 (dval a + dval b) (dval (dadd ctx6 a b)).
Proof.
  intros a b. unfold dadd. apply dfix6_rnd. symmetry. apply dval_add_exact.
  intro NZ. apply Z.eqb_neq in NZ. rewrite NZ. reflexivity.
Qed.

Lemma dval_neg : forall d, dval (dneg_of d) == - dval d.
Proof.
  intro d. unfold dval, dneg_of, scoef. simpl. destruct (dneg d); simpl.
  - rewrite inject_Z_opp. ring.
  - rewrite inject_Z_opp. ring.
Qed.

Lemma dsub6_rnd : forall a b, rnd6 (dval a - dval b) (dval (dsub ctx6 a b)).
Proof.
  intros a b. unfold dsub.
  apply (rnd6_compat (dval a + dval (dneg_of b)) _ (dval (dadd ctx6 a (dneg_of b)))); [rewrite dval_neg; reflexivity|reflexivity|].
  apply dadd6_rnd.
Qed.

Lemma dmul6_rnd : forall a b, rnd6 (dval a * dval b) (dval (dmul ctx6 a b)).
Proof.
  intros a b. unfold dmul. apply dfix6_rnd. unfold dval. cbn [dexp].
  rewrite p10_add.
  assert (E : scoef (mkDec (xorb (dneg a) (dneg b)) (dcoef a * dcoef b) (dexp a + dexp b)) = (scoef a * scoef b)%Z).
  { unfold scoef. simpl. destruct (dneg a), (dneg b); simpl; lia. }
  rewrite E, inject_Z_mult. ring.
Qed.

(* ------------------------------------------------------------------ *)
(* rounding a rational to the nearest integer, ties away from zero      *)
(* ------------------------------------------------------------------ *)

Definition rhaQ (x : Q) : Z := rhaz (Qnum x) (Zpos (Qden x)).

Lemma rhaz_scale : forall n s k, (0 < k)%Z -> (s <> 0)%Z -> rhaz (n * k) (s * k) = rhaz n s.
Proof.
  intros n s k Hk Hs. unfold rhaz.
  rewrite !Z.sgn_mul, (Z.sgn_pos k) by lia. rewrite !Z.mul_1_r.
  rewrite !Z.abs_mul, (Z.abs_eq k) by lia.
  replace (2 * (Z.abs n * k) + Z.abs s * k)%Z with ((2 * Z.abs n + Z.abs s) * k)%Z by ring.
  replace (2 * (Z.abs s * k))%Z with (2 * Z.abs s * k)%Z by ring.
  rewrite Z.div_mul_cancel_r by lia. reflexivity.
Qed.

Lemma rhaQ_compat : forall x y, x == y -> rhaQ x = rhaQ y.
Proof.
  intros [nx dx] [ny dy] H. unfold Qeq in H. simpl in H. unfold rhaQ. simpl.
  rewrite <- (rhaz_scale nx (Zpos dx) (Zpos dy)) by lia.
  rewrite <- (rhaz_scale ny (Zpos dy) (Zpos dx)) by lia.
  rewrite H. f_equal. lia.
Qed.

Lemma rhaQ_frac : forall x N S, (0 < S)%Z -> x == inject_Z N / inject_Z S -> rhaQ x = rhaz N S.
Proof.
  intros x N S HS Hx. destruct S as [|sp|sp]; try lia.
  rewrite <- Qmake_Qdiv in Hx. rewrite (rhaQ_compat _ _ Hx). reflexivity.
Qed.

Lemma rhaz_one : forall z, rhaz z 1 = z.
Proof.
  intro z. unfold rhaz. simpl Z.sgn. simpl (Z.abs 1). rewrite Z.mul_1_r.
  replace ((2 * Z.abs z + 1) / (2 * 1))%Z with (Z.abs z).
  - destruct (Z.sgn_spec z) as [[? E]|[[? E]|[? E]]]; rewrite E; lia.
  - apply Z.div_unique with (r := 1%Z); lia.
Qed.

Lemma rhaQ_int : forall x z, x == inject_Z z -> rhaQ x = z.
Proof. intros x z H. rewrite (rhaQ_compat _ _ H). unfold rhaQ. simpl. apply rhaz_one. Qed.

Lemma p10_neg : forall k, (0 <= k)%Z -> p10 (- k) == / inject_Z (10 ^ k).
Proof. intros k Hk. unfold p10. rewrite Qpower_opp. apply Qinv_comp. symmetry. apply Zpower_Qpower. assumption. Qed.

Lemma to_integral_Q : forall d, dval (to_integral HalfUp d) == inject_Z (rhaQ (dval d)).
Proof.
  intro d. unfold to_integral. destruct (0 <=? dexp d)%Z eqn:E.
  - assert (H : dval d == inject_Z (scoef d * 10 ^ dexp d)).
    { unfold dval. rewrite inject_Z_mult, p10_Z by lia. reflexivity. }
    rewrite (rhaQ_int _ _ H). exact H.
  - set (k := (- dexp d)%Z). assert (Hk : (0 < k)%Z) by lia.
    set (P := (10 ^ k)%Z). assert (HP : (0 < P)%Z) by (apply ConvertInt.p10_pos; lia).
    assert (H : dval d == inject_Z (scoef d) / inject_Z P).
    { unfold dval. replace (dexp d) with (- k)%Z by lia. rewrite p10_neg by lia. reflexivity. }
    rewrite (rhaQ_frac _ _ _ HP H).
    unfold dval at 1. cbn [dexp]. unfold p10. rewrite Qpower_0_r, Qmult_1_r.
    apply inject_Z_injective.
    rewrite round_drop_half_up. unfold scoef at 1. cbn [dneg dcoef].
    assert (EP : Z.of_N (pow10 (Z.to_N k)) = P) by (apply pow10_Z; lia).
    set (c := dcoef d).
    assert (EQ : Z.of_N ((2 * c + pow10 (Z.to_N k)) / (2 * pow10 (Z.to_N k))) = ((2 * Z.of_N c + P) / (2 * P))%Z).
    { rewrite N2Z.inj_div, N2Z.inj_add, !N2Z.inj_mul, EP. reflexivity. }
    rewrite EQ. unfold rhaz. rewrite (Z.sgn_pos P), (Z.abs_eq P) by lia. rewrite Z.mul_1_r.
    rewrite scoef_abs. fold c. unfold scoef. fold c.
    destruct (N.eq_dec c 0) as [C0|C0].
    + rewrite C0. simpl Z.of_N. rewrite Z.mul_0_r, Z.add_0_l.
      rewrite (Z.div_small P (2 * P)) by lia. destruct (dneg d); reflexivity.
    + destruct (dneg d).
      * rewrite Z.sgn_neg by lia. lia.
      * rewrite Z.sgn_pos by lia. lia.
Qed.
