(* C20 (part i) - lemmas about the file-system model *)
From Coq Require Import List NArith Arith Bool Lia.
From AHK Require Import Lib.Res Lib.ByteStr Model.Persist.
Import ListNotations.

Lemma upd_same {A} (f : N -> A) k v : upd f k v k = v.
Proof. unfold upd. now rewrite N.eqb_refl. Qed.
Lemma upd_other {A} (f : N -> A) k v x : x <> k -> upd f k v x = f x.
Proof. unfold upd. intros H. apply N.eqb_neq in H. now rewrite H. Qed.

Lemma run_app a b st : run (a ++ b) st = run b (run a st).
Proof. unfold run. apply fold_left_app. Qed.
Lemma run_cons o ops st : run (o :: ops) st = run ops (step st o).
Proof. reflexivity. Qed.

Lemma bytes_eqb_eq a b : bytes_eqb a b = true <-> a = b.
Proof.
  revert b. induction a as [|x a IH]; destruct b as [|y b]; cbn; try (split; congruence).
  rewrite andb_true_iff, N.eqb_eq, IH. split; [intros [-> ->]; reflexivity|intros H; inversion H; auto].
Qed.

Lemma is_prefix_b_spec p l : is_prefix_b p l = true <-> exists s, l = p ++ s.
Proof.
  revert l. induction p as [|x p IH]; intros l; cbn.
  - split; [intros _; now exists l|reflexivity].
  - destruct l as [|y l].
    + split; [discriminate|intros [s H]; discriminate].
    + rewrite andb_true_iff, N.eqb_eq, IH. split.
      * intros [-> [s ->]]. now exists s.
      * intros [s H]. inversion H. split; [reflexivity|now exists s].
Qed.

(* ------------------------------------------------------------------ *)
(* the untouched-file invariant                                        *)
(* ------------------------------------------------------------------ *)
Definition kept (f : name) (j : ino) (old : bytes) (n0 : nat) (st : fs) : Prop :=
  names st f = Some j /\ (forall a, names st a = Some j -> a = f) /\ (j < fresh st)%N /\
  (forall h, handles st h <> Some j) /\ content st j = old /\ synced st j = n0.

Lemma target_ino_not f j t st :
  names st f = Some j -> (forall a, names st a = Some j -> a = f) -> (j < fresh st)%N ->
  t <> f -> target_ino st t <> j.
Proof.
  intros Hf Hu Hlt Ht. unfold target_ino. destruct (names st t) eqn:E.
  - intros ->. apply Ht. now apply Hu.
  - lia.
Qed.

Lemma bump_ge st f : (fresh st <= bump st f)%N.
Proof. unfold bump. destruct (names st f); lia. Qed.

Lemma kept_step f j old n0 st o :
  kept f j old n0 st -> no_touch f o = true -> kept f j old n0 (step st o).
Proof.
  intros (Hf & Hu & Hlt & Hh & Hc & Hs) Hn. unfold kept.
  destruct o as [h a|h a|h bs|h|h|a b|a]; cbn [no_touch] in Hn.
  - (* OpenTrunc *)
    apply negb_true_iff, N.eqb_neq in Hn.
    pose proof (target_ino_not f j a st Hf Hu Hlt Hn) as Hi.
    cbn [step names content synced handles fresh].
    repeat split.
    + rewrite upd_other; auto.
    + intros x Hx. unfold upd in Hx. destruct (N.eqb x a); [inversion Hx; congruence|auto].
    + pose proof (bump_ge st a). lia.
    + intros h' Hh'. unfold upd in Hh'. destruct (N.eqb h' h); [inversion Hh'; congruence|eapply Hh; eauto].
    + rewrite upd_other; auto.
    + rewrite upd_other; auto.
  - (* OpenAppend *)
    apply negb_true_iff, N.eqb_neq in Hn.
    pose proof (target_ino_not f j a st Hf Hu Hlt Hn) as Hi.
    cbn [step]. destruct (names st a) eqn:Ea; cbn [names content synced handles fresh].
    + repeat split; auto.
      intros h' Hh'. unfold upd in Hh'. destruct (N.eqb h' h); [inversion Hh'; congruence|eapply Hh; eauto].
    + repeat split.
      * rewrite upd_other; auto.
      * intros x Hx. unfold upd in Hx. destruct (N.eqb x a); [inversion Hx; congruence|auto].
      * unfold bump. rewrite Ea. lia.
      * intros h' Hh'. unfold upd in Hh'. destruct (N.eqb h' h); [inversion Hh'; congruence|eapply Hh; eauto].
      * rewrite upd_other; auto.
      * rewrite upd_other; auto.
  - (* Write *)
    cbn [step]. destruct (handles st h) as [i|] eqn:Eh; [|repeat split; auto].
    cbn [names content synced handles fresh].
    assert (i <> j) by (intros ->; eapply Hh; eauto).
    repeat split; auto. rewrite upd_other; auto.
  - (* Fsync *)
    cbn [step]. destruct (handles st h) as [i|] eqn:Eh; [|repeat split; auto].
    cbn [names content synced handles fresh].
    assert (i <> j) by (intros ->; eapply Hh; eauto).
    repeat split; auto. rewrite upd_other; auto.
  - (* Close *)
    cbn [step names content synced handles fresh]. repeat split; auto.
    intros h' Hh'. unfold upd in Hh'. destruct (N.eqb h' h); [discriminate|eapply Hh; eauto].
  - (* Rename *)
    apply andb_true_iff in Hn. destruct Hn as [Ha Hb].
    apply negb_true_iff, N.eqb_neq in Ha. apply negb_true_iff, N.eqb_neq in Hb.
    cbn [step]. destruct (N.eqb a b); [repeat split; auto|].
    destruct (names st a) as [i|] eqn:Ea; [|repeat split; auto].
    cbn [names content synced handles fresh]. repeat split; auto.
    + rewrite upd_other; auto. rewrite upd_other; auto.
    + intros x Hx. unfold upd in Hx. destruct (N.eqb x a); [discriminate|].
      destruct (N.eqb x b) eqn:Exb; [|auto].
      inversion Hx; subst i. exfalso. apply Ha. now apply Hu.
  - (* Unlink *)
    apply negb_true_iff, N.eqb_neq in Hn.
    cbn [step names content synced handles fresh]. repeat split; auto.
    + rewrite upd_other; auto.
    + intros x Hx. unfold upd in Hx. destruct (N.eqb x a); [discriminate|auto].
Qed.

Lemma kept_run f j old n0 ops st :
  kept f j old n0 st -> forallb (no_touch f) ops = true -> kept f j old n0 (run ops st).
Proof.
  revert st. induction ops as [|o ops IH]; intros st Hk Hn; [exact Hk|].
  cbn [forallb] in Hn. apply andb_true_iff in Hn. destruct Hn as [H1 H2].
  rewrite run_cons. apply IH; [now apply kept_step|exact H2].
Qed.

(* a missing file stays missing *)
Lemma missing_step f st o : names st f = None -> no_touch f o = true -> names (step st o) f = None.
Proof.
  intros Hf Hn. destruct o as [h a|h a|h bs|h|h|a b|a]; cbn [no_touch] in Hn; cbn [step].
  - apply negb_true_iff, N.eqb_neq in Hn. cbn [names]. rewrite upd_other; auto.
  - apply negb_true_iff, N.eqb_neq in Hn. destruct (names st a); cbn [names]; [auto|rewrite upd_other; auto].
  - destruct (handles st h); auto.
  - destruct (handles st h); auto.
  - auto.
  - apply andb_true_iff in Hn. destruct Hn as [Ha Hb].
    apply negb_true_iff, N.eqb_neq in Ha. apply negb_true_iff, N.eqb_neq in Hb.
    destruct (N.eqb a b); auto. destruct (names st a); auto. cbn [names].
    rewrite upd_other; auto. rewrite upd_other; auto.
  - apply negb_true_iff, N.eqb_neq in Hn. cbn [names]. rewrite upd_other; auto.
Qed.
Lemma missing_run f ops st :
  names st f = None -> forallb (no_touch f) ops = true -> names (run ops st) f = None.
Proof.
  revert st. induction ops as [|o ops IH]; intros st Hk Hn; [exact Hk|].
  cbn [forallb] in Hn. apply andb_true_iff in Hn. destruct Hn as [H1 H2].
  rewrite run_cons. apply IH; [now apply missing_step|exact H2].
Qed.

Lemma forallb_firstn {A} (p : A -> bool) n l : forallb p l = true -> forallb p (firstn n l) = true.
Proof.
  revert l. induction n; intros [|x l]; cbn; auto. intros H. apply andb_true_iff in H.
  destruct H as [-> H]. cbn. auto.
Qed.

(* ------------------------------------------------------------------ *)
(* closed form of a sequence of writes through one handle              *)
(* ------------------------------------------------------------------ *)
Lemma run_writes h i cs : forall st,
  handles st h = Some i ->
  let st' := run (map (Write h) cs) st in
  names st' = names st /\ handles st' = handles st /\ fresh st' = fresh st /\
  synced st' = synced st /\ content st' i = content st i ++ concat cs /\
  (forall k, k <> i -> content st' k = content st k).
Proof.
  induction cs as [|c cs IH]; intros st Hh; cbn zeta.
  - cbn. rewrite app_nil_r. repeat split; auto.
  - cbn [map]. rewrite run_cons. cbn [step]. rewrite Hh.
    set (st1 := mkfs _ _ _ _ _).
    destruct (IH st1 Hh) as (A & B & C & D & E & F). cbn zeta in *.
    repeat split; auto.
    + rewrite E. unfold st1. cbn [content]. rewrite upd_same. cbn [concat]. now rewrite app_assoc.
    + intros k Hk. rewrite F; auto. unfold st1. cbn [content]. now rewrite upd_other.
Qed.

(* state just before the final rename of the atomic procedure *)
Lemma atomic_pre_state h t cs st :
  let st' := run (OpenTrunc h t :: map (Write h) cs ++ [Fsync h; Close h]) st in
  exists i, names st' t = Some i /\ content st' i = concat cs /\ synced st' i = length (concat cs).
Proof.
  cbn zeta. rewrite run_cons. rewrite run_app.
  set (st1 := step st (OpenTrunc h t)).
  assert (H1 : handles st1 h = Some (target_ino st t)) by (unfold st1; cbn; now rewrite upd_same).
  destruct (run_writes h _ cs st1 H1) as (A & B & C & D & E & F). cbn zeta in *.
  set (st2 := run (map (Write h) cs) st1) in *.
  exists (target_ino st t).
  assert (Hc : content st2 (target_ino st t) = concat cs).
  { rewrite E. unfold st1. cbn [step content]. now rewrite upd_same. }
  assert (Hn : names st2 t = Some (target_ino st t)).
  { rewrite A. unfold st1. cbn [step names]. now rewrite upd_same. }
  assert (Hh : handles st2 h = Some (target_ino st t)) by (now rewrite B).
  unfold run. cbn [fold_left step]. rewrite Hh. cbn [names content synced handles fresh].
  repeat split; auto. rewrite upd_same. now rewrite Hc.
Qed.

Lemma rename_installs t f st i :
  t <> f -> names st t = Some i ->
  names (step st (Rename t f)) f = Some i /\ content (step st (Rename t f)) = content st
  /\ synced (step st (Rename t f)) = synced st.
Proof.
  intros Htf Ht. cbn [step]. apply N.eqb_neq in Htf. rewrite Htf. rewrite Ht.
  cbn [names content synced]. repeat split; auto.
  rewrite upd_other; [now rewrite upd_same|]. apply N.eqb_neq in Htf. congruence.
Qed.

Lemma firstn_ge_all {A} k (l : list A) : length l <= k -> firstn k l = l.
Proof. intros. now apply firstn_all2. Qed.

(* ------------------------------------------------------------------ *)
(* crash views                                                         *)
(* ------------------------------------------------------------------ *)
Lemma view_read_durable st st' f j :
  crash_view st st' -> names st f = Some j -> synced st j = length (content st j) ->
  read st' f = Some (content st j).
Proof.
  intros [Hn Hc] Hf Hs. unfold read. rewrite Hn, Hf. cbn.
  destruct (Hc j) as (k & H1 & H2 & H3). rewrite H3. f_equal. apply firstn_all2. lia.
Qed.

Lemma view_read_missing st st' f : crash_view st st' -> names st f = None -> read st' f = None.
Proof. intros [Hn _] Hf. unfold read. now rewrite Hn, Hf. Qed.

Lemma view_read_prefix st st' f j :
  crash_view st st' -> names st f = Some j ->
  exists k, read st' f = Some (firstn k (content st j)).
Proof.
  intros [Hn Hc] Hf. unfold read. rewrite Hn, Hf. cbn.
  destruct (Hc j) as (k & _ & _ & H3). exists k. now rewrite H3.
Qed.

Lemma crash_view_refl st : (forall i, synced st i <= length (content st i)) -> crash_view st st.
Proof.
  intros H. split; [reflexivity|]. intros i. exists (length (content st i)).
  repeat split; auto. now rewrite firstn_all.
Qed.

Lemma crash_view_lossy st : (forall i, synced st i <= length (content st i)) -> crash_view st (view_lossy st).
Proof.
  intros H. split; [reflexivity|]. intros i. exists (synced st i). repeat split; auto.
Qed.

(* synced never exceeds the length *)
Definition sync_ok (st : fs) : Prop := forall i, synced st i <= length (content st i).
Lemma sync_ok_step st o : sync_ok st -> sync_ok (step st o).
Proof.
  intros H i. destruct o as [h a|h a|h bs|h|h|a b|a]; cbn [step].
  - cbn [synced content]. unfold upd. destruct (N.eqb i (target_ino st a)); [cbn; lia|apply H].
  - destruct (names st a); cbn [synced content]; [apply H|].
    unfold upd. destruct (N.eqb i (target_ino st a)); [cbn; lia|apply H].
  - destruct (handles st h) as [k|]; [|apply H]. cbn [synced content]. unfold upd.
    destruct (N.eqb i k) eqn:E; [|apply H]. apply N.eqb_eq in E. subst. rewrite app_length. specialize (H k). lia.
  - destruct (handles st h) as [k|]; [|apply H]. cbn [synced content]. unfold upd.
    destruct (N.eqb i k) eqn:E; [|apply H]. apply N.eqb_eq in E. subst. lia.
  - apply H.
  - destruct (N.eqb a b); [apply H|]. destruct (names st a); apply H.
  - apply H.
Qed.
Lemma sync_ok_run ops st : sync_ok st -> sync_ok (run ops st).
Proof. revert st. induction ops; intros st H; [exact H|]. rewrite run_cons. apply IHops. now apply sync_ok_step. Qed.

(* ------------------------------------------------------------------ *)
(* prefixes                                                            *)
(* ------------------------------------------------------------------ *)
Lemma concat_firstn_prefix (cs : list bytes) k : exists s, concat cs = concat (firstn k cs) ++ s.
Proof.
  exists (concat (skipn k cs)). rewrite <- concat_app. now rewrite firstn_skipn.
Qed.

Lemma firstn_prefix {A} k (l : list A) : exists s, l = firstn k l ++ s.
Proof. exists (skipn k l). now rewrite firstn_skipn. Qed.

Lemma prefix_cases (p l : bytes) : (exists s, l = p ++ s) -> p = l \/ strict_prefix p l.
Proof.
  intros [s H]. destruct s as [|x s].
  - left. now rewrite app_nil_r in H.
  - right. exists (x :: s). split; [discriminate|exact H].
Qed.

Lemma prefix_trans {A} (a b c : list A) : (exists s, b = a ++ s) -> (exists s, c = b ++ s) -> exists s, c = a ++ s.
Proof. intros [s1 ->] [s2 ->]. exists (s1 ++ s2). now rewrite app_assoc. Qed.

(* ------------------------------------------------------------------ *)
(* theorems relative to the codec                                      *)
(* ------------------------------------------------------------------ *)
Section CodecProofs.
  Variable data : Type.
  Variable print : data -> bytes.
  Variable parse : bytes -> option data.
  Hypothesis parse_print : forall d, parse (print d) = Some d.
  Hypothesis prefix_none : forall d p, strict_prefix p (print d) -> parse p = None.

  Notation load := (load data parse).
  Notation load_bytes := (load_bytes data parse).

  (* firstn n of  pre ++ [last]  is a prefix of pre, or everything *)
  Lemma firstn_snoc_cases {A} n (pre : list A) (x : A) :
    firstn n (pre ++ [x]) = firstn n pre \/ firstn n (pre ++ [x]) = pre ++ [x].
  Proof.
    destruct (le_lt_dec n (length pre)).
    - left. rewrite firstn_app. replace (n - length pre) with 0 by lia. cbn. now rewrite app_nil_r.
    - right. apply firstn_all2. rewrite app_length. cbn. lia.
  Qed.

  Definition atomic_pre (h : handle) (t : name) (cs : list bytes) : list op :=
    OpenTrunc h t :: map (Write h) cs ++ [Fsync h; Close h].

  Lemma save_atomic_split h t f cs : save_atomic h t f cs = atomic_pre h t cs ++ [Rename t f].
  Proof. unfold save_atomic, atomic_pre. cbn [app]. f_equal. rewrite <- app_assoc. reflexivity. Qed.

  Lemma atomic_pre_no_touch h t f cs : t <> f -> forallb (no_touch f) (atomic_pre h t cs) = true.
  Proof.
    intros H. unfold atomic_pre. cbn [forallb no_touch]. apply N.eqb_neq in H. rewrite H. cbn [negb andb].
    rewrite forallb_app. cbn. rewrite andb_true_r. induction cs; cbn; auto.
  Qed.

  (* the state after the complete atomic save: f holds exactly the new bytes, durably *)
  Lemma atomic_final h t f cs st :
    t <> f ->
    let st' := run (save_atomic h t f cs) st in
    exists i, names st' f = Some i /\ content st' i = concat cs /\ synced st' i = length (content st' i).
  Proof.
    intros Htf. cbn zeta. rewrite save_atomic_split, run_app.
    destruct (atomic_pre_state h t cs st) as (i & Hn & Hc & Hs). cbn zeta in *.
    fold (atomic_pre h t cs) in Hn, Hc, Hs.
    set (st2 := run (atomic_pre h t cs) st) in *.
    change (run [Rename t f] st2) with (step st2 (Rename t f)).
    destruct (rename_installs t f st2 i Htf Hn) as (A & B & C).
    exists i. rewrite A, B, C. repeat split; auto. now rewrite Hs, Hc.
  Qed.

  (* MAIN: crash safety of write-temp-then-rename, for every crash point and every crash view *)
  Theorem atomic_crash_safe : forall st f t h cs j D D' n st',
      t <> f -> quiescent st f j -> content st j = print D -> concat cs = print D' ->
      crash_view (crash_after n (save_atomic h t f cs) st) st' ->
      load st' f = Loaded D \/ load st' f = Loaded D'.
  Proof.
    intros st f t h cs j D D' n st' Htf (Q1 & Q2 & Q3 & Q4 & Q5) Hold Hnew Hv.
    unfold crash_after in Hv. rewrite save_atomic_split in Hv.
    destruct (firstn_snoc_cases n (atomic_pre h t cs) (Rename t f)) as [E|E]; rewrite E in Hv.
    - left.
      assert (K : kept f j (print D) (length (print D)) (run (firstn n (atomic_pre h t cs)) st)).
      { apply kept_run; [|apply forallb_firstn, atomic_pre_no_touch; auto].
        unfold kept. rewrite <- Hold. repeat split; auto. }
      destruct K as (K1 & _ & _ & _ & K5 & K6).
      unfold load. erewrite view_read_durable; eauto; [|now rewrite K6, K5].
      rewrite K5. cbn. now rewrite parse_print.
    - right. rewrite <- save_atomic_split in Hv.
      destruct (atomic_final h t f cs st Htf) as (i & A & B & C). cbn zeta in *.
      unfold load. erewrite view_read_durable; eauto.
      rewrite B, Hnew. cbn. now rewrite parse_print.
  Qed.

  (* the uninterrupted save: the loader returns the new data, whatever was there before *)
  Theorem atomic_complete : forall st f t h cs D' n st',
      t <> f -> concat cs = print D' -> length (save_atomic h t f cs) <= n ->
      crash_view (crash_after n (save_atomic h t f cs) st) st' ->
      load st' f = Loaded D'.
  Proof.
    intros st f t h cs D' n st' Htf Hnew Hn Hv.
    unfold crash_after in Hv. rewrite firstn_all2 in Hv by exact Hn.
    destruct (atomic_final h t f cs st Htf) as (i & A & B & C). cbn zeta in *.
    unfold load. erewrite view_read_durable; eauto.
    rewrite B, Hnew. cbn. now rewrite parse_print.
  Qed.

  (* first save (no previous file): the file is absent or complete *)
  Theorem atomic_crash_safe_fresh : forall st f t h cs D' n st',
      t <> f -> names st f = None -> concat cs = print D' ->
      crash_view (crash_after n (save_atomic h t f cs) st) st' ->
      load st' f = Missing \/ load st' f = Loaded D'.
  Proof.
    intros st f t h cs D' n st' Htf Hmiss Hnew Hv.
    unfold crash_after in Hv. rewrite save_atomic_split in Hv.
    destruct (firstn_snoc_cases n (atomic_pre h t cs) (Rename t f)) as [E|E]; rewrite E in Hv.
    - left. unfold load. erewrite view_read_missing; eauto.
      apply missing_run; auto. apply forallb_firstn, atomic_pre_no_touch; auto.
    - right. rewrite <- save_atomic_split in Hv.
      destruct (atomic_final h t f cs st Htf) as (i & A & B & C). cbn zeta in *.
      unfold load. erewrite view_read_durable; eauto.
      rewrite B, Hnew. cbn. now rewrite parse_print.
  Qed.

  (* whatever the earlier operations of a procedure are, as long as they do not name f,
     a crash among them leaves f's data alone (general form used for refactored variants) *)
  Theorem untouched_crash_safe : forall st f j D ops n st',
      quiescent st f j -> content st j = print D -> forallb (no_touch f) ops = true ->
      crash_view (crash_after n ops st) st' -> load st' f = Loaded D.
  Proof.
    intros st f j D ops n st' (Q1 & Q2 & Q3 & Q4 & Q5) Hold Hnt Hv.
    assert (K : kept f j (print D) (length (print D)) (crash_after n ops st)).
    { apply kept_run; [|now apply forallb_firstn]. unfold kept. rewrite <- Hold. repeat split; auto. }
    destruct K as (K1 & _ & _ & _ & K5 & K6).
    unfold load. erewrite view_read_durable; eauto; [|now rewrite K6, K5].
    rewrite K5. cbn. now rewrite parse_print.
  Qed.

  (* ---- the in-place procedure ---- *)
  (* state after OpenTrunc and the first k writes *)
  Lemma inplace_state h f cs k st j :
    names st f = Some j ->
    let st' := crash_after (S k) (save_inplace h f cs) st in
    names st' f = Some j /\ exists s, concat cs = content st' j ++ s.
  Proof.
    intros Hf. cbn zeta. unfold crash_after, save_inplace. cbn [firstn]. rewrite run_cons.
    set (st1 := step st (OpenTrunc h f)).
    assert (Ht : target_ino st f = j) by (unfold target_ino; now rewrite Hf).
    assert (H1 : handles st1 h = Some j) by (unfold st1; cbn; rewrite upd_same; now rewrite Ht).
    assert (N1 : names st1 f = Some j) by (unfold st1; cbn; rewrite upd_same; now rewrite Ht).
    assert (C1 : content st1 j = []) by (unfold st1; cbn; rewrite Ht; now rewrite upd_same).
    rewrite firstn_app, run_app.
    rewrite firstn_map.
    destruct (run_writes h j (firstn k cs) st1 H1) as (A & B & C & D & E & F). cbn zeta in *.
    set (st2 := run (map (Write h) (firstn k cs)) st1) in *.
    assert (N2 : names st2 f = Some j) by (now rewrite A).
    assert (C2 : content st2 j = concat (firstn k cs)) by (rewrite E, C1; reflexivity).
    (* the remaining ops are a prefix of [Close h] *)
    rewrite map_length.
    destruct (k - length cs) as [|m]; cbn [firstn].
    - cbn. split; auto. rewrite C2. apply concat_firstn_prefix.
    - replace (firstn m []) with (@nil op) by (now destruct m).
      unfold run. cbn [fold_left step names content]. split; auto. rewrite C2. apply concat_firstn_prefix.
  Qed.

  (* crash right after the truncation: the previously saved data is gone *)
  Theorem inplace_truncate_loses : forall st f h cs j D' st',
      names st f = Some j -> concat cs = print D' -> print D' <> [] ->
      crash_view (crash_after 1 (save_inplace h f cs) st) st' ->
      load st' f = Broken.
  Proof.
    intros st f h cs j D' st' Hf Hnew Hne Hv.
    destruct (inplace_state h f cs 0 st j Hf) as (A & s & B). cbn zeta in *.
    destruct (view_read_prefix _ _ f j Hv A) as (k & R).
    assert (C : content (crash_after 1 (save_inplace h f cs) st) j = []).
    { unfold crash_after, save_inplace. cbn [firstn]. unfold run. cbn [fold_left step content].
      unfold target_ino. rewrite Hf. now rewrite upd_same. }
    rewrite C, firstn_nil in R.
    unfold load. rewrite R. cbn [load_bytes Persist.load_bytes].
    rewrite (prefix_none D' []); [reflexivity|].
    exists (print D'). split; auto.
  Qed.

  (* every crash point strictly inside the write leaves an unloadable file *)
  Theorem inplace_crash_outcomes : forall st f h cs j D D' n st',
      quiescent st f j -> content st j = print D -> concat cs = print D' ->
      crash_view (crash_after n (save_inplace h f cs) st) st' ->
      load st' f = Loaded D \/ load st' f = Loaded D' \/ load st' f = Broken.
  Proof.
    intros st f h cs j D D' n st' (Q1 & Q2 & Q3 & Q4 & Q5) Hold Hnew Hv.
    destruct n as [|k].
    - left. unfold crash_after in Hv. cbn in Hv. unfold load.
      erewrite view_read_durable; eauto. rewrite Hold. cbn. now rewrite parse_print.
    - right. destruct (inplace_state h f cs k st j Q1) as (A & B). cbn zeta in *.
      destruct (view_read_prefix _ _ f j Hv A) as (m & R).
      unfold load. rewrite R. cbn [Persist.load_bytes].
      assert (P : exists s, print D' = firstn m (content (crash_after (S k) (save_inplace h f cs) st) j) ++ s).
      { rewrite <- Hnew. eapply prefix_trans; [apply firstn_prefix|exact B]. }
      destruct (prefix_cases _ _ P) as [E|E].
      + left. now rewrite E, parse_print.
      + right. now rewrite (prefix_none D' _ E).
  Qed.

  (* ---- the cache loader ---- *)
  Variable cache : Type.
  Variable empty : cache.
  Variable wrap : cache -> data.
  Variable get_pairings : data -> option cache.
  Hypothesis get_wrap : forall c, get_pairings (wrap c) = Some c.

  Notation cache_load_bytes := (cache_load_bytes data parse cache empty get_pairings).
  Notation cache_load := (cache_load data parse cache empty get_pairings).

  Lemma cache_load_valid c : cache_load_bytes (Some (print (wrap c))) = Ok c.
  Proof. cbn. now rewrite parse_print, get_wrap. Qed.

  Lemma cache_load_prefix c p : strict_prefix p (print (wrap c)) -> cache_load_bytes (Some p) = Ok empty.
  Proof. intros H. cbn. now rewrite (prefix_none _ _ H). Qed.

  Lemma cache_load_unparsable bs : parse bs = None -> cache_load_bytes (Some bs) = Ok empty.
  Proof. intros H. cbn. now rewrite H. Qed.

  Lemma cache_load_missing : cache_load_bytes None = Ok empty.
  Proof. reflexivity. Qed.

  Lemma cache_prefix_safe_all :
    (forall c p, strict_prefix p (print (wrap c)) -> cache_load_bytes (Some p) = Ok empty) /\
    (forall bs, parse bs = None -> cache_load_bytes (Some bs) = Ok empty) /\
    cache_load_bytes None = Ok empty.
  Proof. split; [exact cache_load_prefix|]. split; [exact cache_load_unparsable|exact cache_load_missing]. Qed.

  (* the (in-place) cache save interrupted anywhere: old, new or empty cache, never a crash *)
  Theorem cache_inplace_crash_total : forall st f h cs j c c' n st',
      quiescent st f j -> content st j = print (wrap c) -> concat cs = print (wrap c') ->
      crash_view (crash_after n (save_inplace h f cs) st) st' ->
      cache_load st' f = Ok c \/ cache_load st' f = Ok c' \/ cache_load st' f = Ok empty.
  Proof.
    intros st f h cs j c c' n st' (Q1 & Q2 & Q3 & Q4 & Q5) Hold Hnew Hv.
    destruct n as [|k].
    - left. unfold crash_after in Hv. cbn in Hv. unfold Persist.cache_load.
      erewrite view_read_durable; eauto. rewrite Hold. apply cache_load_valid.
    - right. destruct (inplace_state h f cs k st j Q1) as (A & B). cbn zeta in *.
      destruct (view_read_prefix _ _ f j Hv A) as (m & R).
      unfold Persist.cache_load. rewrite R.
      assert (P : exists s, print (wrap c') = firstn m (content (crash_after (S k) (save_inplace h f cs) st) j) ++ s).
      { rewrite <- Hnew. eapply prefix_trans; [apply firstn_prefix|exact B]. }
      destruct (prefix_cases _ _ P) as [E|E].
      + left. rewrite E. apply cache_load_valid.
      + right. now apply (cache_load_prefix c').
  Qed.

  (* without the JSON guard a truncated cache crashes start-up *)
  Lemma cache_unguarded_prefix c p :
    strict_prefix p (print (wrap c)) -> cache_load_unguarded data parse cache empty get_pairings (Some p) = Crash.
  Proof. intros H. cbn. now rewrite (prefix_none _ _ H). Qed.

  (* classification by bytes agrees with the loader *)
  Lemma classify_load : forall D D' o,
      match classify (Some (print D)) (print D') o with
      | CMissing => load_bytes o = Missing
      | COld => load_bytes o = Loaded D
      | CNew => load_bytes o = Loaded D'
      | CPrefixNew => load_bytes o = Broken
      | COther => True
      end.
  Proof.
    intros D D' [bs|]; cbn; [|reflexivity].
    destruct (bytes_eqb bs (print D)) eqn:E1.
    - apply bytes_eqb_eq in E1. subst. now rewrite parse_print.
    - destruct (bytes_eqb bs (print D')) eqn:E2.
      + apply bytes_eqb_eq in E2. subst. now rewrite parse_print.
      + destruct (is_prefix_b bs (print D')) eqn:E3; [|exact I].
        apply is_prefix_b_spec in E3. destruct (prefix_cases _ _ E3) as [->|S].
        * rewrite (proj2 (bytes_eqb_eq _ _) eq_refl) in E2. discriminate.
        * now rewrite (prefix_none _ _ S).
  Qed.
End CodecProofs.

(* ------------------------------------------------------------------ *)
(* the toy codec satisfies the hypotheses                              *)
(* ------------------------------------------------------------------ *)
Lemma toy_parse_print d : ToyCodec.parse (ToyCodec.print d) = Some d.
Proof. unfold ToyCodec.parse, ToyCodec.print. now rewrite N.eqb_refl. Qed.

Lemma toy_prefix_none d p : strict_prefix p (ToyCodec.print d) -> ToyCodec.parse p = None.
Proof.
  intros (s & Hs & H). unfold ToyCodec.print in H. destruct p as [|x r]; [reflexivity|].
  cbn in H. inversion H as [[Hx Hd]]. cbn.
  destruct (N.eqb (N.of_nat (length (r ++ s))) (N.of_nat (length r))) eqn:E; [|reflexivity].
  apply N.eqb_eq in E. apply Nat2N.inj in E. rewrite app_length in E.
  destruct s; [congruence|cbn in E; lia].
Qed.

Lemma toy_get_wrap c : ToyCodec.get_pairings (ToyCodec.wrap c) = Some c.
Proof. reflexivity. Qed.
