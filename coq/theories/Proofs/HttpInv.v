(* C07, part 4: an invariant of the states data_received can reach.  It shows the
   defensive [rem <= 0 -> Wait] branch of body_step is dead: a fixed-length body
   never reaches its Content-Length without the message being emitted. *)
From Coq Require Import List NArith ZArith Arith Bool Lia ZifyN ZifyNat ZifyBool.
From AHK Require Import Lib.ByteStr Model.Http Proofs.HttpStep Proofs.HttpFeed.
Import ListNotations.

Definition inv (p : pst) : Prop :=
  match ph p with
  | Body => chunked p = false -> (0 < clen p)%Z -> (Z.of_nat (length (body p)) < clen p)%Z
  | _ => body p = []
  end.

Definition sinv (s : hstate) : Prop := match s with Run p _ => inv p | _ => True end.

Definition oinv (o : outcome) : Prop := match o with Next p _ => inv p | _ => True end.
Definition linv (x : lres) : Prop := match x with LNext p => inv p | _ => True end.

Lemma lift_inv x r : linv x -> oinv (lift x r).
Proof. destruct x; auto. Qed.

Lemma on_status_inv p l : ph p = PreStatus -> inv p -> linv (on_status p l).
Proof.
  unfold inv. intros Hph H. rewrite Hph in H. unfold on_status.
  destruct (split1 32 l) as [[v r1]|]; [|exact I].
  destruct (split1 32 r1) as [[c rs]|]; [|exact I].
  destruct (negb (ascii l)); [exact I|].
  destruct (int10 ws_b c); [|exact I]. exact H.
Qed.

Lemma finish_inv p : linv (finish p).
Proof. unfold finish. destruct (kind_of (version p)); exact I. Qed.

Lemma on_header_inv p l : ph p = Headers -> inv p -> linv (on_header p l).
Proof.
  unfold inv. intros Hph H. rewrite Hph in H. unfold on_header.
  destruct (nil_b l).
  - unfold header_end. destruct (chunked p) eqn:Ck.
    + destruct (Z.ltb 0 (clen p)); [exact I|]. cbn. unfold inv. cbn. congruence.
    + destruct (Z.eqb (clen p) (-1) || Z.eqb (clen p) 0); [apply finish_inv|].
      cbn. unfold inv. cbn. intros _ Hc. rewrite H. cbn. lia.
  - destruct (split1 58 l) as [[n v]|]; [|exact I].
    destruct (negb (ascii l)); [exact I|].
    destruct (beq _ s_te); [cbn; unfold inv; cbn; now rewrite Hph|].
    destruct (beq _ s_cl); [|cbn; unfold inv; cbn; now rewrite Hph].
    destruct (int10 ws_s _); [|exact I]. cbn. unfold inv. cbn. now rewrite Hph.
Qed.

Lemma step_inv p r : inv p -> oinv (step p r).
Proof.
  intros H. unfold step. destruct (ph p) eqn:Hph.
  - unfold line_step. destruct (find_crlf r) as [[l rest]|]; [|exact I].
    apply lift_inv. now apply on_status_inv.
  - unfold line_step. destruct (find_crlf r) as [[l rest]|]; [|exact I].
    apply lift_inv. now apply on_header_inv.
  - destruct (chunked p) eqn:Ck.
    + unfold chunk_step. destruct (find_crlf r) as [[l rest]|]; [|exact I].
      destruct (int16 l) as [z|]; [|exact I].
      destruct (Z.ltb z 0); [exact I|].
      destruct (Z.ltb _ (z + 2)); [exact I|].
      destruct (Z.eqb z 0); [apply lift_inv, finish_inv|].
      cbn. unfold inv. cbn. rewrite Hph. congruence.
    + destruct (Z.ltb 0 (clen p)) eqn:Hc; [|exact I].
      unfold body_step. destruct (nil_b r); [exact I|].
      destruct (Z.leb _ 0); [exact I|].
      destruct (Z.ltb (Z.of_nat (length r)) _) eqn:E; [|apply lift_inv, finish_inv].
      cbn. unfold inv. cbn. rewrite Hph. intros _ _. rewrite app_length. lia.
Qed.

Lemma inv_init : inv init.
Proof. reflexivity. Qed.

Lemma drain_inv f : forall p r acc, inv p -> sinv (fst (drain f p r acc)).
Proof.
  induction f as [|f IH]; intros p r acc H; cbn [drain]; [exact I|].
  pose proof (step_inv p r H) as HS.
  destruct (step p r) as [|p' r'|m r'|k]; cbn [fst sinv]; auto.
  apply IH. exact inv_init.
Qed.

Lemma hfeed_inv s d : sinv s -> sinv (fst (hfeed s d)).
Proof.
  destruct s as [p r| |]; cbn [hfeed]; auto.
  destruct (nil_b d); [auto|]. intros H. now apply drain_inv.
Qed.

Lemma hfeeds_inv ds : forall s, sinv s -> sinv (fst (hfeeds s ds)).
Proof.
  induction ds as [|d ds IH]; intros s H; cbn [hfeeds]; [exact H|].
  pose proof (hfeed_inv s d H) as H1. destruct (hfeed s d) as [s1 m1].
  specialize (IH s1 H1). destruct (hfeeds s1 ds). exact IH.
Qed.

(* every state reachable from a fresh connection by any sequence of reads *)
Lemma reachable_inv ds : sinv (fst (hfeeds hinit ds)).
Proof. apply hfeeds_inv. exact inv_init. Qed.

(* hence the guard in body_step never fires on a reachable state *)
Lemma body_guard_dead ds p raw :
  fst (hfeeds hinit ds) = Run p raw ->
  ph p = Body -> chunked p = false -> (0 < clen p)%Z ->
  Z.leb (clen p - Z.of_nat (length (body p))) 0 = false.
Proof.
  intros E Hph Hck Hcl. pose proof (reachable_inv ds) as H. rewrite E in H.
  cbn in H. unfold inv in H. rewrite Hph in H. specialize (H Hck Hcl). lia.
Qed.
