(* C19 - round trip of the mDNS TXT record: render_txt -> ServiceInfo unpacking -> from_service_info *)
From Coq Require Import List NArith ZArith Arith Bool Lia ZifyN ZifyNat ZifyBool.
From AHK Require Import Lib.Res Lib.ByteStr Model.Find Proofs.FindLts.
Import ListNotations.
Ltac Zify.zify_post_hook ::= Z.to_euclidean_division_equations.
Open Scope N_scope.

(* ------------------------------------------------------------------ decimal literals *)
Definition digit (c : N) : Prop := 48 <= c <= 57.

Lemma dec_le_digits f n : Forall digit (dec_le f n).
Proof.
  revert n; induction f as [|f IH]; intros n; cbn [dec_le]; [constructor|].
  constructor; [unfold digit; lia|]. destruct (n / 10 =? 0); [constructor|apply IH].
Qed.

Definition leval (l : list N) : N := fold_right (fun c x => 10 * x + (c - 48)) 0 l.

Lemma dec_le_val f n : n < 10 ^ N.of_nat f -> leval (dec_le f n) = n.
Proof.
  revert n; induction f as [|f IH]; intros n H.
  - cbn in H. cbn. lia.
  - cbn [dec_le]. replace (N.of_nat (S f)) with (N.succ (N.of_nat f)) in H by lia.
    rewrite N.pow_succ_r' in H.
    destruct (n / 10 =? 0) eqn:E.
    + unfold leval. cbn [fold_right]. lia.
    + unfold leval. cbn [fold_right]. fold (leval (dec_le f (n / 10))). rewrite IH; lia.
Qed.

Lemma log2_pow10 n : n < 10 ^ N.of_nat (S (N.to_nat (N.log2 n))).
Proof.
  replace (N.of_nat (S (N.to_nat (N.log2 n)))) with (N.succ (N.log2 n)) by lia.
  destruct (N.eq_dec n 0) as [->|Hn]; [cbn; lia|].
  assert (H : n < 2 ^ N.succ (N.log2 n)) by (apply N.log2_spec; lia).
  assert (2 ^ N.succ (N.log2 n) <= 10 ^ N.succ (N.log2 n)) by (apply N.pow_le_mono_l; lia).
  lia.
Qed.

Lemma fold_left_rev {A B} (g : A -> B -> A) (l : list B) a :
  fold_left g (rev l) a = fold_right (fun c x => g x c) a l.
Proof.
  revert a; induction l as [|c l IH]; intros a; cbn; [reflexivity|].
  rewrite fold_left_app. cbn. now rewrite IH.
Qed.

Lemma digits_us_all l : Forall digit l -> l <> [] -> forall b acc,
  digits_us b acc l = Some (fold_left (fun a c => 10 * a + (c - 48)) l acc).
Proof.
  induction l as [|c l IH]; intros F NE b acc; [congruence|].
  inversion F as [|? ? Hc F']; subst. cbn [digits_us fold_left].
  assert (is_digit c = true) by (unfold is_digit, digit in *; lia). rewrite H.
  destruct l as [|c' l]; [reflexivity|]. apply IH; [assumption|discriminate].
Qed.

Lemma digit_not_ws c : digit c -> is_ws c = false.
Proof. unfold digit, is_ws. lia. Qed.

Lemma drop_ws_digits l : Forall digit l -> drop_ws l = l.
Proof. destruct l as [|c l]; intros F; [reflexivity|]. inversion F; subst. cbn. now rewrite digit_not_ws. Qed.

Lemma strip_digits l : Forall digit l -> strip l = l.
Proof.
  intros F. unfold strip. rewrite (drop_ws_digits l F).
  rewrite drop_ws_digits by (now apply Forall_rev). apply rev_involutive.
Qed.

Lemma py_int_dec n : py_int (dec n) = Some (Z.of_N n).
Proof.
  unfold py_int, dec.
  set (f := S (N.to_nat (N.log2 n))).
  assert (F : Forall digit (rev (dec_le f n))) by (apply Forall_rev, dec_le_digits).
  rewrite (strip_digits _ F).
  destruct (rev (dec_le f n)) as [|c r] eqn:E.
  - exfalso. apply (f_equal (@length N)) in E. rewrite rev_length in E. unfold f in E. cbn in E. discriminate.
  - assert (Hc : digit c) by (inversion F; assumption).
    assert (c =? 45 = false) by (unfold digit in Hc; lia).
    assert (c =? 43 = false) by (unfold digit in Hc; lia).
    rewrite H, H0. rewrite digits_us_all by (auto; discriminate).
    rewrite <- E. rewrite fold_left_rev. fold (leval (dec_le f n)).
    rewrite dec_le_val by apply log2_pow10. reflexivity.
Qed.

Lemma dec_bytes n : forallb is_byte (dec n) = true.
Proof.
  apply forallb_forall. intros c H. unfold dec in H. apply in_rev in H.
  pose proof (dec_le_digits (S (N.to_nat (N.log2 n))) n) as F. rewrite Forall_forall in F. apply F in H.
  unfold is_byte, digit in *. lia.
Qed.

(* ------------------------------------------------------------------ TXT framing *)
Definition frame (r : bytes) : bytes := N.of_nat (length r) :: r.

Lemma txt_record_frame k v : txt_record k v = frame (k ++ 61 :: v).
Proof. unfold txt_record, frame. rewrite app_length. cbn [length]. f_equal. lia. Qed.

Lemma firstn_len_app {A} (a b : list A) : firstn (length a) (a ++ b) = a.
Proof. induction a as [|x a IH]; cbn; [now destruct b|]. now rewrite IH. Qed.
Lemma skipn_len_app {A} (a b : list A) : skipn (length a) (a ++ b) = b.
Proof. induction a as [|x a IH]; cbn; [reflexivity|]. exact IH. Qed.

Lemma unpack_frames rs : forall fuel, (length rs <= fuel)%nat -> unpack_f fuel (concat (map frame rs)) = rs.
Proof.
  induction rs as [|r rs IH]; intros fuel H.
  - destruct fuel; reflexivity.
  - destruct fuel as [|f]; [cbn in H; lia|]. cbn [map concat]. unfold frame at 1. cbn [app unpack_f].
    rewrite Nat2N.id, firstn_len_app, skipn_len_app. rewrite IH; [reflexivity|cbn in H; lia].
Qed.

Lemma frames_length rs : (length rs <= length (concat (map frame rs)))%nat.
Proof. induction rs as [|r rs IH]; cbn; [lia|]. rewrite app_length. lia. Qed.

Lemma txt_records_frames rs : txt_records (concat (map frame rs)) = rs.
Proof. unfold txt_records. apply unpack_frames, frames_length. Qed.

Lemma split_eq_app k v : forallb (fun c => negb (c =? 61)) k = true -> split_eq (k ++ 61 :: v) = (k, Some v).
Proof.
  induction k as [|c k IH]; intros H; cbn [app split_eq].
  - reflexivity.
  - cbn in H. apply andb_true_iff in H. destruct H as [H1 H2].
    destruct (c =? 61); [discriminate|]. now rewrite IH.
Qed.

(* ------------------------------------------------------------------ the round trip *)
Definition svc_expected (name ty : list N) (port : N) (f : svcfields) (a : addr) (valid : list addr) : hksvc :=
  {| hs_name := remove_suffix name (46 :: ty); hs_id := lower (f_id f); hs_model := f_md f;
     hs_cn := Z.of_N (f_cn f); hs_sn := Z.of_N (f_sn f); hs_ff := Z.of_N (f_ff f); hs_sf := Z.of_N (f_sf f);
     hs_ci := Z.of_N (f_ci f); hs_pv := f_pv f; hs_type := ty;
     hs_address := a; hs_addresses := valid; hs_port := port |}.

Lemma render_as_frames up f :
  render_txt up f = concat (map frame
    [up k_cn ++ 61 :: dec (f_cn f); up k_id ++ 61 :: f_id f; up k_md ++ 61 :: f_md f;
     up k_sn ++ 61 :: dec (f_sn f); up k_ci ++ 61 :: dec (f_ci f); up k_sf ++ 61 :: dec (f_sf f);
     up k_ff ++ 61 :: dec (f_ff f); up k_pv ++ 61 :: f_pv f]).
Proof. unfold render_txt. rewrite !txt_record_frame. cbn [map concat]. now rewrite app_nil_r. Qed.

Local Opaque dec py_int.

Lemma hk_props_render up f : up = upper \/ up = (fun x => x) ->
  hk_props (render_txt up f) =
  [(k_pv, f_pv f); (k_ff, dec (f_ff f)); (k_sf, dec (f_sf f)); (k_ci, dec (f_ci f)); (k_sn, dec (f_sn f));
   (k_md, f_md f); (k_id, f_id f); (k_cn, dec (f_cn f))].
Proof.
  intros U. unfold hk_props, txt_props. rewrite render_as_frames, txt_records_frames.
  cbn [map]. destruct U as [-> | ->]; rewrite !split_eq_app by reflexivity; reflexivity.
Qed.

Lemma svc_roundtrip up f name ty addrs port :
  up = upper \/ up = (fun x => x) ->
  from_service_info {| si_name := name; si_type := ty; si_addrs := addrs; si_port := port;
                       si_text := render_txt up f |} =
  match filter addr_ok (ordered addrs) with
  | [] => Err ValueError
  | a :: r => Ok (svc_expected name ty port f a (a :: r))
  end.
Proof.
  intros U. unfold from_service_info. cbn [si_addrs si_text si_name si_type si_port].
  destruct (ordered addrs) as [|a0 l0] eqn:O; [reflexivity|]. cbn [nil_b]. rewrite <- O.
  destruct (filter addr_ok (ordered addrs)) as [|a r]; [reflexivity|]. cbn [nil_b hd_crash rbind].
  rewrite (hk_props_render up f U).
  unfold int_field, str_field, dict_index. cbn [alookup beq k_id k_cn k_sn k_ff k_sf k_ci k_md k_pv N.eqb Pos.eqb andb].
  rewrite !py_int_dec. cbn [rbind]. reflexivity.
Qed.

Lemma render_txt_bytes up f : up = upper \/ up = (fun x => x) ->
  all_bytes (f_id f) = true -> all_bytes (f_md f) = true -> all_bytes (f_pv f) = true ->
  (length (f_id f) < 250)%nat -> (length (f_md f) < 250)%nat -> (length (f_pv f) < 250)%nat ->
  (length (dec (f_cn f)) < 250)%nat -> (length (dec (f_sn f)) < 250)%nat -> (length (dec (f_ci f)) < 250)%nat ->
  (length (dec (f_sf f)) < 250)%nat -> (length (dec (f_ff f)) < 250)%nat ->
  all_bytes (render_txt up f) = true.
Proof.
  intros U B1 B2 B3 L1 L2 L3 L4 L5 L6 L7 L8. unfold all_bytes in *. unfold render_txt, txt_record.
  assert (K : forall k, In k [k_cn; k_id; k_md; k_sn; k_ci; k_sf; k_ff; k_pv] ->
                        forallb is_byte (up k) = true /\ length (up k) = 2%nat).
  { intros k Hk. destruct U as [-> | ->]; cbn in Hk;
      repeat (destruct Hk as [<-|Hk]; [split; reflexivity|]); destruct Hk. }
  assert (R : forall k v, In k [k_cn; k_id; k_md; k_sn; k_ci; k_sf; k_ff; k_pv] ->
              forallb is_byte v = true -> (length v < 250)%nat ->
              forallb is_byte (N.of_nat (length (up k) + 1 + length v) :: up k ++ 61 :: v) = true).
  { intros k v Hk Bv Lv. destruct (K k Hk) as [Bk Lk]. cbn [forallb]. rewrite forallb_app. cbn [forallb].
    rewrite Bk, Bv, Lk. unfold is_byte. rewrite !andb_true_r. apply N.ltb_lt. lia. }
  rewrite !forallb_app.
  rewrite !R; cbn; auto 10 using dec_bytes.
Qed.
