(* Invariants of the connection life-cycle machine (Model/VerifyConn.v). *)
From Coq Require Import List NArith Arith Bool Lia.
From AHK Require Import Lib.Res Lib.ByteStr Model.Tlv Model.Sym Model.Verify Model.VerifyHist Model.VerifyConn
     Proofs.SymFacts Proofs.VerifyFacts Proofs.VerifyHistFacts.
Import ListNotations.

(* ---- the state in flight ---- *)
Lemma g_inflight_not_live_nonble tr st : tr <> TBLE -> gs_live (g_inflight tr st) = false.
Proof.
  intros H. unfold g_inflight, g_verify_failed. destruct tr; [reflexivity|contradiction|].
  destruct (gs_live st) eqn:E; [reflexivity|exact E].
Qed.

Lemma g_inflight_not_live_l tr pd st :
  g_inv tr pd st -> g_needs_verify tr st = true -> gs_live (g_inflight tr st) = false.
Proof.
  intros (_ & _ & Hl) Hn. destruct tr.
  - apply g_inflight_not_live_nonble. discriminate.
  - unfold g_inflight, g_verify_failed. unfold g_needs_verify in Hn.
    destruct (gs_live st) eqn:E; [|reflexivity].
    destruct (gs_keys st) eqn:K; [discriminate|]. exfalso. exact (Hl eq_refl eq_refl).
  - apply g_inflight_not_live_nonble. discriminate.
Qed.

Lemma g_inflight_keeps_resume st : gs_resume (g_inflight TBLE st) = gs_resume st /\ gs_keys (g_inflight TBLE st) = gs_keys st.
Proof. split; reflexivity. Qed.

(* an attempt ends either Done or in the in-flight state *)
Lemma g_verify_done_or_inflight tr pd st eph m2 m4 :
  (exists sid k, pv_run tr pd eph (match tr with TBLE => gs_resume st | _ => None end) m2 m4 = PDone sid k) \/
  g_verify tr pd st eph m2 m4 = g_inflight tr st.
Proof.
  unfold g_verify, g_inflight.
  destruct (pv_run tr pd eph _ m2 m4) as [f|req sh|sid k|] eqn:E; try (right; reflexivity).
  left. exists sid, k. reflexivity.
Qed.

(* ---- however a link ends, the next use of the entry point runs pair-verify ---- *)
Lemma g_drop_needs_verify tr st : g_needs_verify tr (g_drop tr st) = true.
Proof. destruct tr; reflexivity. Qed.

Lemma g_reset_needs_verify tr st : g_needs_verify tr (g_reset tr st) = true.
Proof. destruct tr; reflexivity. Qed.

Lemma g_connect_after_end_l tr pd st eph m2 m4 :
  g_connect tr pd (g_drop tr st) eph m2 m4 = g_verify tr pd (g_drop tr st) eph m2 m4 /\
  g_connect tr pd (g_reset tr st) eph m2 m4 = g_verify tr pd (g_reset tr st) eph m2 m4.
Proof. unfold g_connect. now rewrite g_drop_needs_verify, g_reset_needs_verify. Qed.

(* the entry point on a session that is up changes nothing (and asks the peer nothing) *)
Lemma g_connect_skip_l tr pd st eph m2 m4 :
  g_needs_verify tr st = false -> g_connect tr pd st eph m2 m4 = st.
Proof. unfold g_connect. now intros ->. Qed.

Lemma c_step_g tr pd c ev :
  c_g (c_step tr pd c ev) =
  match ev with
  | CConnect eph m2 m4 => g_connect tr pd (c_g c) eph m2 m4
  | CEnd => g_drop tr (c_g c)
  | CReset => g_reset tr (c_g c)
  end.
Proof. destruct ev; cbn [c_step]; try reflexivity. unfold g_connect. now destruct (g_needs_verify tr (c_g c)). Qed.

(* ---- the invariant ---- *)
Lemma c_inv_init tr pd : c_inv tr pd c_init.
Proof. split; [|split]; cbn; try (intros; discriminate). - intros _ H. now contradiction H. - apply g_inv_init. Qed.

Lemma g_reset_inv tr pd st : g_inv tr pd st -> g_inv tr pd (g_reset tr st).
Proof. intros H. exact (g_step_inv tr pd st EReset H). Qed.

Lemma failed_live tr st : gs_live (g_verify_failed tr st) = true -> gs_live st = true.
Proof.
  unfold g_verify_failed. destruct tr; cbn; [discriminate|trivial|].
  destruct (gs_live st) eqn:E; cbn; [discriminate|]. rewrite E. trivial.
Qed.

Lemma failed_keys tr st : tr <> TCOAP -> gs_keys (g_verify_failed tr st) <> None -> gs_keys st <> None.
Proof.
  unfold g_verify_failed. destruct tr; cbn; intros Ht K; [now contradiction K|exact K|now contradiction Ht].
Qed.

Lemma c_step_inv tr pd c ev : c_inv tr pd c -> c_inv tr pd (c_step tr pd c ev).
Proof.
  intros (Hl & Hk & Hg). destruct ev as [eph m2 m4| |]; cbn [c_step].
  - destruct (g_needs_verify tr (c_g c)) eqn:Hn; [|exact (conj Hl (conj Hk Hg))].
    split; [|split]; cbn [c_g c_link c_klink]; [| |now apply g_verify_inv].
    + unfold g_verify.
      destruct (pv_run tr pd eph _ m2 m4) as [f|req sh|sid k|] eqn:E; cbn [pv_is_done]; try reflexivity;
        intros L; apply Hl; exact (failed_live _ _ L).
    + intros Ht. unfold g_verify.
      destruct (pv_run tr pd eph _ m2 m4) as [f|req sh|sid k|] eqn:E; cbn [pv_is_done]; try reflexivity;
        intros K; apply (Hk Ht); exact (failed_keys _ _ Ht K).
  - split; [|split]; cbn [c_g c_link c_klink]; [| |now apply g_drop_inv].
    + destruct (g_drop_dead_l tr (c_g c)) as (D & _). rewrite D. discriminate.
    + intros Ht K. destruct (g_drop_dead_l tr (c_g c)) as (_ & D & _). now rewrite (D Ht) in K.
  - split; [|split]; cbn [c_g c_link c_klink]; [| |now apply g_reset_inv].
    + unfold g_reset. destruct tr; cbn; discriminate.
    + intros Ht K. unfold g_reset in K. destruct tr; cbn in K; [now contradiction K|now contradiction K|now contradiction Ht].
Qed.

Lemma c_fold_inv tr pd : forall h c, c_inv tr pd c -> c_inv tr pd (fold_left (c_step tr pd) h c).
Proof. induction h as [|ev r IH]; intros c H; cbn; [assumption|]. apply IH. now apply c_step_inv. Qed.

Lemma c_run_inv_l tr pd h : c_inv tr pd (c_run tr pd h).
Proof. apply c_fold_inv. apply c_inv_init. Qed.

Lemma c_run_snoc tr pd h ev : c_run tr pd (h ++ [ev]) = c_step tr pd (c_run tr pd h) ev.
Proof. unfold c_run. now rewrite fold_left_app. Qed.

(* the ghost mark is only ever set by a Done run on the link that is current at that moment *)
Lemma c_klink_only_by_done_l tr pd c ev n :
  c_klink (c_step tr pd c ev) = Some n ->
  c_klink c = Some n \/
  (n = c_link c /\ exists eph m2 m4 sid k, ev = CConnect eph m2 m4 /\ g_needs_verify tr (c_g c) = true /\
     pv_run tr pd eph (match tr with TBLE => gs_resume (c_g c) | _ => None end) m2 m4 = PDone sid k).
Proof.
  destruct ev as [eph m2 m4| |]; cbn [c_step]; try (intros H; left; exact H).
  destruct (g_needs_verify tr (c_g c)) eqn:Hn; [|intros H; left; exact H].
  cbn [c_klink].
  destruct (pv_run tr pd eph _ m2 m4) as [f|req sh|sid k|] eqn:E; cbn [pv_is_done]; try (intros H; left; exact H).
  intros H. inversion H. right. split; [reflexivity|]. exists eph, m2, m4, sid, k. repeat split. exact E.
Qed.

(* the link counter only grows; a mark never points to a future link *)
Lemma c_klink_le tr pd : forall h c, (forall n, c_klink c = Some n -> n <= c_link c) ->
  forall n, c_klink (fold_left (c_step tr pd) h c) = Some n -> n <= c_link (fold_left (c_step tr pd) h c).
Proof.
  induction h as [|ev r IH]; intros c H; cbn [fold_left]; [exact H|]. apply IH.
  intros n Hn. destruct ev as [eph m2 m4| |]; cbn [c_step] in *.
  - destruct (g_needs_verify tr (c_g c)); [|now apply H]. cbn [c_klink c_link] in *.
    destruct (pv_is_done _); [inversion Hn; lia|now apply H].
  - cbn [c_klink c_link] in *. specialize (H n Hn). lia.
  - cbn [c_klink c_link] in *. specialize (H n Hn). lia.
Qed.

(* after the link ended nothing is live, and (BLE / IP) no key of the old link is installed *)
Lemma c_end_clears tr pd c :
  let c' := c_step tr pd c CEnd in
  gs_live (c_g c') = false /\ (tr <> TCOAP -> gs_keys (c_g c') = None) /\ c_link c' = S (c_link c).
Proof. cbn. destruct (g_drop_dead_l tr (c_g c)) as (A & B & _). repeat split; assumption. Qed.
