(* C16 extension: facts about tlv_iterator / tlv_array on ARBITRARY bytes
   (consumption equation, progress, byte accounting, fuel sufficiency), and the
   exact set of packed Sequence[u16] id lists the current decoder gets right. *)
From Coq Require Import List NArith ZArith Arith Bool Lia ZifyN ZifyNat ZifyBool.
From AHK Require Import Lib.Res Lib.ByteStr Model.Tlv8 Proofs.Tlv8Iter Proofs.Tlv8.
Import ListNotations.

Fixpoint sumlen (l : list bytes) : nat :=
  match l with [] => 0 | x :: r => length x + sumlen r end.

Lemma sumlen_zero_last : forall l, sumlen l = 0 -> last l [] = [].
Proof.
  induction l as [|x r IH]; intros H; [reflexivity|].
  cbn [sumlen] in H. destruct r as [|y r']; cbn [last].
  - destruct x; [reflexivity|cbn in H; lia].
  - apply IH. lia.
Qed.

Section Any.
  Variable F : nat.

  (* ---------- one iterator step on any input: what it consumes ---------- *)
  Lemma gather_consume : forall fuel t l body v pre y,
      gather F fuel t l body v pre = Ok y ->
      pre ++ t :: l :: body = y_pre y ++ y_tag y :: y_len y :: y_last y ++ y_next y
      /\ y_tag y = t
      /\ (y_pre y = pre \/ length pre + 2 <= length (y_pre y)).
  Proof.
    induction fuel as [|f IH]; intros t l body v pre y H; [discriminate|].
    rewrite gather_eq in H. cbv zeta in H.
    assert (Hstop : @Ok terr yield {| y_tag := t; y_len := l; y_val := v; y_pre := pre;
                          y_last := firstn (N.to_nat l) body; y_next := skipn (N.to_nat l) body |} = Ok y ->
                    pre ++ t :: l :: body = y_pre y ++ y_tag y :: y_len y :: y_last y ++ y_next y
                    /\ y_tag y = t /\ (y_pre y = pre \/ length pre + 2 <= length (y_pre y))).
    { intros E. injection E as <-. cbn. rewrite firstn_skipn. auto. }
    destruct (N.eqb l (N.of_nat F)); [|now apply Hstop].
    destruct (skipn F body) as [|t' r] eqn:Es; [now apply Hstop|].
    destruct (N.eqb_spec t' t); [|now apply Hstop]. subst t'.
    destruct r as [|l' body']; [discriminate|].
    destruct (IH _ _ _ _ _ _ H) as [H1 [H2 H3]].
    split; [|split; [exact H2|]].
    - rewrite <- H1, <- app_assoc. cbn [app]. f_equal. f_equal. f_equal.
      rewrite <- (firstn_skipn F body) at 1. now rewrite Es.
    - right. destruct H3 as [->|H3]; rewrite ?app_length in *; cbn [length] in *; lia.
  Qed.

  Lemma step_consume s y :
    step F s = Ok y ->
    s = y_pre y ++ y_tag y :: y_len y :: y_last y ++ y_next y
    /\ (y_pre y = [] \/ 2 <= length (y_pre y))
    /\ (forall t r, s = t :: r -> y_tag y = t).
  Proof.
    destruct s as [|t [|l body]]; cbn [step]; try discriminate.
    intros H. destruct (gather_consume _ _ _ _ _ _ _ H) as [H1 [H2 H3]].
    cbn [app] in H1. split; [exact H1|]. split.
    - destruct H3 as [->|H3]; [now left|right; cbn in H3; lia].
    - intros t0 r E. injection E as <- _. exact H2.
  Qed.

  Lemma step_progress s y : step F s = Ok y -> length (y_next y) + 2 <= length s.
  Proof.
    intros H. destruct (step_consume s y H) as [E _].
    apply (f_equal (@length N)) in E. rewrite app_length in E. cbn [length] in E.
    rewrite app_length in E. lia.
  Qed.

  (* ---------- the fuels the model uses are always enough ---------- *)
  Lemma gather_never_fuel : forall fuel t l body v pre,
      length body < fuel -> gather F fuel t l body v pre <> OutOfFuel.
  Proof.
    induction fuel as [|f IH]; intros t l body v pre Hf; [lia|].
    rewrite gather_eq. cbv zeta.
    destruct (N.eqb l (N.of_nat F)); [|discriminate].
    destruct (skipn F body) as [|t' r] eqn:Es; [discriminate|].
    destruct (N.eqb t' t); [|discriminate].
    destruct r as [|l' body']; [discriminate|].
    apply IH. apply (f_equal (@length N)) in Es. rewrite skipn_length in Es. cbn [length] in Es. lia.
  Qed.

  Lemma step_never_fuel s : step F s <> OutOfFuel.
  Proof.
    destruct s as [|t [|l body]]; cbn [step]; try discriminate.
    apply gather_never_fuel. lia.
  Qed.

  Lemma items_never_fuel : forall fuel s, length s < fuel -> snd (items_f F fuel s) <> FinFuel.
  Proof.
    induction fuel as [|f IH]; intros s Hf; [lia|].
    destruct s as [|b s']; [cbn; discriminate|].
    rewrite items_f_step by discriminate.
    destruct (step F (b :: s')) as [y| | |] eqn:E; try (cbn; discriminate).
    - pose proof (step_progress _ _ E).
      specialize (IH (y_next y) ltac:(lia)).
      destruct (items_f F f (y_next y)) as [l e]. cbn [snd] in *. exact IH.
    - exfalso. now apply (step_never_fuel (b :: s')).
  Qed.

  Lemma arr_never_fuel : forall fuel s cur, length s < fuel -> snd (arr_f F fuel s cur) <> FinFuel.
  Proof.
    induction fuel as [|f IH]; intros s cur Hf; [lia|].
    destruct s as [|b s']; [cbn; discriminate|].
    rewrite arr_f_step by discriminate.
    destruct (step F (b :: s')) as [y| | |] eqn:E; try (cbn; discriminate).
    - pose proof (step_progress _ _ E).
      destruct (N.eqb (y_tag y) 0).
      + specialize (IH (y_next y) (y_last y) ltac:(lia)).
        destruct (arr_f F f (y_next y) (y_last y)) as [l e]. cbn [snd] in *. exact IH.
      + apply IH. lia.
    - exfalso. now apply (step_never_fuel (b :: s')).
  Qed.

  Lemma arr_fuel : forall f f' s cur,
      length s < f -> length s < f' -> arr_f F f s cur = arr_f F f' s cur.
  Proof.
    induction f as [|f IH]; intros f' s cur H H'; [lia|]. destruct f' as [|f']; [lia|].
    destruct s as [|b s']; [reflexivity|].
    rewrite !arr_f_step by discriminate.
    destruct (step F (b :: s')) as [y| | |] eqn:E; try reflexivity.
    pose proof (step_progress _ _ E).
    destruct (N.eqb (y_tag y) 0).
    - rewrite (IH f' (y_next y) (y_last y)) by lia. reflexivity.
    - apply IH; lia.
  Qed.

  (* ---------- byte accounting of tlv_array ---------- *)
  (* every input byte is either in a yielded piece or one of the two header bytes of
     a separator item; a last piece is yielded only if it is not empty *)
  Lemma arr_count : forall fuel s cur its,
      arr_f F fuel s cur = (its, FinOk) ->
      exists q, length cur + length s = sumlen its + 2 * q
                /\ (length its = q \/ (length its = S q /\ last its [] <> [])).
  Proof.
    induction fuel as [|f IH]; intros s cur its H; [discriminate|].
    destruct s as [|b s'].
    - cbn [arr_f] in H. destruct cur as [|c cur']; cbn [nil_b] in H; injection H as <-.
      + exists 0. cbn. auto.
      + exists 0. cbn [sumlen length last]. split; [lia|]. right. split; [reflexivity|discriminate].
    - rewrite arr_f_step in H by discriminate.
      destruct (step F (b :: s')) as [y| | |] eqn:E; try discriminate.
      destruct (step_consume _ _ E) as [Ec _].
      apply (f_equal (@length N)) in Ec. rewrite app_length in Ec. cbn [length] in Ec. rewrite app_length in Ec.
      destruct (N.eqb (y_tag y) 0).
      + destruct (arr_f F f (y_next y) (y_last y)) as [l' e'] eqn:E'.
        injection H as <- ->. destruct (IH _ _ _ E') as [q [Hq Halt]].
        exists (S q). cbn [sumlen length]. rewrite app_length. split; [cbn [length] in *; lia|].
        destruct Halt as [Hl|[Hl Hlast]]; [left; lia|].
        right. split; [lia|]. destruct l' as [|i l'']; [discriminate|]. exact Hlast.
      + destruct (IH _ _ _ H) as [q [Hq Halt]]. exists q. split; [|exact Halt].
        rewrite ?app_length in Hq; cbn [length] in Hq; rewrite ?app_length in Hq; cbn [length] in *; lia.
  Qed.

  (* the piece under construction is a prefix of the next yielded piece *)
  Lemma arr_head : forall fuel s cur its,
      arr_f F fuel s cur = (its, FinOk) -> cur <> [] ->
      exists i r, its = i :: r /\ length cur <= length i.
  Proof.
    induction fuel as [|f IH]; intros s cur its H Hc; [discriminate|].
    destruct s as [|b s'].
    - cbn [arr_f] in H. destruct cur; [contradiction|]. cbn [nil_b] in H. injection H as <-. eauto.
    - rewrite arr_f_step in H by discriminate.
      destruct (step F (b :: s')) as [y| | |] eqn:E; try discriminate.
      destruct (N.eqb (y_tag y) 0).
      + destruct (arr_f F f (y_next y) (y_last y)) as [l' e'].
        injection H as <- _. eexists _, _. split; [reflexivity|]. rewrite app_length. lia.
      + destruct (IH _ _ _ H) as [i [r [-> Hi]]].
        * intros E0. apply app_eq_nil in E0. destruct E0 as [E0 _]. contradiction.
        * exists i, r. split; [reflexivity|]. rewrite app_length in Hi. lia.
  Qed.
End Any.

(* ---------- model totality: no decode or encode ever runs out of fuel ---------- *)
Lemma map_res_never_fuel {A B} (f : A -> R B) l :
  (forall a, In a l -> f a <> OutOfFuel) -> map_res f l <> OutOfFuel.
Proof.
  induction l as [|a r IH]; intros H; [discriminate|].
  cbn [map_res]. destruct (f a) as [b| | |] eqn:E; cbn [rbind]; try discriminate.
  - destruct (map_res f r) as [bs| | |] eqn:E2; cbn [rbind]; try discriminate.
    exfalso. apply IH; [|reflexivity]. intros a' Ha. apply H. now right.
  - exfalso. apply (H a); [now left|exact E].
Qed.

Lemma assoc_last_in_ty tag (ft : ty) (fs : fields) : assoc_last tag fs = Some ft -> exists k, In (k, ft) fs.
Proof.
  induction fs as [|[k x] r IH]; intros H; [discriminate|].
  cbn [assoc_last] in H. destruct (assoc_last tag r) as [z|] eqn:E.
  - injection H as ->. destruct (IH eq_refl) as [k' Hk]. exists k'. now right.
  - destruct (N.eqb k tag); [|discriminate]. injection H as ->. exists k. now left.
Qed.

Lemma dec_never_fuel F : forall n t b, ty_depth t < n -> dec F n t b <> OutOfFuel.
Proof.
  induction n as [|n IH]; intros t b Hd; [lia|].
  assert (Hstruct : forall fs b', fields_depth fs < n -> dec_struct F (dec F n) fs b' <> OutOfFuel).
  { intros fs b' Hfs. unfold dec_struct.
    pose proof (items_never_fuel F (S (length b')) b' (Nat.lt_succ_diag_r _)) as Hi.
    unfold items. destruct (items_f F (S (length b')) b') as [its e]. cbn [snd] in Hi.
    destruct (map_res (dec_item (dec F n) fs) its) as [kv| | |] eqn:E; cbn [rbind]; try discriminate.
    - destruct e; cbn; try discriminate. contradiction.
    - exfalso. revert E. apply map_res_never_fuel. intros it _. unfold dec_item, ftype_last.
      destruct (assoc_last (fst it) fs) as [ft|] eqn:Ea; [|discriminate].
      destruct (assoc_last_in_ty _ _ _ Ea) as [k Hk]. pose proof (fields_depth_in fs (k, ft) Hk) as Hle. cbn [snd] in Hle.
      destruct (dec F n ft (snd it)) eqn:Ed; cbn [rbind]; try discriminate.
      exfalso. apply (IH ft (snd it)); [lia|exact Ed]. }
  destruct t as [k|ms| | |fs|fs|k|]; cbn [dec]; try discriminate.
  - destruct (mem_N (le_dec b) ms); discriminate.
  - destruct (utf8_valid b); discriminate.
  - cbn [ty_depth] in Hd. fold (fields_depth fs) in Hd.
    destruct (dec_struct F (dec F n) fs b) eqn:E; cbn [rbind]; try discriminate.
    exfalso. apply (Hstruct fs b); [lia|exact E].
  - cbn [ty_depth] in Hd. fold (fields_depth fs) in Hd. unfold dec_seq.
    pose proof (arr_never_fuel F (S (length b)) b [] (Nat.lt_succ_diag_r _)) as Ha.
    unfold tlv_array. destruct (arr_f F (S (length b)) b []) as [its e]. cbn [snd] in Ha.
    destruct (map_res (dec_struct F (dec F n) fs) its) as [l| | |] eqn:E; cbn [rbind]; try discriminate.
    + destruct e; cbn; try discriminate. contradiction.
    + exfalso. revert E. apply map_res_never_fuel. intros b' _. apply Hstruct. lia.
  - pose proof (arr_never_fuel F (S (length b)) b [] (Nat.lt_succ_diag_r _)) as Ha.
    unfold tlv_array. destruct (arr_f F (S (length b)) b []) as [its e]. cbn [snd] in Ha.
    destruct e; cbn; try discriminate. contradiction.
Qed.

Lemma enc_never_fuel F : forall n t v, ty_depth t < n -> enc F n t v <> OutOfFuel.
Proof.
  induction n as [|n IH]; intros t v Hd; [lia|].
  assert (Hfields : forall fs vs, fields_depth fs < n -> enc_fields F (enc F n) fs vs <> OutOfFuel).
  { induction fs as [|[tag ft] r IHr]; intros vs Hfs.
    - destruct vs; cbn; discriminate.
    - cbn [fields_depth fold_right snd] in Hfs. fold (fields_depth r) in Hfs.
      destruct vs as [|o vr]; [cbn; discriminate|]. cbn [enc_fields]. destruct o as [fv|].
      + destruct (enc F n ft fv) eqn:E1; cbn [rbind]; try discriminate.
        * destruct (enc_fields F (enc F n) r vr) eqn:E2; cbn [rbind]; try discriminate.
          exfalso. apply (IHr vr); [lia|exact E2].
        * exfalso. apply (IH ft fv); [lia|exact E1].
      + apply IHr. lia. }
  destruct t as [k|ms| | |fs|fs|k|]; destruct v as [x|b|vs|l|ids]; cbn [enc]; try discriminate.
  - destruct (irange k x); discriminate.
  - destruct (N.ltb x 256); discriminate.
  - cbn [ty_depth] in Hd. fold (fields_depth fs) in Hd. apply Hfields. lia.
  - cbn [ty_depth] in Hd. fold (fields_depth fs) in Hd.
    generalize true. induction l as [|vs r IHl]; intros first; [cbn; discriminate|].
    cbn [enc_seq]. destruct (enc_fields F (enc F n) fs vs) eqn:E1; cbn [rbind]; try discriminate.
    + destruct (enc_seq F (enc F n) fs r false) eqn:E2; cbn [rbind]; try discriminate.
      exfalso. now apply (IHl false).
    + exfalso. apply (Hfields fs vs); [lia|exact E1].
  - destruct ids; discriminate.
Qed.

(* ---------- Sequence[u16]: exactly which packed id lists the current decoder gets right ---------- *)
(* zero ids (each "00 00" happens to be a well-formed list separator and an empty
   piece decodes to 0), optionally followed by ONE last id whose low byte is not 0 *)
Fixpoint sequ16_good (l : list N) : bool :=
  match l with
  | [] => true
  | x :: r =>
      match r with
      | [] => N.eqb x 0 || negb (N.eqb (x mod 256) 0)
      | _ :: _ => N.eqb x 0 && sequ16_good r
      end
  end.

Definition packed16 (l : list N) : bytes := concat (map (ienc U16) l).
Definition D16 (b : bytes) : R val := tlv8_decode (TSeqInt U16) b.

Lemma D16_eq b : D16 b = let (its, e) := tlv_array 255 b in finish e (VIds (map le_dec its)).
Proof. reflexivity. Qed.

Lemma F255pos : 0 < 255. Proof. lia. Qed.

Lemma tlv_array_zero_cons rest :
  tlv_array 255 (0%N :: 0%N :: rest) = let (its, e) := tlv_array 255 rest in ([] :: its, e).
Proof.
  unfold tlv_array. cbn [length]. rewrite arr_f_step by discriminate.
  rewrite (step_sep 255 F255pos). cbn [y_tag y_pre y_last y_next N.eqb app].
  rewrite (arr_fuel 255 (S (S (length rest))) (S (length rest)) rest []) by lia. reflexivity.
Qed.

Lemma D16_zero_cons rest r :
  D16 (0%N :: 0%N :: rest) = Ok (VIds (0%N :: r)) <-> D16 rest = Ok (VIds r).
Proof.
  rewrite !D16_eq, tlv_array_zero_cons. destruct (tlv_array 255 rest) as [its e].
  destruct e; cbn [finish map le_dec]; split; intros H; try discriminate; [injection H as ->|injection H as ->]; reflexivity.
Qed.

Lemma ienc16 x : ienc U16 x = [x mod 256; (x / 256) mod 256]%N.
Proof. reflexivity. Qed.

Lemma sumlen_ge_head i r : length i <= sumlen (i :: r).
Proof. cbn. lia. Qed.

Theorem sequ16_exact : forall l,
    forallb (irange U16) l = true ->
    (D16 (packed16 l) = Ok (VIds l) <-> sequ16_good l = true).
Proof.
  induction l as [|x r IH]; intros Hr.
  - split; reflexivity.
  - cbn [forallb] in Hr. apply andb_true_iff in Hr. destruct Hr as [Hx Hr].
    unfold irange in Hx. cbn [iwidth] in Hx. apply N.ltb_lt in Hx.
    unfold packed16. cbn [map concat]. fold (packed16 r). rewrite ienc16. cbn [app].
    destruct (N.eqb_spec x 0) as [->|Hx0].
    + (* a zero id: a real separator *)
      change (0 mod 256)%N with 0%N. change ((0 / 256) mod 256)%N with 0%N.
      rewrite D16_zero_cons, (IH Hr).
      cbn [sequ16_good N.eqb orb andb]. destruct r; [split; reflexivity|reflexivity].
    + set (lo := (x mod 256)%N). set (hi := ((x / 256) mod 256)%N).
      assert (Hxv : x = (lo + 256 * (hi + 256 * 0))%N) by (unfold lo, hi; lia).
      destruct r as [|y r'].
      * (* the last id *)
        cbn [packed16 map concat sequ16_good]. destruct (N.eqb_spec x 0); [contradiction|]. cbn [orb].
        fold lo. destruct (N.eqb_spec lo 0) as [Hlo|Hlo]; cbn [negb].
        -- (* zero low byte: "00 hi" is a separator item, the id is lost *)
           split; [|discriminate]. intros H. exfalso. rewrite Hlo in H.
           rewrite D16_eq in H. unfold tlv_array in H. cbn [length] in H.
           rewrite arr_f_step in H by discriminate. cbn [step length] in H.
           rewrite gather_empty_body in H. cbn [y_tag y_pre y_last y_next N.eqb app arr_f nil_b finish map le_dec] in H.
           injection H as H. lia.
        -- split; [reflexivity|]. intros _. unfold D16. rewrite (sequ16_single_id_ok lo hi Hlo). now rewrite <- Hxv.
      * (* something follows a non-zero id: never right (byte accounting) *)
        cbn [sequ16_good]. destruct (N.eqb_spec x 0); [contradiction|]. cbn [andb].
        split; [|discriminate]. intros H. exfalso.
        set (b := lo :: hi :: packed16 (y :: r')) in *.
        assert (Hlen : length b = 2 * S (S (length r'))).
        { unfold b, packed16. cbn [length]. rewrite concat_ienc_length. cbn [length iwidth]. lia. }
        rewrite D16_eq in H. destruct (tlv_array 255 b) as [its e] eqn:Ea.
        destruct e; cbn [finish] in H; try discriminate. injection H as Hmap.
        assert (Hn : length its = S (S (length r'))).
        { apply (f_equal (@length N)) in Hmap. rewrite map_length in Hmap. cbn [length] in Hmap. exact Hmap. }
        unfold tlv_array in Ea.
        destruct (arr_count 255 _ _ _ _ Ea) as [q [Hq Halt]]. cbn [length] in Hq.
        (* the first piece is empty or at least two bytes long *)
        assert (Hhead : exists i rest, its = i :: rest /\ (i = [] \/ 2 <= length i)).
        { rewrite arr_f_step in Ea by discriminate.
          destruct (step 255 b) as [y0| | |] eqn:Es; try discriminate.
          destruct (step_consume 255 b y0 Es) as [_ [Hpre Htag]].
          specialize (Htag lo (hi :: packed16 (y :: r')) eq_refl).
          destruct (N.eqb (y_tag y0) 0).
          - destruct (arr_f 255 (length b) (y_next y0) (y_last y0)) as [l' e'].
            injection Ea as <- _. eexists _, _. split; [reflexivity|]. cbn [app].
            destruct Hpre as [->|Hp]; [now left|now right].
          - destruct (arr_head 255 _ _ _ _ Ea) as [i [rest [-> Hi]]].
            + cbn [app]. intros E0. apply app_eq_nil in E0. destruct E0 as [_ E0]. discriminate.
            + exists i, rest. split; [reflexivity|]. right. cbn [app] in Hi. rewrite app_length in Hi. cbn [length] in Hi. lia. }
        destruct Hhead as [i [rest [-> Hi]]]. cbn [map] in Hmap. injection Hmap as Hxi Hrest.
        destruct Hi as [->|Hi]; [cbn in Hxi; lia|].
        cbn [length] in Hn. cbn [sumlen] in Hq.
        destruct Halt as [Hl|[Hl Hlast]]; [cbn [length] in Hl; lia|].
        cbn [length] in Hl.
        assert (Hs0 : sumlen rest = 0) by lia.
        destruct rest as [|i2 rest']; [cbn [length] in Hn; lia|].
        change (last (i :: i2 :: rest') []) with (last (i2 :: rest') []) in Hlast.
        apply Hlast. now apply sumlen_zero_last.
Qed.
