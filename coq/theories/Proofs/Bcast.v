(* Single-advertisement lemmas for Model/Bcast.v (C18). *)
From Coq Require Import List NArith ZArith Arith Bool Lia ZifyN ZifyNat ZifyBool.
From AHK Require Import Lib.ByteStr Model.Bcast.
Import ListNotations.
Open Scope N_scope.

Lemma beq_bytes_eq a b : beq_bytes a b = true <-> a = b.
Proof.
  revert b; induction a as [|x a IH]; intros [|y b]; cbn [beq_bytes]; split; intros H;
    try reflexivity; try discriminate.
  - apply andb_true_iff in H. destruct H as [H1 H2]. apply N.eqb_eq in H1. apply IH in H2. now subst.
  - inversion H; subst. rewrite N.eqb_refl. cbn. now apply IH.
Qed.

Lemma beq_bytes_refl a : beq_bytes a a = true.
Proof. now apply beq_bytes_eq. Qed.

Lemma beq_bytes_neq a b : a <> b -> beq_bytes a b = false.
Proof. intros H. destruct (beq_bytes a b) eqn:E; [|reflexivity]. apply beq_bytes_eq in E. contradiction. Qed.

Lemma mem_N_In x l : mem_N x l = true <-> In x l.
Proof.
  induction l as [|y r IH]; cbn [mem_N In]; [split; [discriminate|tauto]|].
  destruct (N.eqb x y) eqn:E.
  - apply N.eqb_eq in E. subst. tauto.
  - apply N.eqb_neq in E. rewrite IH. split; [tauto|]. intros [H|H]; [congruence|assumption].
Qed.

(* ---- the symbolic AEAD -------------------------------------------------- *)

Lemma aopen_seal k n a k' n' a' pt pt' :
  aopen k n a (PSeal k' n' a' pt) = Some pt' <-> k = k' /\ n = n' /\ a = a' /\ pt' = pt.
Proof.
  cbn [aopen]. split.
  - destruct (N.eqb k k') eqn:E1; [|discriminate].
    destruct (N.eqb n n') eqn:E2; [|discriminate].
    destruct (beq_bytes a a') eqn:E3; [|discriminate].
    cbn. intros H. inversion H. apply N.eqb_eq in E1, E2. apply beq_bytes_eq in E3. tauto.
  - intros (-> & -> & -> & ->). now rewrite !N.eqb_refl, beq_bytes_refl.
Qed.

Lemma aopen_junk k n a : aopen k n a PJunk = None.
Proof. reflexivity. Qed.

(* a payload that opens to a non-empty plaintext is a PSeal for exactly these parameters *)
Lemma aopen_nonempty k n a body pt :
  aopen k n a body = Some pt -> pt <> [] -> exists pt0, body = PSeal k n a pt0 /\ pt0 = pt.
Proof.
  destruct body as [k' n' a' pt0| |ats|]; cbn [aopen]; intros H Hne.
  - fold (aopen k n a (PSeal k' n' a' pt0)) in H. apply aopen_seal in H.
    destruct H as (-> & -> & -> & ->). now exists pt0.
  - discriminate.
  - destruct (mem_N n ats); inversion H; subst; contradiction.
  - inversion H; subst; contradiction.
Qed.

Lemma gsn_of_nil : gsn_of [] = 0.
Proof. reflexivity. Qed.

(* ---- candidates and the scan loop --------------------------------------- *)

Lemma in_cands w s n :
  In n (cands_w w s) <-> n = s + 1 \/ n = s \/ (s + 2 <= n < s + 2 + N.of_nat w).
Proof.
  unfold cands_w. cbn [In]. rewrite in_map_iff. split.
  - intros [H|[H|(i & Hi & Hin)]]; [lia|lia|]. apply in_seq in Hin. lia.
  - intros [H|[H|H]]; [left; lia|right; left; lia|]. right; right.
    exists (N.to_nat (n - (s + 2))). split; [lia|]. apply in_seq. lia.
Qed.

Lemma scan_hit k a body cs n pt :
  scan k a body cs = SHit n pt -> In n cs /\ aopen k n a body = Some pt.
Proof.
  induction cs as [|c r IH]; cbn [scan]; [discriminate|].
  destruct (aopen k c a body) eqn:E.
  - intros H; inversion H; subst. split; [now left|assumption].
  - intros H. destruct (IH H). split; [now right|assumption].
Qed.

Lemma scan_none k a body cs :
  scan k a body cs = SNone -> forall n, In n cs -> aopen k n a body = None.
Proof.
  induction cs as [|c r IH]; cbn [scan]; [intros _ n []|].
  destruct (aopen k c a body) eqn:E; [discriminate|].
  intros H n [->|Hin]; [assumption|now apply IH].
Qed.

(* a sealed payload is found by the scan iff its counter is a candidate *)
Lemma scan_seal k a cs n pt :
  In n cs -> scan k a (PSeal k n a pt) cs = SHit n pt.
Proof.
  induction cs as [|c r IH]; [intros []|]. intros Hin. cbn [scan].
  destruct (aopen k c a (PSeal k n a pt)) eqn:E.
  - apply aopen_seal in E. destruct E as (_ & -> & _ & ->). reflexivity.
  - destruct Hin as [->|Hin]; [|now apply IH].
    assert (aopen k n a (PSeal k n a pt) = Some pt) by now apply aopen_seal.
    congruence.
Qed.

(* ---- notify: frame facts -------------------------------------------------- *)

Lemma notify_frame w p a body p' o cl :
  notify_w w p a body = (p', o, cl) ->
  p_id p' = p_id p /\ p_key p' = p_key p /\ p_chars p' = p_chars p /\ p_psn p' = p_psn p /\ p_sig p' = p_sig p.
Proof.
  unfold notify_w. destruct (p_key p) eqn:Ek; [|intros H; inversion H; subst; repeat split; congruence].
  destruct (p_sn p) eqn:Es; [|intros H; inversion H; subst; repeat split; congruence].
  destruct (scan _ _ _ _); [intros H; inversion H; subst; repeat split; congruence|].
  destruct (N.eqb n0 n); [intros H; inversion H; subst; repeat split; congruence|].
  destruct (negb _); [intros H; inversion H; subst; repeat split; congruence|].
  destruct (deliver p pt). intros H; inversion H; subst. cbn. repeat split; congruence.
Qed.

Lemma deliver_calls p pt o cl :
  deliver p pt = (o, cl) ->
  (cl = [] /\ exists ck, o = OUndelivered ck) \/
  (exists f v, find_char (iid_of pt) (p_chars p) = Some f /\ from_bytes f (value_of pt) = inr v /\
               o = OAccepted /\ cl = [(p_id p, 1, iid_of pt, v)]).
Proof.
  unfold deliver. destruct (find_char _ _) as [f|].
  - destruct (from_bytes f _) as [ck|v] eqn:E; intros H; inversion H; subst.
    + left. split; [reflexivity|now exists ck].
    + right. now exists f, v.
  - intros H; inversion H; subst. left. split; [reflexivity|now exists CkNoChar].
Qed.

(* "fresh and authentic at n": the payload opens under the pairing's key with
   AAD = the advertising id of the frame at counter n inside the window above the
   stored number, and the plaintext's inner counter is n *)
Definition fresh_w (w : nat) (p : pairing) (a : bytes) (body : payload) (n : N) (pt : bytes) : Prop :=
  exists k s, p_key p = Some k /\ p_sn p = Some s /\
              aopen k n a body = Some pt /\ s < n < s + 2 + N.of_nat w /\ gsn_of pt = n.

(* soundness: anything that changes the pairing or reaches a listener is fresh *)
Lemma notify_sound w p a body p' o cl :
  notify_w w p a body = (p', o, cl) ->
  p' <> p \/ cl <> [] ->
  exists n pt, fresh_w w p a body n pt.
Proof.
  unfold notify_w. destruct (p_key p) as [k|] eqn:Ek; [|intros H; inversion H; subst; intros [?|?]; congruence].
  destruct (p_sn p) as [s|] eqn:Es; [|intros H; inversion H; subst; intros [?|?]; congruence].
  destruct (scan k a body (cands_w w s)) as [|n pt] eqn:Esc; [intros H; inversion H; subst; intros [?|?]; congruence|].
  destruct (N.eqb n s) eqn:Ens; [intros H; inversion H; subst; intros [?|?]; congruence|].
  destruct (N.eqb (gsn_of pt) n) eqn:Eg; cbn [negb]; [|intros H; inversion H; subst; intros [?|?]; congruence].
  intros _ _. apply scan_hit in Esc. destruct Esc as [Hin Hop].
  apply in_cands in Hin. apply N.eqb_neq in Ens. apply N.eqb_eq in Eg.
  exists n, pt, k, s. repeat split; try assumption; lia.
Qed.

(* completeness: a fresh payload is accepted, the stored number becomes n and the
   listeners get exactly what [deliver] says *)
Lemma notify_complete w p a body n pt :
  fresh_w w p a body n pt ->
  notify_w w p a body = (with_sn p n, fst (deliver p pt), snd (deliver p pt)).
Proof.
  intros (k & s & Ek & Es & Hop & Hwin & Hg).
  assert (Hne : pt <> []).
  { intros ->. rewrite gsn_of_nil in Hg. lia. }
  destruct (aopen_nonempty _ _ _ _ _ Hop Hne) as (pt0 & -> & ->).
  unfold notify_w. rewrite Ek, Es.
  rewrite scan_seal by (apply in_cands; lia).
  assert (N.eqb n s = false) as -> by (apply N.eqb_neq; lia).
  rewrite Hg, N.eqb_refl. cbn [negb].
  destruct (deliver p pt). reflexivity.
Qed.

Lemma with_sn_neq p s n : p_sn p = Some s -> s <> n -> with_sn p n <> p.
Proof. intros Hs Hn E. rewrite <- E in Hs. cbn in Hs. congruence. Qed.

(* nothing fresh: the advertisement is ignored *)
Lemma notify_ignored w p a body :
  (forall n pt, ~ fresh_w w p a body n pt) ->
  exists o, notify_w w p a body = (p, o, []).
Proof.
  intros H. destruct (notify_w w p a body) as [[p' o] cl] eqn:E.
  destruct (list_eq_dec N.eq_dec [] []) as [_|]; [|congruence].
  assert (D : {p' = p} + {p' <> p}).
  { destruct p as [i k s ps c sg], p' as [i' k' s' ps' c' sg'].
    pose proof (notify_frame _ _ _ _ _ _ _ E) as (Hi & Hk & Hc & Hps & Hsg). cbn in Hi, Hk, Hc, Hps, Hsg. subst.
    destruct s as [s|], s' as [s'|]; try (right; congruence); [|now left].
    destruct (N.eq_dec s s'); [left; congruence|right; congruence]. }
  destruct D as [->|Hne].
  - destruct cl as [|x cl]; [now exists o|].
    exfalso. destruct (notify_sound _ _ _ _ _ _ _ E) as (n & pt & Hf); [right; discriminate|].
    exact (H _ _ Hf).
  - exfalso. destruct (notify_sound _ _ _ _ _ _ _ E) as (n & pt & Hf); [now left|].
    exact (H _ _ Hf).
Qed.

(* the full single-step characterisation *)
Lemma accept_iff w p a body p' o cl :
  notify_w w p a body = (p', o, cl) ->
  ((p' <> p \/ cl <> []) <-> exists n pt, fresh_w w p a body n pt) /\
  (forall n pt, fresh_w w p a body n pt ->
     p' = with_sn p n /\ p_sn p' = Some n /\ (o, cl) = deliver p pt /\
     (forall f v, find_char (iid_of pt) (p_chars p) = Some f ->
                  from_bytes f (value_of pt) = inr v ->
                  o = OAccepted /\ cl = [(p_id p, 1, iid_of pt, v)])) /\
  ((forall n pt, ~ fresh_w w p a body n pt) -> p' = p /\ cl = []).
Proof.
  intros E. split; [|split].
  - split; [now apply (notify_sound _ _ _ _ _ _ _ E)|].
    intros (n & pt & Hf). pose proof (notify_complete _ _ _ _ _ _ Hf) as Hc.
    rewrite E in Hc. inversion Hc; subst. left.
    destruct Hf as (k & s & _ & Hs & _ & Hw & _). apply (with_sn_neq _ s); [assumption|lia].
  - intros n pt Hf. pose proof (notify_complete _ _ _ _ _ _ Hf) as Hc.
    rewrite E in Hc. inversion Hc; subst. split; [reflexivity|]. split; [reflexivity|].
    split; [now destruct (deliver p pt)|].
    intros f v Hfc Hfb. unfold deliver. rewrite Hfc, Hfb. cbn. split; reflexivity.
  - intros H. destruct (notify_ignored _ _ _ _ H) as (o' & Ho). rewrite E in Ho. inversion Ho; subst. tauto.
Qed.

(* any change of the stored number is a strict increase inside the window *)
Lemma notify_sn_step w p a body p' o cl :
  notify_w w p a body = (p', o, cl) ->
  (p' = p /\ cl = []) \/
  (exists s n, p_sn p = Some s /\ p_sn p' = Some n /\ s < n < s + 2 + N.of_nat w).
Proof.
  intros E.
  destruct (accept_iff _ _ _ _ _ _ _ E) as (Hiff & Hacc & Hign).
  assert (D : (exists n pt, fresh_w w p a body n pt) \/ (forall n pt, ~ fresh_w w p a body n pt)).
  { destruct (notify_w w p a body) as [[q o'] cl'] eqn:E'. inversion E; subst.
    assert (Dq : {p' = p} + {p' <> p}).
    { destruct p as [i k s ps c sg], p' as [i' k' s' ps' c' sg'].
      pose proof (notify_frame _ _ _ _ _ _ _ E') as (Hi & Hk & Hc & Hps & Hsg). cbn in Hi, Hk, Hc, Hps, Hsg. subst.
      destruct s as [s|], s' as [s'|]; try (right; congruence); [|now left].
      destruct (N.eq_dec s s'); [left; congruence|right; congruence]. }
    destruct Dq as [->|Hne]; [|left; apply Hiff; now left].
    destruct cl as [|x cl]; [|left; apply Hiff; right; discriminate].
    right. intros n pt Hf. destruct (Hacc _ _ Hf) as (Hp & _).
    destruct Hf as (k & s & _ & Hs & _ & Hw & _).
    apply (with_sn_neq p s n); [assumption|lia|now symmetry]. }
  destruct D as [(n & pt & Hf)|Hno].
  - right. destruct (Hacc _ _ Hf) as (_ & Hsn & _).
    destruct Hf as (k & s & _ & Hs & _ & Hw & _). exists s, n. tauto.
  - left. now apply Hign.
Qed.

(* ---- forgeries and stale payloads ---------------------------------------- *)

Lemma not_fresh_junk w p a n pt : ~ fresh_w w p a PJunk n pt.
Proof. intros (k & s & _ & _ & H & _). discriminate. Qed.

Lemma not_fresh_empty_pt w p a body n : ~ fresh_w w p a body n [].
Proof. intros (k & s & _ & _ & _ & Hw & Hg). rewrite gsn_of_nil in Hg. lia. Qed.

Lemma not_fresh_short w p a ats n pt : ~ fresh_w w p a (PShort ats) n pt.
Proof.
  intros Hf. pose proof Hf as (k & s & _ & _ & H & _). cbn in H.
  destruct (mem_N n ats); [|discriminate]. inversion H; subst. exact (not_fresh_empty_pt _ _ _ _ _ Hf).
Qed.

Lemma not_fresh_empty w p a n pt : ~ fresh_w w p a PEmpty n pt.
Proof.
  intros Hf. pose proof Hf as (k & s & _ & _ & H & _). cbn in H.
  inversion H; subst. exact (not_fresh_empty_pt _ _ _ _ _ Hf).
Qed.

Lemma not_fresh_wrong_key w p a k' m a' pt0 n pt :
  p_key p <> Some k' -> ~ fresh_w w p a (PSeal k' m a' pt0) n pt.
Proof. intros Hk (k & s & Ek & _ & H & _). apply aopen_seal in H. destruct H as (-> & _). congruence. Qed.

Lemma not_fresh_wrong_aad w p a k' m a' pt0 n pt :
  a' <> a -> ~ fresh_w w p a (PSeal k' m a' pt0) n pt.
Proof. intros Ha (k & s & _ & _ & H & _). apply aopen_seal in H. destruct H as (_ & _ & -> & _). congruence. Qed.

Lemma not_fresh_old w p a k' m a' pt0 n pt s :
  p_sn p = Some s -> m <= s -> ~ fresh_w w p a (PSeal k' m a' pt0) n pt.
Proof.
  intros Hs Hm (k & s' & _ & Es & H & Hw & _). apply aopen_seal in H. destruct H as (_ & -> & _).
  rewrite Hs in Es. inversion Es; subst. lia.
Qed.

Lemma not_fresh_beyond w p a k' m a' pt0 n pt s :
  p_sn p = Some s -> s + 2 + N.of_nat w <= m -> ~ fresh_w w p a (PSeal k' m a' pt0) n pt.
Proof.
  intros Hs Hm (k & s' & _ & Es & H & Hw & _). apply aopen_seal in H. destruct H as (_ & -> & _).
  rewrite Hs in Es. inversion Es; subst. lia.
Qed.

Lemma not_fresh_inner w p a k' m a' pt0 n pt :
  gsn_of pt0 <> m -> ~ fresh_w w p a (PSeal k' m a' pt0) n pt.
Proof.
  intros Hg (k & s' & _ & _ & H & _ & Hg'). apply aopen_seal in H. destruct H as (_ & -> & _ & ->). congruence.
Qed.

Lemma not_fresh_no_key w p a body n pt : p_key p = None -> ~ fresh_w w p a body n pt.
Proof. intros Hk (k & s & Ek & _). congruence. Qed.

(* "old" payloads in general: every self-consistent opening is at a counter <= m *)
Definition old_for (k : key) (a : bytes) (body : payload) (m : N) : Prop :=
  forall n pt, aopen k n a body = Some pt -> gsn_of pt = n -> n <= m.

Lemma not_fresh_old_for w p a body m n pt k s :
  p_key p = Some k -> p_sn p = Some s -> old_for k a body m -> m <= s -> ~ fresh_w w p a body n pt.
Proof.
  intros Hk Hs Hold Hm (k' & s' & Ek & Es & H & Hw & Hg).
  rewrite Hk in Ek. inversion Ek; subst k'. rewrite Hs in Es. inversion Es; subst s'.
  specialize (Hold _ _ H Hg). lia.
Qed.

Lemma fresh_old_for w p a body n pt k :
  p_key p = Some k -> fresh_w w p a body n pt -> old_for k a body n.
Proof.
  intros Hk (k' & s & Ek & _ & H & Hw & Hg) n' pt' H' Hg'.
  rewrite Hk in Ek. inversion Ek; subst k'.
  assert (pt <> []) by (intros ->; rewrite gsn_of_nil in Hg; lia).
  destruct (aopen_nonempty _ _ _ _ _ H H0) as (pt0 & -> & ->).
  apply aopen_seal in H'. lia.
Qed.
