(* C02 - the HAP instance: facts about the concrete group and constants, and the
   refinement of the BigN evaluator used by the correspondence runs. *)
From Coq Require Import List NArith ZArith Arith Bool Lia ZifyN ZifyNat ZifyBool.
From Bignums Require Import BigN.
From AHK Require Import Lib.Res Lib.ByteStr Model.Sha512 Model.Srp Model.SrpServer Model.SrpCases Model.SrpBig
  Proofs.Sha512 Proofs.SrpBytes Proofs.Srp Proofs.SrpServer.
Import ListNotations.
Local Open Scope Z_scope.

(* ------------------------------------------------------------ group facts (by computation) *)

Lemma N3072_pos : 0 < N3072.
Proof. reflexivity. Qed.

Lemma N3072_gt1 : 1 < N3072.
Proof. reflexivity. Qed.

Lemma N3072_fits : (Z.to_N N3072 <= P256 HK_KEY_LENGTH)%N.
Proof. vm_compute. discriminate. Qed.

(* N really needs all 384 bytes: PAD does not pad the modulus *)
Lemma N3072_bytes : byte_len (Z.to_N N3072) = HK_KEY_LENGTH.
Proof. vm_compute. reflexivity. Qed.

Lemma G3072_coprime : Z.gcd G3072 N3072 = 1.
Proof. vm_compute. reflexivity. Qed.

(* CLIENT_K_VALUE is SHA-512(N | PAD(g)) *)
Lemma k_constant : K_LITERAL = spec_k sha512 N3072 G3072 HK_KEY_LENGTH.
Proof. vm_compute. reflexivity. Qed.

(* H_GROUP is SHA-512(N) xor SHA-512(g), g not padded *)
Lemma hgroup_constant : HGROUP_BYTES = spec_hgroup sha512 N3072 G3072 HK_KEY_LENGTH.
Proof. vm_compute. reflexivity. Qed.

(* ... and what srp.py evaluates, H(to_byte_array(N)) xor H(to_byte_array(g)), is the same *)
Lemma hgroup_as_written :
  HGROUP_BYTES = xor_bytes (sha512 (tba (Z.to_N N3072))) (sha512 (tba (Z.to_N G3072))).
Proof. vm_compute. reflexivity. Qed.

(* ------------------------------------------------------------ BigN refinement *)

Local Notation "[ x ]" := (BigN.to_Z x).

Lemma bpowm_pos_spec b e m : [bpowm_pos b e m] = powm_pos [b] e [m].
Proof.
  induction e as [e IH|e IH|]; cbn [bpowm_pos powm_pos].
  - rewrite BigN.spec_modulo, BigN.spec_mul, BigN.spec_modulo, BigN.spec_mul, IH. reflexivity.
  - rewrite BigN.spec_modulo, BigN.spec_mul, IH. reflexivity.
  - reflexivity.
Qed.

Lemma big_mod_spec b mb : 0 < [mb] -> [big_mod b mb] = b mod [mb].
Proof.
  intros Hm. unfold big_mod.
  assert (E : [BigN.modulo (BigN.of_N (Z.abs_N b)) mb] = Z.abs b mod [mb]).
  { rewrite BigN.spec_modulo, BigN.spec_of_N, N2Z.inj_abs_N. reflexivity. }
  destruct (Z.ltb_spec b 0) as [Hneg|Hpos].
  - rewrite BigN.spec_modulo, BigN.spec_sub, E.
    assert (0 <= Z.abs b mod [mb] < [mb]) as Hr by (apply Z.mod_pos_bound; assumption).
    rewrite Z.max_r by lia.
    rewrite Zminus_mod_idemp_r.
    replace (Z.abs b) with (- b) by lia.
    replace ([mb] - - b) with (b + 1 * [mb]) by ring.
    apply Z_mod_plus_full.
  - rewrite E. now rewrite Z.abs_eq.
Qed.

Lemma powm_fast_eq b e m : 0 < m -> powm_fast b e m = powm b e m.
Proof.
  intros Hm. destruct e as [|p|p]; cbn [powm_fast powm]; try reflexivity.
  assert (Em : [BigN.of_N (Z.to_N m)] = m) by (rewrite BigN.spec_of_N; lia).
  rewrite bpowm_pos_spec, big_mod_spec, Em by (rewrite Em; assumption). reflexivity.
Qed.

(* ------------------------------------------------------------ independence from the evaluator *)

Lemma client_ext H PM1 PM2 Nm g kc hgroup L SL :
  (forall b e, PM1 b e Nm = PM2 b e Nm) ->
  forall I P a salt B_b,
    client H PM1 Nm g kc hgroup L SL I P a salt B_b = client H PM2 Nm g kc hgroup L SL I P a salt B_b.
Proof.
  intros E I P a salt B_b. unfold client, cl_A. rewrite E.
  destruct (padded (PM2 g a Nm) L) as [A_b| | |]; cbn [rbind]; try reflexivity.
  destruct (padded (from_bytes salt) SL) as [salt_b| | |]; cbn [rbind]; try reflexivity.
  unfold cl_S. rewrite !E. reflexivity.
Qed.

Lemma server_x_ext H PM1 PM2 Nm g L :
  (forall b e, PM1 b e Nm = PM2 b e Nm) ->
  forall I P salt b A_b M1_b,
    server_x H PM1 Nm g L I P salt b A_b M1_b = server_x H PM2 Nm g L I P salt b A_b M1_b.
Proof.
  intros E I P salt b A_b M1_b. unfold server_x. cbv zeta. rewrite !E. reflexivity.
Qed.

Lemma srpserver_ext H PM1 PM2 Nm g kc hgroup L PL :
  (forall b e, PM1 b e Nm = PM2 b e Nm) ->
  forall guard I P salt b pub M1_b,
    srpserver H PM1 Nm g kc hgroup L PL guard I P salt b pub M1_b =
    srpserver H PM2 Nm g kc hgroup L PL guard I P salt b pub M1_b.
Proof.
  intros E guard I P salt b pub M1_b. unfold srpserver. rewrite !E.
  destruct (padded _ L) as [B_b| | |]; cbn [rbind]; try reflexivity.
  destruct pub as [A|A_b].
  - destruct (padded A L) as [A_b| | |]; cbn [rbind]; try reflexivity.
    destruct (guard && (A mod Nm =? 0)); [reflexivity|]. rewrite !E. reflexivity.
  - cbn [rbind]. destruct (guard && (from_bytes A_b mod Nm =? 0)); [reflexivity|]. rewrite !E. reflexivity.
Qed.

Lemma hap_srpserver_fast guard I P salt b pub M1_b :
  hap_srpserver powm_fast guard I P salt b pub M1_b = hap_srpserver powm guard I P salt b pub M1_b.
Proof. apply srpserver_ext. intros x e. apply powm_fast_eq. exact N3072_pos. Qed.

(* what the correspondence evaluates is what the theorems are about *)
Lemma hap_client_fast I P a salt B_b :
  hap_client powm_fast I P a salt B_b = hap_client powm I P a salt B_b.
Proof. apply client_ext. intros b e. apply powm_fast_eq. exact N3072_pos. Qed.

Lemma hap_server_fast I P salt b A_b M1_b :
  0 <= b -> hap_server_x powm_fast I P salt b A_b M1_b = hap_server I P salt b A_b M1_b.
Proof.
  intros Hb. unfold hap_server_x, hap_server.
  rewrite (server_x_ext sha512 powm_fast powm) by (intros; apply powm_fast_eq; exact N3072_pos).
  apply server_x_spec; [apply powm_spec|exact N3072_pos|assumption].
Qed.

(* ------------------------------------------------------------ non-vacuity of the generic theorem:
   a toy instance (hash = one byte of checksum, group N = 2027, g = 2, 2-byte keys)
   meets every hypothesis of [exchange], and the exchange evaluates as the theorem says.
   (Exchanges in the real 3072-bit group are evaluated by every correspondence run;
   one is not kept here because coqchk re-evaluates it without the VM: ~5 min.) *)
Definition toyH (m : bytes) : bytes := ((fold_left N.add m 0 + N.of_nat (length m)) mod 251)%N :: nil.

Definition toy_exchange_check : bool :=
  let Nm := 2027 in
  let g := 2 in
  let kc := spec_k toyH Nm g 2 in
  let hg := spec_hgroup toyH Nm g 2 in
  let I := [80; 97; 105; 114]%N in
  let P := [49; 50; 51]%N in
  let salt := (0 :: 0 :: repeat 7 14)%N in
  let a := 77 in
  let b := 13 in
  let B_b := sv_public toyH Nm g 2 I P salt b in
  match client toyH powm Nm g kc hg 2 16 I P a salt B_b with
  | Ok r =>
      let s := server toyH Nm g 2 I P salt b (r_A_b r) (r_M1 r) in
      Nat.eqb (length (r_A_b r)) 2 && s_ok s && beq (r_K r) (s_K s) && (r_S r =? s_S s) &&
      cl_accepts r (s_M2 s) && negb (cl_accepts r (flip_bit (s_M2 s) 0 3))
  | _ => false
  end.

Lemma toy_exchange_ok :
  toy_exchange_check = true /\
  1 < 2027 /\ Z.gcd 2 2027 = 1 /\ (Z.to_N 2027 <= P256 2)%N /\
  length (0 :: 0 :: repeat 7 14)%N = 16%nat /\ all_bytes (0 :: 0 :: repeat 7 14)%N = true.
Proof. vm_compute. repeat split; try reflexivity; discriminate. Qed.

(* toy instance for the SrpServer theorems: the honest client is accepted by both variants; the
   zero-key message is accepted without the guard and rejected (Err) with it *)
Definition toy_srpserver_check : bool :=
  let Nm := 2027 in
  let g := 2 in
  let kc := spec_k toyH Nm g 2 in
  let hg := spec_hgroup toyH Nm g 2 in
  let I := (80 :: 97 :: 105 :: 114 :: nil)%N in
  let P := (49 :: 50 :: 51 :: nil)%N in
  let salt := (0 :: 0 :: repeat 7 14)%N in
  let b := 13 in
  let B_b := sv_public toyH Nm g 2 I P salt b in
  let forged := toyH (hg ++ toyH I ++ salt ++ PAD 2 0 ++ B_b ++ toyH (PAD 2 0)) in
  let srv := srpserver toyH powm Nm g kc hg 2 1 in
  match client toyH powm Nm g kc hg 2 16 I P 77 salt B_b with
  | Ok r =>
      match srv true I P salt b (inr (r_A_b r)) (r_M1 r), srv false I P salt b (inr (PAD 2 0)) forged,
            srv true I P salt b (inr (PAD 2 0)) forged with
      | Ok q, Ok z, Err _ => p_ok q && beq (p_K q) (r_K r) && cl_accepts r (p_M2 q) && p_ok z && (p_S z =? 0)
      | _, _, _ => false
      end
  | _ => false
  end.

Lemma toy_srpserver_ok : toy_srpserver_check = true.
Proof. vm_compute. reflexivity. Qed.

(* the input-decoding glue of the case files agrees with [bytes_of] (samples) *)
Example bytes_of_fast_samples :
  forallb (fun p => beq (bytes_of_fast (fst p) (snd p)) (bytes_of (fst p) (snd p)))
    [(0, 0); (0, 5); (1, 0); (1, 255); (1, 256); (2, 255); (2, 256); (3, 65535); (16, 0); (16, 1);
     (16, 2 ^ 127); (16, 2 ^ 128 - 1); (16, 2 ^ 128 + 77); (64, 2 ^ 504); (64, 2 ^ 503 + 12345);
     (384, Z.to_N N3072); (384, 5); (383, Z.to_N N3072); (10, 0x506169722d5365747570)]%N = true.
Proof. vm_compute. reflexivity. Qed.
