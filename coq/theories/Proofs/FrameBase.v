(* C05 - list / codec helpers shared by FrameFeed.v and FrameSend.v *)
From Coq Require Import List NArith ZArith Arith Bool Lia ZifyN ZifyNat ZifyBool.
From AHK Require Import Lib.Res Lib.ByteStr Model.Frame.
Import ListNotations.

Lemma firstn_app_le {A} n (l d : list A) : n <= length l -> firstn n (l ++ d) = firstn n l.
Proof.
  intros H. rewrite firstn_app. replace (n - length l) with 0 by lia.
  cbn [firstn]. apply app_nil_r.
Qed.

Lemma skipn_app_le {A} n (l d : list A) : n <= length l -> skipn n (l ++ d) = skipn n l ++ d.
Proof.
  intros H. rewrite skipn_app. replace (n - length l) with 0 by lia. reflexivity.
Qed.

Lemma firstn_exact {A} n (l r : list A) : length l = n -> firstn n (l ++ r) = l.
Proof.
  intros <-. rewrite firstn_app, Nat.sub_diag, firstn_all. cbn [firstn]. apply app_nil_r.
Qed.

Lemma skipn_exact {A} n (l r : list A) : length l = n -> skipn n (l ++ r) = r.
Proof.
  intros <-. rewrite skipn_app, Nat.sub_diag, skipn_all. reflexivity.
Qed.

Lemma len16_length p : length (len16 p) = 2.
Proof. apply le_enc_length. Qed.

Lemma len16_dec p : (N.of_nat (length p) < 65536)%N -> N.to_nat (le_dec (len16 p)) = length p.
Proof.
  intros H. unfold len16. rewrite le_dec_enc.
  - apply Nat2N.id.
  - exact H.
Qed.

Lemma nonce_length c : length (nonce_of c) = 12.
Proof. unfold nonce_of. rewrite app_length, le_enc_length. reflexivity. Qed.

Lemma nonce_inj a b : (a < ctr_limit)%N -> (b < ctr_limit)%N -> nonce_of a = nonce_of b -> a = b.
Proof.
  intros Ha Hb H. unfold nonce_of in H. apply app_inv_head in H.
  rewrite <- (le_dec_enc 8 a), <- (le_dec_enc 8 b) by assumption.
  now rewrite H.
Qed.

(* the toy cipher meets the AEAD hypotheses *)
Lemma beq_bytes_refl x : beq_bytes x x = true.
Proof. induction x as [|a x IH]; cbn; [reflexivity|]. now rewrite N.eqb_refl, IH. Qed.

Lemma toy_tag_length n a : length (toy_tag n a) = 16.
Proof.
  unfold toy_tag. rewrite firstn_length, !app_length, repeat_length. lia.
Qed.

Lemma toy_ok : aead_ok toy_aead 16.
Proof.
  split; intros k n a p; cbn [toy_aead seal open]; unfold toy_seal, toy_open.
  - rewrite app_length, toy_tag_length.
    replace (length p + 16 <? 16) with false by (symmetry; apply Nat.ltb_ge; lia).
    replace (length p + 16 - 16) with (length p) by lia.
    rewrite skipn_exact, firstn_exact by reflexivity.
    now rewrite beq_bytes_refl.
  - rewrite app_length, toy_tag_length. reflexivity.
Qed.
