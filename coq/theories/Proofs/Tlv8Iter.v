(* C16: tlv_iterator / tlv_array on rendered item lists.
   The iterator, run on the concatenation of the fragment encodings of items
   (t1,e1) ... (tm,em) whose adjacent types differ, yields exactly those items -
   including when a value's length is a multiple of F, where the look-ahead
   inspects the first byte of whatever follows. *)
From Coq Require Import List NArith ZArith Arith Bool Lia ZifyN ZifyNat ZifyBool.
From AHK Require Import Lib.Res Lib.ByteStr Model.Tlv8.
Import ListNotations.

Lemma t8_firstn_app_exact {A} (a b : list A) : firstn (length a) (a ++ b) = a.
Proof. rewrite firstn_app, Nat.sub_diag, firstn_all; simpl; apply app_nil_r. Qed.

Lemma t8_skipn_app_exact {A} (a b : list A) : skipn (length a) (a ++ b) = b.
Proof. rewrite skipn_app, Nat.sub_diag, skipn_all; reflexivity. Qed.

Lemma t8_firstn_app_len {A} n (a b : list A) : length a = n -> firstn n (a ++ b) = a.
Proof. intros <-. apply t8_firstn_app_exact. Qed.

Lemma t8_skipn_app_len {A} n (a b : list A) : length a = n -> skipn n (a ++ b) = b.
Proof. intros <-. apply t8_skipn_app_exact. Qed.

(* the byte after a value is not its type (or there is none) *)
Definition hd_ne (t : N) (s : bytes) : Prop :=
  match s with [] => True | x :: _ => x <> t end.

Fixpoint no_adj (l : list N) : Prop :=
  match l with
  | a :: r => match r with b :: _ => a <> b | [] => True end /\ no_adj r
  | [] => True
  end.

Definition nonempty (p : N * bytes) : Prop := snd p <> [].

Section Iter.
  Variable F : nat.
  Hypothesis Fpos : 0 < F.

  Lemma frags_nil fe t : frags F fe t [] = [].
  Proof. destruct fe; reflexivity. Qed.

  Lemma frags_cons fe t b e :
    frags F (S fe) t (b :: e) =
    t :: N.of_nat (length (firstn F (b :: e))) :: firstn F (b :: e) ++ frags F fe t (skipn F (b :: e)).
  Proof. reflexivity. Qed.

  Lemma frags_length_ge t : forall fe e, length e <= fe -> length e <= length (frags F fe t e).
  Proof.
    induction fe as [|fe IH]; intros e H.
    - destruct e; cbn in *; lia.
    - destruct e as [|b e]; [cbn; lia|].
      rewrite frags_cons. cbn [length]. rewrite app_length.
      specialize (IH (skipn F (b :: e))).
      rewrite skipn_length in IH. rewrite firstn_length. cbn [length] in *. lia.
  Qed.

  Lemma gather_eq f t l body value pre :
    gather F (S f) t l body value pre =
    let stop := Ok {| y_tag := t; y_len := l; y_val := value; y_pre := pre;
                      y_last := firstn (N.to_nat l) body; y_next := skipn (N.to_nat l) body |} in
    if N.eqb l (N.of_nat F) then
      match skipn F body with
      | [] => stop
      | t' :: r =>
          if N.eqb t' t then
            match r with
            | [] => Crash
            | l' :: body' =>
                gather F f t l' body' (value ++ firstn (N.to_nat l') body') (pre ++ t :: l :: firstn F body)
            end
          else stop
      end
    else stop.
  Proof. reflexivity. Qed.

  (* the last fragment: the loop stops *)
  Lemma gather_stop t rest c v0 pre f :
    hd_ne t rest -> length c <= F ->
    gather F (S f) t (N.of_nat (length c)) (c ++ rest) v0 pre =
    Ok {| y_tag := t; y_len := N.of_nat (length c); y_val := v0; y_pre := pre; y_last := c; y_next := rest |}.
  Proof.
    intros Hh Hc. rewrite gather_eq. cbv zeta.
    rewrite Nat2N.id, t8_firstn_app_exact, t8_skipn_app_exact.
    destruct (N.eqb (N.of_nat (length c)) (N.of_nat F)) eqn:E; [|reflexivity].
    assert (length c = F) by lia.
    rewrite (t8_skipn_app_len F c rest) by assumption.
    destruct rest as [|t' r]; [reflexivity|].
    cbn in Hh. destruct (N.eqb_spec t' t); [contradiction|reflexivity].
  Qed.

  Lemma gather_frags t rest : hd_ne t rest ->
    forall fe e' c v0 pre fuel,
      length e' <= fe -> length e' < fuel ->
      length c <= F -> (e' <> [] -> length c = F) ->
      exists y, gather F fuel t (N.of_nat (length c)) (c ++ frags F fe t e' ++ rest) v0 pre = Ok y
        /\ y_tag y = t /\ y_val y = v0 ++ e' /\ y_next y = rest
        /\ y_pre y ++ t :: y_len y :: y_last y = pre ++ t :: N.of_nat (length c) :: c ++ frags F fe t e'.
  Proof.
    intros Hh. induction fe as [|fe IH]; intros e' c v0 pre fuel Hfe Hfuel Hc Hfull.
    - destruct e'; [|cbn in Hfe; lia]. destruct fuel as [|f]; [lia|].
      cbn [frags app]. rewrite gather_stop by assumption.
      eexists. split; [reflexivity|]. cbn. rewrite !app_nil_r. repeat split; reflexivity.
    - destruct e' as [|b e'].
      + destruct fuel as [|f]; [lia|]. rewrite frags_nil. cbn [app].
        rewrite gather_stop by assumption.
        eexists. split; [reflexivity|]. cbn. rewrite !app_nil_r. repeat split; reflexivity.
      + assert (HcF : length c = F) by (apply Hfull; discriminate).
        destruct fuel as [|f]; [lia|].
        rewrite gather_eq. cbv zeta. rewrite HcF, N.eqb_refl.
        rewrite (t8_skipn_app_len F c _ HcF), (t8_firstn_app_len F c _ HcF).
        rewrite frags_cons. cbn [app]. rewrite N.eqb_refl.
        set (c' := firstn F (b :: e')). set (e2 := skipn F (b :: e')).
        rewrite <- app_assoc.
        rewrite Nat2N.id, t8_firstn_app_exact.
        assert (Hc' : length c' <= F) by (unfold c'; rewrite firstn_length; lia).
        assert (He2 : length e2 = length (b :: e') - F) by (unfold e2; apply skipn_length).
        destruct (IH e2 c' (v0 ++ c') (pre ++ t :: N.of_nat F :: c) f) as [y [Hy [H1 [H2 [H3 H4]]]]].
        * cbn [length] in *. lia.
        * cbn [length] in *. lia.
        * exact Hc'.
        * intros Hne. unfold c'. rewrite firstn_length.
          destruct e2; [contradiction|]. cbn [length] in *. lia.
        * exists y. split; [exact Hy|]. split; [exact H1|]. split.
          -- rewrite H2, <- app_assoc. f_equal. unfold c', e2. apply firstn_skipn.
          -- split; [exact H3|]. rewrite H4, <- app_assoc. reflexivity.
  Qed.

  (* one iterator step over a complete fragmented value *)
  Lemma step_frags t e rest fe :
    e <> [] -> length e <= fe -> hd_ne t rest ->
    exists y, step F (frags F fe t e ++ rest) = Ok y
      /\ y_tag y = t /\ y_val y = e /\ y_next y = rest
      /\ y_pre y ++ t :: y_len y :: y_last y = frags F fe t e.
  Proof.
    intros He Hfe Hh. destruct e as [|b e]; [contradiction|].
    destruct fe as [|fe]; [cbn in Hfe; lia|].
    rewrite frags_cons. cbn [app step].
    set (c := firstn F (b :: e)). set (e2 := skipn F (b :: e)).
    rewrite <- app_assoc. rewrite Nat2N.id, t8_firstn_app_exact.
    assert (Hc : length c <= F) by (unfold c; rewrite firstn_length; lia).
    assert (He2 : length e2 = length (b :: e) - F) by (unfold e2; apply skipn_length).
    destruct (gather_frags t rest Hh fe e2 c c [] (S (length (c ++ frags F fe t e2 ++ rest))))
      as [y [Hy [H1 [H2 [H3 H4]]]]].
    - cbn [length] in *. lia.
    - rewrite !app_length. pose proof (frags_length_ge t fe e2). cbn [length] in *. lia.
    - exact Hc.
    - intros Hne. unfold c. rewrite firstn_length. destruct e2; [contradiction|]. cbn [length] in *. lia.
    - exists y. split; [exact Hy|]. split; [exact H1|]. split.
      + rewrite H2. unfold c, e2. apply firstn_skipn.
      + split; [exact H3|]. rewrite H4. reflexivity.
  Qed.

  (* a list separator "00 00" *)
  Lemma step_sep rest :
    step F (0%N :: 0%N :: rest) =
    Ok {| y_tag := 0; y_len := 0; y_val := []; y_pre := []; y_last := []; y_next := rest |}.
  Proof.
    cbn [step]. rewrite gather_eq. cbv zeta.
    destruct (N.eqb 0 (N.of_nat F)) eqn:E; [lia|]. reflexivity.
  Qed.

  (* ---------- rendered item lists ---------- *)
  Definition render (L : list (N * bytes)) : bytes :=
    concat (map (fun p => emit F (fst p) (snd p)) L).

  Lemma emit_hd t e : e <> [] -> exists tl, emit F t e = t :: tl.
  Proof. destruct e as [|b e]; [contradiction|]. intros _. unfold emit. cbn [length]. rewrite frags_cons. eexists; reflexivity. Qed.

  Lemma emit_nonnil t e : e <> [] -> emit F t e <> [].
  Proof. intros H. destruct (emit_hd t e H) as [tl ->]. discriminate. Qed.

  Lemma render_cons t e L : render ((t, e) :: L) = emit F t e ++ render L.
  Proof. reflexivity. Qed.

  Lemma render_app L1 L2 : render (L1 ++ L2) = render L1 ++ render L2.
  Proof. unfold render. now rewrite map_app, concat_app. Qed.

  Lemma render_length_ge L : Forall nonempty L -> length L <= length (render L).
  Proof.
    induction 1 as [|[t e] L H _ IH]; [cbn; lia|].
    rewrite render_cons, app_length. cbn [length].
    destruct (emit_hd t e H) as [tl ->]. cbn [length]. lia.
  Qed.

  Lemma render_nonnil L : Forall nonempty L -> L <> [] -> render L <> [].
  Proof.
    intros H Hn. destruct L as [|[t e] L]; [contradiction|]. inversion H; subst.
    rewrite render_cons. destruct (emit_hd t e) as [tl ->]; [assumption|]. discriminate.
  Qed.

  (* what follows item (t,_) inside render ((t,_) :: L) ++ rest *)
  Lemma hd_ne_next t L rest :
    Forall nonempty L ->
    match L with [] => hd_ne t rest | p :: _ => t <> fst p end ->
    hd_ne t (render L ++ rest).
  Proof.
    intros HL H. destruct L as [|[t' e'] L]; [exact H|].
    inversion HL; subst. rewrite render_cons.
    destruct (emit_hd t' e') as [tl ->]; [assumption|]. cbn in *. congruence.
  Qed.

  Lemma items_f_step f s : s <> [] ->
    items_f F (S f) s =
    match step F s with
    | Ok y => let (l, e) := items_f F f (y_next y) in ((y_tag y, y_val y) :: l, e)
    | OutOfFuel => ([], FinFuel)
    | _ => ([], FinCrash)
    end.
  Proof. destruct s; [contradiction|reflexivity]. Qed.

  Lemma arr_f_step f s cur : s <> [] ->
    arr_f F (S f) s cur =
    match step F s with
    | Ok y =>
        if N.eqb (y_tag y) 0 then
          let (l, e) := arr_f F f (y_next y) (y_last y) in ((cur ++ y_pre y) :: l, e)
        else arr_f F f (y_next y) (cur ++ y_pre y ++ y_tag y :: y_len y :: y_last y)
    | OutOfFuel => ([], FinFuel)
    | _ => ([], FinCrash)
    end.
  Proof. destruct s; [contradiction|reflexivity]. Qed.

  Lemma app_nonnil_l {A} (a b : list A) : a <> [] -> a ++ b <> [].
  Proof. destruct a; [contradiction|discriminate]. Qed.

  (* the generator yields exactly the items *)
  Lemma items_render : forall L k,
      Forall nonempty L -> no_adj (map fst L) ->
      items_f F (length L + S k) (render L) = (L, FinOk).
  Proof.
    induction L as [|[t e] L IH]; intros k HL Hn.
    - reflexivity.
    - inversion HL as [|? ? He HL']; subst. cbn [nonempty snd] in He.
      cbn [length Nat.add]. rewrite render_cons.
      rewrite items_f_step by (apply app_nonnil_l, emit_nonnil; assumption).
      destruct (step_frags t e (render L) (length e) He (le_n _)) as [y [Hy [H1 [H2 [H3 _]]]]].
      + rewrite <- (app_nil_r (render L)). apply hd_ne_next; [assumption|].
        cbn [map no_adj fst] in Hn. destruct L as [|p L]; [exact I|]. cbn in Hn. tauto.
      + unfold emit. rewrite Hy, H1, H2, H3.
        cbn [map no_adj] in Hn. rewrite (IH k HL') by tauto. reflexivity.
  Qed.

  Definition sep_or_end (s : bytes) : Prop :=
    match s with [] => True | x :: _ => x = 0%N end.

  (* tlv_array walks over the items of one list element, accumulating its bytes *)
  Lemma arr_render : forall L k rest cur,
      Forall nonempty L -> Forall (fun p => fst p <> 0%N) L -> no_adj (map fst L) ->
      sep_or_end rest ->
      arr_f F (length L + k) (render L ++ rest) cur = arr_f F k rest (cur ++ render L).
  Proof.
    induction L as [|[t e] L IH]; intros k rest cur HL H0 Hn Hr.
    - cbn. now rewrite app_nil_r.
    - inversion HL as [|? ? He HL']; subst. cbn [nonempty snd] in He.
      inversion H0 as [|? ? Ht H0']; subst. cbn [fst] in Ht.
      cbn [length Nat.add]. rewrite render_cons, <- app_assoc.
      rewrite arr_f_step by (apply app_nonnil_l, emit_nonnil; assumption).
      destruct (step_frags t e (render L ++ rest) (length e) He (le_n _)) as [y [Hy [H1 [H2 [H3 H4]]]]].
      + apply hd_ne_next; [assumption|].
        cbn [map no_adj fst] in Hn. destruct L as [|p L].
        * destruct rest; cbn in *; [exact I|]. congruence.
        * cbn in Hn. tauto.
      + unfold emit. rewrite Hy, H1, H3.
        destruct (N.eqb_spec t 0); [contradiction|].
        rewrite <- H1 at 1. rewrite H1. rewrite H4.
        cbn [map no_adj] in Hn. rewrite (IH k rest _ HL' H0') by tauto.
        rewrite <- app_assoc. reflexivity.
  Qed.

  Lemma join_cons2 sep (x y : bytes) r : join sep (x :: y :: r) = x ++ sep ++ join sep (y :: r).
  Proof. reflexivity. Qed.

  Definition elem_ok (L : list (N * bytes)) : Prop :=
    Forall nonempty L /\ Forall (fun p => fst p <> 0%N) L /\ no_adj (map fst L) /\ L <> [].

  Fixpoint cost (Ls : list (list (N * bytes))) : nat :=
    match Ls with [] => 0 | L :: r => S (length L) + cost r end.

  Lemma arr_join : forall Ls k cur,
      Forall elem_ok Ls -> Ls <> [] ->
      arr_f F (cost Ls + k) (join [0%N; 0%N] (map render Ls)) cur =
      (match Ls with L :: r => (cur ++ render L) :: map render r | [] => [] end, FinOk).
  Proof.
    induction Ls as [|L Ls IH]; intros k cur Hok Hne; [contradiction|].
    inversion Hok as [|? ? [HL [H0 [Hn HLne]]] Hok']; subst.
    destruct Ls as [|L2 Ls].
    - cbn [map join cost]. rewrite <- (app_nil_r (render L)) at 1.
      replace (S (length L) + 0 + k) with (length L + S k) by lia.
      rewrite arr_render by (assumption || exact I).
      cbn [arr_f].
      destruct (cur ++ render L) eqn:E; [|reflexivity].
      apply app_eq_nil in E. destruct E as [_ E]. exfalso. revert E. now apply render_nonnil.
    - cbn [map cost]. rewrite join_cons2. cbn [map] in IH.
      replace (S (length L) + (S (length L2) + cost Ls) + k)
        with (length L + S (S (length L2) + cost Ls + k)) by lia.
      rewrite arr_render by (assumption || reflexivity).
      cbn [app]. rewrite arr_f_step by discriminate.
      rewrite step_sep. cbn [y_tag y_pre y_last y_next N.eqb].
      specialize (IH k [] Hok'). cbn [cost] in IH. rewrite IH by discriminate.
      cbn [app]. rewrite app_nil_r. reflexivity.
  Qed.

  Lemma join_length_ge : forall Ls, Forall elem_ok Ls -> Ls <> [] ->
      cost Ls <= S (length (join [0%N; 0%N] (map render Ls))).
  Proof.
    induction Ls as [|L Ls IH]; intros Hok Hne; [contradiction|].
    inversion Hok as [|? ? [HL _] Hok']; subst.
    pose proof (render_length_ge L HL).
    destruct Ls as [|L2 Ls].
    - cbn [map join cost]. lia.
    - cbn [map cost]. rewrite join_cons2. cbn [map cost] in IH.
      rewrite !app_length. cbn [length]. specialize (IH Hok' ltac:(discriminate)). lia.
  Qed.

  Theorem tlv_array_join Ls :
    Forall elem_ok Ls -> Ls <> [] ->
    tlv_array F (join [0%N; 0%N] (map render Ls)) = (map render Ls, FinOk).
  Proof.
    intros Hok Hne. unfold tlv_array.
    pose proof (join_length_ge Ls Hok Hne) as Hc.
    replace (S (length (join [0%N; 0%N] (map render Ls))))
      with (cost Ls + (S (length (join [0%N; 0%N] (map render Ls))) - cost Ls)) by lia.
    rewrite arr_join by assumption.
    destruct Ls; [contradiction|reflexivity].
  Qed.

  Theorem items_of_render L :
    Forall nonempty L -> no_adj (map fst L) -> items F (render L) = (L, FinOk).
  Proof.
    intros HL Hn. unfold items.
    pose proof (render_length_ge L HL).
    replace (S (length (render L))) with (length L + S (length (render L) - length L)) by lia.
    now apply items_render.
  Qed.
End Iter.
