(* C18, round 8: database replaced between notifications; pairing loaded again in a running
   controller (Model/BcastDb.v). *)
From Coq Require Import List NArith ZArith Arith Bool Lia.
From AHK Require Import Lib.ByteStr Model.Bcast Model.BcastDb Proofs.Bcast Proofs.BcastHist Proofs.BcastTop
  Proofs.BcastOps Proofs.BcastExt.
Import ListNotations.
Open Scope N_scope.

(* what the listeners of pairing i must receive for an accepted plaintext, as a function of the
   database cs alone *)
Definition delivery_for (i : bytes) (cs : list (N * fmt)) (pt : bytes) : outcome * list call :=
  match find_char (iid_of pt) cs with
  | None => (OUndelivered CkNoChar, [])
  | Some f => match from_bytes f (value_of pt) with
              | inl ck => (OUndelivered ck, [])
              | inr v => (OAccepted, [(i, 1, iid_of pt, v)])
              end
  end.

Lemma deliver_is p pt : deliver p pt = delivery_for (p_id p) (p_chars p) pt.
Proof. reflexivity. Qed.

(* (1) authenticity and freshness do not depend on the database *)
Lemma fresh_with_db w p cs sg keep a body n pt :
  fresh_w w (with_db p cs sg keep) a body n pt <-> fresh_w w p a body n pt.
Proof. split; intros (k & s & H); exists k, s; exact H. Qed.

(* (2) after the database was replaced, a fresh notification advances the number and is delivered
   according to the NEW database only: nothing of the old one (p_chars p, p_sig p), and nothing of
   what was delivered before, appears on the right-hand side *)
Lemma db_replaced_delivery w p cs sg keep a body n pt :
  fresh_w w p a body n pt ->
  notify_w w (with_db p cs sg keep) a body =
    (with_sn (with_db p cs sg keep) n, fst (delivery_for (p_id p) cs pt), snd (delivery_for (p_id p) cs pt)).
Proof.
  intros H. apply (fresh_with_db w p cs sg keep) in H.
  rewrite (notify_complete _ _ _ _ _ _ H). reflexivity.
Qed.

Lemma db_replaced_poll w p cs sg keep a body n pt :
  fresh_w w p a body n pt ->
  (falls_back (snd (fst (notify_w w (with_db p cs sg keep) a body))) = true <-> find_char (iid_of pt) cs = None).
Proof.
  intros H. rewrite (db_replaced_delivery _ _ _ _ _ _ _ _ _ H). cbn [fst snd].
  unfold delivery_for. destruct (find_char (iid_of pt) cs) as [f|] eqn:Ef.
  - destruct (from_bytes f (value_of pt)) as [ck|v] eqn:Eb; cbn [fst falls_back]; [|split; discriminate].
    destruct ck; cbn [falls_back]; split; try discriminate.
    intros _. exfalso. unfold from_bytes in Eb.
    destruct f; repeat match type of Eb with
                       | context [match ?x with _ => _ end] => destruct x
                       end; discriminate.
  - cbn [fst falls_back]. now split.
Qed.

(* (3) replacing the database touches neither the number nor the key of any pairing *)
Lemma xdb_j st i cs sg keep j p :
  wf_ctrl (x_c st) -> nth_error (x_c st) j = Some p ->
  exists q, nth_error (x_c (fst (fst (xapply st (XDb i cs sg keep))))) j = Some q /\
            p_id q = p_id p /\ p_sn q = p_sn p /\ p_key q = p_key p /\
            (p_id p <> i -> q = p) /\ (p_id p = i -> p_chars q = cs /\ p_sig q = sg).
Proof.
  intros Hwf Hn. cbn [xapply fst x_c]. rewrite (upd_j _ _ _ _ _ Hwf Hn).
  destruct (beq_bytes (p_id p) i) eqn:E; eexists; (split; [reflexivity|]).
  - apply beq_bytes_eq in E. cbn [with_db p_id p_sn p_key p_chars p_sig].
    split; [reflexivity|]. split; [reflexivity|]. split; [reflexivity|]. split.
    + intros Hx. contradiction.
    + intros _. split; reflexivity.
  - split; [reflexivity|]. split; [reflexivity|]. split; [reflexivity|]. split.
    + intros _. reflexivity.
    + intros Hx. rewrite Hx, beq_bytes_refl in E. discriminate.
Qed.

(* (4) everything of rounds 1-7 is embedded unchanged *)
Lemma xapply_op st o :
  x_c (fst (fst (xapply st (XOp o)))) = fst (fst (apply (x_c st) o)) /\
  snd (fst (xapply st (XOp o))) = snd (fst (apply (x_c st) o)) /\
  snd (xapply st (XOp o)) = snd (apply (x_c st) o).
Proof. cbn [xapply]. destruct (apply (x_c st) o) as [[c' oc] cl]. cbn. repeat split. Qed.

(* (5) loading a pairing again while the controller holds the discovery changes nothing the
   model knows of: number, key, database - so every theorem about later advertisements holds
   across it; in particular the replay of what was accepted before stays ignored *)
Lemma upd_same g c i : (forall p, g p = p) -> upd_pairing g c i = c.
Proof.
  intros Hg. induction c as [|p r IH]; [reflexivity|]. cbn [upd_pairing].
  destruct (beq_bytes (p_id p) i); [now rewrite Hg|now rewrite IH].
Qed.

Lemma reload_with_discovery st i :
  mem_id i (x_disc st) = true -> x_c (fst (fst (xapply st (XReload i)))) = x_c st.
Proof. intros H. cbn [xapply fst x_c]. rewrite H. now apply upd_same. Qed.

Lemma replay_after_reload w p a body n pt :
  fresh_w w p a body n pt ->
  exists o, notify_w w (reload_p true (with_sn p n)) a body = (with_sn p n, o, []).
Proof. exact (replay_after_fresh w p a body n pt). Qed.

(* without a discovery the new pairing is what a restart makes of the old one *)
Lemma reload_without_discovery st i j p :
  wf_ctrl (x_c st) -> mem_id i (x_disc st) = false -> nth_error (x_c st) j = Some p -> p_id p = i ->
  nth_error (x_c (fst (fst (xapply st (XReload i))))) j = Some (restart_p p).
Proof.
  intros Hwf H Hn Hi. cbn [xapply fst x_c]. rewrite H, (upd_j _ _ _ _ _ Hwf Hn).
  now rewrite Hi, beq_bytes_refl.
Qed.

(* a regular advertisement makes the controller hold the discovery; a restart forgets it *)
Lemma plain_makes_discovery st i n : mem_id i (x_disc (fst (fst (xapply st (XOp (OPlain i n)))))) = true.
Proof.
  cbn [xapply]. destruct (apply (x_c st) (OPlain i n)) as [[c' oc] cl]. cbn. now rewrite beq_bytes_refl.
Qed.

(* ---- examples ------------------------------------------------------------------- *)
Definition dx_id : bytes := [1;2;3;4;5;6].
Definition dx_p : pairing := mkP dx_id (Some 7) (Some 10) (Some 10) [(11, FU16); (12, FU8)] true.
Definition dx_seal (n iid : N) : frame := ([17;54;1;2;3;4;5;6], PSeal 7 n dx_id [n;0;iid;0;1;2;0;0;0;0;0;0]).
Definition dx_run (st : xstate) (h : list xop) : list (outcome * list call * list (option N)) :=
  snd (fold_left (fun acc x => let '(s', o, cl) := xapply (fst acc) x in
                               (s', snd acc ++ [(o, cl, map p_sn (x_c s'))])) h (st, [])).

(* iid 11 changes its format (uint16 -> uint8), iid 12 disappears, iid 13 appears *)
Lemma db_replaced_example :
  dx_run (mkX [dx_p] [])
         [XOp (OAdv (dx_seal 11 11)); XOp (OAdv (dx_seal 12 12)); XOp (OAdv (dx_seal 13 13));
          XDb dx_id [(11, FU8); (13, FU16)] false true;
          XOp (OAdv (dx_seal 14 11)); XOp (OAdv (dx_seal 15 12)); XOp (OAdv (dx_seal 16 13));
          XOp (OAdv (dx_seal 14 11))] =
  [(OAccepted, [(dx_id, 1, 11, VInt 513)], [Some 11]);
   (OAccepted, [(dx_id, 1, 12, VInt 1)], [Some 12]);
   (OUndelivered CkNoChar, [], [Some 13]);
   (OOtherType, [], [Some 13]);
   (OAccepted, [(dx_id, 1, 11, VInt 1)], [Some 14]);
   (OUndelivered CkNoChar, [], [Some 15]);
   (OAccepted, [(dx_id, 1, 13, VInt 513)], [Some 16]);
   (ONoDecrypt, [], [Some 16])].
Proof. vm_compute. reflexivity. Qed.

(* regular advertisement (discovery), two notifications accepted, pairing loaded again: the
   replays stay ignored and the next number is accepted.  Without a discovery the reload is a
   restart: the number falls back to the persisted copy and the replay is accepted again
   (the restart observation of round 4). *)
Lemma reload_example :
  dx_run (mkX [dx_p] [])
         [XOp (OPlain dx_id 10); XOp (OAdv (dx_seal 11 11)); XOp (OAdv (dx_seal 12 11)); XReload dx_id;
          XOp (OAdv (dx_seal 11 11)); XOp (OAdv (dx_seal 12 11)); XOp (OAdv (dx_seal 13 12))] =
  [(OOtherType, [], [Some 10]);
   (OAccepted, [(dx_id, 1, 11, VInt 513)], [Some 11]);
   (OAccepted, [(dx_id, 1, 11, VInt 513)], [Some 12]);
   (OOtherType, [], [Some 12]);
   (ONoDecrypt, [], [Some 12]);
   (OStale, [], [Some 12]);
   (OAccepted, [(dx_id, 1, 12, VInt 1)], [Some 13])] /\
  dx_run (mkX [dx_p] [])
         [XOp (OAdv (dx_seal 11 11)); XReload dx_id; XOp (OAdv (dx_seal 11 11))] =
  [(OAccepted, [(dx_id, 1, 11, VInt 513)], [Some 11]);
   (OOtherType, [], [Some 10]);
   (OAccepted, [(dx_id, 1, 11, VInt 513)], [Some 11])].
Proof. vm_compute. split; reflexivity. Qed.

(* the config-change re-read as a suspendable operation: a notification delivered while it hangs is
   decoded with the OLD database, one delivered afterwards with the NEW one *)
Lemma cfg_example :
  dx_run (mkX [dx_p] [])
         (cfg_begin dx_id 10 ++ [XOp (OAdv (dx_seal 11 11))] ++ cfg_end dx_id [(11, FU8)] false 11
          ++ [XOp (OAdv (dx_seal 11 11)); XOp (OAdv (dx_seal 12 11))]) =
  [(OOtherType, [], [Some 10]);
   (OAccepted, [(dx_id, 1, 11, VInt 513)], [Some 11]);
   (OOtherType, [], [Some 11]);
   (OOtherType, [], [Some 11]);
   (OStale, [], [Some 11]);
   (OAccepted, [(dx_id, 1, 11, VInt 1)], [Some 12])].
Proof. vm_compute. reflexivity. Qed.
