(* C02 - lemmas about Model/SrpSession.v: isolation of live objects, protocol-order sessions return the
   values of Model/Srp.v's [client], the session-key memo survives re-keying, evaluator independence. *)
From Coq Require Import List NArith ZArith Arith Bool Lia.
From AHK Require Import Lib.Res Lib.ByteStr Model.Sha512 Model.Srp Model.SrpCases Model.SrpBig Model.SrpSession
  Model.SrpSessionBig Proofs.SrpBig Proofs.SrpTop.
Import ListNotations.

Section Facts.
  Variable H : bytes -> bytes.
  Variable PM : Z -> Z -> Z -> Z.
  Variables (Nm g kc : Z).
  Variable hgroup : bytes.
  Variable L : nat.
  Variable SL : nat.

  Notation ostep' := (ostep H PM Nm g kc hgroup L SL).
  Notation run' := (run H PM Nm g kc hgroup L SL).
  Notation run1' := (run1 H PM Nm g kc hgroup L SL).
  Notation get_K' := (get_K H PM Nm g kc L).
  Notation get_M1' := (get_M1 H PM Nm g kc hgroup L).
  Notation verify' := (verify H PM Nm g kc hgroup L).
  Notation client' := (client H PM Nm g kc hgroup L SL).

  (* ---- isolation: what object i shows in ANY schedule over ANY store is what it shows alone *)
  Lemma isolation sched : forall (st : store) i,
      proj i (run' st sched) = run1' (st i) (proj i sched).
  Proof.
    induction sched as [|[j e] t IH]; intros st i; [reflexivity|].
    cbn [run]. destruct (ostep' (st j) e) as [o' r] eqn:E.
    unfold proj in *. cbn [filter map fst].
    destruct (Nat.eqb j i) eqn:Eji.
    - apply Nat.eqb_eq in Eji. subst j. cbn [map snd run1]. rewrite E. f_equal.
      rewrite IH. unfold upd. rewrite Nat.eqb_refl. reflexivity.
    - rewrite IH. unfold upd. rewrite Nat.eqb_sym, Eji. reflexivity.
  Qed.

  (* ---- a protocol-order session *)
  Lemma client_inv I P a salt B_b r :
    client' I P a salt B_b = Ok r ->
    padded (cl_A PM Nm g a) L = Ok (r_A_b r) /\
    padded (from_bytes salt) SL = Ok (r_salt_b r) /\
    r_x r = cl_x H I P (r_salt_b r) /\
    (exists S_b, padded (cl_S PM Nm g kc a (r_x r) (cl_u H (r_A_b r) B_b) (from_bytes B_b)) L = Ok S_b /\ r_K r = H S_b) /\
    r_M1 r = cl_M1 H hgroup I (r_salt_b r) (r_A_b r) B_b (r_K r) /\
    r_M2 r = cl_M2 H (r_A_b r) (r_M1 r) (r_K r).
  Proof.
    unfold client.
    destruct (padded (cl_A PM Nm g a) L) as [A_b| | |]; cbn [rbind]; try discriminate.
    destruct (padded (from_bytes salt) SL) as [salt_b| | |]; cbn [rbind]; try discriminate.
    destruct (padded (cl_S PM Nm g kc a (cl_x H I P salt_b) (cl_u H A_b B_b) (from_bytes B_b)) L) as [S_b| | |] eqn:ES;
      cbn [rbind]; try discriminate.
    intros [= <-]. cbn. repeat split; try reflexivity. exists S_b. split; [exact ES|reflexivity].
  Qed.

  Section Session.
    Variables (I P : bytes) (a : Z) (salt B_b : bytes) (r : cl_result).
    Hypothesis Hr : client' I P a salt B_b = Ok r.

    Definition Inv (o : cobj) : Prop :=
      o_I o = I /\ o_a o = a /\ o_A_b o = r_A_b r /\ o_salt o = Some (r_salt_b r, r_x r) /\
      o_B_b o = Some B_b /\ (o_K o = None \/ o_K o = Some (r_K r)).

    Lemma getK_inv o : Inv o -> exists o', get_K' o = (o', OBytes (r_K r)) /\ Inv o'.
    Proof.
      intros (HI & Ha & HA & Hs & HB & HK).
      destruct (client_inv _ _ _ _ _ _ Hr) as (_ & _ & _ & (S_b & ES & EK) & _ & _).
      unfold get_K. destruct HK as [HK|HK]; rewrite HK.
      - rewrite HB, Hs, HA, Ha, ES. eexists. split; [rewrite EK; reflexivity|].
        unfold Inv. cbn. repeat split; try assumption. right. now rewrite EK.
      - exists o. split; [reflexivity|]. unfold Inv. repeat split; try assumption. now right.
    Qed.

    Lemma getM1_inv o : Inv o -> exists o', get_M1' o = (o', OBytes (r_M1 r)) /\ Inv o'.
    Proof.
      intros Hi. destruct (getK_inv o Hi) as (o' & EK & Hi').
      destruct (client_inv _ _ _ _ _ _ Hr) as (_ & _ & _ & _ & EM1 & _).
      unfold get_M1. destruct Hi as (_ & _ & _ & _ & HB & _). rewrite HB, EK.
      destruct Hi' as (HI' & Ha' & HA' & Hs' & HB' & HK'). rewrite Hs', HI', HA'.
      exists o'. split; [now rewrite EM1|]. unfold Inv. repeat split; assumption.
    Qed.

    Lemma verify_inv o M_b : Inv o -> exists o', verify' o M_b = (o', OBool (cl_accepts r M_b)) /\ Inv o'.
    Proof.
      intros Hi. destruct (getM1_inv o Hi) as (o1 & E1 & Hi1). destruct (getK_inv o1 Hi1) as (o2 & E2 & Hi2).
      destruct (client_inv _ _ _ _ _ _ Hr) as (_ & _ & _ & _ & _ & EM2).
      unfold verify. rewrite E1, E2. exists o2. split; [|assumption].
      destruct Hi2 as (_ & _ & HA2 & _). rewrite HA2. unfold cl_accepts. now rewrite EM2.
    Qed.

    Lemma getter_step o e : Inv o -> is_getter e = true ->
      exists o', ostep' (Some o) e = (Some o', expected r e) /\ Inv o'.
    Proof.
      intros Hi Hg. destruct e; try discriminate; cbn [ostep expected].
      - exists o. split; [|assumption]. destruct Hi as (_ & _ & HA & _). now rewrite HA.
      - destruct (getM1_inv o Hi) as (o' & E & Hi'). rewrite E. now exists o'.
      - destruct (getK_inv o Hi) as (o' & E & Hi'). rewrite E. now exists o'.
      - destruct (verify_inv o M_b Hi) as (o' & E & Hi'). rewrite E. now exists o'.
    Qed.

    Lemma getters_run evs : forall o, Inv o -> forallb is_getter evs = true ->
      run1' (Some o) evs = map (expected r) evs.
    Proof.
      induction evs as [|e t IH]; intros o Hi Hg; [reflexivity|].
      cbn [forallb] in Hg. apply andb_true_iff in Hg as [Hg Ht].
      destruct (getter_step o e Hi Hg) as (o' & E & Hi'). cbn [run1 map]. rewrite E. f_equal. now apply IH.
    Qed.

    (* new object (whatever the name was bound to before), set_salt, set_server_public_key, then any
       getters in any order, any number of times *)
    Lemma protocol_order s gs : forallb is_getter gs = true ->
      run1' s (ENew I P a :: ESalt salt :: EB B_b :: gs) = ODone :: ODone :: ODone :: map (expected r) gs.
    Proof.
      intros Hg. destruct (client_inv _ _ _ _ _ _ Hr) as (EA & ES & Ex & _).
      cbn [run1]. cbn [ostep]. rewrite EA. cbn [ostep o_I o_P]. rewrite ES.
      cbn [ostep]. do 3 f_equal. apply getters_run; [|assumption].
      unfold Inv. cbn. repeat split; try reflexivity; [now rewrite Ex|now left].
    Qed.
  End Session.

  (* ---- several exchanges in flight: object i, used in protocol order, shows the values of ITS exchange,
     whatever the other objects of the process do in between (other exchanges, re-keying, failing calls) *)
  Lemma concurrent sched (st : store) i I P a salt B_b r gs :
    proj i sched = ENew I P a :: ESalt salt :: EB B_b :: gs ->
    forallb is_getter gs = true ->
    client' I P a salt B_b = Ok r ->
    proj i (run' st sched) = ODone :: ODone :: ODone :: map (expected r) gs.
  Proof.
    intros Hp Hg Hr. rewrite isolation, Hp. now apply protocol_order.
  Qed.

  (* ---- the memo as written: once computed, the session key survives set_salt / set_server_public_key *)
  Lemma reuse_keeps_key o K salt B_b :
    o_K o = Some K ->
    let s1 := fst (ostep' (Some o) (ESalt salt)) in
    let s2 := fst (ostep' s1 (EB B_b)) in
    snd (ostep' s2 EGetK) = OBytes K.
  Proof.
    intros HK. cbn [ostep]. destruct (padded (from_bytes salt) SL); cbn [fst ostep]; unfold get_K; cbn; rewrite HK; reflexivity.
  Qed.
End Facts.

(* ---- evaluator independence *)
Section Ext.
  Variable H : bytes -> bytes.
  Variables (PM1 PM2 : Z -> Z -> Z -> Z).
  Variables (Nm g kc : Z).
  Variable hgroup : bytes.
  Variable L : nat.
  Variable SL : nat.
  Hypothesis E : forall b e, PM1 b e Nm = PM2 b e Nm.

  Lemma get_K_ext o : get_K H PM1 Nm g kc L o = get_K H PM2 Nm g kc L o.
  Proof.
    unfold get_K. destruct (o_K o); [reflexivity|]. destruct (o_B_b o); [|reflexivity].
    destruct (o_salt o) as [[sb x]|]; [|reflexivity]. unfold cl_S. rewrite !E. reflexivity.
  Qed.

  Lemma get_M1_ext o : get_M1 H PM1 Nm g kc hgroup L o = get_M1 H PM2 Nm g kc hgroup L o.
  Proof. unfold get_M1. destruct (o_B_b o); [|reflexivity]. now rewrite get_K_ext. Qed.

  Lemma verify_ext o M : verify H PM1 Nm g kc hgroup L o M = verify H PM2 Nm g kc hgroup L o M.
  Proof.
    unfold verify. rewrite get_M1_ext. destruct (get_M1 H PM2 Nm g kc hgroup L o) as [o1 [ | | | | ]]; try reflexivity.
    now rewrite get_K_ext.
  Qed.

  Lemma ostep_ext s e : ostep H PM1 Nm g kc hgroup L SL s e = ostep H PM2 Nm g kc hgroup L SL s e.
  Proof.
    destruct e, s; cbn [ostep]; unfold cl_A; rewrite ?E, ?get_K_ext, ?get_M1_ext, ?verify_ext; reflexivity.
  Qed.

  Lemma run_ext sched : forall st, run H PM1 Nm g kc hgroup L SL st sched = run H PM2 Nm g kc hgroup L SL st sched.
  Proof.
    induction sched as [|[i e] t IH]; intros st; [reflexivity|]. cbn [run]. rewrite ostep_ext.
    destruct (ostep H PM2 Nm g kc hgroup L SL (st i) e). now rewrite IH.
  Qed.
End Ext.

(* ------------------------------------------------------------ the HAP instance *)
Lemma hap_concurrent sched st i I P a salt B_b r gs :
  proj i sched = ENew I P a :: ESalt salt :: EB B_b :: gs ->
  forallb is_getter gs = true ->
  hap_client powm I P a salt B_b = Ok r ->
  proj i (hap_run powm st sched) =
  ODone :: ODone :: ODone :: map (expected r) gs.
Proof. apply concurrent. Qed.

Lemma hap_isolation sched st i :
  proj i (hap_run powm st sched) = hap_run1 powm (st i) (proj i sched).
Proof. apply isolation. Qed.

Lemma hap_reuse_keeps_key o K salt B_b :
  o_K o = Some K ->
  let s1 := fst (hap_ostep powm (Some o) (ESalt salt)) in
  let s2 := fst (hap_ostep powm s1 (EB B_b)) in
  snd (hap_ostep powm s2 EGetK) = OBytes K.
Proof. apply reuse_keeps_key. Qed.

Lemma hap_run_fast sched st : hap_run powm_fast st sched = hap_run powm st sched.
Proof. apply run_ext. intros b e. apply powm_fast_eq. exact N3072_pos. Qed.

(* every exchange in flight agrees with ITS accessory: [hap_concurrent] composed with the exchange theorem *)
Lemma hap_concurrent_accessory sched st i I P salt a b gs :
  (0 <= a)%Z -> (0 <= b)%Z -> length salt = 16%nat -> all_bytes salt = true ->
  let B_b := sv_public sha512 N3072 G3072 HK_KEY_LENGTH I P salt b in
  proj i sched = ENew I P a :: ESalt salt :: EB B_b :: gs ->
  forallb is_getter gs = true ->
  exists r, hap_client powm I P a salt B_b = Ok r /\
    proj i (hap_run powm st sched) = ODone :: ODone :: ODone :: map (expected r) gs /\
    let s := hap_server I P salt b (r_A_b r) (r_M1 r) in
    r_A_b r = PAD HK_KEY_LENGTH (G3072 ^ a mod N3072) /\
    r_K r = s_K s /\ r_M1 r = s_M1 s /\ s_ok s = true /\ cl_accepts r (s_M2 s) = true.
Proof.
  intros Ha Hb Hl Hy B_b Hp Hg.
  destruct (Proofs.SrpTop.hap_exchange I P salt a b Ha Hb Hl Hy) as (r & Hr & Hrest).
  cbv zeta in Hrest. destruct Hrest as (HA & _ & _ & _ & HK & HM1 & Hok & _ & Hacc).
  exists r. split; [exact Hr|]. split; [exact (hap_concurrent sched st i I P a salt B_b r gs Hp Hg Hr)|].
  cbv zeta. repeat split; assumption.
Qed.

(* ------------------------------------------------------------ toy instance (the one of Proofs/SrpBig.v):
   two exchanges interleaved call by call, a third name never bound; and one object used for a second
   exchange after its session key was computed *)
Section Toy.
  Local Open Scope Z_scope.
  Definition tI : bytes := [80; 97; 105; 114]%N.
  Definition tP : bytes := [49; 50; 51]%N.
  Definition tP2 : bytes := [52; 50; 51; 9]%N.
  Definition ts1 : bytes := (0 :: 0 :: repeat 7 14)%N.
  Definition ts2 : bytes := (3 :: 1 :: repeat 9 14)%N.
  Definition tkc := spec_k toyH 2027 2 2.
  Definition thg := spec_hgroup toyH 2027 2 2.
  Definition tB1 := sv_public toyH 2027 2 2 tI tP ts1 13.
  Definition tB2 := sv_public toyH 2027 2 2 tI tP2 ts2 29.
  Definition trun := run toyH powm 2027 2 tkc thg 2 16.
  Definition trun1 := run1 toyH powm 2027 2 tkc thg 2 16.
  Definition tclient := client toyH powm 2027 2 tkc thg 2 16.

  Definition toy_sched : list (nat * sev) :=
    [(0, ENew tI tP 77); (1, ENew tI tP2 101); (1, ESalt ts2); (0, ESalt ts1); (0, EB tB1); (0, EGetM1);
     (1, EB tB2); (1, EGetK); (0, EVerify [175%N]); (1, EGetM1); (0, EGetK); (1, EVerify [175%N]);
     (1, EVerify [150%N]); (2, EGetA); (0, EGetA)]%nat.
  Definition toy_sched_obs : list (nat * sobs) :=
    [(0, ODone); (1, ODone); (1, ODone); (0, ODone); (0, ODone); (0, OBytes [91%N]);
     (1, ODone); (1, OBytes [36%N]); (0, OBool true); (1, OBytes [187%N]); (0, OBytes [116%N]); (1, OBool false);
     (1, OBool true); (2, ORaiseState); (0, OBytes [6%N; 209%N])]%nat.

  Lemma toy_concurrent_ok :
    trun empty_store toy_sched = toy_sched_obs /\
    (exists r, tclient tI tP 77 ts1 tB1 = Ok r /\ r_K r = [116%N] /\ r_M1 r = [91%N] /\ r_M2 r = [175%N]) /\
    (exists r, tclient tI tP2 101 ts2 tB2 = Ok r /\ r_K r = [36%N] /\ r_M1 r = [187%N] /\ r_M2 r = [150%N]) /\
    proj 0 toy_sched = [ENew tI tP 77; ESalt ts1; EB tB1; EGetM1; EVerify [175%N]; EGetK; EGetA].
  Proof.
    split; [vm_compute; reflexivity|]. split; [|split; [|vm_compute; reflexivity]].
    - eexists. split; [vm_compute; reflexivity|]. cbn. repeat split.
    - eexists. split; [vm_compute; reflexivity|]. cbn. repeat split.
  Qed.

  (* calls on a half-initialised object raise; set_salt with a 17-byte value raises and changes nothing;
     after the first exchange (K = 116) the same object is given the salt and accessory key of another
     exchange: get_session_key_bytes still answers 116, a new client computes 146 *)
  Definition toy_reuse_calls : list sev :=
    [ENew tI tP 77; EGetK; EGetM1; EB tB1; EGetK; ESalt (1 :: ts1)%N; ESalt ts1; EGetK; ESalt ts2; EB tB2; EGetK; EGetM1].
  Definition toy_reuse_obs : list sobs :=
    [ODone; ORaiseState; ORaiseState; ODone; ORaiseState; ORaiseValue; ODone; OBytes [116%N]; ODone; ODone;
     OBytes [116%N]; OBytes [57%N]].
  Lemma toy_reuse_ok :
    trun1 None toy_reuse_calls = toy_reuse_obs /\
    exists r, tclient tI tP 77 ts2 tB2 = Ok r /\ r_K r = [146%N] /\ r_M1 r = [87%N].
  Proof.
    split; [vm_compute; reflexivity|]. eexists. split; [vm_compute; reflexivity|]. cbn. split; reflexivity.
  Qed.
End Toy.
