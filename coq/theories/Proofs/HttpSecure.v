(* C07 over the encrypted session: the composition decrypt-deframe ; parse is a
   homomorphism on the ciphertext stream, and equals the parse of the plaintext. *)
From Coq Require Import List NArith ZArith Arith Bool Lia.
From AHK Require Import Lib.ByteStr Model.Http Model.HttpWire Model.HttpSecure
  Proofs.HttpStep Proofs.HttpFeed Proofs.HttpCorrect.
From AHK Require Model.Frame Proofs.FrameFeed.
Import ListNotations.

(* ---- hfeeds ---- *)

Lemma hfeeds_app xs : forall s ys,
    hfeeds s (xs ++ ys)
    = (fst (hfeeds (fst (hfeeds s xs)) ys), snd (hfeeds s xs) ++ snd (hfeeds (fst (hfeeds s xs)) ys)).
Proof.
  induction xs as [|x xs IH]; intros s ys; cbn [hfeeds app fst snd].
  - now destruct (hfeeds s ys).
  - destruct (hfeed s x) as [s1 m1]. rewrite IH.
    destruct (hfeeds s1 xs) as [s2 m2]. cbn [fst snd].
    destruct (hfeeds s2 ys) as [s3 m3]. cbn [fst snd]. now rewrite app_assoc.
Qed.

Definition halted (h : hstate) : Prop := match h with Run _ _ => False | _ => True end.

Lemma hfeeds_halted xs : forall h, halted h -> hfeeds h xs = (h, []).
Proof.
  induction xs as [|x xs IH]; intros h H; [reflexivity|].
  cbn [hfeeds]. destruct h as [p r| |]; [destruct H| |]; cbn [hfeed]; now rewrite IH.
Qed.

Lemma norm_halted r h : halted h -> norm r h = Frame.Dead.
Proof. destruct h; [intros []| |]; reflexivity. Qed.

Lemma norm_run r p raw : norm r (Run p raw) = r.
Proof. reflexivity. Qed.

Lemma split_at_concat lens : forall s, concat (split_at lens s) = s.
Proof.
  induction lens as [|n r IH]; intros s; cbn [split_at concat].
  - apply app_nil_r.
  - rewrite IH. apply firstn_skipn.
Qed.

Section SecureAny.
  Variable opn : bytes -> bytes -> bytes -> option bytes.

  Lemma ip_feed_dead d : Frame.ip_feed opn Frame.Dead d = (Frame.Dead, []).
  Proof. reflexivity. Qed.

  (* two reads = one read of the concatenation, for every state of both layers *)
  Lemma secure_feed_app_lem s a b :
    secure_feed opn s (a ++ b)
    = (fst (secure_feed opn (fst (secure_feed opn s a)) b),
       snd (secure_feed opn s a) ++ snd (secure_feed opn (fst (secure_feed opn s a)) b)).
  Proof.
    destruct s as [r h]. unfold secure_feed. cbn [fst snd].
    unfold Frame.ip_feed. rewrite (FrameFeed.feed_app Frame.TAGLEN opn r a b).
    destruct (Frame.feed Frame.TAGLEN opn r a) as [r1 o1].
    destruct (Frame.feed Frame.TAGLEN opn r1 b) as [r2 o2] eqn:E2.
    rewrite hfeeds_app.
    destruct (hfeeds h o1) as [h1 m1]. cbn [fst snd].
    destruct h1 as [p1 raw1| |].
    - rewrite norm_run, E2. destruct (hfeeds (Run p1 raw1) o2) as [h2 m2]. reflexivity.
    - rewrite (hfeeds_halted o2 (Halt k) I). cbn [fst snd norm Frame.feed hfeeds]. reflexivity.
    - rewrite (hfeeds_halted o2 HFuel I). cbn [fst snd norm Frame.feed hfeeds]. reflexivity.
  Qed.

  (* any read schedule = one read of everything *)
  Lemma secure_feeds_concat_cons : forall segs s d,
      secure_feeds opn s (d :: segs) = secure_feed opn s (concat (d :: segs)).
  Proof.
    induction segs as [|d' r IH]; intros s d.
    - cbn [secure_feeds concat]. rewrite app_nil_r.
      destruct (secure_feed opn s d) as [s1 m1]. now rewrite app_nil_r.
    - change (secure_feeds opn s (d :: d' :: r))
        with (let (s1, m1) := secure_feed opn s d in
              let (s2, m2) := secure_feeds opn s1 (d' :: r) in (s2, m1 ++ m2)).
      change (concat (d :: d' :: r)) with (d ++ concat (d' :: r)).
      rewrite secure_feed_app_lem. destruct (secure_feed opn s d) as [s1 m1].
      cbn [fst snd]. rewrite IH. now destruct (secure_feed opn s1 (concat (d' :: r))).
  Qed.

  Lemma secure_feeds_nonempty_eq s (d : bytes) (segs : list bytes) (d' : bytes) (segs' : list bytes) :
    concat (d :: segs) = concat (d' :: segs') ->
    secure_feeds opn s (d :: segs) = secure_feeds opn s (d' :: segs').
  Proof.
    intros E. rewrite (secure_feeds_concat_cons segs s d), (secure_feeds_concat_cons segs' s d').
    now rewrite E.
  Qed.

  (* the secure run factors into the framing run and the HTTP run over the blocks *)
  Lemma secure_feeds_factor : forall segs r h,
      norm r h = r ->
      secure_feeds opn (r, h) segs
      = let (r', plains) := Frame.ip_feed_all opn r segs in
        let (h', ms) := hfeeds h plains in
        ((norm r' h', h'), ms).
  Proof.
    induction segs as [|d segs IH]; intros r h Hn.
    - cbn [secure_feeds Frame.ip_feed_all Frame.feed_all hfeeds]. now rewrite Hn.
    - cbn [secure_feeds]. unfold secure_feed. cbn [fst snd].
      unfold Frame.ip_feed_all, Frame.ip_feed. cbn [Frame.feed_all].
      destruct (Frame.feed Frame.TAGLEN opn r d) as [r1 o1].
      destruct (Frame.feed_all Frame.TAGLEN opn r1 segs) as [r2 o2] eqn:E2.
      rewrite hfeeds_app.
      destruct (hfeeds h o1) as [h1 m1]. cbn [fst snd].
      destruct h1 as [p1 raw1| |].
      + rewrite norm_run. rewrite IH by reflexivity.
        unfold Frame.ip_feed_all. rewrite E2.
        destruct (hfeeds (Run p1 raw1) o2) as [h2 m2]. reflexivity.
      + rewrite IH by reflexivity. cbn [norm].
        unfold Frame.ip_feed_all. rewrite FrameFeed.dead_forever.
        rewrite (hfeeds_halted o2 (Halt k) I). cbn [hfeeds fst snd norm]. reflexivity.
      + rewrite IH by reflexivity. cbn [norm].
        unfold Frame.ip_feed_all. rewrite FrameFeed.dead_forever.
        rewrite (hfeeds_halted o2 HFuel I). cbn [hfeeds fst snd norm]. reflexivity.
  Qed.
End SecureAny.

Section SecureSealed.
  Variable A : Frame.aead.
  Variable key : bytes.
  Hypothesis HA : Frame.aead_ok A 16.

  (* blocks of any sizes sealed in order, ciphertext cut into reads in any way:
     the messages are those of ONE read of the concatenated plaintext *)
  Lemma secure_plain_lem ps ctr segs p raw :
    Forall (fun b => (N.of_nat (length b) < 65536)%N) ps ->
    (ctr + N.of_nat (length ps) <= Frame.ctr_limit)%N ->
    concat segs = Frame.seal_stream A key ctr ps ->
    secure_feeds (Frame.open A key) (Frame.Live [] ctr, Run p raw) segs
    = ((norm (Frame.Live [] (ctr + N.of_nat (length ps))%N) (fst (hfeed (Run p raw) (concat ps))),
        fst (hfeed (Run p raw) (concat ps))),
       snd (hfeed (Run p raw) (concat ps))).
  Proof.
    intros HF Hc E.
    rewrite secure_feeds_factor by reflexivity.
    unfold Frame.ip_feed_all.
    rewrite (FrameFeed.feed_correct Frame.TAGLEN A key HA ps ctr segs HF Hc E).
    rewrite hfeeds_concat. now destruct (hfeed (Run p raw) (concat ps)).
  Qed.

  (* ... and the bytes of a not yet complete next block simply stay buffered *)
  Lemma secure_plain_partial_lem ps ctr segs tail p raw :
    Forall (fun b => (N.of_nat (length b) < 65536)%N) ps ->
    (ctr + N.of_nat (length ps) <= Frame.ctr_limit)%N ->
    Frame.ip_step (Frame.open A key) tail (ctr + N.of_nat (length ps))%N = Frame.NeedMore ->
    concat segs = Frame.seal_stream A key ctr ps ++ tail ->
    secure_feeds (Frame.open A key) (Frame.Live [] ctr, Run p raw) segs
    = ((norm (Frame.Live tail (ctr + N.of_nat (length ps))%N) (fst (hfeed (Run p raw) (concat ps))),
        fst (hfeed (Run p raw) (concat ps))),
       snd (hfeed (Run p raw) (concat ps))).
  Proof.
    intros HF Hc Ht E.
    rewrite secure_feeds_factor by reflexivity.
    unfold Frame.ip_feed_all.
    rewrite (FrameFeed.feed_correct_partial Frame.TAGLEN A key HA ps ctr segs tail HF Hc Ht E).
    rewrite hfeeds_concat. now destruct (hfeed (Run p raw) (concat ps)).
  Qed.

  (* well-formed messages, cut into blocks in any way, sealed, cut into reads in any
     way: exactly these messages, both layers back in their resting state *)
  Lemma secure_correct_lem ws ps ctr segs :
    forallb wf_wire ws = true ->
    concat ps = concat (map render ws) ->
    Forall (fun b => (N.of_nat (length b) < 65536)%N) ps ->
    (ctr + N.of_nat (length ps) <= Frame.ctr_limit)%N ->
    concat segs = Frame.seal_stream A key ctr ps ->
    secure_feeds (Frame.open A key) (sinit ctr) segs
    = ((Frame.Live [] (ctr + N.of_nat (length ps))%N, hinit), map interp ws).
  Proof.
    intros Hw Ep HF Hc E. unfold sinit, hinit.
    rewrite (secure_plain_lem ps ctr segs init [] HF Hc E).
    rewrite Ep. fold hinit. rewrite (hfeed_correct_lem ws Hw). reflexivity.
  Qed.
End SecureSealed.

(* the plain-stream statement with explicit cut lists *)
Lemma hfeed_correct_cuts_lem ws lens :
  forallb wf_wire ws = true ->
  hfeeds hinit (split_at lens (concat (map render ws))) = (hinit, map interp ws).
Proof. intros H. apply hfeed_correct_seg; [exact H|apply split_at_concat]. Qed.
