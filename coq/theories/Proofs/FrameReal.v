(* C05 at the REAL cipher: the abstract [aead] of Model/Frame.v instantiated with the
   bit-exact RFC 8439 ChaCha20-Poly1305 of Model/ChaChaPoly.v ([cp_seal]/[cp_open], tied
   to aiohomekit/crypto/chacha20poly1305.py by harness/aeadtie.py).  [cp_aead_ok]
   discharges the only hypothesis the C05 theorems make about the cipher, so every
   statement below is unconditional in the cipher and speaks about the actual bytes on
   the wire.  The frame-level facts ([real_frame_bytes], [real_frame_length],
   [real_delivered_are_seals]) say what those bytes are. *)
From Coq Require Import List NArith ZArith Arith Bool Lia ZifyN ZifyNat ZifyBool.
From AHK Require Import Lib.Res Lib.ByteStr Model.Frame Model.ChaChaPoly
  Proofs.ChaChaPoly Proofs.FrameBase Proofs.FrameFeed Proofs.FrameSend Proofs.FrameSound Proofs.FrameSess Proofs.FrameHist.
Import ListNotations.

Definition cp_aead : aead := mkAead cp_seal cp_open.

Lemma cp_aead_ok : aead_ok cp_aead 16.
Proof.
  split; intros k n a p; cbn [cp_aead seal open].
  - apply cp_open_seal.
  - apply cp_seal_length.
Qed.

Lemma Freal : 0 < CHUNK. Proof. unfold CHUNK; lia. Qed.
Lemma Frealw : (N.of_nat CHUNK < 65536)%N. Proof. unfold CHUNK; lia. Qed.

(* ------------------------------------------------------------------ what a frame is, byte for byte *)
(* prefix = LE16(len chunk); body = chunk XOR ChaCha20 keystream (counter 1..) ; tag = Poly1305
   under the one-time key from block 0 over pad16(prefix) ++ pad16(ct) ++ LE64(2) ++ LE64(len ct) *)
Lemma real_frame_bytes : forall key f,
    sf_aad f = sf_prefix f ->
    render cp_aead key f =
    sf_prefix f ++
    chacha_xor key 1 (sf_nonce f) (sf_chunk f) ++
    cp_tag key (sf_nonce f) (sf_prefix f) (chacha_xor key 1 (sf_nonce f) (sf_chunk f)).
Proof.
  intros key f Ha. unfold render. cbn [cp_aead seal]. unfold cp_seal. rewrite Ha. reflexivity.
Qed.

Lemma real_frame_length : forall key f,
    length (sf_prefix f) = 2 ->
    length (render cp_aead key f) = 2 + length (sf_chunk f) + 16.
Proof.
  intros key f Hp. unfold render. cbn [cp_aead seal]. rewrite app_length, cp_seal_length, Hp. lia.
Qed.

(* every frame the controller writes, for any payload: 2 + n + 16 bytes with 1 <= n <= 1024 *)
Lemma real_send_frame_lengths : forall key ctr payload fb,
    In fb (fst (ip_send_frames cp_aead key ctr payload)) ->
    19 <= length fb <= 1042.
Proof.
  intros key ctr payload fb Hin. unfold ip_send_frames, send_frames in Hin. cbn [fst] in Hin.
  apply in_map_iff in Hin. destruct Hin as [f [Hf Hin]]. subst fb.
  pose proof (send_sym_f_shape CHUNK Freal (length payload) ctr payload) as Hs.
  rewrite Forall_forall in Hs. unfold ip_send_sym, send_sym in Hin. specialize (Hs f Hin).
  destruct Hs as [[Hlo Hhi] [Hpre [Haad Hn]]].
  rewrite real_frame_length.
  - unfold CHUNK in Hhi. lia.
  - rewrite Hpre. unfold len16. apply le_enc_length.
Qed.

(* ------------------------------------------------------------------ the C05 theorems at the real cipher *)
Lemma real_send_accepted : forall key ctr payload,
    let r := ip_send_frames cp_aead key ctr payload in
    ip_acc_recv cp_aead key (S (length (concat (fst r)))) ctr (concat (fst r))
    = Some (payload, snd r)
    /\ snd r = (ctr + N.of_nat ((length payload + 1023) / 1024))%N.
Proof. exact (fun key => send_accepted CHUNK TAGLEN cp_aead key cp_aead_ok Frealw Freal). Qed.

Lemma real_feed_correct : forall key ps ctr segs,
    Forall (fun p => (N.of_nat (length p) < 65536)%N) ps ->
    (ctr + N.of_nat (length ps) <= ctr_limit)%N ->
    concat segs = seal_stream cp_aead key ctr ps ->
    ip_feed_all (cp_open key) (Live [] ctr) segs
    = (Live [] (ctr + N.of_nat (length ps))%N, ps).
Proof. exact (fun key => FrameFeed.feed_correct TAGLEN cp_aead key cp_aead_ok). Qed.

Lemma real_send_feed_mirror : forall key ctr payload segs,
    let r := ip_send_frames cp_aead key ctr payload in
    (snd r <= ctr_limit)%N ->
    concat segs = concat (fst r) ->
    ip_feed_all (cp_open key) (Live [] ctr) segs
    = (Live [] (snd r), map sf_chunk (fst (ip_send_sym ctr payload))).
Proof. exact (fun key => send_feed CHUNK TAGLEN cp_aead key cp_aead_ok Frealw Freal). Qed.

Lemma real_session_requests_accepted : forall key opn ops s,
    forallb accepted_ev (snd (ip_sess_run opn s ops)) = true ->
    let stream := concat (map (render cp_aead key) (concat (wrote (snd (ip_sess_run opn s ops))))) in
    ip_acc_recv cp_aead key (S (length stream)) (s_tx s) stream
    = Some (concat (sent ops), s_tx (fst (ip_sess_run opn s ops))).
Proof. exact (fun key => sess_requests_accepted CHUNK Freal TAGLEN cp_aead key cp_aead_ok Frealw). Qed.

Lemma real_session_messages_decoded : forall key ops ctr tx ps,
    forallb no_cancel ops = true ->
    Forall (fun p => (N.of_nat (length p) < 65536)%N) ps ->
    (ctr + N.of_nat (length ps) <= ctr_limit)%N ->
    concat (recvs ops) = seal_stream cp_aead key ctr ps ->
    delivered (snd (ip_sess_run (cp_open key) (mkSess (Live [] ctr) tx) ops)) = ps /\
    s_rx (fst (ip_sess_run (cp_open key) (mkSess (Live [] ctr) tx) ops))
    = Live [] (ctr + N.of_nat (length ps))%N.
Proof. exact (fun key => sess_messages_decoded CHUNK TAGLEN cp_aead key cp_aead_ok). Qed.

(* ------------------------------------------------------------------ inbound soundness, in bytes *)
(* [authentic] with the real decrypt function means: each consumed frame IS the RFC 8439
   seal of the delivered plaintext under the a2c key, the nonce of its position and its
   own two prefix bytes as AAD; and the prefix is the true length of that plaintext. *)
Fixpoint real_frames (key : bytes) (ctr : N) (frs : list (bytes * bytes)) (outs : list bytes) : Prop :=
  match frs, outs with
  | [], [] => True
  | (h, c) :: fr, p :: os =>
      c = cp_seal key (nonce_of ctr) h p /\ le_dec h = N.of_nat (length p) /\ length h = 2 /\
      (ctr < ctr_limit)%N /\ real_frames key (ctr + 1)%N fr os
  | _, _ => False
  end.

Lemma authentic_real : forall key frs ctr outs,
    authentic 16 (cp_open key) ctr frs outs -> real_frames key ctr frs outs.
Proof.
  intros key frs. induction frs as [|[h c] fr IH]; intros ctr outs HA; destruct outs as [|p os];
    cbn [authentic real_frames] in *; try exact HA; try contradiction.
  destruct HA as [Hh [Hc [Hlim [Hopen Hrest]]]].
  pose proof (cp_open_sound _ _ _ _ _ Hopen) as Hseal.
  split; [exact Hseal|]. split.
  - assert (length c = length p + 16) as Hl by (rewrite Hseal; apply cp_seal_length). lia.
  - split; [exact Hh|]. split; [exact Hlim|]. apply IH; exact Hrest.
Qed.

Lemma real_delivered_are_seals : forall key ctr segs s' o,
    ip_feed_all (cp_open key) (Live [] ctr) segs = (s', o) ->
    exists frs rem,
      concat segs = flat frs ++ rem /\ real_frames key ctr frs o /\
      (s' = Live rem (ctr + N.of_nat (length o))%N \/ s' = Dead).
Proof.
  intros key ctr segs s' o H.
  destruct (feed_all_sound TAGLEN (cp_open key) ctr segs s' o H) as [frs [rem [H1 [H2 H3]]]].
  exists frs, rem. split; [exact H1|]. split; [|exact H3]. apply authentic_real; exact H2.
Qed.

(* a frame whose tag (or any other byte) differs from the seal of ANY plaintext under the
   expected nonce is never delivered: the session dies at that frame *)
Lemma real_forged_frame_kills : forall key ps ctr hdr ct d segs,
    Forall (fun p => (N.of_nat (length p) < 65536)%N) ps ->
    (ctr + N.of_nat (length ps) <= ctr_limit)%N ->
    length hdr = 2 -> length ct = N.to_nat (le_dec hdr) + 16 ->
    (forall p, ct <> cp_seal key (nonce_of (ctr + N.of_nat (length ps))%N) hdr p) ->
    concat segs = seal_stream cp_aead key ctr ps ++ hdr ++ ct ++ d ->
    ip_feed_all (cp_open key) (Live [] ctr) segs = (Dead, ps).
Proof.
  intros key ps ctr hdr ct d segs Hps Hlim Hh Hc Hne Hcat.
  apply (FrameFeed.feed_auth_fail TAGLEN cp_aead key cp_aead_ok ps ctr hdr ct d segs); try assumption.
  cbn [cp_aead open].
  destruct (cp_open key (nonce_of (ctr + N.of_nat (length ps))%N) hdr ct) as [p|] eqn:E; [|reflexivity].
  exfalso. apply (Hne p). apply cp_open_sound. exact E.
Qed.
