(* C12 extension - lemmas about the machine of overlapping calls (Model/SubsConc.v). *)
From Coq Require Import List NArith ZArith Arith Bool Lia.
From AHK Require Import Model.Subs Model.SubsConc Proofs.Subs Proofs.SubsStep.
Import ListNotations.

(* ------------------------------------------------------------ groupby *)
Lemma runs_concat : forall ids, concat (map snd (runs ids)) = ids.
Proof.
  induction ids as [|c t IH]; [reflexivity|]. cbn [runs].
  destruct (runs t) as [|[a g] r] eqn:E.
  - cbn in IH. subst t. reflexivity.
  - destruct (N.eqb (fst c) a); cbn [map snd concat app] in *; rewrite <- IH; reflexivity.
Qed.

Lemma runs_nil : forall ids, runs ids = [] -> ids = [].
Proof. intros ids H. rewrite <- (runs_concat ids), H. reflexivity. Qed.

Lemma order_by_covers : forall ord s c, In c s -> In c (order_by ord s).
Proof.
  intros ord s c H. unfold order_by. rewrite in_app_iff, !filter_In.
  destruct (mem c ord) eqn:E.
  - left. split; [|cbv beta; apply mem_In; exact H]. apply union_In. right. apply mem_In. exact E.
  - right. split; [exact H|]. reflexivity.
Qed.

(* ------------------------------------------------------------ small facts *)
Lemma finish_keeps : forall p s,
    sup (fst (finish p s)) = sup s /\ conn (fst (finish p s)) = conn s /\ lst (fst (finish p s)) = lst s
    /\ existsb ccutoff (snd (finish p s)) = false
    /\ (proc_ev p = true -> subs (fst (finish p s)) = subs s)
    /\ (NoDup (subs s) -> NoDup (subs (fst (finish p s)))).
Proof.
  intros p s. unfold finish, proc_ev. destruct (pk p); cbn; repeat split; auto; try discriminate.
  intros ND. apply diff_NoDup. exact ND.
Qed.

Lemma fail_keeps : forall p s,
    subs (fst (fail p s)) = subs s /\ conn (fst (fail p s)) = conn s /\ lst (fst (fail p s)) = lst s
    /\ sup (fst (fail p s)) = sup s && negb (proc_ev p)
    /\ existsb ccutoff (snd (fail p s)) = false.
Proof.
  intros p s. unfold fail, proc_ev. destruct (pk p); cbn; repeat split; auto;
    try (rewrite andb_false_r; reflexivity); rewrite andb_true_r; reflexivity.
Qed.

Lemma fail_queued_keeps : forall q s,
    subs (fst (fail_queued q s)) = subs s /\ conn (fst (fail_queued q s)) = conn s
    /\ lst (fst (fail_queued q s)) = lst s
    /\ sup (fst (fail_queued q s)) = sup s && negb (existsb ccutoff (snd (fail_queued q s))).
Proof.
  induction q as [|p t IH]; intros s; cbn [fail_queued].
  - cbn. rewrite andb_true_r. auto.
  - destruct (fail_keeps p s) as [F1 [F2 [F3 [F4 F5]]]].
    destruct (fail p s) as [s1 o1]. cbn [fst snd] in *.
    destruct (IH s1) as [G1 [G2 [G3 G4]]].
    destruct (fail_queued t s1) as [s2 o2]. cbn [fst snd] in *.
    repeat split; try congruence.
    rewrite G4, F4. cbn [existsb ccutoff]. rewrite existsb_app, F5. cbn [orb].
    destruct (proc_ev p); cbn; [rewrite andb_false_r; reflexivity|rewrite andb_true_r; reflexivity].
Qed.

Lemma ccutoff_map : forall o, existsb ccutoff (map CO o) = existsb cutoff o.
Proof. induction o as [|x t IH]; [reflexivity|]. cbn. rewrite IH. reflexivity. Qed.

Lemma pending_true_app : forall a b, pending_true (a ++ b) = pending_true a ++ pending_true b.
Proof. intros. unfold pending_true. apply flat_map_app. Qed.

Lemma pending_true_single : forall p,
    pending_true [p] = if proc_ev p then concat (map snd (prem p)) else [].
Proof. intros p. unfold pending_true. cbn [flat_map]. apply app_nil_r. Qed.

Lemma pending_true_cons : forall p q,
    pending_true (p :: q) = (if proc_ev p then concat (map snd (prem p)) else []) ++ pending_true q.
Proof. reflexivity. Qed.

Lemma diff_nil_r : forall g, diff g [] = g.
Proof.
  intros g. unfold diff. induction g as [|x t IH]; [reflexivity|].
  cbn [filter mem existsb negb]. f_equal. exact IH.
Qed.

(* ------------------------------------------------------------ invariant *)
Definition CInv (s : cst) : Prop :=
  NoDup (subs (base s)) /\ NoDup (lst (base s))
  /\ (conn (base s) = false -> queue s = []) /\ wf_queue (queue s).

Lemma cinv_init : CInv cinit.
Proof. repeat split; try constructor. Qed.

Lemma wf_snoc : forall q p, wf_queue q -> prem p <> [] -> wf_queue (q ++ [p]).
Proof. intros q p H1 H2. apply Forall_app. split; [exact H1|]. constructor; [exact H2|constructor]. Qed.

Lemma lose_inv : forall s, CInv s -> CInv (fst (lose s)) /\ conn (base (fst (lose s))) = false.
Proof.
  intros s [N1 [N2 [N3 N4]]]. unfold lose, CInv. destruct (queue s) as [|p q] eqn:EQ.
  - destruct (conn (base s)) eqn:EC; cbn.
    + repeat split; auto; try constructor.
    + repeat split; auto; try (rewrite EQ; constructor).
  - destruct (fail_keeps p (set_conn (base s) false)) as [F1 [F2 [F3 _]]].
    destruct (fail p (set_conn (base s) false)) as [b1 o1]. cbn [fst] in *.
    destruct (fail_queued_keeps q b1) as [G1 [G2 [G3 _]]].
    destruct (fail_queued q b1) as [b2 o2]. cbn [fst base queue] in *.
    cbn in F1, F2, F3. repeat split; try congruence; try constructor.
Qed.

Ltac csimpl := cbn [fst snd base queue acc set_subs set_sup set_conn subs sup conn lst].

Section Conc.
  Variable raises : lid -> fevent -> bool.
  Variable acts : lid -> fevent -> list (bool * lid).

  Lemma answer_ok_inv : forall s p q g rest rows pr,
      CInv s -> wf_queue q -> (conn (base s) = false -> False) ->
      CInv (fst (answer_ok s p q g rest rows pr)).
  Proof.
    intros s p q g rest rows pr [N1 [N2 [N3 N4]]] WQ HC. unfold answer_ok, CInv.
    destruct rest as [|x r].
    - destruct (finish_keeps (with_rem p [] (pacc p ++ map fst rows)) (base s)) as [F1 [F2 [F3 [_ [_ F6]]]]].
      destruct (finish (with_rem p [] (pacc p ++ map fst rows)) (base s)) as [b' o2]. cbn [fst base queue] in *.
      split; [apply F6; exact N1|]. split; [rewrite F3; exact N2|].
      split; [intros H; rewrite F2 in H; contradiction|exact WQ].
    - cbn [fst base queue]. split; [exact N1|]. split; [exact N2|].
      split; [intros H; contradiction|]. apply wf_snoc; [exact WQ|]. cbn. discriminate.
  Qed.

  Lemma cstep_inv : forall s e, CInv s -> CInv (fst (cstep raises acts s e)).
  Proof.
    intros s e HI. pose proof HI as [N1 [N2 [N3 N4]]]. unfold CInv.
    destruct e as [sub tag cs|r| |ord|e]; cbn [cstep].
    - destruct sub.
      + assert (NU : NoDup (union (subs (base s)) cs)) by (apply union_NoDup; exact N1).
        destruct (negb (sup (base s))); [cbn; repeat split; auto|].
        destruct (negb (conn (base s))) eqn:EC; [cbn; repeat split; auto|].
        destruct (runs cs) as [|x r] eqn:ER; [cbn; repeat split; auto|].
        cbn [fst base queue set_subs subs lst conn]. split; [exact NU|]. split; [exact N2|].
        split; [intros H; apply negb_false_iff in EC; congruence|].
        apply wf_snoc; [exact N4|]. cbn. discriminate.
      + destruct (negb (conn (base s))) eqn:EC; [cbn; repeat split; auto; apply diff_NoDup; exact N1|].
        destruct (runs cs) as [|x r] eqn:ER; [cbn; repeat split; auto; apply diff_NoDup; exact N1|].
        cbn [fst base queue]. split; [exact N1|]. split; [exact N2|].
        split; [intros H; apply negb_false_iff in EC; congruence|].
        apply wf_snoc; [exact N4|]. cbn. discriminate.
    - unfold canswer. destruct (queue s) as [|p q] eqn:EQ; [exact HI|].
      assert (HC : conn (base s) = false -> False) by (intros H; apply N3 in H; discriminate).
      assert (WQ : wf_queue q) by (inversion N4; assumption).
      destruct (prem p) as [|[a g] rest] eqn:EP; [exact HI|].
      destruct r as [|rows| |].
      + apply answer_ok_inv; assumption.
      + apply answer_ok_inv; assumption.
      + apply lose_inv. exact HI.
      + destruct (fail_keeps p (base s)) as [F1 [F2 [F3 _]]].
        destruct (fail p (base s)) as [b' o2]. cbn [fst base queue] in *.
        repeat split; try congruence.
    - apply lose_inv. exact HI.
    - destruct (conn (base s)) eqn:EC; [exact HI|].
      assert (NR : NoDup (reg_after acts (base s) [])) by (apply registry_after_NoDup; exact N2).
      destruct (negb (sup (base s))); [cbn; repeat split; auto; try discriminate; constructor|].
      destruct (runs (order_by ord (subs (base s)))) as [|x r] eqn:ER;
        cbn; repeat split; auto; try discriminate; try constructor; try constructor. cbn. discriminate.
    - destruct e as [cs rs|cs rs|l|l|rs| |b]; try exact HI.
      + cbn. repeat split; auto. apply add_l_NoDup. exact N2.
      + cbn. repeat split; auto. apply del_l_NoDup. exact N2.
      + pose proof (inv_step raises acts (base s) (EventMsg b) (conj N1 N2)) as [P1 P2].
        destruct (event_keeps_session raises acts (base s) b) as [_ [_ P5]].
        destruct (step raises acts (base s) (EventMsg b)) as [b1 o]. cbn [fst base queue] in *.
        repeat split; auto. rewrite P5. exact N3.
  Qed.

  Lemma cinv_run : forall h s, CInv s -> CInv (fst (crun_from raises acts s h)).
  Proof.
    induction h as [|e t IH]; intros s HI; cbn [crun_from]; [exact HI|].
    pose proof (cstep_inv s e HI) as P. destruct (cstep raises acts s e) as [s1 o1]. cbn [fst] in P.
    specialize (IH s1 P). destruct (crun_from raises acts s1 t) as [s2 o2]. exact IH.
  Qed.

  (* ------------------------------------------------------------ supports_subscribe *)
  Lemma lose_sup : forall s,
      sup (base (fst (lose s))) = sup (base s) && negb (existsb ccutoff (snd (lose s))).
  Proof.
    intros s. unfold lose. destruct (queue s) as [|p q].
    - destruct (conn (base s)); cbn; rewrite andb_true_r; reflexivity.
    - destruct (fail_keeps p (set_conn (base s) false)) as [_ [_ [_ [F4 F5]]]].
      destruct (fail p (set_conn (base s) false)) as [b1 o1]. cbn [fst snd] in *.
      destruct (fail_queued_keeps q b1) as [_ [_ [_ G4]]].
      destruct (fail_queued q b1) as [b2 o2]. cbn [fst snd base] in *.
      rewrite G4, F4. cbn [existsb ccutoff cutoff]. rewrite existsb_app, F5. cbn [set_conn sup orb].
      destruct (proc_ev p); cbn; [rewrite andb_false_r; reflexivity|rewrite andb_true_r; reflexivity].
  Qed.

  Lemma answer_ok_sup : forall s p q g rest rows pr,
      (pr = PutOk \/ exists r, pr = PutStatus r) ->
      sup (base (fst (answer_ok s p q g rest rows pr)))
      = sup (base s) && negb (existsb ccutoff (snd (answer_ok s p q g rest rows pr))).
  Proof.
    intros s p q g rest rows pr HP. unfold answer_ok.
    assert (NC : cutoff (OPut (proc_ev p) g pr) = false)
      by (destruct HP as [->|[r ->]]; destruct (proc_ev p); reflexivity).
    destruct rest as [|x r].
    - destruct (finish_keeps (with_rem p [] (pacc p ++ map fst rows)) (base s)) as [F1 [_ [_ [F4 _]]]].
      destruct (finish (with_rem p [] (pacc p ++ map fst rows)) (base s)) as [b' o2]. cbn [fst snd base] in *.
      cbn [existsb ccutoff]. rewrite NC, F4, F1. cbn. rewrite andb_true_r. reflexivity.
    - cbn [fst snd base existsb ccutoff]. rewrite NC. cbn. rewrite andb_true_r. reflexivity.
  Qed.

  Lemma cstep_sup : forall s e,
      sup (base (fst (cstep raises acts s e)))
      = sup (base s) && negb (existsb ccutoff (snd (cstep raises acts s e))).
  Proof.
    intros s e. destruct e as [sub tag cs|r| |ord|e]; cbn [cstep].
    - destruct sub.
      + destruct (negb (sup (base s))); [cbn; rewrite andb_true_r; reflexivity|].
        destruct (negb (conn (base s))); [cbn; rewrite andb_true_r; reflexivity|].
        destruct (runs cs); cbn; rewrite andb_true_r; reflexivity.
      + destruct (negb (conn (base s))); [cbn; rewrite andb_true_r; reflexivity|].
        destruct (runs cs); cbn; rewrite andb_true_r; reflexivity.
    - unfold canswer. destruct (queue s) as [|p q] eqn:EQ; [cbn; rewrite andb_true_r; reflexivity|].
      destruct (prem p) as [|[a g] rest] eqn:EP; [cbn; rewrite andb_true_r; reflexivity|].
      destruct r as [|rows| |].
      + apply answer_ok_sup. left. reflexivity.
      + apply answer_ok_sup. right. eexists. reflexivity.
      + apply lose_sup.
      + destruct (fail_keeps p (base s)) as [_ [_ [_ [F4 F5]]]].
        destruct (fail p (base s)) as [b' o2]. cbn [fst snd base] in *.
        rewrite F4. cbn [existsb ccutoff cutoff]. rewrite F5.
        destruct (proc_ev p); cbn; [rewrite andb_false_r; reflexivity|rewrite andb_true_r; reflexivity].
    - apply lose_sup.
    - destruct (conn (base s)); [cbn; rewrite andb_true_r; reflexivity|].
      assert (NC : existsb ccutoff (map CO (OSession :: notify raises (lst (base s)) [])) = false).
      { rewrite ccutoff_map. cbn [existsb cutoff orb]. apply notify_no_cutoff. }
      destruct (negb (sup (base s))); [cbn [fst snd base sup]; rewrite NC; cbn; rewrite andb_true_r; reflexivity|].
      destruct (runs (order_by ord (subs (base s)))); cbn [fst snd base sup]; rewrite NC; cbn; rewrite andb_true_r; reflexivity.
    - destruct e as [cs rs|cs rs|l|l|rs| |b]; try (cbn; rewrite andb_true_r; reflexivity).
      pose proof (sup_step raises acts (base s) (EventMsg b)) as P.
      destruct (step raises acts (base s) (EventMsg b)) as [b1 o]. cbn [fst snd base] in *.
      rewrite ccutoff_map. exact P.
  Qed.

  Lemma crun_sup : forall h s,
      sup (base (fst (crun_from raises acts s h)))
      = sup (base s) && negb (existsb ccutoff (snd (crun_from raises acts s h))).
  Proof.
    induction h as [|e t IH]; intros s; cbn [crun_from].
    - cbn. rewrite andb_true_r. reflexivity.
    - pose proof (cstep_sup s e) as P. destruct (cstep raises acts s e) as [s1 o1]. cbn [fst snd] in P.
      specialize (IH s1). destruct (crun_from raises acts s1 t) as [s2 o2]. cbn [fst snd] in *.
      rewrite IH, P, existsb_app, negb_orb, andb_assoc. reflexivity.
  Qed.

  (* ------------------------------------------------------------ re-subscription completes under overlap *)
  Definition Sync (s : cst) : Prop :=
    Forall (fun p => proc_ev p = true) (queue s)
    /\ (conn (base s) = true -> sup (base s) = true ->
        forall c, In c (subs (base s)) -> In c (acc s) \/ In c (pending_true (queue s))).

  Lemma sync_init : Sync cinit.
  Proof. split; [constructor|]. cbn. discriminate. Qed.

  Lemma lose_conn : forall s, conn (base (fst (lose s))) = false /\ queue (fst (lose s)) = [].
  Proof.
    intros s. unfold lose. destruct (queue s) as [|p q] eqn:EQ.
    - destruct (conn (base s)) eqn:EC; cbn; auto.
    - destruct (fail_keeps p (set_conn (base s) false)) as [_ [F2 _]].
      destruct (fail p (set_conn (base s) false)) as [b1 o1]. cbn [fst] in *.
      destruct (fail_queued_keeps q b1) as [_ [G2 _]].
      destruct (fail_queued q b1) as [b2 o2]. cbn [fst base queue] in *. split; [|reflexivity].
      rewrite G2, F2. reflexivity.
  Qed.

  Lemma cstep_sync : forall s e, benign e = true -> Sync s -> Sync (fst (cstep raises acts s e)).
  Proof.
    intros s e HB [SQ SS]. unfold Sync. destruct e as [sub tag cs|r| |ord|e]; cbn [cstep].
    - destruct sub; [|discriminate].
      destruct (negb (sup (base s))) eqn:ES.
      { csimpl. split; [exact SQ|]. intros _ H. apply negb_true_iff in ES. congruence. }
      destruct (negb (conn (base s))) eqn:EC.
      { csimpl. split; [exact SQ|]. intros H. apply negb_true_iff in EC. congruence. }
      apply negb_false_iff in ES. apply negb_false_iff in EC.
      destruct (runs cs) as [|x r] eqn:ER.
      + apply runs_nil in ER. subst cs. csimpl. split; [exact SQ|]. intros _ _ c HI. apply (SS EC ES c HI).
      + cbn [fst base queue acc set_subs subs conn sup]. split.
        * apply Forall_app. split; [exact SQ|]. constructor; [reflexivity|constructor].
        * intros _ _ c HI. apply union_In in HI. rewrite pending_true_app, in_app_iff.
          destruct HI as [HI|HI].
          -- destruct (SS EC ES c HI); auto.
          -- right. right. rewrite pending_true_single. cbn [proc_ev pk prem]. rewrite <- ER, runs_concat. exact HI.
    - unfold canswer. destruct (queue s) as [|p q] eqn:EQ; [csimpl; rewrite EQ; split; assumption|].
      assert (PE : proc_ev p = true) by (inversion SQ; assumption).
      assert (SQ' : Forall (fun p => proc_ev p = true) q) by (inversion SQ; assumption).
      destruct (prem p) as [|[a g] rest] eqn:EP; [csimpl; rewrite EQ; split; assumption|].
      destruct r as [|rows| |]; [|discriminate| |].
      + unfold answer_ok. rewrite PE. unfold rejected. cbn [filter map app]. rewrite app_nil_r.
        unfold apply_ok. rewrite diff_nil_r.
        assert (COV : forall c, conn (base s) = true -> sup (base s) = true -> In c (subs (base s)) ->
                                 In c (union (acc s) g) \/ In c (pending_true q) \/ In c (concat (map snd rest))).
        { intros c H1 H2 H3. destruct (SS H1 H2 c H3) as [H|H]; [left; apply union_In; auto|].
          rewrite pending_true_cons, PE, EP in H. cbn [map snd concat] in H.
          rewrite !in_app_iff in H. destruct H as [[H|H]|H]; auto. left. apply union_In. auto. }
        destruct rest as [|x r].
        * destruct (finish_keeps (with_rem p [] (pacc p)) (base s)) as [F1 [F2 [_ [_ [F5 _]]]]].
          specialize (F5 PE).
          destruct (finish (with_rem p [] (pacc p)) (base s)) as [b' o2]. cbn [fst base queue acc] in *.
          split; [exact SQ'|]. intros H1 H2 c H3. rewrite F2 in H1. rewrite F1 in H2. rewrite F5 in H3.
          destruct (COV c H1 H2 H3) as [H|[H|[]]]; auto.
        * cbn [fst base queue acc]. split.
          -- apply Forall_app. split; [exact SQ'|]. constructor; [exact PE|constructor].
          -- intros H1 H2 c H3. rewrite pending_true_app, in_app_iff.
             destruct (COV c H1 H2 H3) as [H|[H|H]]; auto.
             right. right. rewrite pending_true_single.
             replace (proc_ev (with_rem p (x :: r) (pacc p))) with (proc_ev p) by reflexivity.
             rewrite PE. exact H.
      + destruct (lose_conn s) as [L1 L2]. split.
        * rewrite L2. constructor.
        * intros H. rewrite L1 in H. discriminate.
      + destruct (fail_keeps p (base s)) as [_ [_ [_ [F4 _]]]].
        destruct (fail p (base s)) as [b' o2]. cbn [fst base queue acc] in *. split; [exact SQ'|].
        intros _ H. rewrite F4, PE, andb_false_r in H. discriminate.
    - destruct (lose_conn s) as [L1 L2]. split; [rewrite L2; constructor|]. intros H. rewrite L1 in H. discriminate.
    - destruct (conn (base s)) eqn:EC; [csimpl; rewrite EC; split; assumption|].
      destruct (negb (sup (base s))) eqn:ES.
      { csimpl. split; [constructor|]. intros _ H. apply negb_true_iff in ES. congruence. }
      destruct (runs (order_by ord (subs (base s)))) as [|x r] eqn:ER.
      + apply runs_nil in ER. csimpl. split; [constructor|]. intros _ _ c HI.
        apply (order_by_covers ord) in HI. rewrite ER in HI. destruct HI.
      + cbn [fst base queue acc subs]. split; [constructor; [reflexivity|constructor]|].
        intros _ _ c HI. right. rewrite pending_true_single. cbn [proc_ev pk prem]. rewrite <- ER, runs_concat.
        apply order_by_covers. exact HI.
    - destruct e as [cs rs|cs rs|l|l|rs| |b]; try (csimpl; split; assumption).
      destruct (event_keeps_session raises acts (base s) b) as [P1 [P2 P3]].
      destruct (step raises acts (base s) (EventMsg b)) as [b1 o]. cbn [fst base queue acc] in *.
      split; [exact SQ|]. rewrite P1, P2, P3. exact SS.
  Qed.

  Lemma crun_sync : forall h s, forallb benign h = true -> Sync s -> Sync (fst (crun_from raises acts s h)).
  Proof.
    induction h as [|e t IH]; intros s HB HS; cbn [crun_from]; [exact HS|].
    cbn [forallb] in HB. apply andb_true_iff in HB. destruct HB as [B1 B2].
    pose proof (cstep_sync s e B1 HS) as P. destruct (cstep raises acts s e) as [s1 o1]. cbn [fst] in P.
    specialize (IH s1 B2 P). destruct (crun_from raises acts s1 t) as [s2 o2]. exact IH.
  Qed.
  (* ------------------------------------------------------------ a call that does not overlap = one coarse step *)
  Lemma send_all_ok : forall ev gs a0, exists o, send ev [] gs a0 = (o, UDone a0).
  Proof.
    intros ev. induction gs as [|[a g] t IH]; intros a0; cbn [send reply_for].
    - eexists. reflexivity.
    - destruct (IH a0) as [o E]. rewrite E. eexists. reflexivity.
  Qed.

  Lemma fst_crun_cons : forall s e t,
      fst (crun_from raises acts s (e :: t)) = fst (crun_from raises acts (fst (cstep raises acts s e)) t).
  Proof.
    intros s e t. cbn [crun_from]. destruct (cstep raises acts s e) as [s1 o1]. cbn [fst].
    destruct (crun_from raises acts s1 t) as [s2 o2]. reflexivity.
  Qed.

  Lemma drain_single : forall rest s p a g,
      queue s = [p] -> prem p = (a, g) :: rest -> pk p = KSub ->
      base (fst (crun_from raises acts s (repeat (CAnswer ROk) (S (length rest))))) = base s
      /\ queue (fst (crun_from raises acts s (repeat (CAnswer ROk) (S (length rest))))) = [].
  Proof.
    induction rest as [|x r IH]; intros s p a g HQ HP HK.
    - cbn [length repeat]. rewrite fst_crun_cons. cbn [cstep crun_from fst]. unfold canswer. rewrite HQ, HP.
      unfold answer_ok, finish. cbn [with_rem pk]. rewrite HK. cbn. split; reflexivity.
    - destruct x as [a' g']. cbn [length repeat]. rewrite fst_crun_cons.
      pose (s1 := mkcst (base s) [with_rem p ((a', g') :: r) (pacc p ++ [])]
                        (apply_ok (acc s) (proc_ev p) g (rejected []))).
      assert (E : fst (cstep raises acts s (CAnswer ROk)) = s1).
      { cbn [cstep]. unfold canswer. rewrite HQ, HP. unfold answer_ok. reflexivity. }
      rewrite E.
      destruct (IH s1 (with_rem p ((a', g') :: r) (pacc p ++ [])) a' g' eq_refl eq_refl HK) as [I1 I2].
      cbn [length repeat] in I1, I2. split; [exact I1|exact I2].
  Qed.

  Lemma seq_subscribe : forall s tag cs,
      queue s = [] -> conn (base s) = true -> sup (base s) = true ->
      base (fst (crun_from raises acts s (CStart true tag cs :: repeat (CAnswer ROk) (length (runs cs)))))
      = fst (step raises acts (base s) (Subscribe cs []))
      /\ queue (fst (crun_from raises acts s (CStart true tag cs :: repeat (CAnswer ROk) (length (runs cs))))) = [].
  Proof.
    intros s tag cs HQ HC HS.
    assert (COARSE : fst (step raises acts (base s) (Subscribe cs []))
                     = mkst (union (subs (base s)) cs) (lst (base s)) true true).
    { cbn [step]. rewrite HS, HC. cbn [negb]. unfold update.
      destruct (send_all_ok true (groups cs) []) as [o E]. rewrite E. reflexivity. }
    rewrite COARSE, fst_crun_cons.
    destruct (runs cs) as [|[a g] rest] eqn:ER.
    - cbn [length repeat crun_from fst cstep]. rewrite HS, HC, ER. cbn. unfold set_subs. rewrite ?HS, ?HC. split; [reflexivity|exact HQ].
    - assert (E : fst (cstep raises acts s (CStart true tag cs))
                  = mkcst (set_subs (base s) (union (subs (base s)) cs)) [mkproc KSub tag cs ((a, g) :: rest) []] (acc s)).
      { cbn [cstep]. rewrite HS, HC, ER, HQ. reflexivity. }
      rewrite E. cbn [length].
      destruct (drain_single rest (mkcst (set_subs (base s) (union (subs (base s)) cs))
                                         [mkproc KSub tag cs ((a, g) :: rest) []] (acc s))
                             (mkproc KSub tag cs ((a, g) :: rest) []) a g eq_refl eq_refl eq_refl) as [D1 D2].
      split; [|exact D2]. rewrite D1. cbn. unfold set_subs. rewrite ?HS, ?HC. reflexivity.
  Qed.
End Conc.

(* ------------------------------------------------------------ statements for Props/C12.v *)
Lemma main_conc_invariant : forall raises acts h,
    let s := fst (crun raises acts h) in
    NoDup (subs (base s)) /\ NoDup (lst (base s))
    /\ (conn (base s) = false -> queue s = []) /\ wf_queue (queue s).
Proof. intros. apply (cinv_run raises acts h cinit cinv_init). Qed.

Lemma main_conc_fallback : forall raises acts h,
    sup (base (fst (crun raises acts h))) = negb (existsb ccutoff (snd (crun raises acts h))).
Proof. intros. unfold crun. rewrite crun_sup. reflexivity. Qed.

Lemma main_conc_resubscribe : forall raises acts h,
    forallb benign h = true ->
    let s := fst (crun raises acts h) in
    conn (base s) = true -> sup (base s) = true -> queue s = [] ->
    forall c, In c (subs (base s)) -> In c (acc s).
Proof.
  intros raises acts h HB s HC HS HQ c HI.
  destruct (crun_sync raises acts h cinit HB (sync_init)) as [_ SS].
  fold (crun raises acts h) in SS. fold s in SS.
  destruct (SS HC HS c HI) as [H|H]; [exact H|]. rewrite HQ in H. destruct H.
Qed.

Lemma main_conc_sequential : forall raises acts h tag cs,
    let s := fst (crun raises acts h) in
    queue s = [] -> conn (base s) = true -> sup (base s) = true ->
    base (fst (crun_from raises acts s (CStart true tag cs :: repeat (CAnswer ROk) (length (runs cs)))))
    = fst (step raises acts (base s) (Subscribe cs []))
    /\ queue (fst (crun_from raises acts s (CStart true tag cs :: repeat (CAnswer ROk) (length (runs cs))))) = [].
Proof. intros. apply seq_subscribe; assumption. Qed.

(* the unsubscribe / subscribe race of the unchanged code: the caller's LAST call for 1.2 is subscribe, the accessory
   has been told ev:true for it, yet it is not in the subscription set (so the next reconnect will not ask for it) *)
Definition race_hist : list cevent :=
  [ CConnUp []; CStart true 1 [(1, 2)%N]; CAnswer ROk;
    CStart false 2 [(1, 2)%N];          (* unsubscribe(1.2): its ev:false request is on the wire *)
    CStart true 3 [(1, 2)%N];           (* subscribe(1.2) again: queued behind it *)
    CAnswer ROk;                        (* ev:false answered: unsubscribe completes and forgets 1.2 *)
    CAnswer ROk ].                      (* ev:true answered *)

Lemma main_conc_race : forall raises acts,
    exists h c, last_call c h None = Some true
                /\ (let s := fst (crun raises acts h) in
                    ~ In c (subs (base s)) /\ In c (acc s)
                    /\ sup (base s) = true /\ conn (base s) = true /\ queue s = []).
Proof.
  intros raises acts. exists race_hist, (1, 2)%N. split; [reflexivity|].
  cbn. repeat split; auto.
Qed.
