(* C20 - lemmas about the text layer (Model/PersistText.v). *)
From Coq Require Import List NArith ZArith Arith Bool Lia ZifyN ZifyNat ZifyBool.
From AHK Require Import Model.PersistText.
Import ListNotations.
Local Open Scope N_scope.
Local Ltac Zify.zify_post_hook ::= Z.to_euclidean_division_equations.

Ltac ltb_cases :=
  repeat match goal with
         | |- context [?a <? ?b] => destruct (N.ltb_spec a b); try lia
         | |- context [?a <=? ?b] => destruct (N.leb_spec a b); try lia
         end.

Lemma dec_enc1 : forall c rest, scalar c ->
  utf8_dec (enc1 c ++ rest) = option_map (cons c) (utf8_dec rest).
Proof.
  intros c rest Hs. unfold scalar, scalarb in Hs.
  assert (Hr : c < 55296 \/ (57344 <= c /\ c < 1114112)) by lia. clear Hs.
  unfold enc1.
  destruct (N.ltb_spec c 128) as [H1|H1].
  { cbn [app utf8_dec]. destruct (N.ltb_spec c 128); [reflexivity|lia]. }
  destruct (N.ltb_spec c 2048) as [H2|H2].
  { cbn [app utf8_dec]. unfold cont.
    set (b0 := 192 + c / 64). set (b1 := 128 + c mod 64).
    assert (194 <= b0 < 224) by (unfold b0; lia).
    assert (128 <= b1 < 192) by (unfold b1; lia).
    assert (E : (b0 - 192) * 64 + (b1 - 128) = c) by (unfold b0, b1; lia).
    rewrite E. ltb_cases. reflexivity. }
  destruct (N.ltb_spec c 65536) as [H3|H3].
  { cbn [app utf8_dec]. unfold cont.
    set (b0 := 224 + c / 4096). set (b1 := 128 + (c / 64) mod 64). set (b2 := 128 + c mod 64).
    assert (224 <= b0 < 240) by (unfold b0; lia).
    assert (128 <= b1 < 192) by (unfold b1; lia).
    assert (128 <= b2 < 192) by (unfold b2; lia).
    assert (E : (b0 - 224) * 4096 + (b1 - 128) * 64 + (b2 - 128) = c) by (unfold b0, b1, b2; lia).
    cbv zeta. rewrite E. ltb_cases; cbn [andb negb]; try reflexivity; lia. }
  { cbn [app utf8_dec]. unfold cont.
    set (b0 := 240 + c / 262144). set (b1 := 128 + (c / 4096) mod 64).
    set (b2 := 128 + (c / 64) mod 64). set (b3 := 128 + c mod 64).
    assert (240 <= b0 < 245) by (unfold b0; lia).
    assert (128 <= b1 < 192) by (unfold b1; lia).
    assert (128 <= b2 < 192) by (unfold b2; lia).
    assert (128 <= b3 < 192) by (unfold b3; lia).
    assert (E : (b0 - 240) * 262144 + (b1 - 128) * 4096 + (b2 - 128) * 64 + (b3 - 128) = c)
      by (unfold b0, b1, b2, b3; lia).
    cbv zeta. rewrite E. ltb_cases; cbn [andb negb]; try reflexivity; lia. }
Qed.

Lemma forallb_scalar : forall s, forallb scalarb s = true <-> Forall scalar s.
Proof.
  intro s. rewrite forallb_forall, Forall_forall. unfold scalar. tauto.
Qed.

Lemma utf8_roundtrip_l : forall s, Forall scalar s -> utf8_dec (utf8_enc s) = Some s.
Proof.
  induction s as [|c s IH]; intro H; [reflexivity|].
  inversion H; subst. unfold utf8_enc in *. cbn [flat_map].
  rewrite dec_enc1 by assumption. rewrite IH by assumption. reflexivity.
Qed.

(* the code in /repo: both sides name UTF-8, so the hosts do not matter *)
Lemma text_restart_explicit_l : forall hw hr s, Forall scalar s ->
  text_restart (Some Utf8) (Some Utf8) hw hr s = Some s.
Proof.
  intros hw hr s H. unfold text_restart, text_write, text_read, effective, enc_with, dec_with.
  apply forallb_scalar in H as Hb. rewrite Hb. apply utf8_roundtrip_l, H.
Qed.

(* ASCII-only text: every combination of arguments and hosts reads it back (why the repository's tests and
   ASCII aliases cannot see a lost encoding argument) *)
Lemma enc1_ascii : forall c, c < 128 -> enc1 c = [c].
Proof. intros c H. unfold enc1. destruct (N.ltb_spec c 128); [reflexivity|lia]. Qed.

Lemma utf8_enc_ascii : forall s, Forall (fun c => c < 128) s -> utf8_enc s = s.
Proof.
  induction s as [|c s IH]; intro H; [reflexivity|]. inversion H; subst.
  unfold utf8_enc in *. cbn [flat_map]. rewrite enc1_ascii by assumption. rewrite IH by assumption. reflexivity.
Qed.

Lemma utf8_dec_ascii : forall s, Forall (fun c => c < 128) s -> utf8_dec s = Some s.
Proof.
  induction s as [|c s IH]; intro H; [reflexivity|]. inversion H; subst.
  cbn [utf8_dec]. destruct (N.ltb_spec c 128); [|lia]. rewrite IH by assumption. reflexivity.
Qed.

Lemma forallb_lt : forall k s, Forall (fun c => c < 128) s -> 128 <= k -> forallb (fun x => x <? k) s = true.
Proof.
  intros k s H Hk. apply forallb_forall. rewrite Forall_forall in H. intros x Hx. apply H in Hx. lia.
Qed.

Lemma forallb_scalar_ascii : forall s, Forall (fun c => c < 128) s -> forallb scalarb s = true.
Proof.
  intros s H. apply forallb_forall. rewrite Forall_forall in H. intros x Hx. apply H in Hx. unfold scalarb. lia.
Qed.

Lemma text_restart_ascii_l : forall ew er hw hr s, Forall (fun c => c < 128) s ->
  text_restart ew er hw hr s = Some s.
Proof.
  intros ew er hw hr s H.
  assert (Ha : forallb asciib s = true) by (apply (forallb_lt 128 s H); lia).
  assert (Hl : forallb (fun x => x <? 256) s = true) by (apply (forallb_lt 256 s H); lia).
  assert (Hs := forallb_scalar_ascii s H).
  unfold text_restart, text_write, text_read.
  destruct (effective ew hw), (effective er hr); unfold enc_with, dec_with, dec_ascii, dec_latin1;
    rewrite ?Hs, ?Ha, ?Hl, ?(utf8_enc_ascii s H), ?Ha, ?Hl, ?(utf8_dec_ascii s H); reflexivity.
Qed.

(* a non-ASCII code point puts a byte >= 128 into the file *)
Lemma enc1_high : forall c, 128 <= c -> c < 1114112 -> Exists (fun b => 128 <= b) (enc1 c) /\ (1 < length (enc1 c))%nat.
Proof.
  intros c H Hm. unfold enc1.
  destruct (N.ltb_spec c 128); [lia|].
  destruct (N.ltb_spec c 2048); [split; [apply Exists_cons_hd; lia | cbn; lia]|].
  destruct (N.ltb_spec c 65536); split; try (apply Exists_cons_hd; lia); cbn; lia.
Qed.

Lemma enc1_len : forall c, (1 <= length (enc1 c))%nat.
Proof.
  intro c. unfold enc1.
  destruct (c <? 128); [cbn; lia|]. destruct (c <? 2048); [cbn; lia|]. destruct (c <? 65536); cbn; lia.
Qed.

Lemma utf8_enc_high : forall s, Forall scalar s -> Exists (fun c => 128 <= c) s ->
  Exists (fun b => 128 <= b) (utf8_enc s) /\ (length s < length (utf8_enc s))%nat.
Proof.
  induction s as [|c s IH]; intros Hs He; [inversion He|].
  inversion Hs as [|? ? Hc Hs']; subst. unfold utf8_enc in *. cbn [flat_map].
  assert (Hlen : (length s <= length (flat_map enc1 s))%nat).
  { clear. induction s as [|d s IH]; [cbn; lia|]. cbn [flat_map length]. rewrite app_length.
    pose proof (enc1_len d). lia. }
  inversion He as [? ? Hh|? ? Ht]; subst.
  - assert (c < 1114112) by (unfold scalar, scalarb in Hc; lia).
    destruct (enc1_high c Hh) as [E L]; [assumption|]. split.
    + apply Exists_app. left. exact E.
    + rewrite app_length. cbn [length]. lia.
  - destruct (IH Hs' Ht) as [E L]. split.
    + apply Exists_app. right. exact E.
    + rewrite app_length. cbn [length]. pose proof (enc1_len c). lia.
Qed.

Lemma forallb_ascii_false : forall b, Exists (fun x => 128 <= x) b -> forallb asciib b = false.
Proof.
  induction b as [|x b IH]; intro H; [inversion H|].
  cbn [forallb]. inversion H; subst.
  - unfold asciib. destruct (N.ltb_spec x 128); [lia|reflexivity].
  - rewrite IH by assumption. apply andb_false_r.
Qed.

(* seeded change C20-O on a host with the POSIX C locale: the reader omits the encoding -> EVERY text with a
   non-ASCII code point fails to load, whatever host wrote it *)
Lemma text_default_reader_ascii_l : forall hw s, Forall scalar s -> Exists (fun c => 128 <= c) s ->
  text_restart (Some Utf8) None hw Ascii s = None.
Proof.
  intros hw s Hs He. unfold text_restart, text_write, text_read, effective, enc_with, dec_with, dec_ascii.
  apply forallb_scalar in Hs as Hb. rewrite Hb.
  destruct (utf8_enc_high s Hs He) as [E _]. rewrite (forallb_ascii_false _ E). reflexivity.
Qed.

(* ... and on a host with an 8-bit code page that maps every byte (ISO-8859-1): it loads, silently, something else *)
Lemma text_default_reader_latin1_l : forall hw s, Forall scalar s -> Exists (fun c => 128 <= c) s ->
  forall s', text_restart (Some Utf8) None hw Latin1 s = Some s' -> s' <> s.
Proof.
  intros hw s Hs He s'. unfold text_restart, text_write, text_read, effective, enc_with, dec_with, dec_latin1.
  apply forallb_scalar in Hs as Hb. rewrite Hb.
  destruct (utf8_enc_high s Hs He) as [_ L].
  destruct (forallb _ (utf8_enc s)); [|discriminate]. intros [= <-] E. rewrite E in L. lia.
Qed.

(* the mirror image: a WRITER without the argument cannot even save a non-ASCII text under the C locale *)
Lemma text_default_writer_ascii_l : forall er hr s, Exists (fun c => 128 <= c) s ->
  text_restart None er Ascii hr s = None.
Proof.
  intros er hr s He. unfold text_restart, text_write, effective, enc_with.
  rewrite (forallb_ascii_false _ He). reflexivity.
Qed.

(* bytes of a UTF-8 file cut inside a multi-byte sequence do not decode (used with the prefix streams) *)
Definition kueche : list N := [75; 252; 99; 104; 101; 32; 23458; 21381; 32; 127968; 32; 1114111; 55295; 57344].

Lemma text_nonvacuous_l :
  Forall scalar kueche /\ Exists (fun c => 128 <= c) kueche /\
  utf8_enc [252; 23458; 127968] = [195; 188; 229; 174; 162; 240; 159; 143; 160] /\
  (forall hw hr, In hw [Utf8; Ascii; Latin1] -> In hr [Utf8; Ascii; Latin1] ->
     text_restart (Some Utf8) (Some Utf8) hw hr kueche = Some kueche) /\
  text_restart (Some Utf8) None Utf8 Ascii kueche = None /\
  text_restart (Some Utf8) None Utf8 Latin1 [75; 252] = Some [75; 195; 188] /\
  text_restart None (Some Utf8) Latin1 Utf8 [75; 252] = None /\
  utf8_dec [195] = None /\ utf8_dec [192; 175] = None /\ utf8_dec [237; 160; 128] = None /\
  utf8_dec [244; 144; 128; 128] = None.
Proof.
  split. { apply forallb_scalar. vm_compute. reflexivity. }
  split. { apply Exists_cons_tl, Exists_cons_hd. vm_compute. discriminate. }
  split; [vm_compute; reflexivity|].
  split. { intros hw hr Hw Hr. cbn [In] in Hw, Hr.
           destruct Hw as [<-|[<-|[<-|[]]]], Hr as [<-|[<-|[<-|[]]]]; vm_compute; reflexivity. }
  repeat split; vm_compute; reflexivity.
Qed.
