(* C14, decimal-arithmetic lemmas at the level of coefficients (N / Z):
   digit counts, rounding of coefficients, Decimal._fix. *)
From Coq Require Import List NArith ZArith Bool Lia ZifyN ZifyBool.
From AHK Require Import Lib.Res Model.Convert Proofs.ConvertInt.
Import ListNotations.
Local Open Scope N_scope.

(* ------------------------------------------------------------------ *)
(* number of digits                                                     *)
(* ------------------------------------------------------------------ *)

Lemma ndig_aux_spec : forall fuel c, c < 2 ^ N.of_nat fuel ->
  (c = 0 -> ndig_aux fuel c = 0) /\
  (c <> 0 -> 1 <= ndig_aux fuel c /\ 10 ^ (ndig_aux fuel c - 1) <= c < 10 ^ (ndig_aux fuel c)).
Proof.
  induction fuel as [|f IH]; intros c Hc.
  - simpl in Hc. assert (c = 0) by lia. subst. split; [reflexivity|congruence].
  - cbn [ndig_aux]. destruct (c =? 0) eqn:E.
    + split; [reflexivity|lia].
    + split; [lia|]. intros _.
      assert (Hc10 : c / 10 < 2 ^ N.of_nat f).
      { apply N.div_lt_upper_bound; [lia|]. rewrite Nat2N.inj_succ, N.pow_succ_r' in Hc. lia. }
      destruct (IH (c / 10) Hc10) as [I0 I1].
      assert (Hdm := N.div_mod c 10 ltac:(lia)). assert (Hm := N.mod_lt c 10 ltac:(lia)).
      destruct (N.eq_dec (c / 10) 0) as [Z|NZ].
      * rewrite (I0 Z). simpl. lia.
      * destruct (I1 NZ) as [H1 [Hlo Hhi]].
        set (n := ndig_aux f (c / 10)) in *.
        split; [lia|].
        replace (N.succ n - 1) with (N.succ (n - 1)) by lia.
        rewrite !N.pow_succ_r'. lia.
Qed.

Lemma ndigits_0 : ndigits 0 = 0.
Proof. reflexivity. Qed.

Lemma ndigits_spec : forall c, c <> 0 ->
  1 <= ndigits c /\ 10 ^ (ndigits c - 1) <= c < 10 ^ (ndigits c).
Proof.
  intros c Hc. unfold ndigits.
  apply ndig_aux_spec; [|assumption].
  rewrite Nat2N.inj_succ, N2Nat.id.
  apply N.log2_spec. lia.
Qed.

Lemma ndigits_le : forall c p, c < 10 ^ p -> ndigits c <= p.
Proof.
  intros c p H. destruct (N.eq_dec c 0) as [->|Hc]; [rewrite ndigits_0; lia|].
  destruct (ndigits_spec c Hc) as [H1 [Hlo _]].
  assert (10 ^ (ndigits c - 1) < 10 ^ p) by lia.
  apply N.pow_lt_mono_r_iff in H0; lia.
Qed.

Lemma ndigits_gt : forall c p, 10 ^ p <= c -> p < ndigits c.
Proof.
  intros c p H. assert (Hc : c <> 0). { assert (0 < 10 ^ p) by (apply pow10_pos). lia. }
  destruct (ndigits_spec c Hc) as [H1 [_ Hhi]].
  assert (10 ^ p < 10 ^ ndigits c) by lia.
  apply N.pow_lt_mono_r_iff in H0; lia.
Qed.

(* ------------------------------------------------------------------ *)
(* rounding a coefficient                                               *)
(* ------------------------------------------------------------------ *)

Lemma round_drop_bound : forall m c k,
  let P := pow10 k in
  (round_drop m c k = c / P \/ round_drop m c k = N.succ (c / P)) /\
  (Z.abs (2 * (Z.of_N (round_drop m c k) * Z.of_N P - Z.of_N c)) <= Z.of_N P)%Z.
Proof.
  intros m c k P. assert (HP := pow10_pos k). fold P in HP.
  assert (Hdm := N.div_mod c P ltac:(lia)). assert (Hm := N.mod_lt c P ltac:(lia)).
  unfold round_drop. fold P.
  set (q := c / P) in *. set (r := c mod P) in *. clearbody q r P.
  destruct (round_up m q r P) eqn:E.
  - split; [right; reflexivity|].
    assert (P <= 2 * r). { destruct m; unfold round_up in E; lia. }
    subst c. rewrite N2Z.inj_succ, N2Z.inj_add, N2Z.inj_mul. lia.
  - split; [left; reflexivity|].
    assert (2 * r <= P). { destruct m; unfold round_up in E; lia. }
    subst c. rewrite N2Z.inj_add, N2Z.inj_mul. lia.
Qed.

Lemma round_drop_half_up : forall c k,
  let P := pow10 k in round_drop HalfUp c k = (2 * c + P) / (2 * P).
Proof.
  intros c k P. assert (HP := pow10_pos k). fold P in HP.
  assert (Hdm := N.div_mod c P ltac:(lia)). assert (Hm := N.mod_lt c P ltac:(lia)).
  unfold round_drop, round_up. fold P.
  set (q := c / P) in *. set (r := c mod P) in *. clearbody q r P. subst c.
  destruct (P <=? 2 * r) eqn:E.
  - apply N.div_unique with (r := 2 * r - P); lia.
  - apply N.div_unique with (r := 2 * r + P); lia.
Qed.

(* ------------------------------------------------------------------ *)
(* Decimal._fix                                                         *)
(* ------------------------------------------------------------------ *)

(* what _fix does to a coefficient that is too long: the value becomes
   round_drop(c, k0) * 10^k0 with k0 = digits - precision *)
Lemma dfix_long : forall cx d, 1 <= cprec cx -> cprec cx < ndigits (dcoef d) ->
  let k0 := ndigits (dcoef d) - cprec cx in
  exists k, dexp (dfix cx d) = (dexp d + Z.of_N k)%Z /\ dneg (dfix cx d) = dneg d /\
    dcoef (dfix cx d) * pow10 k = round_drop (crnd cx) (dcoef d) k0 * pow10 k0 /\
    k0 <= k /\ ndigits (dcoef (dfix cx d)) <= cprec cx.
Proof.
  intros cx d Hp Hlong k0. unfold dfix.
  destruct (ndigits (dcoef d) <=? cprec cx) eqn:E; [lia|]. fold k0.
  set (c := dcoef d) in *. set (p := cprec cx) in *.
  set (c' := round_drop (crnd cx) c k0).
  assert (Hc0 : c <> 0). { intro Z. rewrite Z in Hlong. rewrite ndigits_0 in Hlong. lia. }
  destruct (ndigits_spec c Hc0) as [_ [Hlo Hhi]].
  assert (HP := pow10_pos k0).
  assert (Hq : c / pow10 k0 < 10 ^ p).
  { apply N.div_lt_upper_bound; [lia|]. unfold pow10. rewrite <- N.pow_add_r.
    replace (k0 + p) with (ndigits c) by lia. assumption. }
  destruct (round_drop_bound (crnd cx) c k0) as [Hc' _]. fold c' in Hc'.
  assert (Hle : c' <= 10 ^ p) by lia.
  destruct (ndigits c' <=? p) eqn:E2.
  - exists k0. cbn [dexp dneg dcoef]. repeat split; lia.
  - assert (c' = 10 ^ p).
    { destruct (N.lt_ge_cases c' (10 ^ p)) as [L|G]; [|lia]. apply ndigits_le in L. lia. }
    assert (Hp1 : 10 ^ p = 10 * 10 ^ (p - 1)).
    { replace p with (N.succ (p - 1)) at 1 by lia. apply N.pow_succ_r'. }
    assert (Hdiv : c' / 10 = 10 ^ (p - 1)).
    { rewrite H, Hp1. rewrite N.mul_comm. apply N.div_mul. lia. }
    exists (N.succ k0). cbn [dexp dneg dcoef]. repeat split; try lia.
    + rewrite Hdiv, H, Hp1. unfold pow10. rewrite N.pow_succ_r'. lia.
    + rewrite Hdiv. apply ndigits_le. apply N.pow_lt_mono_r; lia.
Qed.

Lemma dfix_short : forall cx d, ndigits (dcoef d) <= cprec cx -> dfix cx d = d.
Proof. intros cx d H. unfold dfix. destruct (ndigits (dcoef d) <=? cprec cx) eqn:E; [reflexivity|lia]. Qed.

(* in both cases: same sign, exponent not smaller, at most p digits, and the
   coefficient moved by at most half a unit of the new last place, which is at
   most c / (2 * 10^(p-1)) *)
Lemma dfix_spec : forall cx d, 1 <= cprec cx ->
  exists k, dexp (dfix cx d) = (dexp d + Z.of_N k)%Z /\ dneg (dfix cx d) = dneg d /\
    ndigits (dcoef (dfix cx d)) <= cprec cx /\
    (2 * 10 ^ (Z.of_N (cprec cx) - 1) *
       Z.abs (Z.of_N (dcoef (dfix cx d)) * 10 ^ Z.of_N k - Z.of_N (dcoef d)) <= Z.of_N (dcoef d))%Z.
Proof.
  intros cx d Hp. destruct (N.le_gt_cases (ndigits (dcoef d)) (cprec cx)) as [S|L].
  - rewrite dfix_short by assumption. exists 0. simpl. rewrite Z.add_0_r, Z.mul_1_r.
    repeat split; try assumption. rewrite Z.sub_diag. simpl. lia.
  - destruct (dfix_long cx d Hp L) as [k [He [Hn [Hc [Hk Hd]]]]].
    exists k. repeat split; try assumption.
    set (k0 := ndigits (dcoef d) - cprec cx) in *.
    destruct (round_drop_bound (crnd cx) (dcoef d) k0) as [_ Hb].
    set (c := dcoef d) in *. set (c1 := dcoef (dfix cx d)) in *.
    set (c' := round_drop (crnd cx) c k0) in *.
    assert (Hc0 : c <> 0). { intro Z. rewrite Z in L. rewrite ndigits_0 in L. lia. }
    destruct (ndigits_spec c Hc0) as [_ [Hlo _]].
    assert (E1 : (Z.of_N c1 * 10 ^ Z.of_N k = Z.of_N c' * Z.of_N (pow10 k0))%Z).
    { rewrite <- N2Z.inj_mul, <- Hc. rewrite N2Z.inj_mul. unfold pow10. rewrite N2Z.inj_pow. reflexivity. }
    rewrite E1.
    assert (E2 : (Z.of_N (pow10 k0) * 10 ^ (Z.of_N (cprec cx) - 1) <= Z.of_N c)%Z).
    { unfold pow10. rewrite N2Z.inj_pow. simpl Z.of_N. rewrite <- Z.pow_add_r by lia.
      replace (Z.of_N k0 + (Z.of_N (cprec cx) - 1))%Z with (Z.of_N (ndigits c - 1)) by lia.
      change 10%Z with (Z.of_N 10). rewrite <- N2Z.inj_pow. lia. }
    assert (0 < 10 ^ (Z.of_N (cprec cx) - 1))%Z by (apply p10_pos; lia).
    nia.
Qed.

(* _fix changes nothing when the value already fits: c = n * 10^t with n < 10^p *)
Lemma dfix_exact : forall cx d n t, 1 <= cprec cx ->
  dcoef d = n * 10 ^ t -> n < 10 ^ cprec cx ->
  exists k, dexp (dfix cx d) = (dexp d + Z.of_N k)%Z /\ dneg (dfix cx d) = dneg d /\
            dcoef (dfix cx d) * pow10 k = dcoef d.
Proof.
  intros cx d n t Hp Hc Hn. destruct (N.le_gt_cases (ndigits (dcoef d)) (cprec cx)) as [S|L].
  - rewrite dfix_short by assumption. exists 0. simpl. rewrite Z.add_0_r. repeat split. unfold pow10. simpl. lia.
  - destruct (dfix_long cx d Hp L) as [k [He [Hs [Hv _]]]].
    exists k. repeat split; try assumption. rewrite Hv.
    set (k0 := ndigits (dcoef d) - cprec cx) in *.
    assert (Hc0 : dcoef d <> 0). { intro Z. rewrite Z in L. rewrite ndigits_0 in L. lia. }
    destruct (ndigits_spec _ Hc0) as [_ [Hlo _]].
    (* t >= k0, otherwise c = n*10^t < 10^(p+t) <= 10^(digits-1) *)
    assert (Ht : k0 <= t).
    { destruct (N.le_gt_cases k0 t) as [?|G]; [assumption|exfalso].
      assert (n * 10 ^ t < 10 ^ cprec cx * 10 ^ t).
      { apply N.mul_lt_mono_pos_r; [apply pow10_pos|assumption]. }
      rewrite <- N.pow_add_r in H.
      assert (10 ^ (cprec cx + t) <= 10 ^ (ndigits (dcoef d) - 1)) by (apply N.pow_le_mono_r; lia).
      lia. }
    assert (Hd : dcoef d = (n * 10 ^ (t - k0)) * pow10 k0).
    { rewrite Hc. unfold pow10. rewrite <- N.mul_assoc, <- N.pow_add_r. f_equal. f_equal. lia. }
    rewrite round_drop_exact.
    + rewrite Hd at 1. rewrite N.div_mul by (assert (P := pow10_pos k0); lia). symmetry. exact Hd.
    + rewrite Hd. apply N.mod_mul. assert (P := pow10_pos k0). lia.
Qed.
