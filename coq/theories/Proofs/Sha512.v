(* SHA-512 model: NIST example vectors (FIPS 180-4 / SHAVS "abc", empty, the
   896-bit message), block-boundary lengths, and the shape of the digest
   (64 bytes, each < 256) for every input. *)
From Coq Require Import List NArith ZArith Arith Bool Lia.
From AHK Require Import Lib.ByteStr Model.Sha512.
Import ListNotations.
Local Open Scope N_scope.

Definition hexd (n : N) : bytes := be_enc 64 n.

Example sha512_nist_abc :
  sha512 [97; 98; 99] =
  hexd 0xddaf35a193617abacc417349ae20413112e6fa4e89a97ea20a9eeee64b55d39a2192992a274fc1a836ba3c23a3feebbd454d4423643ce80e2a9ac94fa54ca49f.
Proof. vm_compute. reflexivity. Qed.

Example sha512_nist_empty :
  sha512 [] =
  hexd 0xcf83e1357eefb8bdf1542850d66d8007d620e4050b5715dc83f4a921d36ce9ce47d0d13c5d85f2b0ff8318d2877eec2f63b931bd47417a81a538327af927da3e.
Proof. vm_compute. reflexivity. Qed.

(* "abcdefghbcdefghi...nopqrstu", 112 bytes: two blocks *)
Example sha512_nist_896 :
  sha512 (bytes_of 112 0x61626364656667686263646566676869636465666768696a6465666768696a6b65666768696a6b6c666768696a6b6c6d6768696a6b6c6d6e68696a6b6c6d6e6f696a6b6c6d6e6f706a6b6c6d6e6f70716b6c6d6e6f7071726c6d6e6f707172736d6e6f70717273746e6f707172737475) =
  hexd 0x8e959b75dae313da8cf4f72814fc143f8f7779c6eb9f7fa17299aeadb6889018501d289e4900f7e4331b99dec4b5433ac7d329eeb6dd26545e96e55b874be909.
Proof. vm_compute. reflexivity. Qed.

(* padding boundaries: 111 bytes fit one block, 112 need two; 127/128 likewise for two/three
   (digests of 'a' * n from an independent implementation) *)
Example sha512_len_111 :
  sha512 (repeat 97 111) =
  hexd 0xfa9121c7b32b9e01733d034cfc78cbf67f926c7ed83e82200ef86818196921760b4beff48404df811b953828274461673c68d04e297b0eb7b2b4d60fc6b566a2.
Proof. vm_compute. reflexivity. Qed.
Example sha512_len_112 :
  sha512 (repeat 97 112) =
  hexd 0xc01d080efd492776a1c43bd23dd99d0a2e626d481e16782e75d54c2503b5dc32bd05f0f1ba33e568b88fd2d970929b719ecbb152f58f130a407c8830604b70ca.
Proof. vm_compute. reflexivity. Qed.
Example sha512_len_127 :
  sha512 (repeat 97 127) =
  hexd 0x828613968b501dc00a97e08c73b118aa8876c26b8aac93df128502ab360f91bab50a51e088769a5c1eff4782ace147dce3642554199876374291f5d921629502.
Proof. vm_compute. reflexivity. Qed.
Example sha512_len_128 :
  sha512 (repeat 97 128) =
  hexd 0xb73d1929aa615934e61a871596b3f3b33359f42b8175602e89f7e06e5f658a243667807ed300314b95cacdd579f3e33abdfbe351909519a846d465c59582f321.
Proof. vm_compute. reflexivity. Qed.

Example sha512_pad_lengths :
  map (fun n => length (sha512_pad (repeat 0 n))) [0; 1; 111; 112; 127; 128; 239; 240]%nat
  = [128; 128; 128; 256; 256; 256; 256; 384]%nat.
Proof. vm_compute. reflexivity. Qed.

(* ------------------------------------------------------------ digest shape *)

Lemma forallb_rev {A} (f : A -> bool) l : forallb f (rev l) = forallb f l.
Proof.
  induction l as [|a l IH]; [reflexivity|].
  cbn [rev forallb]. rewrite forallb_app, IH. cbn [forallb].
  rewrite andb_true_r. apply andb_comm.
Qed.

Lemma be_enc_bytes k n : all_bytes (be_enc k n) = true.
Proof. unfold all_bytes, be_enc. rewrite forallb_rev. apply le_enc_bytes. Qed.

Lemma st8_bytes_length s : length (st8_bytes s) = 64%nat.
Proof.
  destruct s as [[[[[[[a b] c] d] e] f] g] h]. unfold st8_bytes.
  rewrite !app_length, !be_enc_length. reflexivity.
Qed.

Lemma st8_bytes_bytes s : all_bytes (st8_bytes s) = true.
Proof.
  destruct s as [[[[[[[a b] c] d] e] f] g] h]. unfold st8_bytes, all_bytes.
  rewrite !forallb_app.
  repeat (rewrite (be_enc_bytes 8) || rewrite andb_true_l || rewrite andb_true_r).
  reflexivity.
Qed.

Lemma sha512_length m : length (sha512 m) = 64%nat.
Proof. unfold sha512. apply st8_bytes_length. Qed.

Lemma sha512_bytes m : all_bytes (sha512 m) = true.
Proof. unfold sha512. apply st8_bytes_bytes. Qed.

Lemma sha512_shape m : length (sha512 m) = 64%nat /\ all_bytes (sha512 m) = true.
Proof. split; [apply sha512_length|apply sha512_bytes]. Qed.

Lemma sha512_nist_pair :
  sha512 [97; 98; 99] =
    hexd 0xddaf35a193617abacc417349ae20413112e6fa4e89a97ea20a9eeee64b55d39a2192992a274fc1a836ba3c23a3feebbd454d4423643ce80e2a9ac94fa54ca49f /\
  sha512 [] =
    hexd 0xcf83e1357eefb8bdf1542850d66d8007d620e4050b5715dc83f4a921d36ce9ce47d0d13c5d85f2b0ff8318d2877eec2f63b931bd47417a81a538327af927da3e.
Proof. split; [exact sha512_nist_abc|exact sha512_nist_empty]. Qed.
