(* C08 - state invariant of the dispatch LTS (Model/Disp.v) and the step-level facts. *)
From Coq Require Import List NArith Arith Bool Lia ZifyN ZifyNat ZifyBool Sorted Permutation.
From AHK Require Import Model.Disp.
Import ListNotations.

(* ---------------------------------------------------------------- list helpers *)
Lemma skipn_nonnil_lt : forall (A : Type) n (l : list A), skipn n l <> [] -> n < length l.
Proof.
  intros A n l H. destruct (Nat.lt_ge_cases n (length l)) as [|Hge]; [assumption|].
  exfalso. apply H. apply skipn_all2. exact Hge.
Qed.

Lemma firstn_length_lt : forall (A : Type) n (l : list A), n < length l -> length (firstn n l) = n.
Proof. intros. rewrite firstn_length. lia. Qed.

Lemma map_fst_pairs : forall (A B : Type) (t : B) (l : list A), map fst (map (fun w => (w, t)) l) = l.
Proof. intros. rewrite map_map. cbn. apply map_id. Qed.

Lemma NoDup_app_r : forall (A : Type) (a b : list A), NoDup (a ++ b) -> NoDup b.
Proof. induction a; cbn; intros b H; [assumption|]. inversion H; subst. auto. Qed.

Lemma Forall_app_r : forall (A : Type) (P : A -> Prop) a b, Forall P (a ++ b) -> Forall P b.
Proof. intros. apply Forall_app in H. tauto. Qed.

Lemma NoDup_app_swap_one : forall (A : Type) (l : list A) x, NoDup l -> ~ In x l -> NoDup (l ++ [x]).
Proof.
  induction l; cbn; intros x H Hn.
  - constructor; [intros []|constructor].
  - inversion H; subst. constructor.
    + intro Hin. apply in_app_iff in Hin. destruct Hin as [Hin|[<-|[]]]; [contradiction|]. apply Hn. left. reflexivity.
    + apply IHl; [assumption|]. intro. apply Hn. right. assumption.
Qed.

Definition le_wt (p q : rid * N) : Prop := (snd p <= snd q)%N.

Lemma sorted_app : forall (l1 l2 : list (rid * N)),
    StronglySorted le_wt l1 -> StronglySorted le_wt l2 ->
    (forall x y, In x l1 -> In y l2 -> le_wt x y) -> StronglySorted le_wt (l1 ++ l2).
Proof.
  induction l1; cbn; intros l2 H1 H2 H; [assumption|].
  inversion H1; subst. constructor.
  - apply IHl1; auto.
  - apply Forall_app. split; [assumption|]. apply Forall_forall. intros y Hy. apply H; auto.
Qed.

Lemma sorted_app_r : forall (l1 l2 : list (rid * N)), StronglySorted le_wt (l1 ++ l2) -> StronglySorted le_wt l2.
Proof. induction l1; cbn; intros l2 H; [assumption|]. inversion H; subst. auto. Qed.

Lemma sorted_const : forall (t : N) (l : list rid), StronglySorted le_wt (map (fun w => (w, t)) l).
Proof.
  induction l; cbn; constructor; [assumption|].
  apply Forall_forall. intros y Hy. apply in_map_iff in Hy. destruct Hy as [w [<- _]]. unfold le_wt. cbn. lia.
Qed.

(* ---------------------------------------------------------------- removal *)
Lemma remove_rid_incl : forall r l x, In x (remove_rid r l) -> In x l.
Proof.
  induction l; cbn; intros x H; [assumption|].
  destruct (Nat.eqb a r); [right; assumption|]. destruct H; [left; assumption|right; auto].
Qed.

Lemma remove_rid_nodup : forall r l, NoDup l -> NoDup (remove_rid r l).
Proof.
  induction l; cbn; intros H; [constructor|]. inversion H; subst.
  destruct (Nat.eqb a r); [assumption|]. constructor; [|auto].
  intro Hin. apply H2. eapply remove_rid_incl; eauto.
Qed.

Lemma NoDup_app_remove : forall r (a l : list rid), NoDup (a ++ l) -> NoDup (a ++ remove_rid r l).
Proof.
  induction a; cbn; intros l H.
  - apply remove_rid_nodup; assumption.
  - inversion H; subst. constructor; [|auto].
    intro Hin. apply H2. apply in_app_iff in Hin. apply in_app_iff.
    destruct Hin; [left; assumption|right; eapply remove_rid_incl; eauto].
Qed.

Lemma in_ws_true : forall r l, in_ws r l = true <-> In r l.
Proof.
  intros r l. unfold in_ws. rewrite existsb_exists. split.
  - intros [x [Hx He]]. apply Nat.eqb_eq in He. subst. assumption.
  - intros H. exists r. split; [assumption|apply Nat.eqb_refl].
Qed.

Lemma in_fl_true : forall r l, in_fl r l = true <-> In r (map fst l).
Proof.
  intros r l. unfold in_fl. rewrite existsb_exists. split.
  - intros [x [Hx He]]. apply Nat.eqb_eq in He. subst. apply in_map. assumption.
  - intros H. apply in_map_iff in H. destruct H as [x [<- Hx]]. exists x. split; [assumption|apply Nat.eqb_refl].
Qed.

(* a removed id splits the list: l = a ++ r :: b and the removal is a ++ b *)
Lemma remove_rid_split : forall r l, In r l -> exists a b, l = a ++ r :: b /\ remove_rid r l = a ++ b.
Proof.
  induction l; cbn; intros H; [contradiction|].
  destruct (Nat.eqb a r) eqn:E.
  - apply Nat.eqb_eq in E. subst. exists [], l. split; reflexivity.
  - destruct H as [->|H]; [rewrite Nat.eqb_refl in E; discriminate|].
    destruct (IHl H) as [x [y [-> ->]]]. exists (a :: x), y. split; reflexivity.
Qed.

Lemma remove_fl_split : forall r l, In r (map fst l) ->
    exists a wt b, l = a ++ (r, wt) :: b /\ remove_fl r l = a ++ b.
Proof.
  induction l as [|[r0 w0] l]; cbn; intros H; [contradiction|].
  destruct (Nat.eqb r0 r) eqn:E.
  - apply Nat.eqb_eq in E. subst. exists [], w0, l. split; reflexivity.
  - destruct H as [->|H]; [rewrite Nat.eqb_refl in E; discriminate|].
    destruct (IHl H) as [x [wt [y [-> ->]]]]. exists ((r0, w0) :: x), wt, y. split; reflexivity.
Qed.

(* ---------------------------------------------------------------- dispatch *)
Lemma dispatch_spec : forall ms fl res rest evl c,
    dispatch ms fl = (res, rest, evl, c) ->
    exists pre hs' ev',
      fl = pre ++ rest /\ map fst res = map fst pre /\
      https_of_msgs ms = map snd res ++ hs' /\ evs_of_msgs ms = evl ++ ev' /\
      (c = false -> hs' = [] /\ ev' = []).
Proof.
  induction ms as [|[k n] ms IH]; cbn; intros fl res rest evl c H.
  - inversion H; subst. exists [], [], []. repeat split; reflexivity.
  - destruct k.
    + destruct fl as [|[r w] fl'].
      * inversion H; subst. exists [], (n :: https_of_msgs ms), (evs_of_msgs ms).
        repeat split; try reflexivity; intros; discriminate.
      * destruct (dispatch ms fl') as [[[res1 rest1] evs1] c1] eqn:E. inversion H; subst.
        destruct (IH _ _ _ _ _ E) as [pre [hs' [ev' [H1 [H2 [H3 [H4 H5]]]]]]].
        exists ((r, w) :: pre), hs', ev'. cbn. rewrite H1, H2, H3, H4. repeat split; auto; apply H5; assumption.
    + destruct (dispatch ms fl) as [[[res1 rest1] evs1] c1] eqn:E. inversion H; subst.
      destruct (IH _ _ _ _ _ E) as [pre [hs' [ev' [H1 [H2 [H3 [H4 H5]]]]]]].
      exists pre, hs', ev'. cbn. rewrite H4. repeat split; auto; apply H5; assumption.
    + inversion H; subst. exists [], (https_of_msgs ms), (evs_of_msgs ms).
      repeat split; try reflexivity; intros; discriminate.
Qed.

Lemma dispatch_crash_empty : forall n, dispatch [(KHttp, n)] [] = ([], [], [], true).
Proof. reflexivity. Qed.

Lemma dispatch_head : forall n r w fl, dispatch [(KHttp, n)] ((r, w) :: fl) = ([(r, n)], fl, [], false).
Proof. reflexivity. Qed.

(* EVENT messages do not influence which future a response resolves *)
Lemma dispatch_strip : forall ms fl res rest evl c,
    dispatch ms fl = (res, rest, evl, c) -> dispatch (strip_msgs ms) fl = (res, rest, [], c).
Proof.
  unfold strip_msgs.
  induction ms as [|[k n] ms IH]; cbn; intros fl res rest evl c H.
  - inversion H; subst. reflexivity.
  - destruct k; cbn.
    + destruct fl as [|[r w] fl'].
      * inversion H; subst. reflexivity.
      * destruct (dispatch ms fl') as [[[res1 rest1] evs1] c1] eqn:E. inversion H; subst.
        rewrite (IH _ _ _ _ _ E). reflexivity.
    + destruct (dispatch ms fl) as [[[res1 rest1] evs1] c1] eqn:E. inversion H; subst.
      apply (IH _ _ _ _ _ E).
    + inversion H; subst. reflexivity.
Qed.

(* ---------------------------------------------------------------- the invariant *)
Section Inv.
Variable cap : nat.
Variable T30 : N.
Hypothesis cap_pos : 0 < cap.
Hypothesis T30_pos : (0 < T30)%N.

Record Inv (s : st) : Prop := mkInv {
  inv_closed : opened s = false -> inflight s = [] /\ waiters s = [];
  inv_cap : length (inflight s) <= cap;
  inv_wait : waiters s <> [] -> length (inflight s) = cap;
  inv_time : Forall (fun p => (snd p <= clock s /\ clock s < snd p + T30)%N) (inflight s);
  inv_sorted : StronglySorted le_wt (inflight s);
  inv_nodup : NoDup (map fst (inflight s) ++ waiters s);
  inv_fresh : Forall (fun r => r < next s) (map fst (inflight s) ++ waiters s)
}.

Lemma Inv_init : Inv init.
Proof. constructor; cbn; auto; try constructor; try lia. intros H; contradiction. Qed.

Lemma Inv_closed_st : forall s t, Inv (closed_st s t).
Proof. intros. constructor; cbn; auto; try constructor; try lia. intros H; contradiction. Qed.

Lemma waiters_nil_of_inflight_nil : forall s, Inv s -> inflight s = [] -> waiters s = [].
Proof.
  intros s I H. destruct (waiters s) eqn:E; [reflexivity|].
  assert (length (inflight s) = cap) by (apply (inv_wait _ I); rewrite E; discriminate).
  rewrite H in H0. cbn in H0. lia.
Qed.

Lemma opened_of_pending : forall s, Inv s -> inflight s <> [] \/ waiters s <> [] -> opened s = true.
Proof.
  intros s I H. destruct (opened s) eqn:E; [reflexivity|].
  destruct (inv_closed _ I E) as [H1 H2]. rewrite H1, H2 in H. destruct H; contradiction.
Qed.

Lemma step_Inv : forall s e, Inv s -> Inv (fst (step cap T30 s e)).
Proof.
  intros s e I. destruct e; cbn [step].
  - (* Issue *)
    destruct (opened s) eqn:Eo; cbn [negb].
    + destruct ((length (inflight s) <? cap) && match waiters s with [] => true | _ :: _ => false end) eqn:Ec; cbn [fst].
      * apply andb_prop in Ec. destruct Ec as [Ec1 Ec2]. apply Nat.ltb_lt in Ec1.
        assert (Ew : waiters s = []) by (destruct (waiters s); [reflexivity|discriminate]).
        constructor; cbn.
        -- intros; discriminate.
        -- rewrite app_length. cbn. lia.
        -- rewrite Ew. intros H; contradiction.
        -- apply Forall_app. split; [apply (inv_time _ I)|]. constructor; [|constructor]. cbn. lia.
        -- apply sorted_app; [apply (inv_sorted _ I)|repeat constructor|].
           intros x y Hx [<-|[]]. unfold le_wt. cbn.
           pose proof (inv_time _ I) as Ht. rewrite Forall_forall in Ht. apply Ht in Hx. lia.
        -- rewrite Ew, app_nil_r, map_app. cbn.
           pose proof (inv_nodup _ I) as Hn. rewrite Ew, app_nil_r in Hn.
           pose proof (inv_fresh _ I) as Hf. rewrite Ew, app_nil_r in Hf.
           apply NoDup_app_swap_one; [assumption|]. intro Hin. rewrite Forall_forall in Hf. apply Hf in Hin. lia.
        -- rewrite Ew, app_nil_r, map_app. cbn.
           pose proof (inv_fresh _ I) as Hf. rewrite Ew, app_nil_r in Hf.
           apply Forall_app. split; [|repeat constructor].
           eapply Forall_impl; [|exact Hf]. cbn. intros; lia.
      * constructor; cbn.
        -- intros; discriminate.
        -- apply (inv_cap _ I).
        -- intros _. apply andb_false_iff in Ec. destruct Ec as [Ec|Ec].
           ++ apply Nat.ltb_ge in Ec. pose proof (inv_cap _ I). lia.
           ++ apply (inv_wait _ I). destruct (waiters s); [discriminate|discriminate].
        -- apply (inv_time _ I).
        -- apply (inv_sorted _ I).
        -- rewrite app_assoc. apply NoDup_app_swap_one; [apply (inv_nodup _ I)|].
           intro Hin. pose proof (inv_fresh _ I) as Hf. rewrite Forall_forall in Hf. apply Hf in Hin. lia.
        -- rewrite app_assoc. apply Forall_app. split; [|repeat constructor].
           eapply Forall_impl; [|exact (inv_fresh _ I)]. cbn. intros; lia.
    + cbn [fst]. destruct (inv_closed _ I Eo) as [H1 H2]. constructor; cbn; rewrite ?H1, ?H2; cbn; auto; try constructor; try lia.
      intros H; contradiction.
  - (* Data *)
    destruct (opened s) eqn:Eo; cbn [negb]; [|exact I].
    destruct (dispatch ms (inflight s)) as [[[res rest] evl] c] eqn:Ed.
    destruct (dispatch_spec _ _ _ _ _ _ Ed) as [pre [hs' [ev' [H1 [H2 [H3 [H4 H5]]]]]]].
    destruct c; cbn [fst]; [apply Inv_closed_st|].
    pose proof (inv_cap _ I) as Hcap. rewrite H1, app_length in Hcap.
    constructor; cbn.
    + intros; discriminate.
    + rewrite app_length, map_length, firstn_length. lia.
    + intros Hs. apply skipn_nonnil_lt in Hs.
      rewrite app_length, map_length, firstn_length. lia.
    + apply Forall_app. split.
      * pose proof (inv_time _ I) as Ht. rewrite H1 in Ht. apply Forall_app_r in Ht. exact Ht.
      * apply Forall_forall. intros x Hx. apply in_map_iff in Hx. destruct Hx as [w [<- _]]. cbn. lia.
    + pose proof (inv_sorted _ I) as Hs. rewrite H1 in Hs. apply sorted_app_r in Hs.
      apply sorted_app; [exact Hs|apply sorted_const|].
      intros x y Hx Hy. apply in_map_iff in Hy. destruct Hy as [w [<- _]]. unfold le_wt. cbn.
      pose proof (inv_time _ I) as Ht. rewrite Forall_forall in Ht.
      assert (In x (inflight s)) by (rewrite H1; apply in_app_iff; right; assumption).
      apply Ht in H. lia.
    + rewrite map_app, map_fst_pairs, <- app_assoc, firstn_skipn.
      pose proof (inv_nodup _ I) as Hn. rewrite H1, map_app, <- app_assoc in Hn. apply NoDup_app_r in Hn. exact Hn.
    + rewrite map_app, map_fst_pairs, <- app_assoc, firstn_skipn.
      pose proof (inv_fresh _ I) as Hf. rewrite H1, map_app, <- app_assoc in Hf. apply Forall_app_r in Hf. exact Hf.
  - (* Frag *) exact I.
  - (* Cancel *)
    destruct (in_fl r (inflight s)) eqn:E1; cbn [fst]; [apply Inv_closed_st|].
    destruct (in_ws r (waiters s)) eqn:E2; cbn [fst]; [|exact I].
    apply in_ws_true in E2.
    constructor; cbn.
    + intros Ho. destruct (inv_closed _ I Ho) as [_ Hw]. rewrite Hw in E2. contradiction.
    + apply (inv_cap _ I).
    + intros _. apply (inv_wait _ I). intro Hw. rewrite Hw in E2. contradiction.
    + apply (inv_time _ I).
    + apply (inv_sorted _ I).
    + apply NoDup_app_remove. apply (inv_nodup _ I).
    + pose proof (inv_fresh _ I) as Hf. apply Forall_app in Hf. destruct Hf as [Hf1 Hf2].
      apply Forall_app. split; [assumption|].
      apply Forall_forall. intros x Hx. apply remove_rid_incl in Hx. rewrite Forall_forall in Hf2. auto.
  - (* Advance *)
    destruct (inflight s) as [|[r wt] rest] eqn:Ef.
    + cbn [fst]. constructor; cbn; rewrite ?Ef.
      * intros Ho. destruct (inv_closed _ I Ho) as [_ Hw]. split; [reflexivity|assumption].
      * cbn. lia.
      * intros Hw. pose proof (inv_wait _ I Hw) as Hc. rewrite Ef in Hc. exact Hc.
      * constructor.
      * constructor.
      * pose proof (inv_nodup _ I) as Hn. rewrite Ef in Hn. exact Hn.
      * pose proof (inv_fresh _ I) as Hf. rewrite Ef in Hf. exact Hf.
    + destruct (opened s && (wt + T30 <=? clock s + dt)%N) eqn:Ec; cbn [fst]; [apply Inv_closed_st|].
      assert (Ho : opened s = true) by (apply opened_of_pending; [assumption|left; rewrite Ef; discriminate]).
      rewrite Ho in Ec. cbn in Ec. apply N.leb_gt in Ec.
      pose proof (inv_sorted _ I) as Hs. rewrite Ef in Hs.
      pose proof (StronglySorted_inv Hs) as [_ Hhd].
      pose proof (inv_time _ I) as Ht. rewrite Ef in Ht.
      constructor; cbn; rewrite ?Ef.
      * intros; congruence.
      * pose proof (inv_cap _ I) as Hc. rewrite Ef in Hc. exact Hc.
      * intros Hw. pose proof (inv_wait _ I Hw) as Hc. rewrite Ef in Hc. exact Hc.
      * rewrite Forall_forall in Ht, Hhd |- *. intros x Hx. specialize (Ht x Hx).
        assert (Hle : (wt <= snd x)%N).
        { destruct Hx as [<-|Hx]; [cbn; lia|]. specialize (Hhd x Hx). unfold le_wt in Hhd. cbn in Hhd. exact Hhd. }
        lia.
      * exact Hs.
      * pose proof (inv_nodup _ I) as Hn. rewrite Ef in Hn. exact Hn.
      * pose proof (inv_fresh _ I) as Hf. rewrite Ef in Hf. exact Hf.
  - (* PeerClose *) destruct (opened s); cbn [fst]; [apply Inv_closed_st|exact I].
  - (* PeerEof *) destruct (opened s); cbn [fst]; [apply Inv_closed_st|exact I].
  - (* LocalClose *) destruct (opened s); cbn [fst]; [apply Inv_closed_st|exact I].
Qed.

Lemma run_fst_app : forall es1 es2 s, fst (run cap T30 s (es1 ++ es2)) = fst (run cap T30 (fst (run cap T30 s es1)) es2).
Proof.
  induction es1; cbn; intros es2 s; [reflexivity|].
  destruct (step cap T30 s a) as [s1 o1] eqn:E.
  specialize (IHes1 es2 s1).
  destruct (run cap T30 s1 (es1 ++ es2)) as [s2 o2] eqn:E2.
  destruct (run cap T30 s1 es1) as [s3 o3] eqn:E3. cbn in *. exact IHes1.
Qed.

Lemma run_snd_app : forall es1 es2 s,
    snd (run cap T30 s (es1 ++ es2)) = snd (run cap T30 s es1) ++ snd (run cap T30 (fst (run cap T30 s es1)) es2).
Proof.
  induction es1; cbn; intros es2 s; [reflexivity|].
  destruct (step cap T30 s a) as [s1 o1] eqn:E.
  specialize (IHes1 es2 s1).
  destruct (run cap T30 s1 (es1 ++ es2)) as [s2 o2] eqn:E2.
  destruct (run cap T30 s1 es1) as [s3 o3] eqn:E3. cbn in *. rewrite IHes1. apply app_assoc.
Qed.

Lemma run_Inv : forall es s, Inv s -> Inv (fst (run cap T30 s es)).
Proof.
  induction es; cbn; intros s I; [exact I|].
  destruct (step cap T30 s a) as [s1 o1] eqn:E.
  pose proof (step_Inv s a I) as I1. rewrite E in I1. cbn in I1.
  specialize (IHes s1 I1). destruct (run cap T30 s1 es) as [s2 o2]. exact IHes.
Qed.

Lemma final_Inv : forall es, Inv (final cap T30 es).
Proof. intros. unfold final. apply run_Inv. apply Inv_init. Qed.

End Inv.
