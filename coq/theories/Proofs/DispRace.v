(* C08, round 9: events that fall into the SAME event-loop turn as the abandonment.
   The 30 s response timer of a written request fires and the caller's task is cancelled in the very
   same loop iteration (timer first: an application deadline of the same length).  In the code the
   future is then done (TimeoutError) and not cancelled, Task.cancel() only sets must-cancel and
   _send_lines sees CancelledError: it must still close the transport.  In the model this is
   [Advance dt] (which fires the timer and abandons the connection) followed by [Cancel r]; the
   lemmas below say that the second half can never undo or soften the first: after the timeout
   step the connection is closed, nothing is pending, a cancellation of ANY caller changes nothing
   and produces nothing, and the next request is refused at once, unwritten. *)
From Coq Require Import List NArith Arith Bool Lia.
From AHK Require Import Model.Disp Proofs.Disp Proofs.DispTrace.
Import ListNotations.

Section Race.
Variable cap : nat.
Variable T30 : N.
Hypothesis cap_pos : 0 < cap.
Hypothesis T30_pos : (0 < T30)%N.
Notation step := (step cap T30).
Notation final := (final cap T30).
Notation Inv := (Inv cap T30).

Lemma cancel_when_closed_noop : forall s r, Inv s -> opened s = false -> step s (Cancel r) = (s, []).
Proof.
  intros s r I Ho. destruct (inv_closed _ _ _ I Ho) as [Hf Hw].
  cbn [step]. rewrite Hf, Hw. reflexivity.
Qed.

Lemma issue_when_closed_refused : forall s, opened s = false ->
    snd (step s Issue) = [ODone (next s) Disconnected (clock s)] /\ opened (fst (step s Issue)) = false
    /\ inflight (fst (step s Issue)) = inflight s.
Proof. intros s Ho. cbn [step]. rewrite Ho. cbn. repeat split. Qed.

Lemma timeout_then_cancel : forall s r wt rest dt, Inv s -> inflight s = (r, wt) :: rest ->
    (wt + T30 <= clock s + dt)%N ->
    let s' := fst (step s (Advance dt)) in
    opened s' = false /\ inflight s' = [] /\ waiters s' = [] /\
    In (ODone r TimedOut (wt + T30)) (snd (step s (Advance dt))) /\
    (forall r', step s' (Cancel r') = (s', [])) /\
    snd (step s' Issue) = [ODone (next s') Disconnected (clock s')].
Proof.
  intros s r wt rest dt I H Hd s'.
  destruct (timeout_closes cap T30 s r wt rest dt I H Hd) as [Hc [Hdone _]].
  assert (I' : Inv s') by (apply step_Inv; assumption).
  fold s' in Hc. destruct (inv_closed _ _ _ I' Hc) as [Hf Hw].
  repeat split; try assumption.
  - intros r'. apply cancel_when_closed_noop; assumption.
  - apply issue_when_closed_refused. assumption.
Qed.

(* the response that is read in the same loop turn, after the timer fired (or at any later time), is
   consumed by nobody: a read on the abandoned connection changes nothing and outputs nothing *)
Lemma data_when_closed_noop : forall s ms, opened s = false -> step s (Data ms) = (s, []).
Proof. intros s ms Ho. cbn [step]. rewrite Ho. reflexivity. Qed.

Lemma timeout_then_data : forall s r wt rest dt ms, Inv s -> inflight s = (r, wt) :: rest ->
    (wt + T30 <= clock s + dt)%N ->
    let s' := fst (step s (Advance dt)) in
    step s' (Data ms) = (s', []) /\ opened s' = false /\
    In (ODone r TimedOut (wt + T30)) (snd (step s (Advance dt))).
Proof.
  intros s r wt rest dt ms I H Hd s'.
  destruct (timeout_closes cap T30 s r wt rest dt I H Hd) as [Hc [Hdone _]]. fold s' in Hc.
  split; [apply data_when_closed_noop; exact Hc|]. split; assumption.
Qed.

(* the same on histories: appending the same-turn cancellation (of anybody) to a history that ends
   with the timeout changes neither the final state nor adds any output *)
Lemma timeout_cancel_history : forall es r wt rest dt r',
    inflight (final es) = (r, wt) :: rest -> (wt + T30 <= clock (final es) + dt)%N ->
    final (es ++ [Advance dt] ++ [Cancel r']) = final (es ++ [Advance dt]) /\
    opened (final (es ++ [Advance dt] ++ [Cancel r'])) = false /\
    snd (step (final (es ++ [Advance dt])) (Cancel r')) = [].
Proof.
  intros es r wt rest dt r' H Hd.
  pose proof (timeout_then_cancel (final es) r wt rest dt (final_Inv cap T30 cap_pos T30_pos es) H Hd) as T.
  cbv zeta in T. destruct T as [Hc [_ [_ [_ [Hn _]]]]].
  rewrite app_assoc, !final_snoc. rewrite (Hn r'). cbn [fst snd]. repeat split. exact Hc.
Qed.

End Race.
