(* C05 - history level: the two sentences of the property for a whole session script
   (any interleaving of requests, reads, pause/resume), and the 2^64 boundary. *)
From Coq Require Import List NArith ZArith Arith Bool Lia ZifyN ZifyNat ZifyBool.
From AHK Require Import Lib.Res Lib.ByteStr Model.Frame
  Proofs.FrameBase Proofs.FrameFeed Proofs.FrameSend Proofs.FrameSess.
Import ListNotations.

Lemma counters_app : forall n m c,
    counters c (n + m) = counters c n ++ counters (c + N.of_nat n)%N m.
Proof.
  induction n as [|n IH]; intros m c.
  - cbn. now rewrite N.add_0_r.
  - cbn [Nat.add counters app]. rewrite IH.
    replace (c + 1 + N.of_nat n)%N with (c + N.of_nat (S n))%N by lia. reflexivity.
Qed.

Section Hist.
  Variable F : nat.
  Hypothesis Fpos : 0 < F.

  (* all frames of a sequence of requests, seen as ONE frame list *)
  Lemma sends_seq_frames : forall ps ctr,
      let fs := concat (fst (sends_seq F ctr ps)) in
      Forall (frame_shape F) fs /\
      map sf_ctr fs = counters ctr (length fs) /\
      concat (map sf_chunk fs) = concat ps /\
      snd (sends_seq F ctr ps) = (ctr + N.of_nat (length fs))%N.
  Proof.
    induction ps as [|p r IH]; intros ctr; cbv zeta.
    - cbn. repeat split; [constructor|lia].
    - cbn [sends_seq fst snd concat].
      pose proof (send_sym_f_shape F Fpos (length p) ctr p) as S1.
      destruct (send_sym_f_counters F Fpos (length p) ctr p) as [C1 C2].
      pose proof (send_sym_f_concat F Fpos (length p) ctr p (le_n _)) as K1.
      fold (send_sym F ctr p) in S1, C1, C2, K1.
      destruct (IH (snd (send_sym F ctr p))) as [S2 [C3 [K2 C4]]].
      set (a := fst (send_sym F ctr p)) in *.
      set (b := concat (fst (sends_seq F (snd (send_sym F ctr p)) r))) in *.
      repeat split.
      + apply Forall_app; split; assumption.
      + rewrite map_app, app_length, counters_app, C1, C3, C2. reflexivity.
      + rewrite map_app, concat_app, K1, K2. reflexivity.
      + rewrite C4, C2, app_length. lia.
  Qed.

  Variable T : nat.
  Variable A : aead.
  Variable key : bytes.
  Hypothesis HA : aead_ok A T.
  Hypothesis F16 : (N.of_nat F < 65536)%N.
  Variable opn : bytes -> bytes -> bytes -> option bytes.

  (* first sentence of the property, for a whole script: whatever was received, paused
     or resumed in between and however many requests were in flight, a conformant
     accessory that starts at the session's counter decrypts everything written, in
     order, to exactly the requests, and ends at the controller's counter *)
  Lemma sess_requests_accepted ops s :
    forallb accepted_ev (snd (sess_run F T opn s ops)) = true ->
    let stream := concat (map (render A key) (concat (wrote (snd (sess_run F T opn s ops))))) in
    acc_recv F T A key (S (length stream)) (s_tx s) stream
    = Some (concat (sent ops), s_tx (fst (sess_run F T opn s ops))).
  Proof.
    intros H. cbv zeta.
    destruct (sess_outbound F T opn ops s H) as [W X]. rewrite W, X.
    destruct (sends_seq_frames (sent ops) (s_tx s)) as [S1 [C1 [K1 C2]]].
    rewrite (acc_recv_frames F T A key HA F16 _ (s_tx s) _ S1 C1) by lia.
    now rewrite K1, C2.
  Qed.

  (* second sentence, for a whole script: what the accessory sealed is what is delivered *)
  Lemma sess_messages_decoded ops ctr tx ps :
    forallb no_cancel ops = true ->
    Forall (fun p => (N.of_nat (length p) < 65536)%N) ps ->
    (ctr + N.of_nat (length ps) <= ctr_limit)%N ->
    concat (recvs ops) = seal_stream A key ctr ps ->
    delivered (snd (sess_run F T (open A key) (mkSess (Live [] ctr) tx) ops)) = ps /\
    s_rx (fst (sess_run F T (open A key) (mkSess (Live [] ctr) tx) ops))
    = Live [] (ctr + N.of_nat (length ps))%N.
  Proof.
    intros Hn HF Hc E.
    destruct (sess_inbound F T (open A key) ops (mkSess (Live [] ctr) tx) Hn) as [I1 I2].
    cbn [s_rx] in I1, I2.
    rewrite (feed_correct T A key HA ps ctr (recvs ops) HF Hc E) in I1, I2.
    cbn [fst snd] in I1, I2. split; assumption.
  Qed.
End Hist.

(* ------------------------------------------------------------------ the 2^64 boundary *)
Section Limit.
  Variable F : nat.
  Hypothesis Fpos : 0 < F.
  Variable T : nat.
  Variable opn : bytes -> bytes -> bytes -> option bytes.

  Lemma counters_lt : forall n c x, In x (counters c n) -> (x < c + N.of_nat n)%N.
  Proof.
    induction n as [|n IH]; intros c x H; [contradiction|].
    cbn [counters] in H. destruct H as [<-|H]; [lia|].
    apply IH in H. lia.
  Qed.

  (* a request that is sealed at all uses only counters below 2^64 *)
  Lemma send_ok_below ctr p r f :
    send F ctr p = Ok r -> In f (fst r) -> (sf_ctr f < ctr_limit)%N.
  Proof.
    unfold send. destruct (nil_b (fst (send_sym F ctr p))) eqn:En; cbn [orb].
    - intros H Hin. injection H as <-. destruct (fst (send_sym F ctr p)); [contradiction|discriminate].
    - destruct (snd (send_sym F ctr p) <=? ctr_limit)%N eqn:El; [|discriminate].
      intros H Hin. injection H as <-. apply N.leb_le in El.
      destruct (send_sym_f_counters F Fpos (length p) ctr p) as [C1 C2].
      fold (send_sym F ctr p) in C1, C2.
      assert (Hx : In (sf_ctr f) (map sf_ctr (fst (send_sym F ctr p)))) by (apply in_map; exact Hin).
      rewrite C1 in Hx. apply counters_lt in Hx. lia.
  Qed.

  (* no frame is ever written with a counter >= 2^64: the nonce never wraps *)
  Lemma sess_counters_below : forall ops s fs f,
      In fs (wrote (snd (sess_run F T opn s ops))) -> In f fs -> (sf_ctr f < ctr_limit)%N.
  Proof.
    induction ops as [|o r IH]; intros s fs f H Hf; [contradiction|].
    cbn [sess_run] in H.
    destruct (sess_step F T opn s o) as [s1 e] eqn:Es.
    specialize (IH s1 fs f).
    destruct (sess_run F T opn s1 r) as [s2 es]. cbn [snd] in *.
    destruct e as [w| | |q| |]; cbn [wrote] in H; try (apply IH; assumption).
    destruct H as [->|H]; [|apply IH; assumption].
    destruct o as [p|d| | |]; cbn [sess_step] in Es.
    - destruct (send F (s_tx s) p) as [x| | |] eqn:E1; try congruence.
      destruct (s_rx s); try congruence.
      assert (Ee : fst x = fs) by congruence. rewrite <- Ee in Hf.
      exact (send_ok_below _ _ _ _ E1 Hf).
    - destruct (feed T opn (s_rx s) d); congruence.
    - congruence.
    - congruence.
    - congruence.
  Qed.

  (* once the counter has reached 2^64 nothing is ever sealed again *)
  Lemma send_exhausted ctr p r :
    (ctr_limit <= ctr)%N -> send F ctr p = Ok r -> fst r = [] /\ snd r = ctr.
  Proof.
    intros Hc. unfold send.
    destruct (send_sym_f_counters F Fpos (length p) ctr p) as [_ C2].
    fold (send_sym F ctr p) in C2.
    destruct (fst (send_sym F ctr p)) as [|f0 l] eqn:Ef; cbn [nil_b orb].
    - intros H. injection H as <-. rewrite Ef. split; [reflexivity|]. rewrite C2. cbn. lia.
    - destruct (snd (send_sym F ctr p) <=? ctr_limit)%N eqn:El; [|discriminate].
      apply N.leb_le in El. rewrite C2 in El. cbn [length] in El. lia.
  Qed.

  Lemma sess_exhausted_forever : forall ops s,
      (ctr_limit <= s_tx s)%N ->
      concat (wrote (snd (sess_run F T opn s ops))) = [] /\
      (ctr_limit <= s_tx (fst (sess_run F T opn s ops)))%N.
  Proof.
    induction ops as [|o r IH]; intros s Hs; [split; [reflexivity|exact Hs]|].
    cbn [sess_run].
    destruct (sess_step F T opn s o) as [s1 e] eqn:Es.
    assert (H1 : (ctr_limit <= s_tx s1)%N /\ (forall fs, e = EWrote fs -> fs = [])).
    { destruct o as [p|d| | |]; cbn [sess_step] in Es.
      - destruct (send F (s_tx s) p) as [x| | |] eqn:E1.
        + destruct (send_exhausted _ _ _ Hs E1) as [X1 X2].
          destruct (s_rx s); injection Es as <- <-; cbn [s_tx]; (split; [lia|]); intros fs Hfs;
            [injection Hfs as <-; exact X1|discriminate].
        + injection Es as <- <-. cbn [s_tx]. split; [lia|intros; discriminate].
        + injection Es as <- <-. cbn [s_tx]. split; [lia|intros; discriminate].
        + injection Es as <- <-. cbn [s_tx]. split; [lia|intros; discriminate].
      - destruct (feed T opn (s_rx s) d). injection Es as <- <-. cbn [s_tx]. split; [lia|intros; discriminate].
      - injection Es as <- <-. cbn [s_tx]. split; [lia|intros; discriminate].
      - injection Es as <- <-. split; [lia|intros; discriminate].
      - injection Es as <- <-. split; [lia|intros; discriminate]. }
    destruct H1 as [H1 H2]. specialize (IH s1 H1).
    destruct (sess_run F T opn s1 r) as [s2 es]. cbn [fst snd] in *.
    destruct IH as [I1 I2]. split; [|exact I2].
    destruct e; cbn [wrote concat]; try exact I1.
    rewrite (H2 fs eq_refl). exact I1.
  Qed.

  (* the raising request itself leaves the counter at 2^64 (or where it was, above) *)
  Lemma sess_raise_sticks s p :
    snd (sess_step F T opn s (OSend p)) = ERaise ->
    (ctr_limit <= s_tx (fst (sess_step F T opn s (OSend p))))%N.
  Proof.
    cbn [sess_step]. destruct (send F (s_tx s) p) as [x| | |].
    - destruct (s_rx s); cbn; discriminate.
    - cbn. lia.
    - cbn. lia.
    - cbn. lia.
  Qed.
End Limit.
