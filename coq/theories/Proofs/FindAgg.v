(* C19 - the aggregate Controller.async_find over the mDNS and the BLE controller *)
From Coq Require Import List NArith ZArith Arith Bool Lia ZifyN ZifyNat ZifyBool.
From AHK Require Import Lib.Res Lib.ByteStr Model.Find Proofs.FindLts.
Import ListNotations.
Open Scope N_scope.

Lemma aget_adel_other k k' l : k <> k' -> aget k (adel k' l) = aget k l.
Proof.
  intros H. induction l as [|[k0 n] l IH]; cbn; [reflexivity|].
  destruct (Nat.eqb k0 k') eqn:E; cbn.
  - apply Nat.eqb_eq in E. subst. destruct (Nat.eqb k' k) eqn:E2; [apply Nat.eqb_eq in E2; congruence|]. exact IH.
  - destruct (Nat.eqb k0 k); [reflexivity|exact IH].
Qed.

Lemma aget_aset_other k k' n l : k <> k' -> aget k (aset k' n l) = aget k l.
Proof.
  intros H. induction l as [|[k0 m] l IH]; cbn; [reflexivity|].
  destruct (Nat.eqb k0 k') eqn:E; cbn.
  - apply Nat.eqb_eq in E. subst. destruct (Nat.eqb k' k) eqn:E2; [apply Nat.eqb_eq in E2; congruence|]. exact IH.
  - destruct (Nat.eqb k0 k); [reflexivity|exact IH].
Qed.

Lemma absorb1_other a acc o k :
  (forall oc t, o <> Done k oc t) -> aget k (a_tbl (fst (absorb1 (a, acc) o))) = aget k (a_tbl a).
Proof.
  intros H. destruct o as [k' oc t|]; cbn [absorb1]; [|reflexivity].
  assert (k <> k') by (intros ->; eapply H; reflexivity).
  destruct (aget k' (a_tbl a)) as [n|]; [|reflexivity].
  destruct oc; cbn [fst].
  - unfold cancel_subs. cbn [a_tbl]. now apply aget_adel_other.
  - destruct (n <=? 1)%nat; cbn [fst a_tbl]; [now apply aget_adel_other|now apply aget_aset_other].
  - reflexivity.
Qed.

Lemma absorb1_mono a acc o x : In x acc -> In x (snd (absorb1 (a, acc) o)).
Proof.
  intros H. destruct o as [k' oc t|]; cbn [absorb1]; [|cbn; apply in_or_app; tauto].
  destruct (aget k' (a_tbl a)) as [n|]; [|assumption].
  destruct oc; cbn [snd]; try assumption.
  - apply in_or_app; tauto.
  - destruct (n <=? 1)%nat; cbn [snd]; [apply in_or_app; tauto|assumption].
Qed.

Lemma absorb_mono os : forall a acc x, In x acc -> In x (snd (fold_left absorb1 os (a, acc))).
Proof.
  induction os as [|o os IH]; intros a acc x H; [assumption|]. cbn [fold_left].
  destruct (absorb1 (a, acc) o) as [a' acc'] eqn:E. apply IH.
  change acc' with (snd (a', acc')). rewrite <- E. now apply absorb1_mono.
Qed.

Lemma absorb_found k d t0 : forall os a acc n,
  aget k (a_tbl a) = Some n ->
  (forall oc t, In (Done k oc t) os -> oc = Found d /\ t = t0) ->
  In (Done k (Found d) t0) os ->
  In (Done k (Found d) t0) (snd (fold_left absorb1 os (a, acc))).
Proof.
  induction os as [|o os IH]; intros a acc n G S H; [destruct H|]. cbn [fold_left].
  destruct (absorb1 (a, acc) o) as [a' acc'] eqn:E.
  assert (Dec : (exists oc t, o = Done k oc t) \/ (forall oc t, o <> Done k oc t)).
  { destruct o as [k' oc t|]; [|right; intros; discriminate].
    destruct (Nat.eq_dec k' k) as [->|N]; [left; eauto|right; intros oc' t' X; inversion X; congruence]. }
  destruct Dec as [(oc & t & ->)|Other].
  - destruct (S oc t (or_introl eq_refl)) as [-> ->].
    apply absorb_mono. cbn [absorb1] in E. rewrite G in E. inversion E; subst.
    apply in_or_app. right. left. reflexivity.
  - destruct H as [->|H]; [exfalso; eapply Other; reflexivity|].
    apply (IH a' acc' n).
    + change a' with (fst (a', acc')). rewrite <- E. rewrite absorb1_other by assumption. exact G.
    + intros oc t Hin. apply S. right. exact Hin.
    + exact H.
Qed.

(* a call waiting on the aggregate is completed by an advertisement on either transport *)
Lemma agg_wakeup_ble a k n key dl d :
  aget k (a_tbl a) = Some n -> pend (a_ble a) k key dl -> d_id d = key ->
  In (Done k (Found d) (now (a_ble a))) (snd (astep a (AAdvB (Some d)))).
Proof.
  intros G P E. cbn [astep]. destruct (step ble_cfg (a_ble a) (Adv (Some d))) as [s2 o2] eqn:St.
  unfold absorb. apply (absorb_found k d (now (a_ble a)) o2 _ [] n).
  - exact G.
  - intros oc t H. change o2 with (snd (s2, o2)) in H. rewrite <- St in H.
    apply adv_outputs_sound in H. tauto.
  - change o2 with (snd (s2, o2)). rewrite <- St. apply (wakeup_step ble_cfg _ k key dl d good_ble P E).
Qed.

Lemma agg_wakeup_mdns a k n key dl d :
  aget k (a_tbl a) = Some n -> pend (a_ip a) k key dl -> d_id d = key ->
  In (Done k (Found d) (now (a_ip a))) (snd (astep a (AAdvM (Some d)))).
Proof.
  intros G P E. cbn [astep]. destruct (step mdns_cfg (a_ip a) (Adv (Some d))) as [s1 o1] eqn:St.
  unfold absorb. apply (absorb_found k d (now (a_ip a)) o1 _ [] n).
  - exact G.
  - intros oc t H. change o1 with (snd (s1, o1)) in H. rewrite <- St in H.
    apply adv_outputs_sound in H. tauto.
  - change o1 with (snd (s1, o1)). rewrite <- St. apply (wakeup_step mdns_cfg _ k key dl d good_mdns P E).
Qed.

(* starting a call on the aggregate registers it with both transports *)
Lemma agg_find_registers a k i tau :
  alookup (lower i) (discs (a_ip a)) = None -> alookup i (discs (a_ble a)) = None ->
  let a' := fst (astep a (AFind k i tau)) in
  aget k (a_tbl a') = Some 2%nat
  /\ pend (a_ip a') k (lower i) (now (a_ip a) + tau)
  /\ pend (a_ble a') k i (now (a_ble a) + tau)
  /\ snd (astep a (AFind k i tau)) = [].
Proof.
  intros H1 H2. cbn [astep]. unfold both. cbn [a_ip a_ble a_tbl].
  destruct (find_registers mdns_cfg (a_ip a) k i tau good_mdns H1) as [P1 O1].
  destruct (find_registers ble_cfg (a_ble a) k i tau good_ble H2) as [P2 O2].
  destruct (step mdns_cfg (a_ip a) (Find k i tau)) as [s1 o1]. destruct (step ble_cfg (a_ble a) (Find k i tau)) as [s2 o2].
  cbn [fst snd] in *. subst o1 o2. cbn. rewrite Nat.eqb_refl. auto.
Qed.

(* non-vacuity / shape of the aggregate runs *)
Definition agg_demo : list aevent :=
  [AFind 1 id1 8; AFind 2 id2 16; AAdvance 5; AAdvB (Some d1); AAdvance 0; AFind 3 id1 8; ACancel 2; AAdvance 64].

Lemma agg_demo_outs :
  snd (arun agg0 agg_demo) = [Done 1%nat (Found d1) 5; Done 3%nat (Found d1) 5; Done 2%nat Cancelled 5].
Proof. vm_compute. reflexivity. Qed.

Lemma agg_timeout_demo :
  snd (arun agg0 [AFind 1 id1 8; AAdvance 5; AAdvM (Some d2); AAdvance 5]) = [Done 1%nat NotFound 8].
Proof. vm_compute. reflexivity. Qed.

(* ------------------------------------------------------------------ aggregate: timeout and cancellation *)
Definition is_done (k : nat) (o : out) : bool :=
  match o with Done k' _ _ => Nat.eqb k' k | Raised => false end.
Definition cnt (k : nat) (os : list out) : nat := length (filter (is_done k) os).

Lemma cnt_app k a b : cnt k (a ++ b) = (cnt k a + cnt k b)%nat.
Proof. unfold cnt. now rewrite filter_app, app_length. Qed.

Lemma cnt_in k o t l : In (Done k o t) l -> (1 <= cnt k l)%nat.
Proof.
  intros H. apply in_split in H. destruct H as (l1 & l2 & ->). rewrite cnt_app. unfold cnt at 2. cbn.
  rewrite Nat.eqb_refl. cbn. lia.
Qed.

Lemma aget_aset_same k n m l : aget k l = Some n -> aget k (aset k m l) = Some m.
Proof.
  induction l as [|[k0 x] l IH]; cbn; [discriminate|].
  destruct (Nat.eqb k0 k) eqn:E; cbn; [rewrite Nat.eqb_refl; reflexivity|]. rewrite E. exact IH.
Qed.

Lemma absorb_notfound k dl : forall os a acc n,
  aget k (a_tbl a) = Some n -> (1 <= n)%nat -> (n <= cnt k os)%nat ->
  (forall oc t, In (Done k oc t) os -> oc = NotFound /\ t = dl) ->
  In (Done k NotFound dl) (snd (fold_left absorb1 os (a, acc))).
Proof.
  induction os as [|o os IH]; intros a acc n G N1 C S; [cbn in C; lia|]. cbn [fold_left].
  destruct (absorb1 (a, acc) o) as [a' acc'] eqn:E.
  destruct (is_done k o) eqn:D.
  - destruct o as [k' oc t|]; [|discriminate]. cbn in D. apply Nat.eqb_eq in D. subst k'.
    destruct (S oc t (or_introl eq_refl)) as [-> ->].
    cbn [absorb1] in E. rewrite G in E. destruct (n <=? 1)%nat eqn:L.
    + inversion E; subst. apply absorb_mono. apply in_or_app. right. left. reflexivity.
    + inversion E; subst. apply Nat.leb_gt in L. apply (IH _ _ (n - 1)%nat).
      * cbn [a_tbl]. eapply aget_aset_same; eauto.
      * lia.
      * unfold cnt in C. cbn in C. rewrite Nat.eqb_refl in C. cbn in C. unfold cnt. lia.
      * intros oc t Hin. apply S. right. exact Hin.
  - apply (IH a' acc' n).
    + change a' with (fst (a', acc')). rewrite <- E. rewrite absorb1_other; [exact G|].
      intros oc t ->. cbn in D. rewrite Nat.eqb_refl in D. discriminate.
    + exact N1.
    + unfold cnt in C. cbn in C. rewrite D in C. exact C.
    + intros oc t Hin. apply S. right. exact Hin.
Qed.

Lemma agg_timeout a k key1 key2 dl delta av1 av2 :
  aget k (a_tbl a) = Some 2%nat ->
  keys_ok (a_ip a) av1 -> keys_ok (a_ble a) av2 ->
  pend (a_ip a) k key1 dl -> pend (a_ble a) k key2 dl ->
  dl <= now (a_ip a) + delta -> dl <= now (a_ble a) + delta ->
  In (Done k NotFound dl) (snd (astep a (AAdvance delta))).
Proof.
  intros G K1 K2 P1 P2 L1 L2. cbn [astep]. unfold both.
  pose proof (timeout_step mdns_cfg (a_ip a) k key1 dl delta good_mdns P1) as T1.
  pose proof (timeout_step ble_cfg (a_ble a) k key2 dl delta good_ble P2) as T2.
  apply N.leb_le in L1, L2. rewrite L1 in T1. rewrite L2 in T2.
  assert (S1 : forall oc t, In (Done k oc t) (snd (step mdns_cfg (a_ip a) (Advance delta))) -> oc = NotFound /\ t = dl).
  { intros oc t H. apply timeout_outputs_sound in H. destruct H as (-> & _ & w & Hw & Ek & Ed & _).
    split; [reflexivity|]. rewrite (pend_unique _ _ _ _ _ w K1 P1 Hw Ek) in Ed. cbn in Ed. congruence. }
  assert (S2 : forall oc t, In (Done k oc t) (snd (step ble_cfg (a_ble a) (Advance delta))) -> oc = NotFound /\ t = dl).
  { intros oc t H. apply timeout_outputs_sound in H. destruct H as (-> & _ & w & Hw & Ek & Ed & _).
    split; [reflexivity|]. rewrite (pend_unique _ _ _ _ _ w K2 P2 Hw Ek) in Ed. cbn in Ed. congruence. }
  destruct (step mdns_cfg (a_ip a) (Advance delta)) as [s1 o1].
  destruct (step ble_cfg (a_ble a) (Advance delta)) as [s2 o2]. cbn [snd] in *.
  unfold absorb. apply (absorb_notfound k dl (o1 ++ o2) _ [] 2%nat).
  - exact G.
  - lia.
  - rewrite cnt_app. pose proof (cnt_in _ _ _ _ T1). pose proof (cnt_in _ _ _ _ T2). lia.
  - intros oc t H. apply in_app_or in H. destruct H; auto.
Qed.

Lemma agg_cancel a k n :
  aget k (a_tbl a) = Some n -> snd (astep a (ACancel k)) = [Done k Cancelled (now (a_ip a))].
Proof. intros G. cbn [astep]. now rewrite G. Qed.
