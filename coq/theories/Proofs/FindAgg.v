(* C19 - the aggregate Controller.async_find over the mDNS and the BLE controller *)
From Coq Require Import List NArith ZArith Arith Bool Lia ZifyN ZifyNat ZifyBool.
From AHK Require Import Lib.Res Lib.ByteStr Model.Find Proofs.FindLts.
Import ListNotations.
Open Scope N_scope.

Lemma aget_adel_other k k' l : k <> k' -> aget k (adel k' l) = aget k l.
Proof.
  intros H. induction l as [|[k0 n] l IH]; cbn; [reflexivity|].
  destruct (Nat.eqb k0 k') eqn:E; cbn.
  - apply Nat.eqb_eq in E. subst. destruct (Nat.eqb k' k) eqn:E2; [apply Nat.eqb_eq in E2; congruence|]. exact IH.
  - destruct (Nat.eqb k0 k); [reflexivity|exact IH].
Qed.

Lemma aget_aset_other k k' n l : k <> k' -> aget k (aset k' n l) = aget k l.
Proof.
  intros H. induction l as [|[k0 m] l IH]; cbn; [reflexivity|].
  destruct (Nat.eqb k0 k') eqn:E; cbn.
  - apply Nat.eqb_eq in E. subst. destruct (Nat.eqb k' k) eqn:E2; [apply Nat.eqb_eq in E2; congruence|]. exact IH.
  - destruct (Nat.eqb k0 k); [reflexivity|exact IH].
Qed.

Lemma absorb1_other a acc o k :
  (forall oc t, o <> Done k oc t) -> aget k (a_tbl (fst (absorb1 (a, acc) o))) = aget k (a_tbl a).
Proof.
  intros H. destruct o as [k' oc t|]; cbn [absorb1]; [|reflexivity].
  assert (k <> k') by (intros ->; eapply H; reflexivity).
  destruct (aget k' (a_tbl a)) as [n|]; [|reflexivity].
  destruct oc; cbn [fst].
  - unfold cancel_subs. cbn [a_tbl]. now apply aget_adel_other.
  - destruct (n <=? 1)%nat; cbn [fst a_tbl]; [now apply aget_adel_other|now apply aget_aset_other].
  - reflexivity.
Qed.

Lemma absorb1_mono a acc o x : In x acc -> In x (snd (absorb1 (a, acc) o)).
Proof.
  intros H. destruct o as [k' oc t|]; cbn [absorb1]; [|cbn; apply in_or_app; tauto].
  destruct (aget k' (a_tbl a)) as [n|]; [|assumption].
  destruct oc; cbn [snd]; try assumption.
  - apply in_or_app; tauto.
  - destruct (n <=? 1)%nat; cbn [snd]; [apply in_or_app; tauto|assumption].
Qed.

Lemma absorb_mono os : forall a acc x, In x acc -> In x (snd (fold_left absorb1 os (a, acc))).
Proof.
  induction os as [|o os IH]; intros a acc x H; [assumption|]. cbn [fold_left].
  destruct (absorb1 (a, acc) o) as [a' acc'] eqn:E. apply IH.
  change acc' with (snd (a', acc')). rewrite <- E. now apply absorb1_mono.
Qed.

Lemma absorb_found k d t0 : forall os a acc n,
  aget k (a_tbl a) = Some n ->
  (forall oc t, In (Done k oc t) os -> oc = Found d /\ t = t0) ->
  In (Done k (Found d) t0) os ->
  In (Done k (Found d) t0) (snd (fold_left absorb1 os (a, acc))).
Proof.
  induction os as [|o os IH]; intros a acc n G S H; [destruct H|]. cbn [fold_left].
  destruct (absorb1 (a, acc) o) as [a' acc'] eqn:E.
  assert (Dec : (exists oc t, o = Done k oc t) \/ (forall oc t, o <> Done k oc t)).
  { destruct o as [k' oc t|]; [|right; intros; discriminate].
    destruct (Nat.eq_dec k' k) as [->|N]; [left; eauto|right; intros oc' t' X; inversion X; congruence]. }
  destruct Dec as [(oc & t & ->)|Other].
  - destruct (S oc t (or_introl eq_refl)) as [-> ->].
    apply absorb_mono. cbn [absorb1] in E. rewrite G in E. inversion E; subst.
    apply in_or_app. right. left. reflexivity.
  - destruct H as [->|H]; [exfalso; eapply Other; reflexivity|].
    apply (IH a' acc' n).
    + change a' with (fst (a', acc')). rewrite <- E. rewrite absorb1_other by assumption. exact G.
    + intros oc t Hin. apply S. right. exact Hin.
    + exact H.
Qed.

(* a call waiting on the aggregate is completed by an advertisement on either transport *)
Lemma agg_wakeup_ble a k n key dl d :
  aget k (a_tbl a) = Some n -> pend (a_ble a) k key dl -> d_id d = key ->
  In (Done k (Found d) (now (a_ble a))) (snd (astep a (AAdvB (Some d)))).
Proof.
  intros G P E. cbn [astep]. destruct (step ble_cfg (a_ble a) (Adv (Some d))) as [s2 o2] eqn:St.
  unfold absorb. apply (absorb_found k d (now (a_ble a)) o2 _ [] n).
  - exact G.
  - intros oc t H. change o2 with (snd (s2, o2)) in H. rewrite <- St in H.
    apply adv_outputs_sound in H. tauto.
  - change o2 with (snd (s2, o2)). rewrite <- St. apply (wakeup_step ble_cfg _ k key dl d good_ble P E).
Qed.

Lemma agg_wakeup_mdns a k n key dl d :
  aget k (a_tbl a) = Some n -> pend (a_ip a) k key dl -> d_id d = key ->
  In (Done k (Found d) (now (a_ip a))) (snd (astep a (AAdvM (Some d)))).
Proof.
  intros G P E. cbn [astep]. destruct (step mdns_cfg (a_ip a) (Adv (Some d))) as [s1 o1] eqn:St.
  unfold absorb. apply (absorb_found k d (now (a_ip a)) o1 _ [] n).
  - exact G.
  - intros oc t H. change o1 with (snd (s1, o1)) in H. rewrite <- St in H.
    apply adv_outputs_sound in H. tauto.
  - change o1 with (snd (s1, o1)). rewrite <- St. apply (wakeup_step mdns_cfg _ k key dl d good_mdns P E).
Qed.

(* starting a call on the aggregate registers it with both transports *)
Lemma agg_find_registers a k i tau :
  alookup (lower i) (discs (a_ip a)) = None -> alookup i (discs (a_ble a)) = None ->
  let a' := fst (astep a (AFind k i tau)) in
  aget k (a_tbl a') = Some 2%nat
  /\ pend (a_ip a') k (lower i) (now (a_ip a) + tau)
  /\ pend (a_ble a') k i (now (a_ble a) + tau)
  /\ snd (astep a (AFind k i tau)) = [].
Proof.
  intros H1 H2. cbn [astep]. unfold both. cbn [a_ip a_ble a_tbl].
  destruct (find_registers mdns_cfg (a_ip a) k i tau good_mdns H1) as [P1 O1].
  destruct (find_registers ble_cfg (a_ble a) k i tau good_ble H2) as [P2 O2].
  destruct (step mdns_cfg (a_ip a) (Find k i tau)) as [s1 o1]. destruct (step ble_cfg (a_ble a) (Find k i tau)) as [s2 o2].
  cbn [fst snd] in *. subst o1 o2. cbn. rewrite Nat.eqb_refl. auto.
Qed.

(* non-vacuity / shape of the aggregate runs *)
Definition agg_demo : list aevent :=
  [AFind 1 id1 8; AFind 2 id2 16; AAdvance 5; AAdvB (Some d1); AAdvance 0; AFind 3 id1 8; ACancel 2; AAdvance 64].

Lemma agg_demo_outs :
  snd (arun agg0 agg_demo) = [Done 1%nat (Found d1) 5; Done 3%nat (Found d1) 5; Done 2%nat Cancelled 5].
Proof. vm_compute. reflexivity. Qed.

Lemma agg_timeout_demo :
  snd (arun agg0 [AFind 1 id1 8; AAdvance 5; AAdvM (Some d2); AAdvance 5]) = [Done 1%nat NotFound 8].
Proof. vm_compute. reflexivity. Qed.
