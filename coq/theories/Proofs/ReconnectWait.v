(* Round 8 additions for C10 / C11 (Model/Reconnect.v):
   - a caller that begins (Ensure) or stops (Cancel) waiting for the connection while the connector
     task is alive changes nothing about the connector: same phase (in particular the same wake-up
     time of a back-off sleep), same failure count, same scripts, same open set - waiting never
     hastens a retry (seed C10-O moved the wake-up of the sleeping connector into the helper that
     ensure_connection shares with reconnect_soon);
   - a reset of any connection (noticed by the event loop at once or a few iterations late - the
     same event at tick granularity) followed by close()/shutdown() in the same tick: the close
     completes and leaves nothing open (seed C11-P: write_eof on a connection the peer had reset). *)
From Coq Require Import List NArith Arith Bool Lia.
From AHK Require Import Model.Reconnect Proofs.Reconnect.
Import ListNotations.

(* what a waiting caller must leave alone *)
Definition same_connector (a b : st) : Prop :=
  ph a = ph b /\ nfail a = nfail b /\ imm a = imm b /\ ntasks a = ntasks b /\ dials a = dials b /\
  verifs a = verifs b /\ opn a = opn b /\ cur a = cur b /\ secure a = secure b /\ hosts a = hosts b /\
  desc a = desc b /\ excl a = excl b /\ closing a = closing b.

Lemma same_connector_refl s : same_connector s s.
Proof. unfold same_connector. repeat split. Qed.

Lemma same_connector_trans a b c : same_connector a b -> same_connector b c -> same_connector a c.
Proof.
  unfold same_connector.
  intros (A1 & A2 & A3 & A4 & A5 & A6 & A7 & A8 & A9 & A10 & A11 & A12 & A13)
         (B1 & B2 & B3 & B4 & B5 & B6 & B7 & B8 & B9 & B10 & B11 & B12 & B13).
  repeat split; etransitivity; eassumption.
Qed.

Lemma ensure_keeps_connector w s : running s = true -> closing s = false ->
  same_connector (apply_control (Ensure w) s) s.
Proof.
  intros R C. unfold apply_control.
  destruct (shut (emit (EvControl (Ensure w)) s) || connected (emit (EvControl (Ensure w)) s));
    [unfold same_connector; repeat split|].
  unfold start_connector.
  replace (running (set_closing false (set_waiters
             (waiters (emit (EvControl (Ensure w)) s) ++ [(w, (now (emit (EvControl (Ensure w)) s) + TEN_S)%N)])
             (emit (EvControl (Ensure w)) s)))) with (running s) by reflexivity.
  rewrite R. cbn [orb]. unfold same_connector. cbn. repeat split. now rewrite C.
Qed.

Lemma cancel_keeps_connector w s : same_connector (apply_control (Cancel w) s) s.
Proof.
  unfold apply_control. destruct (has_waiter w (waiters (emit (EvControl (Cancel w)) s)));
    unfold same_connector; repeat split.
Qed.

(* ... for any number of callers beginning and ceasing to wait *)
Fixpoint wait_controls (l : list control) : bool :=
  match l with
  | [] => true
  | Ensure _ :: r | Cancel _ :: r => wait_controls r
  | _ :: _ => false
  end.

Lemma waiting_keeps_connector : forall l s, wait_controls l = true -> running s = true -> closing s = false ->
  same_connector (fold_left (fun s c => apply_control c s) l s) s.
Proof.
  induction l as [|c l IH]; intros s W R C; [apply same_connector_refl|].
  cbn [fold_left].
  assert (E : same_connector (apply_control c s) s).
  { destruct c; try discriminate W; [now apply ensure_keeps_connector|apply cancel_keeps_connector]. }
  assert (W' : wait_controls l = true) by (destruct c; try discriminate W; exact W).
  apply same_connector_trans with (b := apply_control c s); [|exact E].
  destruct E as (E1 & _ & _ & _ & _ & _ & _ & _ & _ & _ & _ & _ & E13).
  apply IH; [exact W'|unfold running; rewrite E1; exact R|rewrite E13; exact C].
Qed.

(* in particular a back-off sleep keeps its wake-up time *)
Lemma waiting_keeps_sleep : forall l s wake, wait_controls l = true -> ph s = PSleep wake -> closing s = false ->
  let s' := fold_left (fun s c => apply_control c s) l s in
  ph s' = PSleep wake /\ nfail s' = nfail s /\ dials s' = dials s /\ opn s' = opn s /\ ntasks s' = ntasks s.
Proof.
  intros l s wake W P C. cbv zeta.
  assert (R : running s = true) by (unfold running; now rewrite P).
  destruct (waiting_keeps_connector l s W R C) as (E1 & E2 & _ & E4 & E5 & _ & E7 & _).
  rewrite E1, E2, E4, E5, E7. auto.
Qed.

(* a reset (of any connection id) and then close / shutdown in the same tick *)
Lemma reset_then_close_total s c : Inv s ->
  let s' := apply_control Close (apply_control (DropReset c) s) in
  opn s' = [] /\ closing s' = true /\ hd_error (trace s') = Some (now s', EvReturned false).
Proof.
  intros H. cbv zeta.
  destruct (close_total _ (apply_control_inv (DropReset c) s H)) as (_ & H2 & H3 & H4). auto.
Qed.

Lemma reset_then_shutdown_total s c : Inv s ->
  let s' := apply_control Shutdown (apply_control (DropReset c) s) in
  opn s' = [] /\ closing s' = true /\ shut s' = true /\ running s' = false.
Proof.
  intros H. cbv zeta.
  destruct (shutdown_total _ (apply_control_inv (DropReset c) s H)) as (_ & H2 & H3 & H4 & H5). auto.
Qed.
