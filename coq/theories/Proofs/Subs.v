(* C12 - basic lemmas: identifier equality, set operations on duplicate-free lists,
   format_characteristic_list, _update_subscriptions, _callback_listeners. *)
From Coq Require Import List NArith ZArith Arith Bool Lia.
From AHK Require Import Model.Subs.
Import ListNotations.

(* ------------------------------------------------------------ equality, membership *)
Lemma cid_eqb_eq : forall a b, cid_eqb a b = true <-> a = b.
Proof.
  intros [a1 a2] [b1 b2]. unfold cid_eqb. cbn [fst snd].
  rewrite andb_true_iff, !N.eqb_eq. split.
  - intros [-> ->]. reflexivity.
  - intros H. inversion H. auto.
Qed.

Lemma cid_eqb_refl : forall a, cid_eqb a a = true.
Proof. intros a. apply cid_eqb_eq. reflexivity. Qed.

Lemma cid_eqb_neq : forall a b, cid_eqb a b = false <-> a <> b.
Proof.
  intros a b. split.
  - intros H E. apply cid_eqb_eq in E. congruence.
  - intros H. destruct (cid_eqb a b) eqn:E; [|reflexivity]. apply cid_eqb_eq in E. contradiction.
Qed.

Lemma mem_In : forall c l, mem c l = true <-> In c l.
Proof.
  intros c l. unfold mem. rewrite existsb_exists. split.
  - intros [x [H1 H2]]. apply cid_eqb_eq in H2. subst. exact H1.
  - intros H. exists c. split; [exact H | apply cid_eqb_refl].
Qed.

Lemma mem_false : forall c l, mem c l = false <-> ~ In c l.
Proof.
  intros c l. split.
  - intros H HI. apply mem_In in HI. congruence.
  - intros H. destruct (mem c l) eqn:E; [|reflexivity]. apply mem_In in E. contradiction.
Qed.

Lemma memN_In : forall a l, memN a l = true <-> In a l.
Proof.
  intros a l. unfold memN. rewrite existsb_exists. split.
  - intros [x [H1 H2]]. apply N.eqb_eq in H2. subst. exact H1.
  - intros H. exists a. split; [exact H | apply N.eqb_refl].
Qed.

Lemma memN_false : forall a l, memN a l = false <-> ~ In a l.
Proof.
  intros a l. split.
  - intros H HI. apply memN_In in HI. congruence.
  - intros H. destruct (memN a l) eqn:E; [|reflexivity]. apply memN_In in E. contradiction.
Qed.

Lemma NoDup_snoc : forall (A : Type) (l : list A) (a : A), NoDup l -> ~ In a l -> NoDup (l ++ [a]).
Proof.
  intros A l a. induction l as [|x t IH]; intros ND NI; cbn.
  - constructor; [intros []|constructor].
  - inversion ND; subst. constructor.
    + rewrite in_app_iff. cbn. intros [H|[H|[]]]; [contradiction|]. subst. apply NI. left. reflexivity.
    + apply IH; [assumption|]. intros H. apply NI. right. exact H.
Qed.

(* ------------------------------------------------------------ union / diff *)
Lemma union_In : forall cs s c, In c (union s cs) <-> In c s \/ In c cs.
Proof.
  induction cs as [|x t IH]; intros s c; cbn [union].
  - cbn. tauto.
  - rewrite IH. destruct (mem x s) eqn:E.
    + apply mem_In in E. cbn. split; [tauto|]. intros [H|[H|H]]; subst; auto.
    + rewrite in_app_iff. cbn. tauto.
Qed.

Lemma union_NoDup : forall cs s, NoDup s -> NoDup (union s cs).
Proof.
  induction cs as [|x t IH]; intros s ND; cbn [union]; [assumption|].
  apply IH. destruct (mem x s) eqn:E; [assumption|].
  apply NoDup_snoc; [assumption|]. apply mem_false. exact E.
Qed.

Lemma diff_In : forall s cs c, In c (diff s cs) <-> In c s /\ ~ In c cs.
Proof.
  intros s cs c. unfold diff. rewrite filter_In, negb_true_iff, mem_false. tauto.
Qed.

Lemma diff_NoDup : forall s cs, NoDup s -> NoDup (diff s cs).
Proof. intros s cs ND. unfold diff. apply NoDup_filter. exact ND. Qed.

(* ------------------------------------------------------------ format_characteristic_list *)
Lemma lookup_app : forall k a b,
    lookup k (a ++ b) = match lookup k a with Some v => Some v | None => lookup k b end.
Proof.
  intros k a b. induction a as [|[k' v'] t IH]; cbn [lookup app]; [reflexivity|].
  destruct (cid_eqb k k'); [reflexivity|exact IH].
Qed.

Lemma lookup_upsert : forall k k' v m,
    lookup k (upsert k' v m) = if cid_eqb k k' then Some v else lookup k m.
Proof.
  intros k k' v m. induction m as [|[k2 v2] t IH]; cbn [upsert lookup].
  - reflexivity.
  - destruct (cid_eqb k' k2) eqn:E2; cbn [lookup].
    + apply cid_eqb_eq in E2. subst k2. destruct (cid_eqb k k'); reflexivity.
    + destruct (cid_eqb k k2) eqn:E1.
      * apply cid_eqb_eq in E1. subst k2.
        destruct (cid_eqb k k') eqn:E3; [|reflexivity].
        apply cid_eqb_eq in E3. subst k'. rewrite cid_eqb_refl in E2. discriminate.
      * exact IH.
Qed.

Lemma upsert_keys : forall k v m,
    map fst (upsert k v m) = if mem k (map fst m) then map fst m else map fst m ++ [k].
Proof.
  intros k v m. induction m as [|[k2 v2] t IH]; cbn [upsert map fst]; [reflexivity|].
  unfold mem. cbn [existsb]. fold (mem k (map fst t)).
  destruct (cid_eqb k k2) eqn:E; cbn [orb map fst].
  - reflexivity.
  - rewrite IH. destruct (mem k (map fst t)); reflexivity.
Qed.

Definition fstep (m : fevent) (kv : cid * Z) : fevent := upsert (fst kv) (snd kv) m.

Lemma fold_keys_NoDup : forall rows m,
    NoDup (map fst m) -> NoDup (map fst (fold_left fstep rows m)).
Proof.
  induction rows as [|[k v] t IH]; intros m ND; cbn [fold_left]; [assumption|].
  apply IH. unfold fstep. cbn [fst snd]. rewrite upsert_keys.
  destruct (mem k (map fst m)) eqn:E; [assumption|].
  apply NoDup_snoc; [assumption|]. apply mem_false. exact E.
Qed.

Lemma fold_keys_In : forall rows m k,
    In k (map fst (fold_left fstep rows m)) <-> In k (map fst m) \/ In k (map fst rows).
Proof.
  induction rows as [|[k1 v1] t IH]; intros m k; cbn [fold_left map fst].
  - cbn. tauto.
  - rewrite IH. unfold fstep. cbn [fst snd]. rewrite upsert_keys.
    destruct (mem k1 (map fst m)) eqn:E.
    + apply mem_In in E. cbn. split; [tauto|]. intros [H|[H|H]]; subst; auto.
    + rewrite in_app_iff. cbn. tauto.
Qed.

Lemma fold_lookup : forall rows m k,
    lookup k (fold_left fstep rows m)
    = match last_value k rows with Some v => Some v | None => lookup k m end.
Proof.
  induction rows as [|[k1 v1] t IH]; intros m k; cbn [fold_left].
  - reflexivity.
  - rewrite IH. unfold last_value. cbn [rev]. rewrite lookup_app.
    destruct (lookup k (rev t)) as [v|]; [reflexivity|].
    unfold fstep. cbn [fst snd lookup]. rewrite lookup_upsert.
    destruct (cid_eqb k k1); reflexivity.
Qed.

Lemma format_keys_NoDup : forall rows, NoDup (map fst (format rows)).
Proof. intros rows. apply (fold_keys_NoDup rows []). constructor. Qed.

Lemma format_keys_In : forall rows k, In k (map fst (format rows)) <-> In k (map fst rows).
Proof. intros rows k. unfold format. fold fstep. rewrite (fold_keys_In rows [] k). cbn. tauto. Qed.

Lemma format_lookup : forall rows k, lookup k (format rows) = last_value k rows.
Proof.
  intros rows k. unfold format. fold fstep. rewrite (fold_lookup rows [] k).
  destruct (last_value k rows); reflexivity.
Qed.

(* ------------------------------------------------------------ observation functions *)
Lemma put_ids_app : forall ev a b, put_ids ev (a ++ b) = put_ids ev a ++ put_ids ev b.
Proof. intros. unfold put_ids. apply flat_map_app. Qed.

Lemma calls_of_app : forall l a b, calls_of l (a ++ b) = calls_of l a ++ calls_of l b.
Proof. intros. unfold calls_of. apply flat_map_app. Qed.

Lemma strip_app : forall a b, strip (a ++ b) = strip a ++ strip b.
Proof. intros. unfold strip. apply filter_app. Qed.

Lemma calls_of_cons_call : forall l l' e t,
    calls_of l (OCall l' e :: t) = (if N.eqb l l' then [e] else []) ++ calls_of l t.
Proof. reflexivity. Qed.

Lemma calls_of_cons_raised : forall l l' t, calls_of l (ORaised l' :: t) = calls_of l t.
Proof. reflexivity. Qed.

(* ------------------------------------------------------------ aids / groups *)
Lemma dedupN_In : forall l seen a, In a (dedupN l seen) <-> In a l /\ ~ In a seen.
Proof.
  induction l as [|x t IH]; intros seen a; cbn [dedupN].
  - cbn. tauto.
  - destruct (memN x seen) eqn:E.
    + apply memN_In in E. rewrite IH. cbn. split; [tauto|].
      intros [[H|H] HN]; [subst; contradiction|tauto].
    + apply memN_false in E. cbn [In]. rewrite IH. cbn [In]. split.
      * intros [H|[H HN]]; [subst; tauto|]. split; [tauto|]. intros HS. apply HN. right. exact HS.
      * intros [[H|H] HN]; [left; exact H|].
        destruct (N.eq_dec x a) as [->|NE]; [left; reflexivity|].
        right. split; [exact H|]. intros [HS|HS]; [contradiction|contradiction].
Qed.

Lemma aids_In : forall ids a, In a (aids ids) <-> In a (map fst ids).
Proof. intros ids a. unfold aids. rewrite dedupN_In. cbn. tauto. Qed.

Lemma group_In : forall a ids c, In c (group a ids) <-> In c ids /\ fst c = a.
Proof. intros a ids c. unfold group. rewrite filter_In, N.eqb_eq. tauto. Qed.

Lemma groups_concat_In : forall ids c, In c (concat (map snd (groups ids))) <-> In c ids.
Proof.
  intros ids c. unfold groups. rewrite map_map. cbn [snd]. rewrite <- flat_map_concat_map.
  rewrite in_flat_map. split.
  - intros [a [_ H]]. apply group_In in H. tauto.
  - intros H. exists (fst c). split.
    + apply aids_In. apply in_map. exact H.
    + apply group_In. split; [exact H|reflexivity].
Qed.

Lemma groups_fst : forall ids, map fst (groups ids) = aids ids.
Proof. intros ids. unfold groups. rewrite map_map. cbn [fst]. apply map_id. Qed.

(* ------------------------------------------------------------ send / update *)
Definition is_put (ev : bool) (x : out) : Prop := exists ids r, x = OPut ev ids r.

Lemma send_shape : forall ev rs gs acc, Forall (is_put ev) (fst (send ev rs gs acc)).
Proof.
  intros ev rs. induction gs as [|[a g] t IH]; intros acc; cbn [send].
  - constructor.
  - destruct (reply_for a rs) as [|rows| |].
    + specialize (IH acc). destruct (send ev rs t acc) as [o r]. cbn [fst] in *.
      constructor; [eexists; eexists; reflexivity|exact IH].
    + specialize (IH (acc ++ map fst rows)). destruct (send ev rs t (acc ++ map fst rows)) as [o r]. cbn [fst] in *.
      constructor; [eexists; eexists; reflexivity|exact IH].
    + cbn [fst]. constructor; [eexists; eexists; reflexivity|constructor].
    + cbn [fst]. constructor; [eexists; eexists; reflexivity|constructor].
Qed.

Lemma puts_calls : forall ev o l, Forall (is_put ev) o -> calls_of l o = [].
Proof.
  intros ev o l H. induction H as [|x t [ids [r ->]] _ IH]; [reflexivity|]. cbn. exact IH.
Qed.

Lemma puts_strip : forall ev o, Forall (is_put ev) o -> strip o = o.
Proof.
  intros ev o H. induction H as [|x t [ids [r ->]] _ IH]; [reflexivity|].
  unfold strip in *. cbn. rewrite IH. reflexivity.
Qed.

Lemma puts_other : forall ev o, Forall (is_put ev) o -> put_ids (negb ev) o = [].
Proof.
  intros ev o H. induction H as [|x t [ids [r ->]] _ IH]; [reflexivity|].
  cbn. destruct ev; cbn; exact IH.
Qed.

Lemma puts_false_cutoff : forall o, Forall (is_put false) o -> existsb cutoff o = false.
Proof.
  intros o H. induction H as [|x t [ids [r ->]] _ IH]; [reflexivity|]. cbn. exact IH.
Qed.

Lemma puts_no_lost : forall ev o, Forall (is_put ev) o -> ~ In OLost o.
Proof.
  intros ev o H. induction H as [|x t [ids [r ->]] _ IH]; cbn; [tauto|].
  intros [E|E]; [discriminate|contradiction].
Qed.

Lemma puts_no_session : forall ev o, Forall (is_put ev) o -> ~ In OSession o.
Proof.
  intros ev o H. induction H as [|x t [ids [r ->]] _ IH]; cbn; [tauto|].
  intros [E|E]; [discriminate|contradiction].
Qed.

(* a run of requests that completes: every group was sent, no request was cut off *)
Lemma send_done : forall ev rs gs acc o st,
    send ev rs gs acc = (o, UDone st) ->
    put_ids ev o = concat (map snd gs)
    /\ existsb cutoff o = false
    /\ (forall ids, ~ In (OPut ev ids PutDisc) o)
    /\ (forall a, In a (map fst gs) -> reply_for a rs <> RDisc /\ reply_for a rs <> RHttp4xx).
Proof.
  intros ev rs. induction gs as [|[a g] t IH]; intros acc o st H; cbn [send] in H.
  - inversion H; subst. cbn. repeat split; try tauto; intros _ [].
  - destruct (reply_for a rs) as [|rows| |] eqn:ER.
    + destruct (send ev rs t acc) as [o1 r1] eqn:ES. inversion H; subst.
      destruct (IH _ _ _ ES) as [P1 [P2 [P3 P4]]].
      split; [|split; [|split]].
      * cbn. rewrite Bool.eqb_reflx. cbn [map snd concat]. f_equal. exact P1.
      * cbn [existsb]. rewrite P2. destruct ev; reflexivity.
      * intros ids [E|E]; [discriminate|]. exact (P3 ids E).
      * cbn [map fst]. intros a' [<-|HI]; [rewrite ER; split; discriminate|exact (P4 a' HI)].
    + destruct (send ev rs t (acc ++ map fst rows)) as [o1 r1] eqn:ES. inversion H; subst.
      destruct (IH _ _ _ ES) as [P1 [P2 [P3 P4]]].
      split; [|split; [|split]].
      * cbn. rewrite Bool.eqb_reflx. cbn [map snd concat]. f_equal. exact P1.
      * cbn [existsb]. rewrite P2. destruct ev; reflexivity.
      * intros ids [E|E]; [discriminate|]. exact (P3 ids E).
      * cbn [map fst]. intros a' [<-|HI]; [rewrite ER; split; discriminate|exact (P4 a' HI)].
    + discriminate.
    + discriminate.
Qed.

(* a run of requests that fails: the last request sent is the one that was cut off *)
Lemma send_fail : forall ev rs gs acc o lost,
    send ev rs gs acc = (o, UFail lost) ->
    (exists ids r, In (OPut ev ids r) o
                   /\ ((r = PutDisc /\ lost = true) \/ (r = Put4xx /\ lost = false)))
    /\ (lost = false -> forall ids, ~ In (OPut ev ids PutDisc) o)
    /\ incl (put_ids ev o) (concat (map snd gs))
    /\ (exists a, In a (map fst gs) /\ (reply_for a rs = RDisc \/ reply_for a rs = RHttp4xx)).
Proof.
  intros ev rs. induction gs as [|[a g] t IH]; intros acc o lost H; cbn [send] in H.
  - discriminate.
  - destruct (reply_for a rs) as [|rows| |] eqn:ER.
    + destruct (send ev rs t acc) as [o1 r1] eqn:ES. inversion H; subst.
      destruct (IH _ _ _ ES) as [[ids [r [P1 P2]]] [P3 [P4 [a' [P5 P6]]]]].
      split; [|split; [|split]].
      * exists ids, r. split; [right; exact P1|exact P2].
      * intros HL ids' [E|E]; [discriminate|]. exact (P3 HL ids' E).
      * cbn. rewrite Bool.eqb_reflx. cbn [map snd concat]. apply incl_app_app; [apply incl_refl|exact P4].
      * exists a'. split; [right; exact P5|exact P6].
    + destruct (send ev rs t (acc ++ map fst rows)) as [o1 r1] eqn:ES. inversion H; subst.
      destruct (IH _ _ _ ES) as [[ids [r [P1 P2]]] [P3 [P4 [a' [P5 P6]]]]].
      split; [|split; [|split]].
      * exists ids, r. split; [right; exact P1|exact P2].
      * intros HL ids' [E|E]; [discriminate|]. exact (P3 HL ids' E).
      * cbn. rewrite Bool.eqb_reflx. cbn [map snd concat]. apply incl_app_app; [apply incl_refl|exact P4].
      * exists a'. split; [right; exact P5|exact P6].
    + inversion H; subst. split; [|split; [|split]].
      * exists g, PutDisc. split; [left; reflexivity|left; split; reflexivity].
      * discriminate.
      * cbn. rewrite Bool.eqb_reflx, app_nil_r. cbn [map snd concat]. apply incl_appl. apply incl_refl.
      * exists a. split; [left; reflexivity|left; exact ER].
    + inversion H; subst. split; [|split; [|split]].
      * exists g, Put4xx. split; [left; reflexivity|right; split; reflexivity].
      * intros _ ids [E|[]]. discriminate.
      * cbn. rewrite Bool.eqb_reflx, app_nil_r. cbn [map snd concat]. apply incl_appl. apply incl_refl.
      * exists a. split; [left; reflexivity|right; exact ER].
Qed.

Lemma send_fail_cutoff : forall rs gs acc o lost,
    send true rs gs acc = (o, UFail lost) -> existsb cutoff o = true.
Proof.
  intros rs gs acc o lost H. destruct (send_fail _ _ _ _ _ _ H) as [[ids [r [P1 P2]]] _].
  apply existsb_exists. exists (OPut true ids r). split; [exact P1|].
  destruct P2 as [[-> _]|[-> _]]; reflexivity.
Qed.

(* ------------------------------------------------------------ _callback_listeners *)
Section Notify.
  Variable raises : lid -> fevent -> bool.

  Lemma calls_notify_notin : forall ls l e, ~ In l ls -> calls_of l (notify raises ls e) = [].
  Proof.
    induction ls as [|x t IH]; intros l e NI; cbn [notify]; [reflexivity|].
    assert (Hx : N.eqb l x = false) by (apply N.eqb_neq; intros ->; apply NI; left; reflexivity).
    assert (Ht : ~ In l t) by (intros H; apply NI; right; exact H).
    destruct (call raises x e); rewrite calls_of_cons_call, ?calls_of_cons_raised, Hx; cbn [app];
      apply IH; exact Ht.
  Qed.

  Lemma calls_notify_in : forall ls l e, NoDup ls -> In l ls -> calls_of l (notify raises ls e) = [e].
  Proof.
    induction ls as [|x t IH]; intros l e ND HI; [destruct HI|].
    inversion ND as [|? ? NX NT]; subst. cbn [notify].
    destruct (N.eq_dec l x) as [->|NE].
    - assert (R : calls_of x (notify raises t e) = []) by (apply calls_notify_notin; exact NX).
      destruct (call raises x e); rewrite calls_of_cons_call, ?calls_of_cons_raised, N.eqb_refl, R; reflexivity.
    - assert (Hx : N.eqb l x = false) by (apply N.eqb_neq; exact NE).
      destruct HI as [E|HI]; [congruence|].
      destruct (call raises x e); rewrite calls_of_cons_call, ?calls_of_cons_raised, Hx; cbn [app];
        apply IH; assumption.
  Qed.

  Lemma calls_notify : forall ls l e, NoDup ls ->
      calls_of l (notify raises ls e) = if memN l ls then [e] else [].
  Proof.
    intros ls l e ND. destruct (memN l ls) eqn:E.
    - apply calls_notify_in; [exact ND|apply memN_In; exact E].
    - apply calls_notify_notin. apply memN_false. exact E.
  Qed.

  Lemma strip_notify : forall ls e, strip (notify raises ls e) = map (fun l => OCall l e) ls.
  Proof.
    induction ls as [|x t IH]; intros e; cbn [notify map]; [reflexivity|].
    unfold strip in *. destruct (call raises x e); cbn; rewrite IH; reflexivity.
  Qed.

  Lemma notify_no_put : forall ls e ev, put_ids ev (notify raises ls e) = [].
  Proof.
    induction ls as [|x t IH]; intros e ev; cbn [notify]; [reflexivity|].
    destruct (call raises x e); cbn; apply IH.
  Qed.

  Lemma notify_no_cutoff : forall ls e, existsb cutoff (notify raises ls e) = false.
  Proof.
    induction ls as [|x t IH]; intros e; cbn [notify]; [reflexivity|].
    destruct (call raises x e); cbn; apply IH.
  Qed.

  Lemma notify_shape : forall ls e x, In x (notify raises ls e) ->
      (exists l, x = OCall l e) \/ (exists l, x = ORaised l).
  Proof.
    induction ls as [|y t IH]; intros e x H; cbn [notify] in H; [destruct H|].
    destruct (call raises y e); cbn [In] in H.
    - destruct H as [<-|H]; [left; eexists; reflexivity|exact (IH e x H)].
    - destruct H as [<-|[<-|H]]; [left; eexists; reflexivity|right; eexists; reflexivity|exact (IH e x H)].
  Qed.

  Lemma notify_no_lost : forall ls e, ~ In OLost (notify raises ls e).
  Proof. intros ls e H. apply notify_shape in H. destruct H as [[l E]|[l E]]; discriminate. Qed.

  Lemma notify_no_disc : forall ls e ev ids r, ~ In (OPut ev ids r) (notify raises ls e).
  Proof. intros ls e ev ids r H. apply notify_shape in H. destruct H as [[l E]|[l E]]; discriminate. Qed.
End Notify.
