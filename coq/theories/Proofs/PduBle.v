(* C17 - lemmas about the BLE half of Model/Pdu.v *)
From Coq Require Import List NArith ZArith Arith Bool Lia ZifyN ZifyNat ZifyBool.
From AHK Require Import Lib.Res Lib.ByteStr Model.Pdu.
Import ListNotations.
Ltac Zify.zify_post_hook ::= Z.to_euclidean_division_equations.

(* ---------------------------------------------------------------- chunks *)
Lemma chunks_f_spec F : 0 < F -> forall fuel v, length v <= fuel ->
  concat (chunks_f fuel F v) = v /\ Forall (fun c => 0 < length c <= F) (chunks_f fuel F v).
Proof.
  intros HF. induction fuel as [|fuel IH]; intros v Hl.
  - destruct v; [|cbn in Hl; lia]. cbn. split; constructor.
  - destruct v as [|x v']; [cbn; split; constructor|].
    remember (x :: v') as w eqn:Ew.
    assert (Hw : 0 < length w) by (subst w; cbn; lia).
    assert (E : chunks_f (S fuel) F w = firstn F w :: chunks_f fuel F (skipn F w)) by (subst w; reflexivity).
    rewrite E. clear E Ew.
    assert (Hs : length (skipn F w) <= fuel) by (rewrite skipn_length; lia).
    destruct (IH _ Hs) as [IH1 IH2].
    split.
    + cbn [concat]. rewrite IH1. apply firstn_skipn.
    + constructor; [|exact IH2]. rewrite firstn_length. lia.
Qed.

Lemma chunks_concat F v : 0 < F -> concat (chunks F v) = v.
Proof. intros HF. unfold chunks. apply chunks_f_spec; auto. Qed.

Lemma chunks_sizes F v : 0 < F -> Forall (fun c => 0 < length c <= F) (chunks F v).
Proof. intros HF. unfold chunks. apply chunks_f_spec; auto. Qed.

(* ---------------------------------------------------------------- 16-bit fields *)
Lemma le16_cons n : le16 n = [(n mod 256)%N; ((n / 256) mod 256)%N].
Proof. reflexivity. Qed.

Lemma u16_le16 n : (n < 65536)%N -> u16 (n mod 256) ((n / 256) mod 256) = n.
Proof. intros H. unfold u16. lia. Qed.

Lemma le16_length n : length (le16 n) = 2.
Proof. reflexivity. Qed.

Lemma header_length op tid iid : length (ble_header op tid iid) = 5.
Proof. reflexivity. Qed.

(* ---------------------------------------------------------------- request: closed form on the domain *)
Definition ble_first (fs : nat) (op tid iid : N) (data : bytes) : bytes :=
  ble_header op tid iid ++ le16 (N.of_nat (length data)) ++ firstn (fs - 7) data.
Definition ble_conts (fs : nat) (tid : N) (data : bytes) : list bytes :=
  map (fun c => 128%N :: tid :: c) (chunks (fs - 2) (skipn (fs - 7) data)).

Lemma dom_check op tid iid :
  (op < 256)%N -> (tid < 256)%N -> (iid < 65536)%N ->
  negb ((op <? 256) && (tid <? 256) && (iid <? 65536))%N = false.
Proof.
  intros H1 H2 H3.
  apply N.ltb_lt in H1. apply N.ltb_lt in H2. apply N.ltb_lt in H3.
  rewrite H1, H2, H3. reflexivity.
Qed.

Lemma ble_encode_empty fs op tid iid :
  (op < 256)%N -> (tid < 256)%N -> (iid < 65536)%N ->
  ble_encode fs op tid iid [] = Ok [ble_header op tid iid].
Proof. intros. unfold ble_encode. rewrite dom_check by assumption. reflexivity. Qed.

Lemma ble_encode_dom fs op tid iid data :
  7 <= fs -> (op < 256)%N -> (tid < 256)%N -> (iid < 65536)%N ->
  (N.of_nat (length data) < 65536)%N -> data <> [] ->
  ble_encode fs op tid iid data = Ok (ble_first fs op tid iid data :: ble_conts fs tid data).
Proof.
  intros Hfs H1 H2 H3 Hl Hne. unfold ble_encode. rewrite dom_check by assumption.
  destruct data as [|x d]; [contradiction|].
  remember (x :: d) as w.
  apply N.leb_gt in Hl. rewrite Hl.
  unfold first_take.
  destruct (Nat.leb_spec 7 fs); [|lia].
  destruct (Nat.eqb_spec fs 2); [lia|].
  destruct (Nat.ltb_spec fs 2); [lia|].
  reflexivity.
Qed.

(* every fragment fits *)
Lemma ble_frag_sizes fs op tid iid data frs :
  7 <= fs -> ble_encode fs op tid iid data = Ok frs -> Forall (fun f => length f <= fs) frs.
Proof.
  intros Hfs. unfold ble_encode.
  destruct (negb _); [discriminate|].
  destruct data as [|x d].
  - intros E. injection E as <-. constructor; [rewrite header_length; lia|constructor].
  - remember (x :: d) as w.
    destruct (N.leb _ _); [discriminate|].
    unfold first_take.
    destruct (Nat.leb_spec 7 fs); [|lia].
    destruct (Nat.eqb_spec fs 2); [lia|].
    destruct (Nat.ltb_spec fs 2); [lia|].
    intros E. injection E as <-. constructor.
    + unfold ble_header, le16. cbn [le_enc app length]. rewrite firstn_length. lia.
    + apply Forall_map.
      assert (HF : 0 < fs - 2) by lia.
      pose proof (chunks_sizes (fs - 2) (skipn (fs - 7) w) HF) as Hc.
      eapply Forall_impl; [|exact Hc]. cbn. intros c Hcl. lia.
Qed.

(* every continuation fragment carries at least one body byte, and the first
   fragment is full whenever there is a continuation *)
Lemma ble_conts_progress fs tid data :
  3 <= fs -> Forall (fun f => 2 < length f) (ble_conts fs tid data).
Proof.
  intros Hfs. unfold ble_conts. apply Forall_map.
  assert (HF : 0 < fs - 2) by lia.
  pose proof (chunks_sizes (fs - 2) (skipn (fs - 7) data) HF) as Hc.
  eapply Forall_impl; [|exact Hc]. cbn. intros c Hcl. lia.
Qed.

(* ---------------------------------------------------------------- spec accessory on the encoder's output *)
Lemma acc_more_chunks t exp : forall cs acc,
  Forall (fun c => 0 < length c) cs ->
  N.of_nat (length acc + length (concat cs)) = exp ->
  acc_more t exp acc (map (fun c => 128%N :: t :: c) cs) = Some (acc ++ concat cs).
Proof.
  induction cs as [|c cs IH]; intros acc Hne Hlen.
  - cbn [map acc_more concat]. cbn [concat length] in Hlen.
    rewrite app_nil_r.
    destruct (N.eqb_spec (N.of_nat (length acc)) exp); [reflexivity|lia].
  - apply Forall_cons_iff in Hne; destruct Hne as [Hc Hcs].
    cbn [map acc_more]. cbn [concat] in Hlen. rewrite app_length in Hlen.
    destruct (N.ltb_spec (N.of_nat (length acc)) exp); [|lia].
    change (N.land 128 128 =? 128)%N with true.
    rewrite N.eqb_refl.
    destruct c as [|y c']; [cbn in Hc; lia|].
    cbn [nil_b negb andb].
    rewrite IH; [cbn [concat]; rewrite app_assoc; reflexivity|assumption|].
    rewrite app_length. lia.
Qed.

Lemma acc_reassemble_encode fs op tid iid data frs :
  8 <= fs -> (op < 256)%N -> (tid < 256)%N -> (iid < 65536)%N -> (N.of_nat (length data) < 65536)%N ->
  ble_encode fs op tid iid data = Ok frs ->
  acc_reassemble frs = Some (op, tid, iid, data).
Proof.
  intros Hfs H1 H2 H3 Hl E.
  destruct data as [|x d].
  - rewrite ble_encode_empty in E by assumption. injection E as <-.
    unfold acc_reassemble, ble_header. rewrite le16_cons. cbn [acc_first].
    change (N.land 0 142 =? 0)%N with true. cbn [negb].
    rewrite u16_le16 by assumption.
    cbn [acc_more length]. reflexivity.
  - remember (x :: d) as w.
    rewrite ble_encode_dom in E; try assumption; try lia; [|subst w; discriminate].
    injection E as <-.
    unfold acc_reassemble, ble_first, ble_header. rewrite !le16_cons. cbn [app acc_first].
    change (N.land 0 142 =? 0)%N with true. cbn [negb].
    rewrite !u16_le16 by assumption.
    unfold ble_conts.
    assert (HF : 0 < fs - 2) by lia.
    rewrite acc_more_chunks.
    + rewrite chunks_concat by assumption. rewrite firstn_skipn. reflexivity.
    + eapply Forall_impl; [|apply (chunks_sizes (fs - 2) _ HF)]. cbn. intros; lia.
    + rewrite chunks_concat by assumption.
      rewrite <- app_length, firstn_skipn. reflexivity.
Qed.

Lemma ble_encode_total fs op tid iid data :
  8 <= fs -> (op < 256)%N -> (tid < 256)%N -> (iid < 65536)%N -> (N.of_nat (length data) < 65536)%N ->
  exists frs, ble_encode fs op tid iid data = Ok frs.
Proof.
  intros. destruct data as [|x d].
  - eexists. apply ble_encode_empty; assumption.
  - eexists. apply ble_encode_dom; try assumption; try lia. discriminate.
Qed.

(* the full request statement *)
Lemma ble_request_ok fs op tid iid data :
  8 <= fs -> (op < 256)%N -> (tid < 256)%N -> (iid < 65536)%N -> (N.of_nat (length data) < 65536)%N ->
  exists frs, ble_encode fs op tid iid data = Ok frs
              /\ Forall (fun f => length f <= fs) frs
              /\ acc_reassemble frs = Some (op, tid, iid, data).
Proof.
  intros Hfs H1 H2 H3 Hl.
  destruct (ble_encode_total fs op tid iid data Hfs H1 H2 H3 Hl) as [frs E].
  exists frs. split; [exact E|]. split.
  - eapply ble_frag_sizes; [|exact E]. lia.
  - eapply acc_reassemble_encode; eassumption.
Qed.

(* outside the 16-bit ranges struct.pack raises: nothing is written *)
Lemma ble_encode_range fs op tid iid data :
  (65536 <= iid)%N \/ (256 <= tid)%N \/ (256 <= op)%N \/ (65536 <= N.of_nat (length data))%N ->
  ble_encode fs op tid iid data = Crash.
Proof.
  intros H. unfold ble_encode.
  destruct (N.ltb_spec op 256); destruct (N.ltb_spec tid 256); destruct (N.ltb_spec iid 65536);
    cbn [andb negb]; try reflexivity.
  destruct data as [|x d]; [cbn in H; lia|].
  remember (x :: d) as w.
  destruct (N.leb_spec 65536 (N.of_nat (length w))); [reflexivity|lia].
Qed.

(* ---------------------------------------------------------------- sealed transport *)
Section Sealed.
  Variable seal : N -> bytes -> bytes.
  Variable open : N -> bytes -> option bytes.
  Hypothesis open_seal : forall n m, open n (seal n m) = Some m.

  Lemma open_seq_seal_seq : forall l ctr, open_seq open ctr (seal_seq seal ctr l) = Some l.
  Proof.
    induction l as [|f r IH]; intros ctr; [reflexivity|].
    cbn [seal_seq open_seq]. rewrite open_seal, IH. reflexivity.
  Qed.

  Lemma seal_seq_length : forall l ctr, length (seal_seq seal ctr l) = length l.
  Proof. induction l as [|f r IH]; intros ctr; [reflexivity|]. cbn [seal_seq length]. now rewrite IH. Qed.

  Lemma seal_seq_sizes k : (forall n m, length (seal n m) = length m + k) ->
    forall fs l ctr, Forall (fun f => length f <= fs) l ->
    Forall (fun w => length w <= fs + k) (seal_seq seal ctr l).
  Proof.
    intros Hk fs. induction l as [|f r IH]; intros ctr Hl; [constructor|].
    apply Forall_cons_iff in Hl. destruct Hl as [Hl1 Hl2]. cbn [seal_seq]. constructor; [rewrite Hk; lia|]. apply IH; assumption.
  Qed.

  (* an encrypted request: sizes, counters, and what the accessory recovers *)
  Lemma ble_write_ok fs op tid iid data ctr :
    8 <= fs -> (op < 256)%N -> (tid < 256)%N -> (iid < 65536)%N -> (N.of_nat (length data) < 65536)%N ->
    exists ws frs,
      ble_write seal ctr fs op tid iid data = Ok (ws, (ctr + N.of_nat (length ws))%N)
      /\ open_seq open ctr ws = Some frs
      /\ acc_reassemble frs = Some (op, tid, iid, data)
      /\ Forall (fun f => length f <= fs) frs
      /\ forall k, (forall n m, length (seal n m) = length m + k) -> Forall (fun w => length w <= fs + k) ws.
  Proof.
    intros Hfs H1 H2 H3 Hl.
    destruct (ble_request_ok fs op tid iid data Hfs H1 H2 H3 Hl) as [frs [E [Hs Ha]]].
    exists (seal_seq seal ctr frs), frs.
    unfold ble_write. rewrite E. cbn [rmap rbind]. rewrite seal_seq_length.
    split; [reflexivity|]. split; [apply open_seq_seal_seq|]. split; [exact Ha|]. split; [exact Hs|].
    intros k Hk. apply seal_seq_sizes; assumption.
  Qed.

  (* ---- the read loop on a conformant train *)
  Definition flag_set (cp : N * bytes) : Prop := N.land (fst cp) 128 <> 0%N.

  Lemma decode_cont_ok tid c p : N.land c 128 <> 0%N -> ble_decode_cont tid (resp_cont tid (c, p)) = Ok p.
  Proof.
    intros H. unfold resp_cont, ble_decode_cont. cbn [fst snd].
    destruct (N.eqb_spec (N.land c 128) 0); [contradiction|].
    rewrite N.eqb_refl. reflexivity.
  Qed.

  Lemma read_more_step ctr tid exp acc f r :
    read_more open ctr tid exp acc (f :: r) =
    if (N.of_nat (length acc) <? exp)%N then
      rbind (open_frag open ctr f) (fun p =>
      rbind (ble_decode_cont tid p) (fun b => read_more open (ctr + 1)%N tid exp (acc ++ b) r))
    else Ok (acc, f :: r, ctr).
  Proof. reflexivity. Qed.

  Lemma read_more_nil ctr tid exp acc :
    read_more open ctr tid exp acc [] =
    if (N.of_nat (length acc) <? exp)%N then Err Starved else Ok (acc, [], ctr).
  Proof. reflexivity. Qed.

  Lemma read_more_conformant tid exp : forall conts ctr acc,
    Forall flag_set conts ->
    N.of_nat (length acc + length (concat (map snd conts))) = exp ->
    exists k, k <= length conts
      /\ read_more open ctr tid exp acc (seal_seq seal ctr (map (resp_cont tid) conts))
         = Ok (acc ++ concat (map snd conts),
               skipn k (seal_seq seal ctr (map (resp_cont tid) conts)),
               (ctr + N.of_nat k)%N)
      /\ (Forall (fun cp => snd cp <> []) conts -> k = length conts).
  Proof.
    induction conts as [|[c p] conts IH]; intros ctr acc Hf Hl.
    - exists 0. split; [lia|]. cbn [map seal_seq concat length] in *.
      rewrite read_more_nil.
      destruct (N.ltb_spec (N.of_nat (length acc)) exp); [lia|].
      rewrite app_nil_r, N.add_0_r. split; [reflexivity|]. intros _. reflexivity.
    - apply Forall_cons_iff in Hf; destruct Hf as [Hc Hcs].
      cbn [map seal_seq concat snd] in *. rewrite app_length in Hl.
      rewrite read_more_step.
      destruct (N.ltb_spec (N.of_nat (length acc)) exp) as [Hlt|Hge].
      + unfold open_frag. rewrite open_seal. cbn [rbind].
        rewrite decode_cont_ok by exact Hc. cbn [rbind].
        destruct (IH (ctr + 1)%N (acc ++ p) Hcs) as [k [Hk [E Hall]]].
        { rewrite app_length. lia. }
        exists (S k). split; [cbn [length]; lia|]. split.
        * rewrite E. cbn [skipn]. rewrite <- app_assoc.
          replace (ctr + 1 + N.of_nat k)%N with (ctr + N.of_nat (S k))%N by lia. reflexivity.
        * intros Hne. apply Forall_cons_iff in Hne. destruct Hne as [_ Hne]. cbn [length]. f_equal. apply Hall. assumption.
      + exists 0. split; [lia|].
        assert (Hz : length (p ++ concat (map snd conts)) = 0) by (rewrite app_length; lia).
        apply length_zero_iff_nil in Hz. rewrite Hz, app_nil_r, N.add_0_r.
        split; [reflexivity|].
        intros Hne. apply Forall_cons_iff in Hne. destruct Hne as [Hp _]. cbn [snd] in Hp.
        apply app_eq_nil in Hz. destruct Hz; contradiction.
  Qed.

  Lemma decode_first_ok c tid st total p0 :
    (st <= 6)%N -> (total < 65536)%N ->
    ble_decode tid (resp_first c tid st total p0) = Ok (st, total, p0).
  Proof.
    intros Hs Ht. unfold resp_first, ble_decode. rewrite le16_cons. cbn [app].
    destruct (N.leb_spec st 6); [|lia]. cbn [negb].
    rewrite N.eqb_refl. cbn [negb].
    rewrite u16_le16 by assumption. reflexivity.
  Qed.

  Definition resp_train (c tid st : N) (p0 : bytes) (conts : list (N * bytes)) : list bytes :=
    resp_first c tid st (N.of_nat (length (p0 ++ concat (map snd conts)))) p0 :: map (resp_cont tid) conts.

  Lemma read_any_fragmentation c tid st p0 conts ctr :
    (st <= 6)%N -> Forall flag_set conts ->
    (N.of_nat (length (p0 ++ concat (map snd conts))) < 65536)%N ->
    exists k, k <= length conts
      /\ read_pdu open ctr tid (seal_seq seal ctr (resp_train c tid st p0 conts))
         = Ok (st, p0 ++ concat (map snd conts),
               skipn (S k) (seal_seq seal ctr (resp_train c tid st p0 conts)),
               (ctr + N.of_nat (S k))%N)
      /\ (Forall (fun cp => snd cp <> []) conts -> k = length conts).
  Proof.
    intros Hs Hf Ht. unfold resp_train. cbn [seal_seq read_pdu].
    unfold open_frag. rewrite open_seal. cbn [rbind].
    rewrite decode_first_ok by assumption. cbn [rbind].
    destruct (read_more_conformant tid (N.of_nat (length (p0 ++ concat (map snd conts)))) conts (ctr + 1)%N p0 Hf)
      as [k [Hk [E Hall]]].
    { rewrite app_length. reflexivity. }
    exists k. split; [exact Hk|]. split; [|exact Hall].
    rewrite E. cbn [rbind skipn].
    replace (ctr + 1 + N.of_nat k)%N with (ctr + N.of_nat (S k))%N by lia. reflexivity.
  Qed.

  (* all continuation pieces non-empty: everything is consumed, counter in step *)
  Lemma read_exact_fragmentation c tid st p0 conts ctr :
    (st <= 6)%N -> Forall flag_set conts -> Forall (fun cp => snd cp <> []) conts ->
    (N.of_nat (length (p0 ++ concat (map snd conts))) < 65536)%N ->
    read_pdu open ctr tid (seal_seq seal ctr (resp_train c tid st p0 conts))
    = Ok (st, p0 ++ concat (map snd conts), [], (ctr + N.of_nat (S (length conts)))%N).
  Proof.
    intros Hs Hf Hne Ht.
    destruct (read_any_fragmentation c tid st p0 conts ctr Hs Hf Ht) as [k [Hk [E Hall]]].
    rewrite E. rewrite (Hall Hne).
    replace (S (length conts)) with (length (seal_seq seal ctr (resp_train c tid st p0 conts))).
    - rewrite skipn_all. reflexivity.
    - rewrite seal_seq_length. unfold resp_train. cbn [length]. rewrite map_length. reflexivity.
  Qed.

  (* header-only response (no length field): status, empty body *)
  Lemma read_no_body c tid st ctr rest :
    (st <= 6)%N ->
    read_pdu open ctr tid (seal ctr [c; tid; st] :: rest) = Ok (st, [], rest, (ctr + 1)%N).
  Proof.
    intros Hs. cbn [read_pdu]. unfold open_frag. rewrite open_seal. cbn [rbind ble_decode].
    destruct (N.leb_spec st 6); [|lia]. cbn [negb]. rewrite N.eqb_refl. cbn [negb rbind].
    destruct rest; reflexivity.
  Qed.

  (* ---- rejection *)
  Lemma read_more_reject tid exp bad :
    ble_decode_cont tid bad = Err ValueError ->
    forall oks ctr acc rest,
      Forall flag_set oks ->
      (N.of_nat (length acc + length (concat (map snd oks))) < exp)%N ->
      read_more open ctr tid exp acc (seal_seq seal ctr (map (resp_cont tid) oks ++ bad :: rest)) = Err ValueError.
  Proof.
    intros Hbad. induction oks as [|[c p] oks IH]; intros ctr acc rest Hf Hl.
    - cbn [map app seal_seq concat length] in *. rewrite read_more_step.
      destruct (N.ltb_spec (N.of_nat (length acc)) exp); [|lia].
      unfold open_frag. rewrite open_seal. cbn [rbind]. rewrite Hbad. reflexivity.
    - apply Forall_cons_iff in Hf; destruct Hf as [Hc Hcs].
      cbn [map app seal_seq concat snd] in *. rewrite app_length in Hl.
      rewrite read_more_step.
      destruct (N.ltb_spec (N.of_nat (length acc)) exp); [|lia].
      unfold open_frag. rewrite open_seal. cbn [rbind].
      rewrite decode_cont_ok by exact Hc. cbn [rbind].
      apply IH; [assumption|]. rewrite app_length. lia.
  Qed.

  Lemma decode_cont_bad_tid tid c t' b : t' <> tid -> ble_decode_cont tid (c :: t' :: b) = Err ValueError.
  Proof.
    intros H. unfold ble_decode_cont.
    destruct (N.land c 128 =? 0)%N; [reflexivity|].
    destruct (N.eqb_spec t' tid); [contradiction|]. reflexivity.
  Qed.

  Lemma decode_cont_no_flag tid c t' b : N.land c 128 = 0%N -> ble_decode_cont tid (c :: t' :: b) = Err ValueError.
  Proof. intros H. unfold ble_decode_cont. rewrite H. reflexivity. Qed.

  (* a fragment the read loop still needs (body incomplete) that fails the check aborts the read *)
  Lemma read_reject c tid st total p0 oks bad rest ctr :
    ble_decode_cont tid bad = Err ValueError ->
    (st <= 6)%N -> (total < 65536)%N -> Forall flag_set oks ->
    (N.of_nat (length p0 + length (concat (map snd oks))) < total)%N ->
    read_pdu open ctr tid (seal_seq seal ctr (resp_first c tid st total p0 :: map (resp_cont tid) oks ++ bad :: rest))
    = Err ValueError.
  Proof.
    intros Hbad Hs Ht Hf Hl. cbn [seal_seq read_pdu].
    unfold open_frag. rewrite open_seal. cbn [rbind].
    rewrite decode_first_ok by assumption. cbn [rbind].
    rewrite (read_more_reject tid total bad Hbad oks (ctr + 1)%N p0 rest Hf Hl). reflexivity.
  Qed.

  (* first fragment with a foreign tid *)
  Lemma read_reject_first c t' st tail rest tid ctr :
    t' <> tid -> read_pdu open ctr tid (seal ctr (c :: t' :: st :: tail) :: rest) = Err ValueError.
  Proof.
    intros H. cbn [read_pdu]. unfold open_frag. rewrite open_seal. cbn [rbind ble_decode].
    destruct (negb (st <=? 6)%N); [reflexivity|].
    destruct (N.eqb_spec t' tid); [contradiction|]. reflexivity.
  Qed.

  (* a fragment that does not open under the expected nonce *)
  Lemma read_bad_seal ctr tid f rest : open ctr f = None -> read_pdu open ctr tid (f :: rest) = Err EncryptionError.
  Proof. intros H. cbn [read_pdu]. unfold open_frag. rewrite H. reflexivity. Qed.
End Sealed.

Lemma open_seal_plain : forall n m, open_plain n (seal_plain n m) = Some m.
Proof. reflexivity. Qed.

Lemma seal_seq_plain : forall l ctr, seal_seq seal_plain ctr l = l.
Proof. induction l as [|f r IH]; intros ctr; [reflexivity|]. cbn [seal_seq]. rewrite IH. reflexivity. Qed.

Lemma bytes_eqb_refl a : bytes_eqb a a = true.
Proof. induction a as [|x a IH]; [reflexivity|]. cbn [bytes_eqb]. rewrite N.eqb_refl, IH. reflexivity. Qed.

Lemma open_seal_toy : forall n m, toy_open n (toy_seal n m) = Some m.
Proof.
  intros n m. unfold toy_open, toy_seal.
  assert (L : length (le_enc 16 n) = 16) by apply le_enc_length.
  rewrite firstn_app, L, Nat.sub_diag, firstn_O, app_nil_r.
  rewrite <- L at 1. rewrite firstn_all, bytes_eqb_refl.
  rewrite skipn_app, L, Nat.sub_diag. rewrite <- L at 1. rewrite skipn_all. reflexivity.
Qed.

Lemma toy_seal_length : forall n m, length (toy_seal n m) = length m + 16.
Proof. intros. unfold toy_seal. rewrite app_length, le_enc_length. lia. Qed.

(* ---------------------------------------------------------------- statements in the shape used by Props/C17.v *)
Lemma read_reject_tid seal open :
  (forall n m, open n (seal n m) = Some m) ->
  forall c tid st total p0 oks c' t' b rest ctr,
    t' <> tid -> (st <= 6)%N -> (total < 65536)%N -> Forall flag_set oks ->
    (N.of_nat (length p0 + length (concat (map snd oks))) < total)%N ->
    read_pdu open ctr tid
      (seal_seq seal ctr (resp_first c tid st total p0 :: map (resp_cont tid) oks ++ (c' :: t' :: b) :: rest))
    = Err ValueError.
Proof.
  intros Hos c tid st total p0 oks c' t' b rest ctr Ht. intros.
  apply read_reject; try assumption. apply decode_cont_bad_tid; assumption.
Qed.

Lemma read_reject_flag seal open :
  (forall n m, open n (seal n m) = Some m) ->
  forall c tid st total p0 oks c' t' b rest ctr,
    N.land c' 128 = 0%N -> (st <= 6)%N -> (total < 65536)%N -> Forall flag_set oks ->
    (N.of_nat (length p0 + length (concat (map snd oks))) < total)%N ->
    read_pdu open ctr tid
      (seal_seq seal ctr (resp_first c tid st total p0 :: map (resp_cont tid) oks ++ (c' :: t' :: b) :: rest))
    = Err ValueError.
Proof.
  intros Hos c tid st total p0 oks c' t' b rest ctr Hc. intros.
  apply read_reject; try assumption. apply decode_cont_no_flag; assumption.
Qed.

Lemma read_exact_plain c tid st p0 conts ctr :
  (st <= 6)%N -> Forall flag_set conts -> Forall (fun cp => snd cp <> []) conts ->
  (N.of_nat (length (p0 ++ concat (map snd conts))) < 65536)%N ->
  read_pdu open_plain ctr tid (resp_train c tid st p0 conts)
  = Ok (st, p0 ++ concat (map snd conts), [], (ctr + N.of_nat (S (length conts)))%N).
Proof.
  intros Hs Hf Hne Ht.
  pose proof (read_exact_fragmentation seal_plain open_plain open_seal_plain c tid st p0 conts ctr Hs Hf Hne Ht) as H.
  rewrite seal_seq_plain in H. exact H.
Qed.

Lemma ble_frag_sizes8 : forall fs op tid iid data frs,
    8 <= fs -> ble_encode fs op tid iid data = Ok frs -> Forall (fun f => length f <= fs) frs.
Proof. intros fs op tid iid data frs H. apply ble_frag_sizes. lia. Qed.

(* ---------------------------------------------------------------- negotiated size: plain and secure session *)
Lemma ble_session_fits seal open :
  (forall n m, open n (seal n m) = Some m) -> (forall n m, length (seal n m) = length m + 16) ->
  forall (enc : bool) mtu mwwr op tid iid data ctr,
    24 <= att_budget mtu mwwr ->
    (op < 256)%N -> (tid < 256)%N -> (iid < 65536)%N -> (N.of_nat (length data) < 65536)%N ->
    exists ws frs,
      ble_session_write seal enc ctr mtu mwwr op tid iid data = Ok (ws, (ctr + N.of_nat (length ws))%N)
      /\ Forall (fun w => length w <= att_budget mtu mwwr) ws
      /\ open_seq (if enc then open else open_plain) ctr ws = Some frs
      /\ acc_reassemble frs = Some (op, tid, iid, data).
Proof.
  intros Hos Hlen enc mtu mwwr op tid iid data ctr HB H1 H2 H3 Hl.
  unfold ble_session_write, det_fs. destruct enc.
  - destruct (ble_write_ok seal open Hos (att_budget mtu mwwr - 16) op tid iid data ctr) as [ws [frs [E [Ho [Ha [_ Hk]]]]]];
      try assumption; [lia|].
    exists ws, frs. split; [exact E|]. split; [|split; assumption].
    specialize (Hk 16 Hlen). eapply Forall_impl; [|exact Hk]. cbn. intros w Hw. lia.
  - destruct (ble_write_ok seal_plain open_plain open_seal_plain (att_budget mtu mwwr - 0) op tid iid data ctr)
      as [ws [frs [E [Ho [Ha [_ Hk]]]]]]; try assumption; [lia|].
    exists ws, frs. split; [exact E|]. split; [|split; assumption].
    specialize (Hk 0). eapply Forall_impl; [|apply Hk; intros; unfold seal_plain; lia]. cbn. intros w Hw. lia.
Qed.
