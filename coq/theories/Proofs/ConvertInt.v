(* C14, integer / boolean / totality part: lemmas about Model/Convert.v.
   Everything here is exact integer arithmetic (Z). *)
From Coq Require Import List NArith ZArith Bool Lia ZifyN ZifyBool.
From AHK Require Import Lib.Res Model.Convert.
Import ListNotations.
Local Open Scope Z_scope.

(* ------------------------------------------------------------------ *)
(* specification side (pure Z)                                          *)
(* ------------------------------------------------------------------ *)

(* n/s rounded to the nearest integer, ties away from zero (decimal's ROUND_HALF_UP) *)
Definition rhaz (n s : Z) : Z :=
  Z.sgn n * Z.sgn s * ((2 * Z.abs n + Z.abs s) / (2 * Z.abs s)).

Definition clampZ (omin omax : option Z) (v : Z) : Z :=
  let v1 := match omin with Some m => Z.max m v | None => v end in
  match omax with Some M => Z.min M v1 | None => v1 end.

Definition offZ (omin : option Z) : Z := match omin with Some m => m | None => 0 end.

(* min + r * step with r = round-half-up((clamp(v) - min) / step); no (or zero) step: clamp(v) *)
Definition spec_int (omin omax ostep : option Z) (v : Z) : Z :=
  let c := clampZ omin omax v in
  match ostep with
  | Some s => if s =? 0 then c else offZ omin + rhaz (c - offZ omin) s * s
  | None => c
  end.

(* the decimal d denotes the integer z *)
Definition dec_is_Z (d : dec) (z : Z) : Prop :=
  if 0 <=? dexp d then z = scoef d * 10 ^ dexp d else scoef d = z * 10 ^ (- dexp d).

Definition orel (od : option dec) (oz : option Z) : Prop :=
  match od, oz with
  | Some d, Some z => dec_is_Z d z
  | None, None => True
  | _, _ => False
  end.

(* ------------------------------------------------------------------ *)
(* rhaz: nearest multiple, ties away from zero                          *)
(* ------------------------------------------------------------------ *)

Lemma rhaz_core : forall a b, 0 <= a -> 0 < b ->
  let R := (2 * a + b) / (2 * b) in
  0 <= R /\ - b <= 2 * (a - R * b) < b.
Proof.
  intros a b Ha Hb R.
  assert (H := Z.div_mod (2 * a + b) (2 * b) ltac:(lia)).
  assert (H2 := Z.mod_pos_bound (2 * a + b) (2 * b) ltac:(lia)).
  fold R in H.
  assert (0 <= R) by (apply Z.div_pos; lia).
  split; [assumption|]. nia.
Qed.

Lemma rhaz_abs : forall n s, s <> 0 ->
  Z.abs (n - rhaz n s * s) = Z.abs (Z.abs n - (2 * Z.abs n + Z.abs s) / (2 * Z.abs s) * Z.abs s).
Proof.
  intros n s Hs. unfold rhaz.
  set (R := (2 * Z.abs n + Z.abs s) / (2 * Z.abs s)).
  assert (HR0 : n = 0 -> R = 0).
  { intro; subst n. unfold R. simpl Z.abs. rewrite Z.add_0_l. apply Z.div_small. lia. }
  destruct (Z.sgn_spec n) as [[Hn E]|[[Hn E]|[Hn E]]]; rewrite E;
  destruct (Z.sgn_spec s) as [[Hs' E']|[[Hs' E']|[Hs' E']]]; rewrite E'; try lia.
  all: try (rewrite (HR0 ltac:(lia)); lia).
  all: try (rewrite (Z.abs_eq n), (Z.abs_eq s) by lia; f_equal; ring).
  all: try (rewrite (Z.abs_eq n), (Z.abs_neq s) by lia; f_equal; ring).
  all: try (rewrite (Z.abs_neq n), (Z.abs_eq s) by lia; rewrite <- Z.abs_opp; f_equal; ring).
  all: try (rewrite (Z.abs_neq n), (Z.abs_neq s) by lia; rewrite <- Z.abs_opp; f_equal; ring).
Qed.

(* r*s is within half a step of n *)
Lemma rhaz_half : forall n s, s <> 0 -> 2 * Z.abs (n - rhaz n s * s) <= Z.abs s.
Proof.
  intros n s Hs. rewrite rhaz_abs by assumption.
  destruct (rhaz_core (Z.abs n) (Z.abs s) ltac:(lia) ltac:(lia)) as [_ H]. lia.
Qed.

(* ... hence a nearest multiple of s *)
Lemma rhaz_nearest : forall n s k, s <> 0 ->
  Z.abs (n - rhaz n s * s) <= Z.abs (n - k * s).
Proof.
  intros n s k Hs. assert (H := rhaz_half n s Hs).
  destruct (Z.eq_dec k (rhaz n s)) as [->|Hk]; [lia|].
  assert (Z.abs s <= Z.abs ((rhaz n s - k) * s)).
  { rewrite Z.abs_mul. assert (1 <= Z.abs (rhaz n s - k)) by lia. nia. }
  lia.
Qed.

(* an exact tie goes away from zero *)
Lemma rhaz_tie : forall n s, s <> 0 ->
  2 * Z.abs (n - rhaz n s * s) = Z.abs s -> Z.abs n < Z.abs (rhaz n s * s).
Proof.
  intros n s Hs. rewrite rhaz_abs by assumption. intro T.
  destruct (rhaz_core (Z.abs n) (Z.abs s) ltac:(lia) ltac:(lia)) as [HR H].
  set (R := (2 * Z.abs n + Z.abs s) / (2 * Z.abs s)) in *.
  assert (Hlt : Z.abs n < R * Z.abs s) by lia.
  unfold rhaz. fold R. rewrite !Z.abs_mul.
  assert (n <> 0). { intro; subst n. simpl in Hlt. assert (R0 : R = 0) by (unfold R; simpl Z.abs; rewrite Z.add_0_l; apply Z.div_small; lia). rewrite R0 in Hlt. lia. }
  destruct (Z.sgn_spec n) as [[? E]|[[? E]|[? E]]]; try lia;
  destruct (Z.sgn_spec s) as [[? E']|[[? E']|[? E']]]; try lia; rewrite E, E'; simpl Z.abs;
  rewrite (Z.abs_eq R) by assumption; lia.
Qed.

(* the repaired code's integer snapping is exactly off + rhaz * s *)
Lemma snap_int_spec : forall v off s, s <> 0 ->
  snap_int v off s = off + rhaz (v - off) s * s.
Proof.
  intros v off s Hs. unfold snap_int, rhaz.
  set (d := v - off). set (a := Z.abs d). set (b := Z.abs s).
  assert (Hb : 0 < b) by (unfold b; lia). assert (Ha : 0 <= a) by (unfold a; lia).
  assert (HR : (2 * a + b) / (2 * b) = if b <=? 2 * (a mod b) then a / b + 1 else a / b).
  { assert (Hm := Z.mod_pos_bound a b Hb). assert (Hd := Z.div_mod a b ltac:(lia)).
    destruct (b <=? 2 * (a mod b)) eqn:E.
    - symmetry. apply Z.div_unique with (r := 2 * (a mod b) - b); [left; lia|]. nia.
    - symmetry. apply Z.div_unique with (r := 2 * (a mod b) + b); [left; lia|]. nia. }
  rewrite HR. set (R := if b <=? 2 * (a mod b) then a / b + 1 else a / b).
  f_equal.
  destruct (0 <=? d) eqn:E.
  - destruct (Z.eq_dec d 0) as [E0|E0].
    + assert (a = 0) by (unfold a; lia). assert (R = 0).
      { unfold R. rewrite H. rewrite Z.mod_0_l, Z.div_0_l by lia. destruct (b <=? 2 * 0) eqn:E2; lia. }
      rewrite H0. rewrite E0. simpl. lia.
    + rewrite (Z.sgn_pos d) by lia.
      destruct (Z.sgn_spec s) as [[? E']|[[? E']|[? E']]]; try lia; rewrite E'; unfold b; lia.
  - rewrite (Z.sgn_neg d) by lia.
    destruct (Z.sgn_spec s) as [[? E']|[[? E']|[? E']]]; try lia; rewrite E'; unfold b; lia.
Qed.

(* ------------------------------------------------------------------ *)
(* integer-valued decimals                                              *)
(* ------------------------------------------------------------------ *)

Lemma pow10_pos : forall k, (0 < pow10 k)%N.
Proof. intro k. unfold pow10. apply N.neq_0_lt_0. apply N.pow_nonzero. discriminate. Qed.

Lemma pow10_Z : forall e, 0 <= e -> Z.of_N (pow10 (Z.to_N e)) = 10 ^ e.
Proof. intros e He. unfold pow10. rewrite N2Z.inj_pow. rewrite Z2N.id by assumption. reflexivity. Qed.

Lemma p10_pos : forall e, 0 <= e -> 0 < 10 ^ e.
Proof. intros. apply Z.pow_pos_nonneg; lia. Qed.

Lemma round_drop_exact : forall m c k, (c mod pow10 k = 0)%N -> round_drop m c k = (c / pow10 k)%N.
Proof.
  intros m c k H. unfold round_drop. rewrite H. assert (P := pow10_pos k).
  destruct m; simpl.
  - destruct (pow10 k <=? 0)%N eqn:E; [lia|reflexivity].
  - destruct (pow10 k <? 0)%N eqn:E; [lia|]. destruct (pow10 k =? 0)%N eqn:E2; [lia|]. reflexivity.
Qed.

Lemma isZ_coef_div : forall d z, dexp d < 0 -> dec_is_Z d z ->
  Z.of_N (dcoef d) = Z.abs z * 10 ^ (- dexp d) /\ (dneg d = true -> z <= 0) /\ (dneg d = false -> 0 <= z).
Proof.
  intros d z He H. unfold dec_is_Z in H. destruct (0 <=? dexp d) eqn:E; [lia|].
  assert (P := p10_pos (- dexp d) ltac:(lia)). unfold scoef in H.
  destruct (dneg d); (split; [nia|split; intro; try discriminate; nia]).
Qed.

Lemma isZ_div_exact : forall d z, dexp d < 0 -> dec_is_Z d z ->
  (dcoef d mod pow10 (Z.to_N (- dexp d)) = 0)%N /\
  Z.of_N (dcoef d / pow10 (Z.to_N (- dexp d))) = Z.abs z.
Proof.
  intros d z He H. destruct (isZ_coef_div d z He H) as [Hc _].
  assert (P := p10_pos (- dexp d) ltac:(lia)).
  split.
  - apply N2Z.inj. rewrite N2Z.inj_mod. rewrite pow10_Z by lia. rewrite Hc. simpl. apply Z.mod_mul. lia.
  - rewrite N2Z.inj_div. rewrite pow10_Z by lia. rewrite Hc. apply Z.div_mul. lia.
Qed.

Lemma to_Z_of_isZ : forall d z, dec_is_Z d z -> dec_to_Z d = z.
Proof.
  intros d z H. unfold dec_to_Z. destruct (0 <=? dexp d) eqn:E.
  - unfold dec_is_Z in H. rewrite E in H. unfold scoef in H. destruct (dneg d); lia.
  - destruct (isZ_div_exact d z ltac:(lia) H) as [_ Hq]. rewrite Hq.
    destruct (isZ_coef_div d z ltac:(lia) H) as [_ [Hn Hp]].
    destruct (dneg d); [specialize (Hn eq_refl)|specialize (Hp eq_refl)]; lia.
Qed.

Lemma to_integral_isZ : forall m d z, dec_is_Z d z -> dec_is_Z (to_integral m d) z.
Proof.
  intros m d z H. unfold to_integral. destruct (0 <=? dexp d) eqn:E; [assumption|].
  destruct (isZ_div_exact d z ltac:(lia) H) as [Hm Hq].
  destruct (isZ_coef_div d z ltac:(lia) H) as [_ [Hn Hp]].
  rewrite round_drop_exact by assumption.
  unfold dec_is_Z. simpl. unfold scoef. simpl. rewrite Hq.
  destruct (dneg d); [specialize (Hn eq_refl)|specialize (Hp eq_refl)]; lia.
Qed.

(* the aligned signed coefficients of integer-valued decimals are a common
   positive multiple of their values *)
Lemma sval_isZ : forall d z e, dec_is_Z d z -> e <= dexp d ->
  sval d e * 10 ^ (Z.max 0 e) = z * 10 ^ (Z.max 0 (- e)).
Proof.
  intros d z e H He. unfold sval. unfold dec_is_Z in H.
  destruct (Z_le_gt_dec 0 e) as [Pe|Ne].
  - rewrite (Z.max_r 0 e), (Z.max_l 0 (- e)) by lia. rewrite Z.pow_0_r, Z.mul_1_r.
    destruct (0 <=? dexp d) eqn:E; [|lia]. subst z.
    rewrite <- Z.mul_assoc. rewrite <- Z.pow_add_r by lia. f_equal; try f_equal; lia.
  - rewrite (Z.max_l 0 e), (Z.max_r 0 (- e)) by lia. rewrite Z.pow_0_r, Z.mul_1_r.
    destruct (0 <=? dexp d) eqn:E.
    + subst z. rewrite <- Z.mul_assoc. rewrite <- Z.pow_add_r by lia. f_equal; try f_equal; lia.
    + rewrite H. rewrite <- Z.mul_assoc. rewrite <- Z.pow_add_r by lia. f_equal; try f_equal; lia.
Qed.

Lemma cmp_scale : forall x y za zb P Q, 0 < P -> 0 < Q ->
  x * P = za * Q -> y * P = zb * Q -> (x ?= y) = (za ?= zb).
Proof.
  intros x y za zb P Q HP HQ Hx Hy.
  rewrite (Zmult_compare_compat_r x y P) by lia.
  rewrite (Zmult_compare_compat_r za zb Q) by lia.
  rewrite Hx, Hy. reflexivity.
Qed.

Lemma dcompare_isZ : forall a b za zb, dec_is_Z a za -> dec_is_Z b zb ->
  dcompare a b = (za ?= zb).
Proof.
  intros a b za zb Ha Hb. unfold dcompare.
  set (e := Z.min (dexp a) (dexp b)).
  apply cmp_scale with (P := 10 ^ Z.max 0 e) (Q := 10 ^ Z.max 0 (- e)).
  - apply p10_pos; lia.
  - apply p10_pos; lia.
  - apply sval_isZ; [assumption|unfold e; lia].
  - apply sval_isZ; [assumption|unfold e; lia].
Qed.

Lemma py_max_isZ : forall a b za zb, dec_is_Z a za -> dec_is_Z b zb ->
  dec_is_Z (py_max a b) (Z.max za zb).
Proof.
  intros a b za zb Ha Hb. unfold py_max. rewrite (dcompare_isZ b a zb za Hb Ha).
  destruct (zb ?= za) eqn:E.
  - apply Z.compare_eq in E. subst. rewrite Z.max_id. assumption.
  - rewrite Z.compare_lt_iff in E. rewrite Z.max_l by lia. assumption.
  - rewrite Z.compare_gt_iff in E. rewrite Z.max_r by lia. assumption.
Qed.

Lemma py_min_isZ : forall a b za zb, dec_is_Z a za -> dec_is_Z b zb ->
  dec_is_Z (py_min a b) (Z.min za zb).
Proof.
  intros a b za zb Ha Hb. unfold py_min. rewrite (dcompare_isZ b a zb za Hb Ha).
  destruct (zb ?= za) eqn:E.
  - apply Z.compare_eq in E. subst. rewrite Z.min_id. assumption.
  - rewrite Z.compare_lt_iff in E. rewrite Z.min_r by lia. assumption.
  - rewrite Z.compare_gt_iff in E. rewrite Z.min_l by lia. assumption.
Qed.

Lemma is_integral_isZ : forall m d z, dec_is_Z d z -> is_integral m d = true.
Proof.
  intros m d z H. unfold is_integral.
  rewrite (dcompare_isZ d (to_integral m d) z z H (to_integral_isZ m d z H)).
  rewrite Z.compare_refl. reflexivity.
Qed.

Lemma dec_of_Z_isZ : forall z, dec_is_Z (dec_of_Z z) z.
Proof.
  intro z. unfold dec_is_Z, dec_of_Z, scoef. simpl. rewrite N2Z.inj_abs_N.
  destruct (z <? 0) eqn:E; lia.
Qed.

Lemma dzero_isZ : dec_is_Z dzero 0.
Proof. reflexivity. Qed.

Lemma isZ_zero_coef : forall d z, dec_is_Z d z -> ((dcoef d =? 0)%N = (z =? 0)).
Proof.
  intros d z H. unfold dec_is_Z in H. unfold scoef in H.
  destruct (0 <=? dexp d) eqn:E.
  - assert (P := p10_pos (dexp d) ltac:(lia)). destruct (dneg d); destruct (dcoef d =? 0)%N eqn:E1; destruct (z =? 0) eqn:E2; try reflexivity; nia.
  - assert (P := p10_pos (- dexp d) ltac:(lia)). destruct (dneg d); destruct (dcoef d =? 0)%N eqn:E1; destruct (z =? 0) eqn:E2; try reflexivity; nia.
Qed.

Lemma clamp_isZ : forall omin omax ozmin ozmax v zv,
  orel omin ozmin -> orel omax ozmax -> dec_is_Z v zv ->
  dec_is_Z (clamp omin omax v) (clampZ ozmin ozmax zv).
Proof.
  intros omin omax ozmin ozmax v zv Hmin Hmax Hv. unfold clamp, clampZ.
  destruct omin as [m|], ozmin as [zm|]; simpl in Hmin; try contradiction;
  destruct omax as [M|], ozmax as [zM|]; simpl in Hmax; try contradiction;
  repeat (first [apply py_min_isZ | apply py_max_isZ]); assumption.
Qed.

(* ------------------------------------------------------------------ *)
(* main lemmas                                                          *)
(* ------------------------------------------------------------------ *)

Lemma int_exact_lemma : forall f omin omax ostep ozmin ozmax ozstep s v zv,
  is_integer_fmt f = true ->
  orel omin ozmin -> orel omax ozmax -> orel ostep ozstep -> dec_is_Z v zv ->
  ideal_convert f omin omax ostep s (RFin v) = Ok (VInt (spec_int ozmin ozmax ozstep zv)).
Proof.
  intros f omin omax ostep ozmin ozmax ozstep str v zv Hf Hmin Hmax Hstep Hv.
  assert (Hc := clamp_isZ omin omax ozmin ozmax v zv Hmin Hmax Hv).
  assert (Hcc : ideal_convert f omin omax ostep str (RFin v) = ideal_number f omin omax ostep (RFin v))
    by (destruct f; try discriminate; reflexivity).
  rewrite Hcc. unfold ideal_number, spec_int. rewrite Hf.
  set (c := clamp omin omax v) in *. set (zc := clampZ ozmin ozmax zv) in *.
  assert (Fin : forall d z, dec_is_Z d z -> dec_to_Z (to_integral HalfEven d) = z).
  { intros d z H. apply to_Z_of_isZ. apply to_integral_isZ. assumption. }
  destruct ostep as [st|], ozstep as [zs|]; simpl in Hstep; try contradiction.
  - rewrite (isZ_zero_coef st zs Hstep). destruct (zs =? 0) eqn:E.
    + simpl. rewrite (Fin c zc Hc). reflexivity.
    + unfold ideal_snap. rewrite Hf.
      assert (Hoff : dec_is_Z (match omin with Some m => m | None => dzero end) (offZ ozmin)).
      { destruct omin, ozmin; simpl in Hmin; try contradiction; [assumption|apply dzero_isZ]. }
      rewrite (is_integral_isZ HalfUp c zc Hc), (is_integral_isZ HalfUp _ _ Hoff), (is_integral_isZ HalfUp st zs Hstep).
      simpl. rewrite (to_Z_of_isZ c zc Hc), (to_Z_of_isZ _ _ Hoff), (to_Z_of_isZ st zs Hstep).
      rewrite (Fin _ _ (dec_of_Z_isZ _)). rewrite snap_int_spec by lia. reflexivity.
  - simpl. rewrite (Fin c zc Hc). reflexivity.
Qed.

Lemma spec_int_nearest : forall omin omax s v k, s <> 0 ->
  Z.abs (clampZ omin omax v - spec_int omin omax (Some s) v)
  <= Z.abs (clampZ omin omax v - (offZ omin + k * s)).
Proof.
  intros omin omax s v k Hs. unfold spec_int. destruct (s =? 0) eqn:E; [lia|].
  set (c := clampZ omin omax v). set (o := offZ omin).
  replace (c - (o + rhaz (c - o) s * s)) with ((c - o) - rhaz (c - o) s * s) by ring.
  replace (c - (o + k * s)) with ((c - o) - k * s) by ring.
  apply rhaz_nearest. lia.
Qed.

Lemma spec_int_on_grid : forall omin omax s v, exists r,
  spec_int omin omax (Some s) v = (if s =? 0 then clampZ omin omax v else offZ omin + r * s).
Proof.
  intros. unfold spec_int. exists (rhaz (clampZ omin omax v - offZ omin) s). reflexivity.
Qed.

Lemma spec_int_in_range : forall zmin zmax ostep v,
  zmin <= zmax ->
  (match ostep with Some s => s <> 0 -> exists K, zmax - zmin = K * s | None => True end) ->
  zmin <= spec_int (Some zmin) (Some zmax) ostep v <= zmax.
Proof.
  intros zmin zmax ostep v Hle Hgrid. unfold spec_int.
  set (c := clampZ (Some zmin) (Some zmax) v).
  assert (Hc : zmin <= c <= zmax) by (unfold c, clampZ; lia).
  destruct ostep as [s|]; [|assumption].
  destruct (s =? 0) eqn:E; [assumption|].
  assert (Hs : s <> 0) by lia. destruct (Hgrid Hs) as [K HK]. simpl offZ.
  set (n := c - zmin). assert (Hn : 0 <= n <= zmax - zmin) by (unfold n; lia).
  unfold rhaz. set (b := Z.abs s). assert (Hb : 0 < b) by (unfold b; lia).
  rewrite (Z.abs_eq n) by lia.
  set (R := (2 * n + b) / (2 * b)).
  assert (HR0 : 0 <= R) by (apply Z.div_pos; lia).
  assert (HKb : exists K', 0 <= K' /\ zmax - zmin = K' * b).
  { exists (Z.abs K). split; [lia|]. unfold b. rewrite <- Z.abs_mul. lia. }
  destruct HKb as [K' [HK0 HK']].
  assert (HRK : R <= K').
  { assert (R < K' + 1); [|lia]. apply Z.div_lt_upper_bound; [lia|]. nia. }
  assert (Hss : Z.sgn s * s = b) by (unfold b; destruct (Z.sgn_spec s) as [[? E']|[[? E']|[? E']]]; rewrite E'; lia).
  destruct (Z.eq_dec n 0) as [N0|N0].
  - rewrite N0. simpl. lia.
  - rewrite (Z.sgn_pos n) by lia.
    replace (1 * Z.sgn s * R * s) with (R * (Z.sgn s * s)) by ring. rewrite Hss. nia.
Qed.

Lemma convert_total_lemma : forall f omin omax ostep s r,
  (exists v, ideal_convert f omin omax ostep s r = Ok v) \/
  ideal_convert f omin omax ostep s r = Err FormatError.
Proof.
  intros f omin omax ostep s r.
  assert (N : (exists v, ideal_number f omin omax ostep r = Ok v) \/
              ideal_number f omin omax ostep r = Err FormatError).
  { unfold ideal_number. destruct r as [v| |]; [|right; reflexivity..].
    set (c := clamp omin omax v).
    assert (S : forall st, (dcoef st =? 0)%N = false -> exists v3, ideal_snap f omin c st = Ok v3).
    { intros st Hst. unfold ideal_snap.
      destruct (is_integer_fmt f && is_integral HalfUp c && _ && is_integral HalfUp st); [eexists; reflexivity|].
      unfold snap_dec, ddiv. rewrite Hst.
      destruct (dcoef (dsub ctx6 c _) =? 0)%N; eexists; reflexivity. }
    left. destruct ostep as [st|].
    - destruct (dcoef st =? 0)%N eqn:E.
      + simpl. destruct (is_integer_fmt f); eexists; reflexivity.
      + destruct (S st E) as [v3 ->]. simpl. destruct (is_integer_fmt f); eexists; reflexivity.
    - simpl. destruct (is_integer_fmt f); eexists; reflexivity. }
  destruct f; try exact N.
  simpl. destruct (strtobool s) as [b|]; [left; eexists; reflexivity|right; reflexivity].
Qed.

Lemma reject_lemma : forall f omin omax ostep s r,
  f <> FBool -> (r = RReject \/ r = RNonFinite) ->
  ideal_convert f omin omax ostep s r = Err FormatError.
Proof.
  intros f omin omax ostep s r Hf Hr.
  destruct f; try congruence; destruct Hr as [-> | ->]; reflexivity.
Qed.

Lemma bool_lemma : forall omin omax ostep s r,
  ideal_convert FBool omin omax ostep s r =
  match strtobool s with Some true => Ok (VInt 1) | Some false => Ok (VInt 0) | None => Err FormatError end.
Proof. intros. simpl. destruct (strtobool s) as [[|]|]; reflexivity. Qed.

Lemma int_is_int_lemma : forall f omin omax ostep s r v,
  is_integer_fmt f = true -> ideal_convert f omin omax ostep s r = Ok v -> exists z, v = VInt z.
Proof.
  intros f omin omax ostep s r v Hf H.
  assert (Hcc : ideal_convert f omin omax ostep s r = ideal_number f omin omax ostep r)
    by (destruct f; try discriminate; reflexivity).
  rewrite Hcc in H. unfold ideal_number in H. destruct r; try discriminate.
  rewrite Hf in H.
  destruct (match ostep with Some s0 => _ | None => _ end); simpl in H; try discriminate.
  injection H as <-. eexists; reflexivity.
Qed.

Lemma float_is_dec_lemma : forall omin omax ostep s r v,
  ideal_convert FFloat omin omax ostep s r = Ok v -> exists d, v = VDec d.
Proof.
  intros omin omax ostep s r v H. simpl in H. unfold ideal_number in H. destruct r; try discriminate.
  simpl in H. destruct (match ostep with Some s0 => _ | None => _ end); simpl in H; try discriminate.
  injection H as <-. eexists; reflexivity.
Qed.

(* the truth words, spelled out *)
Lemma strtobool_words :
  map strtobool [[121]; [89; 69; 83]; [84; 114; 117; 101]; [79; 110]; [49]; [110]; [78; 79]; [70; 97; 108; 115; 101]; [111; 102; 102]; [48]; [50]; []; [49; 46; 48]]%N
  = [Some true; Some true; Some true; Some true; Some true; Some false; Some false; Some false; Some false; Some false; None; None; None].
Proof. vm_compute. reflexivity. Qed.
