(* C06 - the BLE machine (EncryptionKey/DecryptionKey under
   _async_request_under_lock): fresh nonces, in-order acceptance, and "a failed
   or cancelled request kills the key epoch" (nothing more is even sealed). *)
From Coq Require Import List Arith Bool Lia PeanoNat.
From AHK Require Import Model.Counters Proofs.CountersLib.
Import ListNotations.

Definition binv (ep : nat) (sess : option (nat * nat)) (seal acc : list nid) : Prop :=
  (forall x, In x seal ->
             snd (fst x) = C2A /\ fst (fst x) <= ep
             /\ (fst (fst x) = ep -> forall enc dec, sess = Some (enc, dec) -> snd x < enc))
  /\ NoDup seal
  /\ (forall x, In x acc -> fst (fst x) <= ep)
  /\ (forall c, exists m, under c acc = pref c m
                          /\ (c = (ep, A2C) -> forall enc dec, sess = Some (enc, dec) -> m = dec)).

Definition ble_inv (s : ble) : Prop := binv (b_ep s) (b_sess s) (l_seal (b_log s)) (l_acc (b_log s)).

Lemma binv_close : forall ep sess seal acc, binv ep sess seal acc -> binv ep None seal acc.
Proof.
  intros ep sess seal acc (H1 & H2 & H3 & H4). split; [|split; [|split]]; try assumption.
  - intros x I. destruct (H1 x I) as (A & B & C). split; [exact A|split; [exact B|]]. discriminate.
  - intro c. destruct (H4 c) as (m & Hm & _). exists m. split; [exact Hm|discriminate].
Qed.

Lemma binv_accept : forall ep enc dec seal acc,
    binv ep (Some (enc, dec)) seal acc ->
    binv ep (Some (enc, S dec)) seal (acc ++ [((ep, A2C), dec)]).
Proof.
  intros ep enc dec seal acc (H1 & H2 & H3 & H4). split; [|split; [|split]].
  - intros x I. destruct (H1 x I) as (A & B & C). split; [exact A|split; [exact B|]].
    intros E enc' dec' Q. injection Q as Q1 Q2. specialize (C E enc dec eq_refl). lia.
  - exact H2.
  - intros x I. apply in_app_iff in I. destruct I as [I|[<-|[]]]; [apply H3; exact I|cbn; lia].
  - intro c. destruct (H4 c) as (m & Hm & Hc).
    destruct (chan_eqb c (ep, A2C)) eqn:Q.
    + apply chan_eqb_eq in Q. subst c. exists (S dec). split.
      * rewrite under_app, Hm, under_one_same, (Hc eq_refl enc dec eq_refl), pref_snoc. reflexivity.
      * intros _ enc' dec' E. inversion E. reflexivity.
    + exists m. split.
      * rewrite under_app, Hm, under_one_other; [apply app_nil_r|].
        intro E. subst c. rewrite chan_eqb_refl in Q. discriminate.
      * intro E. subst c. rewrite chan_eqb_refl in Q. discriminate.
Qed.

Lemma binv_send : forall ep enc dec seal acc k,
    binv ep (Some (enc, dec)) seal acc ->
    binv ep (Some (enc + k, dec)) (seal ++ nids (ep, C2A) enc k) acc.
Proof.
  intros ep enc dec seal acc k (H1 & H2 & H3 & H4). split; [|split; [|split]].
  - intros x I. apply in_app_iff in I. destruct I as [I|I].
    + destruct (H1 x I) as (A & B & C). split; [exact A|split; [exact B|]].
      intros E enc' dec' Q. injection Q as Q1 Q2. specialize (C E enc dec eq_refl). lia.
    + apply nids_in in I. destruct I as (E & B). destruct x as [[e d] n]. cbn in *. inversion E. subst.
      split; [reflexivity|split; [lia|]]. intros _ enc' dec' Q. inversion Q. lia.
  - apply NoDup_app_intro; [exact H2|apply nids_nodup|].
    intros x I J. apply nids_in in J. destruct J as (E & B).
    destruct (H1 x I) as (_ & _ & C). rewrite E in C. cbn in C. specialize (C eq_refl enc dec eq_refl). lia.
  - exact H3.
  - intro c. destruct (H4 c) as (m & Hm & Hc). exists m. split; [exact Hm|].
    intros E enc' dec' Q. inversion Q. subst. apply (Hc eq_refl enc dec'). reflexivity.
Qed.

Lemma binv_reconnect : forall ep seal acc, binv ep None seal acc -> binv (S ep) (Some (0, 0)) seal acc.
Proof.
  intros ep seal acc (H1 & H2 & H3 & H4). split; [|split; [|split]].
  - intros x I. destruct (H1 x I) as (A & B & C). split; [exact A|split; [lia|]]. intro E. lia.
  - exact H2.
  - intros x I. specialize (H3 x I). lia.
  - intro c. destruct (chan_eqb c (S ep, A2C)) eqn:Q.
    + apply chan_eqb_eq in Q. subst c. exists 0. split.
      * rewrite pref_0. apply under_none. intros x I E. specialize (H3 x I). rewrite E in H3. cbn in H3. lia.
      * intros _ enc dec E. inversion E. reflexivity.
    + destruct (H4 c) as (m & Hm & _). exists m. split; [exact Hm|].
      intro E. subst c. rewrite chan_eqb_refl in Q. discriminate.
Qed.

Lemma ble_inv_drain : forall w ep sess srv nreq L,
    binv ep sess (l_seal L) (l_acc L) -> ble_inv (ble_drain ep sess srv nreq L w).
Proof.
  induction w as [|[[[id n] cont] wf] r IH]; intros ep sess srv nreq L H; cbn [ble_drain].
  - exact H.
  - destruct sess as [[enc dec]|].
    + destruct (match wf with Some j => if Nat.ltb j (ble_frags n) then Some j else None | None => None end).
      * apply IH. cbn -[nids ble_frags]. eapply binv_close. apply binv_send. exact H.
      * unfold ble_inv. cbn -[nids ble_frags]. apply binv_send. exact H.
    + apply IH. exact H.
Qed.

Lemma ble_inv_deliver : forall s f, ble_inv s -> ble_inv (ble_deliver s f).
Proof.
  intros s f H. unfold ble_deliver.
  destruct (b_infl s) as [[id lft]|]; [|exact H].
  destruct (b_sess s) as [[enc dec]|] eqn:Q; [|exact H].
  unfold ble_inv in H. rewrite Q in H.
  destruct (opens _ f).
  - destruct lft as [|[|l']].
    + apply ble_inv_drain. cbn. apply binv_accept. exact H.
    + apply ble_inv_drain. cbn. apply binv_accept. exact H.
    + unfold ble_inv. cbn. apply binv_accept. exact H.
  - apply ble_inv_drain. cbn. eapply binv_close. exact H.
Qed.

Lemma ble_inv_deliver_at : forall s i, ble_inv s -> ble_inv (ble_deliver_at s i).
Proof.
  intros s i H. unfold ble_deliver_at. destruct (b_infl s) eqn:Q; [|exact H].
  apply ble_inv_deliver. exact H.
Qed.

Lemma ble_inv_abort : forall s c, ble_inv s -> ble_inv (ble_abort s c).
Proof.
  intros s c H. unfold ble_abort. destruct (b_infl s) as [[id lft]|]; [|exact H].
  apply ble_inv_drain. cbn. eapply binv_close. exact H.
Qed.

Lemma ble_inv_step : forall s e, ble_inv s -> ble_inv (ble_step s e).
Proof.
  intros s e H. destruct e; cbn [ble_step]; try exact H; try (apply ble_inv_deliver_at; exact H);
    try (apply ble_inv_abort; exact H).
  - unfold ble_send. destruct (b_infl s); [exact H|]. apply ble_inv_drain. exact H.
  - unfold ble_send. destruct (b_infl s); [exact H|]. apply ble_inv_drain. exact H.
  - destruct (b_infl s); [|exact H]. destruct (b_ep s) eqn:E; [exact H|].
    apply ble_inv_deliver. exact H.
  - destruct (b_infl s); [|exact H]. apply ble_inv_deliver. exact H.
  - destruct (b_infl s); [apply ble_inv_abort; exact H|].
    unfold ble_inv. cbn. eapply binv_close. exact H.
  - destruct (b_sess s) eqn:Q; [exact H|]. unfold ble_inv in *. cbn. rewrite Q in H.
    apply binv_reconnect. exact H.
  - destruct (b_infl s); [exact H|]. unfold ble_inv in *. cbn.
    apply binv_reconnect. eapply binv_close. exact H.
Qed.

Lemma ble_inv_init : ble_inv ble_init.
Proof.
  unfold ble_inv, binv. cbn. repeat split; try contradiction; try constructor.
  intro c. exists 0. split; [reflexivity|]. intros _ enc dec E. inversion E. reflexivity.
Qed.

Lemma ble_inv_run : forall h s, ble_inv s -> ble_inv (ble_run s h).
Proof.
  induction h as [|e h IH]; intros s H; [exact H|]. cbn. apply IH. apply ble_inv_step. exact H.
Qed.

Lemma ble_nonces_injective_l : forall h, NoDup (l_seal (b_log (ble_run ble_init h))).
Proof. intro h. destruct (ble_inv_run h _ ble_inv_init) as (_ & H & _). exact H. Qed.

Lemma ble_accepted_prefix_l : forall h c, exists m, under c (l_acc (b_log (ble_run ble_init h))) = pref c m.
Proof.
  intros h c. destruct (ble_inv_run h _ ble_inv_init) as (_ & _ & _ & H4).
  destruct (H4 c) as (m & Hm & _). exists m. exact Hm.
Qed.

(* ------------------------------------------------ a failure kills the epoch *)
Definition lfrozen (e : nat) (L L' : logs) : Prop :=
  under_ep e (l_seal L') = under_ep e (l_seal L)
  /\ under_ep e (l_wire L') = under_ep e (l_wire L)
  /\ under_ep_o e (l_open L') = under_ep_o e (l_open L)
  /\ under_ep e (l_acc L') = under_ep e (l_acc L).

Lemma lfrozen_refl : forall e L, lfrozen e L L.
Proof. intros. repeat split. Qed.

Lemma lfrozen_trans : forall e a b c, lfrozen e a b -> lfrozen e b c -> lfrozen e a c.
Proof.
  intros e a b c (A1 & A2 & A3 & A4) (B1 & B2 & B3 & B4). repeat split; etransitivity; eassumption.
Qed.

Lemma lfrozen_out : forall e L xs, lfrozen e L (add_out xs L).
Proof. intros. repeat split. Qed.

Lemma under_ep_app_nids_other : forall e l e' d n k, e' <> e -> under_ep e (l ++ nids (e', d) n k) = under_ep e l.
Proof.
  intros. unfold under_ep. rewrite filter_app, (filter_none _ _ (nids _ _ _)); [apply app_nil_r|].
  intros x I. apply nids_in in I. destruct I as (E & _). destruct x as [[e0 d0] n0]. cbn in *. inversion E. subst.
  apply Nat.eqb_neq. assumption.
Qed.

Lemma under_ep_snoc_other' : forall e l (x : nid), fst (fst x) <> e -> under_ep e (l ++ [x]) = under_ep e l.
Proof. intros. unfold under_ep. apply filter_snoc_false. apply Nat.eqb_neq. assumption. Qed.

Lemma under_ep_o_snoc_other' : forall e l (x : nid * bool),
    fst (fst (fst x)) <> e -> under_ep_o e (l ++ [x]) = under_ep_o e l.
Proof. intros. unfold under_ep_o. apply filter_snoc_false. apply Nat.eqb_neq. assumption. Qed.

Definition ble_dead (s : ble) (e : nat) : Prop := e < b_ep s \/ (e = b_ep s /\ b_sess s = None).

(* starting waiting requests cannot touch a dead epoch *)
Lemma under_ep_app_other : forall e l b, (forall x : nid, In x b -> fst (fst x) <> e) -> under_ep e (l ++ b) = under_ep e l.
Proof.
  intros e l b H. unfold under_ep. rewrite filter_app, (filter_none _ _ b); [apply app_nil_r|].
  intros x I. apply Nat.eqb_neq. apply H. exact I.
Qed.

Lemma firstn_In' : forall A (l : list A) j x, In x (firstn j l) -> In x l.
Proof.
  intros A l. induction l as [|a r IH]; intros [|j] x I; cbn in I; try contradiction.
  destruct I as [<-|I]; [left; reflexivity|right; exact (IH j x I)].
Qed.

Lemma nids_ep : forall e d n k x, In x (nids (e, d) n k) -> fst (fst x) = e.
Proof. intros e d n k x I. apply nids_in in I. destruct I as (E & _). destruct x as [[e0 d0] n0]. cbn in *. congruence. Qed.

Lemma ble_dead_drain : forall w ep sess srv nreq L e,
    (e < ep \/ (e = ep /\ sess = None)) ->
    let s' := ble_drain ep sess srv nreq L w in
    ble_dead s' e /\ lfrozen e L (b_log s').
Proof.
  induction w as [|[[[id n] cont] wf] r IH]; intros ep sess srv nreq L e D; cbn [ble_drain].
  - split; [exact D|apply lfrozen_refl].
  - destruct sess as [[enc dec]|].
    + destruct D as [D|[_ D]]; [|discriminate].
      destruct (match wf with Some j => if Nat.ltb j (ble_frags n) then Some j else None | None => None end) as [j|].
      * destruct (IH ep None srv nreq
                    (add_out [(ep, id, RFail)] (add_wire (firstn j (nids (ep, C2A) enc (ble_frags n)))
                                                         (add_seal (nids (ep, C2A) enc (ble_frags n)) L))) e (or_introl D)) as (A & B).
        split; [exact A|]. eapply lfrozen_trans; [|exact B].
        unfold lfrozen. cbn -[under_ep under_ep_o nids ble_frags firstn].
        rewrite !under_ep_app_other; [repeat split| |].
        -- intros x I. apply firstn_In' in I. apply nids_ep in I. lia.
        -- intros x I. apply nids_ep in I. lia.
      * split; [left; exact D|]. unfold lfrozen. cbn -[under_ep under_ep_o nids ble_frags].
        rewrite !under_ep_app_nids_other by lia. repeat split.
    + destruct (IH ep None srv nreq (add_out [(ep, id, RFail)] L) e D) as (A & B).
      split; [exact A|]. eapply lfrozen_trans; [apply lfrozen_out|exact B].
Qed.

Lemma ble_dead_deliver : forall s f e, ble_dead s e -> ble_dead (ble_deliver s f) e /\ lfrozen e (b_log s) (b_log (ble_deliver s f)).
Proof.
  intros s f e D. unfold ble_deliver.
  destruct (b_infl s) as [[id lft]|]; [|split; [exact D|apply lfrozen_refl]].
  destruct (b_sess s) as [[enc dec]|] eqn:Q; [|split; [exact D|apply lfrozen_refl]].
  destruct D as [D|[_ D]]; [|congruence].
  assert (N : b_ep s <> e) by lia.
  assert (FA : lfrozen e (b_log s) (add_acc [((b_ep s, A2C), dec)] (add_open [(((b_ep s, A2C), dec), true)] (b_log s)))).
  { unfold lfrozen. cbn -[under_ep under_ep_o].
    rewrite under_ep_snoc_other', under_ep_o_snoc_other' by exact N. repeat split. }
  destruct (opens _ f).
  - destruct lft as [|[|l']].
    + destruct (ble_dead_drain (b_wait s) (b_ep s) (Some (enc, S dec)) (b_srv s) (b_nreq s)
                  (add_out [(b_ep s, id, ROk)] (add_acc [((b_ep s, A2C), dec)] (add_open [(((b_ep s, A2C), dec), true)] (b_log s))))
                  e (or_introl D)) as (A & B).
      split; [exact A|]. eapply lfrozen_trans; [exact FA|]. eapply lfrozen_trans; [apply lfrozen_out|exact B].
    + destruct (ble_dead_drain (b_wait s) (b_ep s) (Some (enc, S dec)) (b_srv s) (b_nreq s)
                  (add_out [(b_ep s, id, ROk)] (add_acc [((b_ep s, A2C), dec)] (add_open [(((b_ep s, A2C), dec), true)] (b_log s))))
                  e (or_introl D)) as (A & B).
      split; [exact A|]. eapply lfrozen_trans; [exact FA|]. eapply lfrozen_trans; [apply lfrozen_out|exact B].
    + split; [left; exact D|exact FA].
  - destruct (ble_dead_drain (b_wait s) (b_ep s) None (b_srv s) (b_nreq s)
                (add_out [(b_ep s, id, RFail)] (add_open [(((b_ep s, A2C), dec), false)] (b_log s)))
                e (or_introl D)) as (A & B).
    split; [exact A|]. eapply lfrozen_trans; [|exact B].
    unfold lfrozen. cbn -[under_ep under_ep_o]. rewrite under_ep_o_snoc_other' by exact N. repeat split.
Qed.

Lemma ble_dead_abort : forall s c e, ble_dead s e -> ble_dead (ble_abort s c) e /\ lfrozen e (b_log s) (b_log (ble_abort s c)).
Proof.
  intros s c e D. unfold ble_abort. destruct (b_infl s) as [[id lft]|]; [|split; [exact D|apply lfrozen_refl]].
  assert (D' : e < b_ep s \/ (e = b_ep s /\ @None (nat * nat) = None)).
  { destruct D as [D|[D _]]; [left; exact D|right; split; [exact D|reflexivity]]. }
  destruct (ble_dead_drain (b_wait s) (b_ep s) None (b_srv s) (b_nreq s)
              (add_out [(b_ep s, id, c)] (b_log s)) e D') as (A & B).
  split; [exact A|]. eapply lfrozen_trans; [apply lfrozen_out|exact B].
Qed.

Lemma ble_dead_step : forall s ev e, ble_dead s e -> ble_dead (ble_step s ev) e /\ lfrozen e (b_log s) (b_log (ble_step s ev)).
Proof.
  intros s ev e D.
  assert (DA : forall i, ble_dead (ble_deliver_at s i) e /\ lfrozen e (b_log s) (b_log (ble_deliver_at s i))).
  { intro i. unfold ble_deliver_at. destruct (b_infl s) eqn:Q; [|split; [exact D|apply lfrozen_refl]].
    apply (ble_dead_deliver (ble_setsrv s (Nat.max (b_srv s) (S i))) (Genuine ((b_ep s, A2C), i)) e). exact D. }
  destruct ev; cbn [ble_step]; try (split; [exact D|apply lfrozen_refl]); try apply DA;
    try (apply ble_dead_abort; exact D).
  - (* Send *)
    unfold ble_send. destruct (b_infl s).
    + split; [exact D|apply lfrozen_refl].
    + apply ble_dead_drain. exact D.
  - (* SendW *)
    unfold ble_send. destruct (b_infl s).
    + split; [exact D|apply lfrozen_refl].
    + apply ble_dead_drain. exact D.
  - (* ReplayOld *)
    destruct (b_infl s); [|split; [exact D|apply lfrozen_refl]].
    destruct (b_ep s) eqn:E; [split; [exact D|apply lfrozen_refl]|].
    apply ble_dead_deliver. exact D.
  - (* Corrupt *)
    destruct (b_infl s) eqn:Q; [|split; [exact D|apply lfrozen_refl]].
    apply (ble_dead_deliver (ble_setsrv s (S (b_srv s))) Junk e). exact D.
  - (* Disconnect *)
    destruct (b_infl s); [apply ble_dead_abort; exact D|].
    split; [|apply lfrozen_refl]. destruct D as [D|[D _]]; [left; exact D|right; split; [exact D|reflexivity]].
  - (* Reconnect *)
    destruct (b_sess s) eqn:Q; [split; [exact D|apply lfrozen_refl]|].
    split; [|apply lfrozen_refl]. left. cbn. destruct D as [D|[D _]]; lia.
  - (* LateDisc *)
    destruct (b_infl s); [split; [exact D|apply lfrozen_refl]|].
    split; [|apply lfrozen_refl]. left. cbn. destruct D as [D|[D _]]; lia.
Qed.

Lemma ble_dead_run : forall h s e, ble_dead s e -> lfrozen e (b_log s) (b_log (ble_run s h)).
Proof.
  induction h as [|ev h IH]; intros s e D; [apply lfrozen_refl|].
  cbn. destruct (ble_dead_step s ev e D) as (D' & F).
  eapply lfrozen_trans; [exact F|]. apply IH. exact D'.
Qed.

Definition ble_finv (s : ble) : Prop := forall e, failed_in (b_log s) e = true -> ble_dead s e.

Lemma ble_finv_drain : forall w ep sess srv nreq L,
    (forall e, failed_in L e = true -> e < ep \/ (e = ep /\ sess = None)) ->
    ble_finv (ble_drain ep sess srv nreq L w).
Proof.
  induction w as [|[[[id n] cont] wf] r IH]; intros ep sess srv nreq L H; cbn [ble_drain].
  - exact H.
  - destruct sess as [[enc dec]|].
    + destruct (match wf with Some j => if Nat.ltb j (ble_frags n) then Some j else None | None => None end) as [j|].
      * apply IH. intros e F. apply failed_in_out in F. destruct F as [F|(o & [<-|[]] & E1 & _)].
        -- rewrite failed_in_wire, failed_in_seal in F. destruct (H e F) as [D|[_ D]]; [left; exact D|discriminate].
        -- right. split; [symmetry; exact E1|reflexivity].
      * intros e F. cbn -[nids ble_frags] in F. rewrite failed_in_wire, failed_in_seal in F.
        destruct (H e F) as [D|[_ D]]; [left; exact D|discriminate].
    + apply IH. intros e F. apply failed_in_out in F. destruct F as [F|(o & [<-|[]] & E1 & _)].
      * apply H. exact F.
      * right. split; [symmetry; exact E1|reflexivity].
Qed.

Lemma ble_dead_weak : forall s e, ble_dead s e -> e < b_ep s \/ (e = b_ep s /\ @None (nat * nat) = None).
Proof. intros s e [D|[D _]]; [left; exact D|right; split; [exact D|reflexivity]]. Qed.

Lemma ble_finv_deliver : forall s f, ble_finv s -> ble_finv (ble_deliver s f).
Proof.
  intros s f F. unfold ble_deliver.
  destruct (b_infl s) as [[id lft]|]; [|exact F].
  destruct (b_sess s) as [[enc dec]|] eqn:Q; [|exact F].
  assert (G : forall e, failed_in (b_log s) e = true -> e < b_ep s).
  { intros e H. destruct (F e H) as [D|[_ D]]; [exact D|congruence]. }
  destruct (opens _ f).
  - assert (K : forall e,
               failed_in (add_out [(b_ep s, id, ROk)]
                            (add_acc [((b_ep s, A2C), dec)] (add_open [(((b_ep s, A2C), dec), true)] (b_log s)))) e = true ->
               e < b_ep s).
    { intros e H. apply failed_in_out in H. destruct H as [H|(o & [<-|[]] & _ & E2)]; [|discriminate].
      rewrite failed_in_acc in H. apply failed_in_open in H.
      destruct H as [H|(o & [<-|[]] & _ & E2)]; [apply G; exact H|discriminate]. }
    destruct lft as [|[|l']].
    + apply ble_finv_drain. intros e H. left. apply K. exact H.
    + apply ble_finv_drain. intros e H. left. apply K. exact H.
    + intros e H. left. cbn in H. rewrite failed_in_acc in H. apply failed_in_open in H.
      destruct H as [H|(o & [<-|[]] & _ & E2)]; [apply G; exact H|discriminate].
  - apply ble_finv_drain. intros e H. apply failed_in_out in H. destruct H as [H|(o & [<-|[]] & E1 & _)].
    + apply failed_in_open in H. destruct H as [H|(o & [<-|[]] & E1 & _)].
      * left. apply G. exact H.
      * right. split; [symmetry; exact E1|reflexivity].
    + right. split; [symmetry; exact E1|reflexivity].
Qed.

Lemma ble_finv_abort : forall s c, ble_finv s -> ble_finv (ble_abort s c).
Proof.
  intros s c F. unfold ble_abort. destruct (b_infl s) as [[id lft]|]; [|exact F].
  apply ble_finv_drain. intros e H. apply failed_in_out in H. destruct H as [H|(o & [<-|[]] & E1 & _)].
  - apply ble_dead_weak. apply F. exact H.
  - right. split; [symmetry; exact E1|reflexivity].
Qed.

Lemma ble_finv_step : forall s ev, ble_finv s -> ble_finv (ble_step s ev).
Proof.
  intros s ev F.
  assert (DA : forall i, ble_finv (ble_deliver_at s i)).
  { intro i. unfold ble_deliver_at. destruct (b_infl s) eqn:Q; [|exact F].
    apply (ble_finv_deliver (ble_setsrv s (Nat.max (b_srv s) (S i)))). exact F. }
  destruct ev; cbn [ble_step]; try exact F; try apply DA; try (apply ble_finv_abort; exact F).
  - unfold ble_send. destruct (b_infl s); [exact F|]. apply ble_finv_drain. exact F.
  - unfold ble_send. destruct (b_infl s); [exact F|]. apply ble_finv_drain. exact F.
  - destruct (b_infl s); [|exact F]. destruct (b_ep s) eqn:E; [exact F|]. apply ble_finv_deliver. exact F.
  - destruct (b_infl s) eqn:Q; [|exact F]. apply (ble_finv_deliver (ble_setsrv s (S (b_srv s)))). exact F.
  - destruct (b_infl s); [apply ble_finv_abort; exact F|].
    intros e H. destruct (F e H) as [D|[D _]]; [left; exact D|right; split; [exact D|reflexivity]].
  - destruct (b_sess s) eqn:Q; [exact F|]. intros e H. left. cbn.
    destruct (F e H) as [D|[D _]]; lia.
  - destruct (b_infl s); [exact F|]. intros e H. left. cbn.
    destruct (F e H) as [D|[D _]]; lia.
Qed.

Lemma ble_finv_init : ble_finv ble_init.
Proof. intros e H. discriminate. Qed.

Lemma ble_finv_run : forall h s, ble_finv s -> ble_finv (ble_run s h).
Proof.
  induction h as [|e h IH]; intros s H; [exact H|]. cbn. apply IH. apply ble_finv_step. exact H.
Qed.

Lemma ble_run_app : forall h1 h2 s, ble_run s (h1 ++ h2) = ble_run (ble_run s h1) h2.
Proof. intros. unfold ble_run. apply fold_left_app. Qed.

Lemma ble_failure_kills_epoch_l : forall h1 h2 e,
    failed_in (b_log (ble_run ble_init h1)) e = true ->
    lfrozen e (b_log (ble_run ble_init h1)) (b_log (ble_run ble_init (h1 ++ h2))).
Proof.
  intros h1 h2 e H. rewrite ble_run_app. apply ble_dead_run.
  apply (ble_finv_run h1 _ ble_finv_init). exact H.
Qed.
